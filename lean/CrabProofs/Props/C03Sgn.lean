import CrabProofs.Lemmas.XDomSgnInst
import CrabProofs.Props.C03

/-!
# C03 for `sign_domain<z_number>` — every operation is sound, proved on the exact model

`Crab.SDom` (CrabModel/Dom/SignDomain.lean + Dom/NonRelEnv.lean) is the branch-by-branch model
of `crab::domains::sign_domain<z_number, VariableName>` over the existing model of
`separate_domain` (`SepDom`, Patricia tree) and of `sign<z_number>` (the table extracted from the
code, `CrabModel/Gen/SignTable.lean`, through the total wrapper `sop`); it is tied to the real code
by the exact correspondence `xdom` (harness/h_cdom.cpp -DXDOM=2, Driver/XDomH.lean: every binding
after every operation of random histories).

Concretisation: `Env.γ e σ := e.isBot = false ∧ ∀ x, σ x ∈ γ(e.at(x))` over integer valuations.
Hypotheses `e.Inv`, `x < 2^64`, `CstOk c`: as in `Props/C03Cst.lean`.

The constraint solving of the class (`extract_sign_constraints`, `solve_strict_inequality`,
`solve_inequality`, the loops over `equal` / `not_equal`) is proved sound from three decidable
checks on the extracted table (`totalCheck`, `latticeCheck`, `divCheck`, CrabProofs/Lemmas/
XDomSgn.lean, XDomSgnSolve.lean).  `divCheck` also shows that the branch `v != rhs` with
`rhs.not_equal_zero()` (it concludes `v == 0`, which would be unsound) is dead code:
a quotient by a non-zero sign is never `!= 0` (`C03.sgndom_neq_branch_dead`).
-/
open Crab Crab.SDom Crab.XDom Crab.Lin

/-! ### transformers -/

/-- `set_sign(x, s)`: `x` receives any member of `s` -/
theorem C03.sgndom_set_sound (e : Env) (he : e.Inv) (σ : State) (x : Var) (hx : x < 2 ^ 64) (c : Sign) (n : Int)
    (hg : e.γ σ) (hn : Sign.mem n c) : (e.set x c).γ (upd σ x n) := Env.set_sound he hg hx hn

/-- `eval_expr(expr)` contains the value of the expression in every state of `γ` -/
theorem C03.sgndom_eval_sound (e : Env) (σ : State) (ex : Expr) (hg : e.γ σ) :
    Sign.mem (ex.eval σ) (e.eval ex) := Env.eval_sound hg ex

/-- `assign(x, e)`, including the single-variable shortcut -/
theorem C03.sgndom_assign_sound (e : Env) (he : e.Inv) (σ : State) (x : Var) (hx : x < 2 ^ 64) (ex : Expr)
    (hg : e.γ σ) : (e.assign x ex).γ (upd σ x (ex.eval σ)) := Env.assign_sound he hg hx ex

/-- `weak_assign(x, e)`: both the old state and the updated state are described -/
theorem C03.sgndom_weak_assign_sound (e : Env) (he : e.Inv) (σ : State) (x : Var) (hx : x < 2 ^ 64) (ex : Expr)
    (hg : e.γ σ) : (e.weakAssign x ex).γ σ ∧ (e.weakAssign x ex).γ (upd σ x (ex.eval σ)) :=
  Env.weakAssign_sound he hg hx ex

/-- `apply(arith op, x, y, z)` for every arithmetic operation (`ArithOp.conc` is the operation on
    mathematical integers; no successor for a division by zero) -/
theorem C03.sgndom_apply_arith_var_sound (e : Env) (he : e.Inv) (σ : State) (op : ArithOp) (x y z : Var)
    (hx : x < 2 ^ 64) (c : Int) (hg : e.γ σ) (hc : op.conc (σ y) (σ z) = some c) :
    (e.applyVar op x y z).γ (upd σ x c) := Env.applyVar_sound he hg op hx y z hc

/-- `apply(arith op, x, y, k)` -/
theorem C03.sgndom_apply_arith_cst_sound (e : Env) (he : e.Inv) (σ : State) (op : ArithOp) (x y : Var)
    (hx : x < 2 ^ 64) (k c : Int) (hg : e.γ σ) (hc : op.conc (σ y) k = some c) :
    (e.applyCst op x y k).γ (upd σ x c) := Env.applyCst_sound he hg op hx y k hc

/-- `apply(bitwise op, x, y, z)` -/
theorem C03.sgndom_apply_bitwise_var_sound (e : Env) (he : e.Inv) (σ : State) (op : BitOp) (x y z : Var)
    (hx : x < 2 ^ 64) (c : Int) (hg : e.γ σ) (hc : op.conc (σ y) (σ z) = some c) :
    (e.applyBitVar op x y z).γ (upd σ x c) := Env.applyBitVar_sound he hg op hx y z hc

/-- `apply(bitwise op, x, y, k)` -/
theorem C03.sgndom_apply_bitwise_cst_sound (e : Env) (he : e.Inv) (σ : State) (op : BitOp) (x y : Var)
    (hx : x < 2 ^ 64) (k c : Int) (hg : e.γ σ) (hc : op.conc (σ y) k = some c) :
    (e.applyBitCst op x y k).γ (upd σ x c) := Env.applyBitCst_sound he hg op hx y k hc

/-- the body of the loop of `solve_constraints` for one constraint (extraction of the facts
    `pivot OP sign`, then the lambdas / loops) -/
theorem C03.sgndom_solve_one_sound (e : Env) (he : e.Inv) (σ : State) (c : Lin.Cst) (hc : CstOk c)
    (hg : e.γ σ) (hsat : c.sat σ) : (e.solveOne c).2.γ σ := Env.solveOne_sound he hg hc hsat

/-- the total wrapper `sop` is the lookup in the extracted table (no lookup fails) -/
theorem C03.sgndom_sop_defined (op : SOp) (x y : Sign) : Sign.binop op x y = some (sop op x y) :=
  binop_eq_sop op x y

/-- a quotient by the sign of a non-zero number is never `!= 0`: the branch of `solve_constraints`
    for `v != rhs` with `rhs.not_equal_zero()` is never taken -/
theorem C03.sgndom_neq_branch_dead (e : Env) (ex : Expr) (hc : ex.Canonical) :
    ∀ t ∈ e.extract ex, t.2.2 ≠ .nez := by
  intro t ht
  unfold Env.extract at ht
  rw [List.mem_filterMap] at ht
  obtain ⟨p, hp, hpt⟩ := ht
  simp only at hpt
  split at hpt
  · cases hpt
  · split at hpt
    · simp only [Option.some.injEq] at hpt; subst hpt
      exact div_ne_nez _ (hc.2 _ hp)
    · cases hpt

/-- `operator+=(csts)` (`solve_constraints`): every state of `γ` that satisfies the system is kept -/
theorem C03.sgndom_assume_sound (e : Env) (he : e.Inv) (σ : State) (csts : Sys) (hc : ∀ c ∈ csts, CstOk c)
    (hg : e.γ σ) (hsat : Sys.sat csts σ) : (e.add csts).γ σ := Env.add_sound he hg hc hsat

/-- `select(lhs, cond, e1, e2)` -/
theorem C03.sgndom_select_sound (e : Env) (he : e.Inv) (σ : State) (lhs : Var) (hx : lhs < 2 ^ 64)
    (cond : Lin.Cst) (e1 e2 : Expr) (hc : CstOk cond) (hg : e.γ σ) :
    (e.select lhs cond e1 e2).γ (upd σ lhs (if cond.sat σ then e1.eval σ else e2.eval σ)) :=
  Env.select_sound he hg hx hc e1 e2

/-- `operator-=(x)` -/
theorem C03.sgndom_forget_sound (e : Env) (he : e.Inv) (σ : State) (x : Var) (hx : x < 2 ^ 64) (n : Int)
    (hg : e.γ σ) : Env.γ (XDom.Env.forget signLattice e x) (upd σ x n) :=
  XDom.Env.forget_sound signLaws he hg hx n

/-- `forget(variables)`: the state may change on the forgotten variables only -/
theorem C03.sgndom_forget_vector_sound (e : Env) (he : e.Inv) (σ σ' : State) (vs : List Var)
    (hv : ∀ v ∈ vs, v < 2 ^ 64) (hg : e.γ σ) (h : ∀ y, y ∉ vs → σ' y = σ y) :
    Env.γ (XDom.Env.forgetAll signLattice e vs) σ' := XDom.Env.forgetAll_sound signLaws he hg hv h

/-- `project(variables)`, both branches of `separate_domain::project`: the state is kept on the
    projected variables only -/
theorem C03.sgndom_project_sound (e : Env) (he : e.Inv) (σ σ' : State) (vs : List Var)
    (hv : ∀ v ∈ vs, v < 2 ^ 64) (hg : e.γ σ) (h : ∀ y ∈ vs, σ' y = σ y) :
    Env.γ (XDom.Env.project signLattice e vs) σ' := XDom.Env.project_sound signLaws he hg hv h

/-- `expand(x, new_x)`: `new_x` receives any value the domain allows for `x` (in particular the
    value of `x`) -/
theorem C03.sgndom_expand_sound (e : Env) (he : e.Inv) (σ : State) (x nx : Var) (hnx : nx < 2 ^ 64) (n : Int)
    (hg : e.γ σ) (hn : Sign.mem n (e.get x)) : Env.γ (XDom.Env.expand signLattice e x nx) (upd σ nx n) :=
  XDom.Env.expand_sound signLaws he hg hnx hn

/-- `rename(from, to)` with distinct sources and distinct, fresh targets: `to[i]` receives the value
    of `from[i]`, the variables outside `from` and `to` keep theirs -/
theorem C03.sgndom_rename_sound (e e' : Env) (he : e.Inv) (σ σ' : State) (frm to : List Var) (hg : e.γ σ)
    (hr : XDom.Env.rename signLattice e frm to = some e')
    (hf : ∀ v ∈ frm, v < 2 ^ 64) (ht : ∀ v ∈ to, v < 2 ^ 64) (hnf : frm.Nodup) (hnt : to.Nodup)
    (hdis : ∀ y ∈ to, y ∉ frm) (hfresh : ∀ y ∈ to, e.tree.lookup y = none)
    (hrel : ∀ p ∈ frm.zip to, σ' p.2 = σ p.1) (hout : ∀ y, y ∉ frm → y ∉ to → σ' y = σ y) : e'.γ σ' :=
  XDom.Env.rename_sound signLaws he hg hr hf ht hnf hnt hdis hfresh hrel hout

/-- `rename` raises CRAB_ERROR exactly on vectors of different lengths (unless nothing is to do) -/
theorem C03.sgndom_rename_defined (e : Env) (frm to : List Var) :
    (XDom.Env.rename signLattice e frm to).isSome =
      (e.isBot || SepDom.isTop e || decide (frm.length = to.length)) := by
  unfold XDom.Env.rename SepDom.rename
  cases hb : e.isBot
  · simp only [Bool.false_eq_true, if_false, Bool.false_or, Bool.or_false]
    split
    · rename_i h; simp [h]
    · rename_i h
      split
      · rename_i h2; simp at h2; simp [h, h2]
      · rename_i h2; simp at h2; simp [h2]
  · simp

/-- integer casts between integer variables (`assign`, plus `dst <= 2^bw - 1` for `zext`) -/
theorem C03.sgndom_cast_sound (e : Env) (he : e.Inv) (σ : State) (zext : Bool) (bw : Nat) (dst src : Var)
    (hd : dst < 2 ^ 64) (hg : e.γ σ) (hz : zext = true → σ src ≤ 2 ^ bw - 1) :
    (e.intCast zext bw dst src).γ (upd σ dst (σ src)) := Env.intCast_sound he hg zext bw hd src hz

/-! ### exported facts -/

/-- `to_linear_constraint_system()` holds in every state of `γ`, and has no solution for bottom -/
theorem C03.sgndom_to_csts_sound (e : Env) (he : e.Inv) (σ : State) (hg : e.γ σ) : Sys.sat e.toCsts σ :=
  Env.toCsts_sound he hg

theorem C03.sgndom_to_csts_bottom (e : Env) (σ : State) (h : e.isBot = true) : ¬ Sys.sat e.toCsts σ :=
  XDom.Env.exportCsts_bot _ h σ

/-- `at(v)` / `operator[](v)` contains the value of `v` in every state of `γ` -/
theorem C03.sgndom_at_sound (e : Env) (σ : State) (x : Var) (hg : e.γ σ) : Itv.mem (σ x) (e.atItv x) :=
  Env.atItv_sound hg x

/-! ### the invariant of `separate_domain` is maintained -/

theorem C03.sgndom_top_bot_inv : SDom.Env.top.Inv ∧ SDom.Env.bot.Inv := ⟨SDom.Env.inv_top, SDom.Env.inv_bot⟩

/-- every statement keeps the invariant -/
theorem C03.sgndom_stmt_inv (st : Stmt) (hok : st.Ok) (a : Env) (h : a.Inv) : (exec st a).Inv := exec_inv st hok h

/-- so do `set`, `rename` and the lattice operations -/
theorem C03.sgndom_set_inv (e : Env) (he : e.Inv) (x : Var) (hx : x < 2 ^ 64) (c : Sign) : (e.set x c).Inv :=
  Env.set_inv he hx c

theorem C03.sgndom_rename_inv (e e' : Env) (he : e.Inv) (frm to : List Var)
    (hr : XDom.Env.rename signLattice e frm to = some e') (hf : ∀ v ∈ frm, v < 2 ^ 64) (ht : ∀ v ∈ to, v < 2 ^ 64) :
    e'.Inv := XDom.Env.rename_inv signLaws he hr hf ht

theorem C03.sgndom_lattice_inv (a b : Env) (ha : a.Inv) (hb : b.Inv) :
    Env.Inv (XDom.Env.join signLattice a b) ∧ Env.Inv (XDom.Env.meet signLattice a b) :=
  ⟨XDom.Env.upper_inv signLaws signLaws.join ha hb, XDom.Env.lower_inv signLaws signLaws.meet ha hb⟩

/-! ### the operations as steps of the generic history contract -/

/-- every statement (one call of `assign` / `weak_assign` / `apply` / `+=` / `select` / `-=` /
    `forget` / `project` / `expand` / cast) is a sound transformer step -/
theorem C03.sgndom_step_trans_sound (d : Nat) (st : Stmt) (hok : st.Ok) :
    (Dom.Step.trans d ⟨execS st hok, st.rel⟩ : Dom.Step SEnv State).Sound SEnv.γ :=
  fun a _ _ hg hr => exec_sound st hok a.2 hg hr

theorem C03.sgndom_step_join_sound (d a b : Nat) :
    (Dom.Step.upper d a b SEnv.join : Dom.Step SEnv State).Sound SEnv.γ :=
  fun x y _ h => XDom.Env.upper_sound signLaws signLaws.join x.2 y.2 h

/-- `operator||` and `widening_thresholds`: both are the join (`m_env | o.m_env`) in this domain -/
theorem C03.sgndom_step_widen_sound (d a b : Nat) :
    (Dom.Step.upper d a b SEnv.widen : Dom.Step SEnv State).Sound SEnv.γ :=
  fun x y _ h => XDom.Env.upper_sound signLaws signLaws.widen x.2 y.2 h

theorem C03.sgndom_step_meet_sound (d a b : Nat) :
    (Dom.Step.lower d a b SEnv.meet : Dom.Step SEnv State).Sound SEnv.γ :=
  fun x y _ h1 h2 => XDom.Env.lower_sound signLaws signLaws.meet x.2 y.2 h1 h2

/-- `operator&&` is the meet (`m_env & o.m_env`) in this domain -/
theorem C03.sgndom_step_narrow_sound (d a b : Nat) :
    (Dom.Step.lower d a b SEnv.narrow : Dom.Step SEnv State).Sound SEnv.γ :=
  fun x y _ h1 h2 => XDom.Env.lower_sound signLaws signLaws.narrow x.2 y.2 h1 h2

/-- the steps an operation history of the constant domain is made of -/
inductive C03.SgndomStep : Dom.Step SEnv State → Prop
  | trans (d : Nat) (st : Stmt) (hok : st.Ok) : C03.SgndomStep (.trans d ⟨execS st hok, st.rel⟩)
  | join (d a b : Nat) : C03.SgndomStep (.upper d a b SEnv.join)
  | widen (d a b : Nat) : C03.SgndomStep (.upper d a b SEnv.widen)
  | meet (d a b : Nat) : C03.SgndomStep (.lower d a b SEnv.meet)
  | narrow (d a b : Nat) : C03.SgndomStep (.lower d a b SEnv.narrow)
  | copy (d s : Nat) : C03.SgndomStep (.copy d s)
  | setBot (d : Nat) : C03.SgndomStep (.setBot d SEnv.bot)

theorem C03.sgndom_step_sound (st : Dom.Step SEnv State) (h : C03.SgndomStep st) : st.Sound SEnv.γ := by
  cases h with
  | trans d s hok => exact C03.sgndom_step_trans_sound d s hok
  | join d a b => exact C03.sgndom_step_join_sound d a b
  | widen d a b => exact C03.sgndom_step_widen_sound d a b
  | meet d a b => exact C03.sgndom_step_meet_sound d a b
  | narrow d a b => exact C03.sgndom_step_narrow_sound d a b
  | copy d s => trivial
  | setBot d => trivial

/-- **C03 for the constant domain**: after ANY history of its operations over a pool of values,
    every slot contains the collecting semantics of the history (instance of `C03.history_sound`) -/
theorem C03.sgndom_history_sound (hist : List (Dom.Step SEnv State)) (hs : ∀ st ∈ hist, C03.SgndomStep st)
    (p : Dom.Pool SEnv) (c : Dom.CPool State) (h : ∀ i s, c i s → (p i).γ s) :
    ∀ i s, (Dom.collHist c hist) i s → ((Dom.runHist p hist) i).γ s :=
  C03.history_sound SEnv.γ hist (fun st hst => C03.sgndom_step_sound st (hs st hst)) p c h

/-- a slot whose collecting semantics is inhabited is never reported bottom -/
theorem C03.sgndom_not_bottom_if_inhabited (hist : List (Dom.Step SEnv State))
    (hs : ∀ st ∈ hist, C03.SgndomStep st) (p : Dom.Pool SEnv) (c : Dom.CPool State)
    (h : ∀ i s, c i s → (p i).γ s) (i : Nat) (s : State) (hc : (Dom.collHist c hist) i s) :
    ((Dom.runHist p hist) i).1.isBot = false := (C03.sgndom_history_sound hist hs p c h i s hc).1

/-- the invariant holds of every slot after any history: the values are subtypes carrying it -/
theorem C03.sgndom_history_inv (hist : List (Dom.Step SEnv State)) (p : Dom.Pool SEnv) (i : Nat) :
    ((Dom.runHist p hist) i).1.Inv := ((Dom.runHist p hist) i).2

/-! ### non-vacuity -/

/-- `assume x > 0; assume y - x >= 0 ... ; z := x * y`: the bindings are exactly the expected ones -/
example :
    let e := exec (.arithVar .mul 2 0 1) (exec (.assume [⟨⟨[(1, -1)], 0⟩, .lt⟩]) (exec (.assume [⟨⟨[(0, -1)], 0⟩, .lt⟩]) SDom.Env.top))
    XDom.Env.bindings e = [(0, .gtz), (1, .gtz), (2, .gtz)] ∧ e.toCsts.length = 3 := by decide +kernel

example : Stmt.Ok (.assume [⟨⟨[(0, -1)], 0⟩, .lt⟩]) := by
  intro c hc
  simp only [List.mem_cons, List.not_mem_nil, or_false] at hc
  subst hc
  exact ⟨by decide, by intro p hp; simp at hp; subst hp; decide⟩

example : SDom.Env.γ (SDom.Env.top.set 0 .gtz) (fun _ => 3) :=
  SDom.Env.set_sound_same SDom.Env.inv_top (XDom.Env.γ_top signLaws _) (by decide) (by decide)
