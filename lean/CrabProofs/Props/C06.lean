import CrabModel.Fix.Interleaved

/-!
# C06 — the fixpoint engine computes the least solution when nothing is extrapolated

`Crab.Fix.run` is the transcription of `wto_iterator` (interleaved_fixpoint_iterator.hpp).
-/
open Crab Crab.Fix

/-- no extrapolation is applied while a loop head has been iterated at most `widening_delay`
    times: the iterator then combines with the join of the value type -/
theorem C06.no_widening_within_delay {A : Type} (c : Ctx A) (iteration : Nat) (a b : A)
    (h : iteration ≤ c.delay) : extrapolate c iteration a b = c.ops.join a b := by
  simp [extrapolate, h]

/-- beyond the delay the widening of the value type is what is applied -/
theorem C06.widening_after_delay {A : Type} (c : Ctx A) (iteration : Nat) (a b : A)
    (h : c.delay < iteration) : extrapolate c iteration a b = c.ops.widen a b := by
  simp [extrapolate]; omega

/-- the first descending step uses the meet, later ones the narrowing -/
theorem C06.refine_first_is_meet {A : Type} (c : Ctx A) (a b : A) :
    refine c 1 a b = c.ops.meet a b := by simp [refine]
