import CrabProofs.Props.C01Engine
import CrabProofs.Props.C06Below

/-!
# C06 — the fixpoint engine computes the least solution when nothing is extrapolated

`Crab.Fix.run` is the transcription of `wto_iterator` (interleaved_fixpoint_iterator.hpp).
-/
open Crab Crab.Fix

/-- no extrapolation is applied while a loop head has been iterated at most `widening_delay`
    times: the iterator then combines with the join of the value type -/
theorem C06.no_widening_within_delay {A : Type} (c : Ctx A) (iteration : Nat) (a b : A)
    (h : iteration ≤ c.delay) : extrapolate c iteration a b = c.ops.join a b := by
  simp [extrapolate, h]

/-- beyond the delay the widening of the value type is what is applied -/
theorem C06.widening_after_delay {A : Type} (c : Ctx A) (iteration : Nat) (a b : A)
    (h : c.delay < iteration) : extrapolate c iteration a b = c.ops.widen a b := by
  simp [extrapolate]; omega

/-- the first descending step uses the meet, later ones the narrowing -/
theorem C06.refine_first_is_meet {A : Type} (c : Ctx A) (a b : A) :
    refine c 1 a b = c.ops.meet a b := by simp [refine]

/-- **Least solution.**  Driven with an exact value type (join = union, meet = intersection,
    bottom = empty, `analyze` = exact image, widening = join, narrowing = meet) over a well-formed
    ordering, every table entry describes exactly the states that reach the block: the iterator
    returns the least solution of the flow equations, for every start block of the ordering
    (the entry may head a loop), every assumption map, delay and number of descending iterations. -/
theorem C06.run_exact {A S : Type} (c : Ctx A) (w : List Comp) (sem : Sem c S) (ex : Exact c sem)
    (wf : WtoWF c w) (fuel : Nat) (st : St A) (h : run c fuel w = some st) (n : Nat) (s : S) :
    (sem.γ (st.pre n) s ↔ ReachPre c sem n s) ∧ (sem.γ (st.post n) s ↔ ReachPost c sem n s) := by
  have hs := C01.run_sound c w S sem fuel st wf h
  have hb := C06.run_below_reach c w S sem fuel st ex wf.entry_mem h
  exact ⟨⟨hb.1 n s, hs.1 n s⟩, ⟨hb.2 n s, hs.2 n s⟩⟩
