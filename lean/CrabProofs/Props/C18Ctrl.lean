import CrabProofs.Lemmas.CrawlCtrlMain
import CrabProofs.Lemmas.CrawlCtrlSpec
import CrabProofs.Props.C18Crawler

/-!
# C18 (control part) — the control dependences of the REPAIRED code over-approximate the real ones

Models: `CrabModel/Transform/Cdg.lean` (`Prog.cdgModel` = `graph_algo::control_dep_graph` after the
fixes d60f473 / e25485d: post-dominance frontiers by the walk of `graph_algo_impl::dominance` up
the immediate-post-dominator tree, plus the blocks reachable from a branch with a successor that
cannot reach the exit; Boost's `lengauer_tarjan_dominator_tree` is modelled by its specification)
and `CrabModel/Transform/Crawler.lean` (`crawl CrawlVariant.fixed` = the crawler after 747e96f /
631458b).  Lemmas: `CrabProofs/Lemmas/CrawlCtrl*.lean`.

Notions (all w.r.t. the exit block `x`; `avoid_iff_path` restates `Avoid` with paths as lists):
  `Avoid P x S n`  some path from `n` to `x` has no block in `S`;
  `PDom P x y n`   every path from `n` to `x` contains `y`;  `CoReach P x n`  `n` reaches `x`.

Proved, for every well-formed CFG (no size bound):
* `C18.pdom_decided`, `C18.coReach_decided`: the boolean tests of the model (`pdomB`,
  `coReachable`) decide post-dominance / reachability of the exit;
  `C18.ipdom_spec`: what the model takes for Boost's `idom[n]` IS the immediate post-dominator
  (a strict post-dominator of `n` that every strict post-dominator of `n` post-dominates), and it
  exists for every block other than the exit that reaches the exit (`C18.ipdom_exists`).
* `C18.cdg_sound` (definition of Ferrante/Ottenstein/Warren = paths TO THE EXIT): if `s1`, `s2` are
  successors of `b`, `s1` reaches the exit, every path from `s1` to the exit passes through `n`
  and some path from `s2` to the exit avoids `n`, then `n` is listed under `b` in the model of the
  repaired `control_dep_graph`.  For a loop header `n = b` (fix d60f473).
  `C18.cdg_sound_escape` (blocks that cannot reach the exit, fix e25485d; this is where the
  definition by maximal paths is needed): if `b` has two successors, one of them cannot reach
  the exit (or there is no exit block), then every block reachable from a successor of `b` is
  listed under `b`.  (Dependences through non-termination of a region that CAN reach the exit are
  not in the graph -- `differCtrl` does not judge runs that are cut by the bound either.)
* `C18.cdg_model_ok`, `C18.cdg_covers_ok`: the model, and every graph that contains it, passes the
  decidable test `isCdgOK` that the crawler theorem needs.
* `C18.crawler_model_isCtrlSol`: the fixpoint of the model of the repaired crawler, for ANY
  control-dependence graph, satisfies the control inequations `isCtrlSol`.
* `C18.crawler_ctrl_sound_partial`: for ANY answer `F` and graph `g` passing the three decidable
  tests `isDataSol`, `isCtrlSol`, `isCdgOK` (the driver runs them on the implementation's answer
  for every program): a variable not listed for assertion `a` at the entry of block `l` is not
  `RelevantCtrl` there -- paired executions under one scheduler that may take different paths.
* `C18.crawler_ctrl_sound`: the full statement for the repaired code: model of the crawler run
  with the model of cdg.hpp, every well-formed CFG (also with blocks that cannot reach the exit
  or without exit block).
* `C18.crawler_ctrl_sound_old`: the OLD full statement `C18.crawler_ctrl_sound_Statement` (false
  for `CrawlVariant.cur`: `C18.crawler_ctrl_counterexample`) HOLDS for the repaired variant.  It
  takes the graph `P.cdgSpec x` of the definition as input (Ferrante/Ottenstein/Warren with the
  iterative post-dominator table `Prog.pdom`) and is restricted to CFGs all of whose blocks reach
  the exit; `C18.pdom_table_correct`: there the table holds exactly the post-dominators, hence the
  graph is complete (`C18.cdg_spec_ok`).  `C18.crawler_ctrl_sound` is the statement about the code:
  graph of cdg.hpp, every CFG.
* Defect of the real code found with the tie (M) of `Driver/CrawlCH.lean`:
  `C18.cdg_impl_counterexample` (dominance.hpp initialises the DFS numbers with 0).
-/
open Crab Crab.TIR

/-! ### post-dominance is decided by the model -/

theorem C18.pdom_decided (P : Prog) (hwf : P.wf = true) (x y n : Label) (hn : n ∈ P.labels) :
    P.pdomB x y n = true ↔ PDom P x y n :=
  pdomB_iff (WFp.of_wf hwf) hn

theorem C18.coReach_decided (P : Prog) (hwf : P.wf = true) (x l : Label) (hx : x ∈ P.labels) :
    l ∈ P.coReachable x ↔ CoReach P x l :=
  coReachable_iff (WFp.of_wf hwf) hx

/-- `Avoid` / `PDom` in terms of paths as lists of blocks -/
theorem C18.pdom_paths (P : Prog) (x y n : Label) :
    PDom P x y n ↔ ∀ π, isPath P (n :: π) = true → (n :: π).getLast? = some x → y ∈ n :: π := by
  unfold PDom
  rw [avoid_iff_path]
  constructor
  · intro h π h1 h2
    apply Classical.byContradiction
    intro hy
    exact h ⟨π, h1, h2, fun m hm e => hy (e ▸ hm)⟩
  · rintro h ⟨π, h1, h2, h3⟩
    exact h3 y (h π h1 h2) rfl

/-- the model's `idom[n]` (specification of Boost's result on the reversed CFG) is the immediate
    post-dominator -/
theorem C18.ipdom_spec (P : Prog) (hwf : P.wf = true) (x n p : Label) (hx : P.exit = some x) (hn : n ∈ P.labels)
    (h : P.ipdom x (P.coReachable x) n = some p) :
    p ≠ n ∧ PDom P x p n ∧ ∀ y, y ≠ n → PDom P x y n → PDom P x y p := by
  obtain ⟨_, h1, h2, _, h3⟩ := ipdom_some (WFp.of_wf hwf) ((WFp.of_wf hwf).exit x hx) hn h
  exact ⟨h1, h2, h3⟩

theorem C18.ipdom_exists (P : Prog) (hwf : P.wf = true) (x n : Label) (hx : P.exit = some x) (hn : n ∈ P.labels)
    (hco : CoReach P x n) (hnx : n ≠ x) : ∃ p, P.ipdom x (P.coReachable x) n = some p :=
  Crab.TIR.ipdom_exists (WFp.of_wf hwf) ((WFp.of_wf hwf).exit x hx) hn hco hnx

/-! ### the control-dependence graph -/

/-- THE MODEL OF THE REPAIRED cdg.hpp CONTAINS EVERY CONTROL DEPENDENCE (paths to the exit) -/
theorem C18.cdg_sound (P : Prog) (hwf : P.wf = true) (x b n s1 s2 : Label) (hx : P.exit = some x)
    (hb : b ∈ P.labels) (h1 : s1 ∈ P.succsOf b) (h2 : s2 ∈ P.succsOf b)
    (hreach : CoReach P x s1) (hall : PDom P x n s1) (havoid : Avoid P x (· = n) s2) :
    n ∈ P.cdgModel.kids b := by
  apply (cdgModel_complete (WFp.of_wf hwf)).fow x b s1 n hx hb h1 hreach hall
  rintro ⟨hnb, hpd⟩
  exact hpd (Avoid.step (fun e => hnb e.symm) h2 havoid)

/-- ... and the blocks behind a branch with a successor that cannot reach the exit -/
theorem C18.cdg_sound_escape (P : Prog) (hwf : P.wf = true) (b n s1 s2 : Label) (hb : b ∈ P.labels)
    (h1 : s1 ∈ P.succsOf b) (h2 : s2 ∈ P.succsOf b) (hne : s1 ≠ s2)
    (hesc : ∀ x, P.exit = some x → ¬ CoReach P x s2 ∨ ¬ CoReach P x s1) (hn : GPath P.succsOf s1 n) :
    n ∈ P.cdgModel.kids b := by
  have h2l := two_le_of_mem_ne h1 h2 hne
  by_cases hc : ∀ x, P.exit = some x → ¬ CoReach P x s2
  · exact (cdgModel_complete (WFp.of_wf hwf)).escape b s2 s1 n hb h2l h2 hc h1 hn
  · refine (cdgModel_complete (WFp.of_wf hwf)).escape b s1 s1 n hb h2l h1 ?_ h1 hn
    intro x hx
    rcases hesc x hx with h | h
    · exact absurd (fun x' hx' => by rw [hx] at hx'; cases hx'; exact h) hc
    · exact h

theorem C18.cdg_model_ok (P : Prog) (hwf : P.wf = true) : isCdgOK P P.cdgModel = true :=
  isCdgOK_of_complete (WFp.of_wf hwf) (cdgModel_complete (WFp.of_wf hwf))

theorem C18.cdg_covers_ok (P : Prog) (hwf : P.wf = true) (g : Cdg) (hc : g.covers P.cdgModel = true) :
    isCdgOK P g = true :=
  isCdgOK_of_complete (WFp.of_wf hwf) (CdgComplete.of_covers hc (cdgModel_complete (WFp.of_wf hwf)))

/-! ### the crawler -/

/-- the fixpoint of the model of the repaired crawler solves the control inequations, for any
    control-dependence graph and any block order that covers the blocks -/
theorem C18.crawler_model_isCtrlSol (P : Prog) (g : Cdg) (order : List Label) (M : InMap) (hwf : P.wf = true)
    (hord : ∀ l, l ∈ P.labels → l ∈ order) (h : crawl CrawlVariant.fixed P g order = some M) :
    isCtrlSol P g M.get = true :=
  crawl_isCtrlSol P g order M (WFp.of_wf hwf).nodup hord h

/-- ANY ANSWER that passes the three decidable tests: a variable that is not listed for `a` at the
    entry of `l` is not relevant there (data and control dependences) -/
theorem C18.crawler_ctrl_sound_partial (P : Prog) (g : Cdg) (F : Label → Facts) (hwf : P.wf = true)
    (hdata : isDataSol P F = true) (hctrl : isCtrlSol P g F = true) (hg : isCdgOK P g = true)
    (a : AId) (l : Label) (y : Var) (hl : l ∈ P.labels) (hy : y ∉ (F l).get a) : ¬ RelevantCtrl P a l 0 y :=
  not_relevantCtrl_any (WFp.of_wf hwf) hdata hctrl hg a hl hy

/-- FULL statement for version `v` of the crawler run with the control-dependence graph of the
    repaired cdg.hpp (its model), on every well-formed CFG -/
def C18.crawler_ctrl_sound_Statement' (v : CrawlVariant) : Prop :=
  ∀ (P : Prog) (order : List Label) (M : InMap),
    P.wf = true → (∀ l, l ∈ P.labels → l ∈ order) → crawl v P P.cdgModel order = some M →
    ∀ (a : AId) (l : Label) (y : Var), l ∈ P.labels → y ∉ (M.get l).get a → ¬ RelevantCtrl P a l 0 y

/-- THE REPAIRED CODE IS SOUND FOR CONTROL DEPENDENCES -/
theorem C18.crawler_ctrl_sound : C18.crawler_ctrl_sound_Statement' CrawlVariant.fixed := by
  intro P order M hwf hord h a l y hl hy
  exact C18.crawler_ctrl_sound_partial P P.cdgModel M.get hwf
    (C18.crawler_model_isDataSol CrawlVariant.fixed P P.cdgModel order M hwf hord h)
    (C18.crawler_model_isCtrlSol P P.cdgModel order M hwf hord h)
    (C18.cdg_model_ok P hwf) a l y hl hy

/-- the repaired crawler with ANY graph that passes `isCdgOK` (e.g. one that contains the model) -/
theorem C18.crawler_ctrl_sound_any_graph (P : Prog) (g : Cdg) (order : List Label) (M : InMap) (hwf : P.wf = true)
    (hord : ∀ l, l ∈ P.labels → l ∈ order) (hg : isCdgOK P g = true)
    (h : crawl CrawlVariant.fixed P g order = some M)
    (a : AId) (l : Label) (y : Var) (hl : l ∈ P.labels) (hy : y ∉ (M.get l).get a) : ¬ RelevantCtrl P a l 0 y :=
  C18.crawler_ctrl_sound_partial P g M.get hwf
    (C18.crawler_model_isDataSol CrawlVariant.fixed P g order M hwf hord h)
    (C18.crawler_model_isCtrlSol P g order M hwf hord h) hg a l y hl hy

/-- the iterative post-dominator table of the specification (`Prog.pdom`, `|blocks| + 2` rounds)
    is correct when every block reaches the exit -/
theorem C18.pdom_table_correct (P : Prog) (hwf : P.wf = true) (x n y : Label) (hx : P.exit = some x)
    (hall : ∀ l, l ∈ P.labels → l ∈ P.coReachable x) (hn : n ∈ P.labels) (hy : y ∈ P.labels) :
    (P.pdom x n).contains y = true ↔ PDom P x y n :=
  pdom_table_iff (WFp.of_wf hwf) ((WFp.of_wf hwf).exit x hx)
    (fun l hl => (coReachable_iff (WFp.of_wf hwf) ((WFp.of_wf hwf).exit x hx)).mp (hall l hl)) hn hy

/-- the graph of the definition passes the test when every block reaches the exit -/
theorem C18.cdg_spec_ok (P : Prog) (hwf : P.wf = true) (x : Label) (hx : P.exit = some x)
    (hall : ∀ l, l ∈ P.labels → l ∈ P.coReachable x) : isCdgOK P (P.cdgSpec x) = true :=
  isCdgOK_of_complete (WFp.of_wf hwf) (cdgSpec_complete (WFp.of_wf hwf) hx
    (fun l hl => (coReachable_iff (WFp.of_wf hwf) ((WFp.of_wf hwf).exit x hx)).mp (hall l hl)))

/-- THE OLD FULL STATEMENT (C18Crawler.lean; false for the tree before the repairs) holds for the
    repaired crawler -/
theorem C18.crawler_ctrl_sound_old : C18.crawler_ctrl_sound_Statement CrawlVariant.fixed := by
  intro P x order M hwf hx hall hord h a l y hl hy
  exact C18.crawler_ctrl_sound_any_graph P (P.cdgSpec x) order M hwf hord (C18.cdg_spec_ok P hwf x hx hall) h
    a l y hl hy

/-! ### non-vacuity -/

/-- the diamond `if (v0 <= 0) v1 := 0 else v1 := 1; assert(v1 <= 0)` (`C18.progCtrlDef`): the model
    of cdg.hpp makes both branch blocks control dependent on `b0`; the repaired crawler lists the
    branch variable `v0` for the assertion at `b0`; all hypotheses of the theorems hold (the order
    covers the blocks, the answer passes the three tests); and `v0` IS relevant there -- so it
    must be listed: the old code did not (`C18.crawler_ctrl_counterexample`) -/
theorem C18.crawler_ctrl_diamond_example :
    C18.progCtrlDef.wf = true ∧ C18.progCtrlDef.cdgModel = [(0, [1, 2])] ∧
    (crawl CrawlVariant.fixed C18.progCtrlDef C18.progCtrlDef.cdgModel [3, 1, 2, 0]).map
      (fun M => (((M.get 0).get (3, 0)).contains 0, isDataSol C18.progCtrlDef M.get,
        isCtrlSol C18.progCtrlDef C18.progCtrlDef.cdgModel M.get)) = some (true, true, true) ∧
    isCdgOK C18.progCtrlDef C18.progCtrlDef.cdgModel = true ∧
    RelevantCtrl C18.progCtrlDef (3, 0) 0 0 0 :=
  ⟨by decide, by decide, by decide, by decide, C18.crawler_ctrl_relevant_progCtrlDef⟩

/-- `while (v0 <= 0) { v0++; v1++ }  assert(v1 <= 0)`: the assertion sits after the loop -/
def C18.progLoopAfter : Prog :=
  { nvars := 2, entry := 0, exit := some 3, hasFd := false, ins := [], outs := [],
    blocks := [⟨0, [], [1], []⟩,
               ⟨1, [], [2, 3], [0, 2]⟩,
               ⟨2, [.assume ⟨.le, ⟨0, [(1, 0)]⟩⟩, .bin .add 0 (.var 0) (.const 1), .bin .add 1 (.var 1) (.const 1)], [1], [1]⟩,
               ⟨3, [.assume ⟨.le, ⟨1, [(-1, 0)]⟩⟩, .assert ⟨.le, ⟨0, [(1, 1)]⟩⟩], [], [1]⟩] }

/-- the loop: the header `b1` and the body `b2` are control dependent on the header (the
    self-dependence is what fix d60f473 added); the variable `v0` of the exit condition is listed
    for the assertion after the loop at the entry block, and it is relevant there (with `v0 = 0`
    the body runs once and the assertion fails, with `v0 = 1` it holds) -/
theorem C18.crawler_ctrl_loop_example :
    C18.progLoopAfter.wf = true ∧ C18.progLoopAfter.cdgModel = [(1, [2, 1])] ∧
    (crawl CrawlVariant.fixed C18.progLoopAfter C18.progLoopAfter.cdgModel [3, 2, 1, 0]).map
      (fun M => (((M.get 0).get (3, 1)).contains 0, isDataSol C18.progLoopAfter M.get,
        isCtrlSol C18.progLoopAfter C18.progLoopAfter.cdgModel M.get)) = some (true, true, true) ∧
    isCdgOK C18.progLoopAfter C18.progLoopAfter.cdgModel = true ∧
    RelevantCtrl C18.progLoopAfter (3, 1) 0 0 0 :=
  ⟨by decide, by decide, by decide, by decide,
   ⟨fun _ => 0, 1, fun _ _ => 0, fun _ _ _ => 0, 8, by decide⟩⟩

/-- the assertion in the loop header (`C18.progLoopHeader`) and the branch into a block that
    cannot reach the exit (`C18.progSink`): the repaired graph has the dependences the old one
    lacked, and the repaired crawler lists `v0` (cf. `C18.crawler_ctrl_self_loop_counterexample`,
    `C18.crawler_ctrl_sink_counterexample`) -/
theorem C18.crawler_ctrl_repaired_examples :
    C18.progLoopHeader.cdgModel = [(1, [2, 1])] ∧
    (crawl CrawlVariant.fixed C18.progLoopHeader C18.progLoopHeader.cdgModel [3, 2, 1, 0]).map
      (fun M => ((M.get 0).get (1, 0)).contains 0) = some true ∧
    C18.progSink.cdgModel = [(0, [1, 2])] ∧
    (crawl CrawlVariant.fixed C18.progSink C18.progSink.cdgModel [1, 2, 0]).map
      (fun M => ((M.get 0).get (2, 1)).contains 0) = some true := by
  decide

/-- the hypotheses of `C18.cdg_sound` are satisfiable: in the diamond, `b1` post-dominates the
    successor `b1` of `b0`, and the path `b2 b3` avoids it -/
example : CoReach C18.progCtrlDef 3 1 ∧ PDom C18.progCtrlDef 3 1 1 ∧ Avoid C18.progCtrlDef 3 (· = 1) 2 :=
  ⟨GPath.step (by decide) (GPath.refl 3), PDom.refl _ _ _,
   Avoid.step (by decide) (show 3 ∈ C18.progCtrlDef.succsOf 2 by decide) (Avoid.here (by decide))⟩

/-! ### the real code: Boost's dominator tree is called with DFS numbers initialised to 0 -/

/-- `b0 -> {b1, b2}; b1 -> b5; b2 -> {b3, b4}; b4 -> b5; b3` has no successor, `b5` is the exit -/
def C18.progDom : Prog :=
  { nvars := 1, entry := 0, exit := some 5, hasFd := false, ins := [], outs := [],
    blocks := [⟨0, [], [1, 2], []⟩, ⟨1, [], [5], [0]⟩, ⟨2, [], [3, 4], [0]⟩, ⟨3, [], [], [2]⟩,
               ⟨4, [], [5], [2]⟩, ⟨5, [], [], [1, 4]⟩] }

/-- what `graph_algo::control_dep_graph` of the tree as it is answers on `progDom` (h_crawl) -/
def C18.progDomImplGraph : Cdg := [(0, [1, 2, 5]), (2, [3, 4, 5])]

/-- DEFECT (dominance.hpp, `dominator_tree`: `df_num(num_vertices(g), 0)`): the vertices that the
    root of the reversed CFG does not reach keep DFS number 0, Boost's test for unreachable
    predecessors never fires, `b2` (it has the successor `b3` that cannot reach the exit) gets the
    unreachable `b3` as semidominator and no immediate dominator; the walk from `b2` stops there.
    `b4` is control dependent on `b0` by the definition (every path from `b2` to the exit passes
    through `b4`, the path `b1 b5` avoids it), the model of cdg.hpp lists it (`C18.cdg_sound`),
    the implementation's graph does not.  The implementation's graph still passes `isCdgOK`, so
    the crawler theorem `C18.crawler_ctrl_sound_partial` applies to the answers of the real code
    on this program. -/
theorem C18.cdg_impl_counterexample :
    C18.progDom.wf = true ∧
    (1 ∈ C18.progDom.succsOf 0 ∧ 2 ∈ C18.progDom.succsOf 0 ∧ CoReach C18.progDom 5 2 ∧
      PDom C18.progDom 5 4 2 ∧ Avoid C18.progDom 5 (· = 4) 1) ∧
    4 ∈ C18.progDom.cdgModel.kids 0 ∧ 4 ∉ C18.progDomImplGraph.kids 0 ∧
    isCdgOK C18.progDom C18.progDomImplGraph = true := by
  refine ⟨by decide, ⟨by decide, by decide, ?_, ?_, ?_⟩, by decide, by decide, by decide⟩
  · exact GPath.step (show 4 ∈ C18.progDom.succsOf 2 by decide)
      (GPath.step (show 5 ∈ C18.progDom.succsOf 4 by decide) (GPath.refl 5))
  · exact (C18.pdom_decided C18.progDom (by decide) 5 4 2 (by decide)).mp (by decide)
  · exact Avoid.step (by decide) (show 5 ∈ C18.progDom.succsOf 1 by decide) (Avoid.here (by decide))
