import CrabProofs.Props.C11Inst

/-!
# C11 instances: computed, non-trivial necessary preconditions (non-vacuity)

The program (`x` = variable 0, `y` = variable 1)

    B0 (entry):  x := y + 1;  goto B1
    B1 (exit):   assert(x <= 5)

analysed backwards in error mode (`good_states = false`) from bottom at the exit block, without
forward invariants (top).  The model computes `x >= 6` before the assertion and `y >= 5` at the
entry block — on the exact interval model and on the canonical zone / octagon models — and the
instantiated theorems apply to these runs with satisfiable hypotheses: the state `y = 5` (which
violates the assertion) is in the precondition because of `C11.idom_bwd_precondition_sound`,
the state `y = 4` (which does not) is outside of it.  On the constant domain the same run
returns top (the theorem holds, the answer carries no information).
Further: `x := y / 2` backwards from `x >= 4` gives `y >= 7` (`BackwardAssignOps`, `OP_SDIV`,
commit ac800bc: `y := x * 2 + r`, `|r| <= 1`; the exact answer is `y >= 8`); by `-3`: `y <= -10`.
-/
open Crab Crab.Bwd Crab.Fix

/-- block 0 = entry `x := y + 1`, block 1 = exit `assert(x - 5 <= 0)` -/
def C11.Ex.prog : Prog :=
  { blocks := [⟨[.assign 0 ⟨1, [(1, 1)]⟩], [1]⟩, ⟨[.assert ⟨.le, ⟨-5, [(1, 0)]⟩⟩], []⟩],
    entry := 0, exit := 1 }

def C11.Ex.nest : Nat → Option (List Nat) := fun n => if n = 1 ∨ n = 0 then some [] else none

/-- the ordering of the reversed graph from the exit block -/
def C11.Ex.wto : List Comp := [.vertex 1, .vertex 0]

theorem C11.Ex.succs (n : Nat) : (C11.Ex.prog.block n).succs = if n = 0 then [1] else [] := by
  match n with
  | 0 => rfl
  | 1 => rfl
  | n + 2 => rfl

/-- the ordering is well formed for the reversed-graph problem of every domain -/
theorem C11.Ex.wf {A : Type} (D : BDom A) (good : Bool) (invAbs : Nat → A) (fin : A) (delay desc : Nat) :
    WtoWF (bwdCtx D C11.Ex.prog good invAbs fin C11.Ex.nest delay desc) C11.Ex.wto where
  nodup := by decide
  closed := by
    intro p n hp _
    have hp' : p ∈ (C11.Ex.prog.block n).succs := hp
    rw [C11.Ex.succs] at hp'
    by_cases h0 : n = 0
    · subst h0; decide
    · simp [h0] at hp'
  edge := by
    intro p n hp _ _
    have hp' : p ∈ (C11.Ex.prog.block n).succs := hp
    rw [C11.Ex.succs] at hp'
    by_cases h0 : n = 0
    · subst h0
      simp only [if_true, List.mem_cons, List.not_mem_nil, or_false] at hp'
      subst hp'
      decide
    · simp [h0] at hp'
  entry_mem := by show (1 : Nat) ∈ nodesList C11.Ex.wto; decide
  nesting_in := by
    intro n hn
    have : n = 1 ∨ n = 0 := by
      simpa [C11.Ex.wto, nodesList, Comp.nodes] using hn
    rcases this with rfl | rfl
    · show C11.Ex.nest 1 = some ((headsOfList 1 C11.Ex.wto).filter (· != 1)); decide
    · show C11.Ex.nest 0 = some ((headsOfList 0 C11.Ex.wto).filter (· != 0)); decide
  nesting_out := by
    intro n hn
    have : ¬ (n = 1 ∨ n = 0) := by
      simpa [C11.Ex.wto, nodesList, Comp.nodes] using hn
    show (if n = 1 ∨ n = 0 then some [] else none) = none
    simp [this]

/-- the state `x = 0, y = k` -/
def C11.Ex.sy (k : Int) : State := fun i => if i = 1 then k else 0

/-- from `y = 5` at the entry block the assertion fails: `x = 6` -/
theorem C11.Ex.coreach_y5 (inv : Nat → State → Prop) (hinv : ∀ n σ, inv n σ) (fin : State → Prop) :
    CoReach C11.Ex.prog inv true fin 0 (C11.Ex.sy 5) := by
  refine CoReach.flow 0 1 (C11.Ex.sy 5) (Bwd.upd (C11.Ex.sy 5) 0 6) (hinv _ _) (by decide) ?_ ?_
  · exact ⟨_, ⟨0, rfl⟩, rfl⟩
  · refine CoReach.fail 1 _ rfl (hinv _ _) (Or.inl ⟨0, ?_⟩)
    simp [stepStmt, Bwd.Cst.sat, Lin.eval, evalTerms, Bwd.upd]

/-! ### intervals -/

def C11.Ex.itvCtx : Ctx IDom.SEnv :=
  bwdCtx ItvB.dom C11.Ex.prog false (fun _ => IDom.SEnv.top) IDom.SEnv.bot C11.Ex.nest 1 1

/-- the run stores `x >= 6` for the exit block and `y >= 5` for the entry block -/
theorem C11.Ex.itv_run :
    (run C11.Ex.itvCtx 10 C11.Ex.wto).map (fun st => ((st.post 0).1, (st.post 1).1)) =
      some (⟨false, [(1, ⟨.fin 5, .pinf⟩)]⟩, ⟨false, [(0, ⟨.fin 6, .pinf⟩)]⟩) := by decide +kernel

/-- `C11.idom_bwd_precondition_sound` applies to this run: the failing state is covered -/
theorem C11.Ex.itv_y5_covered (fuel : Nat) (st : St IDom.SEnv) (h : run C11.Ex.itvCtx fuel C11.Ex.wto = some st) :
    IDom.SEnv.γ (preAt ItvB.dom C11.Ex.prog st.post 0) (C11.Ex.sy 5) :=
  C11.idom_bwd_precondition_sound C11.Ex.prog false (fun _ => IDom.SEnv.top) IDom.SEnv.bot C11.Ex.nest 1 1 C11.Ex.wto fuel
    st (C11.Ex.wf _ _ _ _ _ _) h 0 (C11.Ex.sy 5) (C11.Ex.coreach_y5 _ (fun _ σ => IDom.Env.γ_top σ) _)

/-- and the precondition is not trivial: `y = 4` (no violation: `x = 5`) is outside of it -/
theorem C11.Ex.itv_y4_excluded (st : St IDom.SEnv) (h : run C11.Ex.itvCtx 10 C11.Ex.wto = some st) :
    ¬ IDom.SEnv.γ (preAt ItvB.dom C11.Ex.prog st.post 0) (C11.Ex.sy 4) := by
  have hr := C11.Ex.itv_run
  rw [h] at hr
  simp only [Option.map_some, Option.some.injEq, Prod.mk.injEq] at hr
  have hre : reachExitF C11.Ex.prog 0 = true := by decide
  intro hg
  unfold preAt at hg
  rw [hre, if_pos rfl] at hg
  have h1 := hg.2 1
  rw [hr.1] at h1
  revert h1
  decide

/-! ### division by a constant (commit ac800bc) on intervals -/

/-- `x >= 4` -/
def C11.Ex.xGe4 : IDom.SEnv := ItvB.dom.assume ⟨.le, ⟨4, [(-1, 0)]⟩⟩ IDom.SEnv.top

theorem C11.Ex.itv_sdiv :
    (ItvB.dom.bwdApply .sdiv 0 1 (.const 2) C11.Ex.xGe4 IDom.SEnv.top).1 = ⟨false, [(1, ⟨.fin 7, .pinf⟩)]⟩ ∧
    (ItvB.dom.bwdApply .sdiv 0 1 (.const (-3)) C11.Ex.xGe4 IDom.SEnv.top).1 = ⟨false, [(1, ⟨.ninf, .fin (-10)⟩)]⟩ ∧
    (ItvB.dom.bwdApply .add 0 0 (.const 3) C11.Ex.xGe4 IDom.SEnv.top).1 = ⟨false, [(0, ⟨.fin 1, .pinf⟩)]⟩ ∧
    (ItvB.dom.bwdAssign 0 ⟨1, [(2, 0)]⟩ C11.Ex.xGe4 IDom.SEnv.top).1 = ⟨false, [(0, ⟨.fin 1, .pinf⟩)]⟩ := by
  decide +kernel

/-- `y = 9`: `9 / 2 = 4` is in the postcondition, so `y = 9` is in the result
    (the pre-fix inversion `y := x * 2` alone gave `y >= 8`, which happens to contain it; the state
    lost before the fix is of the kind `y = 7` for the postcondition `x = 3`, see
    `C11.old_generic_backward_apply_counterexample`) -/
example : IDom.SEnv.γ (ItvB.dom.bwdApply .sdiv 0 1 (.const 2) C11.Ex.xGe4 IDom.SEnv.top) (C11.Ex.sy 9) :=
  C11.idom_backward_sdiv_const_sound 0 1 2 (by decide) C11.Ex.xGe4 IDom.SEnv.top (C11.Ex.sy 9) (IDom.Env.γ_top _)
    (ItvB.fwd_sound.assume_sound _ _ _ (IDom.Env.γ_top _)
      (by simp [Bwd.Cst.holds, Lin.eval, evalTerms, Bwd.upd, C11.Ex.sy]))

/-! ### the canonical zone model (2 tracked variables) -/

def C11.Ex.zoneCtx : Ctx (Zones.ZVal 2) :=
  bwdCtx (C11.zoneDom 2) C11.Ex.prog false (fun _ => Zones.ZVal.top) Zones.ZVal.bot C11.Ex.nest 1 1

/-- the intervals of `x` and `y` in the stored values: `y >= 5` at the entry, `x >= 6` at the exit -/
theorem C11.Ex.zone_run :
    (run C11.Ex.zoneCtx 10 C11.Ex.wto).map (fun st =>
      ((st.post 0).map (fun z => (Zones.bounds z 0, Zones.bounds z 1)),
       (st.post 1).map (fun z => (Zones.bounds z 0, Zones.bounds z 1)))) =
      some (some (⟨.ninf, .pinf⟩, ⟨.fin 5, .pinf⟩), some (⟨.fin 6, .pinf⟩, ⟨.ninf, .pinf⟩)) := by
  decide +kernel

theorem C11.Ex.zone_y5_covered (fuel : Nat) (st : St (Zones.ZVal 2)) (h : run C11.Ex.zoneCtx fuel C11.Ex.wto = some st) :
    C11.zoneγ 2 (preAt (C11.zoneDom 2) C11.Ex.prog st.post 0) (C11.Ex.sy 5) :=
  C11.zones_bwd_precondition_sound 2 C11.Ex.prog false (fun _ => Zones.ZVal.top) Zones.ZVal.bot C11.Ex.nest 1 1 C11.Ex.wto
    fuel st (C11.Ex.wf _ _ _ _ _ _) h 0 (C11.Ex.sy 5) (C11.Ex.coreach_y5 _ (fun _ σ => Zones.top_γ _) _)

/-- the entry precondition entails `-y <= -5` and not `-y <= -6` -/
theorem C11.Ex.zone_entry_entails :
    (run C11.Ex.zoneCtx 10 C11.Ex.wto).map (fun st => (st.post 0).map (fun z =>
      (Zones.isBottom z, Zones.entails z (.lb 1 (-5)), Zones.entails z (.lb 1 (-6))))) =
      some (some (false, true, false)) := by decide +kernel

/-! ### the canonical octagon model -/

def C11.Ex.octCtx : Ctx (Octagon.OVal 2) :=
  bwdCtx (C11.octDom 2) C11.Ex.prog false (fun _ => Octagon.OVal.top) Octagon.OVal.bot C11.Ex.nest 1 1

theorem C11.Ex.oct_run :
    (run C11.Ex.octCtx 10 C11.Ex.wto).map (fun st =>
      (st.post 0).map (fun o => (Octagon.boundsC (Octagon.close o) 0, Octagon.boundsC (Octagon.close o) 1))) =
      some (some (⟨.ninf, .pinf⟩, ⟨.fin 5, .pinf⟩)) := by decide +kernel

theorem C11.Ex.oct_y5_covered (fuel : Nat) (st : St (Octagon.OVal 2)) (h : run C11.Ex.octCtx fuel C11.Ex.wto = some st) :
    C11.octγ 2 (preAt (C11.octDom 2) C11.Ex.prog st.post 0) (C11.Ex.sy 5) :=
  C11.oct_bwd_precondition_sound 2 C11.Ex.prog false (fun _ => Octagon.OVal.top) Octagon.OVal.bot C11.Ex.nest 1 1 C11.Ex.wto
    fuel st (C11.Ex.wf _ _ _ _ _ _) h 0 (C11.Ex.sy 5) (C11.Ex.coreach_y5 _ (fun _ σ => Octagon.top_γ _) _)

/-! ### constants and signs: the same run returns top / a sign fact -/

def C11.Ex.cstCtx : Ctx CDom.SEnv :=
  bwdCtx constDom C11.Ex.prog false (fun _ => CDom.SEnv.top) CDom.SEnv.bot C11.Ex.nest 1 1

/-- nothing is known at the entry block (the constant domain cannot express `y >= 5`) -/
theorem C11.Ex.cst_run :
    (run C11.Ex.cstCtx 10 C11.Ex.wto).map (fun st => ((st.post 0).1.isBot, XDom.Env.isTop (st.post 0).1)) =
      some (false, true) := by decide +kernel

theorem C11.Ex.cst_y5_covered (fuel : Nat) (st : St CDom.SEnv) (h : run C11.Ex.cstCtx fuel C11.Ex.wto = some st) :
    CDom.SEnv.γ (preAt constDom C11.Ex.prog st.post 0) (C11.Ex.sy 5) :=
  C11.cst_bwd_precondition_sound C11.Ex.prog false (fun _ => CDom.SEnv.top) CDom.SEnv.bot C11.Ex.nest 1 1 C11.Ex.wto
    fuel st (C11.Ex.wf _ _ _ _ _ _) h 0 (C11.Ex.sy 5)
    (C11.Ex.coreach_y5 _ (fun _ σ => XDom.Env.γ_top CDom.cstLaws σ) _)

def C11.Ex.sgnCtx : Ctx SDom.SEnv :=
  bwdCtx signDom C11.Ex.prog false (fun _ => SDom.SEnv.top) SDom.SEnv.bot C11.Ex.nest 1 1

theorem C11.Ex.sgn_y5_covered (fuel : Nat) (st : St SDom.SEnv) (h : run C11.Ex.sgnCtx fuel C11.Ex.wto = some st) :
    SDom.SEnv.γ (preAt signDom C11.Ex.prog st.post 0) (C11.Ex.sy 5) :=
  C11.sgn_bwd_precondition_sound C11.Ex.prog false (fun _ => SDom.SEnv.top) SDom.SEnv.bot C11.Ex.nest 1 1 C11.Ex.wto
    fuel st (C11.Ex.wf _ _ _ _ _ _) h 0 (C11.Ex.sy 5)
    (C11.Ex.coreach_y5 _ (fun _ σ => XDom.Env.γ_top SDom.signLaws σ) _)

/-- the sign run terminates with a value (the hypothesis of `C11.Ex.sgn_y5_covered` is satisfiable) -/
theorem C11.Ex.sgn_run : (run C11.Ex.sgnCtx 10 C11.Ex.wto).isSome = true := by decide +kernel

