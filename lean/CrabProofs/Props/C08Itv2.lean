import CrabProofs.Lemmas.IntervalDiv
import CrabProofs.Lemmas.IntervalBits
import CrabProofs.Lemmas.IntervalTight
import CrabProofs.Lemmas.IntervalWiden

/-!
# C08 (part 2) — the remaining operations of integer intervals

Property theorems only (helper lemmas live in `CrabProofs/Lemmas/Interval{Div,Bits,Tight,Widen}`).
`Crab.Itv` is the branch-by-branch model of `ikos::interval<z_number>` (`lib/interval.cpp`);
`Itv.mem k i` is `k ∈ γ(i)`.  Every statement quantifies over all intervals (finite or infinite
bounds, bottom included; well-formedness `Itv.WF` only where stated) and all integers.

* division, remainders, bitwise operations, shifts, `trim_interval`: soundness
  (and definedness of `/`: no CRAB_ERROR);
* `+`, `-`, unary `-`, `*`, join, meet: the result is the smallest interval containing all
  concrete results (`+`/`-` are even exact);
* widening: stationarity and the chain condition (well-foundedness of strict widening steps).
-/
open Crab Crab.Itv

/-! ## 1. division -/

/-- `z_interval::operator/` over-approximates the truncating division by a non-zero divisor -/
theorem C08.itv_div_sound (x y r : Itv) (a b : Int) (ha : mem a x) (hb : mem b y) (hb0 : b ≠ 0)
    (h : Itv.div x y = some r) : mem (Int.tdiv a b) r := div_sound ha hb hb0 h

/-- `z_interval::operator/` never reaches CRAB_ERROR (for all operands, well-formed or not) -/
theorem C08.itv_div_defined (x y : Itv) : (Itv.div x y).isSome = true := div_defined x y

/-! ## 2. remainders -/

theorem C08.itv_srem_sound (x y : Itv) (a b : Int) (ha : mem a x) (hb : mem b y) (hb0 : b ≠ 0) :
    mem (Int.tmod a b) (srem x y) := srem_sound ha hb hb0

theorem C08.itv_urem_sound (x y : Itv) (a b : Int) (ha : mem a x) (hb : mem b y)
    (ha0 : 0 ≤ a) (hb0 : 0 < b) : mem (a % b) (urem x y) := urem_sound ha hb ha0 hb0

/-- `UDiv` is top on non-bottom operands: it contains every number -/
theorem C08.itv_udiv_sound (x y : Itv) (a b : Int) (ha : mem a x) (hb : mem b y) (k : Int) :
    mem k (udiv x y) := udiv_sound ha hb k

/-! ## 3. bitwise operations (infinite two's complement, `mpz_and/ior/xor`) -/

theorem C08.itv_and_sound (x y : Itv) (a b : Int) (ha : mem a x) (hb : mem b y) :
    mem (ZNum.land a b) (Itv.and x y) := and_sound ha hb
theorem C08.itv_or_sound (x y : Itv) (a b : Int) (ha : mem a x) (hb : mem b y) :
    mem (ZNum.lor a b) (Itv.or x y) := or_sound ha hb
theorem C08.itv_xor_sound (x y : Itv) (a b : Int) (ha : mem a x) (hb : mem b y) :
    mem (ZNum.lxor a b) (Itv.xor x y) := xor_sound ha hb

/-! ## 4. shifts -/

/-- `Shl` by `k ≥ 0` over-approximates the multiplication by `2^k` -/
theorem C08.itv_shl_sound (x y : Itv) (a k : Int) (ha : mem a x) (hk : mem k y) (h0 : 0 ≤ k) :
    mem (a * 2 ^ k.toNat) (shl x y) := shl_sound ha hk h0

/-- `AShr` by `k ≥ 0` over-approximates the floor division by `2^k` -/
theorem C08.itv_ashr_sound (x y : Itv) (a k : Int) (ha : mem a x) (hk : mem k y) (h0 : 0 ≤ k) :
    mem (a / 2 ^ k.toNat) (ashr x y) := ashr_sound ha hk h0

/-- `LShr` of a non-negative number by `k ≥ 0`: the full statement.  It fails for shift
    amounts `≥ 2^64`, which `z_number::operator>>` reduces modulo `2^64` (`mpz_get_ui`) while
    `AShr`/`Shl` answer top beyond 128 and `LShr` has no such guard. -/
def C08.itv_lshr_sound_Statement : Prop :=
  ∀ (x y : Itv) (a k : Int), mem a x → mem k y → 0 ≤ k → 0 ≤ a →
    mem (a / 2 ^ k.toNat) (lshr x y)

theorem C08.itv_lshr_sound_partial (x y : Itv) (a k : Int) (ha : mem a x) (hk : mem k y)
    (h0 : 0 ≤ k) (h64 : k < 2 ^ 64) (_ha0 : 0 ≤ a) :
    mem (a / 2 ^ k.toNat) (lshr x y) := lshr_sound ha hk h0 h64

/-- `[1,1] LShr [2^64,2^64] = [1,1]`, but `1 >> 2^64 = 0` -/
theorem C08.itv_lshr_sound_counterexample : ¬ C08.itv_lshr_sound_Statement := by
  intro h
  obtain ⟨h1, h2, h3⟩ := lshr_big_shift
  exact h3 (h (single 1) (single (2 ^ 64)) 1 (2 ^ 64) h1 h2 (by decide) (by decide))

/-! ## 5. `trim_interval` -/

/-- trimming by `j` keeps every member different from the singleton value of `j` -/
theorem C08.itv_trim_sound (i j : Itv) (k : Int) (hk : mem k i) (hne : j.singleton? ≠ some k) :
    mem k (trim i j) := trim_sound hk hne
/-- and adds nothing -/
theorem C08.itv_trim_below (i j : Itv) (k : Int) (hk : mem k (trim i j)) : mem k i :=
  trim_below hk

/-! ## 6. smallest interval -/

/-- `+` and `-` are exact on well-formed operands: every member of the result is a sum
    (difference) of members -/
theorem C08.itv_add_exact (x y r : Itv) (k : Int) (hx : x.WF) (hy : y.WF)
    (h : add x y = some r) (hk : mem k r) : ∃ a b, mem a x ∧ mem b y ∧ k = a + b :=
  add_exact hx hy h hk
theorem C08.itv_sub_exact (x y r : Itv) (k : Int) (hx : x.WF) (hy : y.WF)
    (h : sub x y = some r) (hk : mem k r) : ∃ a b, mem a x ∧ mem b y ∧ k = a - b :=
  sub_exact hx hy h hk

/-- any interval `r'` (well-formed or not) that contains all concrete results is above the
    computed interval -/
theorem C08.itv_add_tight (x y r r' : Itv) (hx : x.WF) (hy : y.WF) (h : add x y = some r)
    (hr : ∀ a b, mem a x → mem b y → mem (a + b) r') : leq r r' = true := add_tight hx hy h hr
theorem C08.itv_sub_tight (x y r r' : Itv) (hx : x.WF) (hy : y.WF) (h : sub x y = some r)
    (hr : ∀ a b, mem a x → mem b y → mem (a - b) r') : leq r r' = true := sub_tight hx hy h hr
theorem C08.itv_neg_tight (x r' : Itv) (hx : x.WF) (hr : ∀ a, mem a x → mem (-a) r') :
    leq (neg x) r' = true := neg_tight hx hr
theorem C08.itv_mul_tight (x y r' : Itv) (hx : x.WF) (hy : y.WF)
    (hr : ∀ a b, mem a x → mem b y → mem (a * b) r') : leq (mul x y) r' = true :=
  mul_tight hx hy hr
theorem C08.itv_join_tight (x y r' : Itv) (hx : x.WF) (hy : y.WF)
    (hr : ∀ k, mem k x ∨ mem k y → mem k r') : leq (join x y) r' = true := join_tight hx hy hr
theorem C08.itv_meet_tight (x y r' : Itv) (hx : x.WF) (hy : y.WF)
    (hr : ∀ k, mem k x → mem k y → mem k r') : leq (meet x y) r' = true := meet_tight hx hy hr

/-- the order reflects inclusion of concretisations (well-formed left side) -/
theorem C08.itv_leq_complete (r r' : Itv) (hw : r.WF) (h : ∀ k, mem k r → mem k r') :
    leq r r' = true := leq_of_subset hw h

/-! ## 7. widening -/

/-- widening by a covered value gives nothing new -/
theorem C08.itv_widen_stationary (x y : Itv) (h : leq y x = true) : leq (widen x y) x = true :=
  widen_stationary h

/-- chain condition: the strict widening steps `x ↦ x ∇ y` with `y ⋢ x` are well-founded
    (on all interval values, well-formed or not), so every increasing widened sequence is
    eventually stationary -/
theorem C08.itv_widen_wf :
    WellFounded (fun x' x : Itv => ∃ y, leq y x = false ∧ x' = widen x y) := widen_wf

/-- at most three strict widening steps from any value -/
theorem C08.itv_widen_measure (x y : Itv) (h : leq y x = false) :
    wmeasure (widen x y) < wmeasure x ∧ wmeasure x ≤ 3 := by
  refine ⟨widen_measure h, ?_⟩
  unfold wmeasure; split
  · exact Nat.le_refl _
  · split <;> split <;> omega

/-! ## non-vacuity -/

example : mem (-7) (⟨.ninf, .fin (-2)⟩ : Itv) ∧ mem 3 (⟨.fin (-1), .fin 4⟩ : Itv) ∧
    Itv.div ⟨.ninf, .fin (-2)⟩ ⟨.fin (-1), .fin 4⟩ = some top ∧
    Itv.div ⟨.fin (-6), .fin (-6)⟩ ⟨.fin 3, .fin 4⟩ = some ⟨.fin (-2), .fin (-1)⟩ := by
  refine ⟨by decide, by decide, by decide, by decide⟩

example : srem ⟨.fin (-5), .fin 9⟩ ⟨.fin (-3), .fin 2⟩ = ⟨.fin (-2), .fin 2⟩ ∧
    Itv.or ⟨.fin 1, .fin 5⟩ ⟨.fin 0, .fin 9⟩ = ⟨.fin 0, .fin 15⟩ ∧
    ashr ⟨.fin (-3), .pinf⟩ (single 1) = ⟨.fin (-2), .pinf⟩ ∧
    trim ⟨.fin 2, .fin 7⟩ (single 2) = ⟨.fin 3, .fin 7⟩ := by
  refine ⟨by decide, by decide, by decide, by decide⟩

example : (⟨.fin (-2), .pinf⟩ : Itv).WF ∧ (⟨.ninf, .fin 0⟩ : Itv).WF ∧
    leq (⟨.fin 0, .fin 5⟩ : Itv) ⟨.fin 0, .fin 3⟩ = false ∧
    widen ⟨.fin 0, .fin 3⟩ ⟨.fin 0, .fin 5⟩ = ⟨.fin 0, .pinf⟩ := by
  refine ⟨⟨by simp, by simp⟩, ⟨by simp, by simp⟩, by decide, by decide⟩
