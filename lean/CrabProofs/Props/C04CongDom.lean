import CrabProofs.Lemmas.XDomCongInst

/-!
# C04 for `congruence_domain<z_number>` — inclusion test, lattice operations, `is_bottom`,
`is_top` and `entails` agree with the concretisation (proved on the exact model `Crab.GDom`, see
`Props/C03CongDom.lean` for the model, the correspondence and the hypotheses `Inv`, `CstOk`)
-/
open Crab Crab.GDom Crab.XDom Crab.Lin

/-- a yes answer of `operator<=` is an inclusion of concretisations -/
theorem C04.congdom_leq_sound (a b : Env) (ha : a.Inv) (hb : b.Inv) (σ : State)
    (h : XDom.Env.leq congLattice a b = true) (hg : a.γ σ) : b.γ σ := XDom.Env.leq_sound congLaws ha hb h hg

/-- yes on equal values, with bottom on the left, with top on the right -/
theorem C04.congdom_leq_refl (a : Env) (ha : a.Inv) : XDom.Env.leq congLattice a a = true :=
  XDom.Env.leq_refl congLaws ha
theorem C04.congdom_bot_le (b : Env) : XDom.Env.leq congLattice GDom.Env.bot b = true :=
  XDom.Env.leq_of_bot rfl b
theorem C04.congdom_leq_bottom_left (a b : Env) (h : a.isBot = true) : XDom.Env.leq congLattice a b = true :=
  XDom.Env.leq_of_bot h b
theorem C04.congdom_le_top (a : Env) (ha : a.Inv) : XDom.Env.leq congLattice a GDom.Env.top = true :=
  XDom.Env.leq_top congLaws ha

/-- `is_bottom()` answers yes exactly on the values that describe no state -/
theorem C04.congdom_is_bottom_iff (e : Env) (he : e.Inv) : XDom.Env.isBottom e = true ↔ ∀ σ, ¬ e.γ σ :=
  XDom.Env.isBottom_iff congLaws he

/-- `is_top()` answers yes exactly on the values that describe every state -/
theorem C04.congdom_is_top_iff (e : Env) (he : e.Inv) : XDom.Env.isTop e = true ↔ ∀ σ, e.γ σ :=
  XDom.Env.isTop_iff congLaws he

/-- `make_bottom` describes no state, `make_top` describes every state -/
theorem C04.congdom_bot_empty (σ : State) : ¬ GDom.Env.bot.γ σ := XDom.Env.not_γ_bot σ
theorem C04.congdom_top_all (σ : State) : GDom.Env.top.γ σ := XDom.Env.γ_top congLaws σ
theorem C04.congdom_top_is_top : XDom.Env.isTop GDom.Env.top = true ∧ XDom.Env.isBottom GDom.Env.bot = true := by
  decide

/-- join contains both arguments -/
theorem C04.congdom_join_upper (a b : Env) (ha : a.Inv) (hb : b.Inv) (σ : State) (h : a.γ σ ∨ b.γ σ) :
    Env.γ (XDom.Env.join congLattice a b) σ := XDom.Env.upper_sound congLaws congLaws.join ha hb h

/-- meet is below both arguments … -/
theorem C04.congdom_meet_lower (a b : Env) (ha : a.Inv) (hb : b.Inv) (σ : State)
    (h : Env.γ (XDom.Env.meet congLattice a b) σ) : a.γ σ ∧ b.γ σ :=
  XDom.Env.lower_below congLaws congLaws.meet (fun _ _ _ hk => Cong.meet_exact hk) ha hb h

/-- … and describes exactly the common states -/
theorem C04.congdom_meet_iff (a b : Env) (ha : a.Inv) (hb : b.Inv) (σ : State) :
    Env.γ (XDom.Env.meet congLattice a b) σ ↔ (a.γ σ ∧ b.γ σ) :=
  ⟨C04.congdom_meet_lower a b ha hb σ, fun ⟨h1, h2⟩ => XDom.Env.lower_sound congLaws congLaws.meet ha hb h1 h2⟩

/-- widening (`operator||`, `widening_thresholds`) contains both arguments -/
theorem C04.congdom_widen_upper (a b : Env) (ha : a.Inv) (hb : b.Inv) (σ : State) (h : a.γ σ ∨ b.γ σ) :
    Env.γ (XDom.Env.widen congLattice a b) σ := XDom.Env.upper_sound congLaws congLaws.widen ha hb h

/-- narrowing keeps the common states -/
theorem C04.congdom_narrow_sound (a b : Env) (ha : a.Inv) (hb : b.Inv) (σ : State) (h1 : a.γ σ) (h2 : b.γ σ) :
    Env.γ (XDom.Env.narrow congLattice a b) σ := XDom.Env.lower_sound congLaws congLaws.narrow ha hb h1 h2

/-- `entails(cst)` (`DEFAULT_ENTAILS`): a yes answer holds in every state of `γ` -/
theorem C04.congdom_entails_sound (e : Env) (he : e.Inv) (σ : State) (c : Lin.Cst) (hc : CstOk c) (hg : e.γ σ)
    (h : e.entails c = true) : c.sat σ := GDom.Env.entails_sound he hg hc h

/-- non-vacuity: `{x ∈ 4Z+1} <= {x ∈ 2Z+1}`, not the converse; `{x = 3}` entails `x - 5 <= 0` is
    not provable by congruences (inequalities are ignored), `x - 3 == 0` is -/
example : XDom.Env.leq congLattice (GDom.Env.top.set 0 ⟨false, 4, 1⟩) (GDom.Env.top.set 0 ⟨false, 2, 1⟩) = true ∧
    XDom.Env.leq congLattice (GDom.Env.top.set 0 ⟨false, 2, 1⟩) (GDom.Env.top.set 0 ⟨false, 4, 1⟩) = false ∧
    (GDom.Env.top.set 0 (Cong.ofInt 3)).entails ⟨(Expr.var 0).subNum 5, .leq⟩ = false ∧
    XDom.Env.bindings (XDom.Env.join congLattice (GDom.Env.top.set 0 (Cong.ofInt 3)) (GDom.Env.top.set 0 (Cong.ofInt 7)))
      = [(0, ⟨false, 4, 3⟩)] := by
  decide +kernel
