import CrabProofs.Lemmas.RelDomItvEnv

/-!
# C04 for the relational domains — inclusion test, lattice operations, `is_bottom`, `is_top`
agree with the concretisation (zones and octagons)

Stated on the values with a bottom flag (`ZVal n`, `OVal n`, see `Props/C03Rel.lean`); for two
matrices `some a`, `some b` the operations are those of the canonical models of property C12
(`Zones.leq/join/meet`, `Octagon.leq/join/meet`), and the statements are corollaries of the C12
lemmas (`leq_iff`, `bottom_iff_unsat`, `join_upper`, `join_least`, `meet_exact`).

Zones: everything is an equivalence, for all matrices.  Octagons: the soundness halves hold for all
matrices; the completeness halves (a `false` answer of `<=` / `is_bottom` is justified, the join is
the least upper bound) need the coherence invariant `OVal.Coh` of the left argument, which every
operation maintains (`C03.oct_history_coherent`).
-/
open Crab Crab.Dbm

/-! ## Zones -/
section Zones
open Crab.Zones
variable {n : Nat}

/-- a yes answer of `<=` is an inclusion of concretisations … -/
theorem C04.zones_leq_sound (a b : ZVal n) (σ : State n) (h : ZVal.leq a b = true) (hg : γv a σ) : γv b σ :=
  (ZVal.leq_iff a b).1 h σ hg

/-- … and a no answer is justified: the test is exact -/
theorem C04.zones_leq_iff (a b : ZVal n) : ZVal.leq a b = true ↔ ∀ σ, γv a σ → γv b σ := ZVal.leq_iff a b

theorem C04.zones_leq_refl (a : ZVal n) : ZVal.leq a a = true := (ZVal.leq_iff a a).2 (fun _ h => h)

theorem C04.zones_leq_trans (a b c : ZVal n) (h1 : ZVal.leq a b = true) (h2 : ZVal.leq b c = true) :
    ZVal.leq a c = true :=
  (ZVal.leq_iff a c).2 (fun σ h => (ZVal.leq_iff b c).1 h2 σ ((ZVal.leq_iff a b).1 h1 σ h))

theorem C04.zones_bot_le (b : ZVal n) : ZVal.leq ZVal.bot b = true := rfl

/-- also for a bottom that is not flagged (an unsatisfiable matrix) -/
theorem C04.zones_leq_bottom_left (a b : ZVal n) (h : ZVal.isBottom a = true) : ZVal.leq a b = true :=
  (ZVal.leq_iff a b).2 (fun σ hσ => absurd hσ ((ZVal.isBottom_iff a).1 h σ))

theorem C04.zones_le_top (a : ZVal n) : ZVal.leq a ZVal.top = true :=
  (ZVal.leq_iff a ZVal.top).2 (fun σ _ => Zones.top_γ σ)

/-- `is_bottom()` answers yes exactly on the values that describe no state -/
theorem C04.zones_is_bottom_iff (v : ZVal n) : ZVal.isBottom v = true ↔ ∀ σ, ¬ γv v σ := ZVal.isBottom_iff v

/-- `is_top()` answers yes exactly on the values that describe every state -/
theorem C04.zones_is_top_iff (v : ZVal n) : ZVal.isTop v = true ↔ ∀ σ, γv v σ := ZVal.isTop_iff v

theorem C04.zones_bot_empty (σ : State n) : ¬ γv (ZVal.bot : ZVal n) σ := fun h => h

/-- the canonical unsatisfiable matrix `0 - 0 ≤ -1` -/
theorem C04.zones_canonical_bot (σ : State n) : ¬ γ (Zones.bot : Zone n) σ ∧ isBottom (Zones.bot : Zone n) = true :=
  ⟨Zones.bot_not_γ σ, Zones.isBottom_bot⟩

theorem C04.zones_top_all (σ : State n) : γv (ZVal.top : ZVal n) σ := Zones.top_γ σ

theorem C04.zones_top_is_top : ZVal.isTop (ZVal.top : ZVal n) = true ∧ ZVal.isBottom (ZVal.bot : ZVal n) = true :=
  ⟨(ZVal.isTop_iff _).2 (fun σ => Zones.top_γ σ), rfl⟩

/-- join contains both arguments … -/
theorem C04.zones_join_upper (a b : ZVal n) (σ : State n) (h : γv a σ ∨ γv b σ) : γv (ZVal.join a b) σ :=
  ZVal.join_upper a b σ h

/-- … and is below every value that contains both -/
theorem C04.zones_join_least (a b c : ZVal n) (ha : ZVal.leq a c = true) (hb : ZVal.leq b c = true) :
    ZVal.leq (ZVal.join a b) c = true :=
  (ZVal.leq_iff _ c).2 (ZVal.join_least a b c ((ZVal.leq_iff a c).1 ha) ((ZVal.leq_iff b c).1 hb))

theorem C04.zones_meet_lower (a b : ZVal n) (σ : State n) (h : γv (ZVal.meet a b) σ) : γv a σ ∧ γv b σ :=
  (ZVal.meet_exact a b σ).1 h

theorem C04.zones_meet_iff (a b : ZVal n) (σ : State n) : γv (ZVal.meet a b) σ ↔ (γv a σ ∧ γv b σ) :=
  ZVal.meet_exact a b σ

/-- the widenings of `split_dbm_domain` / `sparse_dbm_domain` contain both arguments -/
theorem C04.zones_widen_upper (a b : ZVal n) (σ : State n) (h : γv a σ ∨ γv b σ) :
    γv (SplitDbm.widen a b) σ ∧ γv (SparseDbm.widen a b) σ :=
  ⟨h.elim (widenE_upper splitEw_soundEw a b σ).1 (widenE_upper splitEw_soundEw a b σ).2,
   h.elim (widenE_upper sparseEw_soundEw a b σ).1 (widenE_upper sparseEw_soundEw a b σ).2⟩

/-- narrowing (`operator&&` is the meet in the code) keeps the common states -/
theorem C04.zones_narrow_sound (a b : ZVal n) (σ : State n) (h1 : γv a σ) (h2 : γv b σ) :
    γv ((ZVal.ops splitEw).narrow a b) σ := (ZVal.meet_exact a b σ).2 ⟨h1, h2⟩

/-- `entails(cst)` answers yes exactly on the implied in-language constraints (C12) -/
theorem C04.zones_entails_iff (z : Zone n) (c : Zones.Cst n) : entails z c = true ↔ ∀ σ, γ z σ → c.sat σ :=
  Zones.entails_iff_implied z c

/-- the inclusion test AS CODED (`split_dbm::operator<=` / `sparse_dbm::operator<=`: edges of the
    right argument covered by the normalised left one, diagonal ignored) is sound on graphs without
    self loops — the representation invariant of the code, not of the canonical matrices -/
theorem C04.zones_coded_leq_sound (a : ZVal n) (l : Zone n) (hl : NoSelfLoop l) (σ : State n)
    (h : SplitDbm.leq a (some l) = true ∨ SparseDbm.leq a (some l) = true) (hg : γv a σ) : γ l σ := by
  cases a with
  | none => exact hg.elim
  | some r =>
    rcases h with h | h
    · exact leqBy_sat hl h _ (splitEw_soundEw r _ hg)
    · exact leqBy_sat hl h _ (sparseEw_soundEw r _ hg)

/-- non-vacuity: `{x ≤ 3, y ≤ x}` is below `{y ≤ 3}` (a derived bound), not conversely -/
example :
    let a : ZVal 2 := ZVal.exec (.assume [.ub 0 3, .diff 1 0 0]) ZVal.top
    let b : ZVal 2 := ZVal.exec (.assume [.ub 1 3]) ZVal.top
    ZVal.leq a b = true ∧ ZVal.leq b a = false ∧ ZVal.isBottom a = false ∧ ZVal.isTop a = false ∧
    ZVal.leq (ZVal.join a b) b = true ∧ ZVal.leq (ZVal.meet a b) a = true ∧
    ZVal.isBottom (ZVal.exec (.assume [.diff 0 1 (-1)]) a) = true := by decide

end Zones

/-! ## Octagons -/
section Octagons
open Crab.Octagon
variable {n : Nat}

/-- a yes answer of `<=` is an inclusion of concretisations (all matrices) -/
theorem C04.oct_leq_sound (a b : OVal n) (σ : Octagon.State n) (h : OVal.leq a b = true) (hg : γv a σ) :
    γv b σ := OVal.leq_sound a b h σ hg

/-- on coherent values the test is exact (tight closure is complete over the integers) -/
theorem C04.oct_leq_iff (a b : OVal n) (hca : OVal.Coh a) : OVal.leq a b = true ↔ ∀ σ, γv a σ → γv b σ :=
  OVal.leq_iff a b hca

theorem C04.oct_leq_refl (a : OVal n) : OVal.leq a a = true := by
  cases a with
  | none => rfl
  | some x =>
    show Octagon.leq x x = true
    unfold Octagon.leq
    rw [Bool.or_eq_true]; right
    simp only [List.all_eq_true]
    intro i _ j _
    rw [W.le_iff]; exact Octagon.close_LE x i j

theorem C04.oct_leq_trans (a b c : OVal n) (hca : OVal.Coh a) (h1 : OVal.leq a b = true)
    (h2 : OVal.leq b c = true) : OVal.leq a c = true :=
  (OVal.leq_iff a c hca).2 (fun σ h => OVal.leq_sound b c h2 σ (OVal.leq_sound a b h1 σ h))

theorem C04.oct_bot_le (b : OVal n) : OVal.leq OVal.bot b = true := rfl

theorem C04.oct_leq_bottom_left (a b : OVal n) (hca : OVal.Coh a) (h : OVal.isBottom a = true) :
    OVal.leq a b = true :=
  (OVal.leq_iff a b hca).2 (fun σ hσ => absurd hσ (OVal.isBottom_sound a h σ))

theorem C04.oct_le_top (a : OVal n) : OVal.leq a OVal.top = true := by
  cases a with
  | none => rfl
  | some x =>
    show Octagon.leq x Octagon.top = true
    unfold Octagon.leq
    rw [Bool.or_eq_true]; right
    simp [Octagon.top, Mat.top, W.le_none]

/-- `is_bottom()`: a yes answer means no state (all matrices) … -/
theorem C04.oct_is_bottom_sound (v : OVal n) (h : OVal.isBottom v = true) (σ : Octagon.State n) : ¬ γv v σ :=
  OVal.isBottom_sound v h σ

/-- … and on coherent values it answers yes exactly on the values without integer state -/
theorem C04.oct_is_bottom_iff (v : OVal n) (hco : OVal.Coh v) : OVal.isBottom v = true ↔ ∀ σ, ¬ γv v σ :=
  OVal.isBottom_iff v hco

/-- `is_top()` answers yes exactly on the values that describe every state (all matrices) -/
theorem C04.oct_is_top_iff (v : OVal n) : OVal.isTop v = true ↔ ∀ σ, γv v σ := OVal.isTop_iff v

theorem C04.oct_bot_empty (σ : Octagon.State n) : ¬ γv (OVal.bot : OVal n) σ := fun h => h
theorem C04.oct_top_all (σ : Octagon.State n) : γv (OVal.top : OVal n) σ := Octagon.top_γ σ
theorem C04.oct_top_is_top : OVal.isTop (OVal.top : OVal n) = true ∧ OVal.isBottom (OVal.bot : OVal n) = true :=
  ⟨(OVal.isTop_iff _).2 (fun σ => Octagon.top_γ σ), rfl⟩

theorem C04.oct_join_upper (a b : OVal n) (σ : Octagon.State n) (h : γv a σ ∨ γv b σ) : γv (OVal.join a b) σ :=
  OVal.join_upper a b σ h

/-- the join of coherent values is the least upper bound among octagons -/
theorem C04.oct_join_least (a b c : OVal n) (hca : OVal.Coh a) (hcb : OVal.Coh b)
    (ha : ∀ σ, γv a σ → γv c σ) (hb : ∀ σ, γv b σ → γv c σ) (σ : Octagon.State n)
    (h : γv (OVal.join a b) σ) : γv c σ := OVal.join_least a b c hca hcb ha hb σ h

theorem C04.oct_meet_lower (a b : OVal n) (σ : Octagon.State n) (h : γv (OVal.meet a b) σ) :
    γv a σ ∧ γv b σ := (OVal.meet_exact a b σ).1 h

theorem C04.oct_meet_iff (a b : OVal n) (σ : Octagon.State n) : γv (OVal.meet a b) σ ↔ (γv a σ ∧ γv b σ) :=
  OVal.meet_exact a b σ

/-- the (textbook) widening contains both arguments; narrowing = meet keeps the common states -/
theorem C04.oct_widen_upper (a b : OVal n) (σ : Octagon.State n) (h : γv a σ ∨ γv b σ) :
    γv (OVal.widen a b) σ := OVal.widen_upper a b σ h

theorem C04.oct_narrow_sound (a b : OVal n) (σ : Octagon.State n) (h1 : γv a σ) (h2 : γv b σ) :
    γv (OVal.ops.narrow a b) σ := (OVal.meet_exact a b σ).2 ⟨h1, h2⟩

/-- `entails(cst)`: sound on all matrices, exact on coherent ones (C12) -/
theorem C04.oct_entails_iff (o : Oct n) (hco : Coherent o) (c : Octagon.Cst n) :
    entails o c = true ↔ ∀ σ, γ o σ → c.sat σ := Octagon.entails_iff_implied o hco c

/-- the coherence hypothesis is satisfiable: top, and everything computed from it -/
theorem C04.oct_coh_closed :
    OVal.Coh (OVal.top : OVal n) ∧ OVal.Coh (OVal.bot : OVal n) ∧
    (∀ st (v : OVal n), OVal.Coh v → OVal.Coh (OVal.exec st v)) ∧
    (∀ a b : OVal n, OVal.Coh a → OVal.Coh b → OVal.Coh (OVal.join a b) ∧ OVal.Coh (OVal.meet a b) ∧
      OVal.Coh (OVal.widen a b)) :=
  ⟨OVal.coh_top, OVal.coh_bot, OVal.coh_exec,
   fun a b ha hb => ⟨OVal.coh_join a b ha hb, OVal.coh_meet a b ha hb, OVal.coh_widen a b ha hb⟩⟩

/-- non-vacuity: `{x + y ≤ 1, x - y ≤ 0}` is below `{x ≤ 0}` only thanks to the integer
    tightening (`2x ≤ 1`), not conversely -/
example :
    let a : OVal 2 := OVal.exec (.assume [.sum 0 1 1, .diff 0 1 0]) OVal.top
    let b : OVal 2 := OVal.exec (.assume [.ub 0 0]) OVal.top
    OVal.leq a b = true ∧ OVal.leq b a = false ∧ OVal.isBottom a = false ∧ OVal.isTop a = false ∧
    OVal.leq (OVal.join a b) b = true ∧ OVal.leq (OVal.meet a b) a = true ∧
    OVal.isBottom (OVal.exec (.assume [.nsum 0 1 (-1), .diff 1 0 0]) a) = true := by decide

end Octagons

/-! ## Interval environments (canonical reference model of C12) -/
section ItvEnvs
open Crab.ItvEnv
variable {n : Nat}

theorem C04.itvenv_leq_sound (a b : Env n) (σ : ItvEnv.State n) (h : ItvEnv.leq a b = true) (hg : γ a σ) :
    γ b σ := ItvEnv.leq_sound a b h σ hg

/-- exact on well-formed environments -/
theorem C04.itvenv_leq_iff (a b : Env n) (hwa : EnvWF a) : ItvEnv.leq a b = true ↔ ∀ σ, γ a σ → γ b σ :=
  ItvEnv.leq_iff a b hwa

theorem C04.itvenv_leq_refl (a : Env n) : ItvEnv.leq a a = true := by
  unfold ItvEnv.leq
  rw [Bool.or_eq_true]; right
  simp only [List.all_eq_true]
  exact fun x _ => Itv.leq_refl _

theorem C04.itvenv_bot_le (a b : Env n) (h : isBottom a = true) : ItvEnv.leq a b = true := by
  simp [ItvEnv.leq, h]

theorem C04.itvenv_le_top (a : Env n) : ItvEnv.leq a ItvEnv.top = true := by
  unfold ItvEnv.leq
  rw [Bool.or_eq_true]; right
  simp only [List.all_eq_true]
  intro x _
  unfold ItvEnv.top; rw [ItvEnv.get_ofFn]; exact Itv.leq_top _

theorem C04.itvenv_is_bottom_iff (e : Env n) (hw : EnvWF e) : isBottom e = true ↔ ∀ σ, ¬ γ e σ :=
  ItvEnv.isBottom_iff_empty e hw

theorem C04.itvenv_is_top_iff (e : Env n) : ItvEnv.isTop e = true ↔ ∀ σ, γ e σ := ItvEnv.isTop_iff e

theorem C04.itvenv_join_upper (a b : Env n) (σ : ItvEnv.State n) (h : γ a σ ∨ γ b σ) : γ (join a b) σ :=
  ItvEnv.join_upper a b σ h

theorem C04.itvenv_meet_lower (a b : Env n) (σ : ItvEnv.State n) (h : γ (meet a b) σ) : γ a σ ∧ γ b σ :=
  (ItvEnv.meet_exact a b σ).1 h

theorem C04.itvenv_meet_iff (a b : Env n) (σ : ItvEnv.State n) : γ (meet a b) σ ↔ (γ a σ ∧ γ b σ) :=
  ItvEnv.meet_exact a b σ

example :
    let a : Env 2 := assumeAll ItvEnv.top [.ub 0 3, .lb 0 0]
    let b : Env 2 := assumeAll ItvEnv.top [.ub 0 5]
    ItvEnv.leq a b = true ∧ ItvEnv.leq b a = false ∧ ItvEnv.isTop a = false ∧
    isBottom (assumeAll a [.lb 0 (-4)]) = true := by decide

end ItvEnvs
