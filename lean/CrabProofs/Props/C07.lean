import CrabProofs.Lemmas.WtoBuild

/-!
# C07 — weak topological orderings are well-formed for every graph

Property theorems only.  Model: `CrabModel/Graph/Wto.lean` (`Crab.Wto.build`, transcription of the
iterative `ikos::wto<G>::visit` / `component`, and `nesting` = `nesting_builder` + `wto::nesting`).
Specification: `CrabProofs/Lemmas/WtoSpec.lean` (`Crab.Wto.WtoWF g e w nest`):
  (a) the flattening of `w` lists exactly the nodes reachable from `e`, each exactly once;
  (b) every edge `u → v` with `u` reachable either goes forward in the flattening or enters the
      head `v` of a cycle of `w` that contains `u`;
  (c) `nest v` = heads of the cycles strictly enclosing `v`, outermost first; undefined outside `w`.
`checkWto` (`CrabModel/Graph/WtoCheck.lean`) is the decision procedure the driver evaluates on the
ordering and nesting table printed by the real implementation, on every line.
`C07.build_wf` is the property itself for the model of the algorithm: for EVERY finite graph
(nodes `0..n-1`, any edges, self loops, irreducible loops, unreachable parts), every entry and every
successor order, the iterative Bourdoncle construction terminates within `fuel g`, never pops an
empty stack (no CRAB_ERROR) and returns a well-formed ordering with the right nesting table.  The
proof (CrabProofs/Lemmas/WtoInv*.lean, WtoStep*.lean, WtoTotal*.lean, WtoBuild.lean) is a Tarjan
style loop invariant over the explicit DFS stack plus a termination measure.
-/
open Crab Crab.Wto

/-- the executable checker accepts only well-formed orderings (all graphs, all tables) -/
theorem C07.checkWto_sound (g : Graph) (e : Nat) (w : List WtoC) (tbl : List (Nat × List Nat))
    (h : checkWto g e w tbl = true) : WtoWF g e w (fun v => tbl.lookup v) :=
  checkWto_sound' h

/-- and accepts every well-formed ordering of a graph whose edges stay inside `0..n-1` -/
theorem C07.checkWto_complete (g : Graph) (hg : g.WF) (e : Nat) (he : e < g.n) (w : List WtoC)
    (tbl : List (Nat × List Nat)) (h : WtoWF g e w (fun v => tbl.lookup v)) :
    checkWto g e w tbl = true :=
  checkWto_complete' hg he h

/-- `nesting_builder`: in an ordering without repeated nodes, the nesting recorded for `v` is
    the list of heads of the cycles strictly enclosing `v`, outermost first -/
theorem C07.nesting_spec (w : List WtoC) (hn : (flattenL w).Nodup) (v : Nat) (hs : List Nat)
    (h : Encl w v hs) : nesting w v = some hs := by
  rw [nesting_eq_nestFind, nestFindL_of_encl h [] hn]; simp

/-- conversely whatever `nesting` answers is the list of heads enclosing an occurrence of `v` -/
theorem C07.nesting_encl (w : List WtoC) (v : Nat) (hs : List Nat) (h : nesting w v = some hs) :
    Encl w v hs := by
  rw [nesting_eq_nestFind] at h
  obtain ⟨hs', hx, he⟩ := encl_of_nestFindL v w [] hs h
  simp at hx; subst hx; exact he

/-- `wto::nesting(n)` is undefined exactly for the nodes that do not occur in the ordering -/
theorem C07.nesting_none (w : List WtoC) (v : Nat) : nesting w v = none ↔ v ∉ flattenL w := by
  rw [nesting_eq_nestFind]; exact nestFindL_none [] v w

/-- (c) of `WtoWF` holds for the model's nesting function on every ordering without repeats -/
theorem C07.nesting_wf (g : Graph) (e : Nat) (w : List WtoC) (nest : Nat → Option (List Nat))
    (h : WtoWF g e w nest) : WtoWF g e w (nesting w) :=
  { h with
    nest_some := fun v hs he => C07.nesting_spec w h.nodup v hs he
    nest_none := fun v hv => (C07.nesting_none w v).2 hv }

/-- the model of `wto(G g, entry)` terminates within `fuel g`, without CRAB_ERROR -/
theorem C07.build_done (g : Graph) (hg : g.WF) (e : Nat) (he : e < g.n) :
    ∃ w, buildOut g e = .done w := by
  obtain ⟨w, st, hrun, _, _⟩ := build_total g hg e he
  exact ⟨w, by simp [buildOut, hrun]⟩

/-- C07 for the model of the algorithm: the ordering built for any graph, from any entry, with
    any successor order, is well-formed, and its nesting table lists the enclosing heads -/
theorem C07.build_wf (g : Graph) (hg : g.WF) (e : Nat) (he : e < g.n) :
    WtoWF g e (build g e) (nesting (build g e)) := by
  obtain ⟨w, st, hrun, hP, hmem⟩ := build_total g hg e he
  have : build g e = w := by simp [build, buildOut, hrun]
  rw [this]
  exact placed_top_wf g e hP hmem

/-- hence the checker accepts the model's output on every graph (what the driver observes) -/
theorem C07.build_checkWto (g : Graph) (hg : g.WF) (e : Nat) (he : e < g.n) :
    checkWto g e (build g e) (nestingTable (build g e)) = true :=
  checkWto_complete' hg he (C07.build_wf g hg e he)

/-- non-vacuity: an irreducible graph (cycle 1-2 entered at 1 and at 2, self loop on 3, node 4
    unreachable); the model's ordering is `0 (1 2 (3))`, it passes the checker, and a wrong
    ordering (`0 1 2 (3)`) does not -/
def C07.exampleGraph : Graph :=
  { n := 5, succ := fun u => match u with | 0 => [1, 2] | 1 => [2] | 2 => [1, 3] | 3 => [3, 1] | 4 => [0] | _ => [] }

example : build C07.exampleGraph 0 = [.vertex 0, .cycle 1 [.vertex 2, .cycle 3 []]] := by rfl
example : checkWto C07.exampleGraph 0 (build C07.exampleGraph 0)
    (nestingTable (build C07.exampleGraph 0)) = true := by decide
example : checkWto C07.exampleGraph 0 [.vertex 0, .vertex 1, .vertex 2, .cycle 3 []]
    [(0, []), (1, []), (2, []), (3, [])] = false := by decide
