import CrabProofs.Lemmas.FixTermination

/-!
# C05 (engine part) — the interleaved fixpoint iterator terminates

`Crab.Fix.run` (transcription of `wto_iterator`, interleaved_fixpoint_iterator.hpp) takes fuel for
its three loops (components of a body, increasing sequence, decreasing sequence).  Under the
widening chain condition `WellFounded (WidenStep c)` some fuel suffices, for every weak topological
ordering term, every start block, every `widening_delay` / `descending_iterations`, every
assumption map and every block transformer; and once enough fuel is given the result does not
depend on it.
-/
open Crab Crab.Fix

/-- C05: every run of the iterator terminates as soon as strict widening steps cannot be chained
    forever (`RunTerminates c w` unfolds to
    `WellFounded (WidenStep c) → ∃ fuel st, run c fuel w = some st`) -/
theorem C05.run_terminates {A : Type} (c : Ctx A) (w : List Comp) : RunTerminates c w :=
  fun wf => run_total c wf w

/-- the same for one component visited from an arbitrary state of the tables -/
theorem C05.visit_terminates {A : Type} (c : Ctx A) (wf : WellFounded (WidenStep c))
    (x : Comp) (st : St A) : ∃ fuel r, visitComp c fuel st x = some r :=
  visitComp_total c wf x st

/-- fuel monotonicity of the four mutually recursive loops: a result obtained with some fuel is
    obtained with any larger fuel -/
theorem C05.fuel_mono_loops {A : Type} (c : Ctx A) (f f' : Nat) (hf : f ≤ f') :
    (∀ st x r, visitComp c f st x = some r → visitComp c f' st x = some r) ∧
    (∀ st xs r, visitList c f st xs = some r → visitList c f' st xs = some r) ∧
    (∀ st h b i p r, ascend c f st h b i p = some r → ascend c f' st h b i p = some r) ∧
    (∀ st h b i p r, descend c f st h b i p = some r → descend c f' st h b i p = some r) :=
  ⟨fun _ _ _ h => visitComp_mono h hf, fun _ _ _ h => visitList_mono h hf,
   fun _ _ _ _ _ _ h => ascend_mono h hf, fun _ _ _ _ _ _ h => descend_mono h hf⟩

/-- fuel monotonicity of `run` -/
theorem C05.fuel_mono {A : Type} (c : Ctx A) (w : List Comp) (f f' : Nat) (st : St A)
    (h : run c f w = some st) (hf : f ≤ f') : run c f' w = some st :=
  run_mono h hf

/-- the result does not depend on the fuel: two successful runs return the same tables -/
theorem C05.fuel_irrelevant {A : Type} (c : Ctx A) (w : List Comp) (f f' : Nat) (st st' : St A)
    (h : run c f w = some st) (h' : run c f' w = some st') : st = st' := by
  have h1 := run_mono h (Nat.le_max_left f f')
  have h2 := run_mono h' (Nat.le_max_right f f')
  rw [h1] at h2
  exact Option.some.inj h2

/-! ### non-vacuity: the chain condition holds for a finite-height value type -/

/-- the two-point lattice `false ≤ true` with widening = join -/
def C05.boolCtx : Ctx Bool where
  ops := { bot := false, top := true, leq := fun a b => !a || b, join := (· || ·),
           meet := (· && ·), widen := (· || ·), narrow := (· && ·) }
  analyze := fun _ a => a
  preds := fun n => if n = 0 then [1] else if n = 1 then [0] else []
  nesting := fun n => if n = 0 then some [] else if n = 1 then some [0] else none
  entry := 0
  init := true
  assumptions := none
  delay := 1
  descending := 2

example : WellFounded (WidenStep C05.boolCtx) := by
  have htrue : Acc (WidenStep C05.boolCtx) true :=
    Acc.intro _ (by rintro y ⟨z, hz, _⟩; simp [C05.boolCtx] at hz)
  refine ⟨fun a => ?_⟩
  cases a
  · refine Acc.intro _ ?_
    rintro y ⟨z, hz, rfl⟩
    simp [C05.boolCtx] at hz
    subst hz
    exact htrue
  · exact htrue

/-- and the model does run on it (a loop `0 → 1 → 0`) -/
example : (run C05.boolCtx 10 [.cycle 0 [.vertex 1]]).isSome = true := by decide

/-! ### the hypothesis cannot be dropped -/

/-- a value type whose order test never succeeds: the increasing sequence never stabilises -/
def C05.loopCtx : Ctx Unit where
  ops := { bot := (), top := (), leq := fun _ _ => false, join := fun _ _ => (),
           meet := fun _ _ => (), widen := fun _ _ => (), narrow := fun _ _ => () }
  analyze := fun _ a => a
  preds := fun _ => [0]
  nesting := fun _ => some []
  entry := 0
  init := ()
  assumptions := none
  delay := 0
  descending := 0

/-- without the chain condition no fuel suffices -/
theorem C05.chain_condition_needed :
    ¬ ∃ fuel st, run C05.loopCtx fuel [.cycle 0 []] = some st := by
  have asc : ∀ f st it pre, ascend C05.loopCtx f st 0 [] it pre = none := by
    intro f
    induction f with
    | zero => intro st it pre; rfl
    | succ f ih =>
      intro st it pre
      rw [ascend_succ]
      cases f with
      | zero => rfl
      | succ g =>
        rw [visitList_nil]
        simp only
        rw [if_neg (by simp [C05.loopCtx])]
        exact ih _ _ _
  rintro ⟨fuel, st, h⟩
  unfold run at h
  cases fuel with
  | zero => simp [visitList_zero] at h
  | succ f =>
    rw [visitList_cons] at h
    cases f with
    | zero => simp [visitComp_zero] at h
    | succ g =>
      rw [visitComp_cycle, asc] at h
      simp [Comp.member, C05.loopCtx] at h

/-- accordingly its widening has an infinite chain of strict steps -/
theorem C05.loopCtx_not_wf : ¬ WellFounded (WidenStep C05.loopCtx) :=
  fun wf => C05.chain_condition_needed (C05.run_terminates _ _ wf)
