import CrabProofs.Props.C05Chain
import CrabProofs.Lemmas.OctWiden

/-!
# C05 (octagon part) — the widening of `split_oct_domain` AS CODED stabilises every chain

Model: `CrabModel/Dom/OctWiden.lean` (`split_oct.hpp`: `operator||`, `widening_thresholds`,
`split_widen`, `split_widen_rels`, `operator<=`).  Unlike the zones widening, `split_widen` does
not only drop edges of the left operand: its last pass ADDS explicit edges of the RIGHT operand
(with the right weight) when the unary bounds of the left operand imply them and an end point is
"unstable", and it may lower a kept weight.  The number of edges is therefore NOT a measure
(`C05.oct_code_edge_count_increases`).  The measure that works is lexicographic:

1. the number of unary bounds (they are only kept with the left weight or dropped, never created:
   `C05.oct_code_bounds_never_created`);
2. while no unary bound is lost: the number of relational edges that the unary bounds of the same
   graph do NOT imply.  Every added or lowered edge is implied by the (unchanged) unary bounds, so
   it never counts; an edge of `x` that `y` covers neither explicitly nor through its unary
   bounds is such a non-implied edge and is dropped or replaced by an implied one.

The argument does not use the unstable set at all (the "Important for termination" test of the
code is not what makes the chain finite), nor the normal form of the right operand: all chain
theorems hold for EVERY `nf` and for every content of `m_unstable` (also the stale vertex numbers
that the code carries over when a variable disappears).

* `C05.oct_code_widen_origin`, `C05.oct_code_widen_upper`: origin of the edges of the result;
  the result contains both operands (integer states), for every sound normal form;
* `C05.oct_code_leq_sound`: the inclusion test on which the iterator stops is sound;
* `C05.oct_code_widen_measure`, `C05.oct_code_strictStep_wf`, `C05.oct_code_widenStep_wf`,
  `C05.oct_code_run_terminates`, `C05.oct_code_chain_first_stationary`: strict steps are well
  founded for every number of variables, every run terminates, a covered `yₖ` occurs within
  `(2n+1)·(4n²+1)` steps;
* `widening_thresholds` ignores its thresholds: same theorems (`.._thresholds_..`).

Closing the left operand (`C05.zones_closed_left_diverges`) does not carry over to the code:
`split_oct_domain::normalize()` closes only the relational part and never re-derives a unary
bound from a relation and another bound (measured with the harness, modes `index` / `indexj`: the
two-counter chain stabilises at step 2 also when `operator[]` normalises the stored left operand
in place before every widening).
-/
open Crab Crab.Fix Crab.Dbm Crab.Octagon Crab.OctW

/-! ## the result of the widening -/

/-- **origin of every edge of the result** `(i, j, a)` (`v i - v j ≤ a`) of `split_widen`:
    (A) an explicit edge of the right operand between two variables that the unary bounds of the
        left operand imply (RIGHT weight — an edge the left operand need not have), or
    (B) an edge of the left operand covered by an explicit edge of the right one (left weight), or
    (C) an edge of the left operand between two variables covered by the unary bounds of the right
        operand (left weight) -/
theorem C05.oct_code_widen_origin {n : Nat} (U : Fin (2 * n) → Bool) (l r : Oct n) (i j : Fin (2 * n))
    (a : Int) (h : (splitWiden U l r).get i j = some a) :
    (r.get i j = some a ∧ isRel i j = true ∧ W.le (implW l i j) (some a) = true) ∨
    (l.get i j = some a ∧ i ≠ j ∧ W.le (r.get i j) (some a) = true) ∨
    (l.get i j = some a ∧ isRel i j = true ∧ W.le (implW r i j) (some a) = true) :=
  splitWiden_cases h

/-- unary bounds are never created and never change weight: a bound of the result is a bound of
    the left operand that the explicit bound of the right operand covers -/
theorem C05.oct_code_bounds_never_created {n : Nat} (U : Fin (2 * n) → Bool) (l r : Oct n)
    (i : Fin (2 * n)) (a : Int) (h : (splitWiden U l r).get i (bar i) = some a) :
    l.get i (bar i) = some a ∧ W.le (r.get i (bar i)) (some a) = true :=
  bnd_splitWiden h

/-- `split_oct_domain::operator||` contains both operands (concretisation over the integers), for
    every sound normal form of the right operand -/
theorem C05.oct_code_widen_upper {n : Nat} {nf : OVal n → Oct n} (hnf : SoundNf nf) (x y : Val n)
    (σ : State n) :
    (γV x σ → γV (widenV nf x y) σ) ∧ (γV y σ → γV (widenV nf x y) σ) :=
  widenV_upper hnf x y σ

/-- .. in particular for the tight closure as normal form -/
theorem C05.oct_code_widen_upper_tight {n : Nat} (x y : Val n) (σ : State n) :
    (γV x σ → γV (widenV nfTight x y) σ) ∧ (γV y σ → γV (widenV nfTight x y) σ) :=
  widenV_upper nfTight_sound x y σ

/-- `widening_thresholds` (thresholds ignored by the code) contains both operands -/
theorem C05.oct_code_widen_thresholds_upper {n : Nat} {nf : OVal n → Oct n} (hnf : SoundNf nf)
    (x y : Val n) (ts : List Int) (σ : State n) :
    (γV x σ → γV (widenThresholds nf x y ts) σ) ∧ (γV y σ → γV (widenThresholds nf x y ts) σ) :=
  widenV_upper hnf x y σ

/-- the graphs of a chain have no self loops -/
theorem C05.oct_code_widen_noSelfLoop {n : Nat} (nf : OVal n → Oct n) (a b : OVal n) :
    ∃ g, widenV nf (some a) (some b) = some g ∧ NoSelfLoop g.g :=
  ⟨_, rfl, splitWiden_noSelfLoop _ _ _⟩

/-- the inclusion test on which the iterator stops is sound -/
theorem C05.oct_code_leq_sound {n : Nat} {nf : OVal n → Oct n} (hnf : SoundNf nf) (y : Val n)
    (a : OVal n) (ha : NoSelfLoop a.g) (h : leqV nf y (some a) = true) (σ : State n) (hy : γV y σ) :
    γV (some a) σ :=
  leqV_sound hnf y a ha h σ hy

/-! ## the chain condition -/

/-- a strict step (`y ⋢ x`, the test of the iterator) lowers
    (is bottom, number of unary bounds, number of relational edges not implied by the unary bounds)
    lexicographically — for every normal form, every unstable set, every number of variables -/
theorem C05.oct_code_widen_measure {n : Nat} (nf : OVal n → Oct n) (x y : Val n)
    (h : leqV nf y x = false) :
    Prod.Lex (· < ·) (Prod.Lex (· < ·) (· < ·)) (omeas (widenV nf x y)) (omeas x) :=
  omeas_widenV_lt nf x y h

/-- between two graphs: a unary bound is lost, or none is and the non-implied relational edges
    become strictly fewer -/
theorem C05.oct_code_widen_counts {n : Nat} (nf : OVal n → Oct n) (a b : OVal n)
    (h : leqV nf (some b) (some a) = false) :
    ∃ g, widenV nf (some a) (some b) = some g ∧
      (nBnd g.g < nBnd a.g ∨ (nBnd g.g = nBnd a.g ∧ nTight g.g < nTight a.g)) ∧
      nBnd a.g ≤ 2 * n ∧ nTight a.g ≤ (2 * n) * (2 * n) := by
  obtain ⟨i, j, k, hne, hk, h1, h2⟩ := leqV_false h
  exact ⟨_, rfl, widen_measure _ (common a b) a.g _ (restrict_dom _ _) hne hk h1 h2, nBnd_le _, nTight_le _⟩

/-- **chain condition of the split-octagon widening as coded** -/
theorem C05.oct_code_strictStep_wf {n : Nat} (nf : OVal n → Oct n) :
    WellFounded (C05.StrictStep (leqV nf) (widenV nf)) :=
  C05.strictStep_wf_of_measure (leqV nf) (widenV nf) _
    (Prod.lex Nat.lt_wfRel (Prod.lex Nat.lt_wfRel Nat.lt_wfRel)).wf omeas
    (fun x y h => C05.oct_code_widen_measure nf x y h)

/-- the same with a (finite) threshold set: the code ignores it -/
theorem C05.oct_code_thresholds_strictStep_wf {n : Nat} (nf : OVal n → Oct n) (ts : List Int) :
    WellFounded (C05.StrictStep (leqV nf) (fun x y => widenThresholds nf x y ts)) :=
  C05.oct_code_strictStep_wf nf

/-- in the engine's form: every context whose order test and widening are the split-octagon ones -/
theorem C05.oct_code_widenStep_wf {n : Nat} (nf : OVal n → Oct n) (c : Ctx (Val n))
    (hleq : c.ops.leq = leqV nf) (hw : c.ops.widen = widenV nf) : WellFounded (WidenStep c) := by
  rw [C05.widenStep_eq, hleq, hw]
  exact C05.oct_code_strictStep_wf nf

/-- every analysis run over the split-octagon operations terminates -/
theorem C05.oct_code_run_terminates {n : Nat} (nf : OVal n → Oct n) (c : Ctx (Val n))
    (hleq : c.ops.leq = leqV nf) (hw : c.ops.widen = widenV nf) (w : List Comp) :
    ∃ fuel st, run c fuel w = some st :=
  C05.run_terminates c w (C05.oct_code_widenStep_wf nf c hleq hw)

/-- **every chain is eventually stationary**: along `xₖ₊₁ = xₖ ∇ yₖ` with arbitrary `yₖ`, a covered
    `yₖ` occurs within the first `(2n+1)·(4n²+1)` steps (one more when the chain starts at bottom) -/
theorem C05.oct_code_chain_first_stationary {n : Nat} (nf : OVal n → Oct n) (xs ys : Nat → Val n)
    (hstep : ∀ k, xs (k + 1) = widenV nf (xs k) (ys k)) :
    ∃ k, k ≤ (2 * n + 1) * ((2 * n) * (2 * n) + 1) ∧ leqV nf (ys k) (xs k) = true := by
  obtain ⟨k, hk, hl⟩ := Zones.chain_first_stationary_on (A := Val n) (B := Val n) (fun _ => True)
    (leqV nf) (widenV nf) (nmeas n) (fun _ _ _ => trivial)
    (fun x y _ h => nmeas_widenV_lt nf x y h) xs ys trivial hstep
  refine ⟨k, Nat.le_trans hk ?_, hl⟩
  cases h0 : xs 0 with
  | none => exact Nat.le_refl _
  | some a => exact Nat.le_of_lt (nmeas_some_lt a)

/-! ## the number of edges is not a measure -/

namespace Crab.OctW.Example

/-- a 4×4 matrix by its entries (two variables: indices 0,1 = `±v0`, 2,3 = `±v1`) -/
def m4 (f : Nat → Nat → W) : Oct 2 := Mat.ofFn fun i j => f i.val j.val

/-- left operand `{v0 = 0, -1 ≤ v1 ≤ 0}`: unary bounds only -/
def l : Oct 2 := m4 fun i j =>
  match i, j with
  | 0, 1 => some 0 | 1, 0 => some 0 | 2, 3 => some 0 | 3, 2 => some 2
  | _, _ => none

/-- right operand `{0 ≤ v0 ≤ 1, -1 ≤ v1 ≤ 0, v0 - v1 ≤ 2, v0 + v1 ≤ 1}`, both copies of each relation:
    the graph `split_oct_domain` holds after `+=` of `v0-v1<=2, v0+v1<=1, v0>=0, v0<=1, v1<=0, v1>=-1`
    (second step of the corpus line "the widening adds edges of the right operand") -/
def r : Oct 2 := m4 fun i j =>
  match i, j with
  | 0, 1 => some 2 | 1, 0 => some 0 | 2, 3 => some 0 | 3, 2 => some 2
  | 0, 2 => some 2 | 3, 1 => some 2 | 0, 3 => some 1 | 2, 1 => some 1
  | _, _ => none

end Crab.OctW.Example

open Crab.OctW.Example in
/-- **the widening adds edges of the right operand**: on a strict step (`v0 ≤ 0` is not covered
    and dropped, which makes the vertex `-v0` unstable) the result has the 3 remaining bounds of
    the left operand plus the two relations of the right operand leaving `-v0`
    (`-v1 - (-v0) ≤ 2`, `v1 - (-v0) ≤ 1`, one copy each; the same step on the real code gives
    exactly this graph): 4 edges become 5.  The measure of
    `C05.oct_code_widen_measure` goes from `(4 bounds, 0 non-implied)` to `(3 bounds, 2 non-implied)`:
    the two added relations were implied by the bounds of the left operand, one of which is gone. -/
theorem C05.oct_code_edge_count_increases :
    leqV nfTight (ofGraph r) (ofGraph l) = false ∧
    (∃ g, widenV nfTight (ofGraph l) (ofGraph r) = some g ∧
      Zones.edges l = 4 ∧ Zones.edges g.g = 5 ∧
      g.g.get 3 1 = some 2 ∧ l.get 3 1 = none ∧ g.g.get 2 1 = some 1 ∧ l.get 2 1 = none ∧
      g.g.get 0 2 = none ∧ g.un = [1] ∧
      nBnd l = 4 ∧ nTight l = 0 ∧ nBnd g.g = 3 ∧ nTight g.g = 2) := by
  refine ⟨by decide, _, rfl, ?_⟩
  decide

/-! ## closing the left operand -/

open Crab.OctW.TwoCounter in
/-- the two-counter chain of `C05.zones_closed_left_diverges` in the octagon model: if the left
    operand is replaced by its EXACT closure before each widening, every one of the first six
    steps is strict (the closure re-derives from `y ≤ x ≤ y+1` the bound the previous widening
    dropped), while the widening of the code (left operand as it is) covers every `yₖ` from step 2
    on.  Checked by evaluation for the prefix only; on the real code the hazard does not exist
    because `normalize()` is not an exact closure (see the header). -/
theorem C05.oct_closed_left_prefix_strict :
    ∀ k : Fin 6, leqV nfTight (ys k) (badChain k) = false ∧
      (2 ≤ k.val → leqV nfTight (ys k) (goodChain k) = true) := by
  decide

/-! ## non-vacuity -/

open Crab.OctW.Example in
/-- the hypotheses of `C05.oct_code_leq_sound` are satisfiable, and the test does succeed on a
    non-trivial pair: `l ⊑ r` (every edge of `r` is explicit in `l` or implied by its bounds) -/
example : NoSelfLoop r ∧ SoundNf (n := 2) nfTight ∧ leqV nfTight (ofGraph l) (ofGraph r) = true ∧
    γV (ofGraph l) (fun _ => 0) := by
  refine ⟨by unfold NoSelfLoop; decide, nfTight_sound, by decide, ?_⟩
  intro i j k hk
  have h0 : ∀ i : Fin (2 * 2), ext (fun _ : Fin 2 => (0 : Int)) i = 0 := by decide
  have hk' : ∀ i j : Fin (2 * 2), ∀ k, l.get i j = some k → 0 ≤ k := by
    intro i j
    cases h : l.get i j with
    | none => intro k hk; cases hk
    | some a =>
      intro k hk; cases hk
      have : ∀ i j : Fin (2 * 2), W.le (some 0) (l.get i j) = true := by decide
      have := this i j
      rw [h] at this
      simpa [W.le] using this
  rw [h0, h0]
  have := hk' i j k hk
  omega

open Crab.OctW.Example in
/-- `C05.oct_code_chain_first_stationary` applies to a concrete chain -/
example : ∃ k, k ≤ 85 ∧
    leqV nfTight (ofGraph r) (Zones.chainOf (widenV nfTight) (ofGraph l) (fun _ => ofGraph r) k) = true :=
  C05.oct_code_chain_first_stationary (n := 2) nfTight
    (Zones.chainOf (widenV nfTight) (ofGraph l) (fun _ => ofGraph r)) (fun _ => ofGraph r) (fun _ => rfl)
