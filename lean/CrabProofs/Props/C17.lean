import CrabProofs.Lemmas.TIRWf
import CrabProofs.Lemmas.TIRDce
import CrabProofs.Lemmas.TIRLower
import CrabProofs.Lemmas.TIRMerge

/-!
# C17 — CFG simplification, dead-code elimination and lowering of proven assertions preserve behaviour

Model: `CrabModel/Transform/{TIR,Simplify,Liveness,Dce}.lean`.  "Behaviour" is `ExitBeh P σ t outs`:
from the input state `σ` some execution completes the exit block after emitting exactly the
events `t` (assume / assert conditions with their outcomes) with the output values `outs`.

* DCE (`TIR.dce`, the transcription of `dead_code_elimination::run`):
  `C17.dce_preserves_Statement v` for version `v` of the liveness code is proved for the current
  tree (`C17.dce_preserves`) and for any version under the two hypotheses that the fixes
  d9754d9 / 2ccd3fb made unnecessary (`C17.dce_preserves_under`); it is FALSE for the behaviour
  before fix 2ccd3fb (`C17.old_dce_counterexample`, explicit old flag).  All carry the side
  condition `defsTotal` ("no statement that may be deleted can stop": no division by a variable
  or by 0), without which even a perfect DCE changes the exit-reaching executions under crab's
  reading of division by zero (`C17.dce_dead_division_counterexample`).
* lowering (`TIR.lower`): `C17.lower_preserves`, unconditional (for every set of positions).
* simplify: `C17Simplify.lean`; here the fold step in terms of the lookups
  (`C17.merge_step_preserves`) and the CRAB_ERROR before fix 4b61ab6 (`C17.old_simplify_error`).
-/
open Crab Crab.TIR

/-! ### dead-code elimination -/

/-- FULL statement for variant `v` of the liveness code: on a well-formed CFG whose deletable
    statements cannot stop, the result of the pass has exactly the same exit-reaching executions -/
def C17.dce_preserves_Statement (v : Variant) : Prop :=
  ∀ (P T : Prog) (order : List Label), P.wf = true → (∀ l, l ∈ P.labels → l ∈ order) →
    P.defsTotal = true → dce v order dceMaxIterations P = some T →
    ∀ σ t outs, ExitBeh P σ t outs ↔ ExitBeh T σ t outs

theorem C17.dce_preserves_under (v : Variant) (P T : Prog) (order : List Label)
    (hwf : P.wf = true) (hord : ∀ l, l ∈ P.labels → l ∈ order) (htot : P.defsTotal = true)
    (hun : v.unreachGen = true ∨ P.noUnreachable = true)
    (hseed : ∀ x, P.exit = some x → seedLabel v P order = some x ∨ P.liveAtExit = [])
    (n : Nat) (h : dce v order n P = some T) (σ : State) (t : List Event) (outs : List Int) :
    ExitBeh P σ t outs ↔ ExitBeh T σ t outs :=
  dce_exitBeh v order n P T h
    ⟨hord, fun _ _ hl => wf_succ_labels hwf hl, wf_exitPresent hwf, hun, hseed⟩ htot σ t outs

theorem C17.dce_preserves : C17.dce_preserves_Statement Variant.cur := by
  intro P T order hwf hord htot h σ t outs
  refine C17.dce_preserves_under Variant.cur P T order hwf hord htot (Or.inl rfl) ?_ _ h σ t outs
  intro x hx
  left
  simp [seedLabel, Variant.cur, hx]

/-- one round with ANY live-out map that contains the specification liveness (C18): every
    execution of the original that does not divide by zero is an execution of the result -/
theorem C17.dce_round_forward (P : Prog) (L : LiveMap) (hL : ∀ l x, LiveAt P [] l x → x ∈ L l)
    (σ : State) (t : List Event) (o : Outcome) (ho : o ≠ .divzero) (h : Beh P σ t o) :
    Beh (dceRound P L) σ t o := by
  have := dce_forward P L hL h ho σ (fun _ _ => rfl)
  rw [← dceRound_stmtsOf] at this
  exact this

/-- and conversely when the deleted statements cannot stop -/
theorem C17.dce_round_backward (P : Prog) (L : LiveMap) (hL : ∀ l x, LiveAt P [] l x → x ∈ L l)
    (htot : dceTotal P L = true) (σ : State) (t : List Event) (o : Outcome)
    (h : Beh (dceRound P L) σ t o) : Beh P σ t o :=
  dce_backward P L hL htot h (P.stmtsOf P.entry) σ (dceRound_stmtsOf P L P.entry) (fun _ _ => rfl)
    (dceTotal_stmtsOf htot P.entry)

/-- second sink:  b0: goto b1, b2     b1 (exit): v1 = 5     b2: (sink)     outputs {v1} -/
def C17.progSeed : Prog :=
  { nvars := 2, entry := 0, exit := some 1, hasFd := true, ins := [0], outs := [1],
    blocks := [⟨0, [], [1, 2], []⟩, ⟨1, [.assign 1 ⟨5, []⟩], [], [0]⟩, ⟨2, [], [], [0]⟩] }

def C17.progSeedDce : Prog :=
  { C17.progSeed with blocks := [⟨0, [], [1, 2], []⟩, ⟨1, [], [], [0]⟩, ⟨2, [], [], [0]⟩] }

/-- before fix 2ccd3fb: with the order [b2, b1, b0] the outputs are live at b2, not at the exit b1,
    and `v1 = 5` in the exit block is deleted -/
theorem C17.old_dce_counterexample : ¬ C17.dce_preserves_Statement Variant.old := by
  intro hS
  have hT : dce Variant.old [2, 1, 0] dceMaxIterations C17.progSeed = some C17.progSeedDce := by decide
  have h := hS _ _ [2, 1, 0] (by decide) (by decide) (by decide) hT (fun _ => 0) [] [5]
  have hP : ExitBeh C17.progSeed (fun _ => 0) [] [5] := by
    refine Exec.goto (l' := 1) (by decide) (by decide) ?_
    show Exec C17.progSeed [.assign 1 ⟨5, []⟩] 1 (fun _ => 0) [] _
    refine Exec.cont (σ' := State.set (fun _ => 0) 1 5) (ev := none) (t := []) 0 rfl ?_
    exact Exec.exit (by decide)
  have hT' := h.mp hP
  -- the transformed program can only output the input value of v1
  unfold ExitBeh Beh at hT'
  have e0 : C17.progSeedDce.stmtsOf C17.progSeedDce.entry = [] := by decide
  rw [e0] at hT'
  rcases Exec.nil_inv hT' with ⟨hex, _⟩ | ⟨_, l', hmem, hrest⟩ | ⟨_, _, _, ho⟩
  · revert hex; decide
  · have hl : l' = 1 ∨ l' = 2 := by
      have : C17.progSeedDce.succsOf C17.progSeedDce.entry = [1, 2] := by decide
      rw [this] at hmem; simpa using hmem
    rcases hl with rfl | rfl
    · have e1 : C17.progSeedDce.stmtsOf 1 = [] := by decide
      rw [e1] at hrest
      rcases Exec.nil_inv hrest with ⟨_, _, ho⟩ | ⟨hex, _⟩ | ⟨hex, _⟩
      · simp only [Outcome.exit.injEq] at ho
        revert ho; decide
      · revert hex; decide
      · revert hex; decide
    · have e2 : C17.progSeedDce.stmtsOf 2 = [] := by decide
      rw [e2] at hrest
      rcases Exec.nil_inv hrest with ⟨hex, _⟩ | ⟨_, l'', hmem', _⟩ | ⟨_, _, _, ho⟩
      · revert hex; decide
      · have : C17.progSeedDce.succsOf 2 = [] := by decide
        rw [this] at hmem'; cases hmem'
      · cases ho
  · cases ho

/-- why `defsTotal` is a hypothesis: a dead division by zero blocks the original (crab: no
    successor state) but not the result -/
def C17.progDeadDiv : Prog :=
  { nvars := 2, entry := 0, exit := some 0, hasFd := false, ins := [], outs := [],
    blocks := [⟨0, [.bin .sdiv 1 (.var 0) (.var 0)], [], []⟩] }

theorem C17.dce_dead_division_counterexample :
    dce Variant.cur [0] dceMaxIterations C17.progDeadDiv =
      some { C17.progDeadDiv with blocks := [⟨0, [], [], []⟩] } ∧
    ExitBeh { C17.progDeadDiv with blocks := [⟨0, [], [], []⟩] } (fun _ => 0) [] [] ∧
    ¬ ExitBeh C17.progDeadDiv (fun _ => 0) [] [] := by
  refine ⟨by decide, Exec.exit (by decide), ?_⟩
  intro h
  unfold ExitBeh Beh at h
  have e0 : C17.progDeadDiv.stmtsOf C17.progDeadDiv.entry = [.bin .sdiv 1 (.var 0) (.var 0)] := by decide
  rw [e0] at h
  obtain ⟨hv, ⟨σ', ev, t', hstep, _, _⟩ | ⟨ev, hstep, _⟩⟩ := Exec.cons_inv h
  · simp [stepStmt, BinOp.eval, Opd.eval] at hstep
  · simp [stepStmt, BinOp.eval, Opd.eval] at hstep

/-! ### lowering of safe assertions -/

/-- for ANY set of assertion positions: the exit-reaching executions are the same, up to the
    kind (assert / assume) recorded in the events of the lowered assertions -/
theorem C17.lower_preserves (P : Prog) (safe : List (Label × Nat)) (σ : State) (outs : List Int) :
    (∀ t, ExitBeh P σ t outs → ∃ t', ExitBeh (lower P safe) σ t' outs ∧ eraseKinds t' = eraseKinds t) ∧
    (∀ t', ExitBeh (lower P safe) σ t' outs → ∃ t, ExitBeh P σ t outs ∧ eraseKinds t = eraseKinds t') := by
  have hk := lower_kindProg P safe
  constructor
  · intro t h
    exact kind_forward P (lower P safe) hk h outs rfl _ (hk.stmts P.entry)
  · intro t' h
    exact kind_forward (lower P safe) P hk.symm h outs rfl _ (hk.symm.stmts P.entry)

/-! ### simplify: the fold step, and the CRAB_ERROR before fix 4b61ab6 -/

/-- folding `b` into its unique predecessor `a` whose unique successor is `b` (the result being
    described by its lookups, `MergeRel`) preserves ALL executions from the entry: same events,
    same final status, same outputs -/
theorem C17.merge_step_preserves (P T : Prog) (a b : Label) (h : MergeRel P T a b)
    (hentry : T.entry = P.entry) (hb : P.entry ≠ b) (σ : State) (t : List Event) (o : Outcome) :
    Beh P σ t o ↔ Beh T σ t o :=
  merge_beh P T a b h hentry hb σ t o

/-- FULL statement: `simplify` returns a CFG for every well-formed CFG -/
def C17.simplify_total_Statement (v : Variant) : Prop := ∀ P : Prog, P.wf = true → (simplify v P).isSome = true

/-- DESIGN §4 #9:  b0 (entry) → b1 → {b2, b3},  b2 → b0 -/
def C17.progEntryMerge : Prog :=
  { nvars := 1, entry := 0, exit := some 3, hasFd := false, ins := [], outs := [],
    blocks := [⟨0, [], [1], [2]⟩, ⟨1, [], [2, 3], [0]⟩, ⟨2, [], [0], [1]⟩, ⟨3, [], [], [1]⟩] }

theorem C17.old_simplify_error : ¬ C17.simplify_total_Statement Variant.old := by
  intro h
  have := h C17.progEntryMerge (by decide)
  revert this
  decide

/-- the current code simplifies the same CFG (nothing to fold) -/
example : (simplify Variant.cur C17.progEntryMerge).map (fun T => (T.labels, T.succsOf 1, T.wf)) =
    some ([0, 1, 2, 3], [2, 3], true) := by decide
