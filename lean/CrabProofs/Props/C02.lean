import CrabProofs.Props.C01Prog
import CrabProofs.Lemmas.CheckerSound

/-!
# C02 — a `safe` / `unreachable` verdict of the assertion checker is never wrong (forward analysis)

Model: `CrabModel/Analysis/Checker.lean` (`assert_property_checker::check`, the statement loop of
`intra_checker::run`).  Semantics: `CrabModel/IR/Semantics.lean` — an assert executed in state σ
emits `check b i σ ok`, `ok = false` iff it fails.

* decision rules: `C02.checkAssert_safe_sound`, `C02.checkAssert_unreachable_sound`,
  `C02.checkBoolAssert_safe_sound`, `C02.checkBoolAssert_unreachable_sound`;
* `C02.checkBlock_sound` : the statement loop, for one block and any execution of the block
  started in a state of the block-entry invariant;
* `C02.fwd_checker_sound` : whole programs, given invariants at block entries that contain
  every state with which an execution arrives (C01's conclusion);
* `C02.fwd_checker_sound_engine` : the same with the tables computed by the proved iterator
  (`C01.program_sound`), so the only hypotheses left are the domain contract and the soundness
  of the abstract transformer.

The discharge of assertions by the combined forward+backward analysis
(`intra_forward_backward_analyzer::discharge_assertions`) is NOT covered by a theorem: the real
code violates the property there.  The two failing programs found by the harness are kept as
machine-checked facts about the concrete semantics (`C02.deadend_assert_fails`,
`C02.bwd_sdiv_assert_fails`): both executions fail an assertion that the real analyzer
classifies `safe` (see the harness replays quoted in the doc comments).
-/
open Crab Crab.Fix Crab.IR Crab.Analysis

theorem C02.checkAssert_safe_sound {A : Type} (D : CheckDom A) (inv : A) (c : Cst) (σ : State) (ch : Int)
    (h : checkAssert D inv c = .safe) (hγ : D.γ inv σ) : stepStmt (.assert c) σ ch = .next σ := by
  simp [stepStmt, checkAssert_safe D inv c σ h hγ]

theorem C02.checkAssert_unreachable_sound {A : Type} (D : CheckDom A) (inv : A) (c : Cst) (σ : State)
    (h : checkAssert D inv c = .unreachable) : ¬ D.γ inv σ :=
  checkAssert_unreachable D inv c σ h

theorem C02.checkBoolAssert_safe_sound {A : Type} (D : CheckDom A) (inv : A) (b : Nat) (σ : State) (ch : Int)
    (h : checkBoolAssert D inv b = .safe) (hγ : D.γ inv σ) : stepStmt (.bassert b) σ ch = .next σ := by
  simp [stepStmt, checkBoolAssert_safe D inv b σ h hγ]

theorem C02.checkBoolAssert_unreachable_sound {A : Type} (D : CheckDom A) (inv : A) (b : Nat) (σ : State)
    (h : checkBoolAssert D inv b = .unreachable) : ¬ D.γ inv σ :=
  checkBoolAssert_unreachable D inv b σ h

/-- one block: if the execution of block `b` starts in a state of the invariant the checker
    starts from, an assert classified `unreachable` is not executed and an assert classified
    `safe` does not fail -/
theorem C02.checkBlock_sound {A : Type} (D : CheckDom A) (tr : Stmt → A → A) (htr : TrSound D tr)
    (p : Program) (pre : Nat → A) (b : Nat) (σ : State) (ch : List Int) (hγ : D.γ (pre b) σ)
    (j : Nat) (σ' : State) (ok : Bool) (v : CheckKind)
    (hev : Event.check b j σ' ok ∈ (runBlock p b σ ch).events)
    (hv : (j, v) ∈ checkBlock D tr p pre b) :
    v ≠ .unreachable ∧ (v = .safe → ok = true) :=
  checkStmts_sound D tr htr b _ 0 (pre b) σ ch hγ j σ' ok v hev hv

/-- C02 (forward analysis): given invariants at the block entries that contain every state with
    which an execution from an initial state arrives, no execution reaches an assert classified
    `unreachable`, and no execution fails an assert classified `safe`. -/
theorem C02.fwd_checker_sound {A : Type} (D : CheckDom A) (tr : Stmt → A → A) (htr : TrSound D tr)
    (p : Program) (pre : Nat → A) (Init : State → Prop)
    (hpre : ∀ n σ0 ch b σ, Init σ0 → Event.enter b σ ∈ IR.run p n σ0 ch → D.γ (pre b) σ)
    (n : Nat) (σ0 : State) (ch : List Int) (h0 : Init σ0)
    (b j : Nat) (σ' : State) (ok : Bool) (v : CheckKind)
    (hev : Event.check b j σ' ok ∈ IR.run p n σ0 ch)
    (hv : (j, v) ∈ checkBlock D tr p pre b) :
    v ≠ .unreachable ∧ (v = .safe → ok = true) := by
  obtain ⟨σ, ch', hen, hc⟩ := exec_check_of_enter p n p.entry σ0 ch b j σ' ok hev
  exact C02.checkBlock_sound D tr htr p pre b σ ch' (hpre n σ0 ch b σ h0 hen) j σ' ok v hc hv

/-- C02 on top of the proved engine: the checker run on the `pre` table returned by the
    interleaved iterator. -/
theorem C02.fwd_checker_sound_engine {A : Type} (c : Ctx A) (w : List Comp) (p : Program)
    (sem : Sem c State) (hr : C01.Reads c p)
    (hstep : ∀ b σ σ', BlockStep p b σ σ' → sem.step b σ σ')
    (hwf : WtoWF c w) (fuel : Nat) (st : St A) (hrun : Crab.Fix.run c fuel w = some st)
    (D : CheckDom A) (hD : D.γ = sem.γ) (tr : Stmt → A → A) (htr : TrSound D tr)
    (n : Nat) (σ0 : State) (ch : List Int) (h0 : sem.γ c.init σ0)
    (b j : Nat) (σ' : State) (ok : Bool) (v : CheckKind)
    (hev : Event.check b j σ' ok ∈ IR.run p n σ0 ch)
    (hv : (j, v) ∈ checkBlock D tr p st.pre b) :
    v ≠ .unreachable ∧ (v = .safe → ok = true) :=
  C02.fwd_checker_sound D tr htr p st.pre (fun σ => sem.γ c.init σ)
    (fun n σ0 ch b σ hi he => by
      rw [hD]
      exact (C01.program_sound c w p sem hr hstep hwf fuel st hrun σ0 hi n ch).1 b σ he)
    n σ0 ch h0 b j σ' ok v hev hv

/-! ### the two shapes on which the combined forward+backward analysis answers `safe` wrongly -/

/-- `B0: goto B1, B2`  `B1: assert(0 < 0)` (dead end)  `B2:` (exit).
    Real code (`prog.fwdbwd`, every domain tried): `(chk (B1 0 safe))`. -/
def C02.deadendProg : Program := ⟨0, 0, 0, 2, #[⟨[], [1, 2]⟩, ⟨[.assert ⟨.lt, ⟨0, []⟩⟩], []⟩, ⟨[], []⟩]⟩

/-- the execution that takes the branch to `B1` fails the assertion -/
theorem C02.deadend_assert_fails :
    Event.check 1 0 ⟨#[], #[]⟩ false ∈ IR.run C02.deadendProg 2 ⟨#[], #[]⟩ [0] := by decide

/-- `B0: v0 := 1; v0 := v0 sdiv 2; v0 := 0; assert(1 <= 0)`, entry = exit.
    Real code (`prog.fwdbwd`, every domain tried): `(chk (B0 3 safe))`. -/
def C02.bwdSdivProg : Program :=
  ⟨1, 0, 0, 0, #[⟨[.assign 0 ⟨1, []⟩, .binop .sdiv 0 0 (.const 2), .assign 0 ⟨0, []⟩, .assert ⟨.le, ⟨1, []⟩⟩], []⟩]⟩

theorem C02.bwd_sdiv_assert_fails :
    Event.check 0 3 ⟨#[0], #[]⟩ false ∈ IR.run C02.bwdSdivProg 1 ⟨#[5], #[]⟩ [] := by decide

/-! ### non-vacuity -/

/-- a domain with two values (`false` = no state, `true` = every state) that entails nothing -/
def C02.Example.dom : CheckDom Bool where
  γ := fun a _ => a = true
  isBottom := fun a => !a
  entails := fun _ _ => false
  assumeBool := fun a _ _ => a
  isBottom_sound := by intro a σ h; simpa using h
  entails_sound := by intro a c σ h; cases h
  assumeBool_sound := by intro a b neg σ h _; exact h

theorem C02.Example.tr_sound : TrSound C02.Example.dom (fun _ a => a) := by
  intro s a σ ch σ' h _; exact h

/-- the checker model classifies the assert of the dead-end program `warning` when the block is
    reachable; with a bottom invariant the contradiction `0 < 0` is `safe` (first branch of
    `check(assert_t&)`), any other assert `unreachable` -/
example : checkBlock C02.Example.dom (fun _ a => a) C02.deadendProg (fun _ => true) 1 = [(0, .warning)] := by decide
example : checkBlock C02.Example.dom (fun _ a => a) C02.deadendProg (fun b => b != 1) 1 = [(0, .safe)] := by decide
example : checkAssert C02.Example.dom false ⟨.le, ⟨0, [(1, 0)]⟩⟩ = .unreachable := by decide
