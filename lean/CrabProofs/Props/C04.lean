import CrabProofs.Lemmas.IntervalLattice
import CrabModel.Dom.History

/-!
# C04 — the inclusion test and the lattice operations agree with concretisation

Scalar level (integer intervals, the value lattice of the interval domain); the
environment-level statements (`<=` of two environments holds exactly when it holds pointwise,
also for environments over different variable sets) are in `Props/C19*.lean`.
-/
open Crab Crab.Itv

/-- yes on equal values, with bottom on the left, with top on the right -/
theorem C04.itv_leq_refl (a : Itv) : leq a a = true := leq_refl a
theorem C04.itv_leq_bottom_left (a b : Itv) (h : a.isBottom = true) : leq a b = true := leq_of_isBottom h b
theorem C04.itv_leq_top_right (a : Itv) : leq a top = true := leq_top a

/-- a yes answer is an inclusion of concretisations -/
theorem C04.itv_leq_sound (a b : Itv) (h : leq a b = true) (k : Int) (hk : mem k a) : mem k b :=
  leq_sound h hk

/-- `is_bottom` is exact: a value reported bottom describes no state, and a value that
    describes no state and is well formed is reported bottom -/
theorem C04.itv_isBottom_sound (a : Itv) (h : a.isBottom = true) (k : Int) : ¬ mem k a :=
  not_mem_of_isBottom h

theorem C04.itv_isBottom_complete (a : Itv) (hw : a.WF) (h : ∀ k, ¬ mem k a) : a.isBottom = true := by
  cases hb : a.isBottom
  · exfalso
    obtain ⟨l, u⟩ := a
    obtain ⟨hl, hu⟩ := hw
    simp only [isBottom, Bound.gt, Bool.not_eq_eq_eq_not, Bool.not_false] at hb
    cases l with
    | pinf => exact hl rfl
    | ninf =>
      cases u with
      | ninf => exact hu rfl
      | pinf => exact h 0 (by simp [mem])
      | fin m => exact h m (by simp [mem])
    | fin n =>
      cases u with
      | ninf => exact hu rfl
      | pinf => exact h n (by simp [mem])
      | fin m => simp at hb; exact h n (by simp [mem]; omega)
  · rfl

/-- `is_top` is exact -/
theorem C04.itv_isTop_iff (a : Itv) (hw : a.WF) : a.isTop = true ↔ ∀ k, mem k a := by
  obtain ⟨l, u⟩ := a
  obtain ⟨hl, hu⟩ := hw
  constructor
  · intro h k; cases l <;> cases u <;> simp_all [isTop, Bound.isInfinite, mem]
  · intro h
    cases l with
    | pinf => exact absurd rfl hl
    | ninf =>
      cases u with
      | ninf => exact absurd rfl hu
      | pinf => rfl
      | fin m => have := (h (m + 1)).2; simp at this; omega
    | fin n =>
      have := (h (n - 1)).1; simp at this; omega

/-- join contains both arguments, meet contains (exactly) the common states -/
theorem C04.itv_join_upper (a b : Itv) (k : Int) (hk : mem k a ∨ mem k b) : mem k (join a b) :=
  hk.elim join_upper_left join_upper_right
theorem C04.itv_meet_iff (a b : Itv) (k : Int) : mem k (meet a b) ↔ (mem k a ∧ mem k b) :=
  ⟨meet_exact, fun ⟨h1, h2⟩ => meet_sound h1 h2⟩

/-- make_bottom / make_top -/
theorem C04.itv_bot_isBottom : Itv.bot.isBottom = true := by decide
theorem C04.itv_top_isTop : Itv.top.isTop = true := by decide

/-- pool level: whenever a sound inclusion test answers yes for two pool slots after any
    history, every witness of the left slot's collecting semantics is described by the right
    slot (what the correspondence evaluates on the real domains) -/
theorem C04.pool_leq_sound {A S : Type} (γ : A → S → Prop) (leq : A → A → Bool)
    (hl : ∀ a b s, leq a b = true → γ a s → γ b s)
    (p : Dom.Pool A) (c : Dom.CPool S) (h : ∀ i s, c i s → γ (p i) s)
    (i j : Nat) (hij : leq (p i) (p j) = true) (s : S) (hs : c i s) : γ (p j) s :=
  hl _ _ _ hij (h i s hs)
