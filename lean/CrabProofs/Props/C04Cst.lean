import CrabProofs.Lemmas.XDomCstInst

/-!
# C04 for `constant_domain<z_number>` — inclusion test, lattice operations, `is_bottom`, `is_top`
and `entails` agree with the concretisation (proved on the exact model `Crab.CDom`, see
`Props/C03Cst.lean` for the model, the correspondence and the hypotheses `Inv`, `CstOk`)
-/
open Crab Crab.CDom Crab.XDom Crab.Lin

/-- a yes answer of `operator<=` is an inclusion of concretisations -/
theorem C04.cstdom_leq_sound (a b : Env) (ha : a.Inv) (hb : b.Inv) (σ : State)
    (h : XDom.Env.leq cstLattice a b = true) (hg : a.γ σ) : b.γ σ := XDom.Env.leq_sound cstLaws ha hb h hg

/-- yes on equal values, with bottom on the left, with top on the right -/
theorem C04.cstdom_leq_refl (a : Env) (ha : a.Inv) : XDom.Env.leq cstLattice a a = true :=
  XDom.Env.leq_refl cstLaws ha
theorem C04.cstdom_bot_le (b : Env) : XDom.Env.leq cstLattice CDom.Env.bot b = true :=
  XDom.Env.leq_of_bot rfl b
theorem C04.cstdom_leq_bottom_left (a b : Env) (h : a.isBot = true) : XDom.Env.leq cstLattice a b = true :=
  XDom.Env.leq_of_bot h b
theorem C04.cstdom_le_top (a : Env) (ha : a.Inv) : XDom.Env.leq cstLattice a CDom.Env.top = true :=
  XDom.Env.leq_top cstLaws ha

/-- `is_bottom()` answers yes exactly on the values that describe no state -/
theorem C04.cstdom_is_bottom_iff (e : Env) (he : e.Inv) : XDom.Env.isBottom e = true ↔ ∀ σ, ¬ e.γ σ :=
  XDom.Env.isBottom_iff cstLaws he

/-- `is_top()` answers yes exactly on the values that describe every state -/
theorem C04.cstdom_is_top_iff (e : Env) (he : e.Inv) : XDom.Env.isTop e = true ↔ ∀ σ, e.γ σ :=
  XDom.Env.isTop_iff cstLaws he

/-- `make_bottom` describes no state, `make_top` describes every state -/
theorem C04.cstdom_bot_empty (σ : State) : ¬ CDom.Env.bot.γ σ := XDom.Env.not_γ_bot σ
theorem C04.cstdom_top_all (σ : State) : CDom.Env.top.γ σ := XDom.Env.γ_top cstLaws σ
theorem C04.cstdom_top_is_top : XDom.Env.isTop CDom.Env.top = true ∧ XDom.Env.isBottom CDom.Env.bot = true := by
  decide

/-- join contains both arguments -/
theorem C04.cstdom_join_upper (a b : Env) (ha : a.Inv) (hb : b.Inv) (σ : State) (h : a.γ σ ∨ b.γ σ) :
    Env.γ (XDom.Env.join cstLattice a b) σ := XDom.Env.upper_sound cstLaws cstLaws.join ha hb h

/-- meet is below both arguments … -/
theorem C04.cstdom_meet_lower (a b : Env) (ha : a.Inv) (hb : b.Inv) (σ : State)
    (h : Env.γ (XDom.Env.meet cstLattice a b) σ) : a.γ σ ∧ b.γ σ :=
  XDom.Env.lower_below cstLaws cstLaws.meet (fun x y k hk => (C08.cst_meet_exact x y k).mp hk) ha hb h

/-- … and describes exactly the common states -/
theorem C04.cstdom_meet_iff (a b : Env) (ha : a.Inv) (hb : b.Inv) (σ : State) :
    Env.γ (XDom.Env.meet cstLattice a b) σ ↔ (a.γ σ ∧ b.γ σ) :=
  ⟨C04.cstdom_meet_lower a b ha hb σ, fun ⟨h1, h2⟩ => XDom.Env.lower_sound cstLaws cstLaws.meet ha hb h1 h2⟩

/-- widening (`operator||`, `widening_thresholds`) contains both arguments -/
theorem C04.cstdom_widen_upper (a b : Env) (ha : a.Inv) (hb : b.Inv) (σ : State) (h : a.γ σ ∨ b.γ σ) :
    Env.γ (XDom.Env.widen cstLattice a b) σ := XDom.Env.upper_sound cstLaws cstLaws.widen ha hb h

/-- narrowing keeps the common states -/
theorem C04.cstdom_narrow_sound (a b : Env) (ha : a.Inv) (hb : b.Inv) (σ : State) (h1 : a.γ σ) (h2 : b.γ σ) :
    Env.γ (XDom.Env.narrow cstLattice a b) σ := XDom.Env.lower_sound cstLaws cstLaws.narrow ha hb h1 h2

/-- `entails(cst)` (`DEFAULT_ENTAILS`): a yes answer holds in every state of `γ` -/
theorem C04.cstdom_entails_sound (e : Env) (he : e.Inv) (σ : State) (c : Lin.Cst) (hc : CstOk c) (hg : e.γ σ)
    (h : e.entails c = true) : c.sat σ := CDom.Env.entails_sound he hg hc h

/-- non-vacuity: `{x = 3} <= {x = 3}`, not `<= {x = 4}`; `{x = 3}` entails `x - 5 <= 0` -/
example : XDom.Env.leq cstLattice (CDom.Env.top.set 0 (.val 3)) (CDom.Env.top.set 0 (.val 3)) = true ∧
    XDom.Env.leq cstLattice (CDom.Env.top.set 0 (.val 3)) (CDom.Env.top.set 0 (.val 4)) = false ∧
    (CDom.Env.top.set 0 (.val 3)).entails ⟨(Expr.var 0).subNum 5, .leq⟩ = true ∧
    XDom.Env.bindings (XDom.Env.join cstLattice (CDom.Env.top.set 0 (.val 3)) (CDom.Env.top.set 0 (.val 4))) = [] := by
  decide +kernel
