import CrabProofs.Lemmas.RegionSmash
import CrabProofs.Lemmas.RegionBaseCst
import CrabProofs.Props.C03

/-!
# C15 — the region / reference domain is sound for loads and reference queries

The models follow the tree AFTER the six C15 fixes (70510e9 .. f6afed4 in /repo).
What is proved here (all statements for every region, reference, value and every base domain
satisfying the laws of `Rgn.Base`):

* `small_range` (the per-region reference counter, `lib/small_range.cpp`): join / widening / meet /
  increment are total and sound; `increment` is now sound for the reading the region domain relies
  on (number of references), `operator<=` is total and sound (fix 733b6ba).  One statement remains
  false for that reading and stays as `_Statement` / `_partial` / `_counterexample`: `meet`
  (`1(V1) & 1(V2) = bottom`); it is not reachable from `region_domain` answers of CFG programs: see
  the note at the theorem.
* the `RegionSmash` functor (`CrabModel/Dom/RegionSmash.lean`, the smashing rule of
  `region_domain`) preserves the concretisation `Rgn.Gamma` against the concrete heap semantics
  `CrabModel/Dom/RegionSem.lean` for `ref_make`, `ref_gep` (constant offset), `ref_load` (the loaded
  variable contains every value a concrete execution can load from a written cell), `ref_store`,
  `region_copy`, `ref_free`, join and widening — all unconditional now.
* `is_null_ref` and `get_allocation_sites` answers hold in every state of the concretisation.
* the behaviour before the fixes survives only in `SmallRange.incrementOld` / `SmallRange.leqOld` /
  `RS.refMakeOld`, with the
  counterexamples that motivated the fixes (`*_old_counterexample`).

Not covered by the proofs (compared by the history harness only): unknown regions / region_cast,
offset-size ghost variables, tags, deallocation classes, ref_assume / select_ref, symbolic gep
offsets, the ghost variable manager's renaming, the trivial bottom/top shortcuts.
-/
open Crab Crab.Rgn Crab.Dom

/-! ## small_range -/

theorem C15.smallrange_join_total (a b : SmallRange) : (SmallRange.join a b).isSome = true :=
  SmallRange.join_isSome a b

theorem C15.smallrange_meet_total (a b : SmallRange) : (SmallRange.meet a b).isSome = true :=
  SmallRange.meet_isSome a b

/-- join (and widening, which is the join) is an upper bound: counter reading -/
theorem C15.smallrange_join_sound (a b r : SmallRange) (n : Nat) (h : SmallRange.γ a n ∨ SmallRange.γ b n)
    (hj : SmallRange.join a b = some r) : SmallRange.γ r n := SmallRange.join_sound h hj

theorem C15.smallrange_widen_sound (a b r : SmallRange) (n : Nat) (h : SmallRange.γ a n ∨ SmallRange.γ b n)
    (hj : SmallRange.widen a b = some r) : SmallRange.γ r n := SmallRange.join_sound h hj

/-- join is an upper bound: variable-set reading -/
theorem C15.smallrange_joinV_sound (a b r : SmallRange) (S : Nat → Prop) (h : SmallRange.γV a S ∨ SmallRange.γV b S)
    (hj : SmallRange.join a b = some r) : SmallRange.γV r S := SmallRange.joinV_sound h hj

/-- meet (and narrowing) is a lower bound: variable-set reading -/
theorem C15.smallrange_meetV_sound (a b r : SmallRange) (S : Nat → Prop) (ha : SmallRange.γV a S) (hb : SmallRange.γV b S)
    (hm : SmallRange.meet a b = some r) : SmallRange.γV r S := SmallRange.meetV_sound ha hb hm

/-- `increment(v)` adds `v` to the set of counted variables -/
theorem C15.smallrange_incrementV_sound (a : SmallRange) (S : Nat → Prop) (v : Nat) (h : SmallRange.γV a S) :
    SmallRange.γV (SmallRange.increment a v) (fun x => S x ∨ x = v) := SmallRange.incrementV_sound h

/-- **increment** counts one more object (the statement the region domain needs) -/
theorem C15.smallrange_increment_sound (a : SmallRange) (n v : Nat) (h : SmallRange.γ a n) :
    SmallRange.γ (SmallRange.increment a v) (n + 1) := SmallRange.increment_sound h

/-- the same statement for the increment of the tree before fix 3175bba -/
def C15.smallrange_increment_old_Statement : Prop :=
  ∀ (a : SmallRange) (n v : Nat), SmallRange.γ a n → SmallRange.γ (SmallRange.incrementOld a v) (n + 1)

/-- old behaviour: `1(v)` incremented with the same `v` stayed `1(v)` although two objects are counted -/
theorem C15.smallrange_increment_old_counterexample : ¬ C15.smallrange_increment_old_Statement := by
  intro h
  exact absurd (h (SmallRange.one 0) 1 0 (by decide)) (by decide)

/-- old and fixed increment differ only there -/
theorem C15.smallrange_increment_old_eq (a : SmallRange) (v : Nat) (hne : a ≠ SmallRange.one v) :
    SmallRange.incrementOld a v = SmallRange.increment a v := SmallRange.incrementOld_eq hne

/-- OPEN (small_range alone, not reachable from region_domain answers): the meet is not a lower
    bound for the counter reading.  `region_domain` only meets counters inside `m_rgn_env` of two
    values; `1(V1)` and `1(V2)` with `V1 ≠ V2` for the same region need the single reference of
    the region to have been created by `ref_make`/`ref_gep` with two different assigned variables,
    i.e. by two different statements, hence two different allocation sites / addresses: no concrete
    state lies in both operands, and bottom is the exact meet there (`smallrange_meetV_sound`). -/
def C15.smallrange_meet_Statement : Prop :=
  ∀ (a b r : SmallRange) (n : Nat), SmallRange.γ a n → SmallRange.γ b n → SmallRange.meet a b = some r → SmallRange.γ r n

theorem C15.smallrange_meet_partial (a b r : SmallRange) (n : Nat) (hv : SmallRange.sameVar a b = true)
    (ha : SmallRange.γ a n) (hb : SmallRange.γ b n) (hm : SmallRange.meet a b = some r) : SmallRange.γ r n :=
  SmallRange.meet_sound_partial hv ha hb hm

/-- `1(V1) & 1(V2)` is bottom for `V1 ≠ V2` although both counters are one -/
theorem C15.smallrange_meet_counterexample : ¬ C15.smallrange_meet_Statement := by
  intro h
  exact absurd (h (SmallRange.one 0) (SmallRange.one 1) SmallRange.bottom 1 (by decide) (by decide) (by decide)) (by decide)

/-- **operator<=** never reaches CRAB_ERROR and answers yes only for included values (after fix 733b6ba) -/
theorem C15.smallrange_leq_total (a b : SmallRange) : (SmallRange.leq a b).isSome = true := SmallRange.leq_isSome a b

theorem C15.smallrange_leq_sound (a b : SmallRange) (n : Nat) (h : SmallRange.leq a b = some true)
    (ha : SmallRange.γ a n) : SmallRange.γ b n := SmallRange.leq_sound h ha

theorem C15.smallrange_leqV_sound (a b : SmallRange) (S : Nat → Prop) (h : SmallRange.leq a b = some true)
    (ha : SmallRange.γV a S) : SmallRange.γV b S := SmallRange.leqV_sound h ha

/-- the same statement for `operator<=` of the tree before fix 733b6ba -/
def C15.smallrange_leq_old_Statement : Prop :=
  ∀ (a b : SmallRange) (n : Nat), SmallRange.leqOld a b = some true → SmallRange.γ a n → SmallRange.γ b n

/-- old behaviour: `0 <= bottom` answered yes (and `1(V) <= bottom` raised CRAB_ERROR) -/
theorem C15.smallrange_leq_old_counterexample : ¬ C15.smallrange_leq_old_Statement := by
  intro h
  exact absurd (h SmallRange.zero SmallRange.bottom 0 (by decide) (by decide)) (by decide)

example : SmallRange.leqOld (SmallRange.one 3) SmallRange.bottom = none := by decide
example : SmallRange.leq (SmallRange.one 3) SmallRange.bottom = some false := by decide

example : SmallRange.γ (SmallRange.increment (SmallRange.zeroOrOne 3) 4) 2 := by decide
example : SmallRange.sameVar (SmallRange.one 2) (SmallRange.zeroOrOne 2) = true := by decide

/-! ## the smashing functor -/

/-- **ref_load (integer destination)**: after `x := ref_load(r, g)` the abstract value contains
    every concrete successor, i.e. every value loaded from a written cell -/
theorem C15.regionsmash_load_sound {B : Type} (D : Base B) (A : RS B) (σ σ' : State) (r g x : Nat)
    (hG : Gamma D A σ) (hs : σ.refLoadInt r g x = some σ') : Gamma D (A.refLoad D r g (.ivar x)) σ' :=
  loadInt_sound hG hs

/-- the consequence for the exported interval of the loaded variable -/
theorem C15.regionsmash_load_value {B : Type} (D : Base B) (A : RS B) (σ σ' : State) (r g x : Nat)
    (hG : Gamma D A σ) (hs : σ.refLoadInt r g x = some σ') :
    Itv.mem (σ'.ints x) (D.toItv (A.refLoad D r g (.ivar x)).base (.int x)) := by
  have h := loadInt_sound hG hs
  obtain ⟨c, hc⟩ := sel_exists σ'
  exact D.toItv_sound (.int x) (h.base c 0 hc)

/-- **ref_load (reference destination)** -/
theorem C15.regionsmash_load_ref_sound {B : Type} (D : Base B) (A : RS B) (σ σ' : State) (r g r' : Nat)
    (hG : Gamma D A σ) (hs : σ.refLoadRef r g r' = some σ') : Gamma D (A.refLoad D r g (.rvar r')) σ' :=
  loadRef_sound hG hs

/-- **ref_store** (strong while the region has at most one reference or nothing was written, else weak) -/
theorem C15.regionsmash_store_sound {B : Type} (D : Base B) (A : RS B) (σ σ' : State) (r g : Nat) (v : SVal)
    (tags : List Nat) (hG : Gamma D A σ) (hs : σ.refStore r g (v.eval σ) tags = some σ') :
    Gamma D (A.refStore D r g v) σ' := store_sound hG hs

/-- **ref_make** (fresh block, counter incremented, ghost variables of the reference forgotten) -/
theorem C15.regionsmash_make_sound {B : Type} (D : Base B) (A : RS B) (σ σ' : State) (r g site : Nat) (size : Int)
    (hG : Gamma D A σ) (hs : σ.refMake r g size site = some σ') : Gamma D (A.refMake D r g site) σ' :=
  make_sound hG hs

/-- the statement for the `ref_make` of the tree before the fixes 078ec97 / 3175bba -/
def C15.regionsmash_make_old_Statement : Prop :=
  ∀ (B : Type) (D : Base B) (A : RS B) (σ σ' : State) (r g site : Nat) (size : Int),
    Gamma D A σ → σ.refMake r g size site = some σ' → Gamma D (A.refMakeOld r g site) σ'

/-- the trivial base domain (one value, every valuation) satisfies the laws -/
def C15.unitBase : Base Unit where
  γ := fun _ _ => True
  assign := fun _ _ b => b
  assignC := fun _ _ b => b
  assignAdd := fun _ _ _ b => b
  weakAssign := fun _ _ b => b
  weakAssignC := fun _ _ b => b
  forget := fun _ b => b
  expand := fun _ _ b => b
  join := fun a _ => a
  widen := fun a _ => a
  toItv := fun _ _ => Itv.top
  assign_sound := fun _ _ _ => trivial
  assignC_sound := fun _ _ _ => trivial
  assignAdd_sound := fun _ _ _ _ => trivial
  weakAssign_keep := fun _ _ _ => trivial
  weakAssign_sound := fun _ _ _ => trivial
  weakAssignC_keep := fun _ _ _ => trivial
  weakAssignC_sound := fun _ _ _ => trivial
  forget_sound := fun _ _ _ => trivial
  expand_sound := fun _ _ _ _ _ => trivial
  join_left := fun _ => trivial
  join_right := fun _ => trivial
  widen_left := fun _ => trivial
  widen_right := fun _ => trivial
  toItv_sound := fun _ _ => Itv.mem_top _

/-- a state in which region 0 has exactly one reference, held by r0 -/
def C15.cexState : State where
  ints := fun _ => 0
  itags := fun _ => []
  cond := false
  refs := fun r => if r = 0 then .ptr ⟨0, 0, 1000⟩ else .null
  rtags := fun _ => []
  mems := fun g => if g = 0 then ⟨[], [1000]⟩ else Mem.empty
  blocks := [(0, 1000, 8)]
  freed := []

def C15.cexAbs : RS Unit where
  cnt := fun g => if g = 0 then SmallRange.one 0 else SmallRange.zero
  init := fun _ => true
  sites := fun _ => none
  rsites := fun _ => none
  base := ()

theorem C15.cex_gamma : Gamma C15.unitBase C15.cexAbs C15.cexState := by
  refine ⟨?_, ?_, ?_, ?_, ?_, ?_, ?_, ?_, fun _ _ _ => trivial⟩
  · intro g a cv h
    by_cases hg : g = 0
    · subst hg; simp [C15.cexState, Mem.read, Mem.cell] at h
    · simp [C15.cexState, hg, Mem.read, Mem.cell, Mem.empty] at h
  · intro g
    by_cases hg : g = 0
    · subst hg; simp [C15.cexState]
    · simp [C15.cexState, hg, Mem.empty]
  · intro g
    by_cases hg : g = 0
    · subst hg; simp [C15.cexState, C15.cexAbs, SmallRange.γ]
    · simp [C15.cexState, C15.cexAbs, hg, Mem.empty, SmallRange.γ]
  · intro g h; simp [C15.cexAbs] at h
  · intro r p S _ h; simp [C15.cexAbs] at h
  · intro g a p S _ h; simp [C15.cexAbs] at h
  · intro r p h
    by_cases hr : r = 0
    · subst hr; simp [C15.cexState] at h; subst h; simp
    · simp [C15.cexState, hr] at h
  · intro g a p h
    by_cases hg : g = 0
    · subst hg; simp [C15.cexState, Mem.read, Mem.cell] at h
    · simp [C15.cexState, hg, Mem.read, Mem.cell, Mem.empty] at h

/-- old behaviour: `r0 := ref_make(g0)` a second time: the region now has two references (the first
    one may still be aliased) but the counter stayed `1(r0)` -/
theorem C15.regionsmash_make_old_counterexample : ¬ C15.regionsmash_make_old_Statement := by
  intro h
  have hs : C15.cexState.refMake 0 0 8 1 = some
      (({ C15.cexState with blocks := (1, 2000, 8) :: C15.cexState.blocks }.setRef 0 (.ptr ⟨0, 1, 2000⟩) []).setMem 0
        ((C15.cexState.mems 0).addMember 2000)) := by
    simp [State.refMake, State.blockOf, C15.cexState]
  have hG := h Unit C15.unitBase C15.cexAbs C15.cexState _ 0 0 1 8 C15.cex_gamma hs
  have hc := hG.count 0
  simp [RS.refMakeOld, C15.cexAbs, updN, SmallRange.incrementOld, State.setMem, State.setRef, upd, C15.cexState,
    Mem.addMember, SmallRange.γ] at hc

/-- the statement for the old `ref_make` once the counter defect is excluded -/
def C15.regionsmash_make_old_addr_Statement : Prop :=
  ∀ (B : Type) (D : Base B) (A : RS B) (σ σ' : State) (r g site : Nat) (size : Int),
    A.cnt g ≠ SmallRange.one r →
    Gamma D A σ → σ.refMake r g size site = some σ' → Gamma D (A.refMakeOld r g site) σ'

/-- every reference null, nothing allocated -/
def C15.nullState : State where
  ints := fun _ => 0
  itags := fun _ => []
  cond := false
  refs := fun _ => .null
  rtags := fun _ => []
  mems := fun _ => Mem.empty
  blocks := []
  freed := []

/-- "r0 is null" over the constant-propagation base -/
def C15.nullAbs : RS CB where
  cnt := fun _ => SmallRange.zeroOrMore
  init := fun _ => true
  sites := fun _ => none
  rsites := fun _ => none
  base := fun x => if x = GVar.ref 0 then some 0 else none

theorem C15.null_gamma : Gamma cstBase C15.nullAbs C15.nullState := by
  refine ⟨?_, ?_, ?_, ?_, ?_, ?_, ?_, ?_, ?_⟩
  · intro g a cv h; simp [C15.nullState, Mem.read, Mem.cell, Mem.empty] at h
  · intro g; simp [C15.nullState, Mem.empty]
  · intro g; simp [C15.nullAbs, SmallRange.γ]
  · intro g h; simp [C15.nullAbs] at h
  · intro r p S h; simp [C15.nullState] at h
  · intro g a p S h; simp [C15.nullState, Mem.read, Mem.cell, Mem.empty] at h
  · intro r p h; simp [C15.nullState] at h
  · intro g a p h; simp [C15.nullState, Mem.read, Mem.cell, Mem.empty] at h
  · intro c d _ x k hx
    simp only [C15.nullAbs] at hx
    split at hx
    · rename_i hx0; cases hx; subst hx0; simp [valOf, C15.nullState, RefVal.toInt]
    · cases hx

/-- old behaviour: `assume(r0 == NULL); r0 := ref_make(g0)`: the base value still said "r0 is null"
    (the address ghost variable of the assigned reference was not forgotten) -/
theorem C15.regionsmash_make_old_addr_counterexample : ¬ C15.regionsmash_make_old_addr_Statement := by
  intro h
  have hs : C15.nullState.refMake 0 0 8 0 = some
      (({ C15.nullState with blocks := (0, 1000, 8) :: C15.nullState.blocks }.setRef 0 (.ptr ⟨0, 0, 1000⟩) []).setMem 0
        ((C15.nullState.mems 0).addMember 1000)) := by
    simp [State.refMake, State.blockOf, C15.nullState]
  have hG := h CB cstBase C15.nullAbs C15.nullState _ 0 0 0 8 (by simp [C15.nullAbs]) C15.null_gamma hs
  obtain ⟨c, hc⟩ := sel_exists (({ C15.nullState with blocks := (0, 1000, 8) :: C15.nullState.blocks }.setRef 0 (.ptr ⟨0, 0, 1000⟩) []).setMem 0
        ((C15.nullState.mems 0).addMember 1000))
  have hb := hG.base c 0 hc (.ref 0) 0 (by simp [RS.refMakeOld, C15.nullAbs])
  simp [valOf, State.setMem, State.setRef, upd, RefVal.toInt] at hb

/-- the answer of the old model in that state: "definitely null" for a freshly allocated reference;
    the fixed `ref_make` answers "unknown" -/
example : (C15.nullAbs.refMakeOld 0 0 0).isNullRef cstBase 0 = some true := by decide
example : (C15.nullAbs.refMake cstBase 0 0 0).isNullRef cstBase 0 = none := by decide

/-- **ref_gep** with a constant offset -/
theorem C15.regionsmash_gep_sound {B : Type} (D : Base B) (A : RS B) (σ σ' : State) (r1 g1 r2 g2 : Nat) (k : Int)
    (hG : Gamma D A σ) (hs : σ.refGep r1 g1 r2 g2 k = some σ') : Gamma D (A.refGep D r1 g1 r2 g2 k) σ' :=
  gep_sound hG hs

/-- **region_copy** between two different region variables -/
theorem C15.regionsmash_copy_sound {B : Type} (D : Base B) (A : RS B) (σ σ' : State) (l r : Nat) (hlr : l ≠ r)
    (hG : Gamma D A σ) (hs : σ.regionCopy l r = some σ') : Gamma D (A.regionCopy D l r) σ' :=
  copy_sound hlr hG hs

/-- **ref_free** -/
theorem C15.regionsmash_free_sound {B : Type} (D : Base B) (A : RS B) (σ σ' : State) (r g : Nat)
    (hG : Gamma D A σ) (hs : σ.refFree g r = some σ') : Gamma D (A.refFree r) σ' := free_sound hG hs

/-- **join** and **widening** are upper bounds -/
theorem C15.regionsmash_join_sound {B : Type} (D : Base B) (A1 A2 : RS B) (σ : State)
    (h : Gamma D A1 σ ∨ Gamma D A2 σ) : Gamma D (RS.join D A1 A2) σ := join_sound h

theorem C15.regionsmash_widen_sound {B : Type} (D : Base B) (A1 A2 : RS B) (σ : State)
    (h : Gamma D A1 σ ∨ Gamma D A2 σ) : Gamma D (RS.widen D A1 A2) σ := widen_sound h

/-- **is_null_ref**: a definite answer is never wrong -/
theorem C15.nullity_sound {B : Type} (D : Base B) (A : RS B) (σ : State) (r : Nat) (hG : Gamma D A σ) :
    (A.isNullRef D r = some true → σ.refs r = .null) ∧ (A.isNullRef D r = some false → σ.refs r ≠ .null) :=
  isNullRef_sound hG r

/-- **get_allocation_sites**: a reported set contains the actual allocation site -/
theorem C15.alloc_sites_superset {B : Type} (D : Base B) (A : RS B) (σ : State) (r : Nat) (p : Ptr) (S : List Nat)
    (hG : Gamma D A σ) (hr : σ.refs r = .ptr p) (hS : A.getAllocSites r = some S) : p.site ∈ S :=
  hG.sites r p S hr hS

/-- **histories**: any history over a pool of abstract values whose steps are the operations above
    (instances of `Step.Sound` below) keeps every slot above the collecting semantics -/
theorem C15.regionsmash_history_sound {B : Type} (D : Base B) (hist : List (Step (RS B) State))
    (hs : ∀ st ∈ hist, st.Sound (Gamma D)) (p : Pool (RS B)) (c : CPool State)
    (h : ∀ i s, c i s → Gamma D (p i) s) :
    ∀ i s, (collHist c hist) i s → Gamma D ((runHist p hist) i) s :=
  C03.history_sound (Gamma D) hist hs p c h

example {B : Type} (D : Base B) (d r g x : Nat) :
    (Step.trans d ⟨fun A => A.refLoad D r g (.ivar x), fun σ σ' => σ.refLoadInt r g x = some σ'⟩ :
      Step (RS B) State).Sound (Gamma D) := fun _ _ _ hG hs => loadInt_sound hG hs
example {B : Type} (D : Base B) (d r g : Nat) (k : Int) :
    (Step.trans d ⟨fun A => A.refStore D r g (.cst k), fun σ σ' => σ.refStore r g (.int k) [] = some σ'⟩ :
      Step (RS B) State).Sound (Gamma D) := fun _ _ _ hG hs => store_sound (v := .cst k) hG hs
example {B : Type} (D : Base B) (d r g site : Nat) (size : Int) :
    (Step.trans d ⟨fun A => A.refMake D r g site, fun σ σ' => σ.refMake r g size site = some σ'⟩ :
      Step (RS B) State).Sound (Gamma D) := fun _ _ _ hG hs => make_sound hG hs
example {B : Type} (D : Base B) (d r1 g1 r2 g2 : Nat) (k : Int) :
    (Step.trans d ⟨fun A => A.refGep D r1 g1 r2 g2 k, fun σ σ' => σ.refGep r1 g1 r2 g2 k = some σ'⟩ :
      Step (RS B) State).Sound (Gamma D) := fun _ _ _ hG hs => gep_sound hG hs
example {B : Type} (D : Base B) (d a b : Nat) :
    (Step.upper d a b (RS.join D) : Step (RS B) State).Sound (Gamma D) := fun _ _ _ h => join_sound h

/-- non-vacuity: the hypotheses of the load theorem are satisfiable (a state of the concretisation
    with a written cell whose load has a successor) -/
example : ((C15.cexState.setMem 0 ⟨[(1000, ⟨some (.int 5), []⟩)], [1000]⟩).refLoadInt 0 0 1).map (fun σ' => σ'.ints 1) = some 5 := by
  decide
