import CrabProofs.Props.C13WDomEnv
import CrabProofs.Lemmas.FunctorHistory

/-!
# C13 (part 7) — histories of the wrapped interval domain

`C13.wdom_history_sound`: after ANY finite history of assignments, arithmetic `apply` (variable or
constant operand, all seven operations), `operator-=`, `set_to_top`, joins, widenings, copies and
`set_to_bottom` over a pool of abstract values, every slot contains the collecting semantics of
the history over bit-vector states — by the generic `history_sound_on`
(`CrabProofs/Lemmas/FunctorHistory.lean`) with the pool invariant `Inv ∧ Typed wd`.

An operation that raises CRAB_ERROR ends a real history; here its result is taken to be top.

Not in the histories of this theorem: `operator+=` (unsound, `C13WDomAssume.lean`), meet and
narrowing, shifts and casts (sound — `C13.wdom_apply_bitwise_*_sound`, `C13.wdom_cast_env_sound` —
but the preservation of the typing invariant by their results is not proved), `rename`,
`project`.
-/
open Crab Crab.WInt Crab.WDom Crab.XDom Crab.Lin Crab.Dom Crab.Dom.Fct

/-- states of the histories: well-typed bit-vector states described by the value -/
def C13.γS (wd : Ty) (e : WDom.Env) (σ : Var → Nat) : Prop := C13.StOk wd σ ∧ γ wd e σ
/-- the pool invariant -/
def C13.IS (wd : Ty) (e : WDom.Env) : Prop := Inv e ∧ Typed wd e

/-- the transformers of a history, with their side conditions (variables `< 2^64`; operands of the
    width of the target) -/
inductive C13.WOp (wd : Ty) where
  | assign (x : Var) (ex : Expr) (hx : x < 2 ^ 64) (hex : ∀ p ∈ ex.terms, wd p.1 = wd x)
  | arithVar (op : ArithOp) (x y z : Var) (hx : x < 2 ^ 64) (hy : wd y = wd x) (hz : wd z = wd x)
  | arithCst (op : ArithOp) (x y : Var) (k : Int) (hx : x < 2 ^ 64) (hy : wd y = wd x)
  | forget (x : Var) (hx : x < 2 ^ 64)
  | setTop

/-- abstract function and concrete relation of a transformer -/
def C13.WOp.trans {wd : Ty} : C13.WOp wd → Trans WDom.Env (Var → Nat)
  | .assign x ex _ _ =>
    ⟨fun e => (e.assign wd x ex).getD WDom.Env.top, fun s s' => s' = upd s x (C13.bvLin (wd x) s ex).toNat⟩
  | .arithVar op x y z _ hy hz =>
    ⟨fun e => (e.applyVar op x y z).getD WDom.Env.top,
     fun s s' => ∃ c, C13.bvArith op ((C13.bv wd s y).cast hy) ((C13.bv wd s z).cast hz) = some c ∧
        s' = upd s x c.toNat⟩
  | .arithCst op x y k _ hy =>
    ⟨fun e => (e.applyCst wd op x y k).getD WDom.Env.top,
     fun s s' => ∃ c, C13.bvArith op ((C13.bv wd s y).cast hy) (BitVec.ofInt (wd x) k) = some c ∧
        s' = upd s x c.toNat⟩
  | .forget x _ =>
    ⟨fun e => XDom.Env.forget wintLattice e x, fun s s' => ∃ b : BitVec (wd x), s' = upd s x b.toNat⟩
  | .setTop => ⟨fun _ => WDom.Env.top, fun _ s' => C13.StOk wd s'⟩

/-- the steps of a history -/
inductive C13.WStep (wd : Ty) : Step WDom.Env (Var → Nat) → Prop where
  | trans (d : Nat) (op : C13.WOp wd) : C13.WStep wd (.trans d op.trans)
  | join (d a b : Nat) : C13.WStep wd (.upper d a b (XDom.Env.join wintLattice))
  | widen (d a b : Nat) : C13.WStep wd (.upper d a b (XDom.Env.widen wintLattice))
  | copy (d s : Nat) : C13.WStep wd (.copy d s)
  | bot (d : Nat) : C13.WStep wd (.setBot d WDom.Env.bot)

theorem C13.IS_top (wd : Ty) : C13.IS wd WDom.Env.top := ⟨inv_top, typed_top wd⟩
theorem C13.γS_top {wd : Ty} {σ : Var → Nat} (h : C13.StOk wd σ) : C13.γS wd WDom.Env.top σ := ⟨h, γ_top wd σ⟩

theorem C13.WStep.soundOn {wd : Ty} (hty : C13.TyOk wd) {st : Step WDom.Env (Var → Nat)} (h : C13.WStep wd st) :
    Step.SoundOn (C13.IS wd) (C13.γS wd) st := by
  cases h with
  | trans d op =>
    cases op with
    | assign x ex hx hex =>
      intro a s s' hI hg hr
      simp only [C13.WOp.trans] at hr ⊢
      subst hr
      have hs' := C13.stOk_upd hg.1 x (C13.bvLin (wd x) s ex)
      cases hv : a.assign wd x ex with
      | none => exact C13.γS_top hs'
      | some r => exact ⟨hs', (C13.wdom_assign_sound wd hty a r x ex hx hex hI.1 hI.2 hv s hg.1 hg.2).1⟩
    | arithVar op x y z hx hy hz =>
      intro a s s' hI hg hr
      simp only [C13.WOp.trans] at hr ⊢
      obtain ⟨c, hc, rfl⟩ := hr
      have hs' := C13.stOk_upd hg.1 x c
      cases hv : a.applyVar op x y z with
      | none => exact C13.γS_top hs'
      | some r =>
        exact ⟨hs', (C13.wdom_apply_arith_var_sound wd hty a r op x y z hx hy hz hI.1 hI.2 hv s hg.1 hg.2 c hc).1⟩
    | arithCst op x y k hx hy =>
      intro a s s' hI hg hr
      simp only [C13.WOp.trans] at hr ⊢
      obtain ⟨c, hc, rfl⟩ := hr
      have hs' := C13.stOk_upd hg.1 x c
      cases hv : a.applyCst wd op x y k with
      | none => exact C13.γS_top hs'
      | some r =>
        exact ⟨hs', (C13.wdom_apply_arith_cst_sound wd hty a r op x y k hx hy hI.1 hI.2 hv s hg.1 hg.2 c hc).1⟩
    | forget x hx =>
      intro a s s' hI hg hr
      simp only [C13.WOp.trans] at hr ⊢
      obtain ⟨b, rfl⟩ := hr
      exact ⟨C13.stOk_upd hg.1 x b, (C13.wdom_forget_sound wd a x hx hI.1 hI.2 s hg.2 b.toNat).1⟩
    | setTop =>
      intro a s s' _ _ hr
      exact C13.γS_top hr
  | join d a b =>
    intro x y s hx hy hg
    have hs : C13.StOk wd s := hg.elim (fun h => h.1) (fun h => h.1)
    exact ⟨hs, C13.wdom_join_upper wd hty x y hx.1 hy.1 hx.2 hy.2 s hs (hg.imp (fun h => h.2) (fun h => h.2))⟩
  | widen d a b =>
    intro x y s hx hy hg
    have hs : C13.StOk wd s := hg.elim (fun h => h.1) (fun h => h.1)
    exact ⟨hs, C13.wdom_widen_upper wd hty x y hx.1 hy.1 hx.2 hy.2 s hs (hg.imp (fun h => h.2) (fun h => h.2))⟩
  | copy d s => trivial
  | bot d => trivial

/-- the loop of `eval_expr` yields `top()` or an interval of width `w`, whatever the state -/
theorem C13.evalLoop_good {w : Nat} (h1 : 1 ≤ w) (hw : w ≤ 64) (e : WDom.Env) :
    ∀ (ts : List (Var × Int)) (r0 r : WInt), (∀ p ∈ ts, Good w (e.get p.1)) → Good w r0 →
      Env.evalLoop e w ts r0 = some r → Good w r := by
  intro ts
  induction ts with
  | nil => intro r0 r _ hg h; simp only [Env.evalLoop, Option.some.injEq] at h; exact h ▸ hg
  | cons p rest ih =>
    intro r0 r hts hg h
    obtain ⟨v, c⟩ := p
    simp only [Env.evalLoop] at h
    cases hc : WInt.ofZ c w with
    | none => rw [hc] at h; cases h
    | some ci =>
      rw [hc] at h; simp only at h
      cases hp : WInt.mul ci (e.get v) with
      | none => rw [hp] at h; cases h
      | some pr =>
        rw [hp] at h; simp only at h
        exact ih _ r (fun q hq => hts q (List.mem_cons_of_mem _ hq))
          (add_good hw hg (mul_good h1 hw (ofZ_good h1 hw hc) (hts (v, c) (List.mem_cons_self ..)) hp)) h

theorem C13.assign_IS {wd : Ty} (hty : C13.TyOk wd) {e r : WDom.Env} {x : Var} {ex : Expr} (hx : x < 2 ^ 64)
    (hex : ∀ p ∈ ex.terms, wd p.1 = wd x) (hI : C13.IS wd e) (h : e.assign wd x ex = some r) : C13.IS wd r := by
  unfold Env.assign at h
  cases hv : getVariable ex with
  | some v =>
    rw [hv] at h; simp only [Option.some.injEq] at h; subst h
    have hmem : ∃ c, (v, c) ∈ ex.terms := by
      unfold getVariable at hv
      split at hv
      · simp at hv
      · split at hv
        · split at hv
          · rename_i v' c hts
            split at hv
            · simp only [Option.some.injEq] at hv; subst hv; exact ⟨c, by rw [hts]; exact List.mem_cons_self ..⟩
            · simp at hv
          · simp at hv
        · simp at hv
    obtain ⟨c, hc⟩ := hmem
    have hvw : wd v = wd x := hex (v, c) hc
    exact C13.wdom_set_inv_typed wd e x hx _ hI.1 hI.2 (hvw ▸ get_good hI.2 v)
  | none =>
    rw [hv] at h; simp only at h
    cases hr : e.evalExpr ex (wd x) with
    | none => rw [hr] at h; cases h
    | some ri =>
      rw [hr] at h; injection h with h; subst h
      have g : Good (wd x) ri := by
        unfold Env.evalExpr at hr
        rw [if_neg (by have := (hty x).1; omega)] at hr
        cases hc : WInt.ofZ ex.cst (wd x) with
        | none => rw [hc] at hr; cases hr
        | some r0 =>
          rw [hc] at hr; simp only at hr
          exact C13.evalLoop_good (hty x).1 (hty x).2 e ex.terms r0 ri
            (fun p hp => hex p hp ▸ get_good hI.2 p.1) (ofZ_good (hty x).1 (hty x).2 hc) hr
      exact C13.wdom_set_inv_typed wd e x hx ri hI.1 hI.2 g

theorem C13.WStep.preserves {wd : Ty} (hty : C13.TyOk wd) {st : Step WDom.Env (Var → Nat)} (h : C13.WStep wd st) :
    Step.Preserves (C13.IS wd) st := by
  cases h with
  | trans d op =>
    cases op with
    | assign x ex hx hex =>
      intro a hI
      simp only [C13.WOp.trans]
      cases hv : a.assign wd x ex with
      | none => exact C13.IS_top wd
      | some r => exact C13.assign_IS hty hx hex hI hv
    | arithVar op x y z hx hy hz =>
      intro a hI
      simp only [C13.WOp.trans]
      cases hv : a.applyVar op x y z with
      | none => exact C13.IS_top wd
      | some r =>
        unfold Env.applyVar at hv
        cases hq : arithEval op (a.get y) (a.get z) with
        | none => rw [hq] at hv; cases hv
        | some xi =>
          rw [hq] at hv; injection hv with hv; subst hv
          exact C13.wdom_set_inv_typed wd a x hx xi hI.1 hI.2
            (C13.wdom_apply_arith_good (wd x) (hty x).1 (hty x).2 op _ _ xi (hy ▸ get_good hI.2 y)
              (hz ▸ get_good hI.2 z) hq)
    | arithCst op x y k hx hy =>
      intro a hI
      simp only [C13.WOp.trans]
      cases hv : a.applyCst wd op x y k with
      | none => exact C13.IS_top wd
      | some r =>
        unfold Env.applyCst at hv
        cases hk : WInt.ofZ k (wd x) with
        | none => rw [hk] at hv; cases hv
        | some zi =>
          rw [hk] at hv; simp only at hv
          cases hq : arithEval op (a.get y) zi with
          | none => rw [hq] at hv; cases hv
          | some xi =>
            rw [hq] at hv; injection hv with hv; subst hv
            exact C13.wdom_set_inv_typed wd a x hx xi hI.1 hI.2
              (C13.wdom_apply_arith_good (wd x) (hty x).1 (hty x).2 op _ _ xi (hy ▸ get_good hI.2 y)
                (ofZ_good (hty x).1 (hty x).2 hk) hq)
    | forget x hx =>
      intro a hI
      exact ⟨(forget_spec' hI.1 hI.2 hx).1, (forget_spec' hI.1 hI.2 hx).2.1⟩
    | setTop => intro _ _; exact C13.IS_top wd
  | join d a b => intro x y hx hy; exact C13.wdom_join_inv wd hty x y hx.1 hy.1 hx.2 hy.2
  | widen d a b => intro x y hx hy; exact C13.wdom_widen_inv wd hty x y hx.1 hy.1 hx.2 hy.2
  | copy d s => trivial
  | bot d => exact ⟨inv_bot, typed_bot wd⟩

/-- **History soundness of the wrapped interval domain**: for every typing, every pool whose
    slots satisfy the invariants and describe the initial concrete pool, and every finite history of
    the steps `C13.WStep` (assignments, arithmetic operations with variable / constant operand,
    `operator-=`, `set_to_top`, join, widening, copy, `set_to_bottom`), the value of every slot
    describes every bit-vector state the history can produce there. -/
theorem C13.wdom_history_sound (wd : Ty) (hty : C13.TyOk wd) (hist : List (Step WDom.Env (Var → Nat)))
    (hh : ∀ st ∈ hist, C13.WStep wd st) (p : Pool WDom.Env) (c : CPool (Var → Nat))
    (hI : ∀ i, C13.IS wd (p i)) (h : ∀ i s, c i s → C13.γS wd (p i) s) :
    ∀ i s, (collHist c hist) i s → C13.γS wd ((runHist p hist) i) s :=
  history_sound_on (C13.IS wd) (C13.γS wd) hist (fun st hst => (hh st hst).soundOn hty)
    (fun st hst => (hh st hst).preserves hty) p c hI h

/-- the invariants hold of every slot after every history -/
theorem C13.wdom_history_inv (wd : Ty) (hty : C13.TyOk wd) (hist : List (Step WDom.Env (Var → Nat)))
    (hh : ∀ st ∈ hist, C13.WStep wd st) (p : Pool WDom.Env) (hI : ∀ i, C13.IS wd (p i)) :
    ∀ i, C13.IS wd ((runHist p hist) i) :=
  runHist_preserves (C13.IS wd) hist (fun st hst => (hh st hst).preserves hty) p hI
