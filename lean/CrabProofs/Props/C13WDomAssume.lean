import CrabProofs.Props.C13WDomEnv
import CrabProofs.Lemmas.LinSys

/-!
# C13 (part 6) — `wrapped_interval_domain::operator+=` : a genuine unsoundness

Meaning of a linear constraint for this domain: the one the class announces
(`propagate`: "cst is always signed"; `to_linear_constraint_system`: "we interpret wrapint as
signed mathematical integers"): every variable is read as the **signed** number of its bit-vector
and the expression is evaluated over the mathematical integers (`C13.satSigned`).

`linear_interval_solver::compute_residual` computes `c - Σ aᵢ·xᵢ` with wrapped intervals of the
width of the pivot, i.e. modulo `2^w`, and `propagate` then reads the result as a signed number
(`lower_half_line(rhs, true)` / `upper_half_line(rhs, true)`).  As soon as the mathematical
residual leaves `[-2^(w-1), 2^(w-1) - 1]` the refinement is wrong although nothing overflows in
the constraint itself.

Failing input (confirmed on the real code, harness/h_wdom.cpp):
  8-bit `x = -128`, `y` unconstrained, `assume(x - y <= 1)`.
  Pivot `y` (coefficient -1): residual `1 - (-128) = 129 ≡ -127 (mod 256)`; `-127 / -1 = 127`;
  `upper_half_line` gives `y ∈ [127, 127]`.  But `x = -128, y = 0` satisfies `-128 - 0 <= 1`.
-/
open Crab Crab.WInt Crab.WrapInt Crab.WDom Crab.XDom Crab.Lin

/-- signed number of the `w`-bit vector whose unsigned value is `n` -/
def C13.sval (w n : Nat) : Int := (BitVec.ofNat w n).toInt

/-- a linear constraint under the signed mathematical reading of the variables -/
def C13.satSigned (wd : Ty) (σ : Var → Nat) (c : Lin.Cst) : Bool :=
  let v := c.expr.eval (fun x => C13.sval (wd x) (σ x))
  match c.kind with
  | .leq => decide (v ≤ 0)
  | .lt => decide (v < 0)
  | .eq => decide (v = 0)
  | .neq => decide (v ≠ 0)

/-- the expected law of `operator+=`: the states of the input that satisfy the constraints are
    states of the result -/
def C13.wdom_assume_Statement : Prop :=
  ∀ (wd : Ty), C13.TyOk wd → ∀ (e r : WDom.Env) (csts : Sys), Inv e → Typed wd e →
    e.add wd csts = some r → ∀ σ : Var → Nat, C13.StOk wd σ → γ wd e σ →
    (∀ c ∈ csts, C13.satSigned wd σ c = true) → γ wd r σ

namespace C13.AssumeCex
/-- all variables are 8-bit -/
def wd : Ty := fun _ => 8
/-- `{x ↦ [-128, -128]}` -/
def e0 : WDom.Env := WDom.Env.top.set 0 (WInt.single ⟨8, 128⟩)
/-- `x - y - 1 <= 0` -/
def c0 : Lin.Cst := ⟨⟨[(0, 1), (1, -1)], -1⟩, .leq⟩
/-- `x = -128` (unsigned 128), everything else 0 -/
def σ0 : Var → Nat := upd (fun _ => 0) 0 128
end C13.AssumeCex

open C13.AssumeCex in
/-- the code answers `y ∈ [127, 127]` -/
theorem C13.wdom_assume_answer :
    (e0.add wd [c0]).map (fun r => (r.isBot, r.get 0, r.get 1)) =
      some (false, W 8 128 128 false, W 8 127 127 false) := by decide

open C13.AssumeCex in
/-- **`operator+=` is unsound**: `x = -128, y = 0` satisfies `x - y <= 1` and is lost -/
theorem C13.wdom_assume_counterexample : ¬ C13.wdom_assume_Statement := by
  intro h
  have hty : C13.TyOk wd := fun _ => ⟨by show 1 ≤ 8; decide, by show 8 ≤ 64; decide⟩
  have hgood : Good (wd 0) (WInt.single ⟨8, 128⟩) := good_of_shape (by decide)
  have hinv := C13.wdom_set_inv_typed wd WDom.Env.top 0 (by decide) (WInt.single ⟨8, 128⟩) inv_top (typed_top wd) hgood
  have hγ : γ wd e0 σ0 :=
    set_sound (wd := wd) inv_top (by decide) (γ_top wd (fun _ => 0)) (by decide : mem (wd 0) 128 (WInt.single ⟨8, 128⟩))
  have hst : C13.StOk wd σ0 := by
    intro k; unfold σ0 upd wd; split
    · decide
    · show 0 < 2 ^ 8; decide
  have hsat : ∀ c ∈ [c0], C13.satSigned wd σ0 c = true := by
    intro c hc; simp only [List.mem_singleton] at hc; subst hc; decide
  have key := C13.wdom_assume_answer
  cases hr : e0.add wd [c0] with
  | none => rw [hr] at key; cases key
  | some r =>
    rw [hr] at key
    simp only [Option.map_some, Option.some.injEq, Prod.mk.injEq] at key
    have hres := h wd hty e0 r [c0] hinv.1 hinv.2 hr σ0 hst hγ hsat
    have hm := hres.2 1
    rw [key.2.2] at hm
    exact absurd hm (by decide)

/-! ## what is proved of `operator+=`

Only the part of `operator+=` that does not go through `propagate`: the constructor of the solver
(well-typedness filter, tautologies dropped, contradiction detected).  The hypothesis is
decidable: after preprocessing the table of constraints is empty or a contradiction was found. -/

/-- the decidable side condition of `C13.wdom_assume_partial` -/
def C13.assumeTrivial (wd : Ty) (csts : Sys) : Bool :=
  let wt := csts.foldl (fun s c => if wellTyped wd c then Sys.addCst s c else s) []
  let p := prepLoop wt [] 0
  p.contradiction || p.tbl.isEmpty

theorem C13.prepLoop_contradiction : ∀ (cs tbl : List Lin.Cst) (opc : Nat),
    (prepLoop cs tbl opc).contradiction = true → ∃ c ∈ cs, c.isContradiction = true := by
  intro cs
  induction cs with
  | nil => intro tbl opc h; simp [prepLoop] at h
  | cons c rest ih =>
    intro tbl opc h
    unfold prepLoop at h
    split at h
    · next hc => exact ⟨c, List.mem_cons_self .., hc⟩
    · split at h
      · obtain ⟨c', h1, h2⟩ := ih _ _ h; exact ⟨c', List.mem_cons_of_mem _ h1, h2⟩
      · split at h
        · obtain ⟨c', h1, h2⟩ := ih _ _ h; exact ⟨c', List.mem_cons_of_mem _ h1, h2⟩
        · obtain ⟨c', h1, h2⟩ := ih _ _ h; exact ⟨c', List.mem_cons_of_mem _ h1, h2⟩

theorem C13.filter_subset (wd : Ty) : ∀ (csts : Sys) (acc : Sys) (c : Lin.Cst),
    c ∈ csts.foldl (fun s c => if wellTyped wd c then Sys.addCst s c else s) acc → c ∈ acc ∨ c ∈ csts := by
  intro csts
  induction csts with
  | nil => intro acc c h; exact Or.inl h
  | cons d rest ih =>
    intro acc c h
    simp only [List.foldl_cons] at h
    rcases ih _ c h with h1 | h1
    · split at h1
      · rcases Sys.mem_addCst.mp h1 with h2 | h2
        · exact Or.inl h2
        · exact Or.inr (h2 ▸ List.mem_cons_self ..)
      · exact Or.inl h1
    · exact Or.inr (List.mem_cons_of_mem _ h1)

/-- a contradiction is not satisfied by any state -/
theorem C13.contradiction_unsat (wd : Ty) (σ : Var → Nat) (c : Lin.Cst) (h : c.isContradiction = true) :
    C13.satSigned wd σ c = false := by
  unfold Lin.Cst.isContradiction at h
  unfold C13.satSigned
  have hev : ∀ (hc : c.expr.isConstant = true), c.expr.eval (fun x => C13.sval (wd x) (σ x)) = c.expr.constant := by
    intro hc
    unfold Expr.isConstant at hc
    have : c.expr.terms = [] := by simpa using hc
    simp [Expr.eval, this, Expr.evalTerms, Expr.constant]
  cases hk : c.kind <;> rw [hk] at h <;> simp only [Bool.and_eq_true] at h <;> simp only [hev h.1]
  · simpa using h.2
  · simpa using h.2
  · have := h.2; simp only [decide_eq_true_eq] at this; simp; omega
  · have := h.2; simp only [decide_eq_true_eq] at this; simp; omega

/-- **`operator+=`, the part that is sound**: when the preprocessing of the solver leaves no
    constraint to propagate, or finds a contradiction -/
theorem C13.wdom_assume_partial (wd : Ty) (e r : WDom.Env) (csts : Sys)
    (htriv : C13.assumeTrivial wd csts = true) (h : e.add wd csts = some r)
    (σ : Var → Nat) (hg : γ wd e σ) (hsat : ∀ c ∈ csts, C13.satSigned wd σ c = true) : γ wd r σ := by
  unfold Env.add at h
  have nb : e.isBot = false := hg.1
  simp only [nb, Bool.false_eq_true, if_false] at h
  unfold C13.assumeTrivial at htriv
  simp only [Bool.or_eq_true] at htriv
  unfold solverRun at h
  rcases htriv with hc | ht
  · exfalso
    obtain ⟨c, hmem, hcon⟩ := C13.prepLoop_contradiction _ _ _ hc
    have hin : c ∈ csts := by
      rcases C13.filter_subset wd csts [] c hmem with h1 | h1
      · cases h1
      · exact h1
    have := C13.contradiction_unsat wd σ c hcon
    rw [hsat c hin] at this; cases this
  · cases hcon : (prepLoop (csts.foldl (fun s c => if wellTyped wd c then Sys.addCst s c else s) []) [] 0).contradiction
    · have htbl : (prepLoop (csts.foldl (fun s c => if wellTyped wd c then Sys.addCst s c else s) []) [] 0).tbl = [] := by
        simpa using ht
      simp only [hcon, Bool.false_eq_true, if_false, htbl] at h
      have key : ∀ (cond : Bool) (mo : Nat), (if cond = true then solveLarge wd [] mo ⟨e, [], 0⟩
          else solveSmallLoop wd [] maxReductionCycles ⟨e, [], 0⟩) = some (false, ⟨e, [], 0⟩) := by
        intro cond mo
        split
        · simp [solveLarge, solveLargeLoop, propagateAll]
        · simp [solveSmallLoop, propagateAll, maxReductionCycles]
      rw [key] at h
      simp only [Option.some.injEq] at h
      subst h; exact hg
    · exfalso
      obtain ⟨c, hmem, hcc⟩ := C13.prepLoop_contradiction _ _ _ hcon
      have hin : c ∈ csts := by
        rcases C13.filter_subset wd csts [] c hmem with h1 | h1
        · cases h1
        · exact h1
      have := C13.contradiction_unsat wd σ c hcc
      rw [hsat c hin] at this; cases this

/-- non-vacuity: a tautology and an ill-typed constraint are dropped; a contradiction is found -/
example : C13.assumeTrivial (fun v => if v = 0 then 8 else 32) [⟨⟨[], -3⟩, .leq⟩, ⟨⟨[(0, 1), (1, -1)], 0⟩, .leq⟩] = true ∧
    C13.assumeTrivial (fun _ => 8) [⟨⟨[(0, 1)], 0⟩, .leq⟩, ⟨⟨[], 1⟩, .leq⟩] = true := by decide

/-! ## non-vacuity of the environment-level theorems (`C13WDomEnv.lean`, `C13WDomHist.lean`) -/

open C13.AssumeCex in
/-- a non-bottom, non-top, well-typed environment with the invariant and a state it describes -/
example : Inv e0 ∧ Typed wd e0 ∧ γ wd e0 σ0 ∧ XDom.Env.isTop e0 = false ∧ e0.isBot = false := by
  have hgood : Good (wd 0) (WInt.single ⟨8, 128⟩) := good_of_shape (by decide)
  have hinv := C13.wdom_set_inv_typed wd WDom.Env.top 0 (by decide) (WInt.single ⟨8, 128⟩) inv_top (typed_top wd) hgood
  exact ⟨hinv.1, hinv.2,
    set_sound (wd := wd) inv_top (by decide) (γ_top wd (fun _ => 0)) (by decide : mem (wd 0) 128 (WInt.single ⟨8, 128⟩)),
    by decide, by decide⟩

open C13.AssumeCex in
/-- the transformers compute proper intervals with wrap-around: `y := x + 1`, `z := y * 2`
    (`-127 * 2 = -254 ≡ 2`), `z := x /s y` , casts -/
example :
    ((e0.applyCst wd .add 1 0 1).bind (fun r => (r.applyCst wd .mul 2 1 2).map (fun r => (r.get 1, r.get 2)))) =
      some (W 8 129 129 false, W 8 2 2 false) ∧
    (e0.cast (fun v => if v = 3 then 32 else 8) .sext 3 0).map (fun r => r.get 3) = some (W 32 4294967168 4294967168 false) ∧
    (e0.cast (fun v => if v = 3 then 32 else 8) .zext 3 0).map (fun r => r.get 3) = some (W 32 128 128 false) ∧
    (e0.cast (fun v => if v = 3 then 1 else 8) .trunc 3 0).map (fun r => r.get 3) = some WInt.top := by decide
