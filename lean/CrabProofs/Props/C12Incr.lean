import CrabProofs.Lemmas.DbmIncrInline3

/-!
# C12 — the incremental closure of `split_dbm_domain`, as coded, is the full closure

First mechanism named by C12: "incremental shortest-path closure kept after each edge addition":
`split_dbm.hpp close_over_edge()`, `add_linear_leq()`, `repair_potential()`;
`graph_ops.hpp GraphOps::repair_potential()`, `close_after_assign()`, `apply_delta()`.
Model: `CrabModel/Dom/DbmIncr.lean` (line-by-line; crab's edge `s → d` of weight `w`, i.e.
`d - s ≤ w`, is the matrix entry `(d, s)` of the `Zone n` of the canonical model, `edge g s d`).

THE INVARIANT (`DbmIncr.SplitNF`, "split normal form"): no self loop, and the stored graph with
the trivial zero diagonal satisfies the triangle inequality through every VARIABLE vertex
`k ≠ 0` — for `i, j` variables: the edges among variables are closed and close no negative cycle;
for `i = 0` or `j = 0`: the bounds are closed under the edges among variables; for `i = j = 0`:
`lb ≤ ub`.  The triangle inequality through the ZERO vertex is not maintained: exactly the
difference constraints `x - y ≤ ub(x) - lb(y)` implied by two bounds may be absent or weaker in the
stored graph; every reader re-derives them (`DbmIncr.fullOf`: bound edges as stored, an edge
between two variables as `min(stored, path through 0)` = `Zones.splitW`).
Without `zones.close_bounds_inline` the loop over the difference constraints of `add_linear_leq`
runs on `DbmIncr.VarNF` (only the edges among variables closed) and `close_after_assign(.., 0, ..)`
restores `SplitNF` at the end.

All statements hold for every number of variables and for EVERY enumeration order `vs` of the
adjacency lists (duplicate-free, containing every vertex).
-/
open Crab Crab.Dbm Crab.Zones Crab.DbmIncr

variable {n : Nat}

/-! ## `close_over_edge` -/

/-- `close_over_edge(ii, jj)` on the edges among variables, for both settings of
    `zones.close_bounds_inline`: if these edges were closed (`VarNF`) before the caller relaxed
    `ii → jj` to `w` and the new graph `G` has no negative cycle, the result has EXACTLY the
    closure of the variable subgraph of `G` as its edges among variables, it has the solutions of
    `G`, and without `close_bounds_inline` the bound edges are untouched -/
theorem C12.close_over_edge_vars_exact (inl : Bool) (vs : List (Fin (n + 1))) (hvs : ∀ v, v ∈ vs)
    (hnd : vs.Nodup) (g : Zone n) (hg : VarNF g) (ii jj : Fin (n + 1)) (hi : ii ≠ 0) (hj : jj ≠ 0)
    (hij : ii ≠ jj) (w : Int) (hb : isBottom (updEdge g ii w jj) = false) :
    let G := updEdge g ii w jj
    let r := closeOverEdge inl vs G ii jj
    VarNF r ∧ (∀ a b, (varPart r).get a b = (close (varPart G)).get a b) ∧
      (∀ v, r.sat v ↔ G.sat v) ∧
      (inl = false → ∀ x, edge r 0 x = edge G 0 x ∧ edge r x 0 = edge G x 0) := by
  intro G r
  have e : r = closeOverEdgeI inl vs G ii jj := closeOverEdge_eq_I inl vs hnd G hi hj hij
  obtain ⟨h1, h2, hdec, habove, h5, _⟩ := closeOverEdgeI_var inl vs hvs hg hi hj hij hb
  rw [e]
  refine ⟨h1, h2, fun v => ⟨Mat.sat_of_LE (fun a b => hdec b a), fun h => ?_⟩, h5⟩
  exact Mat.sat_of_LE (fun a b => habove b a) ((Mat.fw_sat _ v).2 h)

/-- **close_over_edge_exact**: under `zones.close_bounds_inline`, if the graph was in split normal
    form before the caller relaxed `ii → jj` to `w` and the new graph `G` has no negative cycle
    (`repair_potential` succeeded), then `close_over_edge` restores the split normal form and the
    result READS as exactly the Floyd–Warshall closure of `G`: zero diagonal, every bound edge
    equal to the closed entry, every edge between two variables `i, j` such that
    `close G (i,j) = min(stored (i,j), stored (i,0) + stored (0,j))` -/
theorem C12.close_over_edge_exact (vs : List (Fin (n + 1))) (hvs : ∀ v, v ∈ vs) (hnd : vs.Nodup)
    (g : Zone n) (hg : SplitNF g) (ii jj : Fin (n + 1)) (hi : ii ≠ 0) (hj : jj ≠ 0) (hij : ii ≠ jj)
    (w : Int) (hb : isBottom (updEdge g ii w jj) = false) :
    let G := updEdge g ii w jj
    let r := closeOverEdge true vs G ii jj
    SplitNF r ∧ (∀ i j, (close G).get i j = (fullOf r).get i j) ∧
      (∀ x, x ≠ 0 → edge r 0 x = edge (close G) 0 x ∧ edge r x 0 = edge (close G) x 0) := by
  intro G r
  have e : r = closeOverEdgeI true vs G ii jj := closeOverEdge_eq_I true vs hnd G hi hj hij
  obtain ⟨h1, h2⟩ := closeOverEdgeI_full vs hvs hg hi hj hij hb
  rw [e]
  obtain ⟨_, h3⟩ := h1.fullOf_eq_close h2
  refine ⟨h1, h3, fun x hx => ⟨?_, ?_⟩⟩
  · have := h3 x 0
    simp only [fullOf_get, hx, if_false, splitW, or_true, if_true] at this
    exact this.symm
  · have := h3 0 x
    have hx' : ¬ ((0 : Fin (n + 1)) = x) := fun e => hx e.symm
    simp only [fullOf_get, hx', if_false, splitW, true_or, if_true] at this
    exact this.symm

/-- the re-closure of the bounds at the end of `add_linear_leq` without `close_bounds_inline`
    (`close_after_assign(g, potential, 0, delta); apply_delta(g, delta)`, also the last step of
    `normalize()`): from closed edges among variables it restores the split normal form, for every
    expansion order of the successors (the code sorts them by slack), keeps the solutions, does
    not touch the edges among variables, and the result reads as the closure -/
theorem C12.close_after_assign_exact (adjF adjB vs : List (Fin (n + 1))) (hF : ∀ x, x ∈ adjF)
    (hB : ∀ x, x ∈ adjB) (hvs : ∀ x, x ∈ vs) (g : Zone n) (hg : VarNF g) (hb : isBottom g = false) :
    let r := closeAfterAssign adjF adjB vs g 0
    SplitNF r ∧ (∀ i j, (close g).get i j = (fullOf r).get i j) ∧
      ∀ s d, s ≠ 0 → d ≠ 0 → edge r s d = edge g s d := by
  intro r
  obtain ⟨h1, h2, h3⟩ := closeAfterAssign_exact adjF adjB vs hF hB hvs hg hb
  exact ⟨h1, (h1.fullOf_eq_close h2).2, h3⟩

/-- the reading of a graph in split normal form is a closed matrix (so all of
    `C12.closed_matrix_is_tight` applies to what the code stores) -/
theorem C12.splitNF_reads_closed (g : Zone n) (h : SplitNF g) : Mat.Closed (fullOf g) :=
  h.closed_fullOf

/-! ## the bottom test -/

/-- `repair_potential(ii, jj)` after the edge `ii → jj` was set: it answers `false` (bottom) iff
    the graph has no integer solution; when it answers `true` the new potential is a solution -/
theorem C12.repair_potential_bottom_iff (vs : List (Fin (n + 1))) (hvs : ∀ v, v ∈ vs) (g : Zone n)
    (p : Fin (n + 1) → Int) (ii jj : Fin (n + 1)) (w : Int) (hw : edge g ii jj = some w)
    (hp : PotValidExcept g p ii jj) :
    (repairPotential vs g p ii jj = none ↔ ¬ ∃ v, g.sat v) ∧
    (∀ p', repairPotential vs g p ii jj = some p' → g.sat p') := by
  obtain ⟨h1, h2⟩ := repairPotential_spec vs hvs g p ii jj w hw hp
  refine ⟨⟨fun h ⟨v, hv⟩ => h2 h v hv, fun h => ?_⟩, h1⟩
  rcases hq : repairPotential vs g p ii jj with _ | p'
  · rfl
  · exact absurd ⟨p', h1 p' hq⟩ h

/-- **add_edge_bottom_iff**: `operator+=` of an in-language constraint on a value in split normal
    form with a valid potential (either setting of `close_bounds_inline`): the "already implied"
    tests and `repair_potential` answer bottom iff the constraints of the value together with the
    new one have no integer solution; otherwise the new value is again in split normal form with a
    valid potential and has exactly the states of the old value that satisfy the constraint -/
theorem C12.add_edge_bottom_iff (inl : Bool) (vs : List (Fin (n + 1))) (hvs : ∀ v, v ∈ vs)
    (hnd : vs.Nodup) (s : SG n) (hs : SplitNF s.g) (hp : s.g.sat s.pot) (c : Zones.Cst n) :
    (addCst inl vs s c = none ↔ ¬ ∃ σ : State n, γ s.g σ ∧ c.sat σ) ∧
    (∀ s', addCst inl vs s c = some s' →
      SplitNF s'.g ∧ s'.g.sat s'.pot ∧ ∀ σ : State n, γ s'.g σ ↔ (γ s.g σ ∧ c.sat σ)) := by
  have sp := addCst_spec' inl vs hvs hnd s ⟨hs, hp⟩ c
  have hc : ∀ σ : State n, cstV c (ext σ) ↔ c.sat σ := fun σ => (Cst.sat_iff_entry c σ).symm
  rcases hq : addCst inl vs s c with _ | s'
  · rw [hq] at sp
    refine ⟨⟨fun _ ⟨σ, h1, h2⟩ => sp (ext σ) h1 ((hc σ).2 h2), fun _ => rfl⟩, fun s' h => by cases h⟩
  · rw [hq] at sp
    refine ⟨⟨fun h => (by cases h), fun h => ?_⟩, fun s'' h => ?_⟩
    · exfalso
      apply h
      have hsat := sp.1.2
      have := (sp.2 _).1 ((sat_stateOf _ _).2 hsat)
      exact ⟨stateOf s'.pot, this.1, (hc _).1 this.2⟩
    · cases h
      exact ⟨sp.1.1, sp.1.2, fun σ => by rw [← hc]; exact sp.2 (ext σ)⟩

/-! ## histories -/

/-- **incr_history_exact**: after ANY sequence of in-language constraints added from top (with
    either setting of `zones.close_bounds_inline`), the
    code's value is bottom iff the canonical model's value is, and otherwise the stored graph is
    in split normal form, the potential is a solution, and the stored graph reads entrywise as the
    closure of the canonical model's matrix — so every exactness theorem of `C12.lean` about
    `close (assumeAll top cs)` is a theorem about the graph as the code stores it -/
theorem C12.incr_history_exact (inl : Bool) (vs : List (Fin (n + 1))) (hvs : ∀ v, v ∈ vs)
    (hnd : vs.Nodup) (cs : List (Zones.Cst n)) :
    match addAll inl vs cs with
    | none => isBottom (assumeAll (Zones.top : Zone n) cs) = true
    | some s => SplitNF s.g ∧ s.g.sat s.pot ∧ isBottom (assumeAll (Zones.top : Zone n) cs) = false ∧
        ∀ i j, (close (assumeAll (Zones.top : Zone n) cs)).get i j = (fullOf s.g).get i j := by
  have h := addAll_spec' inl vs hvs hnd cs
  rcases hq : addAll inl vs cs with _ | s
  · rw [hq] at h
    simp only
    rw [Zones.bottom_iff_unsat]
    rintro ⟨σ, hσ⟩
    exact h (ext σ) hσ
  · rw [hq] at h
    obtain ⟨h1, h2⟩ := h.1.1.fullOf_eq_close h.2
    exact ⟨h.1.1, h.1.2, h1, h2⟩

/-- the code's bottom flag after a history is exact -/
theorem C12.incr_history_bottom_iff (inl : Bool) (vs : List (Fin (n + 1))) (hvs : ∀ v, v ∈ vs)
    (hnd : vs.Nodup) (cs : List (Zones.Cst n)) :
    addAll inl vs cs = none ↔ ¬ ∃ σ : State n, ∀ c ∈ cs, c.sat σ := by
  have h := C12.incr_history_exact inl vs hvs hnd cs
  have hc : (¬ ∃ σ : State n, ∀ c ∈ cs, c.sat σ) ↔ isBottom (assumeAll (Zones.top : Zone n) cs) = true := by
    rw [Zones.bottom_iff_unsat]
    constructor
    · rintro h ⟨σ, hσ⟩
      exact h ⟨σ, ((Zones.assumeAll_exact _ cs σ).1 hσ).2⟩
    · rintro h ⟨σ, hσ⟩
      exact h ⟨σ, (Zones.assumeAll_exact _ cs σ).2 ⟨Zones.top_γ σ, hσ⟩⟩
  rw [hc]
  rcases hq : addAll inl vs cs with _ | s
  · rw [hq] at h; exact ⟨fun _ => h, fun _ => rfl⟩
  · rw [hq] at h
    refine ⟨fun e => (by cases e), fun e => ?_⟩
    rw [h.2.2.1] at e; cases e

/-- transfer, bounds: `operator[]` of the canonical model after a history is read off the two
    bound edges the code stores -/
theorem C12.incr_history_bounds (inl : Bool) (vs : List (Fin (n + 1))) (hvs : ∀ v, v ∈ vs)
    (hnd : vs.Nodup) (cs : List (Zones.Cst n)) (s : SG n) (h : addAll inl vs cs = some s) (x : Fin n) :
    bounds (assumeAll (Zones.top : Zone n) cs) x =
      ⟨toLb (edge s.g x.succ 0), toUb (edge s.g 0 x.succ)⟩ := by
  have hh := C12.incr_history_exact inl vs hvs hnd cs
  rw [h] at hh
  obtain ⟨_, _, hb, he⟩ := hh
  rw [Zones.bounds_of_not_bottom hb, he, he]
  have h0 : ¬ ((0 : Fin (n + 1)) = x.succ) := fun e => Fin.succ_ne_zero x e.symm
  simp [fullOf_get, splitW, h0, Fin.succ_ne_zero, edge]

/-- transfer, entailment: the canonical model entails an in-language constraint after a history
    iff the reading of the stored graph is below its bound -/
theorem C12.incr_history_entails (inl : Bool) (vs : List (Fin (n + 1))) (hvs : ∀ v, v ∈ vs)
    (hnd : vs.Nodup) (cs : List (Zones.Cst n)) (s : SG n) (h : addAll inl vs cs = some s) (c : Zones.Cst n) :
    entails (assumeAll (Zones.top : Zone n) cs) c = W.le ((fullOf s.g).get c.row c.col) (some c.bound) := by
  have hh := C12.incr_history_exact inl vs hvs hnd cs
  rw [h] at hh
  obtain ⟨_, _, hb, he⟩ := hh
  unfold entails entailsC
  rw [show isBottomC (close (assumeAll (Zones.top : Zone n) cs)) = false from hb, he]
  simp

/-! ## the seeded regression is caught by the model -/

/-- what exactness would mean for the variant of `close_over_edge` that records a successor in
    `dest_dec` only when its edge is new (`/verif/seeded/C12b/patch.diff`) -/
def C12.close_over_edge_mutant_Statement : Prop :=
  ∀ (n : Nat) (vs : List (Fin (n + 1))), (∀ v, v ∈ vs) → vs.Nodup →
    ∀ (g : Zone n), VarNF g → ∀ (ii jj : Fin (n + 1)), ii ≠ 0 → jj ≠ 0 → ii ≠ jj → ∀ w : Int,
      isBottom (updEdge g ii w jj) = false →
      ∀ a b, (varPart (closeOverEdgeMut false vs (updEdge g ii w jj) ii jj)).get a b =
        (close (varPart (updEdge g ii w jj))).get a b

/-- the witness graph is a legal input (edges among variables closed, no self loop) -/
theorem C12.mutantWitness_varNF : VarNF mutantWitness := by
  refine ⟨fun i => ?_, ⟨fun i => ?_, fun i j k => (W.le_iff _ _).1 ?_⟩⟩
  · revert i; decide
  · revert i; decide
  · revert i j k; decide

/-- **close_over_edge_mutant_counterexample**: on the 4-variable graph
    `{i - a ≤ 0, d - i ≤ 10, d - j ≤ 1, d - a ≤ 10}` the new edge `j - i ≤ 1` tightens the existing
    `d - i` to 2; the variant leaves `d - a ≤ 10` although the closure (and the real
    `close_over_edge`) has `d - a ≤ 2` -/
theorem C12.close_over_edge_mutant_counterexample : ¬ C12.close_over_edge_mutant_Statement := by
  intro h
  have := h 4 (List.finRange 5) (fun v => List.mem_finRange v) (List.nodup_finRange 5) mutantWitness
    C12.mutantWitness_varNF 2 3 (by decide) (by decide) (by decide) 1 (by decide) 4 1
  revert this
  decide

/-- the same input through the code as it is -/
theorem C12.close_over_edge_on_witness :
    edge (closeOverEdge false (List.finRange 5) (updEdge mutantWitness 2 1 3) 2 3) 1 4 = some 2 ∧
    edge (closeOverEdgeMut false (List.finRange 5) (updEdge mutantWitness 2 1 3) 2 3) 1 4 = some 10 ∧
    edge (close (updEdge mutantWitness 2 1 3)) 1 4 = some 2 := by decide

/-! ## non-vacuity -/

/-- the hypotheses of `C12.close_over_edge_exact` hold on a non-trivial graph in split normal form
    (built by the model of `operator+=`: `x ≤ 5, y - x ≤ 2`), and the conclusion is not trivial:
    adding `z - y ≤ 1` under `close_bounds_inline` derives `z - x ≤ 3` and `z ≤ 8` -/
example :
    (addAll false (List.finRange 4) [.ub (0 : Fin 3) 5, .diff 1 0 2]).map (fun s =>
      let r := closeOverEdge true (List.finRange 4) (updEdge s.g 2 1 3) 2 3
      (edge r 1 3, edge r 0 3, edge r 0 2)) = some (some 3, some 8, some 7) := by decide

/-- a satisfiable history, an unsatisfiable one (`x - y ≤ -1 ∧ y - x ≤ 0`: `repair_potential`
    fails), and a difference constraint skipped because the bounds imply it -/
example : (addAll false (List.finRange 3) [.diff 0 1 3, .ub (1 : Fin 2) 2]).isSome = true := by decide
example : addAll false (List.finRange 3) [.diff (0 : Fin 2) 1 (-1), .diff 1 0 0] = none := by decide
example : (addAll false (List.finRange 3) [.ub (0 : Fin 2) 1, .lb 1 0, .diff 0 1 5]).map
    (fun s => (edge s.g 2 1, (fullOf s.g).get 1 2)) = some (none, some 1) := by decide

/-- the same histories under `close_bounds_inline`: same stored bounds, same bottom -/
example : (addAll true (List.finRange 4) [.ub (0 : Fin 3) 5, .diff 1 0 2, .diff 2 1 1]).map
    (fun s => (edge s.g 0 3, edge s.g 1 3)) = some (some 8, some 3) := by decide
example : addAll true (List.finRange 3) [.diff (0 : Fin 2) 1 (-1), .diff 1 0 0] = none := by decide

/-- `repair_potential` really repairs: after `y - x ≤ -3` from the zero potential the new
    potential is a solution that differs from the old one -/
example : (repairPotential (List.finRange 3) (updEdge (SG.top : SG 2).g 1 (-3) 2) (fun _ => 0) 1 2).map
    (fun p => (p 0, p 1, p 2)) = some (0, 0, -3) := by decide
