import CrabProofs.Lemmas.XDomCongInst
import CrabProofs.Props.C03

/-!
# C03 for `congruence_domain<z_number>` — every operation is sound, proved on the exact model

`Crab.GDom` (CrabModel/Dom/CongruenceDomain.lean + Dom/NonRelEnv.lean) is the branch-by-branch
model of `ikos::congruence_domain<z_number, VariableName>` and of its
`equality_congruence_solver` over the existing model of `separate_domain` (`SepDom`, Patricia
tree) and of `congruence<z_number>` (`Crab.Cong`); it is tied to the real code by the exact
correspondence `xdom` (harness/h_cdom.cpp -DXDOM=3, Driver/XDomH.lean: every binding after every
operation of random histories).

Concretisation: `Env.γ e σ := e.isBot = false ∧ ∀ x, σ x ∈ γ(e.at(x))` over integer valuations.
Hypotheses `e.Inv`, `x < 2^64`, `CstOk c`: as in `Props/C03Cst.lean`; here `Inv` also says that
every stored congruence is in the standard form `0 ≤ b < a` established by `normalize()`
(`Cong.WF`), which every operation re-establishes (`C03.congdom_stmt_inv`, …).

`Shl` by a variable amount needs the modulus of the class of the amount to fit a machine word
(`C03.congdom_apply_bitwise_var_sound`, from `C08.cg_shl_sound`; `z_number` shifts by
`mpz_get_ui` of the amount, known finding F22); such statements are left out of the histories
(`GDom.Ok'`).
-/
open Crab Crab.GDom Crab.XDom Crab.Lin

/-! ### transformers -/

/-- `set(x, c)`: `x` receives any member of `c` (a congruence in standard form) -/
theorem C03.congdom_set_sound (e : Env) (he : e.Inv) (σ : State) (x : Var) (hx : x < 2 ^ 64) (c : Cong) (n : Int)
    (hw : Cong.WF c) (hg : e.γ σ) (hn : Cong.mem n c) : (e.set x c).γ (upd σ x n) := Env.set_sound he hg hx hw hn

/-- `to_congruence(expr)` contains the value of the expression in every state of `γ` -/
theorem C03.congdom_eval_sound (e : Env) (σ : State) (ex : Expr) (hg : e.γ σ) :
    Cong.mem (ex.eval σ) (e.eval ex) := Env.eval_sound hg ex

/-- `assign(x, e)` -/
theorem C03.congdom_assign_sound (e : Env) (he : e.Inv) (σ : State) (x : Var) (hx : x < 2 ^ 64) (ex : Expr)
    (hg : e.γ σ) : (e.assign x ex).γ (upd σ x (ex.eval σ)) := Env.assign_sound he hg hx ex

/-- `weak_assign(x, e)`: both the old state and the updated state are described -/
theorem C03.congdom_weak_assign_sound (e : Env) (he : e.Inv) (σ : State) (x : Var) (hx : x < 2 ^ 64) (ex : Expr)
    (hg : e.γ σ) : (e.weakAssign x ex).γ σ ∧ (e.weakAssign x ex).γ (upd σ x (ex.eval σ)) :=
  Env.weakAssign_sound he hg hx ex

/-- `apply(arith op, x, y, z)` for every arithmetic operation (`ArithOp.conc` is the operation on
    mathematical integers; no successor for a division by zero) -/
theorem C03.congdom_apply_arith_var_sound (e : Env) (he : e.Inv) (σ : State) (op : ArithOp) (x y z : Var)
    (hx : x < 2 ^ 64) (c : Int) (hg : e.γ σ) (hc : op.conc (σ y) (σ z) = some c) :
    (e.applyVar op x y z).γ (upd σ x c) := Env.applyVar_sound he hg op hx y z hc

/-- `apply(arith op, x, y, k)` -/
theorem C03.congdom_apply_arith_cst_sound (e : Env) (he : e.Inv) (σ : State) (op : ArithOp) (x y : Var)
    (hx : x < 2 ^ 64) (k c : Int) (hg : e.γ σ) (hc : op.conc (σ y) k = some c) :
    (e.applyCst op x y k).γ (upd σ x c) := Env.applyCst_sound he hg op hx y k hc

/-- `apply(bitwise op, x, y, z)`; the concrete shifts are defined for amounts in `[0, 2^64)`; for
    `Shl` the modulus of the class of `z` must fit a machine word too (F22) -/
theorem C03.congdom_apply_bitwise_var_sound (e : Env) (he : e.Inv) (σ : State) (op : BitOp) (x y z : Var)
    (hx : x < 2 ^ 64) (c : Int) (hg : e.γ σ) (hc : op.conc (σ y) (σ z) = some c)
    (hz : op = .shl → (e.get z).a < 2 ^ 64) :
    (e.applyBitVar op x y z).γ (upd σ x c) := Env.applyBitVar_sound he hg op hx y z hc hz

/-- `apply(bitwise op, x, y, k)` -/
theorem C03.congdom_apply_bitwise_cst_sound (e : Env) (he : e.Inv) (σ : State) (op : BitOp) (x y : Var)
    (hx : x < 2 ^ 64) (k c : Int) (hg : e.γ σ) (hc : op.conc (σ y) k = some c) :
    (e.applyBitCst op x y k).γ (upd σ x c) := Env.applyBitCst_sound he hg op hx y k hc

/-- the solver (`equality_congruence_solver`: constructor + `run`), for every cycle bound: a state
    of `γ env` that satisfies the system is in `γ` of the result -/
theorem C03.congdom_solver_sound (csts : Sys) (maxCycles : Nat) (env : Env) (he : env.Inv) (σ : State)
    (hc : ∀ c ∈ csts, CstOk c) (hg : env.γ σ) (hsat : Sys.sat csts σ) :
    (solverRun csts maxCycles env).γ σ := (solverRun_spec hc maxCycles he).2 σ hsat hg

/-- `operator+=(csts)`: every state of `γ` that satisfies the system is kept -/
theorem C03.congdom_assume_sound (e : Env) (he : e.Inv) (σ : State) (csts : Sys) (hc : ∀ c ∈ csts, CstOk c)
    (hg : e.γ σ) (hsat : Sys.sat csts σ) : (e.add csts).γ σ := Env.add_sound he hg hc hsat

/-- `select(lhs, cond, e1, e2)` -/
theorem C03.congdom_select_sound (e : Env) (he : e.Inv) (σ : State) (lhs : Var) (hx : lhs < 2 ^ 64)
    (cond : Lin.Cst) (e1 e2 : Expr) (hc : CstOk cond) (hg : e.γ σ) :
    (e.select lhs cond e1 e2).γ (upd σ lhs (if cond.sat σ then e1.eval σ else e2.eval σ)) :=
  Env.select_sound he hg hx hc e1 e2

/-- `operator-=(x)` -/
theorem C03.congdom_forget_sound (e : Env) (he : e.Inv) (σ : State) (x : Var) (hx : x < 2 ^ 64) (n : Int)
    (hg : e.γ σ) : (e.forget x).γ (upd σ x n) := by
  rw [GDom.Env.forget_eq]; exact XDom.Env.forget_sound congLaws he hg hx n

/-- `forget(variables)`: the state may change on the forgotten variables only -/
theorem C03.congdom_forget_vector_sound (e : Env) (he : e.Inv) (σ σ' : State) (vs : List Var)
    (hv : ∀ v ∈ vs, v < 2 ^ 64) (hg : e.γ σ) (h : ∀ y, y ∉ vs → σ' y = σ y) :
    (e.forgetAll vs).γ σ' := by
  rw [GDom.Env.forgetAll_eq]; exact XDom.Env.forgetAll_sound congLaws he hg hv h

/-- `project(variables)`, both branches of `separate_domain::project`: the state is kept on the
    projected variables only -/
theorem C03.congdom_project_sound (e : Env) (he : e.Inv) (σ σ' : State) (vs : List Var)
    (hv : ∀ v ∈ vs, v < 2 ^ 64) (hg : e.γ σ) (h : ∀ y ∈ vs, σ' y = σ y) :
    (e.project vs).γ σ' := by
  rw [GDom.Env.project_eq]; exact XDom.Env.project_sound congLaws he hg hv h

/-- `expand(x, new_x)`: `new_x` receives any value the domain allows for `x` (in particular the
    value of `x`) -/
theorem C03.congdom_expand_sound (e : Env) (he : e.Inv) (σ : State) (x nx : Var) (hnx : nx < 2 ^ 64) (n : Int)
    (hg : e.γ σ) (hn : Cong.mem n (e.get x)) : (e.expand x nx).γ (upd σ nx n) :=
  XDom.Env.expand_sound congLaws he hg hnx hn

/-- `rename(from, to)` with distinct sources and distinct, fresh targets: `to[i]` receives the value
    of `from[i]`, the variables outside `from` and `to` keep theirs -/
theorem C03.congdom_rename_sound (e e' : Env) (he : e.Inv) (σ σ' : State) (frm to : List Var) (hg : e.γ σ)
    (hr : e.rename frm to = some e')
    (hf : ∀ v ∈ frm, v < 2 ^ 64) (ht : ∀ v ∈ to, v < 2 ^ 64) (hnf : frm.Nodup) (hnt : to.Nodup)
    (hdis : ∀ y ∈ to, y ∉ frm) (hfresh : ∀ y ∈ to, e.tree.lookup y = none)
    (hrel : ∀ p ∈ frm.zip to, σ' p.2 = σ p.1) (hout : ∀ y, y ∉ frm → y ∉ to → σ' y = σ y) : e'.γ σ' := by
  rw [GDom.Env.rename_eq] at hr
  exact XDom.Env.rename_sound congLaws he hg hr hf ht hnf hnt hdis hfresh hrel hout

/-- `rename` raises CRAB_ERROR exactly on vectors of different lengths (unless nothing is to do) -/
theorem C03.congdom_rename_defined (e : Env) (frm to : List Var) :
    (e.rename frm to).isSome =
      (e.isBot || SepDom.isTop e || decide (frm.length = to.length)) := by
  rw [GDom.Env.rename_eq]
  unfold XDom.Env.rename SepDom.rename
  cases hb : e.isBot
  · simp only [Bool.false_eq_true, if_false, Bool.false_or, Bool.or_false]
    split
    · rename_i h; simp [h]
    · rename_i h
      split
      · rename_i h2; simp at h2; simp [h, h2]
      · rename_i h2; simp at h2; simp [h2]
  · simp

/-- integer casts between integer variables (`assign`, plus `dst <= 2^bw - 1` for `zext`) -/
theorem C03.congdom_cast_sound (e : Env) (he : e.Inv) (σ : State) (zext : Bool) (bw : Nat) (dst src : Var)
    (hd : dst < 2 ^ 64) (hg : e.γ σ) (hz : zext = true → σ src ≤ 2 ^ bw - 1) :
    (e.intCast zext bw dst src).γ (upd σ dst (σ src)) := Env.intCast_sound he hg zext bw hd src hz

/-! ### exported facts -/

/-- `to_linear_constraint_system()` holds in every state of `γ`, and has no solution for bottom -/
theorem C03.congdom_to_csts_sound (e : Env) (he : e.Inv) (σ : State) (hg : e.γ σ) : Sys.sat e.toCsts σ :=
  Env.toCsts_sound he hg

theorem C03.congdom_to_csts_bottom (e : Env) (σ : State) (h : e.isBot = true) : ¬ Sys.sat e.toCsts σ :=
  XDom.Env.exportCsts_bot _ h σ

/-- `at(v)` / `operator[](v)` ("not implemented": top) contains every value -/
theorem C03.congdom_at_sound (e : Env) (σ : State) (x : Var) : Itv.mem (σ x) (e.atItv x) := Itv.mem_top _

/-! ### the invariant of `separate_domain` is maintained -/

theorem C03.congdom_top_bot_inv : GDom.Env.top.Inv ∧ GDom.Env.bot.Inv := ⟨GDom.Env.inv_top, GDom.Env.inv_bot⟩

/-- every statement keeps the invariant -/
theorem C03.congdom_stmt_inv (st : Stmt) (hok : st.Ok) (a : Env) (h : a.Inv) : (exec st a).Inv := exec_inv st hok h

/-- so do `set`, `rename` and the lattice operations -/
theorem C03.congdom_set_inv (e : Env) (he : e.Inv) (x : Var) (hx : x < 2 ^ 64) (c : Cong) (hw : Cong.WF c) :
    (e.set x c).Inv := Env.set_inv he hx hw

theorem C03.congdom_rename_inv (e e' : Env) (he : e.Inv) (frm to : List Var)
    (hr : e.rename frm to = some e') (hf : ∀ v ∈ frm, v < 2 ^ 64) (ht : ∀ v ∈ to, v < 2 ^ 64) :
    e'.Inv := by
  rw [GDom.Env.rename_eq] at hr; exact XDom.Env.rename_inv congLaws he hr hf ht

theorem C03.congdom_lattice_inv (a b : Env) (ha : a.Inv) (hb : b.Inv) :
    Env.Inv (XDom.Env.join congLattice a b) ∧ Env.Inv (XDom.Env.meet congLattice a b) ∧
    Env.Inv (XDom.Env.widen congLattice a b) ∧ Env.Inv (XDom.Env.narrow congLattice a b) :=
  ⟨XDom.Env.upper_inv congLaws congLaws.join ha hb, XDom.Env.lower_inv congLaws congLaws.meet ha hb,
   XDom.Env.upper_inv congLaws congLaws.widen ha hb, XDom.Env.lower_inv congLaws congLaws.narrow ha hb⟩

/-! ### the operations as steps of the generic history contract -/

/-- every statement (one call of `assign` / `weak_assign` / `apply` / `+=` / `select` / `-=` /
    `forget` / `project` / `expand` / cast) is a sound transformer step -/
theorem C03.congdom_step_trans_sound (d : Nat) (st : Stmt) (hok : Ok' st) :
    (Dom.Step.trans d ⟨execS st hok.1, st.rel⟩ : Dom.Step SEnv State).Sound SEnv.γ :=
  fun a _ _ hg hr => exec_sound st hok a.2 hg hr

theorem C03.congdom_step_join_sound (d a b : Nat) :
    (Dom.Step.upper d a b SEnv.join : Dom.Step SEnv State).Sound SEnv.γ :=
  fun x y _ h => XDom.Env.upper_sound congLaws congLaws.join x.2 y.2 h

/-- `operator||` and `widening_thresholds` (which ignores its thresholds): `_env || e._env` -/
theorem C03.congdom_step_widen_sound (d a b : Nat) :
    (Dom.Step.upper d a b SEnv.widen : Dom.Step SEnv State).Sound SEnv.γ :=
  fun x y _ h => XDom.Env.upper_sound congLaws congLaws.widen x.2 y.2 h

theorem C03.congdom_step_meet_sound (d a b : Nat) :
    (Dom.Step.lower d a b SEnv.meet : Dom.Step SEnv State).Sound SEnv.γ :=
  fun x y _ h1 h2 => XDom.Env.lower_sound congLaws congLaws.meet x.2 y.2 h1 h2

theorem C03.congdom_step_narrow_sound (d a b : Nat) :
    (Dom.Step.lower d a b SEnv.narrow : Dom.Step SEnv State).Sound SEnv.γ :=
  fun x y _ h1 h2 => XDom.Env.lower_sound congLaws congLaws.narrow x.2 y.2 h1 h2

/-- the steps an operation history of the constant domain is made of -/
inductive C03.CongdomStep : Dom.Step SEnv State → Prop
  | trans (d : Nat) (st : Stmt) (hok : Ok' st) : C03.CongdomStep (.trans d ⟨execS st hok.1, st.rel⟩)
  | join (d a b : Nat) : C03.CongdomStep (.upper d a b SEnv.join)
  | widen (d a b : Nat) : C03.CongdomStep (.upper d a b SEnv.widen)
  | meet (d a b : Nat) : C03.CongdomStep (.lower d a b SEnv.meet)
  | narrow (d a b : Nat) : C03.CongdomStep (.lower d a b SEnv.narrow)
  | copy (d s : Nat) : C03.CongdomStep (.copy d s)
  | setBot (d : Nat) : C03.CongdomStep (.setBot d SEnv.bot)

theorem C03.congdom_step_sound (st : Dom.Step SEnv State) (h : C03.CongdomStep st) : st.Sound SEnv.γ := by
  cases h with
  | trans d s hok => exact C03.congdom_step_trans_sound d s hok
  | join d a b => exact C03.congdom_step_join_sound d a b
  | widen d a b => exact C03.congdom_step_widen_sound d a b
  | meet d a b => exact C03.congdom_step_meet_sound d a b
  | narrow d a b => exact C03.congdom_step_narrow_sound d a b
  | copy d s => trivial
  | setBot d => trivial

/-- **C03 for the constant domain**: after ANY history of its operations over a pool of values,
    every slot contains the collecting semantics of the history (instance of `C03.history_sound`) -/
theorem C03.congdom_history_sound (hist : List (Dom.Step SEnv State)) (hs : ∀ st ∈ hist, C03.CongdomStep st)
    (p : Dom.Pool SEnv) (c : Dom.CPool State) (h : ∀ i s, c i s → (p i).γ s) :
    ∀ i s, (Dom.collHist c hist) i s → ((Dom.runHist p hist) i).γ s :=
  C03.history_sound SEnv.γ hist (fun st hst => C03.congdom_step_sound st (hs st hst)) p c h

/-- a slot whose collecting semantics is inhabited is never reported bottom -/
theorem C03.congdom_not_bottom_if_inhabited (hist : List (Dom.Step SEnv State))
    (hs : ∀ st ∈ hist, C03.CongdomStep st) (p : Dom.Pool SEnv) (c : Dom.CPool State)
    (h : ∀ i s, c i s → (p i).γ s) (i : Nat) (s : State) (hc : (Dom.collHist c hist) i s) :
    ((Dom.runHist p hist) i).1.isBot = false := (C03.congdom_history_sound hist hs p c h i s hc).1

/-- the invariant holds of every slot after any history: the values are subtypes carrying it -/
theorem C03.congdom_history_inv (hist : List (Dom.Step SEnv State)) (p : Dom.Pool SEnv) (i : Nat) :
    ((Dom.runHist p hist) i).1.Inv := ((Dom.runHist p hist) i).2

/-! ### non-vacuity -/

/-- `x := 2y + 1; assume x - z = 0; w := x * z` from top: the bindings are exactly the expected
    ones (`x, z ∈ 2Z+1`, `w ∈ 2Z+1`) -/
example :
    let e := exec (.arithVar .mul 3 0 2) (exec (.assume [⟨⟨[(0, 1), (2, -1)], 0⟩, .eq⟩]) (exec (.assign 0 ⟨[(1, 2)], 1⟩) GDom.Env.top))
    XDom.Env.bindings e = [(0, ⟨false, 2, 1⟩), (2, ⟨false, 2, 1⟩), (3, ⟨false, 2, 1⟩)] := by decide +kernel

example : Ok' (.assume [⟨⟨[(0, 1), (2, -1)], 0⟩, .eq⟩]) := by
  refine ⟨?_, fun _ _ _ h => by cases h⟩
  intro c hc
  simp only [List.mem_cons, List.not_mem_nil, or_false] at hc
  subst hc
  exact ⟨by decide, by intro p hp; simp at hp; rcases hp with h | h <;> subst h <;> decide⟩

example : GDom.Env.γ (GDom.Env.top.set 0 ⟨false, 2, 1⟩) (fun _ => 7) :=
  GDom.Env.set_sound_same GDom.Env.inv_top (XDom.Env.γ_top congLaws _) (by decide) (by decide) (by decide)
