import CrabProofs.Lemmas.ArraySmashItvFull
import CrabProofs.Props.C14

/-!
# C14 for `array_smashing<interval_domain>` on the EXACT model

`Crab.Dom.SmashItv` (CrabModel/Dom/ArraySmashItv.lean) transcribes `array_smashing.hpp` over the
exact model `IDom.Env` of `interval_domain` (the summary of an array is an ordinary variable of the
base environment, `m_last_access_env` is a `separate_domain` of constants with its bottom flag,
`array_assign`, `operator&`, `set_to_top`, `operator+=` as coded).  It is tied to the code by the
correspondence `arr` of the variant smash-intervals (harness/h_arr.cpp -DVDOM=1,
Driver/ArrXH.lean: `is_bottom` and the interval of every integer variable after every operation).

* `C14.smashitv_refines`: on values that satisfy the invariant `Inv` (size environment not bottom,
  one binding per variable) every exact operation that has a counterpart in the generic functor
  model `Crab.Dom.Smash` over the base `itvBase` (the interval domain, which satisfies every law
  of `Smash.Base`) computes exactly what the generic operation computes — except two branches where
  the code does less: `AssignNoSize` (`array_assign` with no size known: the base domain is left
  alone, `C14.smashitv_assign_nosize`, covered by `Smash.untracked_update_sound`) and `JoinBottom`
  (join / widening with an operand whose base is bottom: the other operand is returned,
  `C14.smashitv_join_bottom`).
* `C14.smashitv_step_sound`, `C14.smashitv_history_sound`, `C14.smashitv_load_sound`,
  `C14.smashitv_never_bottom_on_reachable`: the statements of `C14.smash_*` for the exact model,
  with `set_to_top` and `+=` of syntactic constraint systems in the language, and the conclusion
  in terms of what the harness dumps (`is_bottom()`, `at(x)`), for all histories WITHOUT meet.
* `C14.smashitv_load_sound_counterexample`: with `operator&` in the language the full statement is
  false for the code as it is (reproduced on the real domain, replay line below): `array_init`
  over an EMPTY range (`ub < lb`) sets the summary to the initial value although no cell holds it;
  the meet of two such values with different initial values is bottom, although the concrete
  state (the array without any cell) belongs to both.

* `C14.smashitv_meet_sound`, `C14.smashitv_step_sound_full`, `C14.smashitv_history_sound_full`,
  `C14.smashitv_load_sound_full`: the whole operation language, `operator&` INCLUDED, is sound
  under two client contracts that exclude exactly the counterexamples: `array_init` initialises
  at least one cell (`lb ≤ ub`, in the concrete relation of the steps `XOp.toStepC`) and
  `array_assign` is used between arrays of the same element size (`XOp.SizeOk`, decidable).  The
  invariant is `Inv2`: `Inv`, every recorded size is the element size of its array (`SizesOk`),
  and no summary of an untracked array nor any temporary is bound in the base environment (`ND`,
  proved through the frame property of the constraint solver, Lemmas/IDomFrame.lean).
* `C14.smashitv_load_sound_contract_counterexample`: the second contract is needed too (replayed on
  the real code): `array_assign` between arrays of different element sizes records a wrong size,
  the join drops it but keeps the summary, a meet revives it.

History.  On the pinned tree the statement with meet also failed without empty ranges:
`operator|` with an operand whose base is bottom kept the summary of the other operand but lost
its size, and a later meet revived the stale summary (`(arr.hist smash-intervals (par 1 1 8 8)
(esz 4 4) (ops (assume 0 (le (lin 1))) (ainit 1 a0 (lin 0) (lin 7) (lin 7)) (join 2 0 1) (astore 2
a0 (lin 0) (lin 5) 0) (astore 1 a0 (lin 0) (lin 5) 0) (meet 0 2 1) (aload 0 v2 a0 (lin 0))))` gave
`v2 = [7,7]`, the execution loads 5).  Repaired by commit 9186671 (early return of join /
widening on bottom operands), which this model follows.
-/
open Crab Crab.Dom Crab.Dom.Arr Crab.Dom.SmashItv

/-- the transformer of a step is the function the driver runs (`XOp.val`) -/
theorem C14.smashitv_run_eq (esz : Nat → Nat) (o : XOp) (p : Pool St) :
    (o.toStep esz).run p = p.set o.dst (o.val esz p) := by
  cases o <;> rfl

/-- **Refinement of the generic proved model** (see the header). -/
theorem C14.smashitv_refines (esz : Nat → Nat) (o : XOp) (g : Smash.Op) (hg : o.toOp = some g) (p : Pool St)
    (hI : ∀ i, Inv (p i)) (hk : ¬ o.AssignNoSize p) (hj : ¬ o.JoinBottom p) :
    ∃ hs : ∀ i, Inv ((o.toStep esz).run p i),
      ∀ i, absS ((o.toStep esz).run p i) (hs i).2 = (g.toStep (Bs := itvBase) esz).run (absPool p hI) i :=
  refines esz o g hg p hI hk hj

/-- in the branch `AssignNoSize` the code does nothing -/
theorem C14.smashitv_assign_nosize (esz : Nat → Nat) (d lhs rhs : Nat) (p : Pool St)
    (hk : (XOp.aAssign d lhs rhs).AssignNoSize p) : ((XOp.aAssign d lhs rhs).toStep esz).run p = p := by
  funext i
  simp only [XOp.toStep, Step.run, Pool.set, arrayAssign_nosize hk.1 hk.2.1 hk.2.2]
  split
  · rename_i h; rw [h]
  · rfl

/-- in the branch `JoinBottom` the code returns the operand whose base is not known to be bottom -/
theorem C14.smashitv_join_bottom (esz : Nat → Nat) (d a b : Nat) (p : Pool St)
    (hk : (XOp.join d a b).JoinBottom p) :
    ((XOp.join d a b).toStep esz).run p = p.set d (if (p a).isBottom then p b else p a) ∧
    ((XOp.widen d a b).toStep esz).run p = p.set d (if (p a).isBottom then p b else p a) := by
  have hk' : (p a).isBottom = true ∨ (p b).isBottom = true := hk
  simp only [XOp.toStep, Step.run]
  cases na : (p a).isBottom with
  | true => simp [join_bottom_l na, widen_bottom_l na]
  | false =>
    have nb : (p b).isBottom = true := hk'.elim (fun h => absurd h (by simp [na])) id
    simp [join_bottom_r na nb, widen_bottom_r na nb]

/-- every operation other than meet preserves the invariant and is sound w.r.t. `γx` -/
theorem C14.smashitv_step_sound (esz : Nat → Nat) (o : XOp) (hm : o.isMeet = false) :
    (o.toStep esz).SoundInv Inv (γx esz) := step_soundInv esz o hm

/-- **History soundness of the exact model** for all histories without meet: every state of the
    collecting semantics is in the concretisation of the computed value. -/
theorem C14.smashitv_history_sound (esz : Nat → Nat) (ops : List XOp) (hm : ∀ o ∈ ops, o.isMeet = false)
    (p : Pool St) (c : CPool CState) (hI : ∀ i, Inv (p i)) (h0 : ∀ i s, c i s → γx esz (p i) s) :
    ∀ i s, collHist c (toHist esz ops) i s → γx esz (runHist p (toHist esz ops) i) s := by
  refine (history_sound_inv Inv (γx esz) (toHist esz ops) ?_ p c hI h0).2
  intro st hst
  simp only [toHist, List.mem_map] at hst
  obtain ⟨o, ho, rfl⟩ := hst
  exact step_soundInv esz o (hm o ho)

/-- the full statement (histories with meet included) -/
def C14.smashitv_load_sound_Statement : Prop :=
  ∀ (esz : Nat → Nat) (ops : List XOp) (p : Pool St) (c : CPool CState),
    (∀ i, Inv (p i)) → (∀ i s, c i s → γx esz (p i) s) →
    ∀ (d x a : Nat) (i : SLin) (s s' : CState),
      collHist c (toHist esz ops) d s → cLoad (esz a) x a i.eval s = some s' →
      Itv.mem (s'.iv x) ((runHist p (toHist esz (ops ++ [XOp.aLoad d x a i])) d).atVar x)

/-- **C14 on the exact model** (partial: histories without meet): whatever history produced the
    abstract value, the value a concrete load returns is in the interval the domain reports
    (`at(x)`, what h_arr dumps) for the loaded variable. -/
theorem C14.smashitv_load_sound (esz : Nat → Nat) (ops : List XOp) (hm : ∀ o ∈ ops, o.isMeet = false)
    (p : Pool St) (c : CPool CState) (hI : ∀ i, Inv (p i)) (h0 : ∀ i s, c i s → γx esz (p i) s)
    (d x a : Nat) (i : SLin) (s s' : CState)
    (hs : collHist c (toHist esz ops) d s) (hl : cLoad (esz a) x a i.eval s = some s') :
    Itv.mem (s'.iv x) ((runHist p (toHist esz (ops ++ [XOp.aLoad d x a i])) d).atVar x) := by
  have hm' : ∀ o ∈ ops ++ [XOp.aLoad d x a i], o.isMeet = false := by
    intro o ho
    rcases List.mem_append.1 ho with h | h
    · exact hm o h
    · simp only [List.mem_singleton] at h; subst h; rfl
  have hcoll : collHist c (toHist esz (ops ++ [XOp.aLoad d x a i])) d s' := by
    simp only [toHist, List.map_append, List.map_cons, List.map_nil, collHist, List.foldl_append,
      List.foldl_cons, List.foldl_nil]
    simp only [XOp.toStep, Step.coll, CPool.set, if_true]
    exact ⟨s, hs, hl⟩
  exact (γx_at (C14.smashitv_history_sound esz _ hm' p c hI h0 d s' hcoll)).2 x

theorem C14.smashitv_load_sound_partial (esz : Nat → Nat) (ops : List XOp) (hm : ∀ o ∈ ops, o.isMeet = false)
    (p : Pool St) (c : CPool CState) (hI : ∀ i, Inv (p i)) (h0 : ∀ i s, c i s → γx esz (p i) s)
    (d x a : Nat) (i : SLin) (s s' : CState)
    (hs : collHist c (toHist esz ops) d s) (hl : cLoad (esz a) x a i.eval s = some s') :
    Itv.mem (s'.iv x) ((runHist p (toHist esz (ops ++ [XOp.aLoad d x a i])) d).atVar x) :=
  C14.smashitv_load_sound esz ops hm p c hI h0 d x a i s s' hs hl

/-- every integer variable, not only a loaded one, and `is_bottom()`: everything h_arr dumps -/
theorem C14.smashitv_dump_sound (esz : Nat → Nat) (ops : List XOp) (hm : ∀ o ∈ ops, o.isMeet = false)
    (p : Pool St) (c : CPool CState) (hI : ∀ i, Inv (p i)) (h0 : ∀ i s, c i s → γx esz (p i) s)
    (d : Nat) (s : CState) (hs : collHist c (toHist esz ops) d s) :
    (runHist p (toHist esz ops) d).isBottom = false ∧
      ∀ x, Itv.mem (s.iv x) ((runHist p (toHist esz ops) d).atVar x) :=
  γx_at (C14.smashitv_history_sound esz ops hm p c hI h0 d s hs)

theorem C14.smashitv_never_bottom_on_reachable (esz : Nat → Nat) (ops : List XOp)
    (hm : ∀ o ∈ ops, o.isMeet = false) (p : Pool St) (c : CPool CState) (hI : ∀ i, Inv (p i))
    (h0 : ∀ i s, c i s → γx esz (p i) s) (d : Nat) (s : CState) (hs : collHist c (toHist esz ops) d s) :
    (runHist p (toHist esz ops) d).isBottom = false :=
  (C14.smashitv_dump_sound esz ops hm p c hI h0 d s hs).1

/-- the initial pool of the harness satisfies the hypotheses -/
theorem C14.smashitv_initial (esz : Nat → Nat) (c : CPool CState) :
    (∀ i, Inv ((fun _ => St.top : Pool St) i)) ∧ ∀ i s, c i s → γx esz ((fun _ => St.top : Pool St) i) s :=
  ⟨fun _ => inv_top, fun _ s _ => γx_top s⟩

/-! ### the statement fails with meet: `array_init` over an empty range (checked on the real code) -/

namespace C14xcex

def k (n : Int) : SLin := ⟨n, []⟩

/-- `array_init(a0, 4, 0, -1, 5)` on pool[0], `array_init(a0, 4, 0, -1, 7)` on pool[1] (empty
    ranges: a0 has no cell), `pool[2] = pool[0] & pool[1]` (bottom: `[5,5] & [7,7]` on the summary),
    `a0[0] := 9` on pool[2].  Replay line:
    `(arr.hist smash-intervals (par 1 1 8 8) (esz 4 4) (ops (ainit 0 a0 (lin 0) (lin -1) (lin 5))
    (ainit 1 a0 (lin 0) (lin -1) (lin 7)) (meet 2 0 1) (astore 2 a0 (lin 0) (lin 9) 0)
    (aload 2 v2 a0 (lin 0))))` : the real domain answers `is_bottom` after the meet. -/
def ops : List XOp :=
  [.aInit 0 0 (k 0) (k (-1)) (k 5), .aInit 1 0 (k 0) (k (-1)) (k 7), .meet 2 0 1,
   .aStore 2 0 (k 0) (k 9) false]

def s0 : CState := ⟨fun _ => 0, fun _ => Mem.empty⟩
def s1 : CState := s0.setArr 0 Mem.empty
def s2 : CState := s1.setArr 0 ((s1.ar 0).store 0 9)
def s3 : CState := s2.setVar 2 9

end C14xcex

open C14xcex in
/-- the model (= the code, see the correspondence and the replay line) reports bottom, hence
    `v2 = bot`, for the load `v2 := a0[0]` after the history `C14xcex.ops`; the concrete execution
    loads 9 -/
theorem C14.smashitv_load_sound_counterexample : ¬ C14.smashitv_load_sound_Statement := by
  intro h
  have hi5 : cInit 4 0 (k 0).eval (k (-1)).eval (k 5).eval s0 = some s1 := by
    show some (s0.setArr 0 (Mem.init 4 0 (-1) 5)) = some s1
    rw [init_empty_range]; rfl
  have hi7 : cInit 4 0 (k 0).eval (k (-1)).eval (k 7).eval s0 = some s1 := by
    show some (s0.setArr 0 (Mem.init 4 0 (-1) 7)) = some s1
    rw [init_empty_range]; rfl
  have hv := h (fun _ => 4) C14xcex.ops (fun _ => St.top) (fun _ s => s = s0)
    (fun _ => inv_top) (fun _ s _ => γx_top s) 2 2 0 (k 0) s2 s3
    (by
      simp only [C14xcex.ops, toHist, List.map_cons, List.map_nil, collHist, XOp.toStep]
      simp only [List.foldl, Step.coll, CPool.set]
      refine ⟨s1, ⟨⟨s0, rfl, hi5⟩, ⟨s0, rfl, hi7⟩⟩, rfl, ?_⟩
      intro hf; exact absurd hf (by decide))
    (by rfl)
  have he : (runHist (fun _ => St.top) (toHist (fun _ => 4) (C14xcex.ops ++ [XOp.aLoad 2 2 0 (k 0)])) 2).atVar 2
      = Itv.bot := by decide
  rw [he] at hv
  revert hv
  decide

/-! ### the whole language, meet included, under the two client contracts -/

/-- the contract-carrying steps compute the same abstract values (the ones the driver compares) -/
theorem C14.smashitv_run_eq_contract (esz : Nat → Nat) (ops : List XOp) (p : Pool St) :
    runHist p (toHistC esz ops) = runHist p (toHist esz ops) := by
  induction ops generalizing p with
  | nil => rfl
  | cons o rest ih =>
    simp only [toHistC, toHist, List.map_cons, runHist, List.foldl_cons] at ih ⊢
    have e : (o.toStepC esz).run p = (o.toStep esz).run p := by cases o <;> rfl
    rw [e]; exact ih _

/-- **`operator&` is sound** on values that satisfy `Inv2`, for states in which every tracked array
    has a cell (`γ2`) -/
theorem C14.smashitv_meet_sound (esz : Nat → Nat) (a b : St) (s : CState) (ha : Inv2 esz a) (hb : Inv2 esz b)
    (ga : γ2 esz a s) (gb : γ2 esz b s) : Inv2 esz (St.meet a b) ∧ γ2 esz (St.meet a b) s :=
  ⟨inv2_meet ha hb, meet_sound ha hb ga gb, ne_meet ha hb ga.2 gb.2⟩

theorem C14.smashitv_step_sound_full (esz : Nat → Nat) (o : XOp) (hs : o.SizeOk esz) :
    (o.toStepC esz).SoundInv (Inv2 esz) (γ2 esz) := step_soundInv2 esz o hs

/-- **History soundness for the whole operation language** (meet included) -/
theorem C14.smashitv_history_sound_full (esz : Nat → Nat) (ops : List XOp) (hs : ∀ o ∈ ops, o.SizeOk esz)
    (p : Pool St) (c : CPool CState) (hI : ∀ i, Inv2 esz (p i)) (h0 : ∀ i s, c i s → γ2 esz (p i) s) :
    ∀ i s, collHist c (toHistC esz ops) i s → γ2 esz (runHist p (toHistC esz ops) i) s := by
  refine (history_sound_inv (Inv2 esz) (γ2 esz) (toHistC esz ops) ?_ p c hI h0).2
  intro st hst
  simp only [toHistC, List.mem_map] at hst
  obtain ⟨o, ho, rfl⟩ := hst
  exact step_soundInv2 esz o (hs o ho)

/-- **C14 on the exact model, meet included**: the value a concrete load returns is in the interval
    the domain reports for the loaded variable, after any history of the whole language that
    respects the two client contracts -/
theorem C14.smashitv_load_sound_full (esz : Nat → Nat) (ops : List XOp) (hs : ∀ o ∈ ops, o.SizeOk esz)
    (p : Pool St) (c : CPool CState) (hI : ∀ i, Inv2 esz (p i)) (h0 : ∀ i s, c i s → γ2 esz (p i) s)
    (d x a : Nat) (i : SLin) (s s' : CState)
    (hc : collHist c (toHistC esz ops) d s) (hl : cLoad (esz a) x a i.eval s = some s') :
    Itv.mem (s'.iv x) ((runHist p (toHist esz (ops ++ [XOp.aLoad d x a i])) d).atVar x) := by
  have hs' : ∀ o ∈ ops ++ [XOp.aLoad d x a i], o.SizeOk esz := by
    intro o ho
    rcases List.mem_append.1 ho with h | h
    · exact hs o h
    · simp only [List.mem_singleton] at h; subst h; trivial
  have hcoll : collHist c (toHistC esz (ops ++ [XOp.aLoad d x a i])) d s' := by
    simp only [toHistC, List.map_append, List.map_cons, List.map_nil, collHist, List.foldl_append,
      List.foldl_cons, List.foldl_nil]
    simp only [XOp.toStepC, XOp.toStep, Step.coll, CPool.set, if_true]
    exact ⟨s, hc, hl⟩
  rw [← C14.smashitv_run_eq_contract]
  exact (γx_at (C14.smashitv_history_sound_full esz _ hs' p c hI h0 d s' hcoll).1).2 x

/-- the initial pool of the harness satisfies the hypotheses of the `_full` theorems -/
theorem C14.smashitv_initial_full (esz : Nat → Nat) (c : CPool CState) :
    (∀ i, Inv2 esz ((fun _ => St.top : Pool St) i)) ∧ ∀ i s, c i s → γ2 esz ((fun _ => St.top : Pool St) i) s :=
  ⟨fun _ => inv2_top, fun _ s _ => γ2_top s⟩

/-- the statement of `smashitv_load_sound_full` WITHOUT the hypothesis `SizeOk` -/
def C14.smashitv_load_sound_contract_Statement : Prop :=
  ∀ (esz : Nat → Nat) (ops : List XOp) (p : Pool St) (c : CPool CState),
    (∀ i, Inv2 esz (p i)) → (∀ i s, c i s → γ2 esz (p i) s) →
    ∀ (d x a : Nat) (i : SLin) (s s' : CState),
      collHist c (toHistC esz ops) d s → cLoad (esz a) x a i.eval s = some s' →
      Itv.mem (s'.iv x) ((runHist p (toHist esz (ops ++ [XOp.aLoad d x a i])) d).atVar x)

namespace C14xcex

/-- element sizes 4 (a0) and 8 (a1); `array_assign(a1, a0)` on pool[0] records the size 4 for a1
    (no concrete execution: the sizes differ); pool[1] initialises a1 properly; the join drops the
    two different sizes of a1 but keeps its summary `[1,1]`; the store `a1[0] := 5` is ignored on
    pool[2] and a meet with pool[1] revives the stale summary.  Replay line (the real domain
    answers `v2 = [1,1]`, the execution loads 5):
    `(arr.hist smash-intervals (par 1 1 8 8) (esz 4 8) (ops (ainit 0 a0 (lin 0) (lin 7) (lin 1))
    (aassign 0 a1 a0) (ainit 1 a1 (lin 0) (lin 15) (lin 1)) (join 2 0 1) (astore 2 a1 (lin 0) (lin 5) 0)
    (astore 1 a1 (lin 0) (lin 5) 0) (meet 0 2 1) (aload 0 v2 a1 (lin 0))))` -/
def ops2 : List XOp :=
  [.aInit 0 0 (k 0) (k 7) (k 1), .aAssign 0 1 0, .aInit 1 1 (k 0) (k 15) (k 1), .join 2 0 1,
   .aStore 2 1 (k 0) (k 5) false, .aStore 1 1 (k 0) (k 5) false, .meet 0 2 1]

def esz2 : Nat → Nat := fun a => if a = 0 then 4 else 8
def t1 : CState := s0.setArr 1 (Mem.init 8 0 15 1)
def t2 : CState := t1.setArr 1 ((t1.ar 1).store 0 5)
def t3 : CState := t2.setVar 2 5

end C14xcex

open C14xcex in
/-- `SizeOk` is needed: an `array_assign` between arrays of different element sizes (outside the
    word-level assumption, which `array_assign` does not check) leaves a stale summary -/
theorem C14.smashitv_load_sound_contract_counterexample : ¬ C14.smashitv_load_sound_contract_Statement := by
  intro h
  have hv := h esz2 ops2 (fun _ => St.top) (fun _ s => s = s0)
    (fun _ => inv2_top) (fun _ s _ => γ2_top s) 0 2 1 (k 0) t2 t3
    (by
      simp only [ops2, toHistC, List.map_cons, List.map_nil, collHist, XOp.toStepC, XOp.toStep]
      simp only [List.foldl, Step.coll, CPool.set]
      refine ⟨⟨t1, Or.inr ⟨s0, rfl, rfl, by decide⟩, rfl, ?_⟩, ⟨t1, ⟨s0, rfl, rfl, by decide⟩, rfl, ?_⟩⟩
      · intro hf; exact absurd hf (by decide)
      · intro hf; exact absurd hf (by decide))
    (by rfl)
  have he : (runHist (fun _ => St.top) (toHist esz2 (ops2 ++ [XOp.aLoad 0 2 1 (k 0)])) 0).atVar 2
      = ⟨.fin 1, .fin 1⟩ := by decide
  rw [he] at hv
  revert hv
  decide

/-- non-vacuity of the `_full` theorems: two initialisations over non-empty ranges, a weak store
    on one side, a meet and a load: the model reports `v0 = [5,5]` -/
example : (runHist (fun _ => St.top) (toHist (fun _ => 4)
    [XOp.aInit 0 0 (C14xcex.k 0) (C14xcex.k 3) (C14xcex.k 5), XOp.aInit 1 0 (C14xcex.k 0) (C14xcex.k 3) (C14xcex.k 5),
     XOp.aStore 1 0 (C14xcex.k 0) (C14xcex.k 9) false, XOp.meet 2 0 1, XOp.aLoad 2 0 0 (C14xcex.k 0)]) 2).atVar 0
      = ⟨.fin 5, .fin 5⟩ := by decide

/-- non-vacuity of `smashitv_load_sound`: after `array_init(a0, 4, 0, 3, 5)` the load `v0 := a0[0]`
    is defined on the concrete side and the domain reports `v0 = [5,5]` -/
example : (runHist (fun _ => St.top) (toHist (fun _ => 4)
    [XOp.aInit 0 0 (C14xcex.k 0) (C14xcex.k 3) (C14xcex.k 5), XOp.aLoad 0 0 0 (C14xcex.k 0)]) 0).atVar 0
      = ⟨.fin 5, .fin 5⟩ := by decide
