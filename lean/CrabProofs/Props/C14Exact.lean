import CrabProofs.Lemmas.ArraySmashItvRefine
import CrabProofs.Props.C14

/-!
# C14 for `array_smashing<interval_domain>` on the EXACT model

`Crab.Dom.SmashItv` (CrabModel/Dom/ArraySmashItv.lean) transcribes `array_smashing.hpp` over the
exact model `IDom.Env` of `interval_domain` (the summary of an array is an ordinary variable of the
base environment, `m_last_access_env` is a `separate_domain` of constants with its bottom flag,
`array_assign`, `operator&`, `set_to_top`, `operator+=` as coded).  It is tied to the code by the
correspondence `arr` of the variant smash-intervals (harness/h_arr.cpp -DVDOM=1,
Driver/ArrXH.lean: `is_bottom` and the interval of every integer variable after every operation).

* `C14.smashitv_refines`: on values that satisfy the invariant `Inv` (size environment not bottom,
  one binding per variable) every exact operation that has a counterpart in the generic functor
  model `Crab.Dom.Smash` over the base `itvBase` (the interval domain, which satisfies every law
  of `Smash.Base`) computes exactly what the generic operation computes — except the branch
  `AssignNoSize` of `array_assign` (no size known: the code leaves the base domain alone), which
  is covered by `Smash.untracked_update_sound`.
* `C14.smashitv_step_sound`, `C14.smashitv_history_sound`, `C14.smashitv_load_sound`,
  `C14.smashitv_never_bottom_on_reachable`: the statements of `C14.smash_*` for the exact model,
  with `set_to_top` and `+=` of syntactic constraint systems in the language, and the conclusion
  in terms of what the harness dumps (`is_bottom()`, `at(x)`), for all histories WITHOUT meet.
* `C14.smashitv_load_sound_counterexample`: with `operator&` the statement is FALSE for the code as
  it is (genuine defect, reproduced on the real domain): `operator|` with an operand whose base is
  bottom keeps the summary of the other operand but loses its size (the size environment of a
  bottom value is not bottom); the array is then untracked, stores to it are ignored, and a meet
  with a value that tracks the array revives the stale summary.
-/
open Crab Crab.Dom Crab.Dom.Arr Crab.Dom.SmashItv

/-- the transformer of a step is the function the driver runs (`XOp.val`) -/
theorem C14.smashitv_run_eq (esz : Nat → Nat) (o : XOp) (p : Pool St) :
    (o.toStep esz).run p = p.set o.dst (o.val esz p) := by
  cases o <;> rfl

/-- **Refinement of the generic proved model** (see the header). -/
theorem C14.smashitv_refines (esz : Nat → Nat) (o : XOp) (g : Smash.Op) (hg : o.toOp = some g) (p : Pool St)
    (hI : ∀ i, Inv (p i)) (hk : ¬ o.AssignNoSize p) :
    ∃ hs : ∀ i, Inv ((o.toStep esz).run p i),
      ∀ i, absS ((o.toStep esz).run p i) (hs i).2 = (g.toStep (Bs := itvBase) esz).run (absPool p hI) i :=
  refines esz o g hg p hI hk

/-- in the branch `AssignNoSize` the code does nothing -/
theorem C14.smashitv_assign_nosize (esz : Nat → Nat) (d lhs rhs : Nat) (p : Pool St)
    (hk : (XOp.aAssign d lhs rhs).AssignNoSize p) : ((XOp.aAssign d lhs rhs).toStep esz).run p = p := by
  funext i
  simp only [XOp.toStep, Step.run, Pool.set, arrayAssign_nosize hk.1 hk.2.1 hk.2.2]
  split
  · rename_i h; rw [h]
  · rfl

/-- every operation other than meet preserves the invariant and is sound w.r.t. `γx` -/
theorem C14.smashitv_step_sound (esz : Nat → Nat) (o : XOp) (hm : o.isMeet = false) :
    (o.toStep esz).SoundInv Inv (γx esz) := step_soundInv esz o hm

/-- **History soundness of the exact model** for all histories without meet: every state of the
    collecting semantics is in the concretisation of the computed value. -/
theorem C14.smashitv_history_sound (esz : Nat → Nat) (ops : List XOp) (hm : ∀ o ∈ ops, o.isMeet = false)
    (p : Pool St) (c : CPool CState) (hI : ∀ i, Inv (p i)) (h0 : ∀ i s, c i s → γx esz (p i) s) :
    ∀ i s, collHist c (toHist esz ops) i s → γx esz (runHist p (toHist esz ops) i) s := by
  refine (history_sound_inv Inv (γx esz) (toHist esz ops) ?_ p c hI h0).2
  intro st hst
  simp only [toHist, List.mem_map] at hst
  obtain ⟨o, ho, rfl⟩ := hst
  exact step_soundInv esz o (hm o ho)

/-- the full statement (histories with meet included) -/
def C14.smashitv_load_sound_Statement : Prop :=
  ∀ (esz : Nat → Nat) (ops : List XOp) (p : Pool St) (c : CPool CState),
    (∀ i, Inv (p i)) → (∀ i s, c i s → γx esz (p i) s) →
    ∀ (d x a : Nat) (i : SLin) (s s' : CState),
      collHist c (toHist esz ops) d s → cLoad (esz a) x a i.eval s = some s' →
      Itv.mem (s'.iv x) ((runHist p (toHist esz (ops ++ [XOp.aLoad d x a i])) d).atVar x)

/-- **C14 on the exact model** (partial: histories without meet): whatever history produced the
    abstract value, the value a concrete load returns is in the interval the domain reports
    (`at(x)`, what h_arr dumps) for the loaded variable. -/
theorem C14.smashitv_load_sound (esz : Nat → Nat) (ops : List XOp) (hm : ∀ o ∈ ops, o.isMeet = false)
    (p : Pool St) (c : CPool CState) (hI : ∀ i, Inv (p i)) (h0 : ∀ i s, c i s → γx esz (p i) s)
    (d x a : Nat) (i : SLin) (s s' : CState)
    (hs : collHist c (toHist esz ops) d s) (hl : cLoad (esz a) x a i.eval s = some s') :
    Itv.mem (s'.iv x) ((runHist p (toHist esz (ops ++ [XOp.aLoad d x a i])) d).atVar x) := by
  have hm' : ∀ o ∈ ops ++ [XOp.aLoad d x a i], o.isMeet = false := by
    intro o ho
    rcases List.mem_append.1 ho with h | h
    · exact hm o h
    · simp only [List.mem_singleton] at h; subst h; rfl
  have hcoll : collHist c (toHist esz (ops ++ [XOp.aLoad d x a i])) d s' := by
    simp only [toHist, List.map_append, List.map_cons, List.map_nil, collHist, List.foldl_append,
      List.foldl_cons, List.foldl_nil]
    simp only [XOp.toStep, Step.coll, CPool.set, if_true]
    exact ⟨s, hs, hl⟩
  exact (γx_at (C14.smashitv_history_sound esz _ hm' p c hI h0 d s' hcoll)).2 x

theorem C14.smashitv_load_sound_partial (esz : Nat → Nat) (ops : List XOp) (hm : ∀ o ∈ ops, o.isMeet = false)
    (p : Pool St) (c : CPool CState) (hI : ∀ i, Inv (p i)) (h0 : ∀ i s, c i s → γx esz (p i) s)
    (d x a : Nat) (i : SLin) (s s' : CState)
    (hs : collHist c (toHist esz ops) d s) (hl : cLoad (esz a) x a i.eval s = some s') :
    Itv.mem (s'.iv x) ((runHist p (toHist esz (ops ++ [XOp.aLoad d x a i])) d).atVar x) :=
  C14.smashitv_load_sound esz ops hm p c hI h0 d x a i s s' hs hl

/-- every integer variable, not only a loaded one, and `is_bottom()`: everything h_arr dumps -/
theorem C14.smashitv_dump_sound (esz : Nat → Nat) (ops : List XOp) (hm : ∀ o ∈ ops, o.isMeet = false)
    (p : Pool St) (c : CPool CState) (hI : ∀ i, Inv (p i)) (h0 : ∀ i s, c i s → γx esz (p i) s)
    (d : Nat) (s : CState) (hs : collHist c (toHist esz ops) d s) :
    (runHist p (toHist esz ops) d).isBottom = false ∧
      ∀ x, Itv.mem (s.iv x) ((runHist p (toHist esz ops) d).atVar x) :=
  γx_at (C14.smashitv_history_sound esz ops hm p c hI h0 d s hs)

theorem C14.smashitv_never_bottom_on_reachable (esz : Nat → Nat) (ops : List XOp)
    (hm : ∀ o ∈ ops, o.isMeet = false) (p : Pool St) (c : CPool CState) (hI : ∀ i, Inv (p i))
    (h0 : ∀ i s, c i s → γx esz (p i) s) (d : Nat) (s : CState) (hs : collHist c (toHist esz ops) d s) :
    (runHist p (toHist esz ops) d).isBottom = false :=
  (C14.smashitv_dump_sound esz ops hm p c hI h0 d s hs).1

/-- the initial pool of the harness satisfies the hypotheses -/
theorem C14.smashitv_initial (esz : Nat → Nat) (c : CPool CState) :
    (∀ i, Inv ((fun _ => St.top : Pool St) i)) ∧ ∀ i s, c i s → γx esz ((fun _ => St.top : Pool St) i) s :=
  ⟨fun _ => inv_top, fun _ s _ => γx_top s⟩

/-! ### the statement fails with meet: a stale summary revived (genuine defect of the code) -/

namespace C14xcex

def k (n : Int) : SLin := ⟨n, []⟩

/-- `pool[0] += {1 <= 0}` (bottom); `array_init(a0, 4, 0, 7, 7)` on pool[1]; `pool[2] = pool[0] | pool[1]`
    (a0 no longer tracked, summary still `[7,7]`); `a0[0] := 5` (weak) on pool[2] (ignored) and on
    pool[1] (summary `[5,7]`); `pool[0] = pool[2] & pool[1]` -/
def ops : List XOp :=
  [.assume 0 [⟨.leq, k 1⟩], .aInit 1 0 (k 0) (k 7) (k 7), .join 2 0 1,
   .aStore 2 0 (k 0) (k 5) false, .aStore 1 0 (k 0) (k 5) false, .meet 0 2 1]

def s0 : CState := ⟨fun _ => 0, fun _ => Mem.empty⟩
def s1 : CState := s0.setArr 0 (Mem.init 4 0 7 7)
def s2 : CState := s1.setArr 0 ((s1.ar 0).store 0 5)
def s3 : CState := s2.setVar 2 5

end C14xcex

open C14xcex in
/-- the model (= the code, see the correspondence) answers `v2 = [7,7]` for the load `v2 := a0[0]`
    after the history `C14xcex.ops`; the concrete execution loads 5 -/
theorem C14.smashitv_load_sound_counterexample : ¬ C14.smashitv_load_sound_Statement := by
  intro h
  have hv := h (fun _ => 4) C14xcex.ops (fun _ => St.top) (fun _ s => s = s0)
    (fun _ => inv_top) (fun _ s _ => γx_top s) 0 2 0 (k 0) s2 s3
    (by
      simp only [C14xcex.ops, toHist, List.map_cons, List.map_nil, collHist, XOp.toStep]
      simp only [List.foldl, Step.coll, CPool.set]
      have e1 : s1 = s0.setArr 0 (Mem.init 4 0 7 7) := rfl
      refine ⟨⟨s1, Or.inr ⟨s0, rfl, rfl⟩, rfl, ?_⟩, ⟨s1, ⟨s0, rfl, rfl⟩, rfl, ?_⟩⟩
      · intro hf; exact absurd hf (by decide)
      · intro hf; exact absurd hf (by decide))
    (by rfl)
  have he : (runHist (fun _ => St.top) (toHist (fun _ => 4) (C14xcex.ops ++ [XOp.aLoad 0 2 0 (k 0)])) 0).atVar 2
      = ⟨.fin 7, .fin 7⟩ := by decide
  rw [he] at hv
  revert hv
  decide

/-- non-vacuity of `smashitv_load_sound`: after `array_init(a0, 4, 0, 3, 5)` the load `v0 := a0[0]`
    is defined on the concrete side and the domain reports `v0 = [5,5]` -/
example : (runHist (fun _ => St.top) (toHist (fun _ => 4)
    [XOp.aInit 0 0 (C14xcex.k 0) (C14xcex.k 3) (C14xcex.k 5), XOp.aLoad 0 0 0 (C14xcex.k 0)]) 0).atVar 0
      = ⟨.fin 5, .fin 5⟩ := by decide
