import CrabProofs.Props.C02FwdBwd
import CrabProofs.Props.C02

/-!
# C02, forward+backward analyzer — examples, non-vacuity, and the `use_refined_invariants` finding

All examples use the two-point domain of `C02.lean` (`false` = bottom, `true` = top; it entails
nothing, so the forward rule of the checker answers `warning` for every reachable assertion) and
the forward pass "top strengthened with the assumption of the block".  The backward passes are
tables that are PROVED to satisfy the contract `FBSound` on the program at hand.

* `C02.FB.twoBlock` : `B0: x := 1`  `B1: assert(x <= 5)` — discharged (`B0` is bottom and strictly
  dominates `B1`); real analyzer (`prog.fwdbwd`, intervals): `(chk (B1 0 safe))`;
* `C02.FB.diamond` : `B0: havoc x; goto B1, B2`  `B1: assume(x != 3); goto B3`  `B2: goto B4`
  `B3: assert(x != 3)`  `B4: assert(x != 3)`  `B5` — only the assertion of `B3` is discharged;
  real analyzer: forward `(chk (B3 0 warning) (B4 0 warning))`, forward+backward
  `(chk (B3 0 safe) (B4 0 warning))`;
* `C02.FB.refProg` : `B0: x := 1; assert(x <= 5); goto B1`  `B1:` — with
  `use_refined_invariants = true` the checker answers `unreachable` for an assertion every
  execution reaches.  Real analyzer (h_prog.cpp with `params.get_use_refined_invariants() = true`,
  intervals): `(inv (B0 (pre 1 0 (iv bot) ...` and `(chk (B0 1 unreachable))` on
  `(prog.fwdbwd any (params 1 1 0 0) (ivars v0) (bvars) (entry B0) (exit B1) (init) (blocks (B0 (stmts (assign v0 (lin 1)) (assert (le (lin -5 (1 v0))))) (succs B1)) (B1 (stmts) (succs))))`.
-/
open Crab Crab.Fix Crab.IR Crab.Analysis

def C02.FB.ops : FBOps Bool := ⟨true, fun a => !a, fun a b => a && b, fun a b => !a || b⟩

/-- forward pass of the examples: top, strengthened with the assumption of the block -/
def C02.FB.fwd (T : AsmTable Bool) (b : Nat) : Bool := (T b).getD true

/-- `cfgEntry = 0`: block 0 is the entry block of every example CFG -/
def C02.FB.ctx (bwd : (Nat → Bool) → Nat → Bool) (backward refined : Bool) : FBCtx Bool :=
  { ops := C02.FB.ops, fwd := C02.FB.fwd, bwd := bwd,
    params := { enabledBackward := backward, maxRefine := 5, useRefined := refined },
    assumptions := fun _ => none, hasExit := true, cfgEntry := 0 }

/-- the contract holds as soon as the backward table is top wherever a failure is reachable -/
theorem C02.FB.sound (p : Program) (Init : State → Prop) (bwd : (Nat → Bool) → Nat → Bool)
    (backward refined : Bool)
    (h : ∀ (inv : Nat → State → Prop) (F : Nat → Bool) n σ, CoFail p inv n σ → bwd F n = true) :
    FBSound C02.Example.dom.γ (C02.FB.ctx bwd backward refined) p Init where
  top_sound := fun _ => rfl
  isBottom_sound := by intro a σ h1 h2; cases a <;> simp_all [C02.FB.ctx, C02.FB.ops, C02.Example.dom]
  meet_sound := by
    intro a b σ h1 h2
    simp_all [C02.FB.ctx, C02.FB.ops, C02.Example.dom]
  asm_cover := by intro b a σ hb; cases hb
  fwd_cover := by
    intro T hT b σ he
    show (T b).getD true = true
    cases hb : T b with
    | none => rfl
    | some a => exact hT b a σ hb he
  bwd_sound := fun T _ n σ hc => h _ _ n σ hc

theorem C02.FB.geti_seti (σ : State) (x : Nat) (v : Int) :
    (σ.seti x v).geti x = v ∨ (σ.seti x v).geti x = 0 := by
  unfold State.geti State.seti
  simp only [Array.getD_eq_getD_getElem?, Array.getElem?_setIfInBounds_self]
  by_cases h : x < σ.iv.size
  · left; simp [h]
  · right; simp [h]

/-! ### the two-block program -/

def C02.FB.twoBlock : Program :=
  ⟨1, 0, 0, 1, #[⟨[.assign 0 ⟨1, []⟩], [1]⟩, ⟨[.assert ⟨.le, ⟨-5, [(1, 0)]⟩⟩], []⟩]⟩

/-- backward table: no state at the entry of `B0` leads to a violation -/
def C02.FB.twoBlockBwd (_ : Nat → Bool) (b : Nat) : Bool := b != 0

theorem C02.FB.twoBlock_no_fail_from_entry (inv : Nat → State → Prop) (σ : State) :
    ¬ CoFail C02.FB.twoBlock inv 0 σ := by
  intro h
  cases h with
  | fail _ _ _ hf =>
    obtain ⟨ch, j, σ', hf⟩ := hf
    simp [runBlock, Program.block, C02.FB.twoBlock, runStmts, stepStmt, Stmt.usesChoice,
      Stmt.isAssert] at hf
  | flow _ m _ σ' _ hs hm hc =>
    obtain ⟨ch, hs⟩ := hs
    simp [runBlock, Program.block, C02.FB.twoBlock, runStmts, stepStmt, Stmt.usesChoice,
      Stmt.isAssert, Lin.eval] at hs
    simp [succsOf, Program.block, C02.FB.twoBlock] at hm
    subst hm; subst hs
    cases hc with
    | fail _ _ _ hf =>
      obtain ⟨ch, j, σ', hf⟩ := hf
      simp [runBlock, Program.block, C02.FB.twoBlock, runStmts, stepStmt, Stmt.usesChoice,
        Stmt.isAssert, Lin.eval, Cst.holds] at hf
      rcases C02.FB.geti_seti σ 0 1 with h1 | h1 <;> simp [h1] at hf
    | flow _ m' _ σ'' _ _ hm' _ => simp [succsOf, Program.block, C02.FB.twoBlock] at hm'

theorem C02.FB.twoBlock_sound (Init : State → Prop) (refined : Bool) :
    FBSound C02.Example.dom.γ (C02.FB.ctx C02.FB.twoBlockBwd true refined) C02.FB.twoBlock Init :=
  C02.FB.sound _ Init _ true refined (fun inv _ n σ hc => by
    show (n != 0) = true
    cases n with
    | zero => exact absurd hc (C02.FB.twoBlock_no_fail_from_entry inv σ)
    | succ k => rfl)

/-- the tree, the discharged assertion, the verdicts (forward only: `warning`) -/
example : idomTree (progGraph C02.FB.twoBlock) = [(0, [1])] := by decide
example : (runFB (C02.FB.ctx C02.FB.twoBlockBwd true false) C02.FB.twoBlock).proved = [(1, 0)] := by decide
example : (runFB (C02.FB.ctx C02.FB.twoBlockBwd true false) C02.FB.twoBlock).iters = 2 := by decide
example : checkBlockFB C02.Example.dom (fun _ a => a) C02.FB.twoBlock
    (runFB (C02.FB.ctx C02.FB.twoBlockBwd true false) C02.FB.twoBlock) 1 = [(0, .safe)] := by decide
example : checkBlockFB C02.Example.dom (fun _ a => a) C02.FB.twoBlock
    (runFB (C02.FB.ctx C02.FB.twoBlockBwd false false) C02.FB.twoBlock) 1 = [(0, .warning)] := by decide

/-- `C02.fwdbwd_checker_sound` applies to it with every hypothesis proved: the discharged
    assertion is violated by no execution, whatever the initial state -/
theorem C02.FB.twoBlock_assert_never_fails (n : Nat) (σ0 : State) (ch : List Int) (σ' : State) (ok : Bool)
    (hev : Event.check 1 0 σ' ok ∈ IR.run C02.FB.twoBlock n σ0 ch) : ok = true :=
  C02.fwdbwd_checker_sound C02.Example.dom (fun _ a => a) C02.Example.tr_sound
    (C02.FB.ctx C02.FB.twoBlockBwd true false) C02.FB.twoBlock (fun _ => True)
    (C02.FB.twoBlock_sound _ false) rfl n σ0 ch trivial 1 0 σ' ok .safe hev (by decide) rfl

/-- and the assertion is executed: the statement is not vacuous -/
example : Event.check 1 0 ⟨#[1], #[]⟩ true ∈ IR.run C02.FB.twoBlock 2 ⟨#[7], #[]⟩ [] := by decide

/-! ### the diamond: only one branch is discharged -/

def C02.FB.ne3 : Cst := ⟨.ne, ⟨-3, [(1, 0)]⟩⟩

def C02.FB.diamond : Program :=
  ⟨1, 0, 0, 5, #[⟨[.havoc 0], [1, 2]⟩, ⟨[.assume C02.FB.ne3], [3]⟩, ⟨[], [4]⟩,
                 ⟨[.assert C02.FB.ne3], [5]⟩, ⟨[.assert C02.FB.ne3], [5]⟩, ⟨[], []⟩]⟩

/-- backward table: bottom at `B1` (after `assume(x != 3)` the assertion of `B3` holds) and at the
    exit block, top elsewhere (the two-point domain cannot say `x = 3`) -/
def C02.FB.diamondBwd (_ : Nat → Bool) (b : Nat) : Bool := !(b == 1 || b == 5)

theorem C02.FB.diamond_no_fail_from_exit (inv : Nat → State → Prop) (σ : State) :
    ¬ CoFail C02.FB.diamond inv 5 σ := by
  intro h
  cases h with
  | fail _ _ _ hf =>
    obtain ⟨ch, j, σ', hf⟩ := hf
    simp [runBlock, Program.block, C02.FB.diamond, runStmts] at hf
  | flow _ m _ σ' _ _ hm _ => simp [succsOf, Program.block, C02.FB.diamond] at hm

theorem C02.FB.diamond_no_fail_from_B1 (inv : Nat → State → Prop) (σ : State) :
    ¬ CoFail C02.FB.diamond inv 1 σ := by
  intro h
  cases h with
  | fail _ _ _ hf =>
    obtain ⟨ch, j, σ', hf⟩ := hf
    simp [runBlock, Program.block, C02.FB.diamond, runStmts, stepStmt, Stmt.usesChoice,
      Stmt.isAssert] at hf
    split at hf <;> simp at hf
  | flow _ m _ σ' _ hs hm hc =>
    obtain ⟨ch, hs⟩ := hs
    simp [succsOf, Program.block, C02.FB.diamond] at hm
    subst hm
    by_cases hh : C02.FB.ne3.holds σ = true
    · simp [runBlock, Program.block, C02.FB.diamond, runStmts, stepStmt, Stmt.usesChoice,
        Stmt.isAssert, hh] at hs
      subst hs
      cases hc with
      | fail _ _ _ hf =>
        obtain ⟨ch, j, σ', hf⟩ := hf
        simp [runBlock, Program.block, C02.FB.diamond, runStmts, stepStmt, Stmt.usesChoice,
          Stmt.isAssert, hh] at hf
      | flow _ m' _ σ'' _ _ hm' hc' =>
        simp [succsOf, Program.block, C02.FB.diamond] at hm'
        subst hm'
        exact C02.FB.diamond_no_fail_from_exit inv σ'' hc'
    · simp [runBlock, Program.block, C02.FB.diamond, runStmts, stepStmt, Stmt.usesChoice,
        Stmt.isAssert, hh] at hs

theorem C02.FB.diamond_sound (Init : State → Prop) (refined : Bool) :
    FBSound C02.Example.dom.γ (C02.FB.ctx C02.FB.diamondBwd true refined) C02.FB.diamond Init :=
  C02.FB.sound _ Init _ true refined (fun inv _ n σ hc => by
    show (!(n == 1 || n == 5)) = true
    by_cases h1 : n = 1
    · subst h1; exact absurd hc (C02.FB.diamond_no_fail_from_B1 inv σ)
    · by_cases h5 : n = 5
      · subst h5; exact absurd hc (C02.FB.diamond_no_fail_from_exit inv σ)
      · simp [h1, h5])

example : idomTree (progGraph C02.FB.diamond) = [(0, [1, 2, 5]), (1, [3]), (2, [4])] := by decide
/-- only the assertion of `B3` is discharged -/
example : (runFB (C02.FB.ctx C02.FB.diamondBwd true false) C02.FB.diamond).proved = [(3, 0)] := by decide
example : (gatherAsserts C02.FB.diamond) = [(3, 0), (4, 0)] := by decide
example : [3, 4].map (checkBlockFB C02.Example.dom (fun _ a => a) C02.FB.diamond
    (runFB (C02.FB.ctx C02.FB.diamondBwd true false) C02.FB.diamond)) =
    [[(0, .safe)], [(0, .warning)]] := by decide
/-- the assertion of the other branch can fail: not discharging it is right -/
example : Event.check 4 0 ⟨#[3], #[]⟩ false ∈ IR.run C02.FB.diamond 4 ⟨#[0], #[]⟩ [3, 1] := by decide
/-- the discharged one is executed (and passes) -/
example : Event.check 3 0 ⟨#[4], #[]⟩ true ∈ IR.run C02.FB.diamond 4 ⟨#[0], #[]⟩ [4, 0] := by decide

theorem C02.FB.diamond_B3_assert_never_fails (n : Nat) (σ0 : State) (ch : List Int) (σ' : State) (ok : Bool)
    (hev : Event.check 3 0 σ' ok ∈ IR.run C02.FB.diamond n σ0 ch) : ok = true :=
  C02.fwdbwd_checker_sound C02.Example.dom (fun _ a => a) C02.Example.tr_sound
    (C02.FB.ctx C02.FB.diamondBwd true false) C02.FB.diamond (fun _ => True)
    (C02.FB.diamond_sound _ false) rfl n σ0 ch trivial 3 0 σ' ok .safe hev (by decide) rfl

/-! ### the code discharges LESS than the argument allows: the bottom block itself

`B0: havoc x; assume(x != 3); assert(x != 3); goto B1`  `B1:`.  The entry of `B0` is bottom, the
tree is `B0 → B1`, the assertion sits in `B0` itself: not discharged.  Real analyzer (intervals):
`(chk (B0 2 warning))`.  Without `B1` (one block, empty tree, rule of the entry block) it is
discharged; real analyzer: `(chk (B0 2 safe))`, also with a self-loop on `B0`. -/

def C02.FB.sameBlock (succs0 : List Nat) (blocks1 : List Block) : Program :=
  ⟨1, 0, 0, 0, (⟨[.havoc 0, .assume C02.FB.ne3, .assert C02.FB.ne3], succs0⟩ :: blocks1).toArray⟩

example : (runFB (C02.FB.ctx (fun _ _ => false) true false) (C02.FB.sameBlock [1] [⟨[], []⟩])).proved = [] := by
  decide
example : checkBlockFB C02.Example.dom (fun _ a => a) (C02.FB.sameBlock [1] [⟨[], []⟩])
    (runFB (C02.FB.ctx (fun _ _ => false) true false) (C02.FB.sameBlock [1] [⟨[], []⟩])) 0 =
    [(2, .warning)] := by decide
example : idomTree (progGraph (C02.FB.sameBlock [] [])) = [] := by decide
example : (runFB (C02.FB.ctx (fun _ _ => false) true false) (C02.FB.sameBlock [] [])).proved = [(0, 2)] := by
  decide
example : (runFB (C02.FB.ctx (fun _ _ => false) true false) (C02.FB.sameBlock [0] [])).proved = [(0, 2)] := by
  decide

/-! ### `use_refined_invariants = true`: a reached assertion is reported `unreachable` -/

def C02.FB.refProg : Program :=
  ⟨1, 0, 0, 1, #[⟨[.assign 0 ⟨1, []⟩, .assert ⟨.le, ⟨-5, [(1, 0)]⟩⟩], [1]⟩, ⟨[], []⟩]⟩

/-- no state, at any block, leads to a violation: the backward table is bottom everywhere -/
theorem C02.FB.refProg_never_fails (inv : Nat → State → Prop) (n : Nat) (σ : State) :
    ¬ CoFail C02.FB.refProg inv n σ := by
  intro h
  induction h with
  | flow _ _ _ _ _ _ _ _ ih => exact ih
  | fail b σ _ hf =>
    obtain ⟨ch, j, σ', hf⟩ := hf
    match b with
    | 0 =>
      simp [runBlock, Program.block, C02.FB.refProg, runStmts, stepStmt, Stmt.usesChoice,
        Stmt.isAssert, Lin.eval, Cst.holds] at hf
      rcases C02.FB.geti_seti σ 0 1 with h1 | h1 <;> simp [h1] at hf
    | 1 => simp [runBlock, Program.block, C02.FB.refProg, runStmts] at hf
    | k + 2 => simp [runBlock, Program.block, C02.FB.refProg, runStmts] at hf

theorem C02.FB.refProg_sound (Init : State → Prop) :
    FBSound C02.Example.dom.γ (C02.FB.ctx (fun _ _ => false) true true) C02.FB.refProg Init :=
  C02.FB.sound _ Init _ true true
    (fun inv _ n σ hc => absurd hc (C02.FB.refProg_never_fails inv n σ))

/-- the model run: two iterations, nothing discharged (`B0` is bottom but the assertion is in
    `B0` itself), the refined "invariant" of `B0` is bottom, the checker says `unreachable` -/
example : (runFB (C02.FB.ctx (fun _ _ => false) true true) C02.FB.refProg).proved = [] := by decide
example : (runFB (C02.FB.ctx (fun _ _ => false) true true) C02.FB.refProg).pre 0 = false := by decide
example : checkBlockFB C02.Example.dom (fun _ a => a) C02.FB.refProg
    (runFB (C02.FB.ctx (fun _ _ => false) true true) C02.FB.refProg) 0 = [(1, .unreachable)] := by decide
/-- with the default `use_refined_invariants = false` the same run answers `warning` here (the
    two-point domain proves nothing forward) -/
example : checkBlockFB C02.Example.dom (fun _ a => a) C02.FB.refProg
    (runFB (C02.FB.ctx (fun _ _ => false) true false) C02.FB.refProg) 0 = [(1, .warning)] := by decide

/-- GENUINE FINDING (real code: see the header).  The statement "an assertion reported
    `unreachable` by the forward+backward analyzer + checker is never executed" is false when
    `use_refined_invariants` is set: every hypothesis holds on `refProg`, the assertion is executed
    by every run, and the verdict is `unreachable`. -/
theorem C02.fwdbwd_unreachable_counterexample : ¬ C02.fwdbwd_unreachable_sound_Statement := by
  intro hS
  exact hS Bool C02.Example.dom (fun _ a => a) (C02.FB.ctx (fun _ _ => false) true true)
    C02.FB.refProg (fun _ => True) C02.Example.tr_sound (C02.FB.refProg_sound _) rfl
    (fun _ _ _ _ _ _ _ => rfl) 2 ⟨#[0], #[]⟩ [] trivial 0 1 ⟨#[1], #[]⟩ true .unreachable
    (by decide) (by decide) rfl

/-! ### `run(entry, ...)` with `entry ≠ m_cfg.entry()`: a failing assertion is reported `safe`

`B0: goto B1`  `B1: assume(x != 3); goto B2`  `B2: assert(x != 3)`, CFG entry `B0`, the analysis
is started at `B2` (`entry` argument of `run`) with every value of `x`.  The forward pass leaves
`B0`, `B1` at bottom, so does the backward pass refined with it; the tree rooted at `B0` says that
`B1` dominates `B2`; the assertion is discharged.  Real analyzer (h_prog.cpp with the `entry`
argument of `a.run` replaced by `"B2"`, intervals) on
`(prog.fwdbwd any (params 1 1 0 0) (ivars v0) (bvars) (entry B0) (exit B2) (init) (blocks (B0 (stmts) (succs B1)) (B1 (stmts (assume (ne (lin -3 (1 v0))))) (succs B2)) (B2 (stmts (assert (ne (lin -3 (1 v0))))) (succs))))`
answers `(B2 (pre 0 1 (iv (iv -oo +oo)) ...` (every state is analysed at `B2`) and `(chk (B2 0 safe))`. -/

/-- the program seen from the block where the executions start (`entry := 2`) -/
def C02.FB.entryProg : Program :=
  ⟨1, 0, 2, 2, #[⟨[], [1]⟩, ⟨[.assume C02.FB.ne3], [2]⟩, ⟨[.assert C02.FB.ne3], []⟩]⟩

/-- backward table: only from the entry of `B2` can a violation be reached -/
def C02.FB.entryBwd (_ : Nat → Bool) (b : Nat) : Bool := b == 2

theorem C02.FB.entryProg_no_fail_from_B1 (inv : Nat → State → Prop) (σ : State) :
    ¬ CoFail C02.FB.entryProg inv 1 σ := by
  intro h
  cases h with
  | fail _ _ _ hf =>
    obtain ⟨ch, j, σ', hf⟩ := hf
    simp [runBlock, Program.block, C02.FB.entryProg, runStmts, stepStmt, Stmt.usesChoice,
      Stmt.isAssert] at hf
    split at hf <;> simp at hf
  | flow _ m _ σ' _ hs hm hc =>
    obtain ⟨ch, hs⟩ := hs
    simp [succsOf, Program.block, C02.FB.entryProg] at hm
    subst hm
    by_cases hh : C02.FB.ne3.holds σ = true
    · simp [runBlock, Program.block, C02.FB.entryProg, runStmts, stepStmt, Stmt.usesChoice,
        Stmt.isAssert, hh] at hs
      subst hs
      cases hc with
      | fail _ _ _ hf =>
        obtain ⟨ch, j, σ', hf⟩ := hf
        simp [runBlock, Program.block, C02.FB.entryProg, runStmts, stepStmt, Stmt.usesChoice,
          Stmt.isAssert, hh] at hf
      | flow _ m' _ σ'' _ _ hm' _ => simp [succsOf, Program.block, C02.FB.entryProg] at hm'
    · simp [runBlock, Program.block, C02.FB.entryProg, runStmts, stepStmt, Stmt.usesChoice,
        Stmt.isAssert, hh] at hs

theorem C02.FB.entryProg_fail_only_from_B2 (inv : Nat → State → Prop) (n : Nat) (σ : State)
    (h : CoFail C02.FB.entryProg inv n σ) : n = 2 := by
  match n, h with
  | 2, _ => rfl
  | 1, h => exact absurd h (C02.FB.entryProg_no_fail_from_B1 inv σ)
  | 0, h =>
    cases h with
    | fail _ _ _ hf =>
      obtain ⟨ch, j, σ', hf⟩ := hf
      simp [runBlock, Program.block, C02.FB.entryProg, runStmts] at hf
    | flow _ m _ σ' _ _ hm hc =>
      simp [succsOf, Program.block, C02.FB.entryProg] at hm
      subst hm
      exact absurd hc (C02.FB.entryProg_no_fail_from_B1 inv σ')
  | k + 3, h =>
    cases h with
    | fail _ _ _ hf =>
      obtain ⟨ch, j, σ', hf⟩ := hf
      simp [runBlock, Program.block, C02.FB.entryProg, runStmts] at hf
    | flow _ m _ σ' _ _ hm _ => simp [succsOf, Program.block, C02.FB.entryProg] at hm

/-- every hypothesis of the contract holds (it does not depend on where the tree is rooted) -/
theorem C02.FB.entryProg_sound (Init : State → Prop) :
    FBSound C02.Example.dom.γ (C02.FB.ctx C02.FB.entryBwd true false) C02.FB.entryProg Init :=
  C02.FB.sound _ Init _ true false (fun inv _ n σ hc => by
    show (n == 2) = true
    rw [C02.FB.entryProg_fail_only_from_B2 inv n σ hc]; rfl)

/-- the hypothesis of the theorems fails, the tree is rooted at `B0`, the assertion is discharged -/
example : (C02.FB.ctx C02.FB.entryBwd true false).cfgEntry ≠ C02.FB.entryProg.entry := by decide
example : idomTree (cfgGraph C02.FB.entryProg 0) = [(0, [1]), (1, [2])] := by decide
example : (runFB (C02.FB.ctx C02.FB.entryBwd true false) C02.FB.entryProg).proved = [(2, 0)] := by decide

/-- GENUINE FINDING (real code: see above).  `x = 3` is an analysed initial state at `B2`, the
    assertion fails on it, the verdict is `safe`. -/
theorem C02.fwdbwd_checker_sound_counterexample : ¬ C02.fwdbwd_checker_sound_Statement := by
  intro hS
  have := hS Bool C02.Example.dom (fun _ a => a) (C02.FB.ctx C02.FB.entryBwd true false)
    C02.FB.entryProg (fun _ => True) C02.Example.tr_sound (C02.FB.entryProg_sound _)
    1 ⟨#[3], #[]⟩ [] trivial 2 0 ⟨#[3], #[]⟩ false .safe (by decide) (by decide) rfl
  cases this
