import CrabProofs.Lemmas.FunctorVPartInst

/-!
# C03 — soundness under arbitrary histories, functor part 2: `value_partitioning_domain`

Model: `CrabModel/Dom/Functors/ValuePartitioning.lean` (the code of
include/crab/domains/value_partitioning_domain.hpp as it is, over ANY lawful base `VDom V S`).
Every theorem below holds for every base domain, every partitioning variable, any number of
partitions.  `γ` = union of the partitions; `VP.Inv` = the vector is not empty and has one element
when there is no partitioning variable (this is what keeps the CRAB_ERROR branches of
`merge_partitions()` / `remove_partitions()` unreachable).

DEFECT (code as it is, replayed on the real code with
`python3 tools/hrun.py h_dom2_27 --source h_dom2 --define -DVDOM=27 -- --ops f`, request line in the
final report of the component): the merge loop of `update_partitions()` does not compare a merged
partition with its new successor, so intervals can overlap afterwards
(`C03.vpart_update_disjoint_counterexample`); the element-wise branch of `apply_binary_op`
(`&`, `&&`, `&=`) then pairs the partitions by position although a state can sit in partition `i`
of the left and partition `j ≠ i` of the right operand: the meet of two values that share a
state is bottom (`C03.vpart_meet_sound_counterexample`, `C03.vpart_history_sound_counterexample`).
-/
namespace Crab
namespace Dom
namespace Fct

variable {V S : Type} [DecidableEq V] {D : VDom V S}

/-! ## transformers -/

/-- statements applied per partition (`expand`, other intrinsics, `normalize`, `minimize`) -/
theorem C03.vpart_map_sound {f : D.B → D.B} {r : S → S → Prop} (hf : D.TSound f r) (a : VP D) (s s' : S) :
    VP.γ a s → r s s' → VP.γ (VP.mapOp f a) s' := VP.mapOp_sound hf a s s'

/-- `assign`, `weak_assign`, the `apply`s: per partition plus `update_partitions()` when the
    partitioning variable is defined (intervals recomputed, empty partitions dropped, sort, merge) -/
theorem C03.vpart_assign_sound (x : V) {f : D.B → D.B} {r : S → S → Prop} (hf : D.TSound f r) (a : VP D)
    (s s' : S) : VP.γ a s → r s s' → VP.γ (VP.assignOp x f a) s' := VP.assignOp_sound x hf a s s'

/-- `update_partitions()` alone loses no state -/
theorem C03.vpart_update_sound (a : VP D) (s : S) : VP.γ a s → VP.γ (VP.updateParts a) s :=
  VP.updateParts_sound a s

/-- `operator+=`: bottom partitions dropped, one split per disequality on the partitioning
    variable, canonical bottom when nothing is left -/
theorem C03.vpart_add_sound {c : VP.Csts D} {P : S → Prop} (hc : c.Sound P) {a : VP D} (h : VP.Inv a) (s : S) :
    VP.γ a s → P s → VP.γ (VP.addOp c a) s := VP.addOp_sound hc h s

/-- `operator-=`, `forget`, `project` (partitioning given up when its variable goes) -/
theorem C03.vpart_forget_sound (hit : V → Bool) {f : D.B → D.B} {r : S → S → Prop} (hf : D.TSound f r)
    {a : VP D} (h : VP.Inv a) (s s' : S) : VP.γ a s → r s s' → VP.γ (VP.dropOp hit f a) s' :=
  VP.dropOp_sound hit hf h s s'

theorem C03.vpart_rename_sound (ren : V → V) {f : D.B → D.B} {r : S → S → Prop} (hf : D.TSound f r)
    (a : VP D) (s s' : S) : VP.γ a s → r s s' → VP.γ (VP.renameOp ren f a) s' :=
  VP.renameOp_sound ren hf a s s'

/-- `intrinsic("value_partition_start", x)` -/
theorem C03.vpart_partition_start_sound (x : V) (a : VP D) (s : S) : VP.γ a s → VP.γ (VP.vpStart x a) s :=
  VP.vpStart_sound x a s

/-- `intrinsic("value_partition_end", x)` -/
theorem C03.vpart_partition_end_sound (x : V) {a : VP D} (h : VP.Inv a) (s : S) :
    VP.γ a s → VP.γ (VP.vpEnd x a) s := VP.vpEnd_sound x h s

/-- `select` (DEFAULT_SELECT: two `+=`, two `assign`, one `|`) -/
theorem C03.vpart_select_sound (x : V) {cnd cneg : VP.Csts D} {f1 f2 : D.B → D.B} {P : S → Prop}
    {r1 r2 : S → S → Prop} (h1 : cnd.Sound P) (h2 : cneg.Sound (fun s => ¬ P s))
    (hf1 : D.TSound f1 r1) (hf2 : D.TSound f2 r2) {a : VP D} (h : VP.Inv a) (s s' : S) :
    VP.γ a s → ((P s ∧ r1 s s') ∨ (¬ P s ∧ r2 s s')) → VP.γ (VP.selectOp x cnd cneg f1 f2 a) s' :=
  VP.selectOp_sound x h1 h2 hf1 hf2 h s s'

theorem C03.vpart_set_to_top_sound (a : VP D) (s : S) : VP.γ (VP.setTop a) s := VP.setTop_sound a s

/-! ## queries -/

/-- `at`, `operator[]`, `to_linear_constraint_system`: any sound query of the base, asked on the
    join of all partitions, is sound -/
theorem C03.vpart_query_sound {R : Type} (q : D.B → R) (ok : R → S → Prop)
    (hq : ∀ b s, D.γ b s → ok (q b) s) (a : VP D) (s : S) : VP.γ a s → ok (VP.smashQuery q a) s :=
  VP.smashQuery_sound q ok hq a s

/-- `entails`: a yes holds in every state -/
theorem C03.vpart_entails_sound (e : D.B → Bool) (C : S → Prop) (he : ∀ b s, e b = true → D.γ b s → C s)
    (a : VP D) (h : VP.entails e a = true) (s : S) : VP.γ a s → C s := VP.entails_sound e C he a h s

/-- `to_disjunctive_linear_constraint_system`: never "false" on a state of the value, and some
    disjunct holds unless the answer is "true" -/
theorem C03.vpart_disj_sound {R : Type} (q : D.B → R) (ok : R → S → Prop) (hq : ∀ b s, D.γ b s → ok (q b) s)
    (a : VP D) (s : S) : VP.γ a s → ∃ l, VP.toDisj q a = some l ∧ (l = [] ∨ ∃ c ∈ l, ok c s) :=
  VP.toDisj_sound q ok hq a s

/-! ## upper bounds -/

/-- `operator|`, `operator|=`: all four pairing cases, including the merging loop -/
theorem C03.vpart_join_sound {a b : VP D} (ha : VP.Inv a) (hb : VP.Inv b) (s : S) :
    (VP.γ a s ∨ VP.γ b s) → VP.γ (VP.join a b) s := VP.join_sound ha hb s

/-- `operator||`, `widening_thresholds` for any widening `w` of the base and ANY function `iw` on
    the intervals (they do not take part in the concretisation) -/
theorem C03.vpart_widen_sound (t : D.TopSound) (iw : Itv → Itv → Itv) {w : D.B → D.B → D.B} (hw : D.USound w)
    {a b : VP D} (ha : VP.Inv a) (hb : VP.Inv b) (s : S) :
    (VP.γ a s ∨ VP.γ b s) → VP.γ (VP.widenWith iw w a b) s := VP.widenWith_sound t iw hw ha hb s

/-! ## lower bounds: `&`, `&&` -/

def C03.vpart_meet_sound_Statement : Prop :=
  ∀ (V S : Type) [DecidableEq V] (D : VDom V S) (a b : VP D) (s : S),
    VP.Inv a → VP.Inv b → VP.γ a s → VP.γ b s → VP.γ (VP.meet a b) s

def C03.vpart_narrow_sound_Statement : Prop :=
  ∀ (V S : Type) [DecidableEq V] (D : VDom V S) (a b : VP D) (s : S),
    VP.Inv a → VP.Inv b → VP.γ a s → VP.γ b s → VP.γ (VP.narrow a b) s

/-- `&` is a lower bound whenever it does not take the element-wise branch on more than one
    partition (decidable: `VP.eltwise`) -/
theorem C03.vpart_meet_sound_partial {a b : VP D} (ha : VP.Inv a) (hb : VP.Inv b)
    (he : VP.eltwise a b = false) (s : S) : VP.γ a s → VP.γ b s → VP.γ (VP.meet a b) s :=
  VP.meet_sound_guard ha hb he s

theorem C03.vpart_narrow_sound_partial {a b : VP D} (ha : VP.Inv a) (hb : VP.Inv b)
    (he : VP.eltwise a b = false) (s : S) : VP.γ a s → VP.γ b s → VP.γ (VP.narrow a b) s :=
  VP.narrow_sound_guard ha hb he s

/-- ... and on every branch when the intervals of the left operand are pairwise disjoint and
    the intervals of both operands cover the values of the partitioning variable (`ev`) in their
    partitions: the promise of the class comment, which `update_partitions()` does not keep -/
theorem C03.vpart_meet_sound_of_keys (ev : S → V → Int) {a b : VP D} (ha : VP.Inv a) (hb : VP.Inv b)
    (ka : VP.KeySound ev a) (kb : VP.KeySound ev b) (hd : VP.KeysDisjoint a.parts) (s : S) :
    VP.γ a s → VP.γ b s → VP.γ (VP.meet a b) s :=
  VP.meet_sound_of ha hb (VP.zipLower_of_keys ev VP.lSound_meet ha ka kb hd) s

theorem C03.vpart_narrow_sound_of_keys (ev : S → V → Int) {a b : VP D} (ha : VP.Inv a) (hb : VP.Inv b)
    (ka : VP.KeySound ev a) (kb : VP.KeySound ev b) (hd : VP.KeysDisjoint a.parts) (s : S) :
    VP.γ a s → VP.γ b s → VP.γ (VP.narrow a b) s :=
  VP.narrow_sound_of ha hb (VP.zipLower_of_keys ev VP.lSound_narrow ha ka kb hd) s

open VPartEx in
/-- `x := y` on three separated partitions leaves the intervals `[-oo,+oo]`, `[5,5]`; the two
    values obtained this way share the state `(x,y,f) = (5,5,0)` and their meet is bottom -/
theorem C03.vpart_meet_sound_counterexample : ¬ C03.vpart_meet_sound_Statement := by
  intro h
  have h1 : VP.γ (VP.meet (xy W0) (xy Z0)) (st 5 5 0) :=
    h V3 (St V3) constVDom (xy W0) (xy Z0) (st 5 5 0)
      (VP.assignOp_inv _ _ (VP.inv_of_some (x := 0) rfl (by simp [W0])))
      (VP.assignOp_inv _ _ (VP.inv_of_some (x := 0) rfl (by simp [Z0])))
      (γ_of_vMem (by decide)) (γ_of_vMem (by decide))
  exact VP.not_γ_of_isBottom (by decide) _ h1

open VPartEx in
theorem C03.vpart_narrow_sound_counterexample : ¬ C03.vpart_narrow_sound_Statement := by
  intro h
  have h1 : VP.γ (VP.narrow (xy W0) (xy Z0)) (st 5 5 0) :=
    h V3 (St V3) constVDom (xy W0) (xy Z0) (st 5 5 0)
      (VP.assignOp_inv _ _ (VP.inv_of_some (x := 0) rfl (by simp [W0])))
      (VP.assignOp_inv _ _ (VP.inv_of_some (x := 0) rfl (by simp [Z0])))
      (γ_of_vMem (by decide)) (γ_of_vMem (by decide))
  exact VP.not_γ_of_isBottom (by decide) _ h1

/-- the root cause: "partitions are sorted and they don't overlap" after `update_partitions()` -/
def C03.vpart_update_disjoint_Statement : Prop :=
  ∀ (V S : Type) [DecidableEq V] (D : VDom V S) (a : VP D), a.var ≠ none →
    VP.KeysDisjoint (VP.updateParts a).parts

open VPartEx in
theorem C03.vpart_update_disjoint_counterexample : ¬ C03.vpart_update_disjoint_Statement := by
  intro h
  have h1 := h V3 (St V3) constVDom (VP.mapParts (cAssignV 0 1) W0) (by simp [VP.mapParts, W0])
  have h2 := VP.keysDisjoint_count h1 5
  revert h2
  decide

/-! ## histories -/

/-- every operation keeps `VP.Inv` (hence no CRAB_ERROR of `merge_partitions()` /
    `remove_partitions()` is reachable from a well-formed pool) -/
theorem C03.vpart_inv_step (op : VP.Op D) : Step.Preserves VP.Inv (VP.Op.toStep op) := by
  cases op with
  | map d f r => exact fun a ha => VP.mapOp_inv f ha
  | assign d x f r => exact fun a ha => VP.assignOp_inv x f ha
  | add d c P => exact fun a ha => VP.addOp_inv c ha
  | drop d hit f r => exact fun a ha => VP.dropOp_inv hit f ha
  | rename d ren f r => exact fun a ha => VP.renameOp_inv ren f ha
  | select d x cnd cneg f1 f2 P r1 r2 => exact fun a ha => VP.selectOp_inv x cnd cneg f1 f2 ha
  | vpStart d x => exact fun a ha => VP.vpStart_inv x ha
  | vpEnd d x => exact fun a ha => VP.vpEnd_inv x ha
  | join d a b => exact fun a b ha hb => VP.join_inv ha hb
  | meet d a b => exact fun a b ha hb => VP.meet_inv ha hb
  | widen d a b iw w => exact fun a b ha hb => VP.widenWith_inv iw w ha hb
  | narrow d a b => exact fun a b ha hb => VP.narrow_inv ha hb
  | copy d s => trivial
  | setTop d => exact fun a _ => VP.inv_single _ _
  | setBottom d => exact fun a _ => VP.inv_single _ _

theorem C03.vpart_inv_stepG (op : VP.Op D) : Step.Preserves VP.Inv (VP.Op.toStepG op) := by
  rcases VP.toStepG_cases op with ⟨d, a, b, rfl⟩ | ⟨d, a, b, rfl⟩ | h
  · exact fun a b ha hb => VP.meetG_inv ha hb
  · exact fun a b ha hb => VP.narrowG_inv ha hb
  · rw [h]; exact C03.vpart_inv_step op

/-- every operation other than `&`, `&&` is sound on well-formed values; `&`, `&&` in their guarded
    reading -/
theorem C03.vpart_step_sound (t : D.TopSound) (op : VP.Op D) (hop : op.BaseSound) :
    Step.SoundOn VP.Inv VP.γ (VP.Op.toStepG op) := by
  cases op with
  | map d f r => exact fun a s s' _ hg hr => VP.mapOp_sound hop a s s' hg hr
  | assign d x f r => exact fun a s s' _ hg hr => VP.assignOp_sound x hop a s s' hg hr
  | add d c P => exact fun a s s' ha hg hr => hr.1 ▸ VP.addOp_sound hop ha s hg hr.2
  | drop d hit f r => exact fun a s s' ha hg hr => VP.dropOp_sound hit hop ha s s' hg hr
  | rename d ren f r => exact fun a s s' _ hg hr => VP.renameOp_sound ren hop a s s' hg hr
  | select d x cnd cneg f1 f2 P r1 r2 =>
    exact fun a s s' ha hg hr => VP.selectOp_sound x hop.1 hop.2.1 hop.2.2.1 hop.2.2.2 ha s s' hg hr
  | vpStart d x => exact fun a s s' _ hg hr => hr ▸ VP.vpStart_sound x a s hg
  | vpEnd d x => exact fun a s s' ha hg hr => hr ▸ VP.vpEnd_sound x ha s hg
  | join d a b => exact fun a b s ha hb h => VP.join_sound ha hb s h
  | meet d a b => exact fun a b s ha hb h1 h2 => VP.meetG_sound ha hb s h1 h2
  | widen d a b iw w => exact fun a b s ha hb h => VP.widenWith_sound t iw hop ha hb s h
  | narrow d a b => exact fun a b s ha hb h1 h2 => VP.narrowG_sound ha hb s h1 h2
  | copy d s => trivial
  | setTop d => exact fun a s s' _ _ _ => VP.setTop_sound a s'
  | setBottom d => exact fun a s s' _ _ hr => hr.elim

def C03.vpart_history_sound_Statement : Prop :=
  ∀ (V S : Type) [DecidableEq V] (D : VDom V S), D.TopSound → ∀ (ops : List (VP.Op D)),
    (∀ op ∈ ops, op.BaseSound) → ∀ (p : Pool (VP D)) (c : CPool S), (∀ i, (p i).Inv) →
    (∀ i s, c i s → VP.γ (p i) s) →
    ∀ i s, collHist c (VP.toHist ops) i s → VP.γ (runHist p (VP.toHist ops) i) s

/-- C03 for `value_partitioning_domain<Base>`: every base with sound operations and sound `is_top`,
    every well-formed pool, history length, partitioning variables, interleaving of statements,
    `+=`, forget/project/rename, partition start/end, `select`, `|`, widenings, `&`, `&&`, copies,
    `set_to_top/bottom` — provided no `&`, `&&` of the run takes the element-wise branch on more
    than one partition (`VP.histOk`, computed along the run).  The invariant is kept throughout. -/
theorem C03.vpart_history_sound_partial (t : D.TopSound) (ops : List (VP.Op D))
    (hops : ∀ op ∈ ops, op.BaseSound) (p : Pool (VP D)) (c : CPool S) (hI : ∀ i, (p i).Inv)
    (h0 : ∀ i s, c i s → VP.γ (p i) s) (hok : VP.histOk p ops = true) :
    ∀ i s, collHist c (VP.toHist ops) i s →
      VP.γ (runHist p (VP.toHist ops) i) s ∧ (runHist p (VP.toHist ops) i).Inv := by
  intro i s hc
  rw [VP.runHist_guard ops p hok]
  rw [VP.collHist_guard ops c] at hc
  constructor
  · refine history_sound_on VP.Inv VP.γ (VP.toHistG ops) ?_ ?_ p c hI h0 i s hc
    · intro st hst
      simp only [VP.toHistG, List.mem_map] at hst
      obtain ⟨op, hop, rfl⟩ := hst
      exact C03.vpart_step_sound t op (hops op hop)
    · intro st hst
      simp only [VP.toHistG, List.mem_map] at hst
      obtain ⟨op, _, rfl⟩ := hst
      exact C03.vpart_inv_stepG op
  · apply runHist_preserves VP.Inv _ _ p hI
    intro st hst
    simp only [VP.toHistG, List.mem_map] at hst
    obtain ⟨op, _, rfl⟩ := hst
    exact C03.vpart_inv_stepG op

/-- the invariant alone needs no side condition -/
theorem C03.vpart_history_inv (ops : List (VP.Op D)) (p : Pool (VP D)) (hI : ∀ i, (p i).Inv) :
    ∀ i, (runHist p (VP.toHist ops) i).Inv := by
  apply runHist_preserves VP.Inv _ _ p hI
  intro st hst
  simp only [VP.toHist, List.mem_map] at hst
  obtain ⟨op, _, rfl⟩ := hst
  exact C03.vpart_inv_step op

namespace VPartEx

/-- `x := y` as an operation on slot `d` -/
def opXY (d : Nat) : VP.Op constVDom := .assign d 0 (cAssignV 0 1) (fun s s' => s' = s.set 0 (s 1))

/-- slots 0, 1: the two values with three separated partitions -/
def pool0 : Pool (VP constVDom) := fun i => if i = 0 then W0 else if i = 1 then Z0 else VP.top

/-- slot 0 holds `(0,5,0)`, slot 1 holds `(2,5,0)` -/
def cpool0 : CPool (St V3) := fun i s => (i = 0 ∧ s = st 0 5 0) ∨ (i = 1 ∧ s = st 2 5 0)

end VPartEx

open VPartEx in
/-- three steps from a pool whose intervals are separated and cover their partitions:
    `x := y` on both values, then `&`: the state `(5,5,0)` is reachable in both, the result is
    bottom.  (Same scenario on `value_partitioning_domain<interval_domain>`: the replay line.) -/
theorem C03.vpart_history_sound_counterexample : ¬ C03.vpart_history_sound_Statement := by
  intro h
  have h1 := h V3 (St V3) constVDom constDom_topSound [opXY 0, opXY 1, .meet 2 0 1]
    (by
      intro op hop
      simp only [List.mem_cons, List.mem_nil_iff, or_false] at hop
      rcases hop with rfl | rfl | rfl
      · exact cAssignV_sound 0 1
      · exact cAssignV_sound 0 1
      · trivial)
    pool0 cpool0
    (by
      intro i
      unfold pool0
      split
      · exact VP.inv_of_some (x := 0) rfl (by simp [W0])
      · split
        · exact VP.inv_of_some (x := 0) rfl (by simp [Z0])
        · exact VP.inv_single _ _)
    (by
      intro i s hc
      rcases hc with ⟨rfl, rfl⟩ | ⟨rfl, rfl⟩
      · exact γ_of_vMem (by decide)
      · exact γ_of_vMem (by decide))
    2 (st 5 5 0)
    (by
      simp only [VP.toHist, List.map, collHist, List.foldl, opXY, VP.Op.toStep, Step.coll, CPool.set]
      simp only [if_true, if_false, show (2 : Nat) ≠ 1 by decide, show (2 : Nat) ≠ 0 by decide,
        show (1 : Nat) ≠ 0 by decide, show (0 : Nat) ≠ 1 by decide]
      refine ⟨⟨st 0 5 0, Or.inl ⟨rfl, rfl⟩, ?_⟩, ⟨st 2 5 0, Or.inr ⟨rfl, rfl⟩, ?_⟩⟩
      · funext v; match v with
        | 0 => rfl
        | 1 => rfl
        | 2 => rfl
      · funext v; match v with
        | 0 => rfl
        | 1 => rfl
        | 2 => rfl)
  exact VP.not_γ_of_isBottom (by decide) _ h1

/-! ### non-vacuity over the interval instance -/
namespace C03VPartEx
open VPartEx

def keys (a : VP itvVDom) : List Itv := a.parts.map (·.key)
def vals (a : VP itvVDom) : List Itv := a.parts.map (·.val.1)

/-- slot 0: `x = 0`, slot 1: `x ∈ [5,6]`, no partitioning yet -/
def pool : Pool (VP itvVDom) := fun i =>
  if i = 0 then ⟨none, [⟨Itv.top, WItv.mk 0 0⟩]⟩ else if i = 1 then ⟨none, [⟨Itv.top, WItv.mk 5 6⟩]⟩ else VP.top

def cpool : CPool Int := fun i s => (i = 0 ∧ s = 0) ∨ (i = 1 ∧ s = 5)

/-- partition start on both, `|`, `x := x + 6` -/
def ops : List (VP.Op itvVDom) :=
  [.vpStart 0 (), .vpStart 1 (), .join 2 0 1, .assign 2 () (itvAddK 6) (fun s s' => s' = s + 6)]

/-- afterwards: partition end on a copy, `&` of the copy with the partitioned value, `&` of the
    partitioned value with itself (element-wise: the guard `histOk` fires) -/
def ops2 : List (VP.Op itvVDom) := ops ++ [.copy 3 2, .vpEnd 3 (), .meet 3 3 2]

example : keys (runHist pool (VP.toHist ops) 2) = [Itv.single 6, ⟨.fin 11, .fin 12⟩] ∧
    vals (runHist pool (VP.toHist ops) 2) = [Itv.single 6, ⟨.fin 11, .fin 12⟩] ∧
    vals (runHist pool (VP.toHist ops2) 3) = [⟨.fin 6, .fin 12⟩] ∧
    VP.histOk pool ops2 = true ∧ VP.histOk pool (ops ++ [.meet 3 2 2]) = false := by decide

theorem ops_baseSound : ∀ op ∈ ops, op.BaseSound := by
  intro op hop
  simp only [ops, List.mem_cons, List.mem_nil_iff, or_false] at hop
  rcases hop with rfl | rfl | rfl | rfl
  · trivial
  · trivial
  · trivial
  · exact itvAddK_sound 6

theorem pool_inv : ∀ i, (pool i).Inv := by
  intro i; unfold pool
  split
  · exact VP.inv_single _ _
  · split <;> exact VP.inv_single _ _

theorem pool_sound : ∀ i s, cpool i s → VP.γ (pool i) s := by
  intro i s hc
  rcases hc with ⟨rfl, rfl⟩ | ⟨rfl, rfl⟩
  · exact γ_of_iMem (by decide)
  · exact γ_of_iMem (by decide)

/-- `vpart_history_sound_partial` applies: the runs `0 ↦ 6` and `5 ↦ 11` are in the result -/
example : VP.γ (runHist pool (VP.toHist ops) 2) 6 ∧ VP.γ (runHist pool (VP.toHist ops) 2) 11 := by
  have h := C03.vpart_history_sound_partial itvDom_topSound ops ops_baseSound pool cpool pool_inv
    pool_sound (by decide) 2
  constructor
  · refine (h 6 ?_).1
    simp only [ops, VP.toHist, List.map, collHist, List.foldl, VP.Op.toStep, Step.coll, CPool.set]
    simp only [if_true, if_false, show (2 : Nat) ≠ 1 by decide, show (2 : Nat) ≠ 0 by decide,
      show (1 : Nat) ≠ 0 by decide, show (0 : Nat) ≠ 1 by decide]
    exact ⟨0, Or.inl ⟨0, Or.inl ⟨rfl, rfl⟩, rfl⟩, rfl⟩
  · refine (h 11 ?_).1
    simp only [ops, VP.toHist, List.map, collHist, List.foldl, VP.Op.toStep, Step.coll, CPool.set]
    simp only [if_true, if_false, show (2 : Nat) ≠ 1 by decide, show (2 : Nat) ≠ 0 by decide,
      show (1 : Nat) ≠ 0 by decide, show (0 : Nat) ≠ 1 by decide]
    exact ⟨5, Or.inr ⟨5, Or.inr ⟨rfl, rfl⟩, rfl⟩, rfl⟩

end C03VPartEx

end Fct
end Dom
end Crab
