import CrabProofs.Lemmas.FunctorVPartInst
import CrabProofs.Lemmas.FunctorUfInst

/-!
# C03 — soundness under arbitrary histories, functor part 2: `value_partitioning_domain`, `uf_domain`

Model: `CrabModel/Dom/Functors/ValuePartitioning.lean` (the code of
include/crab/domains/value_partitioning_domain.hpp as it is, over ANY lawful base `VDom V S`).
Every theorem below holds for every base domain, every partitioning variable, any number of
partitions.  `γ` = union of the partitions; `VP.Inv` = the vector is not empty and has one element
when there is no partitioning variable (this is what keeps the CRAB_ERROR branches of
`merge_partitions()` / `remove_partitions()` unreachable).

`update_partitions()` is modelled AFTER repo commit 8f4c9c7: its intervals are non-empty, sorted and
strictly separated (`C03.vpart_update_disjoint`).

PINNED-TREE DEFECT (fixed by 8f4c9c7; `VP.mergeAdjOld` / `VP.updatePartsOld` keep the old loop for the
counterexample theorems): the merge loop did not compare a merged partition with its new
successor, so intervals could overlap (`C03.vpart_update_disjoint_old_counterexample`); the
element-wise branch of `apply_binary_op` (`&`, `&&`, `&=`) pairs the partitions by position, and the
meet of two such values that share a state was bottom.  Replay (corpus/h_dom2/vpart_overlap.ops;
`python3 tools/hrun.py h_dom2_27 --source h_dom2 --define -DVDOM=27 -- --ops f`): on the pinned tree
the final `(meet 1 0 2)` answered bottom although `(v0,v1,v2) = (5,5,0)` is in both operands, and
value #0 was not `<=` itself:

    (dom2.hist vpart-intervals (params) (ops (assign 0 v0 (lin 0)) (assume 0 (le (lin 0 (-1 v1))) (le (lin -10 (1 v1)))) (assign 0 v2 (lin 0)) (vpstart 0 v0) (top 1) (assign 1 v0 (lin 1)) (assume 1 (le (lin 1 (-1 v1))) (le (lin -2 (1 v1)))) (assign 1 v2 (lin 0)) (vpstart 1 v0) (join 0 0 1) (top 1) (assign 1 v0 (lin 2)) (assume 1 (le (lin 5 (-1 v1))) (le (lin -6 (1 v1)))) (assign 1 v2 (lin 1)) (vpstart 1 v0) (join 0 0 1) (assign 0 v0 (lin 0 (1 v1))) (assign 2 v0 (lin 0)) (assume 2 (le (lin 0 (-1 v1))) (le (lin -10 (1 v1)))) (assign 2 v2 (lin 1)) (vpstart 2 v0) (top 3) (assign 3 v0 (lin 1)) (assume 3 (le (lin 1 (-1 v1))) (le (lin -2 (1 v1)))) (assign 3 v2 (lin 1)) (vpstart 3 v0) (join 2 2 3) (top 3) (assign 3 v0 (lin 2)) (assume 3 (le (lin 5 (-1 v1))) (le (lin -6 (1 v1)))) (assign 3 v2 (lin 0)) (vpstart 3 v0) (join 2 2 3) (assign 2 v0 (lin 0 (1 v1))) (meet 1 0 2)))

STILL `_partial`: `&`, `&&`, histories and reflexivity of `<=`.  As statements about ALL values with
`VP.Inv` they are false (values with overlapping intervals exist: the counterexamples, built with
the old loop).  Full statements need the stronger pool invariant "intervals pairwise disjoint and
every reachable state sits in a partition whose interval covers its value of the partitioning
variable".  `C03.vpart_meet_sound_of_keys` shows it suffices, `C03.vpart_update_disjoint` establishes
its first half after every `update_partitions()`; its preservation by EVERY operation is not
proved: it needs (i) a law `s(x) ∈ dom[x]` for the base query, (ii) frame conditions "the statement
does not change the partitioning variable" that the operation language `VP.Op` does not carry
(`.map`, `.drop`, `.rename` come with an arbitrary relation), (iii) separation of the result of the
two-cursor sweep of `operator|=`; and it is a property of (concrete set, value) pairs, not of
values, so `history_sound_on` has to be run with the key-aware concretisation instead of `VP.γ`.
-/
open Crab Crab.Dom Crab.Dom.Fct

variable {V S : Type} [DecidableEq V] {D : VDom V S}

/-! ## transformers -/

/-- statements applied per partition (`expand`, other intrinsics, `normalize`, `minimize`) -/
theorem C03.vpart_map_sound {f : D.B → D.B} {r : S → S → Prop} (hf : D.TSound f r) (a : VP D) (s s' : S) :
    VP.γ a s → r s s' → VP.γ (VP.mapOp f a) s' := VP.mapOp_sound hf a s s'

/-- `assign`, `weak_assign`, the `apply`s: per partition plus `update_partitions()` when the
    partitioning variable is defined (intervals recomputed, empty partitions dropped, sort, merge) -/
theorem C03.vpart_assign_sound (x : V) {f : D.B → D.B} {r : S → S → Prop} (hf : D.TSound f r) (a : VP D)
    (s s' : S) : VP.γ a s → r s s' → VP.γ (VP.assignOp x f a) s' := VP.assignOp_sound x hf a s s'

/-- `update_partitions()` alone loses no state -/
theorem C03.vpart_update_sound (a : VP D) (s : S) : VP.γ a s → VP.γ (VP.updateParts a) s :=
  VP.updateParts_sound a s

/-- `operator+=`: bottom partitions dropped, one split per disequality on the partitioning
    variable, canonical bottom when nothing is left -/
theorem C03.vpart_add_sound {c : VP.Csts D} {P : S → Prop} (hc : c.Sound P) {a : VP D} (h : VP.Inv a) (s : S) :
    VP.γ a s → P s → VP.γ (VP.addOp c a) s := VP.addOp_sound hc h s

/-- `operator-=`, `forget`, `project` (partitioning given up when its variable goes) -/
theorem C03.vpart_forget_sound (hit : V → Bool) {f : D.B → D.B} {r : S → S → Prop} (hf : D.TSound f r)
    {a : VP D} (h : VP.Inv a) (s s' : S) : VP.γ a s → r s s' → VP.γ (VP.dropOp hit f a) s' :=
  VP.dropOp_sound hit hf h s s'

theorem C03.vpart_rename_sound (ren : V → V) {f : D.B → D.B} {r : S → S → Prop} (hf : D.TSound f r)
    (a : VP D) (s s' : S) : VP.γ a s → r s s' → VP.γ (VP.renameOp ren f a) s' :=
  VP.renameOp_sound ren hf a s s'

/-- `intrinsic("value_partition_start", x)` -/
theorem C03.vpart_partition_start_sound (x : V) (a : VP D) (s : S) : VP.γ a s → VP.γ (VP.vpStart x a) s :=
  VP.vpStart_sound x a s

/-- `intrinsic("value_partition_end", x)` -/
theorem C03.vpart_partition_end_sound (x : V) {a : VP D} (h : VP.Inv a) (s : S) :
    VP.γ a s → VP.γ (VP.vpEnd x a) s := VP.vpEnd_sound x h s

/-- `select` (DEFAULT_SELECT: two `+=`, two `assign`, one `|`) -/
theorem C03.vpart_select_sound (x : V) {cnd cneg : VP.Csts D} {f1 f2 : D.B → D.B} {P : S → Prop}
    {r1 r2 : S → S → Prop} (h1 : cnd.Sound P) (h2 : cneg.Sound (fun s => ¬ P s))
    (hf1 : D.TSound f1 r1) (hf2 : D.TSound f2 r2) {a : VP D} (h : VP.Inv a) (s s' : S) :
    VP.γ a s → ((P s ∧ r1 s s') ∨ (¬ P s ∧ r2 s s')) → VP.γ (VP.selectOp x cnd cneg f1 f2 a) s' :=
  VP.selectOp_sound x h1 h2 hf1 hf2 h s s'

theorem C03.vpart_set_to_top_sound (a : VP D) (s : S) : VP.γ (VP.setTop a) s := VP.setTop_sound a s

/-! ## queries -/

/-- `at`, `operator[]`, `to_linear_constraint_system`: any sound query of the base, asked on the
    join of all partitions, is sound -/
theorem C03.vpart_query_sound {R : Type} (q : D.B → R) (ok : R → S → Prop)
    (hq : ∀ b s, D.γ b s → ok (q b) s) (a : VP D) (s : S) : VP.γ a s → ok (VP.smashQuery q a) s :=
  VP.smashQuery_sound q ok hq a s

/-- `entails`: a yes holds in every state -/
theorem C03.vpart_entails_sound (e : D.B → Bool) (C : S → Prop) (he : ∀ b s, e b = true → D.γ b s → C s)
    (a : VP D) (h : VP.entails e a = true) (s : S) : VP.γ a s → C s := VP.entails_sound e C he a h s

/-- `to_disjunctive_linear_constraint_system`: never "false" on a state of the value, and some
    disjunct holds unless the answer is "true" -/
theorem C03.vpart_disj_sound {R : Type} (q : D.B → R) (ok : R → S → Prop) (hq : ∀ b s, D.γ b s → ok (q b) s)
    (a : VP D) (s : S) : VP.γ a s → ∃ l, VP.toDisj q a = some l ∧ (l = [] ∨ ∃ c ∈ l, ok c s) :=
  VP.toDisj_sound q ok hq a s

/-! ## upper bounds -/

/-- `operator|`, `operator|=`: all four pairing cases, including the merging loop -/
theorem C03.vpart_join_sound {a b : VP D} (ha : VP.Inv a) (hb : VP.Inv b) (s : S) :
    (VP.γ a s ∨ VP.γ b s) → VP.γ (VP.join a b) s := VP.join_sound ha hb s

/-- `operator||`, `widening_thresholds` for any widening `w` of the base and ANY function `iw` on
    the intervals (they do not take part in the concretisation) -/
theorem C03.vpart_widen_sound (t : D.TopSound) (iw : Itv → Itv → Itv) {w : D.B → D.B → D.B} (hw : D.USound w)
    {a b : VP D} (ha : VP.Inv a) (hb : VP.Inv b) (s : S) :
    (VP.γ a s ∨ VP.γ b s) → VP.γ (VP.widenWith iw w a b) s := VP.widenWith_sound t iw hw ha hb s

/-! ## lower bounds: `&`, `&&` -/

def C03.vpart_meet_sound_Statement : Prop :=
  ∀ (V S : Type) [DecidableEq V] (D : VDom V S) (a b : VP D) (s : S),
    VP.Inv a → VP.Inv b → VP.γ a s → VP.γ b s → VP.γ (VP.meet a b) s

def C03.vpart_narrow_sound_Statement : Prop :=
  ∀ (V S : Type) [DecidableEq V] (D : VDom V S) (a b : VP D) (s : S),
    VP.Inv a → VP.Inv b → VP.γ a s → VP.γ b s → VP.γ (VP.narrow a b) s

/-- `&` is a lower bound whenever it does not take the element-wise branch on more than one
    partition (decidable: `VP.eltwise`) -/
theorem C03.vpart_meet_sound_partial {a b : VP D} (ha : VP.Inv a) (hb : VP.Inv b)
    (he : VP.eltwise a b = false) (s : S) : VP.γ a s → VP.γ b s → VP.γ (VP.meet a b) s :=
  VP.meet_sound_guard ha hb he s

theorem C03.vpart_narrow_sound_partial {a b : VP D} (ha : VP.Inv a) (hb : VP.Inv b)
    (he : VP.eltwise a b = false) (s : S) : VP.γ a s → VP.γ b s → VP.γ (VP.narrow a b) s :=
  VP.narrow_sound_guard ha hb he s

/-- ... and on every branch when the intervals of the left operand are pairwise disjoint and
    the intervals of both operands cover the values of the partitioning variable (`ev`) in their
    partitions: the promise of the class comment, which `update_partitions()` does not keep -/
theorem C03.vpart_meet_sound_of_keys (ev : S → V → Int) {a b : VP D} (ha : VP.Inv a) (hb : VP.Inv b)
    (ka : VP.KeySound ev a) (kb : VP.KeySound ev b) (hd : VP.KeysDisjoint a.parts) (s : S) :
    VP.γ a s → VP.γ b s → VP.γ (VP.meet a b) s :=
  VP.meet_sound_of ha hb (VP.zipLower_of_keys ev VP.lSound_meet ha ka kb hd) s

theorem C03.vpart_narrow_sound_of_keys (ev : S → V → Int) {a b : VP D} (ha : VP.Inv a) (hb : VP.Inv b)
    (ka : VP.KeySound ev a) (kb : VP.KeySound ev b) (hd : VP.KeysDisjoint a.parts) (s : S) :
    VP.γ a s → VP.γ b s → VP.γ (VP.narrow a b) s :=
  VP.narrow_sound_of ha hb (VP.zipLower_of_keys ev VP.lSound_narrow ha ka kb hd) s

open VPartEx in
/-- pinned-tree behaviour (fixed by 8f4c9c7): `x := y` on three separated partitions left the
    intervals `[-oo,+oo]`, `[5,5]`; two such values share the state `(x,y,f) = (5,5,0)` and their
    meet is bottom.  The values still satisfy `VP.Inv`, so the statement over all such values fails -/
theorem C03.vpart_meet_sound_counterexample : ¬ C03.vpart_meet_sound_Statement := by
  intro h
  have h1 : VP.γ (VP.meet (xyOld W0) (xyOld Z0)) (st 5 5 0) :=
    h V3 (St V3) constVDom (xyOld W0) (xyOld Z0) (st 5 5 0) inv_xyOld_W0 inv_xyOld_Z0
      (γ_of_vMem (by decide)) (γ_of_vMem (by decide))
  exact VP.not_γ_of_isBottom (by decide) _ h1

open VPartEx in
theorem C03.vpart_narrow_sound_counterexample : ¬ C03.vpart_narrow_sound_Statement := by
  intro h
  have h1 : VP.γ (VP.narrow (xyOld W0) (xyOld Z0)) (st 5 5 0) :=
    h V3 (St V3) constVDom (xyOld W0) (xyOld Z0) (st 5 5 0) inv_xyOld_W0 inv_xyOld_Z0
      (γ_of_vMem (by decide)) (γ_of_vMem (by decide))
  exact VP.not_γ_of_isBottom (by decide) _ h1

/-- "partitions are sorted and they don't overlap" after `update_partitions()` (code after
    8f4c9c7): the intervals are non-empty, each strictly before the next, hence pairwise disjoint -/
theorem C03.vpart_update_disjoint {a : VP D} (hv : a.var ≠ none) :
    VP.keysSep (VP.updateParts a).parts = true ∧ VP.KeysDisjoint (VP.updateParts a).parts :=
  ⟨VP.updateParts_sep hv, VP.keysDisjoint_of_sep _ (VP.updateParts_sep hv)⟩

/-- the same for the pinned tree (`VP.updatePartsOld`, fixed by 8f4c9c7) -/
def C03.vpart_update_disjoint_old_Statement : Prop :=
  ∀ (V S : Type) [DecidableEq V] (D : VDom V S) (a : VP D), a.var ≠ none →
    VP.KeysDisjoint (VP.updatePartsOld a).parts

/-- with at most two partitions left after dropping the empty ones, the old loop did separate them -/
theorem C03.vpart_update_disjoint_old_partial {a : VP D} {x : V} (hv : a.var = some x)
    (h : (VP.refreshGo x 0 a.parts).1.length ≤ 2) : VP.KeysDisjoint (VP.updatePartsOld a).parts :=
  VP.updatePartsOld_short_disjoint hv h

open VPartEx in
theorem C03.vpart_update_disjoint_old_counterexample : ¬ C03.vpart_update_disjoint_old_Statement := by
  intro h
  have h1 := h V3 (St V3) constVDom (VP.mapParts (cAssignV 0 1) W0) (by simp [VP.mapParts, W0])
  have h2 := VP.keysDisjoint_count h1 5
  revert h2
  decide

open VPartEx in
/-- the same scenario with the code after 8f4c9c7: one partition `[-oo,+oo]` is left, the meet keeps
    `(5,5,0)` and `<=` is reflexive (the real code answers likewise on the replay line) -/
example : keys (xy W0) = [Itv.top] ∧ vMem (VP.meet (xy W0) (xy Z0)) (st 5 5 0) = true ∧
    VP.leq (xy W0) (xy W0) = true ∧ keys (xyOld W0) = [Itv.top, Itv.single 5] := by decide

/-! ## histories -/

/-- every operation keeps `VP.Inv` (hence no CRAB_ERROR of `merge_partitions()` /
    `remove_partitions()` is reachable from a well-formed pool) -/
theorem C03.vpart_inv_step (op : VP.Op D) : Step.Preserves VP.Inv (VP.Op.toStep op) := by
  cases op with
  | map d f r => exact fun a ha => VP.mapOp_inv f ha
  | assign d x f r => exact fun a ha => VP.assignOp_inv x f ha
  | add d c P => exact fun a ha => VP.addOp_inv c ha
  | drop d hit f r => exact fun a ha => VP.dropOp_inv hit f ha
  | rename d ren f r => exact fun a ha => VP.renameOp_inv ren f ha
  | select d x cnd cneg f1 f2 P r1 r2 => exact fun a ha => VP.selectOp_inv x cnd cneg f1 f2 ha
  | vpStart d x => exact fun a ha => VP.vpStart_inv x ha
  | vpEnd d x => exact fun a ha => VP.vpEnd_inv x ha
  | join d a b => exact fun a b ha hb => VP.join_inv ha hb
  | meet d a b => exact fun a b ha hb => VP.meet_inv ha hb
  | widen d a b iw w => exact fun a b ha hb => VP.widenWith_inv iw w ha hb
  | narrow d a b => exact fun a b ha hb => VP.narrow_inv ha hb
  | copy d s => trivial
  | setTop d => exact fun a _ => VP.inv_single _ _
  | setBottom d => exact fun a _ => VP.inv_single _ _

theorem C03.vpart_inv_stepG (op : VP.Op D) : Step.Preserves VP.Inv (VP.Op.toStepG op) := by
  rcases VP.toStepG_cases op with ⟨d, a, b, rfl⟩ | ⟨d, a, b, rfl⟩ | h
  · exact fun a b ha hb => VP.meetG_inv ha hb
  · exact fun a b ha hb => VP.narrowG_inv ha hb
  · rw [h]; exact C03.vpart_inv_step op

/-- every operation other than `&`, `&&` is sound on well-formed values; `&`, `&&` in their guarded
    reading -/
theorem C03.vpart_step_sound (t : D.TopSound) (op : VP.Op D) (hop : op.BaseSound) :
    Step.SoundOn VP.Inv VP.γ (VP.Op.toStepG op) := by
  cases op with
  | map d f r => exact fun a s s' _ hg hr => VP.mapOp_sound hop a s s' hg hr
  | assign d x f r => exact fun a s s' _ hg hr => VP.assignOp_sound x hop a s s' hg hr
  | add d c P => exact fun a s s' ha hg hr => hr.1 ▸ VP.addOp_sound hop ha s hg hr.2
  | drop d hit f r => exact fun a s s' ha hg hr => VP.dropOp_sound hit hop ha s s' hg hr
  | rename d ren f r => exact fun a s s' _ hg hr => VP.renameOp_sound ren hop a s s' hg hr
  | select d x cnd cneg f1 f2 P r1 r2 =>
    exact fun a s s' ha hg hr => VP.selectOp_sound x hop.1 hop.2.1 hop.2.2.1 hop.2.2.2 ha s s' hg hr
  | vpStart d x => exact fun a s s' _ hg hr => hr ▸ VP.vpStart_sound x a s hg
  | vpEnd d x => exact fun a s s' ha hg hr => hr ▸ VP.vpEnd_sound x ha s hg
  | join d a b => exact fun a b s ha hb h => VP.join_sound ha hb s h
  | meet d a b => exact fun a b s ha hb h1 h2 => VP.meetG_sound ha hb s h1 h2
  | widen d a b iw w => exact fun a b s ha hb h => VP.widenWith_sound t iw hop ha hb s h
  | narrow d a b => exact fun a b s ha hb h1 h2 => VP.narrowG_sound ha hb s h1 h2
  | copy d s => trivial
  | setTop d => exact fun a s s' _ _ _ => VP.setTop_sound a s'
  | setBottom d => exact fun a s s' _ _ hr => hr.elim

def C03.vpart_history_sound_Statement : Prop :=
  ∀ (V S : Type) [DecidableEq V] (D : VDom V S), D.TopSound → ∀ (ops : List (VP.Op D)),
    (∀ op ∈ ops, op.BaseSound) → ∀ (p : Pool (VP D)) (c : CPool S), (∀ i, (p i).Inv) →
    (∀ i s, c i s → VP.γ (p i) s) →
    ∀ i s, collHist c (VP.toHist ops) i s → VP.γ (runHist p (VP.toHist ops) i) s

/-- C03 for `value_partitioning_domain<Base>`: every base with sound operations and sound `is_top`,
    every well-formed pool, history length, partitioning variables, interleaving of statements,
    `+=`, forget/project/rename, partition start/end, `select`, `|`, widenings, `&`, `&&`, copies,
    `set_to_top/bottom` — provided no `&`, `&&` of the run takes the element-wise branch on more
    than one partition (`VP.histOk`, computed along the run).  The invariant is kept throughout. -/
theorem C03.vpart_history_sound_partial (t : D.TopSound) (ops : List (VP.Op D))
    (hops : ∀ op ∈ ops, op.BaseSound) (p : Pool (VP D)) (c : CPool S) (hI : ∀ i, (p i).Inv)
    (h0 : ∀ i s, c i s → VP.γ (p i) s) (hok : VP.histOk p ops = true) :
    ∀ i s, collHist c (VP.toHist ops) i s →
      VP.γ (runHist p (VP.toHist ops) i) s ∧ (runHist p (VP.toHist ops) i).Inv := by
  intro i s hc
  rw [VP.runHist_guard ops p hok]
  rw [VP.collHist_guard ops c] at hc
  constructor
  · refine history_sound_on VP.Inv VP.γ (VP.toHistG ops) ?_ ?_ p c hI h0 i s hc
    · intro st hst
      simp only [VP.toHistG, List.mem_map] at hst
      obtain ⟨op, hop, rfl⟩ := hst
      exact C03.vpart_step_sound t op (hops op hop)
    · intro st hst
      simp only [VP.toHistG, List.mem_map] at hst
      obtain ⟨op, _, rfl⟩ := hst
      exact C03.vpart_inv_stepG op
  · apply runHist_preserves VP.Inv _ _ p hI
    intro st hst
    simp only [VP.toHistG, List.mem_map] at hst
    obtain ⟨op, _, rfl⟩ := hst
    exact C03.vpart_inv_stepG op

/-- the invariant alone needs no side condition -/
theorem C03.vpart_history_inv (ops : List (VP.Op D)) (p : Pool (VP D)) (hI : ∀ i, (p i).Inv) :
    ∀ i, (runHist p (VP.toHist ops) i).Inv := by
  apply runHist_preserves VP.Inv _ _ p hI
  intro st hst
  simp only [VP.toHist, List.mem_map] at hst
  obtain ⟨op, _, rfl⟩ := hst
  exact C03.vpart_inv_step op

open VPartEx in
/-- one `&` from a pool holding the two values the pinned tree reached by `x := y` (overlapping
    intervals, `VP.Inv` holds): `(5,5,0)` is in both, the result is bottom.  With the code after
    8f4c9c7 these pool values are no longer produced, but the statement quantifies over every pool
    with `VP.Inv`: see the header for what a full statement needs. -/
theorem C03.vpart_history_sound_counterexample : ¬ C03.vpart_history_sound_Statement := by
  intro h
  have h1 := h V3 (St V3) constVDom constDom_topSound [.meet 2 0 1]
    (by intro op hop; simp only [List.mem_singleton] at hop; subst hop; trivial)
    pool0 cpool0
    (by
      intro i
      unfold pool0
      split
      · exact inv_xyOld_W0
      · split
        · exact inv_xyOld_Z0
        · exact VP.inv_single _ _)
    (by
      intro i s hc
      obtain ⟨hi, rfl⟩ := hc
      rcases hi with rfl | rfl
      · exact γ_of_vMem (by decide)
      · exact γ_of_vMem (by decide))
    2 (st 5 5 0)
    (by
      simp only [VP.toHist, List.map, collHist, List.foldl, VP.Op.toStep, Step.coll, CPool.set, if_true]
      exact ⟨⟨Or.inl rfl, rfl⟩, ⟨Or.inr rfl, rfl⟩⟩)
  exact VP.not_γ_of_isBottom (by decide) _ h1

/-! ### non-vacuity over the interval instance -/
section C03VPartEx
open VPartEx C03VPartEx

example : keys (runHist pool (VP.toHist ops) 2) = [Itv.single 6, ⟨.fin 11, .fin 12⟩] ∧
    vals (runHist pool (VP.toHist ops) 2) = [Itv.single 6, ⟨.fin 11, .fin 12⟩] ∧
    vals (runHist pool (VP.toHist ops2) 3) = [⟨.fin 6, .fin 12⟩] ∧
    VP.histOk pool ops2 = true ∧ VP.histOk pool (ops ++ [.meet 3 2 2]) = false := by decide


/-- `vpart_history_sound_partial` applies: the runs `0 ↦ 6` and `5 ↦ 11` are in the result -/
example : VP.γ (runHist pool (VP.toHist ops) 2) 6 ∧ VP.γ (runHist pool (VP.toHist ops) 2) 11 := by
  have h := C03.vpart_history_sound_partial itvDom_topSound ops ops_baseSound pool cpool pool_inv
    pool_sound (by decide) 2
  constructor
  · refine (h 6 ?_).1
    simp only [ops, VP.toHist, List.map, collHist, List.foldl, VP.Op.toStep, Step.coll, CPool.set]
    simp only [if_true, if_false, show (2 : Nat) ≠ 1 by decide, show (2 : Nat) ≠ 0 by decide,
      show (1 : Nat) ≠ 0 by decide, show (0 : Nat) ≠ 1 by decide]
    exact ⟨0, Or.inl ⟨0, Or.inl ⟨rfl, rfl⟩, rfl⟩, rfl⟩
  · refine (h 11 ?_).1
    simp only [ops, VP.toHist, List.map, collHist, List.foldl, VP.Op.toStep, Step.coll, CPool.set]
    simp only [if_true, if_false, show (2 : Nat) ≠ 1 by decide, show (2 : Nat) ≠ 0 by decide,
      show (1 : Nat) ≠ 0 by decide, show (0 : Nat) ≠ 1 by decide]
    exact ⟨5, Or.inr ⟨5, Or.inr ⟨rfl, rfl⟩, rfl⟩, rfl⟩

end C03VPartEx

/-! # `uf_domain`

Model `Crab.Dom.Fct.Uf` (`CrabModel/Dom/Functors/Uf.lean`): variables ↦ Herbrand terms (as trees),
for EVERY interpretation `I` of the symbols, any set of variables and symbols, any selection
function `choose` of `choose_non_var` that returns one of its candidates.  `UF.WF` = every term
variable of the map is below `m_free_var` (what makes `fresh_var()` fresh). -/
section uf
open Uf
variable {V F : Type} [DecidableEq V] [DecidableEq F] (I : F → List Int → Int)

/-- `assign`, `apply` (arithmetic, bitwise, casts), `set(x, symbol)`, `set(x, functor, args)`,
    `array_load`, `ref_load`, `assign_bool_var`, `apply_binary_bool`: `x := e`, `e` read by `I` -/
theorem C03.uf_assign_sound (x : V) (e : Exp V F) {a : UF V F} (hw : a.WF) (s : St V) :
    UF.γ I a s → UF.γ I (UF.assign x e a) (s.set x (e.eval I s)) := assign_sound I x e hw s

/-- the tree `build_linexpr` builds means the linear expression when `+`, `*` mean themselves -/
theorem C03.uf_assign_linear (add mul : F) (hadd : ∀ a b, I add [a, b] = a + b)
    (hmul : ∀ a b, I mul [a, b] = a * b) (x : V) (c : Int) (ts : List (Int × V)) {a : UF V F} (hw : a.WF)
    (s : St V) : UF.γ I a s → UF.γ I (UF.assign x (Exp.ofLin add mul c ts) a) (s.set x (linVal s c ts)) := by
  intro hg
  rw [← eval_ofLin I add mul hadd hmul s c ts]
  exact assign_sound I x _ hw s hg

/-- `operator-=` (havoc), `forget`, `project` -/
theorem C03.uf_forget_sound (x : V) {a : UF V F} (s : St V) (k : Int) :
    UF.γ I a s → UF.γ I (UF.forgetVar x a) (s.set x k) := forgetVar_sound I x s k

theorem C03.uf_forget_list_sound (xs : List V) {a : UF V F} (s s' : St V) :
    UF.γ I a s → (∀ v, v ∉ xs → s' v = s v) → UF.γ I (UF.forget xs a) s' := forget_sound I xs s s'

theorem C03.uf_project_sound (xs : List V) {a : UF V F} (s s' : St V) :
    UF.γ I a s → (∀ v, v ∈ xs → s' v = s v) → UF.γ I (UF.project xs a) s' := project_sound I xs s s'

/-- `rename(from, to)` when it does not raise CRAB_ERROR: the loop, pair by pair -/
theorem C03.uf_rename_sound (ps : List (V × V)) {a a' : UF V F} (h : UF.rename ps a = some a') (s s' : St V) :
    UF.γ I a s → UF.RenRel ps s s' → UF.γ I a' s' := rename_sound I ps h s s'

/-- `expand(x, y)` in the reading of the drivers of this project (`y` receives the value of `x`) -/
theorem C03.uf_expand_sound (x y : V) {a : UF V F} (hw : a.WF) (s : St V) :
    UF.γ I a s → UF.γ I (UF.expand x y a) (s.set y (s x)) := expand_sound I x y hw s

/-- `operator+=`: `x == y` (union + rebuilt terms), `x != y` (bottom when both have the same
    term), anything else ignored -/
theorem C03.uf_add_sound {choose : List (Term F) → Option (Term F)} (hch : ChooseOK choose)
    (cs : List (UF.Cst V)) {a : UF V F} (hw : a.WF) (s : St V) :
    UF.γ I a s → (∀ c ∈ cs, c.holds s) → UF.γ I (UF.addCsts choose cs a) s :=
  fun hg hc => (addCsts_sound I hch cs hw s hg hc).1

/-- `operator|`, `|=`, `||`, `widening_thresholds` (anti-unification) -/
theorem C03.uf_join_sound {a b : UF V F} (hb : b.WF) (s : St V) :
    (UF.γ I a s ∨ UF.γ I b s) → UF.γ I (UF.join a b) s := join_sound I hb s

/-- `operator&`, `&=`, `&&` (the pseudo-meet) -/
theorem C03.uf_meet_sound {choose : List (Term F) → Option (Term F)} (hch : ChooseOK choose) {a b : UF V F}
    (ha : a.WF) (s : St V) : UF.γ I a s → UF.γ I b s → UF.γ I (UF.meet choose a b) s := meet_sound I hch ha s

/-- `to_linear_constraint_system()`: every exported equality holds -/
theorem C03.uf_equalities_sound {a : UF V F} {x y : V} (h : (x, y) ∈ UF.equalities a) (s : St V) :
    UF.γ I a s → s x = s y := equalities_sound I h s

/-- every operation keeps the term variables below `m_free_var` -/
theorem C03.uf_inv_step {choose : List (Term F) → Option (Term F)} (hch : ChooseOK choose) (op : UF.Op V F) :
    Step.Preserves UF.WF (UF.Op.toStep I choose op) := by
  cases op with
  | assign d x e => exact fun a ha => assign_wf x e ha
  | forgetVar d x => exact fun a ha => forgetVar_wf x ha
  | forget d xs => exact fun a ha => forget_wf xs ha
  | project d xs => exact fun a ha => project_wf xs ha
  | rename d ps =>
    intro a ha
    show ((UF.rename ps a).getD UF.top).WF
    cases h : UF.rename ps a with
    | none => exact wf_top
    | some a' => exact rename_wf ps h ha
  | expand d x y => exact fun a ha => expand_wf x y ha
  | add d cs => exact fun a ha => addCsts_wf choose cs ha
  | join d a b => exact fun a b ha hb => join_wf ha hb
  | meet d a b => exact fun a b ha hb => meet_wf hch ha hb
  | copy d s => trivial
  | setTop d => exact fun _ _ => wf_top
  | setBottom d => trivial

theorem C03.uf_step_sound {choose : List (Term F) → Option (Term F)} (hch : ChooseOK choose) (op : UF.Op V F) :
    Step.SoundOn UF.WF (UF.γ I) (UF.Op.toStep I choose op) := by
  cases op with
  | assign d x e => exact fun a s s' ha hg hr => hr ▸ assign_sound I x e ha s hg
  | forgetVar d x => exact fun a s s' _ hg hr => by obtain ⟨k, rfl⟩ := hr; exact forgetVar_sound I x s k hg
  | forget d xs => exact fun a s s' _ hg hr => forget_sound I xs s s' hg hr
  | project d xs => exact fun a s s' _ hg hr => project_sound I xs s s' hg hr
  | rename d ps =>
    intro a s s' _ hg hr
    show UF.γ I ((UF.rename ps a).getD UF.top) s'
    cases h : UF.rename ps a with
    | none => exact γ_top I s'
    | some a' => exact rename_sound I ps h s s' hg hr
  | expand d x y => exact fun a s s' ha hg hr => hr ▸ expand_sound I x y ha s hg
  | add d cs => exact fun a s s' ha hg hr => hr.1 ▸ (addCsts_sound I hch cs ha s hg hr.2).1
  | join d a b => exact fun a b s _ hb h => join_sound I hb s h
  | meet d a b => exact fun a b s ha _ h1 h2 => meet_sound I hch ha s h1 h2
  | copy d s => trivial
  | setTop d => exact fun _ _ s' _ _ _ => γ_top I s'
  | setBottom d => trivial

/-- C03 for `uf_domain`: every interpretation of the symbols, every well-formed pool, history
    length and interleaving of assignments / applications of (un)interpreted functions, havoc,
    forget, project, rename, expand, equalities and disequalities, `|` (= widening), `&`
    (= narrowing), copies, `set_to_top/bottom`. -/
theorem C03.uf_history_sound {choose : List (Term F) → Option (Term F)} (hch : ChooseOK choose)
    (ops : List (UF.Op V F)) (p : Pool (UF V F)) (c : CPool (St V)) (hI : ∀ i, (p i).WF)
    (h0 : ∀ i s, c i s → UF.γ I (p i) s) :
    ∀ i s, collHist c (UF.toHist I choose ops) i s →
      UF.γ I (runHist p (UF.toHist I choose ops) i) s ∧ (runHist p (UF.toHist I choose ops) i).WF := by
  intro i s hc
  constructor
  · refine history_sound_on UF.WF (UF.γ I) _ ?_ ?_ p c hI h0 i s hc
    · intro st hst
      simp only [UF.toHist, List.mem_map] at hst
      obtain ⟨op, _, rfl⟩ := hst
      exact C03.uf_step_sound I hch op
    · intro st hst
      simp only [UF.toHist, List.mem_map] at hst
      obtain ⟨op, _, rfl⟩ := hst
      exact C03.uf_inv_step I hch op
  · apply runHist_preserves UF.WF _ _ p hI
    intro st hst
    simp only [UF.toHist, List.mem_map] at hst
    obtain ⟨op, _, rfl⟩ := hst
    exact C03.uf_inv_step I hch op

end uf

/-! ### non-vacuity: `uf_domain` over variables and symbols `Nat` -/
section C03UfEx
open Uf C03UfEx

/-- hash-consing = equal trees: `v1` and `v3` get the same term, the export says `v1 = v3`;
    `assume v0 == v2` keeps the classes but rebuilds every other variable as a fresh term variable
    and loses the constant (printed by the real code for the same statements:
    `{v0 -> $VAR_1, v1 -> $VAR_2, v2 -> $VAR_1, v3 -> $VAR_2}`); `v1 != v3` then gives bottom -/
example : terms (run ops 0) = some [(3, .app 0 [.const 5, .var 0]), (1, .app 0 [.const 5, .var 0]),
      (2, .var 0), (0, .const 5)] ∧
    UF.equalities (run ops 0) = [(3, 1), (1, 3)] ∧
    terms (run (ops ++ [.add 0 [.eq 0 2]]) 0) = some [(3, .var 1), (1, .var 1), (2, .var 2), (0, .var 2)] ∧
    UF.isBottom (run (ops ++ [.add 0 [.eq 0 2], .add 0 [.ne 1 3]]) 0) = true := by decide


/-- `|` of the runs with `v0 := 5` and `v0 := 6` keeps `v1 = v3` (anti-unification with memo);
    `&` of `{v0 -> 5}` with itself is `{v0 -> $VAR}` (as printed by the real code) -/
example : terms (UF.join (run ops 0) (run ((UF.Op.assign 0 0 (.const 6)) :: ops.tail) 0)) =
      some [(3, .app 0 [.var 0, .var 1]), (1, .app 0 [.var 0, .var 1]), (2, .var 1), (0, .var 0)] ∧
    terms (UF.meet ch (run [.assign 0 0 (.const 5)] 0) (run [.assign 0 0 (.const 5)] 0)) =
      some [(0, .var 0)] := by decide


/-- `uf_history_sound` applies: the run `(0,0,2,0) ↦ (5,7,2,7)` is in the result -/
example : UF.γ I0 (run ops 0) sfin := by
  have h := C03.uf_history_sound I0 ch_ok ops (fun _ => UF.top) (fun _ s => s = fun v => if v = 2 then 2 else 0)
    (fun _ => wf_top) (fun _ s _ => γ_top I0 s) 0 sfin
  refine (h ?_).1
  simp only [ops, UF.toHist, List.map, collHist, List.foldl, UF.Op.toStep, Step.coll, CPool.set, if_true]
  refine ⟨_, ⟨_, ⟨_, rfl, rfl⟩, rfl⟩, ?_⟩
  funext v
  simp only [St.set, Exp.eval, Exp.evalL, I0, sfin]
  by_cases h3 : v = 3
  · subst h3; decide
  · by_cases h1 : v = 1
    · subst h1; decide
    · by_cases h0 : v = 0
      · subst h0; decide
      · simp [h3, h1, h0]

end C03UfEx

