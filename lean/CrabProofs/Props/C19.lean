import CrabProofs.Lemmas.PatriciaEnvItv
import CrabProofs.Lemmas.PatriciaSetOps2

/-!
# C19 — environment maps and sets behave as their mathematical counterparts

Property theorems only (helper lemmas live in `CrabProofs/Lemmas/Patricia*.lean`).

Models: `Crab.Patricia` (`patricia_trees.hpp`, case by case), `Crab.SepDom`
(`separate_domains.hpp`), `Crab.PSet` / `Crab.DD` (`patricia_tree_set`, `discrete_domain`).

* `WF P t` : the invariant of big-endian patricia trees over 64-bit indices (branching bit a
  power of two, prefix = ones below the bit and zero at the bit, no empty child, every key on
  its side, every stored value satisfies `P`).
* `c : Ctx V` are the two oracles of the C++ code — pointer equality of two `tree_ptr` and
  `ValueEqual`; `c.SoundOn P` only says that a yes answer implies structural equality.  Every
  theorem holds for every such oracle, and the `*_oracle_independent` theorems say that the
  result is literally the same for any two of them (so physical sharing never matters).
* Three defects met by this property: #10 (`tree::compare`, leaf against leaf of another key) is
  repaired in the tree; `separate_domain::join(k, v)` (stores a top binding) and
  `discrete_domain::operator==` (`top == {}`) are open: their theorems are `_partial` +
  `_counterexample` for the code as it is and `_fixed` for the suggested repair.
* `t.lookup k : Option V` is the abstraction function: a total map with a default.
  Statements quantify over all trees / environments satisfying the invariant, all keys
  `< 2^64`, all value lattices (tree level) or the interval lattice (environment level).
-/
open Crab Crab.Patricia Crab.Patricia.Tree

/-! ## trees -/

/-- the empty tree and single bindings are well formed (base of every history) -/
theorem C19.wf_empty {V : Type} (P : V → Prop) : WF P (.empty : Tree V) := trivial

/-- `insert(key, value)`: invariant kept, the binding is overwritten, nothing else changes -/
theorem C19.lookup_insert {V : Type} {P : V → Prop} (c : Ctx V) (hc : c.SoundOn P) (t : Tree V)
    (hw : WF P t) (k : Nat) (v : V) (hk : k < 2 ^ 64) (hv : P v) :
    WF P (insertKV c t k v) ∧
      ∀ k', (insertKV c t k v).lookup k' = if k' = k then some v else t.lookup k' :=
  insertKV_spec hc hw hk hv

/-- `remove(key)`: invariant kept, the binding disappears, nothing else changes -/
theorem C19.lookup_remove {V : Type} {P : V → Prop} (c : Ctx V) (hc : c.SoundOn P) (t : Tree V)
    (hw : WF P t) (k : Nat) (hk : k < 2 ^ 64) :
    WF P (remove c t k) ∧ ∀ k', (remove c t k).lookup k' = if k' = k then none else t.lookup k' :=
  remove_spec hc hk hw

/-- `tree::insert` with an arbitrary `binary_op`, both combination directions, both
    `default_is_absorbing` modes: bottom exactly when `apply` on the existing binding says so;
    otherwise the key gets the combined value and no other key changes -/
theorem C19.insert_op {V : Type} {P : V → Prop} (c : Ctx V) (hc : c.SoundOn P) (op : BinOp V)
    (hop : op.Pres P) (l2r : Bool) (t : Tree V) (hw : WF P t) (k : Nat) (v : V) (hk : k < 2 ^ 64) (hv : P v) :
    match insert c op l2r t k v with
    | none => insSpec op l2r k v (t.lookup k) = none
    | some r => WF P r ∧ insSpec op l2r k v (t.lookup k) = some (r.lookup k) ∧
        ∀ k', k' ≠ k → r.lookup k' = t.lookup k' :=
  insert_spec hc hop hk hv hw

/-- `tree::merge` is the pointwise combination `pw` of the bindings (all structural cases, both
    `default_is_absorbing` modes, both directions): it reports bottom exactly when some key
    bound on both sides combines to bottom, and otherwise the result is well formed and
    `lookup` of the result is `pw` of the lookups.  Needs `apply(k,x,x) = x` on stored values
    (what the `s == t` shortcut of the code relies on). -/
theorem C19.lookup_merge {V : Type} {P : V → Prop} (c : Ctx V) (hc : c.SoundOn P) (op : BinOp V)
    (hop : op.Pres P) (hid : op.Idem P) (l2r : Bool) (s t : Tree V) (hs : WF P s) (ht : WF P t) :
    match merge c op l2r s t with
    | none => ∃ k x y, s.lookup k = some x ∧ t.lookup k = some y ∧ app op l2r k x y = .bottom
    | some r => WF P r ∧ ∀ k, pw op l2r k (s.lookup k) (t.lookup k) = some (r.lookup k) := by
  have h := merge_ok hc hop hid l2r s t hs ht
  cases hres : merge c op l2r s t with
  | none =>
    rw [hres] at h
    obtain ⟨k, hk⟩ := h
    obtain ⟨x, y, hx, hy, hb⟩ := pw_eq_none hk
    exact ⟨k, x, y, hx, hy, hb⟩
  | some r => rw [hres] at h; exact h

/-- a merge that succeeds met no bottom -/
theorem C19.merge_some_no_bottom {V : Type} {P : V → Prop} (c : Ctx V) (hc : c.SoundOn P) (op : BinOp V)
    (hop : op.Pres P) (hid : op.Idem P) (l2r : Bool) (s t r : Tree V) (hs : WF P s) (ht : WF P t)
    (h : merge c op l2r s t = some r) (k : Nat) (x y : V) (hx : s.lookup k = some x) (hy : t.lookup k = some y) :
    app op l2r k x y ≠ .bottom := by
  have h1 := merge_ok hc hop hid l2r s t hs ht
  rw [h] at h1
  have := h1.2 k
  rw [hx, hy] at this
  intro hb
  simp [pw, hb] at this

/-- **canonicity**: well-formed trees with the same bindings are structurally equal -/
theorem C19.tree_ext {V : Type} {P : V → Prop} (s t : Tree V) (hs : WF P s) (ht : WF P t)
    (h : ∀ k, s.lookup k = t.lookup k) : s = t := WF.ext hs ht h

/-- the results do not depend on pointer equality / `ValueEqual` answers -/
theorem C19.merge_oracle_independent {V : Type} {P : V → Prop} (c c' : Ctx V) (hc : c.SoundOn P)
    (hc' : c'.SoundOn P) (op : BinOp V) (hop : op.Pres P) (hid : op.Idem P) (l2r : Bool) (s t : Tree V)
    (hs : WF P s) (ht : WF P t) : merge c op l2r s t = merge c' op l2r s t :=
  merge_ctx_indep hc hc' hop hid l2r hs ht
theorem C19.insert_oracle_independent {V : Type} {P : V → Prop} (c c' : Ctx V) (hc : c.SoundOn P)
    (hc' : c'.SoundOn P) (op : BinOp V) (hop : op.Pres P) (l2r : Bool) (t : Tree V) (ht : WF P t)
    (k : Nat) (v : V) (hk : k < 2 ^ 64) (hv : P v) : insert c op l2r t k v = insert c' op l2r t k v :=
  insert_ctx_indep hc hc' hop l2r ht hk hv
theorem C19.remove_oracle_independent {V : Type} {P : V → Prop} (c c' : Ctx V) (hc : c.SoundOn P)
    (hc' : c'.SoundOn P) (t : Tree V) (ht : WF P t) (k : Nat) (hk : k < 2 ^ 64) :
    remove c t k = remove c' t k := remove_ctx_indep hc hc' ht hk
theorem C19.compare_oracle_independent {V : Type} {P : V → Prop} (c c' : Ctx V) (hc : c.SoundOn P)
    (hc' : c'.SoundOn P) (po : POrder V) (hrefl : ∀ x, P x → po.leq x x = true) (l2r : Bool) (s t : Tree V)
    (hs : WF P s) (ht : WF P t) : compare true c po l2r s t = compare true c' po l2r s t :=
  compare_ctx_indep hc hc' po hrefl l2r hs ht

/-- iteration (`toList`): keys strictly increasing (hence no duplicates), and a binding is
    listed exactly when `lookup` finds it; `size()` is the number of bindings -/
theorem C19.toList_sorted_nodup_complete {V : Type} {P : V → Prop} (t : Tree V) (hw : WF P t) :
    t.keys.Pairwise (· < ·) ∧ t.keys.Nodup ∧ (∀ k v, (k, v) ∈ t.toList ↔ t.lookup k = some v) ∧
      t.size = t.toList.length :=
  ⟨hw.keys_sorted, hw.keys_nodup, fun _ _ => mem_toList_iff_lookup hw, size_eq_length t⟩

/-- the explicit-stack iterator (`look_for_next_leaf` / `increment`) never raises CRAB_ERROR on a
    well-formed tree and delivers exactly `toList` -/
theorem C19.iterator_eq_toList {V : Type} {P : V → Prop} (t : Tree V) (hw : WF P t) :
    iterate t = some t.toList := iterate_eq_toList hw.ne

/-- `join(t0, t1)` (with `highest_bit` / `compute_branching_bit` / `mask` on 64-bit indices):
    when the prefixes differ above both branching bits, the new node is well formed and binds
    exactly the bindings of the two trees -/
theorem C19.join_trees {V : Type} {P : V → Prop} (t0 t1 : Tree V) (h0 : WF P t0) (h1 : WF P t1)
    (hd : ∃ b, max (lvl t0) (lvl t1) ≤ b ∧ t0.pfx'.testBit b ≠ t1.pfx'.testBit b) :
    WF P (join t0 t1) ∧ ∀ k, (join t0 t1).lookup k = (t0.lookup k).or (t1.lookup k) :=
  join_spec h0 h1 hd

/-! ### `compare`

Defect #10 (a leaf compared with a leaf of another key was answered yes) was repaired in the
tree by the commit "fix: patricia tree comparison of two leaves with different keys"; the model
carries both versions (`fixedLeafLeaf`), `Patricia.compareIsFixed = true` selects the one of the
current tree.  The statement is proved for the current code; for the code before the commit the
counterexample and the exact extent of the damage are kept as theorems. -/

/-- the full statement: `compare` answers yes exactly when the pointwise order holds
    (`PwLe`: a missing binding is the default, top or bottom of the order as told by
    `default_is_top`), for both directions of use and both kinds of default -/
def C19.compare_iff_pointwise_Statement (fixedLeafLeaf : Bool) : Prop :=
  ∀ (V : Type) (P : V → Prop) (c : Ctx V) (po : POrder V) (l2r : Bool) (s t : Tree V),
    c.SoundOn P → (∀ x, P x → po.leq x x = true) → WF P s → WF P t →
    (Patricia.compare fixedLeafLeaf c po l2r s t = true ↔ PwLe po l2r s t)

/-- it holds for the code after the fix commit ... -/
theorem C19.compare_iff_pointwise_fixed : C19.compare_iff_pointwise_Statement true :=
  fun _ _ _ po l2r s t hc hrefl hs ht => compare_fixed_iff hc po hrefl l2r s t hs ht

/-- ... which is the code of the current tree -/
theorem C19.compare_iff_pointwise : C19.compare_iff_pointwise_Statement Patricia.compareIsFixed :=
  C19.compare_iff_pointwise_fixed

/-- the code before the fix: exact on every input on which it agrees with the repaired test
    (a decidable condition; it fails only when the walk reaches two leaves of different keys) -/
theorem C19.compare_before_fix_partial {V : Type} {P : V → Prop} (c : Ctx V) (hc : c.SoundOn P)
    (po : POrder V) (hrefl : ∀ x, P x → po.leq x x = true) (l2r : Bool) (s t : Tree V)
    (hs : WF P s) (ht : WF P t)
    (hex : Patricia.compare false c po l2r s t = Patricia.compare true c po l2r s t) :
    Patricia.compare false c po l2r s t = true ↔ PwLe po l2r s t := by
  rw [hex]; exact compare_fixed_iff hc po hrefl l2r s t hs ht

/-- the code before the fix never answered no when the pointwise order holds -/
theorem C19.compare_before_fix_complete {V : Type} {P : V → Prop} (c : Ctx V) (hc : c.SoundOn P)
    (po : POrder V) (hrefl : ∀ x, P x → po.leq x x = true) (l2r : Bool) (s t : Tree V)
    (hs : WF P s) (ht : WF P t) (h : PwLe po l2r s t) : Patricia.compare false c po l2r s t = true :=
  compare_mono c po l2r s t ((compare_fixed_iff hc po hrefl l2r s t hs ht).mpr h)

/-- both versions are exact when the default is the bottom of the order (the sets) -/
theorem C19.compare_iff_pointwise_default_bottom (fixedLeafLeaf : Bool) {V : Type} {P : V → Prop} (c : Ctx V)
    (hc : c.SoundOn P) (po : POrder V) (hd : po.defaultIsTop = false) (hrefl : ∀ x, P x → po.leq x x = true)
    (s t : Tree V) (hs : WF P s) (ht : WF P t) :
    leqTree fixedLeafLeaf c po s t = true ↔ PwLe po true s t := by
  unfold leqTree
  cases fixedLeafLeaf
  · rw [compare_eq_of_bot c po hd s t]; exact compare_fixed_iff hc po hrefl true s t hs ht
  · exact compare_fixed_iff hc po hrefl true s t hs ht

/-- the code before the fix violated the statement: `{1 -> ()} <= {2 -> ()}` was answered yes
    with `default_is_top` although key 2 is bound on the right only -/
theorem C19.compare_before_fix_counterexample : ¬ C19.compare_iff_pointwise_Statement false := by
  intro h
  have h1 := h Unit (fun _ => True) Ctx.never ⟨fun _ _ => true, true⟩ true (.leaf 1 ()) (.leaf 2 ())
    (Ctx.never_sound.soundOn _) (fun _ _ => rfl) ⟨by decide, trivial⟩ ⟨by decide, trivial⟩
  have h2 : Patricia.compare false Ctx.never ⟨fun _ _ => true, true⟩ true (.leaf 1 ()) (.leaf 2 ()) = true := by
    simp [Patricia.compare, compareLeaf, Ctx.never, Tree.isLeaf]
  have h3 := h1.mp h2 2
  simp [rel, leO] at h3

/-- non-vacuity: a well-formed tree over indices with high bits, built by the code itself -/
example : insertKV Ctx.never (insertKV Ctx.never (insertKV Ctx.never (.empty : Tree Nat) 1 7) (2 ^ 63) 8) (2 ^ 63 + 1) 9
    = .node (2 ^ 63 - 1) (2 ^ 63) (.leaf 1 7) (.node (2 ^ 63) 1 (.leaf (2 ^ 63) 8) (.leaf (2 ^ 63 + 1) 9)) := by
  decide

/-! ## environments: `separate_domain<Key, interval<z_number>>`

`EnvInv e` : the tree is well formed, stores neither top nor bottom (nor improper bounds) and is
empty when the bottom flag is set.  `PtrSound pe` : the pointer-equality oracle only answers yes
on structurally equal trees.  `atKey itvLattice e k` is `e.at(k)`. -/

theorem C19.env_inv_top : EnvInv SepDom.top := SepDom.inv_top
theorem C19.env_inv_bottom : EnvInv SepDom.bottom := SepDom.inv_bottom

/-- `a | b`: invariant kept and `at (a | b) k = at a k | at b k` for every key (bottoms included) -/
theorem C19.env_at_join (pe : Tree Itv → Tree Itv → Bool) (hpe : PtrSound pe) (a b : IEnv)
    (ha : EnvInv a) (hb : EnvInv b) :
    EnvInv (SepDom.join (itvCtx pe) itvLattice a b) ∧
      ∀ k, SepDom.atKey itvLattice (SepDom.join (itvCtx pe) itvLattice a b) k =
        Itv.join (SepDom.atKey itvLattice a k) (SepDom.atKey itvLattice b k) :=
  IEnv.join_at hpe ha hb

/-- `a || b` likewise -/
theorem C19.env_at_widen (pe : Tree Itv → Tree Itv → Bool) (hpe : PtrSound pe) (a b : IEnv)
    (ha : EnvInv a) (hb : EnvInv b) :
    EnvInv (SepDom.widen (itvCtx pe) itvLattice a b) ∧
      ∀ k, SepDom.atKey itvLattice (SepDom.widen (itvCtx pe) itvLattice a b) k =
        Itv.widen (SepDom.atKey itvLattice a k) (SepDom.atKey itvLattice b k) :=
  IEnv.widen_at hpe ha hb

/-- `a & b`: bottom exactly when some component is bottom, otherwise pointwise -/
theorem C19.env_at_meet (pe : Tree Itv → Tree Itv → Bool) (hpe : PtrSound pe) (a b : IEnv)
    (ha : EnvInv a) (hb : EnvInv b) :
    EnvInv (SepDom.meet (itvCtx pe) itvLattice a b) ∧
    ((SepDom.meet (itvCtx pe) itvLattice a b).isBot = true ↔
      ∃ k, (Itv.meet (SepDom.atKey itvLattice a k) (SepDom.atKey itvLattice b k)).isBottom = true) ∧
    ((SepDom.meet (itvCtx pe) itvLattice a b).isBot = false →
      ∀ k, SepDom.atKey itvLattice (SepDom.meet (itvCtx pe) itvLattice a b) k =
        Itv.meet (SepDom.atKey itvLattice a k) (SepDom.atKey itvLattice b k)) :=
  IEnv.meet_at hpe ha hb

/-- `a && b` likewise -/
theorem C19.env_at_narrow (pe : Tree Itv → Tree Itv → Bool) (hpe : PtrSound pe) (a b : IEnv)
    (ha : EnvInv a) (hb : EnvInv b) :
    EnvInv (SepDom.narrow (itvCtx pe) itvLattice a b) ∧
    ((SepDom.narrow (itvCtx pe) itvLattice a b).isBot = true ↔
      ∃ k, (Itv.narrow (SepDom.atKey itvLattice a k) (SepDom.atKey itvLattice b k)).isBottom = true) ∧
    ((SepDom.narrow (itvCtx pe) itvLattice a b).isBot = false →
      ∀ k, SepDom.atKey itvLattice (SepDom.narrow (itvCtx pe) itvLattice a b) k =
        Itv.narrow (SepDom.atKey itvLattice a k) (SepDom.atKey itvLattice b k)) :=
  IEnv.narrow_at hpe ha hb

/-- `set(k, v)` for every interval `v` (bottom, top, ordinary) -/
theorem C19.env_set (pe : Tree Itv → Tree Itv → Bool) (hpe : PtrSound pe) (e : IEnv) (he : EnvInv e)
    (k : Nat) (hk : k < 2 ^ 64) (v : Itv) (hv : v.isBottom = true ∨ v.WF) :
    EnvInv (SepDom.set (itvCtx pe) itvLattice e k v) ∧
    ((SepDom.set (itvCtx pe) itvLattice e k v).isBot = (e.isBot || v.isBottom)) ∧
    ((SepDom.set (itvCtx pe) itvLattice e k v).isBot = false →
      ∀ k', SepDom.atKey itvLattice (SepDom.set (itvCtx pe) itvLattice e k v) k' =
        if k' = k then v else SepDom.atKey itvLattice e k') :=
  IEnv.set_at hpe he hk hv

/-- `operator-=` (forget) -/
theorem C19.env_forget (pe : Tree Itv → Tree Itv → Bool) (hpe : PtrSound pe) (e : IEnv) (he : EnvInv e)
    (k : Nat) (hk : k < 2 ^ 64) :
    EnvInv (SepDom.forget (itvCtx pe) e k) ∧ (SepDom.forget (itvCtx pe) e k).isBot = e.isBot ∧
      (e.isBot = false → ∀ k', SepDom.atKey itvLattice (SepDom.forget (itvCtx pe) e k) k' =
        if k' = k then Itv.top else SepDom.atKey itvLattice e k') :=
  IEnv.forget_at hpe he hk

/-- `project(keys)`, whichever of its two strategies runs -/
theorem C19.env_project (pe : Tree Itv → Tree Itv → Bool) (hpe : PtrSound pe) (e : IEnv) (he : EnvInv e)
    (ne : e.isBot = false) (keys : List Nat) (hkeys : ∀ k ∈ keys, k < 2 ^ 64) :
    EnvInv (SepDom.project (itvCtx pe) itvLattice e keys) ∧
    (SepDom.project (itvCtx pe) itvLattice e keys).isBot = false ∧
      ∀ k', SepDom.atKey itvLattice (SepDom.project (itvCtx pe) itvLattice e keys) k' =
        if k' ∈ keys then SepDom.atKey itvLattice e k' else Itv.top :=
  IEnv.project_at hpe he ne hkeys

/-- `rename(from, to)` (as coded: sequential, a pair whose source is unbound is skipped):
    the bindings are those of the sequential map-level renaming `rename1Spec` -/
theorem C19.env_rename (pe : Tree Itv → Tree Itv → Bool) (hpe : PtrSound pe) (e : IEnv) (he : EnvInv e)
    (frm to : List Nat) (hb : ∀ p ∈ frm.zip to, p.1 < 2 ^ 64 ∧ p.2 < 2 ^ 64) :
    match SepDom.rename (itvCtx pe) itvLattice e frm to with
    | none => (e.isTop || e.isBot) = false ∧ frm.length ≠ to.length
    | some e' => EnvInv e' ∧ e'.isBot = e.isBot ∧
        ∀ k', e'.tree.lookup k' =
          if (e.isTop || e.isBot) = true then e.tree.lookup k'
          else (frm.zip to).foldl (fun m p => SepDom.rename1Spec m p.1 p.2) e.tree.lookup k' := by
  by_cases h1 : (e.isTop || e.isBot) = true
  · have e0 : SepDom.rename (itvCtx pe) itvLattice e frm to = some e := by
      unfold SepDom.rename; rw [if_pos h1]
    rw [e0]
    exact ⟨he, rfl, fun _ => by rw [if_pos h1]⟩
  · by_cases h2 : (frm.length != to.length) = true
    · have e0 : SepDom.rename (itvCtx pe) itvLattice e frm to = none := by
        unfold SepDom.rename; rw [if_neg h1, if_pos h2]
      rw [e0]
      exact ⟨by simpa using h1, by simpa using h2⟩
    · have e0 : SepDom.rename (itvCtx pe) itvLattice e frm to =
          some ⟨false, (frm.zip to).foldl (fun t p => SepDom.rename1 (itvCtx pe) itvLattice t p.1 p.2) e.tree⟩ := by
        unfold SepDom.rename; rw [if_neg h1, if_neg h2]
      rw [e0]
      have hne : e.isBot = false := by
        cases hb' : e.isBot
        · rfl
        · simp [hb'] at h1
      obtain ⟨w, l⟩ := SepDom.rename_fold_spec (L := itvLattice) (itvCtx_sound hpe) (fun x hx => hx.1)
        (frm.zip to) he.1 hb
      exact ⟨⟨w, fun h => by cases h⟩, hne.symm, fun k' => by rw [if_neg h1]; exact l k'⟩

/-- iteration: strictly increasing keys; `(k, v)` is listed exactly when `at(k) = v` and `v` is
    not top (every non-top binding exactly once) -/
theorem C19.env_iteration (e : IEnv) (he : EnvInv e) (ne : e.isBot = false) :
    ∃ l, SepDom.bindings e = some l ∧ (l.map Prod.fst).Pairwise (· < ·) ∧
      ∀ k v, (k, v) ∈ l ↔ (SepDom.atKey itvLattice e k = v ∧ v.isTop = false) :=
  IEnv.bindings_spec he ne

/-- `is_top()` -/
theorem C19.env_is_top (e : IEnv) (he : EnvInv e) :
    e.isTop = true ↔ (e.isBot = false ∧ ∀ k, SepDom.atKey itvLattice e k = Itv.top) :=
  IEnv.isTop_iff he

/-- the inclusion test: the full statement -/
def C19.env_leq_iff_pointwise_Statement (fixedLeafLeaf : Bool) : Prop :=
  ∀ (pe : Tree Itv → Tree Itv → Bool), PtrSound pe → ∀ (a b : IEnv), EnvInv a → EnvInv b →
    (SepDom.leq fixedLeafLeaf (itvCtx pe) itvLattice a b = true ↔
      ∀ k, Itv.leq (SepDom.atKey itvLattice a k) (SepDom.atKey itvLattice b k) = true)

/-- it holds for the code after the fix commit of `tree::compare` ... -/
theorem C19.env_leq_iff_pointwise_fixed : C19.env_leq_iff_pointwise_Statement true :=
  fun _ hpe _ _ ha hb => IEnv.leq_fixed_at hpe ha hb

/-- ... which is the code of the current tree -/
theorem C19.env_leq_iff_pointwise : C19.env_leq_iff_pointwise_Statement Patricia.compareIsFixed :=
  C19.env_leq_iff_pointwise_fixed

/-- `operator==` of the current tree is equality of all `at` values up to the interval order -/
theorem C19.env_eq_iff_pointwise (pe : Tree Itv → Tree Itv → Bool) (hpe : PtrSound pe) (a b : IEnv)
    (ha : EnvInv a) (hb : EnvInv b) :
    SepDom.eq Patricia.compareIsFixed (itvCtx pe) itvLattice a b = true ↔
      ∀ k, Itv.leq (SepDom.atKey itvLattice a k) (SepDom.atKey itvLattice b k) = true ∧
           Itv.leq (SepDom.atKey itvLattice b k) (SepDom.atKey itvLattice a k) = true := by
  unfold SepDom.eq
  rw [Bool.and_eq_true, C19.env_leq_iff_pointwise pe hpe a b ha hb, C19.env_leq_iff_pointwise pe hpe b a hb ha]
  exact ⟨fun h k => ⟨h.1 k, h.2 k⟩, fun h => ⟨fun k => (h k).1, fun k => (h k).2⟩⟩

/-- the code before the fix: a pointwise inclusion was never missed ... -/
theorem C19.env_leq_before_fix_complete (pe : Tree Itv → Tree Itv → Bool) (hpe : PtrSound pe) (a b : IEnv)
    (ha : EnvInv a) (hb : EnvInv b)
    (h : ∀ k, Itv.leq (SepDom.atKey itvLattice a k) (SepDom.atKey itvLattice b k) = true) :
    SepDom.leq false (itvCtx pe) itvLattice a b = true :=
  IEnv.leq_complete_at false hpe ha hb h

/-- ... and a yes answer was right on every input on which it agrees with the repaired test -/
theorem C19.env_leq_before_fix_partial (pe : Tree Itv → Tree Itv → Bool) (hpe : PtrSound pe) (a b : IEnv)
    (ha : EnvInv a) (hb : EnvInv b)
    (hex : SepDom.leq false (itvCtx pe) itvLattice a b = SepDom.leq true (itvCtx pe) itvLattice a b) :
    SepDom.leq false (itvCtx pe) itvLattice a b = true ↔
      ∀ k, Itv.leq (SepDom.atKey itvLattice a k) (SepDom.atKey itvLattice b k) = true := by
  rw [hex]; exact IEnv.leq_fixed_at hpe ha hb

/-- defect #10 on intervals (code before the fix): `{1 -> [2,+oo]} <= {2 -> [-10,3]}` was answered
    yes, although `at 2` is top on the left and `[-10,3]` on the right -/
theorem C19.env_leq_before_fix_counterexample : ¬ C19.env_leq_iff_pointwise_Statement false := by
  intro h
  let a : IEnv := ⟨false, .leaf 1 ⟨.fin 2, .pinf⟩⟩
  let b : IEnv := ⟨false, .leaf 2 ⟨.fin (-10), .fin 3⟩⟩
  have ha : EnvInv a := ⟨⟨by decide, by decide, by decide, by simp [Itv.WF]⟩, fun h => by cases h⟩
  have hb : EnvInv b := ⟨⟨by decide, by decide, by decide, by simp [Itv.WF]⟩, fun h => by cases h⟩
  have h1 := h (fun _ _ => false) (fun _ _ h => by cases h) a b ha hb
  have h2 : SepDom.leq false (itvCtx fun _ _ => false) itvLattice a b = true := by
    simp [a, b, SepDom.leq, leqTree, Patricia.compare, compareLeaf, itvCtx, SepDom.domainPO, Tree.isLeaf]
  have h3 := h1.mp h2 2
  revert h3
  decide

/-- `join(k, v)` (weak update): the invariant "top is never stored" must be kept and, for a
    non-bottom `v` on a non-bottom environment, `at k` becomes `at k | v` and nothing else changes.
    Full statement (parametrised by the code version), repaired code, partial form, counterexample. -/
def C19.env_wjoin_Statement (fixedTop : Bool) : Prop :=
  ∀ (pe : Tree Itv → Tree Itv → Bool), PtrSound pe → ∀ (e : IEnv), EnvInv e → ∀ k, k < 2 ^ 64 →
    ∀ v : Itv, (v.isBottom = true ∨ v.WF) →
      EnvInv (SepDom.wjoin fixedTop (itvCtx pe) itvLattice e k v) ∧
      (e.isBot = false → v.isBottom = false →
        (SepDom.wjoin fixedTop (itvCtx pe) itvLattice e k v).isBot = false ∧
        ∀ k', SepDom.atKey itvLattice (SepDom.wjoin fixedTop (itvCtx pe) itvLattice e k v) k' =
          if k' = k then Itv.join (SepDom.atKey itvLattice e k) v else SepDom.atKey itvLattice e k')

/-- as coded, whenever the joined value is not top (the excluding hypothesis is decidable) -/
theorem C19.env_wjoin_partial (fixedTop : Bool) (pe : Tree Itv → Tree Itv → Bool) (hpe : PtrSound pe)
    (e : IEnv) (he : EnvInv e) (k : Nat) (hk : k < 2 ^ 64) (v : Itv) (hv : v.isBottom = true ∨ v.WF)
    (hnt : fixedTop = true ∨ ∀ old, e.tree.lookup k = some old → (Itv.join old v).isTop = false) :
    EnvInv (SepDom.wjoin fixedTop (itvCtx pe) itvLattice e k v) ∧
      (e.isBot = false → v.isBottom = false →
        (SepDom.wjoin fixedTop (itvCtx pe) itvLattice e k v).isBot = false ∧
        ∀ k', SepDom.atKey itvLattice (SepDom.wjoin fixedTop (itvCtx pe) itvLattice e k v) k' =
          if k' = k then Itv.join (SepDom.atKey itvLattice e k) v else SepDom.atKey itvLattice e k') := by
  have hcs := itvCtx_sound hpe
  cases ne : e.isBot
  · cases hvb : v.isBottom
    · have hw : v.WF := by
        rcases hv with h | h
        · rw [hvb] at h; cases h
        · exact h
      -- removal of the binding: the result of three of the branches
      have hrem : EnvInv ⟨false, remove (itvCtx pe) e.tree k⟩ ∧
          ∀ k', SepDom.atKey itvLattice (⟨false, remove (itvCtx pe) e.tree k⟩ : IEnv) k' =
            if k' = k then Itv.top else SepDom.atKey itvLattice e k' := by
        obtain ⟨w, l⟩ := remove_spec hcs hk he.1
        refine ⟨⟨w, fun h => by cases h⟩, fun k' => ?_⟩
        rw [IEnv.atKey_eq, IEnv.atKey_eq, ne, l]
        by_cases e1 : k' = k <;> simp [e1]
      cases hvt : v.isTop
      · cases hl : e.tree.lookup k with
        | none =>
          have e0 : SepDom.wjoin fixedTop (itvCtx pe) itvLattice e k v = ⟨false, remove (itvCtx pe) e.tree k⟩ := by
            unfold SepDom.wjoin
            simp [ne, hl, show itvLattice.isBottom v = false from hvb, show itvLattice.isTop v = false from hvt]
          rw [e0]
          refine ⟨hrem.1, fun _ _ => ⟨rfl, fun k' => ?_⟩⟩
          rw [hrem.2]
          by_cases e1 : k' = k
          · subst e1
            simp only [if_true]
            rw [IEnv.atKey_eq, ne, hl]
            exact (Itv.join_top_left hvb).symm
          · simp [e1]
        | some old =>
          have ho := he.1.val_of_lookup hl
          have hs : StoredItv v := ⟨hvt, hvb, hw⟩
          have hat : SepDom.atKey itvLattice e k = old := by rw [IEnv.atKey_eq, ne, hl]; rfl
          by_cases hjt : (Itv.join old v).isTop = true
          · -- the joined value is top
            have hfx : fixedTop = true := by
              rcases hnt with h | h
              · exact h
              · rw [h old hl] at hjt; cases hjt
            have e0 : SepDom.wjoin fixedTop (itvCtx pe) itvLattice e k v = ⟨false, remove (itvCtx pe) e.tree k⟩ := by
              unfold SepDom.wjoin
              simp [ne, hl, hfx, show itvLattice.isBottom v = false from hvb, show itvLattice.isTop v = false from hvt,
                show itvLattice.isTop (itvLattice.join old v) = true from hjt]
            rw [e0]
            refine ⟨hrem.1, fun _ _ => ⟨rfl, fun k' => ?_⟩⟩
            rw [hrem.2, hat]
            by_cases e1 : k' = k
            · simp only [e1, if_true]
              exact (Itv.eq_top_of_isTop hjt (IEnv.join_wf ho hs)).symm
            · simp [e1]
          · have hjf : (Itv.join old v).isTop = false := by simpa using hjt
            have e0 : SepDom.wjoin fixedTop (itvCtx pe) itvLattice e k v =
                ⟨false, insertKV (itvCtx pe) e.tree k (Itv.join old v)⟩ := by
              unfold SepDom.wjoin
              simp [ne, hl, show itvLattice.isBottom v = false from hvb, show itvLattice.isTop v = false from hvt,
                show itvLattice.isTop (itvLattice.join old v) = false from hjf]
              rfl
            rw [e0]
            obtain ⟨w, l⟩ := insertKV_spec hcs he.1 hk (Itv.join_pres ho hs hjf)
            refine ⟨⟨w, fun h => by cases h⟩, fun _ _ => ⟨rfl, fun k' => ?_⟩⟩
            rw [hat, IEnv.atKey_eq, l]
            by_cases e1 : k' = k
            · simp [e1]
            · simp only [e1, if_false]
              rw [IEnv.atKey_eq, ne]
      · have e0 : SepDom.wjoin fixedTop (itvCtx pe) itvLattice e k v = ⟨false, remove (itvCtx pe) e.tree k⟩ := by
          unfold SepDom.wjoin
          simp [ne, show itvLattice.isBottom v = false from hvb, show itvLattice.isTop v = true from hvt]
        rw [e0]
        refine ⟨hrem.1, fun _ _ => ⟨rfl, fun k' => ?_⟩⟩
        rw [hrem.2]
        by_cases e1 : k' = k
        · subst e1
          simp only [if_true]
          rw [Itv.eq_top_of_isTop hvt hw]
          exact (Itv.join_top_right (IEnv.atKey_not_bottom he ne k')).symm
        · simp [e1]
    · have e0 : SepDom.wjoin fixedTop (itvCtx pe) itvLattice e k v = SepDom.bottom := by
        unfold SepDom.wjoin
        simp [ne, show itvLattice.isBottom v = true from hvb]
      rw [e0]
      exact ⟨SepDom.inv_bottom, fun _ h => by cases h⟩
  · have e0 : SepDom.wjoin fixedTop (itvCtx pe) itvLattice e k v = e := by
      unfold SepDom.wjoin; simp [ne]
    rw [e0]
    exact ⟨he, fun h => by cases h⟩

/-- the repaired `join(k, v)` satisfies the statement -/
theorem C19.env_wjoin_fixed : C19.env_wjoin_Statement true :=
  fun pe hpe e he k hk v hv => C19.env_wjoin_partial true pe hpe e he k hk v hv (Or.inl rfl)

/-- the code as it is does not: `{7 -> [-oo,0]}.join(7, [0,+oo])` stores `7 -> [-oo,+oo]` -/
theorem C19.env_wjoin_counterexample : ¬ C19.env_wjoin_Statement false := by
  intro h
  let e : IEnv := ⟨false, .leaf 7 ⟨.ninf, .fin 0⟩⟩
  have he : EnvInv e := ⟨⟨by decide, by decide, by decide, by simp [Itv.WF]⟩, fun h => by cases h⟩
  have h1 := (h (fun _ _ => false) (fun _ _ h => by cases h) e he 7 (by decide) ⟨.fin 0, .pinf⟩
    (Or.inr (by simp [Itv.WF]))).1
  have h2 : (SepDom.wjoin false (itvCtx fun _ _ => false) itvLattice e 7 ⟨.fin 0, .pinf⟩).tree =
      .leaf 7 ⟨.ninf, .pinf⟩ := by decide
  have h3 := h1.1
  rw [h2] at h3
  exact absurd h3.2.1 (by decide)

/-! ## sets: `patricia_tree_set`, `discrete_domain`

`PSet.Inv s`: well-formed tree whose stored values are all `true`.  `PSet.ctx pe` are the oracles. -/

theorem C19.set_inv_empty : PSet.Inv PSet.empty := PSet.inv_empty

/-- `+=`, `-=`, `|`, `&` and membership -/
theorem C19.set_add (pe : PSet.T → PSet.T → Bool) (hpe : ∀ a b, pe a b = true → a = b) (s : PSet.T)
    (hs : PSet.Inv s) (k : Nat) (hk : k < 2 ^ 64) :
    PSet.Inv (PSet.add (PSet.ctx pe) s k) ∧
      ∀ k', PSet.member (PSet.add (PSet.ctx pe) s k) k' = (decide (k' = k) || PSet.member s k') :=
  PSet.add_spec (PSet.ctx_sound pe hpe) hs hk
theorem C19.set_remove (pe : PSet.T → PSet.T → Bool) (hpe : ∀ a b, pe a b = true → a = b) (s : PSet.T)
    (hs : PSet.Inv s) (k : Nat) (hk : k < 2 ^ 64) :
    PSet.Inv (PSet.remove (PSet.ctx pe) s k) ∧
      ∀ k', PSet.member (PSet.remove (PSet.ctx pe) s k) k' = (!decide (k' = k) && PSet.member s k') :=
  PSet.remove_spec' (PSet.ctx_sound pe hpe) hs hk
theorem C19.set_union (pe : PSet.T → PSet.T → Bool) (hpe : ∀ a b, pe a b = true → a = b) (a b : PSet.T)
    (ha : PSet.Inv a) (hb : PSet.Inv b) :
    PSet.Inv (PSet.union (PSet.ctx pe) a b) ∧
      ∀ k, PSet.member (PSet.union (PSet.ctx pe) a b) k = (PSet.member a k || PSet.member b k) :=
  PSet.union_spec (PSet.ctx_sound pe hpe) ha hb
theorem C19.set_inter (pe : PSet.T → PSet.T → Bool) (hpe : ∀ a b, pe a b = true → a = b) (a b : PSet.T)
    (ha : PSet.Inv a) (hb : PSet.Inv b) :
    PSet.Inv (PSet.inter (PSet.ctx pe) a b) ∧
      ∀ k, PSet.member (PSet.inter (PSet.ctx pe) a b) k = (PSet.member a k && PSet.member b k) :=
  PSet.inter_spec (PSet.ctx_sound pe hpe) ha hb

/-- `<=` and `==` of the code as it is are exact on sets (the leaf/leaf defect of `compare` is
    unreachable when the default is the bottom of the order) -/
theorem C19.set_subset_iff (fixedLeafLeaf : Bool) (pe : PSet.T → PSet.T → Bool)
    (hpe : ∀ a b, pe a b = true → a = b) (a b : PSet.T) (ha : PSet.Inv a) (hb : PSet.Inv b) :
    PSet.subset fixedLeafLeaf (PSet.ctx pe) a b = true ↔ ∀ k, PSet.member a k = true → PSet.member b k = true :=
  PSet.subset_spec fixedLeafLeaf (PSet.ctx_sound pe hpe) ha hb
theorem C19.set_eq_iff (fixedLeafLeaf : Bool) (pe : PSet.T → PSet.T → Bool)
    (hpe : ∀ a b, pe a b = true → a = b) (a b : PSet.T) (ha : PSet.Inv a) (hb : PSet.Inv b) :
    PSet.eq fixedLeafLeaf (PSet.ctx pe) a b = true ↔ ∀ k, PSet.member a k = PSet.member b k :=
  PSet.eq_spec fixedLeafLeaf (PSet.ctx_sound pe hpe) ha hb

/-- iteration, `size()`, `empty()` -/
theorem C19.set_elems (s : PSet.T) (hs : PSet.Inv s) :
    (PSet.elems s).Pairwise (· < ·) ∧ (PSet.elems s).Nodup ∧
      (∀ k, k ∈ PSet.elems s ↔ PSet.member s k = true) ∧ (PSet.elems s).length = PSet.size s :=
  PSet.elems_spec hs
theorem C19.set_isEmpty (s : PSet.T) (hs : PSet.Inv s) :
    PSet.isEmpty s = true ↔ ∀ k, PSet.member s k = false := PSet.isEmpty_iff hs

/-- `discrete_domain`: `|`, `&`, `<=` through `contain` (`DD.Inv`: well-formed element set, empty
    when the top flag is set) -/
theorem C19.dd_join (pe : PSet.T → PSet.T → Bool) (hpe : ∀ a b, pe a b = true → a = b) (a b : DD)
    (ha : DD.Inv a) (hb : DD.Inv b) :
    DD.Inv (DD.join (PSet.ctx pe) a b) ∧
      ∀ k, (DD.join (PSet.ctx pe) a b).contain k = (a.contain k || b.contain k) :=
  DD.join_spec (PSet.ctx_sound pe hpe) ha hb
theorem C19.dd_meet (pe : PSet.T → PSet.T → Bool) (hpe : ∀ a b, pe a b = true → a = b) (a b : DD)
    (ha : DD.Inv a) (hb : DD.Inv b) :
    DD.Inv (DD.meet (PSet.ctx pe) a b) ∧
      ∀ k, (DD.meet (PSet.ctx pe) a b).contain k = (a.contain k && b.contain k) :=
  DD.meet_spec (PSet.ctx_sound pe hpe) ha hb
theorem C19.dd_leq_iff (fixedLeafLeaf : Bool) (pe : PSet.T → PSet.T → Bool)
    (hpe : ∀ a b, pe a b = true → a = b) (a b : DD) (ha : DD.Inv a) (hb : DD.Inv b) :
    DD.leq fixedLeafLeaf (PSet.ctx pe) a b = true ↔ ∀ k, a.contain k = true → b.contain k = true :=
  DD.leq_spec fixedLeafLeaf (PSet.ctx_sound pe hpe) ha hb

/-- `discrete_domain::operator==`: the full statement (parametrised by the code version), the
    repaired code, the partial form for the code as it is, the counterexample `top == {}` -/
def C19.dd_eq_Statement (fixedTop : Bool) : Prop :=
  ∀ (pe : PSet.T → PSet.T → Bool), (∀ a b, pe a b = true → a = b) → ∀ (a b : DD),
    PSet.Inv a.set → PSet.Inv b.set →
    (DD.eq fixedTop false (PSet.ctx pe) a b = true ↔
      (a.isTop = b.isTop ∧ (a.isTop = false → ∀ k, PSet.member a.set k = PSet.member b.set k)))

theorem C19.dd_eq_fixed : C19.dd_eq_Statement true := by
  intro pe hpe a b ha hb
  unfold DD.eq
  simp only [if_true]
  rw [Bool.or_eq_true, Bool.and_eq_true, Bool.and_eq_true, Bool.and_eq_true,
    PSet.eq_spec false (PSet.ctx_sound pe hpe) ha hb]
  cases hat : a.isTop <;> cases hbt : b.isTop <;> simp

theorem C19.dd_eq_partial (pe : PSet.T → PSet.T → Bool) (hpe : ∀ a b, pe a b = true → a = b) (a b : DD)
    (ha : PSet.Inv a.set) (hb : PSet.Inv b.set) (hsame : a.isTop = b.isTop) :
    DD.eq false false (PSet.ctx pe) a b = true ↔
      (a.isTop = false → ∀ k, PSet.member a.set k = PSet.member b.set k) := by
  unfold DD.eq
  simp only [Bool.false_eq_true, if_false]
  rw [Bool.or_eq_true, PSet.eq_spec false (PSet.ctx_sound pe hpe) ha hb]
  cases hat : a.isTop
  · rw [hat] at hsame
    simp [← hsame]
  · rw [hat] at hsame
    simp [← hsame]

theorem C19.dd_eq_counterexample : ¬ C19.dd_eq_Statement false := by
  intro h
  have h1 := h (fun _ _ => false) (fun _ _ h => by cases h) DD.top DD.bottom trivial trivial
  have h2 : DD.eq false false (PSet.ctx fun _ _ => false) DD.top DD.bottom = true := by
    simp [DD.eq, DD.top, DD.bottom, PSet.eq, PSet.subset, leqTree, Patricia.compare]
  have h3 := (h1.mp h2).1
  revert h3; decide

/-- `discrete_domain::operator+=(e)`, `operator-=(e)` and the set difference `operator-(Range)`:
    the result is well formed and `contain` answers pointwise.  A top value is returned unchanged
    by `-=` and `-` (the code cannot represent co-finite sets; the theorems say so explicitly rather
    than hiding it), and `a - top` for a non-top `a` is the CRAB_ERROR of iterating a top set. -/
theorem C19.dd_add (pe : PSet.T → PSet.T → Bool) (hpe : ∀ a b, pe a b = true → a = b) (a : DD)
    (ha : DD.Inv a) (k : Nat) (hk : k < 2 ^ 64) :
    DD.Inv (DD.add (PSet.ctx pe) a k) ∧
      ∀ k', (DD.add (PSet.ctx pe) a k).contain k' = (decide (k' = k) || a.contain k') :=
  DD.add_spec (PSet.ctx_sound pe hpe) ha hk
theorem C19.dd_remove (pe : PSet.T → PSet.T → Bool) (hpe : ∀ a b, pe a b = true → a = b) (a : DD)
    (ha : DD.Inv a) (k : Nat) (hk : k < 2 ^ 64) :
    DD.Inv (DD.remove (PSet.ctx pe) a k) ∧
      (a.isTop = false → ∀ k', (DD.remove (PSet.ctx pe) a k).contain k' = (!decide (k' = k) && a.contain k')) ∧
      (a.isTop = true → DD.remove (PSet.ctx pe) a k = a) :=
  DD.remove_spec (PSet.ctx_sound pe hpe) ha hk
theorem C19.dd_diff (pe : PSet.T → PSet.T → Bool) (hpe : ∀ a b, pe a b = true → a = b) (a b : DD)
    (ha : DD.Inv a) (hb : DD.Inv b) (hbt : b.isTop = false) :
    ∃ r, DD.diff (PSet.ctx pe) a b = some r ∧ DD.Inv r ∧
      (a.isTop = false → ∀ k, r.contain k = (a.contain k && !b.contain k)) ∧
      (a.isTop = true → r = a) :=
  DD.diff_spec (PSet.ctx_sound pe hpe) ha hb hbt
theorem C19.dd_diff_top_error (pe : PSet.T → PSet.T → Bool) (a b : DD)
    (hat : a.isTop = false) (hbt : b.isTop = true) : DD.diff (PSet.ctx pe) a b = none :=
  DD.diff_top_error (PSet.ctx pe) hat hbt
/-- the hypotheses of `dd_diff` are met by non-trivial values: {3, 5, 2^63} - {5} -/
example :
    let c := PSet.ctx (fun _ _ => false)
    let a : DD := ⟨false, PSet.add c (PSet.add c (PSet.add c PSet.empty 3) 5) (2 ^ 63)⟩
    let b : DD := ⟨false, PSet.add c PSet.empty 5⟩
    (DD.diff c a b).map (fun r => (r.contain 3, r.contain 5, r.contain (2 ^ 63))) = some (true, false, true) := by
  decide

/-- `discrete_domain::rename(from, to)`: on a value that is neither top nor bottom the result is the
    left fold, pair by pair, of "if `from_i` is an element, replace it by `to_i`" on the element
    predicate (`DD.renameStepSpec`); top and bottom are returned unchanged. -/
theorem C19.dd_rename (pe : PSet.T → PSet.T → Bool) (hpe : ∀ a b, pe a b = true → a = b) (a : DD)
    (ha : DD.Inv a) (hat : a.isTop = false) (hab : a.isBottom = false) (frm to : List Nat)
    (hlen : frm.length = to.length) (hf : ∀ k ∈ frm, k < 2 ^ 64) (ht : ∀ k ∈ to, k < 2 ^ 64) :
    ∃ r, DD.rename (PSet.ctx pe) a frm to = some r ∧ DD.Inv r ∧ r.isTop = false ∧
      ∀ k, r.contain k = ((frm.zip to).foldl DD.renameStepSpec a.contain) k :=
  DD.rename_spec (PSet.ctx_sound pe hpe) ha hat hab frm to hlen hf ht
theorem C19.dd_rename_top_bottom (pe : PSet.T → PSet.T → Bool) (a : DD)
    (h : a.isTop = true ∨ a.isBottom = true) (frm to : List Nat) :
    DD.rename (PSet.ctx pe) a frm to = some a :=
  DD.rename_top_bottom (PSet.ctx pe) h frm to
/-- one pair, the readable instance: renaming an element `f` to `t ≠ f` -/
theorem C19.dd_rename_one (pe : PSet.T → PSet.T → Bool) (hpe : ∀ a b, pe a b = true → a = b) (a : DD)
    (ha : DD.Inv a) (hat : a.isTop = false) (f t : Nat) (hf : f < 2 ^ 64) (ht : t < 2 ^ 64)
    (hne : f ≠ t) (hin : a.contain f = true) :
    ∃ r, DD.rename (PSet.ctx pe) a [f] [t] = some r ∧ DD.Inv r ∧
      ∀ k, r.contain k = (decide (k = t) || (!decide (k = f) && a.contain k)) := by
  have hab : a.isBottom = false := by
    cases h : a.isBottom
    · rfl
    · simp [DD.contain, h] at hin
  obtain ⟨r, h1, h2, _, h4⟩ := C19.dd_rename pe hpe a ha hat hab [f] [t] rfl
    (by simpa using hf) (by simpa using ht)
  refine ⟨r, h1, h2, fun k => ?_⟩
  rw [h4]
  simp only [List.zip_cons_cons, List.zip_nil_right, List.foldl, DD.renameStepSpec, if_neg hne, hin, if_true]
  by_cases e1 : k = t
  · simp [e1]
  · by_cases e2 : k = f <;> simp [e1, e2]
example :
    let c := PSet.ctx (fun _ _ => false)
    let a : DD := ⟨false, PSet.add c (PSet.add c PSet.empty 3) (2 ^ 63)⟩
    (DD.rename c a [3] [7]).map (fun r => (r.contain 3, r.contain 7, r.contain (2 ^ 63))) = some (false, true, true) := by
  decide

/-- `discrete_domain`: iteration and `size()` list exactly the elements once, in index order (and are
    the CRAB_ERROR of the code on top); `is_bottom()` is exact; a top value contains every element -/
theorem C19.dd_elems (a : DD) (ha : DD.Inv a) (hat : a.isTop = false) :
    ∃ l, a.elems = some l ∧ l.Pairwise (· < ·) ∧ l.Nodup ∧ (∀ k, k ∈ l ↔ a.contain k = true) ∧
      a.size = some l.length := DD.elems_spec ha hat
theorem C19.dd_elems_top_error (a : DD) (hat : a.isTop = true) : a.elems = none ∧ a.size = none :=
  DD.elems_top hat
theorem C19.dd_isBottom_iff (a : DD) (ha : DD.Inv a) : a.isBottom = true ↔ ∀ k, a.contain k = false :=
  DD.isBottom_iff ha
theorem C19.dd_isTop_contains_all (a : DD) (ha : DD.Inv a) (h : a.isTop = true) (k : Nat) :
    a.contain k = true := DD.isTop_iff ha h k
