import CrabProofs.Lemmas.InterRename

/-!
  C10 — summary-based analysis: instantiation of a bottom-up summary at a call site
  (`bu_summ_abs_transformer::reuse_summary`, model `instantiate`).
-/
open Crab Crab.Inter

/-- Renaming lemma of the bottom-up instantiation.  `sum` is a summary over the formals
    `ins ++ outs` (it does not constrain other variables), `rin ++ rout` are its internal names
    (fresh: distinct, not used by the call site nor by the declaration, unconstrained in the
    caller's value).  If the caller's state `σ` is in the caller's value, `ρ ∈ γ sum` relates the
    input values `σ(args)` to the output values and `σ'` is `σ` with `lhs := outputs`, then `σ'` is in
    the value computed by `reuse_summary`. -/
theorem C10.summary_instantiate_sound (D : AbsDom) (hren : D.RenameSound)
    (ins outs rin rout lhs args : List Var) (caller sum : D.A) (σ ρ σ' : St)
    (hl_in : ins.length = rin.length) (hl_out : outs.length = rout.length)
    (hl_args : rin.length = args.length) (hl_lhs : lhs.length = rout.length)
    (hnd : (rin ++ rout).Nodup) (hlhs : lhs.Nodup)
    (hfresh : ∀ v, v ∈ rin ++ rout → v ∉ args ∧ v ∉ lhs ∧ v ∉ ins ++ outs)
    (hfree : ∀ σ1 σ2, D.γ caller σ1 → (∀ v, v ∉ rin ++ rout → σ2 v = σ1 v) → D.γ caller σ2)
    (hsupp : ∀ ρ1 ρ2, D.γ sum ρ1 → (∀ v, v ∈ ins ++ outs → ρ2 v = ρ1 v) → D.γ sum ρ2)
    (hσ : D.γ caller σ) (hρ : D.γ sum ρ)
    (hin : AllPairs (fun f a => ρ f = σ a) ins args)
    (hout : AllPairs (fun l o => σ' l = ρ o) lhs outs)
    (hfr : ∀ v, v ∉ lhs → σ' v = σ v) :
    D.γ (instantiate D ins outs rin rout lhs args caller sum) σ' := by
  let old : Var → Var := assocLookup (rin ++ rout) (ins ++ outs)
  let σ2 : St := fun v => if v ∈ rin ++ rout then ρ (old v) else σ v
  have hpairs : AllPairs (fun x k => old k = x) (ins ++ outs) (rin ++ rout) := assocLookup_pairs _ _ hnd
  have hp_in : AllPairs (fun x k => old k = x) ins rin := AllPairs.of_append_left hl_in hpairs
  have hp_out : AllPairs (fun x k => old k = x) outs rout := AllPairs.of_append_right hl_in hpairs
  have hrin_nd : rin.Nodup := (List.nodup_append.mp hnd).1
  -- (a) the caller's value after `rin := args`
  let σh : St := fun v => if v ∈ rout then σ2 v else σ v
  have hσh : D.γ caller σh := hfree σ σh hσ (by
    intro v hv
    have : v ∉ rout := fun e => hv (List.mem_append.mpr (Or.inr e))
    simp only [σh, this, if_false])
  have hseq : SeqOK rin args :=
    SeqOK.of_disjoint rin args (fun x hx => (hfresh x (List.mem_append.mpr (Or.inl hx))).1)
  have heq : seqAssign σh rin args = σ2 := by
    funext v
    by_cases hv : v ∈ rin
    · have hP : AllPairs (fun l r => r ∈ args ∧ seqAssign σh rin args l = σh r) rin args :=
        AllPairs.imp_mem (seqAssign_pairs rin args σh hrin_nd hseq) (fun _ _ _ hy hp => ⟨hy, hp⟩)
      have hR : AllPairs (fun l o => l ∈ rin ∧ old l = o) rin ins :=
        AllPairs.imp_mem (AllPairs.swap hp_in) (fun _ _ hx _ hp => ⟨hx, hp⟩)
      refine AllPairs.three (S := fun l => seqAssign σh rin args l = σ2 l) hl_args (hl_in.symm)
        hP hin hR ?_ v hv
      intro l r o hp hq hr
      have hl : l ∈ rin ++ rout := List.mem_append.mpr (Or.inl hr.1)
      have hr' : r ∉ rout := fun e => (hfresh r (List.mem_append.mpr (Or.inr e))).1 hp.1
      show seqAssign σh rin args l = σ2 l
      rw [hp.2]
      simp only [σh, hr', if_false, σ2, hl, if_true]
      rw [hr.2, hq]
    · rw [seqAssign_other rin args σh v hv]
      by_cases hvo : v ∈ rout
      · simp only [σh, hvo, if_true]
      · have : v ∉ rin ++ rout := fun e => (List.mem_append.mp e).elim hv hvo
        simp only [σh, hvo, if_false, σ2, this]
  have h1 : D.γ (unifySeq D caller rin args) σ2 := by
    have := unifySeq_sound D rin args caller σh hσh
    rwa [heq] at this
  -- (b) the renamed summary
  let ρ2 : St := fun v => if v ∈ ins ++ outs then ρ v else σ2 v
  have hρ2 : D.γ sum ρ2 := hsupp ρ ρ2 hρ (by intro v hv; simp only [ρ2, hv, if_true])
  have hrs : D.γ (D.rename sum (ins ++ outs) (rin ++ rout)) σ2 := by
    apply hren sum ρ2 σ2 _ _ hρ2
    · refine AllPairs.imp_mem hpairs ?_
      intro x y hx hy hp
      show σ2 y = ρ2 x
      simp only [σ2, ρ2, hx, hy, if_true]
      rw [hp]
    · intro v hv1 _
      show σ2 v = ρ2 v
      simp only [ρ2, hv1, if_false]
  -- (c) lhs := rout
  have hseq2 : SeqOK lhs rout :=
    SeqOK.of_disjoint lhs rout (fun x hx hr => (hfresh x (List.mem_append.mpr (Or.inr hr))).2.1 hx)
  have h3 := assignSeq_sound D lhs rout _ σ2 (D.meet_sound h1 hrs)
  -- (d) forget the internal names
  unfold instantiate
  apply D.forget_sound _ h3
  intro v hv
  have hvf : v ∉ rin ++ rout := by
    intro hm
    apply hv
    have hfr' := hfresh v hm
    have hc : (args ++ lhs).contains v = false := by
      cases hcv : (args ++ lhs).contains v with
      | false => rfl
      | true =>
        exfalso
        rcases List.mem_append.mp (List.contains_iff_mem.mp hcv) with h | h
        · exact hfr'.1 h
        · exact hfr'.2.1 h
    simp only [List.mem_filter, hm, hc, Bool.not_false, and_self]
  by_cases hvl : v ∈ lhs
  · have hP : AllPairs (fun l r => r ∈ rout ∧ seqAssign σ2 lhs rout l = σ2 r) lhs rout :=
      AllPairs.imp_mem (seqAssign_pairs lhs rout σ2 hlhs hseq2) (fun _ _ _ hy hp => ⟨hy, hp⟩)
    refine AllPairs.three (S := fun l => σ' l = seqAssign σ2 lhs rout l) hl_lhs (by omega)
      hP hp_out hout ?_ v hvl
    intro l r o hp hq hr
    have hrm : r ∈ rin ++ rout := List.mem_append.mpr (Or.inr hp.1)
    show σ' l = seqAssign σ2 lhs rout l
    rw [hp.2, hr]
    simp only [σ2, hrm, if_true]
    rw [hq]
  · rw [seqAssign_other lhs rout σ2 v hvl]
    simp only [σ2, hvf, if_false]
    exact hfr v hvl

/-- non-vacuity of the freshness hypotheses: `f(v0) -> v1` with internal names `v7, v8`, call site
    `v3 := f(v2)` -/
example : ([7] ++ [8] : List Var).Nodup ∧
    (∀ v, v ∈ ([7] ++ [8] : List Var) → v ∉ ([2] : List Var) ∧ v ∉ ([3] : List Var) ∧ v ∉ ([0] ++ [1] : List Var)) := by
  refine ⟨by decide, ?_⟩
  intro v hv
  simp only [List.cons_append, List.nil_append, List.mem_cons, List.mem_nil_iff, or_false] at hv
  rcases hv with rfl | rfl <;> decide
