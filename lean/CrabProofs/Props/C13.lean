import CrabProofs.Lemmas.WrapInt

/-!
# C13 (part 1) — fixed-width integers follow arithmetic modulo 2^w

Property theorems only (helper lemmas: `CrabProofs/Lemmas/WrapInt.lean`).
`Crab.WrapInt` is the branch-by-branch model of `crab::wrapint` (uint64 arithmetic written out,
`% 2^w` exactly where the code reduces).  `ofBV x` is the wrapint of width `w` holding
`x : BitVec w`; the values `ofBV x` are exactly the reduced wrapints (`C13.reduced_iff_bitvec`),
so "for all reduced operands of width `w`" is "for all `x y : BitVec w`".

Every statement quantifies over all widths `1 ≤ w ≤ 64` and all operands.  Each says that the
model operation returns `some (ofBV (<BitVec operation>))`; since `ofBV _` is reduced, each also
says that the result is reduced.  `none` is CRAB_ERROR or C++ undefined behaviour.

State of the code: after the fixes to ashr, sdiv by -1, keep_lower(63) / sext(0) and to the
shifts by the bitwidth or more, every operation is an equality with `BitVec` for ALL operands
(shift amounts included: `<<` / `lshr` give 0 and `ashr` the sign fill when the amount is the
width or more, which is what `BitVec` does).  What remains is CRAB_ERROR, never a wrong value:
* construction from a big integer outside int64 (documented limit, `C13.ofZ_refuses`);
* division / remainder by zero, width 0 or > 64, widening beyond 64 bits, `keep_lower(0)`,
  operands of different widths.
-/
open Crab Crab.WrapInt

/-- the reduced wrapints of width `w` are exactly the images of `BitVec w` -/
theorem C13.reduced_iff_bitvec (a : WrapInt) : a.Reduced ↔ ∃ x : BitVec a.width, a = ofBV x :=
  reduced_iff_ofBV a
theorem C13.bitvec_wf (w : Nat) (h1 : 1 ≤ w) (hw : w ≤ 64) (x : BitVec w) :
    (ofBV x).WF ∧ (ofBV x).Reduced := ⟨ofBV_wf h1 hw x, ofBV_reduced x⟩

/-! ## construction and conversions -/

/-- `wrapint(uint64_t n, w)` is `n mod 2^w` -/
theorem C13.mk_eq_bitvec (w : Nat) (h1 : 1 ≤ w) (hw : w ≤ 64) (n : Nat) (hn : n < 2 ^ 64) :
    mk? n w = some (ofBV (BitVec.ofNat w n)) := mk?_eq h1 hw n hn
/-- widths 0 and > 64 are refused (CRAB_ERROR) -/
theorem C13.mk_bad_width (w n : Nat) (h : w = 0 ∨ 64 < w) : mk? n w = none := by
  rcases h with h | h
  · subst h; rfl
  · have : ¬ w ≤ 64 := by omega
    simp [mk?, widthOk, this]
/-- `wrapint(z_number z, w)` is `z mod 2^w` (two's complement) for every `z` that fits an int64 … -/
theorem C13.ofZ_eq_bitvec (w : Nat) (h1 : 1 ≤ w) (hw : w ≤ 64) (z : Int)
    (hz : -(2:Int) ^ 63 ≤ z ∧ z ≤ 2 ^ 63 - 1) :
    ofZ? z w = some (ofBV (BitVec.ofInt w z)) := ofZ?_eq h1 hw z ((fitsInt64_iff z).mpr hz)
/-- … and CRAB_ERROR for every other `z` (documented limit, `fits_wrapint`) -/
theorem C13.ofZ_refuses (w : Nat) (z : Int) (hz : ¬ (-(2:Int) ^ 63 ≤ z ∧ z ≤ 2 ^ 63 - 1)) :
    ofZ? z w = none := by
  have : ZNum.fitsInt64 z = false := by
    rw [← Bool.not_eq_true, fitsInt64_iff]; exact hz
  unfold ofZ?; rw [this]; split <;> rfl
theorem C13.fits_wrapint_spec (w : Nat) (z : Int) :
    fitsWrapint z w = true ↔ (w ≤ 64 ∧ -(2:Int) ^ 63 ≤ z ∧ z ≤ 2 ^ 63 - 1) := by
  unfold fitsWrapint
  split
  · next h => constructor
              · intro h'; cases h'
              · intro h'; omega
  · next h => rw [fitsInt64_iff]; constructor
              · intro h'; exact ⟨by omega, h'⟩
              · intro h'; exact h'.2
/-- `get_unsigned_bignum` / `get_signed_bignum` are `toNat` / `toInt` -/
theorem C13.toNat_eq_bitvec (w : Nat) (x : BitVec w) : toUnsigned (ofBV x) = (x.toNat : Int) := rfl
theorem C13.toInt_eq_bitvec (w : Nat) (h1 : 1 ≤ w) (hw : w ≤ 64) (x : BitVec w) :
    toSigned (ofBV x) = some x.toInt := toSigned_ofBV h1 hw x
/-- conversion round trip: integer → wrapint → signed integer is reduction into [-2^(w-1), 2^(w-1)) -/
theorem C13.ofZ_toInt_roundtrip (w : Nat) (h1 : 1 ≤ w) (hw : w ≤ 64) (z : Int)
    (hz : -(2:Int) ^ 63 ≤ z ∧ z ≤ 2 ^ 63 - 1) :
    (ofZ? z w).bind toSigned = some (z.bmod (2 ^ w)) := by
  rw [C13.ofZ_eq_bitvec w h1 hw z hz]
  simp only [Option.bind_some]
  rw [toSigned_ofBV h1 hw, BitVec.toInt_ofInt]
theorem C13.msb_eq_bitvec (w : Nat) (h1 : 1 ≤ w) (hw : w ≤ 64) (x : BitVec w) :
    msb (ofBV x) = x.msb := msb_ofBV h1 hw x
theorem C13.isZero_eq_bitvec (w : Nat) (x : BitVec w) : isZero (ofBV x) = (x == 0) := isZero_ofBV x
/-- `get_signed_max/min`, `get_unsigned_max/min` -/
theorem C13.static_values (w : Nat) (h1 : 1 ≤ w) (hw : w ≤ 64) :
    signedMax? w = some (ofBV (BitVec.intMax w)) ∧ signedMin? w = some (ofBV (BitVec.intMin w)) ∧
    unsignedMax? w = some (ofBV (BitVec.allOnes w)) ∧ unsignedMin? w = some (ofBV (0 : BitVec w)) :=
  ⟨signedMax?_eq h1 hw, signedMin?_eq h1 hw, unsignedMax?_eq h1 hw, unsignedMin?_eq h1 hw⟩

/-! ## ring operations -/

theorem C13.add_eq_bitvec (w : Nat) (hw : w ≤ 64) (x y : BitVec w) :
    add (ofBV x) (ofBV y) = some (ofBV (x + y)) := add_ofBV hw x y
theorem C13.sub_eq_bitvec (w : Nat) (hw : w ≤ 64) (x y : BitVec w) :
    sub (ofBV x) (ofBV y) = some (ofBV (x - y)) := sub_ofBV hw x y
theorem C13.mul_eq_bitvec (w : Nat) (hw : w ≤ 64) (x y : BitVec w) :
    mul (ofBV x) (ofBV y) = some (ofBV (x * y)) := mul_ofBV hw x y
theorem C13.neg_eq_bitvec (w : Nat) (hw : w ≤ 64) (x : BitVec w) :
    neg (ofBV x) = ofBV (-x) := neg_ofBV hw x
/-- `+=`, `-=`, `*=`, `++`, `--` -/
theorem C13.assign_ops_eq_bitvec (w : Nat) (h1 : 1 ≤ w) (hw : w ≤ 64) (x y : BitVec w) :
    addAssign (ofBV x) (ofBV y) = some (ofBV (x + y)) ∧
    subAssign (ofBV x) (ofBV y) = some (ofBV (x - y)) ∧
    mulAssign (ofBV x) (ofBV y) = some (ofBV (x * y)) ∧
    inc (ofBV x) = ofBV (x + 1) ∧ dec (ofBV x) = ofBV (x - 1) :=
  ⟨addAssign_eq_add hw x y, subAssign_eq_sub hw x y, mulAssign_eq_mul hw x y, inc_ofBV hw x,
   dec_ofBV h1 hw x⟩
/-- operands of different widths are refused (CRAB_ERROR) -/
theorem C13.width_mismatch_is_error (a b : WrapInt) (h : a.width ≠ b.width) :
    add a b = none ∧ sub a b = none ∧ mul a b = none ∧ udiv a b = none ∧ urem a b = none ∧
    sdiv a b = none ∧ srem a b = none ∧ WrapInt.and a b = none ∧ WrapInt.or a b = none ∧
    WrapInt.xor a b = none ∧ shl a b = none ∧ lshr a b = none ∧ ashr a b = none ∧
    lt? a b = none ∧ le? a b = none ∧ eq? a b = none := by
  simp [add, sub, mul, udiv, urem, sdiv, srem, WrapInt.and, WrapInt.or, WrapInt.xor, shl, lshr,
    ashr, lt?, le?, eq?, h]

/-! ## division and remainder -/

theorem C13.udiv_eq_bitvec (w : Nat) (x y : BitVec w) (hy : y ≠ 0) :
    udiv (ofBV x) (ofBV y) = some (ofBV (x / y)) := udiv_ofBV x y hy
theorem C13.urem_eq_bitvec (w : Nat) (x y : BitVec w) (hy : y ≠ 0) :
    urem (ofBV x) (ofBV y) = some (ofBV (x % y)) := urem_ofBV x y hy
theorem C13.srem_eq_bitvec (w : Nat) (h1 : 1 ≤ w) (hw : w ≤ 64) (x y : BitVec w) (hy : y ≠ 0) :
    srem (ofBV x) (ofBV y) = some (ofBV (x.srem y)) := srem_ofBV h1 hw x y hy
/-- a zero divisor is refused by all four (CRAB_ERROR), never a wrong value -/
theorem C13.div_by_zero_is_error (w : Nat) (x : BitVec w) :
    udiv (ofBV x) (ofBV (0 : BitVec w)) = none ∧ urem (ofBV x) (ofBV (0 : BitVec w)) = none ∧
    sdiv (ofBV x) (ofBV (0 : BitVec w)) = none ∧ srem (ofBV x) (ofBV (0 : BitVec w)) = none :=
  ⟨udiv_zero x, urem_zero x, sdiv_zero x, srem_zero x⟩

/-- signed division (`MIN / -1` wraps to `MIN`, as in `BitVec.sdiv`) -/
theorem C13.sdiv_eq_bitvec (w : Nat) (h1 : 1 ≤ w) (hw : w ≤ 64) (x y : BitVec w) (hy : y ≠ 0) :
    sdiv (ofBV x) (ofBV y) = some (ofBV (x.sdiv y)) := sdiv_ofBV h1 hw x y hy

/-! ## bitwise operations -/

theorem C13.and_eq_bitvec (w : Nat) (x y : BitVec w) :
    WrapInt.and (ofBV x) (ofBV y) = some (ofBV (x &&& y)) := and_ofBV x y
theorem C13.or_eq_bitvec (w : Nat) (x y : BitVec w) :
    WrapInt.or (ofBV x) (ofBV y) = some (ofBV (x ||| y)) := or_ofBV x y
theorem C13.xor_eq_bitvec (w : Nat) (x y : BitVec w) :
    WrapInt.xor (ofBV x) (ofBV y) = some (ofBV (x ^^^ y)) := xor_ofBV x y
/-- there is no `operator~`; complement is written `x ^ get_unsigned_max(w)` in the code base -/
theorem C13.not_eq_bitvec (w : Nat) (h1 : 1 ≤ w) (hw : w ≤ 64) (x : BitVec w) :
    (unsignedMax? w).bind (WrapInt.xor (ofBV x)) = some (ofBV (~~~x)) := by
  rw [unsignedMax?_eq h1 hw]
  simp only [Option.bind_some]
  rw [xor_ofBV]
  simp

/-! ## shifts (the amount is a wrapint of the same width; every amount, also ≥ w and ≥ 64) -/

theorem C13.shl_eq_bitvec (w : Nat) (hw : w ≤ 64) (x y : BitVec w) :
    shl (ofBV x) (ofBV y) = some (ofBV (x <<< y)) := shl_ofBV hw x y
theorem C13.lshr_eq_bitvec (w : Nat) (x y : BitVec w) :
    lshr (ofBV x) (ofBV y) = some (ofBV (x >>> y)) := lshr_ofBV x y
theorem C13.ashr_eq_bitvec (w : Nat) (h1 : 1 ≤ w) (hw : w ≤ 64) (x y : BitVec w) :
    ashr (ofBV x) (ofBV y) = some (ofBV (x.sshiftRight' y)) := ashr_ofBV h1 hw x y
/-- an amount of the width or more shifts everything out: 0, or the sign fill for `ashr` -/
theorem C13.shift_amount_ge_width (w : Nat) (h1 : 1 ≤ w) (hw : w ≤ 64) (x y : BitVec w) (hs : w ≤ y.toNat) :
    shl (ofBV x) (ofBV y) = some (ofBV (0 : BitVec w)) ∧
    lshr (ofBV x) (ofBV y) = some (ofBV (0 : BitVec w)) ∧
    ashr (ofBV x) (ofBV y) = some (ofBV (if x.msb then BitVec.allOnes w else 0)) := by
  refine ⟨?_, ?_, ?_⟩
  · rw [shl_ofBV hw, BitVec.shiftLeft_eq', bv_shl_ge x hs]
  · rw [lshr_ofBV, BitVec.ushiftRight_eq', bv_lshr_ge x hs]
  · rw [ashr_ofBV h1 hw, BitVec.sshiftRight_eq', bv_ashr_ge x hs]

/-! ## extensions and truncation -/

theorem C13.zext_eq_bitvec (w : Nat) (h1 : 1 ≤ w) (x : BitVec w) (k : Nat) (hk : w + k ≤ 64) :
    zext (ofBV x) k = some (ofBV (x.setWidth (w + k))) := zext_ofBV h1 x k hk
/-- widening beyond 64 bits is refused (CRAB_ERROR) -/
theorem C13.ext_too_wide_is_error (w : Nat) (x : BitVec w) (k : Nat) (hk : 64 < w + k) :
    zext (ofBV x) k = none ∧ sext (ofBV x) k = none := ⟨zext_err x k hk, sext_err x k hk⟩

theorem C13.sext_eq_bitvec (w : Nat) (h1 : 1 ≤ w) (x : BitVec w) (k : Nat) (hk : w + k ≤ 64) :
    sext (ofBV x) k = some (ofBV (x.signExtend (w + k))) := sext_ofBV h1 x k hk
/-- `keep_lower(k)` for `1 ≤ k < w` is truncation to `k` bits -/
theorem C13.trunc_eq_bitvec (w : Nat) (hw : w ≤ 64) (x : BitVec w) (k : Nat) (h1 : 1 ≤ k) (hk : k < w) :
    keepLower (ofBV x) k = some (ofBV (x.setWidth k)) := keepLower_ofBV hw x k h1 hk
/-- `keep_lower(k)` with `k ≥ w` is the identity, with `k = 0` CRAB_ERROR -/
theorem C13.trunc_edge_cases (w : Nat) (h1 : 1 ≤ w) (x : BitVec w) :
    (∀ k, w ≤ k → keepLower (ofBV x) k = some (ofBV x)) ∧ keepLower (ofBV x) 0 = none :=
  ⟨fun k hk => keepLower_ge x k hk, keepLower_zero h1 x⟩

/-! ## comparisons -/

/-- `== != < <= > >=` are the unsigned comparisons -/
theorem C13.unsigned_compare_eq_bitvec (w : Nat) (x y : BitVec w) :
    eq? (ofBV x) (ofBV y) = some (x == y) ∧ ne? (ofBV x) (ofBV y) = some (x != y) ∧
    lt? (ofBV x) (ofBV y) = some (x.ult y) ∧ le? (ofBV x) (ofBV y) = some (x.ule y) ∧
    gt? (ofBV x) (ofBV y) = some (y.ult x) ∧ ge? (ofBV x) (ofBV y) = some (y.ule x) :=
  ⟨eq?_ofBV x y, ne?_ofBV x y, lt?_ofBV x y, le?_ofBV x y, gt?_ofBV x y, ge?_ofBV x y⟩
/-- signed comparisons are made by the clients on `get_signed_bignum`: they are `slt` / `sle` -/
theorem C13.signed_compare_eq_bitvec (w : Nat) (h1 : 1 ≤ w) (hw : w ≤ 64) (x y : BitVec w) :
    ∃ sx sy, toSigned (ofBV x) = some sx ∧ toSigned (ofBV y) = some sy ∧
      decide (sx < sy) = x.slt y ∧ decide (sx ≤ sy) = x.sle y :=
  ⟨x.toInt, y.toInt, toSigned_ofBV h1 hw x, toSigned_ofBV h1 hw y, rfl, rfl⟩

/-! ## `Reduced` (`_n < 2^w`) is preserved by every operation
(stated on arbitrary operands, not only on `ofBV _`) -/

theorem C13.reduced_preserved_ring (a b r : WrapInt) (hw : a.width ≤ 64)
    (h : add a b = some r ∨ sub a b = some r ∨ mul a b = some r ∨ shl a b = some r ∨
         addAssign a b = some r ∨ r = neg a) : r.Reduced := by
  rcases h with h | h | h | h | h | h
  · exact add_reduced hw h
  · exact sub_reduced hw h
  · exact mul_reduced hw h
  · exact shl_reduced hw h
  · unfold addAssign at h; split at h
    · injection h with h; subst h
      show (if a.width < 64 then _ else _) < 2 ^ a.width
      rw [red_lt_form hw]; exact red_mod_lt hw _
    · cases h
  · subst h; exact neg_reduced hw
theorem C13.reduced_preserved_div_bitwise (a b r : WrapInt) (ha : a.Reduced) (hb : b.Reduced)
    (h1 : 1 ≤ a.width) (hw : a.width ≤ 64)
    (h : udiv a b = some r ∨ urem a b = some r ∨ sdiv a b = some r ∨ srem a b = some r ∨
         WrapInt.and a b = some r ∨ WrapInt.or a b = some r ∨ WrapInt.xor a b = some r ∨
         lshr a b = some r ∨ ashr a b = some r) : r.Reduced := by
  rcases h with h | h | h | h | h | h | h | h | h
  · exact udiv_reduced ha h
  · exact urem_reduced ha h
  · exact sdiv_reduced hw h
  · exact srem_reduced h
  · exact and_reduced ha h
  · exact or_reduced ha hb h
  · exact xor_reduced ha hb h
  · exact lshr_reduced ha h
  · exact ashr_reduced ha h1 hw h
theorem C13.reduced_preserved_casts (a r : WrapInt) (k : Nat) (ha : a.Reduced) (hw : a.width ≤ 64)
    (h : zext a k = some r ∨ sext a k = some r ∨ keepLower a k = some r) : r.Reduced := by
  have h64 : a.n < 2 ^ 64 := Nat.lt_of_lt_of_le ha (pow_le_64 hw)
  rcases h with h | h | h
  · exact zext_reduced h64 h
  · exact sext_reduced ha hw h
  · exact keepLower_reduced ha hw h
theorem C13.constructors_reduced (n w : Nat) (z : Int) (r : WrapInt) (hn : n < 2 ^ 64)
    (h : mk? n w = some r ∨ ofZ? z w = some r) : r.Reduced := by
  rcases h with h | h
  · exact mk?_reduced hn h
  · exact ofZ?_reduced h

/-- non-vacuity: the hypotheses are met by concrete non-trivial values and the operations
    compute what the theorems say -/
example : (ofBV 200#8).WF ∧ (ofBV 200#8).Reduced ∧
    add (ofBV 200#8) (ofBV 100#8) = some (ofBV 44#8) ∧
    sdiv (ofBV 128#8) (ofBV 255#8) = some (ofBV 128#8) ∧
    ashr (ofBV 128#8) (ofBV 1#8) = some (ofBV 192#8) ∧
    sdiv (ofBV (BitVec.intMin 64)) (ofBV (BitVec.allOnes 64)) = some (ofBV (BitVec.intMin 64)) ∧
    sext (ofBV 128#8) 8 = some (ofBV 0xFF80#16) ∧
    shl (ofBV 5#16) (ofBV 70#16) = some (ofBV 0#16) ∧ ashr (ofBV 128#8) (ofBV 9#8) = some (ofBV 255#8) ∧
    ofZ? (-129) 8 = some (ofBV 127#8) := by decide
