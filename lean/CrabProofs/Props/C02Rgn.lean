import CrabProofs.Lemmas.RCheckerSound

/-!
# C02 on programs with references — `safe` / `unreachable` verdicts of the assertion checker

Model: `CrabModel/Analysis/RChecker.lean` (`assert_property_checker::check(assert_ref_t&)`,
`check(assert_t&)`, `check(bool_assert_t&)`, the statement loop of `intra_checker::run`) over the
syntax `CrabModel/IR/RSyntax.lean`.  Semantics: `CrabModel/IR/RSemantics.lean` (heap operations
of `CrabModel/Dom/RegionSem.lean`) — an assertion executed in state σ emits `check b i σ ok`,
`ok = false` iff it fails.

* `C02.ref_negate_is_negation` : `reference_constraint::negate` (the checker assumes the negated
  constraint) holds exactly when the constraint does not;
* `C02.assert_ref_safe_sound`, `C02.assert_ref_unreachable_sound` : the decision rule of
  `check(assert_ref_t&)`;
* `C02.rcheckBlock_sound` : the statement loop, for one block and any execution of the block
  started in a state of the block-entry invariant (integer, boolean and reference assertions);
* `C02.rfwd_checker_sound` : whole programs, given invariants at block entries that contain
  every state with which an execution arrives (C01's conclusion).

What the theorems assume of the abstract domain is exactly `RCheckDom` (soundness of
`is_bottom`, `entails`, `assume_bool`, `ref_assume`) and `RTrSound` (soundness of the forward
transformer); for `region_domain` these are tested by `harness/h_rprog.cpp` / `Driver/RProgH.lean`
and `harness/h_rgn.cpp` / `Driver/RgnH.lean`, not proved.  The discharge of assertions by the
combined forward+backward analysis is not covered by a theorem (as in `C02.lean`).
-/
open Crab Crab.RIR Crab.Analysis

theorem C02.ref_negate_is_negation (c nc : RefCst) (σ : RState) (h : c.negate = some nc) :
    nc.holds σ = !c.holds σ :=
  RefCst.negate_holds c nc σ h

/-- if the abstract pre-state contains the concrete state and the verdict rule of
    `check(assert_ref_t&)` says `safe`, the assertion holds: the statement has the successor σ -/
theorem C02.assert_ref_safe_sound {A : Type} (D : RCheckDom A) (inv : A) (c : RefCst) (σ : RState) (ch : Int)
    (h : checkAssertRef D inv c = some .safe) (hγ : D.γ inv σ) :
    stepStmt D.nI (.assertRef c) σ ch = .next σ := by
  simp [stepStmt, checkAssertRef_safe D inv c σ h hγ]

theorem C02.assert_ref_unreachable_sound {A : Type} (D : RCheckDom A) (inv : A) (c : RefCst) (σ : RState)
    (h : checkAssertRef D inv c = some .unreachable) : ¬ D.γ inv σ :=
  checkAssertRef_unreachable D inv c σ h

/-- one block: if the execution of block `b` starts in a state of the invariant the checker
    starts from, an assertion classified `unreachable` is not executed and an assertion
    classified `safe` does not fail -/
theorem C02.rcheckBlock_sound {A : Type} (D : RCheckDom A) (tr : Stmt → A → A) (htr : RTrSound D tr)
    (p : Program) (hn : p.nI = D.nI) (pre : Nat → A) (b : Nat) (σ : RState) (ch : List Int) (hγ : D.γ (pre b) σ)
    (res : List (Nat × CheckKind)) (hres : rcheckBlock D tr p pre b = some res)
    (j : Nat) (σ' : RState) (ok : Bool) (v : CheckKind)
    (hev : Event.check b j σ' ok ∈ (runBlock p b σ ch).events)
    (hv : (j, v) ∈ res) :
    v ≠ .unreachable ∧ (v = .safe → ok = true) := by
  unfold runBlock at hev
  rw [hn] at hev
  exact rcheckStmts_sound D tr htr b _ 0 (pre b) σ ch res hγ hres j σ' ok v hev hv

/-- C02 (forward analysis, programs with references): given invariants at the block entries that
    contain every state with which an execution from an initial state arrives, no execution
    reaches an assertion classified `unreachable`, and no execution fails an assertion
    classified `safe`. -/
theorem C02.rfwd_checker_sound {A : Type} (D : RCheckDom A) (tr : Stmt → A → A) (htr : RTrSound D tr)
    (p : Program) (hn : p.nI = D.nI) (pre : Nat → A) (Init : RState → Prop)
    (hpre : ∀ n σ0 ch b σ, Init σ0 → Event.enter b σ ∈ RIR.run p n σ0 ch → D.γ (pre b) σ)
    (n : Nat) (σ0 : RState) (ch : List Int) (h0 : Init σ0)
    (b j : Nat) (σ' : RState) (ok : Bool) (v : CheckKind)
    (res : List (Nat × CheckKind)) (hres : rcheckBlock D tr p pre b = some res)
    (hev : Event.check b j σ' ok ∈ RIR.run p n σ0 ch)
    (hv : (j, v) ∈ res) :
    v ≠ .unreachable ∧ (v = .safe → ok = true) := by
  obtain ⟨σ, ch', hen, hc⟩ := rexec_check_of_enter p n p.entry σ0 ch b j σ' ok hev
  exact C02.rcheckBlock_sound D tr htr p hn pre b σ ch' (hpre n σ0 ch b σ h0 hen) res hres j σ' ok v hc hv

/-! ### the program of commit 167875f: `r0 := make_ref(g0, 4); assert_ref(r0 == NULL)` -/

/-- `B0: r0 := make_ref(g0, 4, site 0); assert_ref(r0 == NULL)` (entry = exit).  Before the fix
    the forward+backward analysis reported the assertion `safe`. -/
def C02.makeNullProg : Program :=
  ⟨0, 1, 0, 0, #[⟨[.makeRef 0 0 (.const 4) 0, .assertRef (RefCst.mk' (some 0) none 0 .eq)], []⟩]⟩

/-- every execution of that program fails the assertion (`make_ref` returns a non-null
    reference): its trace contains the event `check B0 #1 … false` -/
theorem C02.makeNull_assert_fails (iv : Array Int) (b : Bool) :
    (RIR.run C02.makeNullProg 1 (initState iv b) []).any
      (fun e => match e with | .check 0 1 _ false => true | _ => false) = true := by
  simp [RIR.run, exec, runBlock, C02.makeNullProg, Program.block, runStmts, stepStmt, Stmt.usesChoice,
    Stmt.isAssert, ofOpt, Rgn.State.refMake, dynSite, initState, Rgn.State.blockOf, RefCst.mk', RefCst.holds,
    RKind.cmp, refAddr, Rgn.State.setRef, Rgn.State.setMem, Rgn.upd, Rgn.RefVal.toInt]

/-! ### non-vacuity -/

/-- a domain with two values (`false` = no state, `true` = every state) that entails nothing and
    whose `ref_assume` keeps the value -/
def C02.RExample.dom : RCheckDom Bool where
  nI := 0
  γ := fun a _ => a = true
  isBottom := fun a => !a
  entails := fun _ _ => false
  assumeBool := fun a _ _ => a
  refAssume := fun a _ => a
  isBottom_sound := by intro a σ h; simpa using h
  entails_sound := by intro a c σ h; cases h
  assumeBool_sound := by intro a b neg σ h _; exact h
  refAssume_sound := by intro a c σ h _; exact h

theorem C02.RExample.tr_sound : RTrSound C02.RExample.dom (fun _ a => a) := by
  intro s a σ ch σ' h _; exact h

/-- the checker model on the program above: `warning` when the block is reachable,
    `unreachable` with a bottom invariant -/
example : rcheckBlock C02.RExample.dom (fun _ a => a) C02.makeNullProg (fun _ => true) 0 = some [(1, .warning)] := by decide
example : rcheckBlock C02.RExample.dom (fun _ a => a) C02.makeNullProg (fun _ => false) 0 = some [(1, .unreachable)] := by decide
/-- the negation the checker assumes for `r0 == NULL` is `r0 != NULL` -/
example : (RefCst.mk' (some 0) none 0 .eq).negate = some ⟨.ne, some 0, none, 0⟩ := by decide
/-- `p <= q + 8` is negated to `q < p - 8` -/
example : (RefCst.mk' (some 0) (some 1) 8 .le).negate = some ⟨.lt, some 1, some 0, -8⟩ := by decide
