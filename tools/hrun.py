#!/usr/bin/env python3
"""hrun.py <harness-name> [--source S] [--define -DX=1]... -- <harness args>  : build against the current tree (cache) and run harness | crabdrv (development helper)"""
import sys, os, subprocess
HERE = os.path.dirname(os.path.abspath(__file__)); sys.path.insert(0, HERE)
import vlib
a = sys.argv[1:]
name = a[0]; src = None; defs = []; rest = []
i = 1
while i < len(a):
    if a[i] == "--source": src = a[i+1]; i += 2
    elif a[i] == "--define": defs.append(a[i+1]); i += 2
    elif a[i] == "--": rest = a[i+1:]; break
    else: i += 1
d, err = vlib.build_repo()
assert not err, err
exe, err = vlib.build_harness(d, name, defs, src)
assert exe, err
out = os.environ.get("HRUN_OUT", "/tmp/hrun.out")
with open(out, "w") as f:
    hr = subprocess.run([exe] + rest, stdout=f, stderr=subprocess.DEVNULL)
if hr.returncode != 0:
    print(f"HARNESS EXIT STATUS {hr.returncode} (crash/abort: output is truncated)")
drv = os.path.join(vlib.LEAN, ".lake", "build", "bin", "crabdrv")
with open(out) as f:
    r = subprocess.run([drv], stdin=f, stdout=subprocess.PIPE, text=True)
open(out + ".v", "w").write(r.stdout)
lines = r.stdout.strip().split("\n")
print(lines[-1])
for l in lines[:-1][:int(os.environ.get("HRUN_SHOW", "6"))]:
    print(l[:400])
