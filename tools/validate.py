#!/usr/bin/env python3
import json, glob, sys, os
sys.path.insert(0, "/opt/veriftools/pyvenv/lib/python3.11/site-packages")
import jsonschema
V = os.path.dirname(os.path.dirname(os.path.abspath(__file__)))
jsonschema.validate(json.load(open(V + "/MANIFEST.json")), json.load(open("/root/.vp/MANIFEST.schema.json")))
for f in sorted(glob.glob(V + "/evidence/*.json")):
    jsonschema.validate(json.load(open(f)), json.load(open("/root/.vp/EVIDENCE.schema.json")))
    print("ok", f)
print("manifest ok")
