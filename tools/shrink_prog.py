#!/usr/bin/env python3
"""shrink_prog.py : minimise a (prog.fwd|prog.fwdbwd ...) request while harness|crabdrv still
reports a finding with the same tag ([C01] / [C02]).

  shrink_prog.py --exe <h_prog binary> --drv <crabdrv> (--line '<request>' | --file f [--lineno n]) [--tag C02]
  shrink_prog.py <harness-name> --source h_prog --define -DVDOM=1 --line ...     (built through vlib)

Reductions (to a fixpoint): drop statements, drop blocks (edges to them are removed), drop edges,
drop `init` entries, simplify the parameters, fwdbwd -> fwd, replace integer constants by smaller
ones.  Prints the minimal request, the driver's message and the implementation's answer."""
import os, re, subprocess, sys, tempfile

def parse(s):
    toks = re.findall(r"\(|\)|[^\s()]+", s)
    pos = 0
    def rec():
        nonlocal pos
        t = toks[pos]; pos += 1
        if t == "(":
            l = []
            while toks[pos] != ")":
                l.append(rec())
            pos += 1
            return l
        return t
    return rec()

def show(x):
    return x if isinstance(x, str) else "(" + " ".join(show(y) for y in x) + ")"

def sect(q, name):
    for x in q[2:]:
        if isinstance(x, list) and x and x[0] == name:
            return x
    return None

def main():
    a = sys.argv[1:]
    exe = drv = line = tag = None; name = None; src = None; defs = []; lineno = 1; fn = None
    i = 0
    while i < len(a):
        if a[i] == "--exe": exe = a[i+1]; i += 2
        elif a[i] == "--drv": drv = a[i+1]; i += 2
        elif a[i] == "--line": line = a[i+1]; i += 2
        elif a[i] == "--file": fn = a[i+1]; i += 2
        elif a[i] == "--lineno": lineno = int(a[i+1]); i += 2
        elif a[i] == "--tag": tag = a[i+1].strip("[]"); i += 2
        elif a[i] == "--source": src = a[i+1]; i += 2
        elif a[i] == "--define": defs.append(a[i+1]); i += 2
        else: name = a[i]; i += 1
    if fn:
        line = open(fn).read().split("\n")[lineno - 1]
    line = line.split(" => ")[0]
    if exe is None:
        sys.path.insert(0, os.path.dirname(os.path.abspath(__file__)))
        import vlib
        d, err = vlib.build_repo(); assert not err, err
        exe, err = vlib.build_harness(d, name, defs, src); assert exe, err
        drv = drv or os.path.join(vlib.LEAN, ".lake", "build", "bin", "crabdrv")
    q = parse(line)

    def run(q):
        with tempfile.NamedTemporaryFile("w", suffix=".ops", delete=False) as f:
            f.write(show(q) + "\n"); tmp = f.name
        try:
            o = subprocess.run([exe, "--ops", tmp], stdout=subprocess.PIPE, stderr=subprocess.DEVNULL, text=True, timeout=60).stdout
        except subprocess.TimeoutExpired:
            o = ""
        os.unlink(tmp)
        v = subprocess.run([drv], input=o, stdout=subprocess.PIPE, text=True).stdout
        for l in v.split("\n"):
            m = re.match(r"\d+ UNSOUND (.*)", l)
            if m:
                tags = set(re.findall(r"\[(C\d+)\]", l))
                return tags, l, o
        return set(), None, o

    tags, msg, _ = run(q)
    assert tags, "the line does not fail"
    want = tag or sorted(tags)[0]
    assert want in tags, f"tag {want} not among {tags}"
    ok = lambda q: want in run(q)[0]

    def copy(x): return [copy(y) for y in x] if isinstance(x, list) else x

    def candidates(q):
        blocks = sect(q, "blocks")
        entry = sect(q, "entry")[1]; ex = sect(q, "exit"); ex = ex[1] if ex and len(ex) > 1 else None
        # fwdbwd -> fwd, simple parameters
        if q[0] == "prog.fwdbwd":
            c = copy(q); c[0] = "prog.fwd"; yield c
        p = sect(q, "params")
        for simple in (["params", "1", "0", "0", "0"], ["params", "1", "1", "0", "0"]):
            if p != simple and p[4] + p[3] + p[2] + p[1] > simple[4] + simple[3] + simple[2] + simple[1]:
                c = copy(q); c[c.index(p)] = simple; yield c
        # drop blocks
        for bi in range(1, len(blocks)):
            lab = blocks[bi][0]
            if lab == entry or lab == ex: continue
            c = copy(q); cb = sect(c, "blocks")
            del cb[bi]
            for b in cb[1:]:
                b[2] = [b[2][0]] + [s for s in b[2][1:] if s != lab]
            yield c
        # bypass a block with exactly one successor: its predecessors go to the successor directly
        for bi in range(1, len(blocks)):
            lab = blocks[bi][0]
            if lab == entry or lab == ex or len(blocks[bi][2]) != 2 or blocks[bi][2][1] == lab: continue
            tgt = blocks[bi][2][1]
            c = copy(q); cb = sect(c, "blocks")
            moved = cb[bi][1][1:]
            del cb[bi]
            for b in cb[1:]:
                ns = []
                for s_ in b[2][1:]:
                    s2 = tgt if s_ == lab else s_
                    if s2 not in ns: ns.append(s2)
                b[2] = [b[2][0]] + ns
            yield c
            if moved:   # same, keeping the statements at the front of the target
                c2 = copy(c)
                for b in sect(c2, "blocks")[1:]:
                    if b[0] == tgt: b[1] = [b[1][0]] + moved + b[1][1:]
                yield c2
        # another block as exit
        for bi in range(1, len(blocks)):
            lab = blocks[bi][0]
            if lab != ex and ex is not None and len(blocks[bi][2]) == 1:
                c = copy(q); sect(c, "exit")[1] = lab; yield c
        # drop the last variable when it is not used
        for sec, pre in (("ivars", "v"), ("bvars", "b")):
            vs = sect(q, sec)
            if len(vs) > 1:
                last = vs[-1]
                rest = show(sect(q, "blocks")) + show(sect(q, "init") or [])
                if not re.search(r"[ (]" + re.escape(last) + r"[ )]", rest):
                    c = copy(q); del sect(c, sec)[-1]; yield c
        # drop edges
        for bi in range(1, len(blocks)):
            for si in range(1, len(blocks[bi][2])):
                c = copy(q); cb = sect(c, "blocks"); del cb[bi][2][si]; yield c
        # drop statements
        for bi in range(1, len(blocks)):
            for si in range(1, len(blocks[bi][1])):
                c = copy(q); cb = sect(c, "blocks"); del cb[bi][1][si]; yield c
        # drop init entries
        ini = sect(q, "init")
        if ini:
            for k in range(1, len(ini)):
                c = copy(q); del sect(c, "init")[k]; yield c
            for k in range(1, len(ini)):
                for j, inf in ((1, "-oo"), (2, "+oo")):
                    if ini[k][j] != inf:
                        c = copy(q); sect(c, "init")[k][j] = inf; yield c
        # make the exit another (earlier) block
        # shrink constants inside statements
        def paths(x, pre):
            if isinstance(x, str):
                if re.fullmatch(r"-?\d+", x): yield pre
            else:
                for k, y in enumerate(x): yield from paths(y, pre + [k])
        bidx = q.index(blocks)
        for pth in paths(blocks, [bidx]):
            x = q
            for k in pth[:-1]: x = x[k]
            v = int(x[pth[-1]])
            par = x
            is_coef = pth[-1] == 0 and len(par) == 2 and isinstance(par[1], str) and par[1][:1] == "v"
            for nv in (0, 1, -1, v // 2, v - 1 if v > 0 else v + 1):
                if is_coef and nv == 0: continue
                if abs(nv) < abs(v) or (nv == 1 and v == -1):
                    c = copy(q); y = c
                    for k in pth[:-1]: y = y[k]
                    y[pth[-1]] = str(nv); yield c

    changed = True
    while changed:
        changed = False
        for c in candidates(q):
            if show(c) != show(q) and ok(c):
                q = c; changed = True
                break
    tags, msg, o = run(q)
    print(show(q))
    print(msg[:1500] if msg else "")
    print(o[:6000])

main()
