#!/usr/bin/env python3
"""shrink.py <harness-name> [--source S] [--define D]... --line '<request>' : delta-debug the op list of a (dom.hist ...) request
while harness|crabdrv still reports a non-ok verdict with the same tag; prints the minimal request."""
import sys, os, subprocess, re, tempfile
HERE = os.path.dirname(os.path.abspath(__file__)); sys.path.insert(0, HERE)
import vlib

def split_top(s):
    # split a string of s-expressions at top level
    out, depth, cur = [], 0, ""
    for ch in s:
        if ch == "(":
            depth += 1
        if depth > 0:
            cur += ch
        if ch == ")":
            depth -= 1
            if depth == 0:
                out.append(cur); cur = ""
    return out

def main():
    a = sys.argv[1:]
    name = a[0]; src = None; defs = []; line = None
    i = 1
    while i < len(a):
        if a[i] == "--source": src = a[i+1]; i += 2
        elif a[i] == "--define": defs.append(a[i+1]); i += 2
        elif a[i] == "--line": line = a[i+1]; i += 2
        elif a[i] == "--file": line = open(a[i+1]).read().strip().split("\n")[0]; i += 2
        else: i += 1
    line = line.split(" => ")[0]
    d, err = vlib.build_repo(); assert not err, err
    exe, err = vlib.build_harness(d, name, defs, src); assert exe, err
    drv = os.path.join(vlib.LEAN, ".lake", "build", "bin", "crabdrv")
    m = re.match(r"\((\S+) (\S+) \(ops (.*)\)\)$", line)
    head, dom, opstr = m.group(1), m.group(2), m.group(3)
    ops = split_top(opstr)
    def run(ops):
        req = f"({head} {dom} (ops {' '.join(ops)}))"
        with tempfile.NamedTemporaryFile("w", suffix=".ops", delete=False) as f:
            f.write(req + "\n"); fn = f.name
        o = subprocess.run([exe, "--ops", fn], stdout=subprocess.PIPE, text=True).stdout
        os.unlink(fn)
        v = subprocess.run([drv], input=o, stdout=subprocess.PIPE, text=True).stdout
        for l in v.split("\n"):
            mm = re.match(r"\d+ (UNSOUND|IMPRECISE|DRIFT) (\[C\d+\])?", l)
            if mm:
                return (mm.group(1), mm.group(2)), l, o
        return None, None, o
    tag, msg, _ = run(ops)
    assert tag, "the line does not fail"
    changed = True
    while changed:
        changed = False
        n = len(ops)
        chunk = max(1, n // 2)
        while chunk >= 1:
            i = 0
            while i < len(ops):
                cand = ops[:i] + ops[i+chunk:]
                t, mg, _ = run(cand)
                if t == tag:
                    ops = cand; msg = mg; changed = True
                else:
                    i += chunk
            chunk //= 2
    t, mg, o = run(ops)
    print(f"({head} {dom} (ops {' '.join(ops)}))")
    print(mg[:600])
    print(o[:3000])
main()
