#!/usr/bin/env python3
"""gen_design_tables.py : regenerates the machine-derived tables of DESIGN.md in place:
  <!-- FIXTABLE:BEGIN --> .. <!-- FIXTABLE:END -->      all `fix:` commits of /repo after the hook commit
  <!-- SEEDTABLE:BEGIN --> .. <!-- SEEDTABLE:END -->    seeded/<id>/{meta,result}.json
Development helper (not a registered command)."""
import json
import os
import re
import subprocess
import sys

HERE = os.path.dirname(os.path.abspath(__file__))
VERIF = os.path.dirname(HERE)
sys.path.insert(0, HERE)
import manifest_text  # noqa: E402


def fix_table():
    hook = manifest_text.HOOK_COMMITS[0]
    log = subprocess.run(["git", "-C", "/repo", "log", "--reverse", "--format=%h\t%s", f"{hook}..HEAD"],
                         stdout=subprocess.PIPE, text=True).stdout.strip().split("\n")
    kf = json.load(open(os.path.join(VERIF, "known_findings.json")))["findings"]
    prop = {}
    for e in kf:
        if e["status"].startswith("fixed"):
            prop[e["status"].split()[-1]] = ",".join(e.get("properties", [e["property"]]))
    out = ["| commit | properties | subject |", "|--------|-----------|---------|"]
    for l in log:
        h, s = l.split("\t", 1)
        if not s.startswith("fix:"):
            continue
        out.append(f"| {h} | {prop.get(h, '?')} | {s[5:].replace('|', '/')} |")
    return "\n".join(out), len(out) - 2


def seed_table():
    sd = os.path.join(VERIF, "seeded")
    rows, revs = [], []
    for sid in sorted(os.listdir(sd)):
        d = os.path.join(sd, sid)
        if not os.path.exists(os.path.join(d, "meta.json")):
            continue
        meta = json.load(open(os.path.join(d, "meta.json")))
        res = {}
        if os.path.exists(os.path.join(d, "result.json")):
            res = json.load(open(os.path.join(d, "result.json"))).get("results", {})
        det = [p for p, v in res.items() if v.get("exit") == 1]
        inp = [p for p, v in res.items() if v.get("with_failing_input")]
        note = meta.get("note", "")
        if sid.startswith("rev-"):
            revs.append((sid, meta, res, det, inp, note))
            continue
        rows.append(f"| {sid} | {meta.get('breaks', '').replace('|', '/')} — needs: {meta.get('needs_to_manifest', '').replace('|', '/')} | "
                    f"{', '.join(det) or ('not run' if not res else 'NONE')} | {', '.join(inp) or '-'} |{(' ' + note) if note else ''}")
    out = ["| id | what it breaks / what it needs to manifest | detected by (quick tier) | concrete failing input in |",
           "|----|---------------------------------------------|--------------------------|---------------------------|"] + rows
    det_revs = [r for r in revs if r[3]]
    und = [r for r in revs if r[2] and not r[3]]
    notrun = [r for r in revs if not r[2]]
    out.append("")
    out.append(f"Reverse-fix mutants: {len(revs)} stored; {len(det_revs)} detected by the quick check of (one of) their properties "
               f"({sum(1 for r in det_revs if r[4])} with a concrete failing input), {len(und)} run and not detected, {len(notrun)} not run "
               "(patch no longer applies on top of later fixes of the same lines, or the sweep did not reach it).")
    if und:
        out.append("")
        out.append("Run and NOT detected at the quick tier (kept as open gaps of the generators, see the text below):")
        for r in und:
            out.append(f"* `{r[0]}` ({', '.join(r[1].get('properties', []))}): {r[1].get('breaks', '')}{(' — ' + r[5]) if r[5] else ''}")
    if notrun:
        out.append("")
        out.append("Not run: " + ", ".join(f"`{r[0]}`" for r in notrun))
    return "\n".join(out)


def replace(text, tag, body):
    b, e = f"<!-- {tag}:BEGIN -->", f"<!-- {tag}:END -->"
    if b not in text:
        raise SystemExit(f"marker {b} missing in DESIGN.md")
    return re.sub(re.escape(b) + r".*?" + re.escape(e), lambda m: b + "\n" + body + "\n" + e, text, flags=re.S)


def main():
    p = os.path.join(VERIF, "DESIGN.md")
    t = open(p).read()
    ft, n = fix_table()
    t = replace(t, "FIXTABLE", ft)
    t = replace(t, "SEEDTABLE", seed_table())
    open(p, "w").write(t)
    print(f"{n} fix commits; tables regenerated")


if __name__ == "__main__":
    main()
