#!/usr/bin/env python3
"""check.py <Cxx> [--tier quick|thorough] [--replay FILE]

Decides one property of /verif/properties.jsonl for the current working tree of
seahorn/crab (REPO, default /repo):

  1. regenerates the table files (mechanism T) from the current tree, builds the Lean
     model, the property's theorem file and the driver; audits sorry/axioms;
  2. builds the C++ harnesses against the current tree (hooks on) and runs the
     correspondence (mechanisms E / R): harness | crabdrv;
  3. classifies every difference, prints VIOLATION / KNOWN-FINDING lines, writes replay
     files and the evidence file.

Exit status 0: the property held on everything explored; 1: a violation was reported.
"""
import argparse
import hashlib
import json
import os
import re
import subprocess
import sys
import time

HERE = os.path.dirname(os.path.abspath(__file__))
VERIF = os.path.dirname(HERE)
sys.path.insert(0, HERE)
import vlib  # noqa: E402
import props  # noqa: E402


def main():
    ap = argparse.ArgumentParser()
    ap.add_argument("pid")
    ap.add_argument("--tier", default=os.environ.get("VERIF_TIER") or "quick")
    ap.add_argument("--replay", default=None)
    ap.add_argument("--keep-going", action="store_true")
    a = ap.parse_args()
    if a.tier not in ("quick", "thorough"):
        a.tier = "quick"
    pid = a.pid
    if pid not in props.PROPS:
        print(f"unknown property {pid}")
        return 2
    seed = int(os.environ.get("VERIF_SEED") or "1")
    run = vlib.Run(pid, a.tier, seed)
    try:
        rc = run.execute(props.PROPS[pid], replay=a.replay)
    except vlib.Broken as e:
        # the machinery itself failed (not a verdict about the code)
        print(f"CHECK-ERROR property={pid}: {e}")
        run.write_evidence(error=str(e))
        return 2
    return rc


if __name__ == "__main__":
    sys.exit(main())
