#!/usr/bin/env python3
"""seeded_check.py [<id> ...] : for each seeded change /verif/seeded/<id>/ (patch.diff + meta.json),
apply it to /repo's working tree (git apply), run the quick check of every property named in
meta.json["properties"] (plus --also Cxx ...), record which checks report a VIOLATION, and undo the
change straight afterwards (git checkout -- .).  Development-time validation of the checks; it is not a
registered command.  Results go to seeded/<id>/result.json and are summarised on stdout."""
import json
import os
import subprocess
import sys

HERE = os.path.dirname(os.path.abspath(__file__))
VERIF = os.path.dirname(HERE)
REPO = "/repo"
# --worktree: apply in a scratch worktree and run the checks with REPO=<worktree> (used while other
# work is going on against /repo); default: apply to /repo itself and undo afterwards
USE_WT = "--worktree" in sys.argv
if USE_WT:
    sys.argv.remove("--worktree")
# --first-hit: stop running further properties of a change once one check has reported it with a failing input
FIRST_HIT = "--first-hit" in sys.argv
if FIRST_HIT:
    sys.argv.remove("--first-hit")


def sh(cmd, **kw):
    return subprocess.run(cmd, stdout=subprocess.PIPE, stderr=subprocess.STDOUT, text=True, **kw)


def main():
    args = sys.argv[1:]
    also = []
    if "--also" in args:
        i = args.index("--also")
        also = args[i + 1:]
        args = args[:i]
    ids = args or sorted(os.listdir(os.path.join(VERIF, "seeded")))
    target = REPO
    if USE_WT:
        target = f"/tmp/seeded_wt_{os.getpid()}"
        sh(["git", "-C", REPO, "worktree", "remove", "--force", target])
        r = sh(["git", "-C", REPO, "worktree", "add", "--detach", target, "HEAD"])
        if r.returncode != 0:
            print(r.stdout)
            return 2
    st = sh(["git", "-C", target, "status", "--porcelain", "--untracked-files=no"]).stdout.strip()
    if st:
        print("refusing: the tree has uncommitted changes:\n" + st)
        return 2
    rc_all = 0
    for sid in ids:
        d = os.path.join(VERIF, "seeded", sid)
        if not os.path.isdir(d) or not os.path.exists(os.path.join(d, "patch.diff")):
            continue
        meta = json.load(open(os.path.join(d, "meta.json")))
        props = list(dict.fromkeys(meta.get("properties", []) + also))
        r = sh(["git", "-C", target, "apply", os.path.join(d, "patch.diff")])
        if r.returncode != 0:
            print(f"{sid}: patch does not apply: {r.stdout[-400:]}")
            rc_all = 1
            continue
        res = {}
        try:
            for p in props:
                env = dict(os.environ)
                env["VERIF_SEED"] = env.get("VERIF_SEED", "1")
                if USE_WT:
                    env["REPO"] = target
                o = sh([sys.executable, os.path.join(HERE, "check.py"), p, "--tier", "quick"], cwd=VERIF, env=env)
                vio = [l for l in o.stdout.split("\n") if l.startswith("VIOLATION")]
                res[p] = {"exit": o.returncode, "violations": vio[:6],
                          "with_failing_input": any("no-failing-input-found" not in l for l in vio)}
                if FIRST_HIT and res[p]["exit"] == 1 and res[p]["with_failing_input"]:
                    break
        finally:
            sh(["git", "-C", target, "checkout", "--", "."])
        json.dump({"id": sid, "results": res}, open(os.path.join(d, "result.json"), "w"), indent=1)
        det = [p for p, v in res.items() if v["exit"] == 1]
        inp = [p for p, v in res.items() if v["with_failing_input"]]
        print(f"{sid}: detected by {det or 'NONE'}; with concrete failing input: {inp or 'none'}")
        if not det:
            rc_all = 1
    if USE_WT:
        sh(["git", "-C", REPO, "worktree", "remove", "--force", target])
    return rc_all


if __name__ == "__main__":
    sys.exit(main())
