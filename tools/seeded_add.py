#!/usr/bin/env python3
"""seeded_add.py <id> --props Cxx [Cyy ...] --breaks TEXT --needs TEXT
Confirms a seeded change delivered by a sub-agent in /tmp/mut_<id>/ (worktree + _build + OUT/) and stores it:
  1. re-runs ctest in the agent's build directory (expects 120 passed, wrapint Not Run);
  2. compiles OUT/demo.cpp against the changed tree and against /repo (+/repo/_build) and runs both
     (expects exit != 0 on the change, 0 on /repo);
  3. copies patch.diff, demo.cpp, README.md to /verif/seeded/<id>/ and writes meta.json;
  4. runs tools/seeded_check.py --worktree <id>;
  5. removes the agent's worktree (with its build output)."""
import argparse
import json
import os
import shutil
import subprocess
import sys

HERE = os.path.dirname(os.path.abspath(__file__))
VERIF = os.path.dirname(HERE)


def sh(cmd, **kw):
    return subprocess.run(cmd, stdout=subprocess.PIPE, stderr=subprocess.STDOUT, text=True, **kw)


def main():
    ap = argparse.ArgumentParser()
    ap.add_argument("id")
    ap.add_argument("--props", nargs="+", required=True)
    ap.add_argument("--breaks", required=True)
    ap.add_argument("--needs", required=True)
    ap.add_argument("--keep", action="store_true")
    a = ap.parse_args()
    d = f"/tmp/mut_{a.id}"
    out = os.path.join(d, "OUT")
    r = sh(["ctest", "--test-dir", os.path.join(d, "_build"), "-j4", "--timeout", "900"])
    line = [l for l in r.stdout.split("\n") if "tests passed" in l]
    notrun = [l.strip() for l in r.stdout.split("\n") if "Not Run" in l and "-" in l]
    print("ctest:", line, notrun[:3])
    ok_tests = bool(line) and "1 tests failed out of 121" in line[0] and all("wrapint" in x for x in notrun)
    res = {}
    for tag, root in (("mut", d), ("orig", "/repo")):
        exe = f"/tmp/seeded_demo_{a.id}_{tag}"
        c = sh(["g++", "-std=c++17", "-O1", "-w", f"-I{root}/include", f"-I{root}/_build/include", f"-I{root}/tests", f"-I{root}",
                os.path.join(out, "demo.cpp"), f"{root}/_build/lib/libCrab.a", "-lgmp", "-o", exe])
        if c.returncode != 0:
            print(f"demo does not compile against {root}:\n{c.stdout[-1500:]}")
            res[tag] = None
            continue
        rr = sh([exe], timeout=1800)
        res[tag] = rr.returncode
        os.remove(exe)
    print("demo exit codes:", res)
    confirmed = ok_tests and res.get("orig") == 0 and res.get("mut") not in (0, None)
    if not confirmed:
        print("NOT CONFIRMED — nothing stored")
        return 1
    sd = os.path.join(VERIF, "seeded", a.id)
    os.makedirs(sd, exist_ok=True)
    for f in ("patch.diff", "demo.cpp", "README.md"):
        shutil.copy(os.path.join(out, f), os.path.join(sd, f))
    json.dump({
        "id": a.id,
        "kind": "seeded by an independent sub-agent (property text + own worktree only)",
        "properties": a.props, "breaks": a.breaks, "needs_to_manifest": a.needs,
        "confirmed": f"coordinator re-ran ctest in the agent's build dir ({line[0].strip()}; not run: wrapint only, as on the clean tree); demo exit {res['orig']} on /repo and {res['mut']} on the changed tree",
        "ran": f"tools/seeded_check.py --worktree {a.id}",
    }, open(os.path.join(sd, "meta.json"), "w"), indent=1)
    r = sh([sys.executable, os.path.join(HERE, "seeded_check.py"), "--worktree", a.id], cwd=VERIF)
    print(r.stdout[-600:])
    if not a.keep:
        sh(["git", "-C", "/repo", "worktree", "remove", "--force", d])
        shutil.rmtree(d, ignore_errors=True)
    return 0


if __name__ == "__main__":
    sys.exit(main())
