HOOK_COMMITS = ["53a4146"]
NOTES = ("Every check rebuilds lib/*.cpp and its harnesses from /repo's working tree (cache keyed by content hash under /verif/.cache), "
         "rebuilds and audits the Lean development, runs harness | crabdrv and writes evidence/<id>.json. known_findings.json lists recorded defects.")
NOT_APPLICABLE = {}
TEXT = {
 "C08": {
  "level": "proof (partial): Lean theorems over the exact branch-by-branch model of interval<z_number>/bound — soundness of <=, |, &, ||, &&, +, -, unary -, * for all intervals incl. infinite bounds and bottom, exactness of meet/neg, leastness of join, definedness (no CRAB_ERROR) on well-formed operands; the model is tied to the code on every run by exact correspondence on >2*10^5 boundary-biased cases and every answer of the implementation is additionally tested against the concrete operation. Still open as theorems (covered by the correspondence + concrete-witness search only): division, remainders, bitwise, shifts, tightness of +,-,*; congruences, signs, constants, disjunctive/wrapped intervals",
  "note": "trusted: Lean kernel (+propext, Classical.choice, Quot.sound), the hand-written model being the code (checked by differential run, not proved), harness/driver glue, GMP. Rational intervals and the other scalar abstractions are not yet modelled.",
  "technique": "Lean 4 theorems over a hand-written executable model + exact differential correspondence (harness|crabdrv) with concrete-witness search",
 },
 "C06": {
  "level": "proof (partial): the Lean model Crab.Fix.run transcribes wto_iterator (vertex/cycle visits, skipping until the start block, assumption strengthening, delay/extrapolate, descending refine); theorems so far: extrapolation is join up to widening_delay and widening after, first refinement is meet. The exactness statement itself (tables = least solution) is decided on every run by comparing the REAL iterator, driven with a finite-powerset client value type, against the Kleene least fixpoint and against the model (>6*10^4 random CFGs per quick run); the Lean proof of run_exact over the model is in progress",
  "note": "trusted: Lean kernel, model = code only by differential run, WTO/nesting/predecessor order taken from the implementation (C07 checks them), harness/driver glue",
  "technique": "Lean 4 model of the iterator + exact differential correspondence against the real iterator with a finite powerset value type and a Kleene least-fixpoint oracle",
 },
}
