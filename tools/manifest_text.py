HOOK_COMMITS = ["53a4146"]
NOTES = ("Every check rebuilds lib/*.cpp and its harnesses from /repo's working tree (cache keyed by content hash under /verif/.cache), "
         "rebuilds and audits the Lean development, runs harness | crabdrv and writes evidence/<id>.json. known_findings.json lists recorded defects.")
NOT_APPLICABLE = {}
TEXT = {
 "C08": {
  "level": "proof (partial): Lean theorems over the exact branch-by-branch model of interval<z_number>/bound — soundness of <=, |, &, ||, &&, +, -, unary -, * for all intervals incl. infinite bounds and bottom, exactness of meet/neg, leastness of join, definedness (no CRAB_ERROR) on well-formed operands; the model is tied to the code on every run by exact correspondence on >2*10^5 boundary-biased cases and every answer of the implementation is additionally tested against the concrete operation. Still open as theorems (covered by the correspondence + concrete-witness search only): division, remainders, bitwise, shifts, tightness of +,-,*; congruences, signs, constants, disjunctive/wrapped intervals",
  "note": "trusted: Lean kernel (+propext, Classical.choice, Quot.sound), the hand-written model being the code (checked by differential run, not proved), harness/driver glue, GMP. Rational intervals and the other scalar abstractions are not yet modelled.",
  "technique": "Lean 4 theorems over a hand-written executable model + exact differential correspondence (harness|crabdrv) with concrete-witness search",
 },
 "C06": {
  "level": "proof (partial): the Lean model Crab.Fix.run transcribes wto_iterator (vertex/cycle visits, skipping until the start block, assumption strengthening, delay/extrapolate, descending refine); theorems so far: extrapolation is join up to widening_delay and widening after, first refinement is meet. The exactness statement itself (tables = least solution) is decided on every run by comparing the REAL iterator, driven with a finite-powerset client value type, against the Kleene least fixpoint and against the model (>6*10^4 random CFGs per quick run); the Lean proof of run_exact over the model is in progress",
  "note": "trusted: Lean kernel, model = code only by differential run, WTO/nesting/predecessor order taken from the implementation (C07 checks them), harness/driver glue",
  "technique": "Lean 4 model of the iterator + exact differential correspondence against the real iterator with a finite powerset value type and a Kleene least-fixpoint oracle",
 },
 "C01": {
  "level": "proof (partial): C01.run_sound — for every value type satisfying the per-operation soundness contract (Sem), every well-formed weak topological ordering, every start block, assumption map, delay and descending count, the tables returned by the model of wto_iterator contain the collecting semantics (ReachPre/ReachPost), hence a bottom table entry means the block is never entered. Proved in Lean without bounds (1050 lines). Tied to the code by running the REAL iterator with a finite-powerset value type against the model and the Kleene least solution. Still open as theorems: the statement->operation mapping of intra_abs_transformer / fwd_analyzer pruning and the Sem instance of each shipped domain (exercised by the C03 history harness, not proved)",
  "note": "trusted: Lean kernel, model = code by differential run only, WTO taken from the implementation (C07), the concrete semantics definitions in CrabModel/Fix/Semantics.lean",
  "technique": "Lean 4 theorem (induction over the iterator model, semantic invariant with least solutions of sub-components) + exact differential correspondence with the real iterator",
 },
 "C03": {
  "level": "proof (partial): C03.history_sound — for ANY domain whose individual operations satisfy their soundness law, after ANY finite history over a pool (copies, transformers, joins/widenings, meets/narrowings) every slot contains the collecting semantics; instances proved for the interval value lattice. For the 16 shipped domain instantiations that build here the per-operation law is NOT proved: it is tested on every run by replaying generated histories on concrete witness states in the Lean driver and checking is_bottom / at(v) / every exported linear constraint (a failed membership is a concrete failing input)",
  "note": "trusted: Lean kernel; driver semantics lean/Driver/DomH.lean; sampling of witnesses; domains needing apron/elina/ldd/pplite are compiled out; term/powerset/congruence/sign/lookahead domains are not yet included (findings under triage, see DESIGN.md §7)",
  "technique": "Lean 4 theorem over a generic pool/history model + refinement correspondence (witness replay in the Lean driver) against every shipped domain",
 },
 "C04": {
  "level": "proof (partial): order and lattice laws proved for the interval value lattice (reflexive, bottom left, top right, yes => inclusion, is_bottom/is_top exact on well-formed values, join upper, meet exact); pool-level consequence proved generically; for the shipped domains the laws are evaluated on every run on all ordered pairs of pool values reached by generated histories (x<=x, bot<=x, x<=top, a<=b yes => witnesses of a satisfy every export of b, is_top/is_bottom after set_to_*)",
  "note": "as C03; environment-level theorems (<= iff pointwise) are part of C19",
  "technique": "Lean 4 theorems (interval lattice) + refinement correspondence over pair queries on every shipped domain",
 },
 "C05": {
  "level": "proof (partial): C05.run_terminates — for every value type whose strict widening steps are well founded, every WTO, every delay/descending/assumption setting, the iterator model terminates (some fuel suffices), with fuel monotonicity/irrelevance and a proof that the chain condition is necessary; the widening chain condition of the individual domains and the inter-procedural loops are not yet proved (watchdog only)",
  "note": "trusted: Lean kernel, model = code by differential run; watchdog = wall clock on every harness run",
  "technique": "Lean 4 theorem (well-founded induction over widening steps, structural induction over the WTO) + differential run of the real iterator under a watchdog",
 },
 "C13": {
  "level": "proof (partial): 46 Lean theorems: every wrapint operation (add, sub, mul, neg, udiv, urem, sdiv, srem, and, or, xor, not, shl/lshr/ashr for amounts < w, sext, zext, trunc, comparisons, signed/unsigned bignum conversion, construction from integers) of the model equals the BitVec w operation for ALL widths 1..64 and all operands; model tied to lib/wrapint.cpp by exact correspondence on 4*10^5 cases per run, each answer also compared with BitVec directly. Wrapped intervals and the wrapped-interval domain are not yet covered",
  "note": "trusted: Lean kernel, model = code by differential run; shifts by >= 64 are C++ UB (not modelled); z_number outside int64 is refused by the code (CRAB_ERROR)",
  "technique": "Lean 4 theorems against core BitVec + exact differential correspondence",
 },
 "C16": {
  "level": "proof (partial): reference semantics proved in Lean (an operation writes one pool slot; a copy is unaffected by any later history on the original; a concretisation-preserving normalisation does not change meaning); the implementation is compared with it on every run: after each operation of a generated history the complete dump (is_bottom, is_top, at(v), constraints) of every other pool value of 16 shipped domain instantiations (incl. the copy-on-write abstract_domain_ref wrapper) must be unchanged. The copy-on-write protocol model of generic_abstract_domain.hpp is in progress",
  "note": "as C03",
  "technique": "Lean 4 reference model + exact correspondence of dumps before/after each operation",
 },
 "C07": {
  "level": "proof: a decidable checker checkWto (each reachable node exactly once, proper nesting, every edge forward or into the head of an enclosing component, nesting table = enclosing heads outermost first) is proved sound AND complete w.r.t. the declarative WtoWF in Lean for all graphs/orderings (C07.checkWto_sound/_complete, nesting_spec), and proved to imply the well-formedness assumed by the fixpoint soundness theorem (C07.checkWto_implies_fix_wtowf). On every run the checker is evaluated on the ordering and nesting table the REAL wto<cfg> computes for >2*10^4 generated graphs, and the result is compared with the Lean transcription of the iterative algorithm. The unbounded theorem is proved too: C07.build_wf — the Lean transcription of the iterative Bourdoncle algorithm terminates within its fuel, never pops an empty stack and returns a well-formed ordering with the right nesting table for every graph and entry (Tarjan-style invariant over the explicit stacks, ~3000 lines), and C07.build_fix_wtowf feeds it into the fixpoint soundness theorem",
  "note": "trusted: Lean kernel; model = code by exact comparison of ordering and nesting table on every generated graph (CFG and call-graph instances); successor order read back from the graph",
  "technique": "Lean 4 proved checker (sound+complete) evaluated on the implementation's output + exact correspondence with a model of the algorithm",
 },
 "C20": {
  "level": "proof: 60 Lean theorems over exact models — int64/uint64/string round trips, truncating division/remainder characterised uniquely, floor shifts (for amounts < 2^64), two's-complement and/or/xor at every bit position incl. negatives, fill_ones, q_number construction/rounding = floor/ceil for every denominator != 0, exact q arithmetic, safe_i64 checked ops (= exact result iff in range, error otherwise, never wraps), linear expressions homomorphic under + - scale rename with canonical form preserved, negate = exact complement over the integers for every constraint kind, is_tautology/is_contradiction exact on constant constraints and false otherwise, normalize preserves the solution set; models tied to the code by exact correspondence on 2.5*10^5 cases per run plus evaluation of the mathematical meaning",
  "note": "trusted: Lean kernel, GMP = Int/Rat, harness glue; known finding F22 (shift amounts >= 2^64 reduced through mpz_get_ui) is recorded, not repaired",
  "technique": "Lean 4 theorems over exact models + exact differential correspondence",
 },
 "C19": {
  "level": "proof: 56 Lean theorems over the exact model of the big-endian Patricia trees (all structural cases of merge in both default modes, compare, insert, remove, the explicit-stack iterator; 64-bit index wrap explicit; pointer-equality shortcut as an oracle proved irrelevant): well-formedness preserved, lookup after insert/remove/merge is pointwise, compare <-> pointwise order, canonicity, iteration = sorted bindings exactly once; lifted to environments over intervals (at of join/meet/widening/narrowing pointwise, <= iff pointwise, set/forget/project/rename, iteration = non-top bindings) and to sets (union, intersection, subset, equality exact). Model tied to the code by exact correspondence (10^5 lines per run, three evaluations per line incl. a pointwise spec map)",
  "note": "trusted: Lean kernel; model = code by differential run; not modelled: widening_thresholds/transform; discrete_domain add/remove/diff/rename only tested",
  "technique": "Lean 4 refinement proofs (tree -> finite map) + exact differential correspondence with a spec-map oracle",
 },
 "C02": {
  "level": "proof (partial): Lean theorems over the model of assert_property_checker / intra_checker — a safe verdict (the invariant entails the condition, or assuming the negation is bottom) implies no state of the invariant fails the assert, an unreachable verdict implies no state reaches it, for numeric and boolean assertions, lifted to whole blocks and whole programs on top of C01.program_sound (C02.fwd_checker_sound_engine). Tied to the code by the program-level refinement harness: the REAL forward and forward+backward analyzers + checker run on generated programs over 6 domains, and the Lean driver searches concrete executions that fail a safe assert or reach an unreachable one. The forward+backward discharge rule (dominator-based) and the inter-procedural checker are only tested",
  "note": "trusted: Lean kernel; executable IR semantics (CrabModel/IR) as the meaning of programs; sampling of executions; domain contracts of shipped domains not proved",
  "technique": "Lean 4 theorems (checker decision rules, program-level soundness on top of the engine theorem) + refinement correspondence by concrete execution search",
 },
 "C17": {
  "level": "proof: Lean theorems over the transcription of cfg::simplify (DFS block merging, unreachable/useless block removal), dead_code_elimination and lower_safe_assertions: C17.simplify_preserves / simplify_wf (exit-reaching executions, entry/exit, well-formedness preserved, for every well-formed CFG whose exit has no successor), merge_blocks_preserves, remove_unreachable_preserves, dce_preserves (under the stated side condition that removed definitions cannot trap, with a counterexample showing it is needed), lower_preserves (unconditional). Tied to the code by exact comparison of the transformed CFG with the model's and by differential execution of original vs implementation-transformed programs on 1.2*10^4 generated programs per run",
  "note": "trusted: Lean kernel; TIR semantics; block order of the kill/gen iterator read from the implementation; 'simplify never raises CRAB_ERROR' is tested, the theorems are conditional on success",
  "technique": "Lean 4 simulation proofs over a transcription of the transformations + exact correspondence + differential execution",
 },
 "C18": {
  "level": "proof (partial): C18.dead_irrelevant / agree_on_live (specification liveness: two executions from states differing only in a dead variable produce the same observable trace, all programs, all paths), C18.coded_sound (the liveness equations as coded, for every block order, contain the specification liveness on every well-formed CFG) hence coded_dead_irrelevant; old behaviours kept as counterexample theorems behind explicit flags. Tied to the code by comparing liveness_analysis results with the model and by paired executions. The assertion crawler (assertion-dependence facts) is not modelled nor driven yet",
  "note": "trusted: Lean kernel; TIR semantics; block order input",
  "technique": "Lean 4 simulation proof + exact correspondence + paired concrete executions",
 },
 "C11": {
  "level": "proof (partial): 26 Lean theorems over the transcription of intra_necessary_preconditions_abs_transformer and BackwardAssignOps: per-statement and per-block backward soundness (C11.bwd_stmt_sound, bwd_block_sound, failing asserts in error mode), exactness of the two reachability passes that collect blocks which cannot reach the exit but can fail, C11.bwd_run_sound / bwd_precondition_sound (every co-reachable state is in the reported precondition of its block; obtained by instantiating the engine theorem C01.run_sound on the reversed graph), C11.empty_entry_precondition_safe, generic_backward_assign/apply_sound (incl. division by a constant), and replay_witness_coreach (every witness the driver reports is a real co-reachability witness). Tied to the code by the backward harness over 7 domains (error/good mode, supplied invariants true/top/none, single backward transformers, forward+backward safe verdicts). The backward contract of each shipped domain is tested, not proved",
  "note": "trusted: Lean kernel; BSemantics as the meaning of programs; bounded witness search; WTO of the reversed graph taken as input",
  "technique": "Lean 4 theorems (engine theorem instantiated on the reversed CFG) + refinement correspondence by witness-execution search",
 },
 "C09": {
  "level": "proof (partial): Lean theorems over the transcription of the call/return bookkeeping of top_down_inter_analyzer: C09.restrict_sound (get_callee_entry), C09.call_sound (get_caller_continuation incl. x=f(x), killed arguments, forgetting of callee locals) under the explicit name-sharing hypothesis SeqOK/CallOK (with a counterexample theorem showing the hypothesis is needed: known finding F29), C09.reuse_exact_sound (a summary may be reused for d <= pre, from the collecting semantics), lookup_sound, and the repaired context policy (fixed_policy_add_valid, fixed_lookup_sound). Whole-call-graph soundness, the recursion fixpoint and the checker integration are decided by the refinement harness only: the REAL analyzer on generated multi-function programs x all parameter settings x 5 domains, checked against call-stack executions (invariants and every stored summary)",
  "note": "trusted: Lean kernel; ISemantics as the meaning of programs; sampling; open known findings F29 (sequential parameter wiring with cross-position shared names) and F30 (mutual recursion entered through the non-head member) are recorded with matchers on the minimised shape",
  "technique": "Lean 4 theorems (call/return transformers, summary reuse) + refinement correspondence by call-stack execution",
 },
 "C10": {
  "level": "proof (partial): C10.summary_instantiate_sound (renaming lemma for re-instantiating a bottom-up summary at a call site, for any domain with sound rename/meet/forget); everything else (summary computation over the SCC order, top-down phase, different summary/forward domains) is decided by the refinement harness: the REAL bottom_up_inter_analyzer on generated programs for 5 (summary, forward) domain pairs, invariants and summaries checked against call-stack executions",
  "note": "as C09 (F29 also affects the bottom-up transformer)",
  "technique": "Lean 4 theorem (summary instantiation) + refinement correspondence by call-stack execution",
 },
 "C14": {
  "level": "proof (partial): the smashing functor over ANY base domain satisfying its per-operation laws is proved sound in Lean: C14.smash_step_sound, smash_history_sound, smash_load_sound (after any history of init / weak / strong / range stores, loads, array copies, joins, widenings every value a concrete load can return is described by the loaded variable) and smash_never_bottom_on_reachable; for array_adaptive the cell algebra is proved (adaptive_cells_cover, adaptive_written_cell_live). array_adaptive beyond the cell algebra and the meet of both array domains are decided by the refinement harness only: 8 domain variants x generated histories x adaptive parameters replayed on witness states with arrays",
  "note": "trusted: Lean kernel; ArraySem as the meaning of array operations; sampling of witnesses; the model of array_smashing is not compared op-by-op with the code (only through the witness replay)",
  "technique": "Lean 4 theorems (smashing functor, cell algebra) + refinement correspondence by witness replay",
 },
 "C15": {
  "level": "proof (partial): Lean theorems over the region-smashing functor (one ghost variable per region, strong update only while the region provably holds a single reference, reference counters as small ranges, allocation sites) for ANY base domain satisfying its laws, against a concrete heap semantics of regions and references: regionsmash_load_sound / load_value / load_ref_sound, store_sound, copy_sound, free_sound, join/widen_sound, nullity_sound, alloc_sites_superset, history_sound; the small_range counter is modelled exactly with soundness theorems per operation (finite table, decide). The real region_domain (2900 lines: ghost variable manager, unknown regions, casts, tags, deallocation classes, ref_assume, select_ref) is compared, not transcribed: 6 domain variants x generated histories x all region_domain_params replayed on witness heaps",
  "note": "trusted: Lean kernel; RegionSem as the meaning of region statements; sampling; open issue recorded in DESIGN.md: region_copy(g,g) with deallocation tracking raises CRAB_ERROR (skip)",
  "technique": "Lean 4 theorems (region smashing functor, small_range) + refinement correspondence by witness-heap replay",
 },
}
