#!/usr/bin/env python3
"""shrink_dom2.py <vdom-id> (--line '<request>' | --file F | --findings OUT)  [--drv crabdrv]
Delta-debug a (dom2.hist <name> (params ...) (ops ...) [(probes ...)]) request of harness/h_dom2.cpp (built with -DVDOM=<id>
against $REPO, default /repo): ops are removed, then parameters and probe constraints, while harness | crabdrv still reports a
non-ok verdict with the same tag ([C03] / [C04] / [C16]); with --err also while CRAB_ERROR is raised; a crash
(non-zero exit status) or a 60 s timeout of the harness is a verdict of its own.  Prints the minimal request, the verdict and the result.
--findings OUT : OUT is a harness output file and OUT.v the driver's verdicts (as written by hrun.py); every
reported line is minimised; prints one block per finding."""
import sys, os, subprocess, re, tempfile
HERE = os.path.dirname(os.path.abspath(__file__)); sys.path.insert(0, HERE)
import vlib


def split_top(s):
    out, depth, cur = [], 0, ""
    for ch in s:
        if ch == "(":
            depth += 1
        if depth > 0:
            cur += ch
        if ch == ")":
            depth -= 1
            if depth == 0:
                out.append(cur); cur = ""
    return out


class Shrinker:
    def __init__(self, vdom, drv=None):
        d, err = vlib.build_repo(); assert not err, err
        self.exe, err = vlib.build_harness(d, f"h_dom2_{vdom}", [f"-DVDOM={vdom}"], "h_dom2"); assert self.exe, err
        self.keep_err = False
        self.drv = drv or os.environ.get("DRV") or os.path.join(vlib.LEAN, ".lake", "build", "bin", "crabdrv")

    def run(self, head, params, ops, probes=()):
        pr = f" (probes {' '.join(probes)})" if probes else ""
        req = f"({head} (params{''.join(' ' + p for p in params)}) (ops {' '.join(ops)}){pr})"
        with tempfile.NamedTemporaryFile("w", suffix=".ops", delete=False) as f:
            f.write(req + "\n"); fn = f.name
        try:
            hp = subprocess.run([self.exe, "--ops", fn], stdout=subprocess.PIPE, stderr=subprocess.DEVNULL, text=True, timeout=60)
            o = hp.stdout
            if hp.returncode != 0:
                os.unlink(fn)
                return ("CRASH", None), f"harness exit status {hp.returncode}", o, req
        except subprocess.TimeoutExpired:
            os.unlink(fn)
            return ("TIMEOUT", None), "harness timeout (60 s)", "", req
        os.unlink(fn)
        v = subprocess.run([self.drv], input=o, stdout=subprocess.PIPE, text=True).stdout
        for l in v.split("\n"):
            mm = re.match(r"\d+ (UNSOUND|IMPRECISE|DRIFT) (\[C\d+\])?", l)
            if mm:
                return (mm.group(1), mm.group(2)), l, o, req
            if self.keep_err and re.match(r"\d+ SKIP .*CRAB_ERROR", l):
                return ("ERR", None), l, o, req
        return None, None, o, req

    def shrink(self, line):
        line = line.split(" => ")[0].strip()
        inner = line[1:-1]
        p = inner.index(" (")
        head = inner[:p]
        parts = split_top(inner[p:])
        assert len(parts) in (2, 3) and parts[0].startswith("(params") and parts[1].startswith("(ops"), parts[:1]
        params = split_top(parts[0][len("(params"):-1])
        ops = split_top(parts[1][len("(ops"):-1])
        probes = split_top(parts[2][len("(probes"):-1]) if len(parts) == 3 else []
        tag, msg, _, _ = self.run(head, params, ops, probes)
        if not tag:
            return None
        changed = True
        while changed:
            changed = False
            chunk = max(1, len(ops) // 2)
            while chunk >= 1:
                i = 0
                while i < len(ops):
                    cand = ops[:i] + ops[i + chunk:]
                    t, mg, _, _ = self.run(head, params, cand, probes)
                    if t == tag:
                        ops = cand; changed = True
                    else:
                        i += chunk
                chunk //= 2
            i = 0
            while i < len(params):
                cand = params[:i] + params[i + 1:]
                t, mg, _, _ = self.run(head, cand, ops, probes)
                if t == tag:
                    params = cand; changed = True
                else:
                    i += 1
            i = 0
            while i < len(probes):
                cand = probes[:i] + probes[i + 1:]
                t, mg, _, _ = self.run(head, params, ops, cand)
                if t == tag:
                    probes = cand; changed = True
                else:
                    i += 1
        t, mg, o, req = self.run(head, params, ops, probes)
        return req, mg, o


def main():
    a = sys.argv[1:]
    vdom = a[0]; line = None; findings = None; drv = None; keep_err = False
    i = 1
    while i < len(a):
        if a[i] == "--line": line = a[i + 1]; i += 2
        elif a[i] == "--file": line = open(a[i + 1]).read().strip().split("\n")[0]; i += 2
        elif a[i] == "--findings": findings = a[i + 1]; i += 2
        elif a[i] == "--drv": drv = a[i + 1]; i += 2
        elif a[i] == "--err": keep_err = True; i += 1
        else: i += 1
    sh = Shrinker(vdom, drv)
    sh.keep_err = keep_err
    if findings:
        reqs = [l for l in open(findings).read().split("\n")]
        # the driver numbers input lines from 1, comment / empty lines included
        for l in open(findings + ".v"):
            mm = re.match(r"(\d+) (UNSOUND|IMPRECISE|DRIFT) ", l) or (keep_err and re.match(r"(\d+) SKIP .*(CRAB_ERROR)", l))
            if not mm:
                continue
            r = sh.shrink(reqs[int(mm.group(1)) - 1])
            if r:
                print(f"## line {mm.group(1)}\n{r[0]}\n  {r[1][:500]}")
            else:
                print(f"## line {mm.group(1)}: does not fail on replay")
            sys.stdout.flush()
        return
    r = sh.shrink(line)
    assert r, "the line does not fail"
    print(r[0]); print(r[1][:700]); print(r[2][:3000])


main()
