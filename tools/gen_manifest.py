#!/usr/bin/env python3
"""Writes MANIFEST.json from tools/props.py + tools/manifest_text.py (kept in sync by hand-run)."""
import json, os, sys
HERE = os.path.dirname(os.path.abspath(__file__))
sys.path.insert(0, HERE)
import props, manifest_text as mt

allp = [json.loads(l)["id"] for l in open(os.path.join(HERE, "..", "properties.jsonl"))]
checks = []
for pid in allp:
    if pid not in props.PROPS or pid not in mt.TEXT:
        continue
    t = mt.TEXT[pid]
    checks.append({
        "property_id": pid,
        "quick_cmd": f"python3 tools/check.py {pid} --tier quick",
        "thorough_cmd": f"python3 tools/check.py {pid} --tier thorough",
        "evidence_file": f"evidence/{pid}.json",
        "replay_cmd_template": f"python3 tools/check.py {pid} --replay {{path}}",
        "engine": "lean4-model+correspondence",
        "level_claimed": {"category": props.PROPS[pid].get("level", "proof"), "text": t["level"], "design_ref": t.get("ref", "DESIGN.md §3 " + pid)},
        "level_note": t["note"],
        "technique": t["technique"],
    })
na = [{"property_id": p, "reason": mt.NOT_APPLICABLE.get(p, "not yet claimed: the model/theorems for this property are still being built (see DESIGN.md §7 status); no technique other than Lean proof + correspondence is used")}
      for p in allp if p not in [c["property_id"] for c in checks]]
m = {
    "version": 1,
    "setup_cmd": "python3 tools/setup.py",
    "hooks": {
        "guard": "CRAB_VERIF_HOOKS",
        "enable": "harnesses and lib/*.cpp are compiled by tools/vlib.py with -DCRAB_VERIF_HOOKS (CRAB_ERROR throws crab::verif_error instead of exit(1))",
        "baseline_off_cmd": "cmake --build /repo/_build -- -k 0 ; ctest --test-dir /repo/_build -j8 --timeout 900",
        "source_commits": mt.HOOK_COMMITS,
        "add_only": True,
    },
    "engines": [{"name": "lean4-model+correspondence", "path": "lean/ harness/ tools/",
                 "serves_properties": [c["property_id"] for c in checks],
                 "kind_free_text": "Lean 4 models + theorems (CrabModel/CrabProofs), compiled Lean driver crabdrv, C++ harnesses built against /repo's working tree, tools/check.py orchestrates"}],
    "checks": checks,
    "notes": mt.NOTES,
    "not_applicable": na,
}
json.dump(m, open(os.path.join(HERE, "..", "MANIFEST.json"), "w"), indent=1)
print("checks:", [c["property_id"] for c in checks], "not claimed:", [x["property_id"] for x in na])
