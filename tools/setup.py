#!/usr/bin/env python3
"""setup: build the Lean libraries, the driver and warm the object cache for the current tree (offline)."""
import os, sys
HERE = os.path.dirname(os.path.abspath(__file__))
sys.path.insert(0, HERE)
import vlib, props
rc, out = vlib.lake_build(["CrabModel", "crabdrv"])
print(out[-2000:])
if rc != 0:
    sys.exit(1)
mods = sorted({m for p in props.PROPS.values() for m in p.get("lean_modules", [])})
rc, out = vlib.lake_build(mods)
print(out[-2000:])
d, err = vlib.build_repo()
if err:
    print(err)
    sys.exit(1)
hs = sorted({c["harness"] for p in props.PROPS.values() for c in p.get("components", [])})
for h in hs:
    exe, err = vlib.build_harness(d, h)
    print(h, "ok" if exe else err)
sys.exit(0 if rc == 0 else 1)
