"""Mechanism T (DESIGN.md §2.5): regenerate the table files of the finite scalar abstractions
(`sign<z_number>`, `boolean_value`) from the current working tree of crab.

`gen_tables(repodir=None)` compiles harness/t_tables.cpp against the tree built in `repodir`
(a directory returned by `vlib.build_repo()`: contains `cfg/crab/config.h` and `libcrab.a`)
with the flags of the other harnesses, runs it once per table and rewrites
lean/CrabModel/Gen/{SignTable,BoolTable}.lean only when their content changes (so an unchanged
tree does not trigger a rebuild of the Lean files that import them).
Returns None on success, an error text otherwise.
"""
import os

import vlib

# (argument of t_tables, generated file relative to the lean directory, minimum plausible size)
TABLES = [
    ("sign", os.path.join("CrabModel", "Gen", "SignTable.lean"), 960),
    ("bool", os.path.join("CrabModel", "Gen", "BoolTable.lean"), 112),
]


def gen_tables(repodir=None, lean_dir=None):
    """`repodir`: directory returned by vlib.build_repo(); anything that is not a path
    (None, or the vlib.Run object the `tables` hook of a property passes) means: build/reuse
    the cached build of the current tree first."""
    lean_dir = lean_dir or vlib.LEAN
    if not isinstance(repodir, str):
        repodir, err = vlib.build_repo()
        if err:
            return "table generator: " + err
    exe, err = vlib.build_harness(repodir, "t_tables")
    if err:
        return "table generator: " + err
    changed = []
    for arg, rel, min_entries in TABLES:
        rc, out = vlib.sh([exe, arg], timeout=120)
        if rc != 0:
            return f"table generator `t_tables {arg}` failed (rc={rc}): {out[-2000:]}"
        if "end Gen" not in out or out.count("\n  (") + out.count("[\n  (") < min_entries:
            return f"table generator `t_tables {arg}`: implausible output ({len(out)} bytes)"
        path = os.path.join(lean_dir, rel)
        old = None
        if os.path.exists(path):
            with open(path, encoding="utf-8") as f:
                old = f.read()
        if old != out:
            os.makedirs(os.path.dirname(path), exist_ok=True)
            tmp = path + f".tmp{os.getpid()}"
            with open(tmp, "w", encoding="utf-8") as f:
                f.write(out)
            os.replace(tmp, path)
            changed.append(rel)
    gen_tables.changed = changed
    return None


gen_tables.changed = []

if __name__ == "__main__":
    import sys
    d, e = vlib.build_repo()
    if e:
        print(e)
        sys.exit(2)
    e = gen_tables(d)
    print(e or f"tables up to date (rewritten: {gen_tables.changed})")
    sys.exit(1 if e else 0)
