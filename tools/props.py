"""Per-property configuration of the checks (what is built, proved and run)."""

COMMON_TB = [
    "Lean 4.33 kernel; axioms allowed: propext, Classical.choice, Quot.sound (audited by #print axioms on every theorem, every run); no native_decide / bv_decide",
    "the correspondence is differential testing: generators, C++ harness glue (printing/canonicalisation), the driver's parser",
    "GMP, libstdc++, boost, g++",
]

import re
import tables
import cow_methods

def nontriv_cg(l):
    if "=>" not in l:
        return False
    vals = re.findall(r"\(cg -?\d+ -?\d+\)|bot", l.split("=>", 1)[1])
    ops = vals[:-1] if len(vals) > 1 else vals
    return bool(ops) and all(v not in ("bot", "(cg 1 0)") for v in ops)

def nontriv_fin(l):
    req = l.split("=>", 1)[0]
    return " bot" not in req and " top" not in req

def nontriv_iv(l):
    return "bot" not in l and "(iv -oo +oo)" not in l

FIX_COMPONENT = {"harness": "h_fix", "quick": 64000, "thorough": 1600000, "shards": 16,
                 "nontrivial": lambda l: bool(__import__("re").search(r"\(wto[^=]*\(\d+", l))}

# ---- generic domain-history harness (mechanism R): one binary per shipped domain -------------
DOMAINS = {  # VDOM id -> name (see harness/h_dom.cpp)
    1: "intervals", 2: "constants", 9: "dis-intervals", 13: "fixed-tvpi", 14: "flat-bool-intervals",
    15: "flat-bool-sparse-dbm", 18: "array-smashing-sdbm", 19: "array-adaptive-intervals",
    20: "generic-wrapper-sdbm", 21: "generic-wrapper-intervals", 22: "split-dbm-bignum",
    25: "sparse-dbm-int64", 26: "split-dbm-int64", 6: "sparse-dbm-safe", 7: "split-dbm-safe", 8: "split-oct-safe",
    3: "signs", 4: "sign-constants", 5: "ric", 24: "congruences",
    10: "term-intervals", 11: "term-sdbm", 12: "product-term-dis-sdbm", 17: "powerset-intervals", 16: "lookahead-soct",
}

def dom_components(tag, quick, thorough, ids=None):
    comps = []
    for d in (ids or sorted(DOMAINS)):
        comps.append({
            "harness": f"h_dom_{d}", "source": "h_dom", "defines": [f"-DVDOM={d}"],
            "quick": quick, "thorough": thorough, "shards": 1 if quick <= 1500 else 2,
            "corpus": "h_dom",
            "nontrivial": lambda l: "(assume" in l and ("(join" in l or "(widen" in l or "(meet" in l),
            # each property only counts the findings carrying its tag
            "accept": (lambda tag: (lambda verdict, req, msg: tag in msg or verdict == "DRIFT"))(tag),
        })
    return comps

def idom_component(tag):
    return {"harness": "h_idom", "quick": 16000, "thorough": 400000, "shards": 8, "corpus": "h_idom",
            "nontrivial": lambda l: "(assume" in l and ("(join" in l or "(widen" in l or "(meet" in l),
            "accept": (lambda tag: lambda v, req, msg: tag in msg or v == "DRIFT")(tag)}

def xdom_components(tag, quick=3500, thorough=150000):
    # exact models of constant_domain (1), sign_domain (2), congruence_domain (3), numerical_congruence_domain<interval_domain> 'ric' (4): every binding, flags, exported
    # constraints, entails / <= / at answers after every operation of a random history must be identical
    return [{"harness": f"h_cdom_{d}", "source": "h_cdom", "defines": [f"-DXDOM={d}"], "quick": quick, "thorough": thorough,
             "shards": 2, "nontrivial": lambda l: "(assume" in l and ("(join" in l or "(widen" in l or "(meet" in l),
             "accept": (lambda tag: lambda v, req, msg: tag in msg or v == "DRIFT")(tag)} for d in (1, 2, 3, 4)]


def rprog_components(tag, quick=2000, thorough=20000):
    # programs with region / reference statements analysed by the real forward and forward+backward analyzers over
    # region_domain<intervals | split_dbm | flat_bool(intervals) | array_adaptive(intervals) | constants | sign-constants>
    return [{"harness": f"h_rprog_{d}", "source": "h_rprog", "defines": [f"-DRDOM={d}"], "quick": quick, "thorough": thorough,
             "shards": 1, "corpus": "h_rprog",
             "nontrivial": lambda l: "(rassert" in l and ("(st " in l or "(ld " in l) and l.count("(stmts") >= 2,
             "accept": (lambda tag: lambda v, req, msg: tag in msg or v in ("DRIFT", "BAD"))(tag)} for d in range(1, 7)]


DOM2_DOMAINS = {27: "vpart-intervals", 28: "pvpart-sdbm", 29: "uf", 30: "packing-sdbm", 31: "packing-soct-safe",
 32: "rgn-intervals", 33: "rgn-flat-bool-intervals", 34: "flat-bool-sdbm-safe", 35: "flat-bool-soct-safe", 36: "flat-bool-term-intervals",
 37: "flat-bool-ric", 38: "term-dis-intervals", 39: "term-sparse-dbm", 40: "product-intervals-congruences", 41: "product-sdbm-safe-dis-intervals",
 42: "rproduct-intervals-sdbm-safe", 43: "powerset-sdbm-safe", 44: "powerset-flat-bool-intervals", 45: "array-adaptive-flat-bool-intervals",
 46: "array-smashing-flat-bool-sparse-dbm", 47: "array-adaptive-term-intervals", 48: "powerset-array-adaptive-intervals", 49: "flat-boolean",
 50: "split-oct-int64", 51: "lookahead-flat-bool-sdbm-safe", 52: "generic-wrapper-flat-bool-intervals", 53: "fixed-tvpi-soct-safe",
 54: "flat-bool-dis-intervals", 55: "flat-bool-product-term-sdbm-safe", 56: "flat-bool-constants", 57: "powerset-dis-intervals"}

def dom2_components(tag, quick, thorough, ids=None):
    allids = sorted(set(DOMAINS) | set(DOM2_DOMAINS))
    return [{"harness": f"h_dom2_{d}", "source": "h_dom2", "defines": [f"-DVDOM={d}"], "quick": quick, "thorough": thorough,
             "shards": 1, "corpus": "h_dom2",
             "nontrivial": lambda l: ("(bassume" in l or "(cast" in l or "(entails" in l) and ("(join" in l or "(widen" in l or "(meet" in l),
             "accept": (lambda tag: (lambda v, req, msg: tag in msg or v == "DRIFT"))(tag)} for d in (ids or allids)]

WCHAIN_IDS = [1, 2, 3, 4, 5, 6, 7, 8, 9, 10, 11, 12, 13, 14, 15, 16, 17, 18, 19, 20, 21, 22, 24, 25, 26]
def wchain_components(quick=150, thorough=3000):
    acc = lambda v, req, msg: "[C05]" in msg or v in ("DRIFT", "BAD")
    nt = lambda l: (lambda m: bool(m) and m.group(1).count("0") >= 2)(re.search(r"\(st ([01]+)\)", l))
    cs = [{"harness": f"h_widen_{d}", "source": "h_widen", "defines": [f"-DVDOM={d}"], "quick": quick, "thorough": thorough,
           "shards": 1, "corpus": "h_widen", "nontrivial": nt, "accept": acc} for d in WCHAIN_IDS]
    cs.append({"harness": "h_widen_scalar", "source": "h_widen", "defines": ["-DWSCALAR=1"], "quick": 1500, "thorough": 60000,
               "shards": 1, "nontrivial": nt, "accept": acc})
    return cs


# zones widening chains given by in-language constraints, replayed by the PROVED model (CrabModel/Dom/DbmWiden.lean)
ZW_IDS = [6, 7, 22, 25, 26]


def zw_components(quick=3000, thorough=100000):
    nt = lambda l: (lambda m: bool(m) and m.group(1).count("0") >= 2)(re.search(r"\(st ([01]+)\)", l))
    return [{"harness": f"h_zwiden_{d}", "source": "h_zwiden", "defines": [f"-DVDOM={d}"], "quick": quick,
             "thorough": thorough, "shards": 2, "corpus": "h_zwiden", "nontrivial": nt} for d in ZW_IDS]

# octagon widening chains (split_oct operator|| as coded) replayed by the PROVED model CrabModel/Dom/OctWiden.lean
OW_IDS = [8, 27]


def ow_components(quick=2000, thorough=40000):
    nt = lambda l: (lambda m: bool(m) and m.group(1).count("0") >= 2)(re.search(r"\(st ([01]+)\)", l))
    return [{"harness": f"h_owiden_{d}", "source": "h_owiden", "defines": [f"-DVDOM={d}"], "quick": quick,
             "thorough": thorough, "shards": 2, "corpus": "h_owiden", "nontrivial": nt} for d in OW_IDS]


DOM_RULE = ("operation histories (6-34 ops quick, up to 66 thorough, after a seeding phase) over a pool of 4 abstract values and 5 integer variables: "
            "assign / arith / bitwise / assume (in-language and general linear constraints, strict, disequations, non-unit coefficients) / select / forget / project / rename / expand / "
            "join / meet / widen / narrow / in-place join, meet / copy / normalize / minimize; replayed by the driver on <=40 concrete witness states per value "
            "(constants of the history and neighbours); after every op the value's is_bottom, at(v) for all v and every exported linear constraint are checked against all witnesses; "
            "non-trivial = the history has an assume and a lattice operation; distinct = distinct request lines")
DOM_ASSUME = [
    "concrete semantics on mathematical integers (DESIGN.md §2.3): sdiv/srem truncate, division by zero has no successor, udiv/urem/lshr only on non-negative operands, shifts 0..4096",
    "domains that need external libraries (boxes/LDD, apron, elina, pplite) are compiled out in this sandbox and not covered",
    "int64-weight DBM instantiations get constants below 10^5 (documented unchecked arithmetic); SafeInt64 / bignum instantiations get large constants",
    "witness sets are samples of the collecting semantics: a violation is a concrete failing input, absence of violation is not a proof for the unmodelled domains",
]

def prog_components(tag, quick, thorough, ids=(1, 7, 8, 9, 14, 26)):
    return [{"harness": f"h_prog_{d}", "source": "h_prog", "defines": [f"-DVDOM={d}"],
             "quick": quick, "thorough": thorough, "shards": 1, "corpus": "h_prog",
             "nontrivial": lambda l: l.count("(stmts") >= 3 and "(assert" in l,
             "accept": (lambda tag: lambda v, req, msg: tag in msg or v in ("DRIFT", "BAD"))(tag)}
            for d in ids]

PROG_RULE = ("generated well-typed CrabIR programs (2-8 blocks quick, up to 14 thorough: chains, diamonds, simple/nested/irreducible loops with counters and guards, self loops, blocks not reaching exit, unreachable blocks and statements, true/false/sometimes-false asserts; integer and boolean statements of every kind) analysed by the REAL intra_fwd_analyzer (and intra_forward_backward_analyzer) with random fixpoint parameters and liveness pruning on/off over 6 domains; the Lean driver runs hundreds of concrete executions per program (initial states inside the declared box, boundary-directed havoc values and successor choices) and checks every visited (block, state) against the exported invariants and every assertion verdict; a violation is replayed before it is reported; non-trivial = at least 3 blocks and an assert")

PROPS = {
    "C08": {
        "level": "proof",
        "lean_modules": ["CrabProofs.Props.C08", "CrabProofs.Props.C08Cong", "CrabProofs.Props.C08Fin",
                         "CrabProofs.Props.C08Cst", "CrabProofs.Props.C08IC", "CrabProofs.Props.C08Itv2", "CrabProofs.Props.C08Dis"],
        "tables": [tables.gen_tables],
        "components": [
            {"harness": "h_iv", "quick": 240000, "thorough": 4000000, "shards": 16, "nontrivial": nontriv_iv},
            {"harness": "h_cong", "quick": 150000, "thorough": 3000000, "shards": 16, "nontrivial": nontriv_cg},
            {"harness": "h_fin", "quick": 100000, "thorough": 1000000, "shards": 8, "nontrivial": nontriv_fin},
            # dis_interval<z_number> driven directly: normalised, related and raw vectors (unsorted, overlapping, adjacent,
            # bottom / top intervals inside, +-oo ends) up to 49 intervals, the 50-disjunct merge, every operation
            {"harness": "h_dis", "quick": 200000, "thorough": 3000000, "shards": 16, "corpus": "h_dis",
             "nontrivial": lambda l: l.count("(l ") >= 2},
        ],
        "rule": "intervals: boundary-biased random operands (bottom, top, singletons, half lines, zero-crossing, 2^k±d, 40-digit) x every operation; congruences / interval-congruences built through the public API by expressions (moduli 0..12, 13..1000, 2^32, 2^63±1, 2^64, negative residues, bottom, top) x every operation; sign and boolean: the whole finite domain (tables regenerated from the tree on every run); constants: boundary-biased numbers; a case is non-trivial when no operand is bottom or top; distinct = distinct request lines",
        "assumptions": [
            "concrete semantics of the operations on mathematical integers: sdiv/srem truncate, division/remainder by zero has no successor, ashr = floor division by 2^k, lshr/udiv/urem only checked on non-negative operands, and/or/xor = infinite two's complement",
        ],
        "trusted_base": COMMON_TB + ["models: CrabModel/Scalar/{Bound,Interval}.lean, CrabModel/Num/ZNum.lean (hand written, tied by exact correspondence E)"],
    },
    "C06": {
        "level": "proof",
        "lean_modules": ["CrabProofs.Props.C06"],
        "components": [FIX_COMPONENT],
        "rule": "random CFGs (1-8 blocks quick, 1-14 thorough; self loops, nested and irreducible cycles, unreachable blocks with edges into loops) over 1-6 (10) concrete states, random per-block transition relations, random cfg entry, start block among the reachable blocks, assumption maps, delay 0-3, descending 0-3, widening join|jump-to-top, narrowing meet|classic; non-trivial = the ordering contains a cycle; distinct = distinct request lines",
        "assumptions": [
            "the WTO, nesting table and predecessor order are taken from the implementation's own data structures (inputs of the iterator model); the WTO itself is property C07",
            "admissible start blocks for exactness: the first block of the ordering (cfg entry, may head a loop) or a block outside every loop; other reachable start blocks are checked for soundness and model equality only",
            "concrete semantics of an assumption map: a state entering block b survives iff it is in asm(b)",
        ],
        "trusted_base": COMMON_TB + ["model: CrabModel/Fix/Interleaved.lean (hand written transcription of wto_iterator, tied by exact table equality on every generated CFG)"],
    },
    "C03": {
        "level": "proof",
        "lean_modules": ["CrabProofs.Props.C03", "CrabProofs.Props.C03Itv", "CrabProofs.Props.C03Cst", "CrabProofs.Props.C03Sgn",
                         "CrabProofs.Props.C03CongDom", "CrabProofs.Props.C03Ric", "CrabProofs.Props.C03Rel", "CrabProofs.Props.C03Functors", "CrabProofs.Props.C03FlatBool",
                         "CrabProofs.Props.C03FlatBoolCex", "CrabProofs.Props.C03Functors2"],
        "components": [idom_component("[C03]")] + xdom_components("[C03]") + dom_components("[C03]", 900, 12000) + dom2_components("[C03]", 400, 6000),
        "rule": DOM_RULE, "assumptions": DOM_ASSUME,
        "trusted_base": COMMON_TB + ["driver concrete semantics: lean/Driver/DomH.lean (definitions of the witness replay and of membership)"],
    },
    "C04": {
        "level": "proof",
        "lean_modules": ["CrabProofs.Props.C04", "CrabProofs.Props.C04Itv", "CrabProofs.Props.C04Cst", "CrabProofs.Props.C04Sgn",
                         "CrabProofs.Props.C04CongDom", "CrabProofs.Props.C04Ric", "CrabProofs.Props.C04Rel", "CrabProofs.Props.C04Functors", "CrabProofs.Props.C04FlatBool", "CrabProofs.Props.C04Functors2"],
        "components": [idom_component("[C04]")] + xdom_components("[C04]") + dom_components("[C04]", 700, 10000) + dom2_components("[C04]", 300, 5000),
        "rule": DOM_RULE + "; C04 adds: all ordered pairs of the final pool for <=, x<=x, bot<=x, x<=top, is_bottom(bottom), is_top(top), is_top/is_bottom after set_to_*",
        "assumptions": DOM_ASSUME,
        "trusted_base": COMMON_TB + ["driver concrete semantics: lean/Driver/DomH.lean"],
    },
    "C16": {
        "level": "proof",
        "lean_modules": ["CrabProofs.Props.C16", "CrabProofs.Props.C16Cow"],
        "tables": [cow_methods.gen_cow_methods],
        "components": dom_components("[C16]", 700, 10000) + dom2_components("[C16]", 300, 5000),
        "rule": DOM_RULE + "; C16: after every operation on one value the full dump (is_bottom, is_top, at(v), constraints) of every other pool value must be unchanged; copies are made by the copy constructor and copy assignment",
        "assumptions": DOM_ASSUME,
        "trusted_base": COMMON_TB,
    },
    "C01": {
        "level": "proof",
        "lean_modules": ["CrabProofs.Props.C01Engine", "CrabProofs.Props.C01Prog", "CrabProofs.Props.C01XDom", "CrabProofs.Props.C01Rel", "CrabProofs.Props.C01Transformer"],
        "components": [FIX_COMPONENT] + prog_components("[C01]", 500, 6000) + prog_components("[C01]", 250, 3000, ids=(15, 17, 13)) + rprog_components("[C01]", 1200, 12000),
        "rule": "(1) iterator harness as C06: random CFGs x relations x start blocks x assumption maps x delay/descending x widening/narrowing modes; every table entry of the real iterator must contain the Kleene least solution. (2) " + PROG_RULE,
        "assumptions": ["the statement->operation mapping of intra_abs_transformer, liveness pruning and thresholds are covered by the program harness (tested), the engine and the interval domain by theorems; the Sem contract of the other shipped domains is tested (C03 history harness + program harness)",
                        ],
        "trusted_base": COMMON_TB + ["model: CrabModel/Fix/Interleaved.lean; semantics: CrabModel/Fix/Semantics.lean"],
    },
    "C05": {
        "level": "proof",
        "lean_modules": ["CrabProofs.Props.C05", "CrabProofs.Props.C05Itv", "CrabProofs.Props.C05Chain", "CrabProofs.Props.C05Zones", "CrabProofs.Props.C05XDom", "CrabProofs.Props.C05Rel", "CrabProofs.Props.C05Oct", "CrabProofs.Props.C05Dis"],
        "components": [dict(FIX_COMPONENT, timeout=600)] + wchain_components() + zw_components() + ow_components(),
        "rule": "(1) same iterator harness as C06; every run is executed under a wall-clock watchdog; the model needs finite fuel on every generated CFG. (2) widening chains x_i = x_{i-1} widen y_i over 25 shipped domain instantiations and the wrapped_interval scalar (all widths): y_i independent values, loop-body images F(x_{i-1}) and F(x_{i-1}) | x0; plain widening, widening_thresholds with random threshold sets, delayed widening; adversarial sequences (ever-growing bounds, alternating variables, new relations, constants jumping over thresholds) and realistic loop bodies; every witness of both arguments must satisfy the result, the chain must reach a stationary suffix within 60-300 steps; narrowing of decreasing pairs must keep the second argument's states; non-trivial = at least two non-stationary steps. (3) zones widening chains given by in-language constraints (2-5 variables; two/three-counter families, one-constant-moves, translated loops, random and infeasible values; plain / widening_thresholds / probed / operator[]-on-stored modes) over split_dbm and sparse_dbm (5 instantiations) replayed by the PROVED model of C05Zones: bottom-ness, both inclusion flags and the closed result are compared entrywise per step. (4) the same for the split_oct widening (2 instantiations): stored graph, vertex map and unstable set compared entrywise with the proved model of operator|| / split_widen / split_widen_rels, both inclusion flags, tight closures, witness containment",
        "assumptions": ["the widening chain condition is proved for intervals, the interval domain, congruences, constants and signs; for the other shipped domains it is tested by the chain harness (no stationary suffix within N steps is reported, a run cannot prove non-termination)", "inter-procedural recursion loops are only exercised by the C09 harness under its watchdog"],
        "trusted_base": COMMON_TB + ["model: CrabModel/Fix/Interleaved.lean"],
    },
    "C13": {
        "level": "proof",
        "lean_modules": ["CrabProofs.Props.C13", "CrabProofs.Props.C13WInt", "CrabProofs.Props.C13WInt2", "CrabProofs.Props.C13WDom",
                         "CrabProofs.Props.C13WDomEnv", "CrabProofs.Props.C13WDomAssume", "CrabProofs.Props.C13WDomHist"],
        "components": [{"harness": "h_wrap", "quick": 400000, "thorough": 8000000, "shards": 16,
                        "nontrivial": lambda l: True},
                       {"harness": "h_wint", "quick": 100000, "thorough": 2000000, "shards": 16, "corpus": "h_wint",
                        "nontrivial": lambda l: " top" not in l and " bot" not in l},
                       {"harness": "h_wint", "key": "h_wint_exhaustive", "args": ["--exhaustive"], "quick": 70000, "thorough": 1140000,
                        "shards": 1, "nontrivial": lambda l: " top" not in l and " bot" not in l},
                       # wrapped_interval_domain (the domain on top of the scalar): exact model compared after every operation,
                       # bit-vector witness replay; assume / entails judged on witnesses whose constraint cannot overflow
                       {"harness": "h_wdom", "quick": 6000, "thorough": 150000, "shards": 8,
                        "nontrivial": lambda l: "(arith " in l or "(assume " in l or "(cast " in l}],
        "rule": "wrapint: all widths 1..64 (biased to 1,2,7,8,31,32,33,63,64) x operands biased to 0,1,2^(w-1)-1,2^(w-1),2^w-1,random x every operation incl. shift amounts >= the width; each answer compared with the model and with BitVec w directly. wrapped_interval: every operation over random intervals at random widths (poles crossing, top, bottom) and EXHAUSTIVELY over every pair of intervals at width 3 (quick) / 3 and 4 (thorough); soundness of each answer checked against all concrete bit-vector members (complete enumeration for w <= 6); distinct = distinct request lines",
        "assumptions": ["construction from a big integer outside int64 raises CRAB_ERROR (documented limitation): skipped", "wrapped_interval_domain: crab does not say whether the expression of an assumed linear constraint is evaluated over the integers or with wrap-around; assume / entails are judged only on witnesses for which both readings agree; wrapped_numerical_domain and the with-history variant are not driven", "widening_thresholds of wrapped_interval is not modelled (same fixed branch as ||)"],
        "trusted_base": COMMON_TB + ["model: CrabModel/Num/WrapInt.lean"],
    },
    "C07": {
        "level": "proof",
        "lean_modules": ["CrabProofs.Props.C07", "CrabProofs.Props.C07Fix"],
        "components": [{"harness": "h_wto", "quick": 24000, "thorough": 600000, "shards": 8,
                        "nontrivial": lambda l: (" (w " in l) and ("(" in l.split(" (w ", 1)[1].split(" (nest", 1)[0])}],
        "rule": "random directed graphs (1-16 nodes quick, up to 40 thorough; self loops, nested and irreducible cycles, unreachable parts, every node as entry, permuted successor orders) built as real crab CFGs; the implementation's ordering and nesting table are checked by the proved checker checkWto and compared with the model of the iterative Bourdoncle algorithm; non-trivial = the ordering has a cycle",
        "assumptions": ["successor order = the order in which the graph enumerates out_edges (read back and printed by the harness; the driver checks it is the same edge set as requested)"],
        "trusted_base": COMMON_TB + ["model: CrabModel/Graph/Wto.lean, checker: CrabModel/Graph/WtoCheck.lean"],
    },
    "C20": {
        "level": "proof",
        "lean_modules": ["CrabProofs.Props.C20"],
        "components": [
            {"harness": "h_num", "quick": 200000, "thorough": 4000000, "shards": 16,
             "nontrivial": lambda l: not l.startswith(("(num.q_mk", "(num.q_ofz", "(num.neg"))},
            {"harness": "h_lin", "quick": 50000, "thorough": 1000000, "shards": 16,
             "nontrivial": lambda l: l.count("(") > 6},
        ],
        "rule": "boundary-biased numbers (0, +-1, around +-2^31, +-2^63, +-2^64, 40-digit; zero divisors; negative/huge shift amounts in a small share) x every z_number / q_number / safe_i64 operation; linear expressions built by random operation histories over <= 6 variables, constraints of all four kinds, systems; every answer compared with the model and with the mathematical meaning (evaluation on valuations)",
        "assumptions": ["GMP = Int/Rat", "safe_i64 division by zero is never executed (would trap)", "shift amounts >= 2^64 are a recorded finding (F22)"],
        "trusted_base": COMMON_TB + ["models: CrabModel/Num/{ZNum,ZNumExtra,QNum,SafeInt}.lean, CrabModel/Lin/*.lean"],
    },
    "C19": {
        "level": "proof",
        "lean_modules": ["CrabProofs.Props.C19"],
        "components": [{"harness": "h_env", "quick": 100000, "thorough": 2000000, "shards": 16,
                        "nontrivial": lambda l: l.count("(iv ") >= 3 or (l.startswith("(pset.") and l.count(" ") >= 6)}],
        "rule": "separate_domain<Key, interval> and patricia_tree_set/discrete_domain with freely chosen 64-bit indices (dense, sparse, high bits, adversarial common prefixes): single operations on operands rebuilt from text, operands derived from each other (physical sharing) and whole histories over a pool of 6 environments; every answer compared with the tree model (pointer-equality oracle always false AND structural) and with a plain association-list spec map; non-trivial = at least 3 bindings involved",
        "assumptions": ["widening_thresholds and transform of separate_domain are not modelled", "rename follows the documented precondition (targets unbound)"],
        "trusted_base": COMMON_TB + ["models: CrabModel/Container/{Patricia,SeparateDomain,PSet}.lean"],
    },
    "C12": {
        "level": "proof",
        "lean_modules": ["CrabProofs.Props.C12", "CrabProofs.Props.C12Incr"],
        "components": (
            [{"harness": f"h_exact_{d}", "source": "h_exact", "defines": [f"-DVDOM={d}"], "quick": 500, "thorough": 20000,
              "shards": 1, "corpus": f"h_exact_{d}",
              "nontrivial": lambda l: "(assume" in l and ("(join" in l or "(meet" in l or "(forget" in l or "(assign" in l or "(project" in l)}
             for d in [1, 26, 7, 22, 25, 6, 27, 8]] +
            [{"harness": f"h_exact_{d}", "source": "h_exact", "defines": [f"-DVDOM={d}"], "quick": 150, "thorough": 5000,
              "shards": 1, "corpus": f"h_exact_{d}",
              "nontrivial": lambda l: "(assume" in l and ("(join" in l or "(meet" in l or "(forget" in l or "(assign" in l or "(project" in l)}
             for d in [14, 15, 18, 19, 28, 29]]),
        "rule": "random conjunctions of in-language constraints (unit coefficients, constants small and large; satisfiable, unsatisfiable, integer-only contradictions) over 1-7 variables, added in random order and interleaved with copies, joins, meets, forgets (single and vector), projections and in-language assignments (x := k, x := y + k, x := -y + k) over a pool of 3 values, under randomised closure parameters; after every step is_bottom, operator[](v) and entails(c) for a battery of in-language constraints are compared with the proved-exact Lean model (zones / octagons / interval environments); wrappers (flat boolean, array smashing/adaptive, product) are compared with their base",
        "assumptions": ["int64 DBM weights: constants below ~3.6*10^7 (documented unchecked arithmetic)", "precision claims use operator[] (normalising); at() is only checked for soundness"],
        "trusted_base": COMMON_TB + ["models: CrabModel/Dom/{Dbm,Zones,Octagon,ItvEnv,ZonesOps,OctagonOps,ItvEnvOps}.lean"],
    },
    "C17": {
        "level": "proof",
        "lean_modules": ["CrabProofs.Props.C17", "CrabProofs.Props.C17Simplify"],
        "components": [{"harness": "h_xform", "quick": 12000, "thorough": 400000, "shards": 4,
                        "nontrivial": lambda l: l.startswith("(xf.") and (lambda m: bool(m) and m.group(1) != m.group(2))(re.search(r"\(orig (.*)\) \(res (.*)\) \(order", l)),
                        "accept": lambda v, req, msg: "[C17]" in msg or (v in ("DRIFT", "BAD") and req.startswith("(xf."))}],
        "rule": "random programs (1-10 blocks: chains, diamonds, loops, self loops, unreachable blocks, blocks not reaching exit, unreachable statements, dead assignments, asserts) transformed by the real simplify / dead_code_elimination / lower_safe_assertions; original and IMPLEMENTATION-transformed program are executed on the same inputs and choice streams and their observable traces compared; the transformed CFG must be well formed and equal to the model's; non-trivial = the transformation changed the program",
        "assumptions": ["all variables have a value at entry", "behaviour comparison requires an exit block without successors; otherwise only model equality and well-formedness", "runs in which the original divides by zero are skipped (a dead x/0 blocks the original only)"],
        "trusted_base": COMMON_TB + ["models: CrabModel/Transform/{TIR,Simplify,Dce}.lean"],
    },
    "C18": {
        "level": "proof",
        "lean_modules": ["CrabProofs.Props.C18", "CrabProofs.Props.C18Crawler", "CrabProofs.Props.C18Ctrl"],
        "components": [{"harness": "h_xform", "quick": 12000, "thorough": 400000, "shards": 4,
                        "nontrivial": lambda l: l.startswith("(live."),
                        "accept": lambda v, req, msg: "[C18]" in msg or (v in ("DRIFT", "BAD") and req.startswith("(live."))},
                       {"harness": "h_crawl", "quick": 6000, "thorough": 200000, "shards": 8,
                        "nontrivial": lambda l: l.startswith("(crawl.") and "(assert" in l,
                        "accept": lambda v, req, msg: "[C18]" in msg or (v in ("DRIFT", "BAD") and req.startswith("(crawl."))}],
        "rule": "same program generator; the real liveness_analysis results (live at block end, dead_exit) are compared with the model of the coded equations run on the implementation's own block order, with the specification liveness (implementation dead must be spec dead), and by paired executions differing only in a reported-dead variable. Assertion crawler: the real assertion_crawler (data-only and data+control, block-entry and per-statement answers) on generated programs (if/else with complementary assumes, loops, early returns, error sinks, assignment chains, killing redefinitions, havoc, select); for every (point, assertion, variable not reported) paired executions differing only in that variable are compared; answers are also compared with the Lean model (repaired variant, exact equality) and must pass the proved-sufficient decidable conditions isDataSol and isCtrlSol; the real control-dependence graph is compared with the model of cdg.hpp (immediate post-dominators by their specification, runner walk, escape rule) and must pass isCdgOK",
        "assumptions": ["block order of run_bwd_fixpo is an input of the models (read from the implementation); boost's lengauer_tarjan_dominator_tree is modelled by its specification (closest strict post-dominator) and tied by the graph comparison on every line", "control dependence is judged only at deterministic branches (complementary assumes)"],
        "trusted_base": COMMON_TB + ["models: CrabModel/Transform/{TIR,Liveness,Crawler,Cdg}.lean"],
    },
    "C02": {
        "level": "proof",
        "lean_modules": ["CrabProofs.Props.C02", "CrabProofs.Props.C02Rgn", "CrabProofs.Props.C02FwdBwd", "CrabProofs.Props.C02FwdBwdEx",
                         "CrabProofs.Props.C02FwdBwdC11"],
        "components": prog_components("[C02]", 500, 6000) + prog_components("[C02]", 250, 3000, ids=(13, 16, 17, 15)) + rprog_components("[C02]"),
        "rule": PROG_RULE,
        "assumptions": ["concrete semantics of DESIGN.md 2.3; executions that hit an operation crab gives no meaning to are not counted", "the inter-procedural checker is covered by C09's harness"],
        "trusted_base": COMMON_TB + ["semantics: CrabModel/IR/{Syntax,Semantics}.lean; checker model: CrabModel/Analysis/Checker.lean"],
    },
    "C11": {
        "level": "proof",
        "lean_modules": ["CrabProofs.Props.C11", "CrabProofs.Props.C11Inst", "CrabProofs.Props.C11InstEx"],
        "components": [{"harness": f"h_bwd_{d}", "source": "h_bwd", "defines": [f"-DVDOM={d}"],
                        "quick": 1200, "thorough": 12000, "shards": 2, "corpus": "h_bwd",
                        "nontrivial": lambda l: l.startswith("(bwd.op") or (len(l.split("(pre", 1)) == 2 and "(f 0" in l.split("(pre", 1)[1] and ("(cs (le" in l.split("(pre", 1)[1] or "(cs (eq" in l.split("(pre", 1)[1])),
                        "accept": lambda verdict, req, msg: "[C11]" in msg or verdict == "DRIFT"}
                       for d in [1, 8, 9, 14, 26, 2, 3]] + rprog_components("[C11]", 1200, 12000),
        "rule": ("random CFGs with an exit block (2-8 blocks quick, up to 10 thorough; loops, diamonds, dead-end blocks and trap loops, asserts in several blocks) x mode error|good x supplied forward invariants (the forward analyser's / top / none) x final states (bottom, top, random box); single statements through intra_necessary_preconditions_abs_transformer::exec with random post value and forward invariant; intra_forward_backward_analyzer safe verdicts. The driver samples block-entry states, searches a witness execution (bounded DFS, replay-validated) for every state outside the exported precondition; non-trivial = some block precondition is neither top nor bottom"),
        "assumptions": ["concrete semantics DESIGN.md 2.3", "left operand of bin_op is a variable", "the backward contract of the shipped domains is sampled, not proved; fixed_tvpi/lookahead/numerical_packing/powerset/value_partitioning/uf backward operations are not driven"],
        "trusted_base": COMMON_TB + ["models: CrabModel/Bwd/{BSyntax,BSemantics,BwdTransfer}.lean; driver search/replay: Driver/BwdH.lean (replay proved to imply CoReach)"],
    },
    "C09": {
        "level": "proof",
        "lean_modules": ["CrabProofs.Props.C09", "CrabProofs.Props.C09TopDown"],
        "components": [{"harness": f"h_inter_td_{k}", "source": "h_inter", "defines": [f"-DVDOM={k}", "-DVMODE=0"], "corpus": "h_inter",
                        "quick": 1500, "thorough": 40000, "shards": 2,
                        "nontrivial": lambda l: "(call" in l,
                        "accept": lambda v, req, msg: ("[C09]" in msg and "[C02]" not in msg) or v == "DRIFT"} for k in (1, 2, 3, 4, 5)],
        "rule": "generated multi-function programs (1-5 functions, 1-5 blocks each: DAG calls, bursts of repeated calls with constant arguments, direct and mutual recursion with a decreasing counter, shared variable names, x=f(x), asserts after calls, a hull-gap template) analysed by the REAL top_down_inter_analyzer under random inter_analyzer_parameters (max_call_contexts 0/1/2/unbounded, exact/approximate reuse, recursion on/off, widening, checker on/off) over 5 domains; the Lean driver runs 120 call-stack executions per program and checks every (function, block, state) against the reported invariants and every returned call against every stored (pre, post) summary whose precondition it satisfies; non-trivial = the program has a call",
        "assumptions": ["call-stack semantics of CrabModel/Inter/ISemantics.lean (by-value parameters, fresh callee locals)", "CRAB_ERROR 'in checking phase we should not analyze the callsite' (0.6% of requests) is a robustness issue counted as skip"],
        "trusted_base": COMMON_TB + ["models: CrabModel/Inter/{ISyntax,ISemantics,TopDown}.lean"],
    },
    "C10": {
        "level": "proof",
        "lean_modules": ["CrabProofs.Props.C10", "CrabProofs.Props.C10BottomUp"],
        "components": [{"harness": f"h_inter_bu_{k}", "source": "h_inter", "defines": [f"-DVDOM={k}", "-DVMODE=1"], "corpus": "h_inter",
                        "quick": 1500, "thorough": 40000, "shards": 2,
                        "nontrivial": lambda l: "(call" in l,
                        "accept": lambda v, req, msg: ("[C10]" in msg and "[C02]" not in msg) or v == "DRIFT"} for k in (1, 2, 3, 4, 5)],
        "rule": "same program generator as C09, analysed by the REAL bottom_up_inter_analyzer for 5 (summary domain, forward domain) pairs incl. different domains; invariants and stored summaries checked against call-stack executions",
        "assumptions": ["as C09"],
        "trusted_base": COMMON_TB + ["models: CrabModel/Inter/{ISyntax,ISemantics,TopDown,BottomUp}.lean"],
    },
    "C14": {
        "level": "proof",
        "lean_modules": ["CrabProofs.Props.C14", "CrabProofs.Props.C14Exact"],
        # variant 1 (array_smashing<interval_domain>) is additionally compared op by op with the exact model
        # CrabModel/Dom/ArraySmashItv.lean (-DXDUMP also dumps the summary variables)
        "components": [{"harness": f"h_arr_{d}", "source": "h_arr", "defines": [f"-DVDOM={d}"] + (["-DXDUMP"] if d == 1 else []),
                        "quick": 2000 if d == 1 else 400,
                        "thorough": 40000 if d == 1 else 6000, "shards": 2 if d == 1 else 1, "corpus": "h_arr",
                        "nontrivial": lambda l: "(aload" in l or "(lcheck" in l,
                        "accept": lambda verdict, req, msg: "[C14]" in msg or verdict == "DRIFT"} for d in range(1, 9)],
        "rule": "operation histories over a pool of 3 abstract values, integer variables and 2 int arrays (uniform element size 4, sometimes 1 or 8; aligned constant and symbolic indices): numeric assign/assume/forget, array_init, weak/strong store (strong only where the client contract allows; illegal strong stores taint the value and are not judged), store_range, load, array_assign, join, widen, meet, copy, over array_smashing x {intervals, split_dbm, dis_intervals, flat_bool(sparse_dbm)} and array_adaptive x {intervals, split_dbm, term(intervals), flat_bool(intervals)} with the adaptive parameters drawn per history; the Lean driver replays each history on up to 48 witness states carrying their own arrays and checks every exported fact (in particular the loaded value) after every op; non-trivial = the history checks a load",
        "assumptions": ["word-level assumption: aligned accesses of one uniform element size per array; witnesses leaving it or reading a never-written cell are dropped", "range bounds inclusive (cfg.hpp, implementation and tests)"],
        "trusted_base": COMMON_TB + ["models: CrabModel/Dom/{ArraySem,ArraySmash,ArrayCells}.lean; driver replay Driver/ArrH.lean"],
    },
    "C15": {
        "level": "proof",
        "lean_modules": ["CrabProofs.Props.C15"],
        "components": [{"harness": f"h_rgn_{d}", "source": "h_rgn", "defines": [f"-DVDOM={d}"], "quick": 400, "thorough": 6000,
                        "shards": 1, "corpus": "h_rgn",
                        "nontrivial": lambda l: "(ld " in l and "(st " in l,
                        "accept": lambda v, r, m: "[C15]" in m or v == "DRIFT"} for d in range(1, 7)],
        "rule": "operation histories over a pool of 3 abstract values with integer, boolean, reference (4) and region (3 int, 2 reference, 1 unknown) variables: numeric ops, region_init, ref_make (distinct allocation sites), gep (constant/symbolic offsets), store, load, region_copy, region_cast, free, ref_assume (null/non-null/eq/ne), select_ref, tags, join/widen/meet/narrow/copy, over region_domain x {intervals, split_dbm, flat_bool(intervals), array_adaptive(intervals), constants, sign-constants} with region_domain_params drawn per history; each history runs in a forked child (a crash is a result); the Lean driver replays it on concrete witness heaps and checks loaded values, definite is_null_ref answers, allocation-site and tag sets; non-trivial = the history stores and loads",
        "assumptions": ["region-based memory model (disjoint regions, a reference points into one region); witnesses that leave it (out-of-bounds pointer arithmetic, use after free, foreign reference, never-written cell) are dropped", "references from the environment are not modelled (initial references are null)"],
        "trusted_base": COMMON_TB + ["models: CrabModel/Dom/{RegionSem,RegionSmash}.lean, CrabModel/Scalar/SmallRange.lean; driver replay Driver/RgnH.lean"],
    },
}
