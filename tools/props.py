"""Per-property configuration of the checks (what is built, proved and run)."""

COMMON_TB = [
    "Lean 4.33 kernel; axioms allowed: propext, Classical.choice, Quot.sound (audited by #print axioms on every theorem, every run); no native_decide / bv_decide",
    "the correspondence is differential testing: generators, C++ harness glue (printing/canonicalisation), the driver's parser",
    "GMP, libstdc++, boost, g++",
]

def nontriv_iv(l):
    return "bot" not in l and "(iv -oo +oo)" not in l

FIX_COMPONENT = {"harness": "h_fix", "quick": 64000, "thorough": 1600000, "shards": 16,
                 "nontrivial": lambda l: bool(__import__("re").search(r"\(wto[^=]*\(\d+", l))}

PROPS = {
    "C08": {
        "level": "proof",
        "lean_modules": ["CrabProofs.Props.C08"],
        "components": [
            {"harness": "h_iv", "quick": 240000, "thorough": 4000000, "shards": 16, "nontrivial": nontriv_iv},
        ],
        "rule": "boundary-biased random operands (bottom, top, singletons, half lines, zero-crossing, 2^k±d, 40-digit) x every operation; a case is non-trivial when no operand is bottom or top; distinct = distinct request lines",
        "assumptions": [
            "concrete semantics of the operations on mathematical integers: sdiv/srem truncate, division/remainder by zero has no successor, ashr = floor division by 2^k, lshr/udiv/urem only checked on non-negative operands, and/or/xor = infinite two's complement",
        ],
        "trusted_base": COMMON_TB + ["models: CrabModel/Scalar/{Bound,Interval}.lean, CrabModel/Num/ZNum.lean (hand written, tied by exact correspondence E)"],
    },
    "C06": {
        "level": "proof",
        "lean_modules": ["CrabProofs.Props.C06"],
        "components": [FIX_COMPONENT],
        "rule": "random CFGs (1-8 blocks quick, 1-14 thorough; self loops, nested and irreducible cycles, unreachable blocks with edges into loops) over 1-6 (10) concrete states, random per-block transition relations, random cfg entry, start block among the reachable blocks, assumption maps, delay 0-3, descending 0-3, widening join|jump-to-top, narrowing meet|classic; non-trivial = the ordering contains a cycle; distinct = distinct request lines",
        "assumptions": [
            "the WTO, nesting table and predecessor order are taken from the implementation's own data structures (inputs of the iterator model); the WTO itself is property C07",
            "admissible start blocks for exactness: the first block of the ordering (cfg entry, may head a loop) or a block outside every loop; other reachable start blocks are checked for soundness and model equality only",
            "concrete semantics of an assumption map: a state entering block b survives iff it is in asm(b)",
        ],
        "trusted_base": COMMON_TB + ["model: CrabModel/Fix/Interleaved.lean (hand written transcription of wto_iterator, tied by exact table equality on every generated CFG)"],
    },
}
