"""Per-property configuration of the checks (what is built, proved and run)."""

COMMON_TB = [
    "Lean 4.33 kernel; axioms allowed: propext, Classical.choice, Quot.sound (audited by #print axioms on every theorem, every run); no native_decide / bv_decide",
    "the correspondence is differential testing: generators, C++ harness glue (printing/canonicalisation), the driver's parser",
    "GMP, libstdc++, boost, g++",
]

def nontriv_iv(l):
    return "bot" not in l and "(iv -oo +oo)" not in l

PROPS = {
    "C08": {
        "level": "proof",
        "lean_modules": ["CrabProofs.Props.C08"],
        "components": [
            {"harness": "h_iv", "quick": 240000, "thorough": 4000000, "shards": 16, "nontrivial": nontriv_iv},
        ],
        "rule": "boundary-biased random operands (bottom, top, singletons, half lines, zero-crossing, 2^k±d, 40-digit) x every operation; a case is non-trivial when no operand is bottom or top; distinct = distinct request lines",
        "assumptions": [
            "concrete semantics of the operations on mathematical integers: sdiv/srem truncate, division/remainder by zero has no successor, ashr = floor division by 2^k, lshr/udiv/urem only checked on non-negative operands, and/or/xor = infinite two's complement",
        ],
        "trusted_base": COMMON_TB + ["models: CrabModel/Scalar/{Bound,Interval}.lean, CrabModel/Num/ZNum.lean (hand written, tied by exact correspondence E)"],
    },
}
