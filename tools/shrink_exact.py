#!/usr/bin/env python3
"""shrink_exact.py <harness-exe> <crabdrv-exe> <file-with-request-lines> <pattern>
Delta-debugs the op lists of the (exact.hist ...) requests of the file (all requests are replayed in
one process, in order) while the outcome still matches <pattern>:
  pattern 'ABORT'  : the harness process dies with a signal
  otherwise        : a regex searched in the driver's non-ok verdict lines.
Then tries to lower nv / drop leading requests and prints the minimal file."""
import sys, re, subprocess, tempfile, os

def split_top(s):
    out, depth, cur = [], 0, ""
    for ch in s:
        if ch == "(":
            depth += 1
        if depth > 0:
            cur += ch
        if ch == ")":
            depth -= 1
            if depth == 0:
                out.append(cur); cur = ""
    return out

def parse(line):
    line = line.split(" => ")[0].strip()
    m = re.match(r"(\(exact\.hist .*?) \(ops ?(.*)\)\)$", line)
    return [m.group(1), split_top(m.group(2))]

def render(reqs):
    return "".join(f"{h} (ops {' '.join(ops)}))\n" for h, ops in reqs)

def main():
    exe, drv, fn, pat = sys.argv[1:5]
    reqs = [parse(l) for l in open(fn) if l.strip() and not l.startswith("#")]
    def fails(reqs):
        with tempfile.NamedTemporaryFile("w", suffix=".ops", delete=False) as f:
            f.write(render(reqs)); tn = f.name
        p = subprocess.run([exe, "--ops", tn], stdout=subprocess.PIPE, stderr=subprocess.DEVNULL, text=True)
        os.unlink(tn)
        if pat == "ABORT":
            return p.returncode < 0 or p.returncode >= 128
        if p.returncode != 0:
            return False
        v = subprocess.run([drv], input=p.stdout, stdout=subprocess.PIPE, text=True).stdout
        return any(re.match(r"\d+ (UNSOUND|IMPRECISE|DRIFT)", l) and re.search(pat, l) for l in v.split("\n"))
    assert fails(reqs), "the input does not fail"
    # drop whole leading requests
    while len(reqs) > 1 and fails(reqs[1:]):
        reqs = reqs[1:]
    changed = True
    while changed:
        changed = False
        for r in range(len(reqs)):
            ops = reqs[r][1]
            chunk = max(1, len(ops) // 2)
            while chunk >= 1:
                i = 0
                while i < len(reqs[r][1]):
                    ops = reqs[r][1]
                    cand = ops[:i] + ops[i + chunk:]
                    trial = [list(x) for x in reqs]; trial[r][1] = cand
                    if fails(trial):
                        reqs = trial; changed = True
                    else:
                        i += chunk
                chunk //= 2
        # simplify header flags
        for r in range(len(reqs)):
            for a, b in [("(norm 1)", "(norm 0)"), ("(inplace 1)", "(inplace 0)")]:
                if a in reqs[r][0]:
                    trial = [list(x) for x in reqs]; trial[r][0] = reqs[r][0].replace(a, b)
                    if fails(trial):
                        reqs = trial; changed = True
            m = re.search(r"\(nv (\d+)\)", reqs[r][0])
            nv = int(m.group(1))
            used = [int(x) for x in re.findall(r"v(\d+)", " ".join(reqs[r][1]))]
            need = (max(used) + 1) if used else 1
            if need < nv:
                trial = [list(x) for x in reqs]; trial[r][0] = reqs[r][0].replace(f"(nv {nv})", f"(nv {need})")
                if fails(trial):
                    reqs = trial; changed = True
    sys.stdout.write(render(reqs))

main()
