"""Mechanism T (DESIGN.md §2.5) for the copy-on-write wrapper `crab::domains::abstract_domain_ref`
(include/crab/domains/generic_abstract_domain.hpp): extract, from the CURRENT working tree, the
list of member functions of the class with, for each one,

    (name, isConst, startsWithDetach)

`isConst`           the member function is const-qualified,
`startsWithDetach`  the first statement of its body is `detach();`,

plus the list of members whose text touches the shared pointers directly (`m_base_ref`,
`m_norm_ref`), uses `const_cast`, or declares a `mutable` field, and the list of the members
declared `= default`.  The result is written to
lean/CrabModel/Gen/CowMethods.lean (only when the content changes); the theorems
`C16.all_mutators_detach` / `C16.raw_access_confined` (lean/CrabProofs/Props/C16Cow.lean) are
`decide`d over the regenerated lists, so a mutating method that loses its `detach()` makes
`lake build CrabProofs.Props.C16Cow` fail.

`gen_cow_methods(run_or_repodir=None, lean_dir=None)` returns None on success, an error text
otherwise.  `run_or_repodir`: a path to a crab source tree; anything else (None or the vlib.Run
object that `Run.lean_phase` passes to the `tables` hooks) means `vlib.REPO`.
"""
import os
import re

import vlib

HEADER = os.path.join("include", "crab", "domains", "generic_abstract_domain.hpp")
CLASS = "abstract_domain_ref"
OUT = os.path.join("CrabModel", "Gen", "CowMethods.lean")
MIN_METHODS = 60   # the class forwards the whole abstract_domain_api (about 110 members)

_QUALS = {"const", "override", "final", "noexcept", "try", "volatile"}


def strip_cpp(text):
    """remove comments, blank out string / char literals (keeps all other characters)"""
    out = []
    i, n = 0, len(text)
    while i < n:
        c = text[i]
        if text.startswith("//", i):
            while i < n and text[i] != "\n":
                i += 1
        elif text.startswith("/*", i):
            j = text.find("*/", i + 2)
            j = n if j < 0 else j + 2
            out.append("\n" * text.count("\n", i, j))
            i = j
        elif c == '"' or c == "'":
            q = c
            i += 1
            while i < n and text[i] != q:
                i += 2 if text[i] == "\\" else 1
            i += 1
            out.append(q + q)
        else:
            out.append(c)
            i += 1
    return "".join(out)


def match_close(text, i, op, cl):
    """index of the bracket closing the one at text[i]; -1 when unbalanced"""
    depth = 0
    for j in range(i, len(text)):
        if text[j] == op:
            depth += 1
        elif text[j] == cl:
            depth -= 1
            if depth == 0:
                return j
    return -1


def class_body(text, cls):
    """text between the braces of the definition of `class cls`"""
    for m in re.finditer(r"\b(?:class|struct)\s+" + re.escape(cls) + r"\b[^;{(]*\{", text):
        i = m.end() - 1
        j = match_close(text, i, "{", "}")
        if j < 0:
            return None
        return text[i + 1:j]
    return None


def split_members(body):
    """[(head, function body or None)] for every member declaration of a class body"""
    members = []
    i, n = 0, len(body)
    start = 0
    paren = 0
    while i < n:
        c = body[i]
        if c == "(":
            paren += 1
        elif c == ")":
            paren -= 1
        elif paren == 0 and c == ";":
            members.append((body[start:i], None))
            start = i + 1
        elif paren == 0 and c == "{":
            j = match_close(body, i, "{", "}")
            if j < 0:
                raise ValueError("unbalanced braces in the class body")
            head = body[start:i]
            prev = head.rstrip()
            word = re.search(r"(\w+)$", prev)
            is_fun = "(" in head and (prev.endswith(")") or (word and word.group(1) in _QUALS)
                                      or prev.endswith("&"))
            if is_fun:
                members.append((head, body[i:j + 1]))
                start = j + 1
            # else: a brace initialiser / nested type: part of the current declaration
            i = j
        i += 1
    if body[start:].strip():
        members.append((body[start:], None))
    return members


def parse_member(head, fbody):
    """None, or dict(name, const, detach, raw) for a member function (declaration or definition)"""
    h = head
    while True:
        h2 = re.sub(r"^\s*(public|private|protected)\s*:(?!:)", "", h)
        if h2 == h:
            break
        h = h2
    hs = h.strip()
    if not hs:
        return None
    raw = bool(re.search(r"\b(m_base_ref|m_norm_ref|const_cast|mutable)\b", (fbody or "")))
    if "(" not in hs or re.match(r"(using|typedef|static_assert|friend|enum|struct|class)\b", hs):
        if re.search(r"\bmutable\b", hs):
            return {"field": "mutable field: " + " ".join(hs.split())}
        return None
    mo = re.search(r"\boperator\s*\(\s*\)\s*\(", hs)
    if mo:
        name = "operator()"
        p = mo.end() - 1
    else:
        p = hs.index("(")
        mn = re.search(r"(operator\s*[^\s\w(]+|operator\s+[\w:<> ]+?|~?\w+)\s*$", hs[:p])
        if not mn:
            raise ValueError("cannot find the name of the member in: " + " ".join(hs.split())[:120])
        name = re.sub(r"\s+", "", mn.group(1)) if mn.group(1).startswith("operator") else mn.group(1)
    q = match_close(hs, p, "(", ")")
    if q < 0:
        raise ValueError("unbalanced parameter list in: " + " ".join(hs.split())[:120])
    trailer = hs[q + 1:]
    cut = re.search(r"(?<!:):(?!:)", trailer)          # constructor initialiser list
    init = trailer[cut.start():] if cut else ""
    quals = trailer[:cut.start()] if cut else trailer
    if re.search(r"\b(m_base_ref|m_norm_ref)\b", init) or re.search(r"\bconst_cast\b", init):
        raw = True
    const = bool(re.search(r"\bconst\b", quals))
    detach = bool(fbody and re.match(r"\{\s*(this\s*->\s*)?detach\s*\(\s*(void)?\s*\)\s*;", fbody))
    defaulted = fbody is None and bool(re.search(r"=\s*default\s*$", quals))
    return {"name": name, "const": const, "detach": detach, "raw": raw, "defaulted": defaulted}


def extract(repo):
    """(methods, raw, defaulted, error): methods = [(name, isConst, startsWithDetach)] in source
    order, raw / defaulted = names of the members that touch the pointers / are `= default`"""
    path = os.path.join(repo, HEADER)
    try:
        with open(path, encoding="utf-8", errors="replace") as f:
            text = f.read()
    except OSError as e:
        return None, None, None, f"cannot read {path}: {e}"
    text = strip_cpp(text)
    body = class_body(text, CLASS)
    if body is None:
        return None, None, None, f"class {CLASS} not found in {path}"
    methods, raw, defaulted = [], [], []
    try:
        for head, fbody in split_members(body):
            m = parse_member(head, fbody)
            if m is None:
                continue
            if "field" in m:
                raw.append(m["field"])
                continue
            methods.append((m["name"], m["const"], m["detach"]))
            if m["raw"]:
                raw.append(m["name"])
            if m["defaulted"]:
                defaulted.append(m["name"])
    except ValueError as e:
        return None, None, None, f"{path}: {e}"
    return methods, raw, defaulted, None


def lean_str(s):
    return '"' + s.replace("\\", "\\\\").replace('"', '\\"') + '"'


def render(methods, raw, defaulted):
    b = lambda x: "true" if x else "false"
    o = []
    o.append("/- GENERATED by /verif/tools/cow_methods.py from the current tree of crab - do not edit.")
    o.append("   Member functions of `crab::domains::abstract_domain_ref`")
    o.append("   (include/crab/domains/generic_abstract_domain.hpp), in source order. -/")
    o.append("namespace Crab")
    o.append("namespace Gen")
    o.append("")
    o.append("/-- (name, isConst, startsWithDetach): `isConst` = the member function is const-qualified,")
    o.append("    `startsWithDetach` = the first statement of its body is `detach();` -/")
    o.append("def cowMethods : List (String × Bool × Bool) := [")
    o.append(",\n".join(f"  ({lean_str(n)}, {b(c)}, {b(d)})" for n, c, d in methods))
    o.append("]")
    o.append("")
    o.append("/-- members whose own text mentions `m_base_ref` / `m_norm_ref` / `const_cast`, and `mutable`")
    o.append("    fields: every other member reaches the shared objects only through")
    o.append("    `detach()`, `norm()`, `base()`, `create()`, `create_base()` -/")
    o.append("def cowRawAccess : List String := [")
    o.append(",\n".join(f"  {lean_str(n)}" for n in raw))
    o.append("]")
    o.append("")
    o.append("/-- members declared `= default` (compiler generated: memberwise copy / move / destruction")
    o.append("    of the two shared pointers) -/")
    o.append("def cowDefaulted : List String := [")
    o.append(",\n".join(f"  {lean_str(n)}" for n in defaulted))
    o.append("]")
    o.append("")
    o.append("end Gen")
    o.append("end Crab")
    return "\n".join(o) + "\n"


def gen_cow_methods(run_or_repodir=None, lean_dir=None):
    repo = run_or_repodir if isinstance(run_or_repodir, str) else vlib.REPO
    lean_dir = lean_dir or vlib.LEAN
    gen_cow_methods.changed = []
    methods, raw, defaulted, err = extract(repo)
    if err:
        return "cow_methods generator: " + err
    names = {n for n, _, _ in methods}
    if len(methods) < MIN_METHODS or "detach" not in names or "assign" not in names:
        return (f"cow_methods generator: implausible extraction from {os.path.join(repo, HEADER)} "
                f"({len(methods)} member functions, detach {'found' if 'detach' in names else 'missing'})")
    out = render(methods, raw, defaulted)
    path = os.path.join(lean_dir, OUT)
    old = None
    if os.path.exists(path):
        with open(path, encoding="utf-8") as f:
            old = f.read()
    if old != out:
        os.makedirs(os.path.dirname(path), exist_ok=True)
        tmp = path + f".tmp{os.getpid()}"
        with open(tmp, "w", encoding="utf-8") as f:
            f.write(out)
        os.replace(tmp, path)
        gen_cow_methods.changed = [OUT]
    return None


gen_cow_methods.changed = []

if __name__ == "__main__":
    import sys
    args = sys.argv[1:]
    ld = None
    if "--lean-dir" in args:
        k = args.index("--lean-dir")
        ld = args[k + 1]
        del args[k:k + 2]
    e = gen_cow_methods(args[0] if args else None, ld)
    print(e or f"CowMethods.lean up to date (rewritten: {gen_cow_methods.changed})")
    sys.exit(1 if e else 0)
