#include "domains.hpp"
int main(){
  variable_factory_t vf; std::vector<z_var> v; for (int i=0;i<5;i++) v.push_back(z_var(vf["v"+std::to_string(i)], crab::INT_TYPE, 32));
  auto L=[&](int c, std::vector<std::pair<int,int>> ts){ z_lin_exp_t e((z_number(c))); for(auto&t:ts) e = e + z_lin_exp_t(z_number(t.first), v[t.second]); return e; };
  Dom a = vdom_mk_top();
  a.assign(v[2], L(-3,{}));
  a += z_lin_cst_t(L(889,{{1,4},{-1,2}}), z_lin_cst_t::INEQUALITY);   // v4 <= v2 - 889
  Dom b(a);
  b.assign(v[4], L(2,{})); b.assign(v[2], L(1,{{1,2}}));               // v4 := 2; v2 := v2 + 1
  Dom y = b | a;
  Dom w = a || y;
  Dom r = vdom_mk_top(); { Dom t(w); r += t.to_linear_constraint_system(); }
  Dom c(w);
  crab::outs() << "a = " << a << "\ny = " << y << "\nw = a || y = " << w << "\nr = top + constraints(w) = " << r << "\n";
  crab::outs() << "w <= r : " << (w <= r) << "   r <= w : " << (r <= w) << "   w <= w : " << (w <= c) << "\n";
}
