#include "domains.hpp"
#include <iostream>
static Dom mk(variable_factory_t &vf, long a, long b) {
  z_var x(vf["x"], crab::INT_TYPE, 32), y(vf["y"], crab::INT_TYPE, 32);
  Dom d; d.set_to_top();
  d += (y >= 0); d += (y <= x); d += (x <= y + 1); d += (x <= z_number(a)); d += (y <= z_number(b));
  return d;
}
int main(int argc, char**) {
  if (argc > 1) crab::domains::crab_domain_params_man::get().set_param("zones.widen_restabilize", "false");
  variable_factory_t vf;
  Dom g = mk(vf, 1, 1), bad = mk(vf, 1, 1);
  for (int k = 0; k < 8; k++) {
    Dom yk = mk(vf, k / 2 + 2, (k + 1) / 2 + 1);
    bool lg = yk <= g, lb = yk <= bad;
    crab::outs() << "k=" << k << " y<=good:" << lg << " good=" << g << "   y<=bad:" << lb << " bad=" << bad << "\n";
    Dom g2 = g || yk;
    bool same = (g2 <= g) && (g <= g2);
    if (lg != same) crab::outs() << "  MISMATCH leq vs stationary\n";
    g = g2;
    bad.normalize();
    bad = bad || yk;
  }
  return 0;
}
