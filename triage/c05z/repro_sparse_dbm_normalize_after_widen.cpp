#include "domains.hpp"
#include <iostream>
static Dom mk(variable_factory_t &vf, long a, long b) {
  z_var x(vf["x"], crab::INT_TYPE, 32), y(vf["y"], crab::INT_TYPE, 32);
  Dom d; d.set_to_top();
  d += (y >= 0); d += (y <= x); d += (x <= y + 1); d += (x <= z_number(a)); d += (y <= z_number(b));
  return d;
}
int main(int argc, char**) {
  if (argc > 1) crab::domains::crab_domain_params_man::get().set_param("zones.widen_restabilize", "false");
  variable_factory_t vf;
  z_var x(vf["x"], crab::INT_TYPE, 32), y(vf["y"], crab::INT_TYPE, 32);
  Dom a = mk(vf, 1, 1), b = mk(vf, 2, 1);
  Dom w = a || b;
  crab::outs() << "w = " << w << "  w[x] = " << w.at(x) << "\n";
  // rebuild the same constraints from scratch
  Dom f; f.set_to_top();
  for (auto c : w.to_linear_constraint_system()) f += c;
  crab::outs() << "fresh = " << f << "  fresh[x] = " << f.at(x) << "\n";
  crab::outs() << "fresh<=w " << (f <= w) << "  w<=fresh " << (w <= f) << "\n";
  Dom t; t.set_to_top(); t += (x <= 2);
  crab::outs() << "w <= {x<=2} : " << (w <= t) << "   fresh <= {x<=2} : " << (f <= t) << "\n";
  return 0;
}
