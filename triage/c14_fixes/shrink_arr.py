#!/usr/bin/env python3
"""shrink_arr.py <harness-exe> <crabdrv> <file-with-request-line> : delta-debug the op list of an (arr.hist ...) request"""
import sys, os, subprocess, re, tempfile
def split_top(s):
    out, depth, cur = [], 0, ""
    for ch in s:
        if ch == "(": depth += 1
        if depth > 0: cur += ch
        if ch == ")":
            depth -= 1
            if depth == 0: out.append(cur); cur = ""
    return out
exe, drv, fn = sys.argv[1:4]
line = open(fn).read().strip().split("\n")[0].split(" => ")[0]
m = re.match(r"\(arr\.hist (\S+) (\(par [^)]*\)) (\(esz [^)]*\)) \(ops (.*)\)\)$", line)
dom, par, esz, opstr = m.groups()
ops = split_top(opstr)
def run(ops):
    req = f"(arr.hist {dom} {par} {esz} (ops {' '.join(ops)}))"
    with tempfile.NamedTemporaryFile("w", suffix=".ops", delete=False) as f:
        f.write(req + "\n"); tmp = f.name
    o = subprocess.run([exe, "--ops", tmp], stdout=subprocess.PIPE, stderr=subprocess.DEVNULL, text=True).stdout
    os.unlink(tmp)
    v = subprocess.run([drv], input=o, stdout=subprocess.PIPE, text=True).stdout
    for l in v.split("\n"):
        mm = re.match(r"\d+ (UNSOUND|IMPRECISE|DRIFT|SKIP) (\[C\d+\])?", l)
        if mm: return (mm.group(1), mm.group(2)), l, o, req
    return None, None, o, req
tag, msg, _, _ = run(ops)
assert tag, "the line does not fail"
changed = True
while changed:
    changed = False
    chunk = max(1, len(ops) // 2)
    while chunk >= 1:
        i = 0
        while i < len(ops):
            cand = ops[:i] + ops[i+chunk:]
            t, mg, _, _ = run(cand)
            if t == tag: ops = cand; msg = mg; changed = True
            else: i += chunk
        chunk //= 2
    # lcheck -> aload
    for i, o in enumerate(ops):
        mm = re.match(r"\(lcheck (\d+) (v\d) (a\d) (\(lin[^()]*(?:\([^()]*\))*\)) ", o)
        if mm:
            cand = ops[:i] + [f"(aload {mm.group(1)} {mm.group(2)} {mm.group(3)} {mm.group(4)})"] + ops[i+1:]
            t, mg, _, _ = run(cand)
            if t == tag: ops = cand; msg = mg; changed = True
t, mg, o, req = run(ops)
print(req)
print(mg[:900])
print(o[:2500])
