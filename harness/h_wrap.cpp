// Harness for component `wi`: crab::wrapint (include/crab/numbers/wrapint.hpp, lib/wrapint.cpp)
// of the current tree.
//
// Lines (all numbers unsigned decimal unless said otherwise; a result is the RAW `_n`
// (`get_uint64_t()`), so bits left above the width are visible):
//   (wi.mk w n) => r|err                     public ctor wrapint(uint64_t, width)
//   (wi.ofz w z) => r|err                    ctor from z_number (z signed decimal, any size)
//   (wi.ofstr w v) => r|err                  ctor from decimal string (v < 2^64)
//   (wi.fits w z) => 0|1                     fits_wrapint
//   (wi.smax w) (wi.smin w) (wi.umax w) (wi.umin w) => r|err
//   (wi.<bin> w a b) => r|err                add sub mul udiv urem sdiv srem and or xor
//                                            addeq subeq muleq ; shl lshr ashr (amount < w)
//                                            shl_big lshr_big ashr_big (amount >= w, also >= 64)
//   (wi.<cmp> w a b) => 0|1                  eq ne lt le gt ge
//   (wi.<un> w a) => r                       neg inc dec
//   (wi.msb w a) (wi.iszero w a) => 0|1
//   (wi.tos w a) (wi.tou w a) => z           get_signed_bignum / get_unsigned_bignum
//   (wi.strs w a) (wi.stru w a) => z         get_signed_str / get_unsigned_str
//   (wi.sext w a k) (wi.zext w a k) (wi.keeplower w a k) => (w' r)|err
//   (wi.chain w a s op b) => r|0|1|z|err     t = a.ashr(s); then `t op b` (op binary/cmp) or
//                                            `op t` (op unary; b ignored): the value produced
//                                            by ashr flows into other operations
// Operands a, b are built with the public constructor wrapint(uint64_t, w).
#include "common.hpp"
#include <crab/numbers/wrapint.hpp>
using namespace vh;
using crab::wrapint;

static std::string u64s(uint64_t v) { return std::to_string((unsigned long long)v); }
static std::string bstr(bool b) { return b ? "1" : "0"; }
static uint64_t pu64(const Sx &x) { return std::strtoull(x.a.c_str(), nullptr, 10); }
static std::string ws(const wrapint &x) { return u64s(x.get_uint64_t()); }
static std::string wws(const wrapint &x) {
  return "(" + u64s(x.get_bitwidth()) + " " + u64s(x.get_uint64_t()) + ")";
}

static const std::vector<std::string> BIN = {"add", "sub", "mul", "udiv", "urem", "sdiv", "srem",
                                             "and", "or", "xor", "addeq", "subeq", "muleq"};
static const std::vector<std::string> SHIFT = {"shl", "lshr", "ashr"};
static const std::vector<std::string> CMP = {"eq", "ne", "lt", "le", "gt", "ge"};
static const std::vector<std::string> UN = {"neg", "inc", "dec", "msb", "iszero", "tos", "tou", "strs", "stru"};
static const std::vector<std::string> EXT = {"sext", "zext", "keeplower"};
static const std::vector<std::string> STAT = {"smax", "smin", "umax", "umin"};

// `t op b` / `op t` : returns false if op is not of that kind
static bool eval_bin(const std::string &op, wrapint a, wrapint b, std::string &out) {
  if (op == "add") out = ws(a + b);
  else if (op == "sub") out = ws(a - b);
  else if (op == "mul") out = ws(a * b);
  else if (op == "udiv") out = ws(a.udiv(b));
  else if (op == "urem") out = ws(a.urem(b));
  else if (op == "sdiv") out = ws(a / b);
  else if (op == "srem") out = ws(a % b);
  else if (op == "and") out = ws(a & b);
  else if (op == "or") out = ws(a | b);
  else if (op == "xor") out = ws(a ^ b);
  else if (op == "addeq") { a += b; out = ws(a); }
  else if (op == "subeq") { a -= b; out = ws(a); }
  else if (op == "muleq") { a *= b; out = ws(a); }
  else if (op == "shl" || op == "shl_big") out = ws(a << b);
  else if (op == "lshr" || op == "lshr_big") out = ws(a.lshr(b));
  else if (op == "ashr" || op == "ashr_big") out = ws(a.ashr(b));
  else if (op == "eq") out = bstr(a == b);
  else if (op == "ne") out = bstr(a != b);
  else if (op == "lt") out = bstr(a < b);
  else if (op == "le") out = bstr(a <= b);
  else if (op == "gt") out = bstr(a > b);
  else if (op == "ge") out = bstr(a >= b);
  else return false;
  return true;
}

static bool eval_un(const std::string &op, wrapint a, std::string &out) {
  if (op == "neg") out = ws(-a);
  else if (op == "inc") { ++a; out = ws(a); }
  else if (op == "dec") { --a; out = ws(a); }
  else if (op == "msb") out = bstr(a.msb());
  else if (op == "iszero") out = bstr(a.is_zero());
  else if (op == "tos") out = zs(a.get_signed_bignum());
  else if (op == "tou") out = zs(a.get_unsigned_bignum());
  else if (op == "strs") out = a.get_signed_str();
  else if (op == "stru") out = a.get_unsigned_str();
  else return false;
  return true;
}

static std::string eval(const Sx &q) {
  const std::string op = q[0].a.substr(3);
  uint64_t w = pu64(q[1]);
  if (op == "mk") return ws(wrapint(pu64(q[2]), w));
  if (op == "ofz") return ws(wrapint(z_number(q[2].a), w));
  if (op == "ofstr") return ws(wrapint(q[2].a, w));
  if (op == "fits") return bstr(wrapint::fits_wrapint(z_number(q[2].a), w));
  if (op == "smax") return ws(wrapint::get_signed_max(w));
  if (op == "smin") return ws(wrapint::get_signed_min(w));
  if (op == "umax") return ws(wrapint::get_unsigned_max(w));
  if (op == "umin") return ws(wrapint::get_unsigned_min(w));
  wrapint a(pu64(q[2]), w);
  std::string out;
  if (op == "sext") return wws(a.sext(pu64(q[3])));
  if (op == "zext") return wws(a.zext(pu64(q[3])));
  if (op == "keeplower") return wws(a.keep_lower(pu64(q[3])));
  if (op == "chain") {
    wrapint t = a.ashr(wrapint(pu64(q[3]), w));
    const std::string &op2 = q[4].a;
    if (eval_un(op2, t, out)) return out;
    if (eval_bin(op2, t, wrapint(pu64(q[5]), w), out)) return out;
    return "unknown";
  }
  if (eval_un(op, a, out)) return out;
  if (q.size() > 3 && eval_bin(op, a, wrapint(pu64(q[3]), w), out)) return out;
  return "unknown";
}

// ---- generators ----
static uint64_t maskw(unsigned w) { return w >= 64 ? ~0ULL : ((1ULL << w) - 1); }

static unsigned gen_width(Rng &r) {
  static const unsigned fav[] = {1, 2, 7, 8, 31, 32, 33, 63, 64, 3, 4, 16};
  if (r.below(10) < 6) return fav[r.below(12)];
  return 1 + (unsigned)r.below(64);
}

// operand of width w: boundary biased; rarely not reduced (the constructor reduces it)
static uint64_t gen_val(Rng &r, unsigned w) {
  uint64_t m = maskw(w), half = 1ULL << (w - 1);
  switch (r.below(16)) {
  case 0: return 0;
  case 1: return 1 & m;
  case 2: return (half - 1) & m;
  case 3: return half;
  case 4: return m;
  case 5: return (half + 1) & m;
  case 6: return (m - 1) & m;
  case 7: return 2 & m;
  case 8: case 9: return r.below(10) & m;
  case 10: return (m - r.below(10)) & m;
  case 11: return (half + r.below(7) - 3) & m;
  case 12: return r.below(64) == 0 ? r.next() : (r.next() & m);
  default: return r.next() & m;
  }
}

static std::string gen_zval(Rng &r, unsigned w) {
  switch (r.below(8)) {
  case 0: case 1: return zs(gen_z(r));
  case 2: { // around +-2^(w-1), +-2^w
    z_number b = zpow2(r.coin() ? w : (w ? w - 1 : 0));
    z_number v = b + z_number((int64_t)r.range(-2, 2));
    return zs(r.coin() ? v : -v);
  }
  case 3: { // around the int64 / uint64 limits
    z_number b = zpow2(r.coin() ? 63 : 64);
    z_number v = b + z_number((int64_t)r.range(-2, 2));
    return zs(r.coin() ? v : -v);
  }
  case 4: return zs(z_number((int64_t)r.next()));
  default: return zs(z_number((int64_t)r.range(-300, 300)));
  }
}

// exhaustive prefix: every request over operands of width <= maxw, deterministic order
static std::vector<std::string> build_table(unsigned maxw) {
  std::vector<std::string> t;
  for (unsigned w = 1; w <= maxw; w++) {
    std::string W = u64s(w);
    uint64_t n = 1ULL << w;
    for (auto &s : STAT) t.push_back("(wi." + s + " " + W + ")");
    for (uint64_t a = 0; a < n; a++) {
      std::string A = u64s(a);
      for (auto &u : UN) t.push_back("(wi." + u + " " + W + " " + A + ")");
      for (unsigned k = 0; k <= 3; k++)
        for (auto &e : EXT) t.push_back("(wi." + e + " " + W + " " + A + " " + u64s(k) + ")");
      for (int z = -(int)n - 1; z <= (int)n + 1; z++)
        if (a == 0) t.push_back("(wi.ofz " + W + " " + std::to_string(z) + ")");
      for (uint64_t b = 0; b < n; b++) {
        std::string B = u64s(b);
        for (auto &o : BIN) t.push_back("(wi." + o + " " + W + " " + A + " " + B + ")");
        for (auto &o : CMP) t.push_back("(wi." + o + " " + W + " " + A + " " + B + ")");
        for (auto &o : SHIFT) t.push_back("(wi." + o + (b < w ? "" : "_big") + " " + W + " " + A + " " + B + ")");
      }
    }
  }
  return t;
}

static std::string gen(Rng &r, const Args &args) {
  static uint64_t counter = 0;
  static std::vector<std::string> table = build_table(args.tier == "thorough" ? 5 : 3);
  if (counter < table.size()) return table[counter++];
  counter++;
  unsigned w = gen_width(r);
  std::string W = u64s(w);
  unsigned k = r.below(64);
  if (k == 0) { // constructor, also with illegal widths
    unsigned ww = r.below(8) == 0 ? (r.coin() ? 0 : 65 + (unsigned)r.below(6)) : w;
    return "(wi.mk " + u64s(ww) + " " + u64s(r.coin() ? r.next() : gen_val(r, w)) + ")";
  }
  if (k == 1) return "(wi." + r.pick(STAT) + " " + u64s(r.below(16) == 0 ? (r.coin() ? 0 : 65) : w) + ")";
  if (k <= 5) {
    unsigned ww = r.below(32) == 0 ? (r.coin() ? 0 : 65) : w;
    return "(wi." + std::string(r.below(6) == 0 ? "fits" : "ofz") + " " + u64s(ww) + " " + gen_zval(r, w) + ")";
  }
  if (k == 6) return "(wi.ofstr " + W + " " + u64s(r.coin() ? r.next() : gen_val(r, w)) + ")";
  uint64_t a = gen_val(r, w);
  std::string A = u64s(a);
  if (k <= 14) return "(wi." + r.pick(UN) + " " + W + " " + A + ")";
  if (k <= 22) {
    const std::string &e = r.pick(EXT);
    uint64_t bits;
    if (e == "keeplower") {
      unsigned c = r.below(8);
      bits = c == 0 ? 0 : c == 1 ? w : c == 2 ? w - 1 : c == 3 ? w + 1 + r.below(3) : r.below(w + 1);
    } else {
      unsigned c = r.below(8);
      bits = c == 0 ? 0 : c == 1 ? 64 - w : c == 2 ? 65 - w : c == 3 ? 1 : r.below(64 - w + 2);
    }
    return "(wi." + e + " " + W + " " + A + " " + u64s(bits) + ")";
  }
  uint64_t b = r.below(4) == 0 ? a : gen_val(r, w);
  if (k <= 30) return "(wi." + r.pick(CMP) + " " + W + " " + A + " " + u64s(b) + ")";
  // shift amounts: in range 0..w-1 mostly
  auto small_amt = [&]() -> uint64_t {
    unsigned c = r.below(6);
    return c == 0 ? 0 : c == 1 ? w - 1 : c == 2 ? (1 % w) : r.below(w);
  };
  auto big_amt = [&]() -> uint64_t {
    uint64_t m = maskw(w);
    unsigned c = r.below(6);
    uint64_t v = c == 0 ? w : c == 1 ? w + 1 : c == 2 ? 64 : c == 3 ? 63 : c == 4 ? 64 + r.below(70) : r.next();
    v &= m;
    return v < w ? w & m : v;
  };
  if (k <= 42) {
    std::string op = r.pick(SHIFT);
    if (w >= 2 && r.below(6) == 0) {
      uint64_t s = big_amt();
      if (s >= w) return "(wi." + op + "_big " + W + " " + A + " " + u64s(s) + ")";
    }
    return "(wi." + op + " " + W + " " + A + " " + u64s(small_amt()) + ")";
  }
  if (k <= 46) {
    static const std::vector<std::string> OP2 = {"eq", "lt", "le", "add", "sub", "mul", "udiv", "sdiv", "and", "or",
                                                 "xor", "lshr", "ashr", "tos", "tou", "iszero", "msb", "neg", "ne", "ge"};
    std::string op2 = r.pick(OP2);
    uint64_t bb = (op2 == "lshr" || op2 == "ashr") ? small_amt() : b;
    return "(wi.chain " + W + " " + A + " " + u64s(small_amt()) + " " + op2 + " " + u64s(bb) + ")";
  }
  if (r.below(12) == 0) { // the overflowing quotient: INT_MIN / -1
    a = 1ULL << (w - 1);
    b = maskw(w);
    return "(wi." + std::string(r.coin() ? "sdiv" : "srem") + " " + W + " " + u64s(a) + " " + u64s(b) + ")";
  }
  return "(wi." + r.pick(BIN) + " " + W + " " + A + " " + u64s(b) + ")";
}

int main(int argc, char **argv) { return run_harness(argc, argv, gen, eval); }
