// Exact-correspondence harness for the three non-relational value domains built on
// ikos::separate_domain (one binary per domain, selected by -DXDOM=):
//   XDOM=1  crab::domains::constant_domain<z_number, varname_t>   (constant_domain.hpp)
//   XDOM=2  crab::domains::sign_domain<z_number, varname_t>       (sign_domain.hpp)
//   XDOM=3  ikos::congruence_domain<z_number, varname_t>          (congruences.hpp)
//   XDOM=4  crab::domains::numerical_congruence_domain<interval_domain<z_number, varname_t>>
//           ("ric": combined_congruences.hpp over combined_domains.hpp; the class gives no access
//           to its components, so the bindings are read from the text printed by write())
// An operation history is run over a pool of abstract values; after EVERY operation the complete
// value of the target is printed (bottom flag, top flag, the value of every variable that is not
// top, exported constraint system) and the Lean driver (lean/Driver/XDomH.lean) compares it with
// the result of the models `Crab.CDom` / `Crab.SDom` / `Crab.GDom` op by op, and checks
// soundness on concrete witness states.
//
// request : (xdom.hist <dom> (ops <op> ...))          <dom> ::= cst | sgn | cong | ric
//   <op> ::= (top d) | (bot d) | (copy d s) | (assign d x <lin>) | (wassign d x <lin>)
//          | (arith d <aop> x y <z>) | (bitw d <bop> x y <z>) | (assume d <cst>...)
//          | (forget d x...) | (forget1 d x) | (project d x...) | (rename d (x...) (y...))
//          | (expand d x y) | (join d a b) | (meet d a b) | (widen d a b) | (narrow d a b)
//          | (widenth d a b (ts k...)) | (select d x <cst> <lin> <lin>) | (set d x <val>)
//          | (cast d zext|sext|trunc x y) | (entails d <cst>) | (leq d a) | (at d x)
//          | (joineq d a) | (meeteq d a)
//   <z>   ::= variable `vK` or integer constant ; <lin> ::= (lin c (k vI) ...)
//   <cst> ::= (le <lin>) | (lt <lin>) | (eq <lin>) | (ne <lin>)        meaning  lin ⋈ 0
//   <val> ::= top | bot | <int> (cst) | ltz gtz eqz nez gez lez (sgn) | (cg a b) (cong)
//           | (ic <itv> <cong-val>) (ric; in results a missing component is printed as top)
// result  : one item per op:  (s <isbot> <istop> (b (vI <val>)...) (cs <cst>...) <q>)
//   <q> = answer of a query op (entails, leq: 0/1; at: interval), `-` otherwise;
//   `(err)` if the op raised CRAB_ERROR (the history stops there).
#ifndef XDOM
#define XDOM 1
#endif
#include "common.hpp"
#include "crab_lang.hpp"

#include <crab/domains/constant_domain.hpp>
#include <crab/domains/sign_domain.hpp>
#include <crab/domains/congruences.hpp>
#include <crab/domains/intervals.hpp>
#include <crab/domains/combined_congruences.hpp>
#include <crab/fixpoint/thresholds.hpp>

#include <algorithm>
#include <map>

using namespace vh;
using namespace crab::cfg_impl;
using namespace crab::domains;
using namespace ikos;

namespace {

#if XDOM == 1
using Dom = constant_domain<z_number, varname_t>;
using Val = constant<z_number>;
const char *DOMNAME = "cst";
#elif XDOM == 2
using Dom = sign_domain<z_number, varname_t>;
using Val = sign<z_number>;
const char *DOMNAME = "sgn";
#elif XDOM == 3
using Dom = congruence_domain<z_number, varname_t>;
using Val = congruence<z_number>;
const char *DOMNAME = "cong";
#else
using Dom = numerical_congruence_domain<interval_domain<z_number, varname_t>>;
using Val = interval_congruence<z_number>;
const char *DOMNAME = "ric";
#endif

const unsigned NV = 8; // integer variables v0..v7
const unsigned NP = 4; // pool slots

std::vector<z_var> *VARS = nullptr;
z_var var(unsigned i) { return (*VARS).at(i); }
unsigned vidx(const Sx &x) { return std::stoul(x.a.substr(1)); }

z_lin_exp_t parse_lin(const Sx &x) {
  z_lin_exp_t e(z_number(x[1].a));
  for (size_t i = 2; i < x.size(); i++) e = e + z_lin_exp_t(z_number(x[i][0].a), var(vidx(x[i][1])));
  return e;
}

z_lin_cst_t parse_cst(const Sx &x) {
  z_lin_exp_t e = parse_lin(x[1]);
  const std::string &k = x[0].a;
  if (k == "le") return z_lin_cst_t(e, z_lin_cst_t::INEQUALITY);
  if (k == "lt") return z_lin_cst_t(e, z_lin_cst_t::STRICT_INEQUALITY);
  if (k == "eq") return z_lin_cst_t(e, z_lin_cst_t::EQUALITY);
  return z_lin_cst_t(e, z_lin_cst_t::DISEQUATION);
}

unsigned name_idx(const z_var &v) {
  std::string nm = v.name().str();
  return (unsigned)std::stoul(nm.substr(1));
}

std::string lin_str(const z_lin_exp_t &e) {
  std::ostringstream o;
  o << "(lin " << zs(e.constant());
  std::vector<std::pair<unsigned, std::string>> ts;
  for (auto it = e.begin(); it != e.end(); ++it) ts.push_back({name_idx(it->second), zs(it->first)});
  std::sort(ts.begin(), ts.end());
  for (auto &t : ts) o << " (" << t.second << " v" << t.first << ")";
  o << ")";
  return o.str();
}

std::string cst_str(const z_lin_cst_t &c) {
  const char *k = c.is_inequality() ? "le" : c.is_strict_inequality() ? "lt" : c.is_equality() ? "eq" : "ne";
  return std::string("(") + k + " " + lin_str(c.expression()) + ")";
}

// ---- values of the three domains
#if XDOM == 1
std::string val_str(const Val &c) {
  if (c.is_bottom()) return "bot";
  if (c.is_top()) return "top";
  return zs(c.get_constant());
}
Val parse_val(const Sx &x) {
  if (x.is_atom && x.a == "top") return Val::top();
  if (x.is_atom && x.a == "bot") return Val::bottom();
  return Val(z_number(x.a));
}
Val get_val(Dom &d, const z_var &v) { return d.get_constant(v); }
void set_val(Dom &d, const z_var &v, const Val &c) { d.set_constant(v, c); }
#elif XDOM == 2
std::string val_str(const Val &s) {
  if (s.is_bottom()) return "bot";
  if (s.less_than_zero()) return "ltz";
  if (s.greater_than_zero()) return "gtz";
  if (s.equal_zero()) return "eqz";
  if (s.not_equal_zero()) return "nez";
  if (s.greater_or_equal_than_zero()) return "gez";
  if (s.less_or_equal_than_zero()) return "lez";
  if (s.is_top()) return "top";
  return "unknown";
}
Val parse_val(const Sx &x) {
  const std::string &s = x.a;
  if (s == "bot") return Val::bottom();
  if (s == "ltz") return Val::mk_less_than_zero();
  if (s == "gtz") return Val::mk_greater_than_zero();
  if (s == "eqz") return Val::mk_equal_zero();
  if (s == "nez") return Val::mk_not_equal_zero();
  if (s == "gez") return Val::mk_greater_or_equal_than_zero();
  if (s == "lez") return Val::mk_less_or_equal_than_zero();
  return Val::top();
}
Val get_val(Dom &d, const z_var &v) { return d.get_sign(v); }
void set_val(Dom &d, const z_var &v, const Val &c) { d.set_sign(v, c); }
#elif XDOM == 3
std::string val_str(const Val &c) {
  if (c.is_bottom()) return "bot";
  if (c.is_top()) return "top";
  return "(cg " + zs(c.get_modulo()) + " " + zs(c.get_remainder()) + ")";
}
Val parse_val(const Sx &x) {
  if (x.is_atom && x.a == "top") return Val::top();
  if (x.is_atom && x.a == "bot") return Val::bottom();
  z_number a(x[1].a), b(x[2].a);
  if (a == z_number(0)) return Val(b);
  return Val(b) | Val(b + a); // the (a, b) constructor is private
}
Val get_val(Dom &d, const z_var &v) { return d.to_congruence(v); }
void set_val(Dom &d, const z_var &v, const Val &c) { d.set(v, c); }
#else
congruence<z_number> parse_cong(const Sx &x) {
  if (x.is_atom && x.a == "top") return congruence<z_number>::top();
  if (x.is_atom && x.a == "bot") return congruence<z_number>::bottom();
  z_number a(x[1].a), b(x[2].a);
  if (a == z_number(0)) return congruence<z_number>(b);
  return congruence<z_number>(b) | congruence<z_number>(b + a); // the (a, b) constructor is private
}
// (ic <itv> <cong>): the constructor reduces the pair ("pre: x is already reduced" of set)
Val parse_val(const Sx &x) { return Val(parse_interval(x[1]), parse_cong(x[2])); }
void set_val(Dom &d, const z_var &v, const Val &c) { d.set(v, c); }

// ---- the two components as printed by write(): "({v0 -> [1, 5]; ...}, {v0 -> 2Z+1; ...})"
std::string conv_bound(const std::string &b) { return b; } // "-oo", "+oo" or a number
std::string conv_itv(const std::string &t) { // "[a, b]"
  size_t c = t.find(", ");
  return "(iv " + conv_bound(t.substr(1, c - 1)) + " " + conv_bound(t.substr(c + 2, t.size() - c - 3)) + ")";
}
std::string conv_cong(const std::string &t) { // "aZ+b" or "b"
  size_t z = t.find("Z+");
  if (z == std::string::npos) return "(cg 0 " + t + ")";
  return "(cg " + t.substr(0, z) + " " + t.substr(z + 2) + ")";
}
// entries of "{k -> v; k -> v}" (the values contain no ';')
void parse_map(const std::string &m, bool is_itv, std::map<unsigned, std::string> &out) {
  std::string body = m.substr(1, m.size() - 2);
  size_t i = 0;
  while (i < body.size()) {
    size_t e = body.find("; ", i);
    std::string ent = body.substr(i, e == std::string::npos ? std::string::npos : e - i);
    size_t a = ent.find(" -> ");
    unsigned k = (unsigned)std::stoul(ent.substr(1, a - 1));
    std::string v = ent.substr(a + 4);
    out[k] = is_itv ? conv_itv(v) : conv_cong(v);
    if (e == std::string::npos) break;
    i = e + 2;
  }
}
#endif

std::string dump(Dom &d) {
  std::ostringstream o;
  bool b = d.is_bottom();
  o << (b ? 1 : 0) << " " << (d.is_top() ? 1 : 0) << " (b";
#if XDOM == 4
  if (!b) {
    crab::crab_string_os os;
    d.write(os);
    std::string t = os.str(); // "(" first ", " second ")"
    size_t close1 = t.find('}');
    std::string m1 = t.substr(1, close1), m2 = t.substr(close1 + 3, t.size() - close1 - 4);
    std::map<unsigned, std::string> iv, cg;
    parse_map(m1, true, iv);
    parse_map(m2, false, cg);
    for (unsigned i = 0; i < NV; i++) {
      if (!iv.count(i) && !cg.count(i)) continue;
      o << " (v" << i << " (ic " << (iv.count(i) ? iv[i] : std::string("(iv -oo +oo)")) << " "
        << (cg.count(i) ? cg[i] : std::string("top")) << "))";
    }
  }
#else
  if (!b) {
    // the classes have no iterator: the value of every variable of the universe is read; top is
    // never stored, so these are the bindings (is_top() tells whether the tree is empty)
    for (unsigned i = 0; i < NV; i++) {
      Val c = get_val(d, var(i));
      if (!c.is_top()) o << " (v" << i << " " << val_str(c) << ")";
    }
  }
#endif
  o << ") (cs";
  auto sys = d.to_linear_constraint_system();
  std::vector<std::string> cs;
  for (auto it = sys.begin(); it != sys.end(); ++it) cs.push_back(cst_str(*it));
  std::sort(cs.begin(), cs.end());
  for (auto &s : cs) o << " " << s;
  o << ")";
  return o.str();
}

crab::domains::arith_operation_t aop(const std::string &s) {
  if (s == "add") return OP_ADDITION;
  if (s == "sub") return OP_SUBTRACTION;
  if (s == "mul") return OP_MULTIPLICATION;
  if (s == "sdiv") return OP_SDIV;
  if (s == "udiv") return OP_UDIV;
  if (s == "srem") return OP_SREM;
  return OP_UREM;
}
crab::domains::bitwise_operation_t bop(const std::string &s) {
  if (s == "and") return OP_AND;
  if (s == "or") return OP_OR;
  if (s == "xor") return OP_XOR;
  if (s == "shl") return OP_SHL;
  if (s == "lshr") return OP_LSHR;
  return OP_ASHR;
}

std::string eval(const Sx &q) {
  variable_factory_t vf;
  std::vector<z_var> vars;
  for (unsigned i = 0; i < NV; i++) vars.push_back(z_var(vf["v" + std::to_string(i)], crab::INT_TYPE, 32));
  VARS = &vars;
  std::vector<Dom> pool;
  for (unsigned i = 0; i < NP; i++) { Dom d; pool.push_back(d.make_top()); }
  if (q[1].a != DOMNAME) return "(wrong-domain)";
  const Sx &ops = q[2];
  std::ostringstream out;
  for (size_t oi = 1; oi < ops.size(); oi++) {
    const Sx &op = ops[oi];
    const std::string &k = op[0].a;
    unsigned d = std::stoul(op[1].a);
    std::string qa = "-";
    try {
      auto P = [&](size_t i) -> Dom & { return pool[std::stoul(op[i].a)]; };
      if (k == "top") pool[d].set_to_top();
      else if (k == "bot") pool[d].set_to_bottom();
      else if (k == "copy") { Dom c(P(2)); pool[d] = c; }
      else if (k == "assign") pool[d].assign(var(vidx(op[2])), parse_lin(op[3]));
      else if (k == "wassign") pool[d].weak_assign(var(vidx(op[2])), parse_lin(op[3]));
      else if (k == "arith") {
        if (op[5].a[0] == 'v') pool[d].apply(aop(op[2].a), var(vidx(op[3])), var(vidx(op[4])), var(vidx(op[5])));
        else pool[d].apply(aop(op[2].a), var(vidx(op[3])), var(vidx(op[4])), z_number(op[5].a));
      } else if (k == "bitw") {
        if (op[5].a[0] == 'v') pool[d].apply(bop(op[2].a), var(vidx(op[3])), var(vidx(op[4])), var(vidx(op[5])));
        else pool[d].apply(bop(op[2].a), var(vidx(op[3])), var(vidx(op[4])), z_number(op[5].a));
      } else if (k == "assume") {
        linear_constraint_system<z_number, varname_t> sys;
        for (size_t i = 2; i < op.size(); i++) sys += parse_cst(op[i]);
        pool[d] += sys;
      } else if (k == "forget1") pool[d] -= var(vidx(op[2]));
      else if (k == "forget") {
        std::vector<z_var> vs; for (size_t i = 2; i < op.size(); i++) vs.push_back(var(vidx(op[i]))); pool[d].forget(vs);
      } else if (k == "project") {
        std::vector<z_var> vs; for (size_t i = 2; i < op.size(); i++) vs.push_back(var(vidx(op[i]))); pool[d].project(vs);
      } else if (k == "rename") {
        std::vector<z_var> f, t;
        for (size_t i = 0; i < op[2].size(); i++) f.push_back(var(vidx(op[2][i])));
        for (size_t i = 0; i < op[3].size(); i++) t.push_back(var(vidx(op[3][i])));
        pool[d].rename(f, t);
      } else if (k == "expand") pool[d].expand(var(vidx(op[2])), var(vidx(op[3])));
      else if (k == "join") { Dom r = P(2) | P(3); pool[d] = r; }
      else if (k == "meet") { Dom r = P(2) & P(3); pool[d] = r; }
      else if (k == "widen") { Dom r = P(2) || P(3); pool[d] = r; }
      else if (k == "narrow") { Dom r = P(2) && P(3); pool[d] = r; }
      else if (k == "joineq") pool[d] |= P(2);
      else if (k == "meeteq") pool[d] &= P(2);
      else if (k == "widenth") {
        crab::thresholds<z_number> ts;
        for (size_t i = 1; i < op[4].size(); i++) ts.add(z_bound(z_number(op[4][i].a)));
        Dom r = P(2).widening_thresholds(P(3), ts); pool[d] = r;
      } else if (k == "select") pool[d].select(var(vidx(op[2])), parse_cst(op[3]), parse_lin(op[4]), parse_lin(op[5]));
      else if (k == "set") set_val(pool[d], var(vidx(op[2])), parse_val(op[3]));
      else if (k == "cast") {
        const std::string &c = op[2].a;
        pool[d].apply(c == "zext" ? OP_ZEXT : c == "sext" ? OP_SEXT : OP_TRUNC, var(vidx(op[3])), var(vidx(op[4])));
      } else if (k == "entails") qa = pool[d].entails(parse_cst(op[2])) ? "1" : "0";
      else if (k == "leq") qa = (pool[d] <= P(2)) ? "1" : "0";
      else if (k == "at") qa = ivs(pool[d].at(var(vidx(op[2]))));
      else { out << "(unknown-op)"; break; }
      out << "(s " << dump(pool[d]) << " " << qa << ") ";
    } catch (const crab::verif_error &) {
      out << "(err)";
      break;
    }
  }
  return out.str();
}

// ---------------------------------------------------------------- generator
std::string V(unsigned i) { return "v" + std::to_string(i); }

std::string gen_const(Rng &r) {
  switch (r.below(14)) {
  case 0: case 1: case 2: return "0";
  case 3: return "1";
  case 4: return "-1";
  case 5: case 6: case 7: case 8: return std::to_string(r.range(-6, 6));
  case 9: return std::to_string(r.range(-1000, 1000));
  case 10: return r.below(3) ? std::to_string(r.range(-3, 3)) : zs(gen_z(r));
  default: return std::to_string(r.range(-20, 20));
  }
}
std::string gen_coef(Rng &r) {
  switch (r.below(10)) {
  case 0: return "0";
  case 1: case 2: case 3: return "1";
  case 4: case 5: return "-1";
  case 6: case 7: return std::to_string(r.range(-4, 4));
  case 8: return std::to_string(r.range(-50, 50));
  default: return zs(gen_z(r));
  }
}
// nv: variables are drawn among v0..v(nv-1)
std::string gen_lin(Rng &r, unsigned nv, unsigned maxterms = 3) {
  std::string s = "(lin " + gen_const(r);
  unsigned k = r.below(maxterms + 1);
  std::vector<bool> used(NV, false);
  for (unsigned i = 0; i < k; i++) {
    unsigned v = r.below(nv);
    if (used[v]) continue;
    used[v] = true;
    s += " (" + gen_coef(r) + " " + V(v) + ")";
  }
  return s + ")";
}
std::string gen_cst(Rng &r, unsigned nv) {
  static const char *K[] = {"le", "le", "lt", "lt", "eq", "eq", "ne", "ne"};
  std::string k = K[r.below(8)];
  unsigned shape = r.below(9);
  if (shape <= 1) { // ±x ⋈ c
    std::string c = (XDOM == 2 && r.below(3)) ? "0" : gen_const(r);
    return "(" + k + " (lin " + c + " (" + (r.coin() ? "1" : "-1") + " " + V(r.below(nv)) + ")))";
  } else if (shape == 2) { // k*x ⋈ c  (inexact quotients)
    return "(" + k + " (lin " + gen_const(r) + " (" + std::to_string(r.range(-7, 7)) + " " + V(r.below(nv)) + ")))";
  } else if (shape <= 5) { // a*x + b*y ⋈ c
    unsigned a = r.below(nv), b = r.below(nv);
    if (a == b) b = (a + 1) % nv;
    std::string c = r.below(3) ? "0" : gen_const(r);
    std::string ca = r.below(3) ? "1" : std::to_string(r.range(-3, 3));
    std::string cb = r.below(3) ? "-1" : std::to_string(r.range(-3, 3));
    return "(" + k + " (lin " + c + " (" + ca + " " + V(a) + ") (" + cb + " " + V(b) + ")))";
  } else if (shape == 6) {
    return "(" + k + " " + gen_lin(r, nv, 5) + ")";
  }
  return "(" + k + " " + gen_lin(r, nv) + ")";
}
std::string gen_val(Rng &r) {
#if XDOM == 1
  switch (r.below(12)) { case 0: return "top"; case 1: return "bot"; default: return gen_const(r); }
#elif XDOM == 2
  static const char *S[] = {"bot", "ltz", "gtz", "eqz", "nez", "gez", "lez", "top"};
  return S[r.below(20) == 0 ? 0 : 1 + r.below(7)];
#else
  auto gen_cg = [&]() -> std::string {
    switch (r.below(14)) {
    case 0: return "top";
    case 1: return "bot";
    case 2: case 3: case 4: return "(cg 0 " + gen_const(r) + ")";
    default: {
      int64_t a = r.range(2, r.coin() ? 8 : 40);
      return "(cg " + std::to_string(a) + " " + std::to_string(r.range(0, a - 1)) + ")";
    }
    }
  };
#if XDOM == 3
  return gen_cg();
#else
  z_interval i = gen_interval(r, r.below(4) != 0);
  return "(ic " + ivs(i) + " " + (r.below(3) ? gen_cg() : std::string("top")) + ")";
#endif
#endif
}

std::string gen(Rng &r, const Args &a) {
  bool thorough = a.tier == "thorough";
  unsigned len = 4 + r.below(thorough ? 50 : 22);
  // most histories use few variables (so that constraints interact), some all of them
  unsigned nv = r.below(4) == 0 ? NV : 3 + r.below(3);
  std::ostringstream o;
  o << "(xdom.hist " << DOMNAME << " (ops";
  static const char *AOP[] = {"add", "sub", "mul", "sdiv", "udiv", "srem", "urem"};
  static const char *BOP[] = {"and", "or", "xor", "shl", "lshr", "ashr"};
  unsigned profile = r.below(4); // 0 mixed, 1 constraint heavy, 2 assignment/arith heavy, 3 lattice heavy
  for (unsigned d = 0; d < NP; d++) {
    if (r.below(5) == 0) continue;
    unsigned n = 1 + r.below(nv);
    for (unsigned j = 0; j < n; j++) {
      unsigned v = r.below(nv);
      switch (r.below(4)) {
      case 0: o << " (assign " << d << " " << V(v) << " (lin " << gen_const(r) << "))"; break;
      case 1: o << " (assume " << d << " " << gen_cst(r, nv) << ")"; break;
      default: o << " (set " << d << " " << V(v) << " " << gen_val(r) << ")"; break;
      }
    }
  }
  for (unsigned i = 0; i < len; i++) {
    unsigned d = r.below(NP);
    unsigned k = r.below(100);
    if (profile == 1) k = r.below(3) ? 30 + r.below(25) : k;
    if (profile == 2) k = r.below(3) ? r.below(30) : k;
    if (profile == 3) k = r.below(3) ? 66 + r.below(24) : k;
    if (k < 12) o << " (assign " << d << " " << V(r.below(nv)) << " " << gen_lin(r, nv) << ")";
    else if (k < 14) o << " (wassign " << d << " " << V(r.below(nv)) << " " << gen_lin(r, nv) << ")";
    else if (k < 24) {
      std::string z = r.coin() ? V(r.below(nv)) : gen_const(r);
      o << " (arith " << d << " " << AOP[r.below(r.below(3) ? 4 : 7)] << " " << V(r.below(nv)) << " " << V(r.below(nv)) << " " << z << ")";
    } else if (k < 30) {
      std::string z = r.coin() ? V(r.below(nv)) : std::to_string(r.below(12) ? r.range(-1, 12) : r.range(60, 70));
      const char *bo = BOP[r.below(6)];
      // a left shift by a huge amount aborts inside gmp (z_number::operator<< shifts by
      // mpz_get_ui of the amount: known finding F22): the amount is made small first
      if ((XDOM == 1 || XDOM == 3 || XDOM == 4) && std::string(bo) == "shl" && z[0] == 'v') {
        if (XDOM == 3 && r.coin()) {
          int64_t a = r.range(2, 12);
          o << " (set " << d << " " << z << " (cg " << a << " " << r.range(0, a - 1) << "))";
        } else
          o << " (assign " << d << " " << z << " (lin " << r.range(-2, 70) << "))";
      }
      o << " (bitw " << d << " " << bo << " " << V(r.below(nv)) << " " << V(r.below(nv)) << " " << z << ")";
    } else if (k < 50) {
      o << " (assume " << d;
      unsigned n = 1;
      switch (r.below(6)) { case 0: n = 2; break; case 1: n = 3; break; case 2: n = 4 + r.below(3); break; default: break; }
      for (unsigned j = 0; j < n; j++) o << " " << gen_cst(r, nv);
      o << ")";
    } else if (k < 55) o << " (entails " << d << " " << gen_cst(r, nv) << ")";
    else if (k < 58) {
      o << " (" << (r.coin() ? "forget " : "forget1 ") << d;
      o << " " << V(r.below(nv)) << ")";
    } else if (k < 59) {
      o << " (forget " << d;
      unsigned n = r.below(4);
      for (unsigned j = 0; j < n; j++) o << " " << V(r.below(nv));
      o << ")";
    } else if (k < 62) {
      o << " (project " << d;
      unsigned n = r.below(NV + 1);
      for (unsigned j = 0; j < n; j++) o << " " << V(r.below(NV));
      o << ")";
    } else if (k < 64) {
      unsigned x = r.below(NV), y = r.below(NV);
      if (x == y) y = (x + 1) % NV;
      if (r.below(4)) o << " (forget1 " << d << " " << V(y) << ")";
      if (r.coin()) o << " (expand " << d << " " << V(x) << " " << V(y) << ")";
      else o << " (rename " << d << " (" << V(x) << ") (" << V(y) << "))";
    } else if (k < 66) {
      // general rename: distinct sources, arbitrary targets (sometimes a length mismatch)
      unsigned n = 1 + r.below(3);
      std::vector<unsigned> perm;
      for (unsigned j = 0; j < NV; j++) perm.push_back(j);
      for (unsigned j = 0; j < NV; j++) std::swap(perm[j], perm[j + r.below(NV - j)]);
      o << " (rename " << d << " (";
      for (unsigned j = 0; j < n; j++) o << (j ? " " : "") << V(perm[j]);
      o << ") (";
      unsigned m = r.below(25) == 0 ? n + 1 : n;
      for (unsigned j = 0; j < m; j++) o << (j ? " " : "") << V(r.coin() ? perm[NV - 1 - j] : r.below(NV));
      o << "))";
    } else if (k < 72) o << " (join " << d << " " << r.below(NP) << " " << r.below(NP) << ")";
    else if (k < 77) o << " (meet " << d << " " << r.below(NP) << " " << r.below(NP) << ")";
    else if (k < 82) o << " (widen " << d << " " << r.below(NP) << " " << r.below(NP) << ")";
    else if (k < 84) {
      o << " (widenth " << d << " " << r.below(NP) << " " << r.below(NP) << " (ts";
      unsigned n = r.below(4);
      for (unsigned j = 0; j < n; j++) o << " " << r.range(-20, 20);
      o << "))";
    } else if (k < 87) o << " (narrow " << d << " " << r.below(NP) << " " << r.below(NP) << ")";
    else if (k < 88) o << " (" << (r.coin() ? "joineq " : "meeteq ") << d << " " << r.below(NP) << ")";
    else if (k < 90) o << " (leq " << d << " " << r.below(NP) << ")";
    else if (k < 91) o << " (at " << d << " " << V(r.below(NV)) << ")";
    else if (k < 94) o << " (copy " << d << " " << r.below(NP) << ")";
    else if (k < 96) o << " (select " << d << " " << V(r.below(nv)) << " " << gen_cst(r, nv) << " " << gen_lin(r, nv, 2) << " " << gen_lin(r, nv, 2) << ")";
    else if (k < 97) o << " (set " << d << " " << V(r.below(nv)) << " " << gen_val(r) << ")";
    else if (k < 98) { static const char *C[] = {"zext", "sext", "trunc"}; o << " (cast " << d << " " << C[r.below(3)] << " " << V(r.below(nv)) << " " << V(r.below(nv)) << ")"; }
    else if (k < 99) o << " (top " << d << ")";
    else o << " (bot " << d << ")";
  }
  o << "))";
  return o.str();
}

} // namespace

int main(int argc, char **argv) { return run_harness(argc, argv, gen, eval); }
