// Harness for component `wint`: crab::domains::wrapped_interval<ikos::z_number>
// (include/crab/domains/wrapped_interval.hpp, wrapped_interval_impl.hpp, lib/wrapped_interval.cpp)
// of the current tree.
//
// An interval is written `bot`, `top` or `(w s e)` (width, raw start, raw end: unsigned decimal
// `get_uint64_t()`).  A request `(w s e)` is built with wrapped_interval(wrapint(s,w), wrapint(e,w))
// (it may be a full circle, which `is_top()` recognises); a result is printed `bot` if
// is_bottom(), `top` if is_top() (start()/end() raise CRAB_ERROR on top, its representation cannot
// be observed), `(w s e)` otherwise.
//
//   (wint.<bin> X Y) => R|err      add sub mul sdiv udiv srem urem and or xor shl lshr ashr
//                                  join meet widen narrow trim
//   (wint.neg X) => R
//   (wint.leq X Y) (wint.eq X Y) => 0|1|err
//   (wint.at X w v) => 0|1|err     at(wrapint(v, w))
//   (wint.istop X) (wint.isbot X) (wint.issingleton X) => 0|1
//   (wint.crosss X) (wint.crossu X) => 0|1|err     cross_signed_limit / cross_unsigned_limit
//   (wint.zext X k) (wint.sext X k) (wint.trunc X k) => R|err
//   (wint.ofz w z) (wint.ofz2 w lb ub) => R|err    mk_winterval
//   (wint.toitv X) => bot|(iv lb ub)|err           to_interval
//   (wint.lhl X s) (wint.uhl X s) => R|err         lower/upper_half_line(is_signed = s)
//
// `--exhaustive`: the first requests are the complete table of every operation over every
// pair of intervals (all (start,end), bottom) of width 3, then of width 4 (the caller chooses
// --count: 90000 covers width 3, 1500000 covers widths 3 and 4); after the table, random
// generation continues.
// The library is built with -DNDEBUG (pinned build configuration): `assert(w > 1)` in operator||
// is off, so the widening of 1-bit intervals is generated too.
#include "common.hpp"
#include <crab/domains/wrapped_interval.hpp>
#include <crab/numbers/wrapint.hpp>
using namespace vh;
using crab::wrapint;
using wi_t = crab::domains::wrapped_interval<z_number>;

static std::string u64s(uint64_t v) { return std::to_string((unsigned long long)v); }
static std::string bstr(bool b) { return b ? "1" : "0"; }
static uint64_t pu64(const Sx &x) { return std::strtoull(x.a.c_str(), nullptr, 10); }

static std::string wis(const wi_t &x) {
  if (x.is_bottom()) return "bot";
  if (x.is_top()) return "top";
  return "(" + u64s(x.start().get_bitwidth()) + " " + u64s(x.start().get_uint64_t()) + " " +
         u64s(x.end().get_uint64_t()) + ")";
}

static wi_t parse_wint(const Sx &x) {
  if (x.is_atom) return x.a == "top" ? wi_t::top() : wi_t::bottom();
  uint64_t w = pu64(x[0]);
  return wi_t(wrapint(pu64(x[1]), w), wrapint(pu64(x[2]), w));
}

static const std::vector<std::string> BIN = {"add",  "sub", "mul",  "sdiv", "udiv", "srem", "urem",  "and",    "or",
                                             "xor",  "shl", "lshr", "ashr", "join", "meet", "widen", "narrow", "trim"};
static const std::vector<std::string> PRED = {"leq", "eq"};
static const std::vector<std::string> UNB = {"istop", "isbot", "issingleton", "crosss", "crossu"};
static const std::vector<std::string> CAST = {"zext", "sext", "trunc"};

static std::string eval(const Sx &q) {
  const std::string op = q[0].a.substr(5);
  if (op == "ofz") return wis(wi_t::mk_winterval(z_number(q[2].a), pu64(q[1])));
  if (op == "ofz2") return wis(wi_t::mk_winterval(z_number(q[2].a), z_number(q[3].a), pu64(q[1])));
  wi_t a = parse_wint(q[1]);
  if (op == "neg") return wis(-a);
  if (op == "istop") return bstr(a.is_top());
  if (op == "isbot") return bstr(a.is_bottom());
  if (op == "issingleton") return bstr(a.is_singleton());
  if (op == "crosss") return bstr(a.cross_signed_limit());
  if (op == "crossu") return bstr(a.cross_unsigned_limit());
  if (op == "toitv") return ivs(a.to_interval());
  if (op == "at") return bstr(a.at(wrapint(pu64(q[3]), pu64(q[2]))));
  if (op == "zext") return wis(a.ZExt((unsigned)pu64(q[2])));
  if (op == "sext") return wis(a.SExt((unsigned)pu64(q[2])));
  if (op == "trunc") return wis(a.Trunc((unsigned)pu64(q[2])));
  if (op == "lhl") return wis(a.lower_half_line(q[2].a == "1"));
  if (op == "uhl") return wis(a.upper_half_line(q[2].a == "1"));
  wi_t b = parse_wint(q[2]);
  if (op == "leq") return bstr(a <= b);
  if (op == "eq") return bstr(a == b);
  if (op == "add") return wis(a + b);
  if (op == "sub") return wis(a - b);
  if (op == "mul") return wis(a * b);
  if (op == "sdiv") return wis(a.SDiv(b));
  if (op == "udiv") return wis(a.UDiv(b));
  if (op == "srem") return wis(a.SRem(b));
  if (op == "urem") return wis(a.URem(b));
  if (op == "and") return wis(a.And(b));
  if (op == "or") return wis(a.Or(b));
  if (op == "xor") return wis(a.Xor(b));
  if (op == "shl") return wis(a.Shl(b));
  if (op == "lshr") return wis(a.LShr(b));
  if (op == "ashr") return wis(a.AShr(b));
  if (op == "join") return wis(a | b);
  if (op == "meet") return wis(a & b);
  if (op == "widen") return wis(a || b);
  if (op == "narrow") return wis(a && b);
  if (op == "trim") return wis(ikos::linear_interval_solver_impl::trim_interval(a, b));
  return "unknown";
}

// ---- generators ----
static uint64_t maskw(unsigned w) { return w >= 64 ? ~0ULL : ((1ULL << w) - 1); }
static std::string raw(unsigned w, uint64_t s, uint64_t e) {
  return "(" + u64s(w) + " " + u64s(s & maskw(w)) + " " + u64s(e & maskw(w)) + ")";
}

static unsigned gen_width(Rng &r) {
  static const unsigned fav[] = {8, 16, 32, 64, 8, 32, 64, 3, 4, 5, 7, 33, 63, 2, 1};
  if (r.below(10) < 8) return fav[r.below(15)];
  return 1 + (unsigned)r.below(64);
}

static uint64_t gen_point(Rng &r, unsigned w) {
  uint64_t m = maskw(w), half = 1ULL << (w - 1);
  switch (r.below(10)) {
  case 0: return 0;
  case 1: return m;
  case 2: return half;
  case 3: return (half - 1) & m;
  case 4: return r.below(8) & m;
  case 5: return (m - r.below(8)) & m;
  case 6: return (half + r.below(9) - 4) & m;
  default: return r.next() & m;
  }
}

// an interval of width w: bottom, top, singleton, across the south pole (unsigned wrap), across
// the north pole (signed wrap), across both, short, long, arbitrary
static std::string gen_wint(Rng &r, unsigned w) {
  uint64_t m = maskw(w), half = 1ULL << (w - 1);
  switch (r.below(24)) {
  case 0: return "bot";
  case 1: return "top";
  case 2: { uint64_t s = gen_point(r, w); return raw(w, s, s - 1); } // a full circle, not canonical
  case 3: case 4: case 5: { uint64_t s = gen_point(r, w); return raw(w, s, s); }
  case 6: case 7: return raw(w, m - r.below(6), r.below(6));                     // south pole
  case 8: case 9: return raw(w, half - 1 - r.below(6), half + r.below(6));       // north pole
  case 10: return raw(w, half - 1 - r.below(4), r.below(4));                     // both poles
  case 11: return raw(w, m - r.below(4), half + r.below(4));                     // both poles
  case 12: case 13: case 14: { uint64_t s = gen_point(r, w); return raw(w, s, s + r.below(12)); }
  case 15: { uint64_t s = gen_point(r, w); return raw(w, s, s - 2 - r.below(6)); } // nearly full
  case 16: { uint64_t s = gen_point(r, w); return raw(w, s, s + (r.next() & (m >> 1))); }
  case 17: return raw(w, 0, gen_point(r, w));
  case 18: return raw(w, half, gen_point(r, w));
  default: return raw(w, gen_point(r, w), gen_point(r, w));
  }
}

static std::string gen_zs(Rng &r, unsigned w) {
  switch (r.below(6)) {
  case 0: return zs(gen_z(r));
  case 1: {
    z_number b = zpow2(r.coin() ? w : w - 1);
    z_number v = b + z_number((int64_t)r.range(-2, 2));
    return zs(r.coin() ? v : -v);
  }
  case 2: {
    z_number b = zpow2(r.coin() ? 63 : 64);
    z_number v = b + z_number((int64_t)r.range(-2, 2));
    return zs(r.coin() ? v : -v);
  }
  default: return zs(z_number((int64_t)r.range(-300, 300)));
  }
}

// ---- the complete table for one width: index -> request ----
// intervals of width w are numbered 0 .. 4^w : (start, end) pairs, then `bot`
static uint64_t n_itv(unsigned w) { return (1ULL << (2 * w)) + 1; }
static std::string itv_at(unsigned w, uint64_t i) {
  uint64_t n = 1ULL << w;
  if (i == n * n) return "bot";
  return raw(w, i / n, i % n);
}
static const std::vector<std::string> TAB_BIN = {"add",  "sub",  "mul",  "sdiv", "udiv", "shl", "lshr", "ashr",
                                                 "join", "meet", "widen", "trim", "leq", "eq",  "srem", "and"};
static uint64_t table_size(unsigned w) {
  uint64_t n = n_itv(w);
  // binary ops over all pairs; per interval: neg, unary predicates, at for every value,
  // casts with k = 0..w+1 (zext/sext) and k = 0..w+1 (trunc), toitv, lhl/uhl
  return n * n * TAB_BIN.size() + n * (1 + UNB.size() + (1ULL << w) + 3 * (w + 2) + 1 + 4);
}
static std::string table_req(unsigned w, uint64_t idx) {
  uint64_t n = n_itv(w);
  uint64_t nb = n * n * TAB_BIN.size();
  if (idx < nb) {
    uint64_t o = idx % TAB_BIN.size();
    uint64_t p = idx / TAB_BIN.size();
    return "(wint." + TAB_BIN[o] + " " + itv_at(w, p / n) + " " + itv_at(w, p % n) + ")";
  }
  idx -= nb;
  uint64_t per = 1 + UNB.size() + (1ULL << w) + 3 * (w + 2) + 1 + 4;
  std::string X = itv_at(w, idx / per);
  uint64_t j = idx % per;
  if (j == 0) return "(wint.neg " + X + ")";
  j -= 1;
  if (j < UNB.size()) return "(wint." + UNB[j] + " " + X + ")";
  j -= UNB.size();
  if (j < (1ULL << w)) return "(wint.at " + X + " " + u64s(w) + " " + u64s(j) + ")";
  j -= (1ULL << w);
  if (j < 3 * (w + 2)) return "(wint." + CAST[j / (w + 2)] + " " + X + " " + u64s(j % (w + 2)) + ")";
  j -= 3 * (w + 2);
  if (j == 0) return "(wint.toitv " + X + ")";
  j -= 1;
  return "(wint." + std::string(j < 2 ? "lhl" : "uhl") + " " + X + " " + u64s(j % 2) + ")";
}

static bool g_exhaustive = false;

static std::string gen(Rng &r, const Args &) {
  static uint64_t counter = 0;
  if (g_exhaustive) {
    uint64_t i = counter++;
    if (i < table_size(3)) return table_req(3, i);
    i -= table_size(3);
    if (i < table_size(4)) return table_req(4, i);
  }
  unsigned w = gen_width(r);
  unsigned k = r.below(40);
  if (k == 0) return "(wint.ofz " + u64s(r.below(16) == 0 ? 65 : w) + " " + gen_zs(r, w) + ")";
  if (k == 1) return "(wint.ofz2 " + u64s(w) + " " + gen_zs(r, w) + " " + gen_zs(r, w) + ")";
  std::string X = gen_wint(r, w);
  if (k == 2) return "(wint.neg " + X + ")";
  if (k == 3) return "(wint." + r.pick(UNB) + " " + X + ")";
  if (k == 4) return "(wint.toitv " + X + ")";
  if (k == 5) return "(wint." + std::string(r.coin() ? "lhl" : "uhl") + " " + X + " " + (r.coin() ? "1" : "0") + ")";
  if (k <= 7) return "(wint.at " + X + " " + u64s(w) + " " + u64s(gen_point(r, w)) + ")";
  if (k <= 11) {
    const std::string &c = r.pick(CAST);
    uint64_t bits;
    unsigned ch = r.below(8);
    if (c == "trunc") bits = ch == 0 ? w : ch == 1 ? w - 1 : ch == 2 ? 1 : ch == 3 ? w + 1 : 1 + r.below(w);
    else bits = ch == 0 ? 0 : ch == 1 ? 64 - w : ch == 2 ? 65 - w : ch == 3 ? 1 : r.below(64 - w + 1);
    return "(wint." + c + " " + X + " " + u64s(bits) + ")";
  }
  std::string Y = r.below(6) == 0 ? X : gen_wint(r, w);
  if (k <= 14) return "(wint." + r.pick(PRED) + " " + X + " " + Y + ")";
  std::string op = r.pick(BIN);
  if (op == "shl" || op == "lshr" || op == "ashr") {
    // amount: mostly a singleton 0..w-1, sometimes w, sometimes an arbitrary interval
    unsigned ch = r.below(8);
    if (ch < 6) { uint64_t s = ch == 0 ? 0 : ch == 1 ? w - 1 : r.below(w); Y = raw(w, s, s); }
    else if (ch == 6 && w >= 3) { uint64_t s = r.below(w - 1); Y = raw(w, s, s + 1); }
  }
  if (op == "trim" && r.coin()) { uint64_t s = gen_point(r, w); Y = raw(w, s, s); }
  return "(wint." + op + " " + X + " " + Y + ")";
}

int main(int argc, char **argv) {
  crab::CrabEnableWarningMsg(false);
  for (int i = 1; i < argc; i++)
    if (std::string(argv[i]) == "--exhaustive") g_exhaustive = true;
  return run_harness(argc, argv, gen, eval);
}
