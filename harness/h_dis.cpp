// Harness for component `dis`: crab::domains::dis_interval<z_number>
// (include/crab/domains/dis_interval.hpp, dis_interval_impl.hpp, lib/dis_interval.cpp) of the current
// tree, driven directly (the domain dis_interval_domain of dis_intervals.hpp has its own copy).
//
// Values:  bot | top | (l I I ...)   with I = (lo hi) | bot   (the raw vector of a FINITE value).
// The list constructor is private: a FINITE value with an arbitrary vector of n intervals is built
// through the public interface only: join n far-apart singletons, then overwrite the n elements
// through the non-const iterators begin()/end().  This gives unsorted / overlapping / adjacent
// vectors and vectors that contain a top or a bottom interval (n <= 49).
#include "common.hpp"
#include <crab/domains/dis_interval.hpp>
#include <crab/fixpoint/thresholds.hpp>
using namespace vh;
using dis_t = crab::domains::dis_interval<z_number>;

static std::string bstr(bool b) { return b ? "1" : "0"; }

static std::string els(const z_interval &i) {
  if (i.is_bottom()) return "bot";
  return "(" + bs(i.lb()) + " " + bs(i.ub()) + ")";
}
static z_interval parse_el(const Sx &x) {
  if (x.is_atom) return z_interval::bottom();
  return z_interval(parse_bound(x[0]), parse_bound(x[1]));
}
static size_t nelems(const dis_t &d) { return (size_t)std::distance(d.begin(), d.end()); }
static std::string dstr(const dis_t &d) {
  if (d.is_bottom()) return "bot";
  if (d.is_top()) return "top";
  std::string r = "(l";
  for (auto it = d.begin(); it != d.end(); ++it) r += " " + els(*it);
  return r + ")";
}
struct unbuildable {};
static dis_t build(const Sx &x) {
  if (x.is_atom) return x.a == "bot" ? dis_t::bottom() : dis_t::top();
  size_t n = x.size() - 1;
  if (n == 0 || n > 49) throw unbuildable();
  dis_t d = dis_t::bottom();
  for (size_t i = 0; i < n; i++) d = d | dis_t(z_interval(z_number((int64_t)(10 * i))));
  if (!d.is_finite() || nelems(d) != n) throw unbuildable();
  size_t i = 1;
  for (auto it = d.begin(); it != d.end(); ++it, ++i) *it = parse_el(x[i]);
  return d;
}

static std::string eval(const Sx &q) {
  try {
    std::string op = q[0].a.substr(4);
    if (op == "of") return dstr(dis_t(parse_el(q[1])));
    dis_t a = build(q[1]);
    if (op == "norm") { a.normalize(); return dstr(a) + " " + std::to_string(nelems(a)); }
    if (op == "isbot") return bstr(a.is_bottom());
    if (op == "istop") return bstr(a.is_top());
    if (op == "isfin") return bstr(a.is_finite());
    if (op == "approx") return ivs(a.approx());
    if (op == "singleton") { auto s = a.singleton(); return s ? zs(*s) : "none"; }
    if (op == "neg") return dstr(-a);
    if (op == "lhl") return dstr(a.lower_half_line());
    if (op == "uhl") return dstr(a.upper_half_line());
    dis_t b = build(q[2]);
    if (op == "leq") return bstr(a <= b);
    if (op == "eq") return bstr(a == b);
    if (op == "join") return dstr(a | b);
    if (op == "meet") return dstr(a & b);
    if (op == "widen") return dstr(a || b);
    if (op == "narrow") return dstr(a && b);
    if (op == "widenth") {
      crab::thresholds<z_number> ts;
      for (size_t i = 1; i < q[3].size(); i++) ts.add(z_bound(z_number(q[3][i].a)));
      return dstr(a.widening_thresholds(b, ts));
    }
    if (op == "add") return dstr(a + b);
    if (op == "sub") return dstr(a - b);
    if (op == "mul") return dstr(a * b);
    if (op == "div") return dstr(a / b);
    if (op == "udiv") return dstr(a.UDiv(b));
    if (op == "srem") return dstr(a.SRem(b));
    if (op == "urem") return dstr(a.URem(b));
    if (op == "and") return dstr(a.And(b));
    if (op == "or") return dstr(a.Or(b));
    if (op == "xor") return dstr(a.Xor(b));
    if (op == "shl") return dstr(a.Shl(b));
    if (op == "lshr") return dstr(a.LShr(b));
    if (op == "ashr") return dstr(a.AShr(b));
    if (op == "trim") return dstr(ikos::linear_interval_solver_impl::trim_interval(a, b));
    return "unknown";
  } catch (const unbuildable &) {
    return "unbuildable";
  }
}

// ---------------- generator ----------------
typedef std::vector<z_interval> ilist;

static std::string lstr(const ilist &l) {
  std::string r = "(l";
  for (auto &i : l) r += " " + els(i);
  return r + ")";
}
static z_number gnum(Rng &r, bool small) { return small ? gen_small_z(r, 14) : gen_z(r); }

// a well-formed vector: sorted, pairwise separated by a gap, maybe infinite at both ends
static ilist gen_wf(Rng &r, bool small, unsigned k) {
  ilist l;
  z_number cur = gnum(r, small) - z_number((int64_t)(small ? 10 : 0));
  for (unsigned i = 0; i < k; i++) {
    z_number w((int64_t)(r.below(3) == 0 ? 0 : r.range(0, small ? 3 : 40)));
    if (!small && r.below(6) == 0) w = gen_z(r) * gen_z(r);
    if (w < z_number(0)) w = -w;
    z_number lo = cur, hi = cur + w;
    z_bound L(lo), U(hi);
    if (i == 0 && r.below(5) == 0) L = z_bound::minus_infinity();
    if (i + 1 == k && r.below(5) == 0) U = z_bound::plus_infinity();
    l.push_back(z_interval(L, U));
    z_number gap((int64_t)(r.below(2) == 0 ? 2 : r.range(2, small ? 4 : 60)));
    if (!small && r.below(6) == 0) { gap = gen_z(r); if (gap < z_number(2)) gap = z_number(2) - gap; }
    cur = hi + gap;
  }
  return l;
}
// perturbations that break the invariant: adjacent / overlapping / duplicate / unsorted / top / bottom
static void perturb(Rng &r, ilist &l, bool small) {
  if (l.empty()) return;
  size_t i = r.below(l.size());
  switch (r.below(9)) {
  case 0: l[i] = z_interval::top(); break;
  case 1: l[i] = z_interval::bottom(); break;
  case 2: std::swap(l[i], l[r.below(l.size())]); break;
  case 3: l[i] = l[r.below(l.size())]; break;
  case 4: if (i + 1 < l.size() && l[i + 1].lb().is_finite()) // adjacent to the next one
      l[i] = z_interval(l[i].lb(), l[i + 1].lb() - z_bound(z_number(1))); break;
  case 5: if (i + 1 < l.size()) l[i] = z_interval(l[i].lb(), l[i + 1].lb()); break; // overlap by a point
  case 6: l[i] = gen_interval(r, small); break;
  case 7: for (size_t j = 0; j + 1 < l.size(); j += 2) std::swap(l[j], l[j + 1]); break;
  default: l.insert(l.begin() + i, l[i]); break;
  }
}
static unsigned gen_len(Rng &r) {
  unsigned k = r.below(40);
  if (k == 0) return (unsigned)r.range(20, 49);
  if (k < 4) return (unsigned)r.range(7, 14);
  return (unsigned)r.range(1, 6);
}
static std::string vstr(Rng &r, ilist l) {
  if (l.empty()) return r.coin() ? "bot" : "top";
  if (l.size() > 49) l.erase(l.begin() + 49, l.end());
  return lstr(l);
}
// mode: 0 mostly valid, 1 raw
static ilist gen_list(Rng &r, bool small, bool allow_raw) {
  unsigned m = r.below(12);
  if (m == 0) return ilist();
  if (allow_raw && m == 1) {
    ilist l; unsigned k = gen_len(r) % 8 + 1;
    for (unsigned i = 0; i < k; i++) l.push_back(gen_interval(r, small));
    return l;
  }
  ilist l = gen_wf(r, small, gen_len(r));
  if (allow_raw && m <= 4) { perturb(r, l, small); if (r.coin(1, 3)) perturb(r, l, small); }
  return l;
}
// a value related to l: equal, grown / shrunk / shifted intervals, extra or missing intervals
static ilist related(Rng &r, const ilist &l, bool small) {
  ilist o = l;
  unsigned reps = 1 + r.below(3);
  for (unsigned t = 0; t < reps && !o.empty(); t++) {
    size_t i = r.below(4) == 0 ? (r.coin() ? 0 : o.size() - 1) : r.below(o.size());
    z_bound L = o[i].lb(), U = o[i].ub();
    z_bound d(z_number((int64_t)r.range(1, small ? 3 : 30)));
    switch (r.below(10)) {
    case 0: break;
    case 1: if (L.is_finite()) o[i] = z_interval(L - d, U); break;
    case 2: if (U.is_finite()) o[i] = z_interval(L, U + d); break;
    case 3: if (L.is_finite()) o[i] = z_interval(L + d, U); break;
    case 4: if (U.is_finite()) o[i] = z_interval(L, U - d); break;
    case 5: o.erase(o.begin() + i); break;
    case 6: if (U.is_finite()) o.insert(o.begin() + i + 1, z_interval(U + d + z_bound(z_number(1)), U + d + d)); break;
    case 7: o[i] = z_interval(z_bound::minus_infinity(), U); break;
    case 8: o[i] = z_interval(L, z_bound::plus_infinity()); break;
    default: if (i + 1 < o.size()) { o[i] = z_interval(L, o[i + 1].ub()); o.erase(o.begin() + i + 1); } break;
    }
  }
  return o;
}

static const std::vector<std::string> ARITH = {"add", "sub", "mul", "div", "udiv", "srem", "urem",
                                               "and", "or", "xor", "shl", "lshr", "ashr"};
static const std::vector<std::string> UN = {"norm", "norm", "norm", "isbot", "istop", "isfin",
                                            "approx", "singleton", "neg", "lhl", "uhl"};

// two long interleaved vectors: the union / intersection has 50 pieces or more (max_num_disjunctions)
static std::string gen_long(Rng &r) {
  int64_t base = r.range(-60, 60), s = r.range(4, 8);
  int64_t off = r.range(1, s - 1), w1 = r.range(0, s - 2), w2 = r.range(0, s - 2);
  unsigned na = (unsigned)r.range(20, 49), nb = (unsigned)r.range(20, 49);
  ilist a, b;
  for (unsigned i = 0; i < na; i++) a.push_back(z_interval(z_number(base + s * i), z_number(base + s * i + w1)));
  for (unsigned i = 0; i < nb; i++) b.push_back(z_interval(z_number(base + s * i + off), z_number(base + s * i + off + w2)));
  static const std::vector<std::string> OPS = {"join", "join", "meet", "meet", "narrow", "leq", "widen", "trim", "add", "sub", "mul"};
  std::string op = r.pick(OPS);
  if (op == "add" || op == "sub" || op == "mul") {
    ilist c; int64_t v = r.range(-3, 3);
    unsigned n = 1 + r.below(3);
    for (unsigned i = 0; i < n; i++) { c.push_back(z_interval(z_number(v))); v += r.range(2, 5); }
    return "(dis." + op + " " + lstr(a) + " " + lstr(c) + ")";
  }
  return "(dis." + op + " " + lstr(a) + " " + lstr(b) + ")";
}

static std::string gen(Rng &r, const Args &) {
  bool small = r.coin(3, 4);
  if (r.below(50) == 0) return gen_long(r);
  unsigned k = r.below(20);
  if (k == 0) return "(dis.of " + els(gen_interval(r, small)) + ")";
  bool raw = r.coin(1, 3);
  ilist a = gen_list(r, small, raw);
  if (k <= 3) return "(dis." + r.pick(UN) + " " + vstr(r, a) + ")";
  ilist b = r.coin(2, 3) ? related(r, a, small) : gen_list(r, small, raw);
  if (r.below(8) == 0) std::swap(a, b);
  std::string A = vstr(r, a), B = vstr(r, b);
  if (k <= 6) return "(dis." + std::string(r.below(4) == 0 ? "eq" : "leq") + " " + A + " " + B + ")";
  if (k <= 8) return "(dis.join " + A + " " + B + ")";
  if (k <= 10) return "(dis." + std::string(r.coin() ? "meet" : "narrow") + " " + A + " " + B + ")";
  if (k <= 13) {
    if (r.coin(1, 3)) {
      std::string ts = "(ts";
      unsigned n = r.below(5);
      for (unsigned i = 0; i < n; i++) ts += " " + zs(r.coin(2, 3) ? gen_small_z(r, 40) : gen_z(r));
      return "(dis.widenth " + A + " " + B + " " + ts + "))";
    }
    return "(dis.widen " + A + " " + B + ")";
  }
  if (k == 14) {
    ilist c; c.push_back(z_interval(gnum(r, small)));
    if (r.below(3) == 0 && !a.empty()) { // the singleton is an end point of an interval of a
      const z_interval &i = a[r.below(a.size())];
      if (i.lb().is_finite() && r.coin()) c[0] = z_interval(*i.lb().number());
      else if (i.ub().is_finite()) c[0] = z_interval(*i.ub().number());
    }
    return "(dis.trim " + A + " " + (r.below(6) == 0 ? B : lstr(c)) + ")";
  }
  // arithmetic: the double loop is quadratic, keep one side short
  if (a.size() > 6 && b.size() > 6) b.erase(b.begin() + 1 + r.below(3), b.end());
  std::string op = r.pick(ARITH);
  if ((op == "shl" || op == "lshr" || op == "ashr") && r.below(5) != 0) {
    b.clear();
    unsigned n = 1 + r.below(2);
    int64_t s = r.range(-1, r.below(8) == 0 ? 126 : 6);
    for (unsigned i = 0; i < n; i++) { b.push_back(z_interval(z_number(s))); s += r.range(2, 4); }
  }
  return "(dis." + op + " " + vstr(r, a) + " " + vstr(r, b) + ")";
}

int main(int argc, char **argv) { return run_harness(argc, argv, gen, eval); }
