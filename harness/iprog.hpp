// Multi-function program text format of the inter-procedural harness (component `inter`,
// properties C09 / C10).  Integer variables v0..v{nv-1}; the names are shared by all the
// functions of a program (one variable factory), so caller and callee may use the same name.
//
//   PROG ::= (prog <nv> FUN+)                      the function called `main` is the entry
//   FUN  ::= (fun <name> (in v..) (out v..) BLK+)  first BLK = entry block, last BLK = exit block
//   BLK  ::= (blk <label> (st STMT*) (succ <label>*))
//   STMT ::= (assign x LIN) | (bin OP x y Z) | (havoc x) | (assume CST) | (assert <id> CST)
//          | (call <name> (lhs x..) (args y..))
//   OP   ::= add | sub | mul        Z ::= vK | integer
//   LIN  ::= (lin c (k vK)*)        CST ::= (le LIN) | (lt LIN) | (eq LIN) | (ne LIN)   (LIN ⋈ 0)
//
// Parameter passing is by value: formals := actuals at entry, lhs := outputs at return.
// `<id>` of an assert is a program-wide unique non-negative integer (it becomes the
// debug_info id under which the checker files its verdicts).
#pragma once
#include "common.hpp"
#include "crab_lang.hpp"
#include <algorithm>
#include <memory>
#include <sstream>

namespace ip {
using namespace vh;
using namespace crab::cfg_impl;

inline unsigned vidx(const std::string &s) { return (unsigned)std::stoul(s.substr(1)); }
inline bool is_var_atom(const Sx &x) { return x.is_atom && x.a.size() >= 2 && x.a[0] == 'v' && isdigit(x.a[1]); }

struct Prog {
  variable_factory_t vfac;
  unsigned nv = 0;
  std::vector<z_var> vars;
  std::vector<std::string> names;                   // per function
  std::vector<std::vector<std::string>> labels;     // per function, in text order
  std::vector<std::vector<unsigned>> ins, outs;     // per function
  std::vector<std::unique_ptr<z_cfg_t>> cfgs;
  const z_var &var(const Sx &x) const { return vars.at(vidx(x.a)); }
};

inline z_lin_exp_t parse_lin(const Prog &p, const Sx &x) {
  z_lin_exp_t e(z_number(x[1].a));
  for (size_t i = 2; i < x.size(); i++) e = e + z_lin_exp_t(z_number(x[i][0].a), p.var(x[i][1]));
  return e;
}

inline z_lin_cst_t parse_cst(const Prog &p, const Sx &x) {
  z_lin_exp_t e = parse_lin(p, x[1]);
  const std::string &k = x[0].a;
  if (k == "le") return z_lin_cst_t(e, z_lin_cst_t::INEQUALITY);
  if (k == "lt") return z_lin_cst_t(e, z_lin_cst_t::STRICT_INEQUALITY);
  if (k == "eq") return z_lin_cst_t(e, z_lin_cst_t::EQUALITY);
  return z_lin_cst_t(e, z_lin_cst_t::DISEQUATION);
}

inline void add_stmt(const Prog &p, z_basic_block_t &b, const Sx &s) {
  const std::string &k = s[0].a;
  if (k == "assign") b.assign(p.var(s[1]), parse_lin(p, s[2]));
  else if (k == "havoc") b.havoc(p.var(s[1]));
  else if (k == "assume") b.assume(parse_cst(p, s[1]));
  else if (k == "assert") b.assertion(parse_cst(p, s[2]), crab::cfg::debug_info((int64_t)std::stoll(s[1].a)));
  else if (k == "bin") {
    const std::string &op = s[1].a;
    const z_var &x = p.var(s[2]);
    const z_var &y = p.var(s[3]);
    if (is_var_atom(s[4])) {
      const z_var &z = p.var(s[4]);
      if (op == "add") b.add(x, y, z); else if (op == "sub") b.sub(x, y, z); else b.mul(x, y, z);
    } else {
      z_number z(s[4].a);
      if (op == "add") b.add(x, y, z); else if (op == "sub") b.sub(x, y, z); else b.mul(x, y, z);
    }
  } else if (k == "call") {
    std::vector<z_var> lhs, args;
    for (size_t i = 1; i < s[2].size(); i++) lhs.push_back(p.var(s[2][i]));
    for (size_t i = 1; i < s[3].size(); i++) args.push_back(p.var(s[3][i]));
    b.callsite(s[1].a, lhs, args);
  }
}

// (prog nv FUN+)
inline std::unique_ptr<Prog> build(const Sx &pr) {
  std::unique_ptr<Prog> P(new Prog());
  P->nv = (unsigned)std::stoul(pr[1].a);
  for (unsigned i = 0; i < P->nv; i++) P->vars.emplace_back(P->vfac["v" + std::to_string(i)], crab::INT_TYPE, 32);
  for (size_t fi = 2; fi < pr.size(); fi++) {
    const Sx &f = pr[fi];
    std::vector<z_var> ins, outs;
    std::vector<unsigned> ii, oo;
    for (size_t i = 1; i < f[2].size(); i++) { ins.push_back(P->var(f[2][i])); ii.push_back(vidx(f[2][i].a)); }
    for (size_t i = 1; i < f[3].size(); i++) { outs.push_back(P->var(f[3][i])); oo.push_back(vidx(f[3][i].a)); }
    std::vector<std::string> labs;
    for (size_t i = 4; i < f.size(); i++) labs.push_back(f[i][1].a);
    crab::cfg::function_decl<z_number, varname_t> decl(f[1].a, ins, outs);
    std::unique_ptr<z_cfg_t> cfg(new z_cfg_t(labs.front(), labs.back(), decl));
    for (auto &l : labs) cfg->insert(l);
    for (size_t i = 4; i < f.size(); i++) {
      z_basic_block_t &b = cfg->get_node(f[i][1].a);
      const Sx &st = f[i][2];
      for (size_t j = 1; j < st.size(); j++) add_stmt(*P, b, st[j]);
    }
    for (size_t i = 4; i < f.size(); i++) {
      z_basic_block_t &b = cfg->get_node(f[i][1].a);
      const Sx &sc = f[i][3];
      for (size_t j = 1; j < sc.size(); j++) b >> cfg->get_node(sc[j].a);
    }
    P->names.push_back(f[1].a);
    P->labels.push_back(labs);
    P->ins.push_back(ii);
    P->outs.push_back(oo);
    P->cfgs.push_back(std::move(cfg));
  }
  return P;
}

// ---- canonical text of exported facts (variables other than v<K> make a constraint "foreign": dropped)
inline std::string lin_str(const z_lin_exp_t &e) {
  std::vector<std::pair<unsigned, std::string>> ts;
  for (auto it = e.begin(); it != e.end(); ++it) {
    std::string nm = it->second.name().str();
    if (nm.size() < 2 || nm[0] != 'v' || !isdigit(nm[1])) return "foreign";
    ts.push_back({(unsigned)std::stoul(nm.substr(1)), zs(it->first)});
  }
  std::sort(ts.begin(), ts.end());
  std::string r = "(lin " + zs(e.constant());
  for (auto &t : ts) r += " (" + t.second + " v" + std::to_string(t.first) + ")";
  return r + ")";
}

inline std::string cst_str(const z_lin_cst_t &c) {
  std::string l = lin_str(c.expression());
  if (l == "foreign") return "";
  const char *k = c.is_inequality() ? "le" : c.is_strict_inequality() ? "lt" : c.is_equality() ? "eq" : "ne";
  return std::string("(") + k + " " + l + ")";
}

// (d <isbot> (iv <itv>*nv) (cs <cst>*))
template <class Dom> std::string dump(const Prog &p, Dom d) {
  std::ostringstream o;
  bool b = d.is_bottom();
  o << "(d " << (b ? 1 : 0) << " (iv";
  for (unsigned i = 0; i < p.nv; i++) o << " " << ivs(d.at(p.vars[i]));
  o << ") (cs";
  if (!b) {
    auto sys = d.to_linear_constraint_system();
    for (auto it = sys.begin(); it != sys.end(); ++it) {
      std::string s = cst_str(*it);
      if (!s.empty()) o << " " << s;
    }
  }
  o << "))";
  return o.str();
}

} // namespace ip
