// Harness for component `wto`: ikos::wto<G> (include/crab/fixpoint/wto.hpp) of the current tree,
// instantiated on real crab CFGs (G = cfg_ref<z_cfg_t>) and real call graphs
// (G = call_graph_ref<call_graph<z_cfg_ref_t>>).
//
//   (wto.build n entry (succs (s00 s01 ..) (s10 ..) ...))      -- one CFG, blocks b0..b{n-1}, entry b<entry>
//   (wto.cg    n entry (succs ...))                           -- n functions f0..f{n-1}, call sites = edges
//     => (succs (..) ...) (w <term> ...) (nest (v h1 h2 ...) ...)
//
// The request's successor lists give the *insertion* order of the edges.  The result's `succs`
// is the order in which the C++ really enumerates the out edges of every node (read back from the
// graph object through the same accessor wto uses); the model is run on that one.
// Terms: `v` for a vertex, `(h c1 c2 ...)` for a cycle with head h.  `nest` has one entry per node
// for which wto::nesting(node) is defined, nodes ascending, heads outermost first.
#include "common.hpp"
#include "crab_lang.hpp"
#include <crab/cfg/cfg_bgl.hpp>
#include <crab/cg/cg.hpp>
#include <crab/cg/cg_bgl.hpp>
#include <crab/fixpoint/wto.hpp>
#include <algorithm>
#include <deque>
#include <map>
#include <memory>
using namespace vh;
using namespace crab::cfg_impl;

using graph_t = std::vector<std::vector<int>>; // successor lists, order = insertion order

static std::string bbname(int i) { return "b" + std::to_string(i); }
static int bbnum(const std::string &s) { return std::atoi(s.c_str() + 1); }

// ---------- printing of a wto<G> ----------
template <class G, class NodeId> struct term_printer : public ikos::wto_component_visitor<G> {
  using wto_vertex_t = typename ikos::wto_component_visitor<G>::wto_vertex_t;
  using wto_cycle_t = typename ikos::wto_component_visitor<G>::wto_cycle_t;
  std::string out;
  NodeId id;
  explicit term_printer(NodeId f) : id(f) {}
  void visit(wto_vertex_t &v) override { out += " " + std::to_string(id(v.node())); }
  void visit(wto_cycle_t &c) override {
    out += " (" + std::to_string(id(c.head()));
    for (auto it = c.begin(); it != c.end(); ++it) it->accept(this);
    out += ")";
  }
};

template <class G, class NodeId, class NodeOf>
static std::string show_wto(ikos::wto<G> &w, int n, NodeId id, NodeOf node_of) {
  term_printer<G, NodeId> p(id);
  w.accept(&p);
  std::string r = "(w" + p.out + ") (nest";
  for (int i = 0; i < n; i++) {
    auto nst = w.nesting(node_of(i));
    if (!nst) continue;
    r += " (" + std::to_string(i);
    for (auto it = nst->begin(); it != nst->end(); ++it) r += " " + std::to_string(id(*it));
    r += ")";
  }
  return r + ")";
}

static std::string show_succs(const graph_t &g) {
  std::string r = "(succs";
  for (auto &l : g) {
    r += " (";
    for (size_t i = 0; i < l.size(); i++) { if (i) r += " "; r += std::to_string(l[i]); }
    r += ")";
  }
  return r + ")";
}

static bool parse_graph(const Sx &q, int &n, int &entry, graph_t &g) {
  if (q.size() != 4 || q[3].is_atom || q[3].size() < 1) return false;
  n = std::atoi(q[1].a.c_str());
  entry = std::atoi(q[2].a.c_str());
  if (n < 1 || entry < 0 || entry >= n || (int)q[3].size() != n + 1) return false;
  g.assign(n, {});
  for (int i = 0; i < n; i++) {
    const Sx &l = q[3][i + 1];
    if (l.is_atom) return false;
    for (size_t j = 0; j < l.size(); j++) {
      int t = std::atoi(l[j].a.c_str());
      if (t < 0 || t >= n) return false;
      g[i].push_back(t);
    }
  }
  return true;
}

// ---------- CFG instance ----------
static std::string eval_cfg(int n, int entry, const graph_t &g) {
  z_cfg_t cfg(bbname(entry));
  for (int i = 0; i < n; i++) cfg.insert(bbname(i));
  for (int i = 0; i < n; i++)
    for (int t : g[i]) cfg.get_node(bbname(i)) >> cfg.get_node(bbname(t));
  z_cfg_ref_t ref(cfg);
  // successor order as enumerated by out_edges(v, g) (= basic_block::next_blocks())
  graph_t seen(n);
  for (int i = 0; i < n; i++) {
    auto p = out_edges(bbname(i), ref);
    for (auto it = p.first; it != p.second; ++it) seen[i].push_back(bbnum(target(*it, ref)));
  }
  using wto_t = ikos::wto<z_cfg_ref_t>;
  wto_t w(ref); // as the fixpoint iterators do: entry(g) = cfg.entry()
  return show_succs(seen) + " " +
         show_wto(w, n, [](const std::string &s) { return bbnum(s); }, [](int i) { return bbname(i); });
}

// ---------- call graph instance ----------
static std::string eval_cg(int n, int entry, const graph_t &g) {
  using cg_t = crab::cg::call_graph<z_cfg_ref_t>;
  using cg_ref_t = crab::cg::call_graph_ref<cg_t>;
  variable_factory_t vfac;
  std::vector<std::unique_ptr<z_cfg_t>> cfgs;
  for (int i = 0; i < n; i++) {
    crab::cfg::function_decl<ikos::z_number, varname_t> decl("f" + std::to_string(i), {}, {});
    cfgs.emplace_back(new z_cfg_t("entry", "exit", decl));
    z_basic_block_t &en = cfgs.back()->insert("entry");
    z_basic_block_t &ex = cfgs.back()->insert("exit");
    en >> ex;
    for (size_t j = 0; j < g[i].size(); j++) {
      z_basic_block_t &b = (j % 2 == 0) ? en : ex;
      b.callsite("f" + std::to_string(g[i][j]), {}, {});
    }
  }
  std::vector<z_cfg_ref_t> refs;
  for (auto &c : cfgs) refs.push_back(z_cfg_ref_t(*c));
  cg_t cg(refs);
  cg_ref_t ref(cg);
  std::vector<cg_t::node_t> nodes(n);
  for (auto v : boost::make_iterator_range(cg.nodes())) nodes.at(v.index()) = v;
  graph_t seen(n);
  for (int i = 0; i < n; i++) {
    auto p = out_edges(nodes[i], ref);
    for (auto it = p.first; it != p.second; ++it) seen[i].push_back(target(*it, ref).index());
  }
  using wto_t = ikos::wto<cg_ref_t>;
  wto_t w(ref, nodes[entry]);
  return show_succs(seen) + " " +
         show_wto(w, n, [](const cg_t::node_t &v) { return v.index(); }, [&](int i) { return nodes[i]; });
}

static std::string eval(const Sx &q) {
  int n, entry;
  graph_t g;
  if (!parse_graph(q, n, entry, g)) return "unknown";
  if (q[0].a == "wto.build") return eval_cfg(n, entry, g);
  if (q[0].a == "wto.cg") return eval_cg(n, entry, g);
  return "unknown";
}

// ---------- generators ----------
static void add_edge(graph_t &g, int a, int b) {
  if (std::find(g[a].begin(), g[a].end(), b) == g[a].end()) g[a].push_back(b);
}

// random structured program over nodes [lo, hi): sequences, branches, (nested) loops; returns exit node
static int gen_struct(Rng &r, graph_t &g, int &next, int limit, int cur, int depth) {
  int steps = 1 + r.below(3);
  for (int s = 0; s < steps && next < limit; s++) {
    unsigned k = r.below(depth > 3 ? 2 : 6);
    if (k <= 1) { // plain block
      int b = next++;
      add_edge(g, cur, b);
      cur = b;
    } else if (k == 2 && next + 2 < limit) { // if-then-else
      int t = next++, e = next++;
      add_edge(g, cur, t);
      add_edge(g, cur, e);
      int te = gen_struct(r, g, next, limit, t, depth + 1);
      int ee = gen_struct(r, g, next, limit, e, depth + 1);
      if (next < limit) {
        int j = next++;
        add_edge(g, te, j);
        add_edge(g, ee, j);
        cur = j;
      } else {
        add_edge(g, te, ee);
        cur = ee;
      }
    } else { // loop: head, body, back edge (while / do-while / self loop)
      int h = next++;
      add_edge(g, cur, h);
      if (r.below(5) == 0 || next >= limit) {
        add_edge(g, h, h);
        cur = h;
      } else {
        int b = next++;
        add_edge(g, h, b);
        int be = gen_struct(r, g, next, limit, b, depth + 1);
        add_edge(g, be, h);
        if (r.coin()) cur = h; else cur = be; // exit from head or from the latch
        if (r.below(4) == 0 && be != b) add_edge(g, b, h); // continue
      }
    }
  }
  return cur;
}

static graph_t gen_graph(Rng &r, int maxn, int &entry) {
  int n;
  unsigned kind = r.below(16);
  if (kind == 0) n = 1 + r.below(4); // tiny: all graphs on <= 4 nodes get covered
  else if (r.below(4) == 0) n = 1 + r.below(maxn);
  else n = 1 + r.below(std::min(maxn, 12));
  graph_t g(n);
  entry = r.below(n);
  switch (kind) {
  case 0: { // uniform adjacency matrix
    for (int i = 0; i < n; i++) for (int j = 0; j < n; j++) if (r.coin()) add_edge(g, i, j);
    break;
  }
  case 1: case 2: case 3: case 4: case 5: { // random with a density
    static const unsigned dens[] = {3, 8, 15, 25, 40, 70};
    unsigned d = dens[r.below(6)];
    for (int i = 0; i < n; i++) for (int j = 0; j < n; j++) if (r.below(100) < d) add_edge(g, i, j);
    break;
  }
  case 6: case 7: case 8: case 9: { // structured (reducible, nested loops) + sometimes extra edges
    int next = 1;
    entry = 0;
    gen_struct(r, g, next, n, 0, 0);
    // leftover nodes: unreachable part with its own edges
    for (int i = next; i < n; i++) { if (r.coin()) add_edge(g, i, r.below(n)); if (r.coin()) add_edge(g, i, i); }
    unsigned extra = r.below(3) == 0 ? r.below(4) : 0; // irreducible / cross / extra back edges
    for (unsigned k = 0; k < extra; k++) add_edge(g, r.below(n), r.below(n));
    if (r.below(6) == 0) entry = r.below(n);
    break;
  }
  case 10: { // chain with back edges (deep nesting)
    for (int i = 0; i + 1 < n; i++) add_edge(g, i, i + 1);
    int nb = 1 + r.below(n);
    for (int k = 0; k < nb; k++) { int a = r.below(n), b = r.below(n); add_edge(g, std::max(a, b), std::min(a, b)); }
    if (r.coin(3, 4)) entry = 0;
    break;
  }
  case 11: { // irreducible: a cycle entered at two (or more) different nodes
    if (n < 3) n = 3, g.assign(n, {}), entry = 0;
    int c = 2 + r.below(n - 2); // cycle 1..c
    for (int i = 1; i <= c; i++) add_edge(g, i, i == c ? 1 : i + 1);
    entry = 0;
    int ne = 2 + r.below(2);
    for (int k = 0; k < ne; k++) add_edge(g, 0, 1 + r.below(c));
    for (int i = c + 1; i < n; i++) { add_edge(g, r.below(i), i); if (r.coin()) add_edge(g, i, r.below(n)); }
    if (r.below(3) == 0) add_edge(g, r.below(n), r.below(n));
    break;
  }
  case 12: { // nested cycles sharing nodes: rings on prefixes
    for (int i = 0; i + 1 < n; i++) add_edge(g, i, i + 1);
    for (int i = 1; i < n; i++) if (r.coin()) add_edge(g, i, r.below(i + 1));
    for (int i = 0; i < n; i++) if (r.below(5) == 0) add_edge(g, i, r.below(n));
    break;
  }
  case 13: { // dag (forward edges only) plus few back edges
    for (int i = 0; i < n; i++) for (int j = i + 1; j < n; j++) if (r.below(3) == 0) add_edge(g, i, j);
    unsigned nb = r.below(3);
    for (unsigned k = 0; k < nb; k++) { int a = r.below(n), b = r.below(n); add_edge(g, std::max(a, b), std::min(a, b)); }
    if (r.coin()) entry = 0;
    break;
  }
  case 14: { // complete or nearly complete
    for (int i = 0; i < n; i++) for (int j = 0; j < n; j++) if (r.below(10) != 0) add_edge(g, i, j);
    break;
  }
  default: { // two strongly connected blobs joined by a few edges
    int m = n / 2;
    for (int i = 0; i < n; i++) {
      int lo = i < m ? 0 : m, hi = i < m ? m : n;
      if (hi > lo) { add_edge(g, i, lo + r.below(hi - lo)); if (r.coin()) add_edge(g, i, lo + r.below(hi - lo)); }
    }
    unsigned nj = 1 + r.below(3);
    for (unsigned k = 0; k < nj; k++) add_edge(g, r.below(n), r.below(n));
    break;
  }
  }
  // random relabelling (so that the entry / heads are not always the small numbers)
  if (r.coin()) {
    std::vector<int> perm(n);
    for (int i = 0; i < n; i++) perm[i] = i;
    for (int i = n - 1; i > 0; i--) std::swap(perm[i], perm[r.below(i + 1)]);
    graph_t h(n);
    for (int i = 0; i < n; i++) for (int t : g[i]) h[perm[i]].push_back(perm[t]);
    g = h;
    entry = perm[entry];
  }
  // successor order permuted
  for (auto &l : g) {
    unsigned k = r.below(3);
    if (k == 0) std::sort(l.begin(), l.end());
    else if (k == 1) for (int i = (int)l.size() - 1; i > 0; i--) std::swap(l[i], l[r.below(i + 1)]);
  }
  return g;
}

static std::string request(const char *op, int n, int entry, const graph_t &g) {
  return std::string("(") + op + " " + std::to_string(n) + " " + std::to_string(entry) + " " + show_succs(g) + ")";
}

static std::deque<std::string> pending;
// exhaustive enumeration (tier "exhaustive"): all graphs with <= 4 nodes x all entries, sorted successor lists
static int ex_n = 1;
static uint64_t ex_mask = 0;
static bool exhaustive_next() {
  while (ex_n <= 4) {
    uint64_t lim = 1ULL << (ex_n * ex_n);
    if (ex_mask < lim) {
      graph_t g(ex_n);
      for (int i = 0; i < ex_n; i++) for (int j = 0; j < ex_n; j++) if ((ex_mask >> (i * ex_n + j)) & 1) g[i].push_back(j);
      for (int e = 0; e < ex_n; e++) pending.push_back(request("wto.build", ex_n, e, g));
      ex_mask++;
      return true;
    }
    ex_n++;
    ex_mask = 0;
  }
  return false;
}

static std::string gen(Rng &r, const Args &a) {
  if (pending.empty()) {
    if (a.tier == "exhaustive") {
      if (!exhaustive_next()) pending.push_back("(wto.build 1 0 (succs ()))");
    } else {
      int maxn = a.tier == "thorough" ? 40 : 16;
      int entry;
      graph_t g = gen_graph(r, maxn, entry);
      int n = (int)g.size();
      const char *op = r.below(8) == 0 ? "wto.cg" : "wto.build";
      if (r.below(6) == 0) { // every node as entry
        for (int e = 0; e < n; e++) pending.push_back(request(op, n, e, g));
      } else {
        pending.push_back(request(op, n, entry, g));
      }
    }
  }
  std::string s = pending.front();
  pending.pop_front();
  return s;
}

int main(int argc, char **argv) { return run_harness(argc, argv, gen, eval); }
