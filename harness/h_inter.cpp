// Inter-procedural harness (properties C09, C10; mechanism R).  Generates random well-formed
// multi-function programs (format: iprog.hpp) and runs the REAL inter-procedural analyses:
//
//   mode td : top_down_inter_analyzer<call_graph, TD_Dom>       with every parameter of the request
//   mode bu : bottom_up_inter_analyzer<call_graph, BU_Dom, TD_Dom>
//
// request : (inter.run <td|bu> <domname> (par <mcc|inf> <exact> <rec> <delay> <desc> <chk> <onlymain>) (prog ...))
// result  : (fun <name> (blk <label> <pre> <post>)* (sum (pp|ppi <pre> <post>)*))*  (chk (<id> <kind>*)*) [(alt <the same for max_call_contexts = UINT_MAX>)]
//   <pre>,<post> ::= (d <isbot> (iv <itv>*nv) (cs <cst>*))    (get_pre / get_post / get_summary)
//   <kind> ::= s | e | w | u         one letter per verdict filed for the assertion <id>
//
// Domains (compile time, -DVDOM=k):  k : TD_Dom / BU_Dom
//   1 intervals / intervals      2 split-dbm / split-dbm      3 dis-intervals / split-dbm
//   4 flat-boolean(intervals) / intervals                     5 intervals / split-dbm
// -DVMODE=0 generates only td requests, -DVMODE=1 only bu; default: alternating.
#include "iprog.hpp"

#include <crab/analysis/inter/bottom_up_inter_analyzer.hpp>
#include <crab/analysis/inter/top_down_inter_analyzer.hpp>
#include <crab/cg/cg.hpp>
#include <crab/cg/cg_bgl.hpp>
#include <crab/checkers/assertion.hpp>
#include <crab/checkers/base_property.hpp>
#include <crab/checkers/checker.hpp>
#include <crab/domains/dis_intervals.hpp>
#include <crab/domains/flat_boolean_domain.hpp>
#include <crab/domains/intervals.hpp>
#include <crab/domains/split_dbm.hpp>

#include <climits>
#include <map>
#include <set>

using namespace vh;
using namespace ip;
using namespace crab::cfg_impl;
using namespace crab::domains;
using namespace ikos;

#ifndef VDOM
#define VDOM 1
#endif

using z_interval_domain_t = interval_domain<z_number, varname_t>;
using z_dbm_graph_safe_t = DBM_impl::SafeInt64DefaultParams<z_number, DBM_impl::GraphRep::adapt_ss>;
using z_sdbm_domain_t = split_dbm_domain<z_number, varname_t, z_dbm_graph_safe_t>;
using z_dis_interval_domain_t = dis_interval_domain<z_number, varname_t>;
using z_bool_interval_domain_t = flat_boolean_numerical_domain<z_interval_domain_t>;

#if VDOM == 1
using TDDom = z_interval_domain_t;
using BUDom = z_interval_domain_t;
#define DOMNAME "intervals"
#elif VDOM == 2
using TDDom = z_sdbm_domain_t;
using BUDom = z_sdbm_domain_t;
#define DOMNAME "split-dbm"
#elif VDOM == 3
using TDDom = z_dis_interval_domain_t;
using BUDom = z_sdbm_domain_t;
#define DOMNAME "dis-intervals+split-dbm"
#elif VDOM == 4
using TDDom = z_bool_interval_domain_t;
using BUDom = z_interval_domain_t;
#define DOMNAME "flat-bool-intervals+intervals"
#elif VDOM == 5
using TDDom = z_interval_domain_t;
using BUDom = z_sdbm_domain_t;
#define DOMNAME "intervals+split-dbm"
#else
#error "unknown VDOM"
#endif

namespace {

using cg_t = crab::cg::call_graph<z_cfg_ref_t>;
using params_t = crab::analyzer::inter_analyzer_parameters<cg_t>;

char kind_letter(crab::checker::check_kind k) {
  switch (k) {
  case crab::checker::check_kind::CRAB_SAFE: return 's';
  case crab::checker::check_kind::CRAB_ERR: return 'e';
  case crab::checker::check_kind::CRAB_UNREACH: return 'u';
  default: return 'w';
  }
}

std::string checks_str(const crab::checker::checks_db &db) {
  std::map<int64_t, std::string> m;
  for (auto const &kv : db.get_all_checks()) {
    std::string &s = m[kv.first.get_id()];
    for (auto k : kv.second) { s += ' '; s += kind_letter(k); }
  }
  std::string r = "(chk";
  for (auto &kv : m) r += " (" + std::to_string(kv.first) + kv.second + ")";
  return r + ")";
}

// exported facts of a non-convex value (dis-intervals) only over-approximate it: membership of a
// concrete input in a stored precondition cannot be decided from them (item `ppi`: skipped by the driver)
template <class D> struct exports_exact { static const bool value = true; };
template <> struct exports_exact<z_dis_interval_domain_t> { static const bool value = false; };

template <class SumDom, class An> std::string report(const Prog &P, An &a) {
  std::ostringstream o;
  for (size_t f = 0; f < P.cfgs.size(); f++) {
    z_cfg_ref_t cfg(*P.cfgs[f]);
    o << "(fun " << P.names[f];
    for (auto &l : P.labels[f])
      o << " (blk " << l << " " << dump(P, a.get_pre(cfg, l)) << " " << dump(P, a.get_post(cfg, l)) << ")";
    o << " (sum";
    auto sum = a.get_summary(cfg);
    for (auto it = sum.begin(); it != sum.end(); ++it)
      o << (exports_exact<SumDom>::value ? " (pp " : " (ppi ") << dump(P, it->get_pre()) << " " << dump(P, it->get_post()) << ")";
    o << ")) ";
  }
  return o.str();
}

// crab prints progress remarks on crab::outs() (= std::cout): silenced while the analysis runs
struct NullBuf : std::streambuf { int overflow(int c) override { return c; } };
struct Silence {
  NullBuf nb; std::streambuf *old;
  Silence() : old(std::cout.rdbuf(&nb)) {}
  ~Silence() { std::cout.rdbuf(old); }
};

std::string eval(const Sx &q) {
  Silence quiet;
  crab::CrabEnableWarningMsg(false);
  const std::string &mode = q[1].a;
  const Sx &par = q[3];
  std::unique_ptr<Prog> P = build(q[4]);
  std::vector<z_cfg_ref_t> refs;
  for (auto &c : P->cfgs) refs.push_back(z_cfg_ref_t(*c));
  cg_t cg(refs);
  params_t params;
  params.max_call_contexts = par[1].a == "inf" ? UINT_MAX : (unsigned)std::stoul(par[1].a);
  params.exact_summary_reuse = par[2].a == "1";
  params.analyze_recursive_functions = par[3].a == "1";
  params.widening_delay = (unsigned)std::stoul(par[4].a);
  params.descending_iters = (unsigned)std::stoul(par[5].a);
  params.run_checker = par[6].a == "1";
  params.only_main_as_entry = par[7].a == "1";
  params.thresholds_size = 0;
  params.keep_invariants = true;
  if (mode == "td") {
    TDDom init;
    std::string r;
    {
      crab::analyzer::top_down_inter_analyzer<cg_t, TDDom> a(cg, init, params);
      a.run(init);
      r = report<TDDom>(*P, a) + (params.run_checker ? checks_str(a.get_all_checks()) : std::string("(chk)"));
    }
    if (params.max_call_contexts != UINT_MAX) {
      // the same request with unbounded calling contexts: lets the driver tell apart the
      // violations that exist only because calling contexts were joined
      params.max_call_contexts = UINT_MAX;
      std::string alt = guarded([&]() {
        crab::analyzer::top_down_inter_analyzer<cg_t, TDDom> b(cg, init, params);
        b.run(init);
        return report<TDDom>(*P, b) + (params.run_checker ? checks_str(b.get_all_checks()) : std::string("(chk)"));
      });
      r += " (alt " + alt + ")";
    }
    return r;
  } else {
    TDDom td_top;
    BUDom bu_top;
    using an_t = crab::analyzer::bottom_up_inter_analyzer<cg_t, BUDom, TDDom>;
    an_t a(cg, td_top, bu_top, params);
    a.run(td_top);
    std::string r = report<BUDom>(*P, a);
    if (!params.run_checker) return r + "(chk)";
    // the bottom-up analyzer has no interleaved checker: the generic inter_checker re-executes
    // every block from get_pre with the analyzer's own transformer
    using checker_t = crab::checker::inter_checker<an_t>;
    using assert_checker_t = crab::checker::assert_property_checker<an_t>;
    typename checker_t::prop_checker_ptr prop(new assert_checker_t(0));
    checker_t checker(a, {prop});
    checker.run();
    return r + checks_str(checker.get_all_checks());
  }
}

// ---------------------------------------------------------------- generator
const unsigned NV = 6;

struct Fn {
  std::string name;
  std::vector<unsigned> ins, outs;
  int rec = -1;                                  // callee of the recursive branch (-1: none)
  std::vector<std::vector<std::string>> st;      // statements per block
  std::vector<std::vector<unsigned>> succ;
};

std::string V(unsigned i) { return "v" + std::to_string(i); }

struct G {
  Rng &r;
  bool thorough;
  bool xshare;                 // allow names shared across positions at call sites
  std::vector<Fn> fs;
  unsigned next_assert = 0;
  G(Rng &rr, bool th) : r(rr), thorough(th) {}

  bool is_in(const Fn &f, unsigned v) { return std::find(f.ins.begin(), f.ins.end(), v) != f.ins.end(); }
  bool is_out(const Fn &f, unsigned v) { return std::find(f.outs.begin(), f.outs.end(), v) != f.outs.end(); }
  std::vector<unsigned> writable(const Fn &f) {
    std::vector<unsigned> w;
    for (unsigned v = 0; v < NV; v++) if (!is_in(f, v)) w.push_back(v);
    return w;
  }
  int64_t small_c() {
    switch (r.below(6)) {
    case 0: return 0;
    case 1: return 1;
    case 2: return r.range(0, 5);
    case 3: return r.range(-3, 8);
    case 4: return r.range(0, 3);
    default: return r.range(-10, 20);
    }
  }
  std::string lin(unsigned maxterms) {
    std::string s = "(lin " + std::to_string(small_c());
    unsigned k = r.below(maxterms + 1);
    std::vector<bool> used(NV, false);
    std::vector<std::pair<unsigned, int64_t>> ts;
    for (unsigned i = 0; i < k; i++) {
      unsigned v = r.below(NV);
      if (used[v]) continue;
      used[v] = true;
      int64_t c = r.below(3) ? (r.coin() ? 1 : -1) : r.range(-2, 3);
      if (c != 0) ts.push_back({v, c});
    }
    std::sort(ts.begin(), ts.end());
    for (auto &t : ts) s += " (" + std::to_string(t.second) + " " + V(t.first) + ")";
    return s + ")";
  }
  // x ⋈ c  as a constraint  lin ⋈' 0
  std::string cmp(unsigned x, const char *op, int64_t c) {
    std::string k = op;
    if (k == "eq") return "(eq (lin " + std::to_string(-c) + " (1 " + V(x) + ")))";
    if (k == "ne") return "(ne (lin " + std::to_string(-c) + " (1 " + V(x) + ")))";
    if (k == "le") return "(le (lin " + std::to_string(-c) + " (1 " + V(x) + ")))";            // x - c <= 0
    if (k == "ge") return "(le (lin " + std::to_string(c) + " (-1 " + V(x) + ")))";            // c - x <= 0
    if (k == "lt") return "(lt (lin " + std::to_string(-c) + " (1 " + V(x) + ")))";
    return "(lt (lin " + std::to_string(c) + " (-1 " + V(x) + ")))";                             // gt
  }
  std::string rand_cst() {
    static const char *K[] = {"eq", "ne", "le", "ge", "lt", "gt"};
    unsigned sh = r.below(5);
    if (sh <= 2) return cmp(r.below(NV), K[r.below(6)], small_c());
    if (sh == 3) { // x - y ⋈ c
      unsigned a = r.below(NV), b = (a + 1 + r.below(NV - 1)) % NV;
      static const char *KK[] = {"le", "lt", "eq", "ne"};
      unsigned lo = std::min(a, b), hi = std::max(a, b);
      bool pos = (lo == a);
      return std::string("(") + KK[r.below(4)] + " (lin " + std::to_string(small_c()) + " (" + (pos ? "1 " : "-1 ") + V(lo) + ") (" + (pos ? "-1 " : "1 ") + V(hi) + ")))";
    }
    static const char *KK[] = {"le", "lt", "eq", "ne"};
    return std::string("(") + KK[r.below(4)] + " " + lin(2) + ")";
  }
  std::string new_assert(const std::string &cst) { return "(assert " + std::to_string(next_assert++) + " " + cst + ")"; }

  // a call to fs[callee] from fs[caller]; `fixed0` >= 0 forces the first argument
  std::string call(unsigned caller, unsigned callee, int fixed0, std::vector<unsigned> *lhs_out) {
    const Fn &cf = fs[callee];
    const Fn &f = fs[caller];
    std::vector<unsigned> w = writable(f);
    // lhs: distinct writable variables
    std::vector<unsigned> lhs;
    std::vector<unsigned> pool = w;
    for (size_t k = 0; k < cf.outs.size() && !pool.empty(); k++) {
      unsigned j = r.below(pool.size());
      // prefer the same name as the formal output / avoid names of other formal outputs
      unsigned cand = pool[j];
      if (!xshare) {
        for (unsigned tries = 0; tries < 6; tries++) {
          bool cross = false;
          for (size_t k2 = 0; k2 < cf.outs.size(); k2++) if (k2 != k && cf.outs[k2] == cand) cross = true;
          for (size_t k2 = 0; k2 < cf.ins.size(); k2++) if (cf.ins[k2] == cand) cross = true;
          if (!cross) break;
          j = r.below(pool.size()); cand = pool[j];
        }
      }
      lhs.push_back(cand);
      pool.erase(std::find(pool.begin(), pool.end(), cand));
    }
    std::vector<unsigned> args;
    for (size_t k = 0; k < cf.ins.size(); k++) {
      unsigned a = (k == 0 && fixed0 >= 0) ? (unsigned)fixed0 : r.below(NV);
      if (!(k == 0 && fixed0 >= 0)) {
        if (r.below(5) == 0 && !lhs.empty()) a = lhs[r.below(lhs.size())]; // x = f(x)
        if (r.below(6) == 0) a = cf.ins[k];                                   // same name as the formal
        if (!xshare) {
          for (unsigned tries = 0; tries < 8; tries++) {
            bool cross = false;
            for (size_t k2 = 0; k2 < cf.ins.size(); k2++) if (k2 != k && cf.ins[k2] == a) cross = true;
            for (size_t k2 = 0; k2 < cf.outs.size(); k2++) if (cf.outs[k2] == a) cross = true;
            if (!cross) break;
            a = r.below(NV);
          }
        }
      }
      args.push_back(a);
    }
    std::string s = "(call " + cf.name + " (lhs";
    for (auto v : lhs) s += " " + V(v);
    s += ") (args";
    for (auto v : args) s += " " + V(v);
    s += "))";
    if (lhs_out) *lhs_out = lhs;
    return s;
  }

  void rand_stmts(unsigned fi, std::vector<std::string> &out, unsigned n, const std::vector<unsigned> &callees) {
    Fn &f = fs[fi];
    std::vector<unsigned> w = writable(f);
    for (unsigned i = 0; i < n; i++) {
      unsigned k = r.below(100);
      unsigned x = w[r.below(w.size())];
      if (k < 22) out.push_back("(assign " + V(x) + " " + lin(2) + ")");
      else if (k < 34) {
        static const char *OP[] = {"add", "sub", "add", "sub", "mul"};
        std::string op = OP[r.below(5)];
        std::string z = (r.coin() && op != "mul") ? V(r.below(NV)) : std::to_string(op == "mul" ? r.range(-2, 3) : small_c());
        if (op == "mul" && r.below(6) == 0) z = V(r.below(NV));
        out.push_back("(bin " + op + " " + V(x) + " " + V(r.below(NV)) + " " + z + ")");
      } else if (k < 39) out.push_back("(havoc " + V(x) + ")");
      else if (k < 50) out.push_back("(assume " + rand_cst() + ")");
      else if (k < 60) out.push_back(new_assert(rand_cst()));
      else if (k < 82 && !callees.empty()) {
        unsigned c = callees[r.below(callees.size())];
        std::vector<unsigned> lhs;
        out.push_back(call(fi, c, -1, &lhs));
        if (!lhs.empty() && r.coin()) {
          static const char *K[] = {"eq", "le", "ge", "ne"};
          out.push_back(new_assert(cmp(lhs[r.below(lhs.size())], K[r.below(4)], small_c())));
        }
      } else if (k < 94 && !callees.empty()) {
        // burst: the same callee with different constant arguments, then asserts on the results
        unsigned c = callees[r.below(callees.size())];
        if (fs[c].ins.empty()) continue;
        unsigned a = w[r.below(w.size())];
        unsigned reps = 2 + r.below(3);
        std::vector<std::pair<unsigned, int64_t>> results;
        for (unsigned t = 0; t < reps; t++) {
          int64_t cv = r.below(4) ? r.range(0, 5) : small_c();
          out.push_back("(assign " + V(a) + " (lin " + std::to_string(cv) + "))");
          std::vector<unsigned> lhs;
          out.push_back(call(fi, c, (int)a, &lhs));
          if (!lhs.empty() && r.below(3)) {
            static const char *K[] = {"eq", "eq", "le", "ge", "ne"};
            out.push_back(new_assert(cmp(lhs[0], K[r.below(5)], small_c())));
          }
        }
      } else out.push_back("(assign " + V(x) + " (lin " + std::to_string(small_c()) + "))");
    }
  }

  void gen_body(unsigned fi, const std::vector<unsigned> &callees, std::vector<unsigned> mandatory) {
    Fn &f = fs[fi];
    std::vector<unsigned> w = writable(f);
    unsigned maxst = thorough ? 5 : 3;
    if (f.rec >= 0) {
      // skeleton: b0 entry -> b1 (base: n <= 0) | b2 (n >= 1; m := n-1; t := rec(m..); out := ..) -> b3 exit
      f.st.assign(4, {});
      f.succ = {{1, 2}, {3}, {3}, {}};
      unsigned n = f.ins[0];
      for (auto o : f.outs) f.st[0].push_back("(assign " + V(o) + " (lin " + std::to_string(small_c()) + "))");
      rand_stmts(fi, f.st[0], r.below(2), callees);
      int64_t base = r.below(3) ? 0 : r.range(0, 2);
      f.st[1].push_back("(assume " + cmp(n, "le", base) + ")");
      for (auto o : f.outs) f.st[1].push_back("(assign " + V(o) + " " + (r.coin() ? "(lin " + std::to_string(small_c()) + ")" : lin(1)) + ")");
      f.st[2].push_back("(assume " + cmp(n, "ge", base + 1) + ")");
      // the decremented counter: a writable variable
      unsigned m = w[r.below(w.size())];
      f.st[2].push_back("(assign " + V(m) + " (lin " + std::to_string(-(int64_t)(1 + (r.below(4) == 0))) + " (1 " + V(n) + ")))");
      std::vector<unsigned> lhs;
      f.st[2].push_back(call(fi, (unsigned)f.rec, (int)m, &lhs));
      for (auto o : f.outs) {
        if (!lhs.empty() && r.below(4)) {
          unsigned t = lhs[r.below(lhs.size())];
          f.st[2].push_back("(assign " + V(o) + " (lin " + std::to_string(r.range(0, 2)) + " (1 " + V(t) + ")))");
        } else if (r.coin()) f.st[2].push_back("(assign " + V(o) + " " + lin(2) + ")");
      }
      rand_stmts(fi, f.st[2], r.below(2), callees);
      rand_stmts(fi, f.st[3], r.below(maxst), callees);
      for (auto c : mandatory) f.st[r.coin() ? 3 : 0].push_back(call(fi, c, -1, nullptr));
      return;
    }
    unsigned nb = 1 + r.below(thorough ? 7 : 5);
    f.st.assign(nb, {});
    f.succ.assign(nb, {});
    // initialise outputs (and sometimes locals) in the entry block
    for (auto o : f.outs)
      if (r.below(5)) f.st[0].push_back("(assign " + V(o) + " " + (r.coin() ? "(lin " + std::to_string(small_c()) + ")" : lin(1)) + ")");
    for (auto v : w)
      if (!is_out(f, v) && r.below(3) == 0) f.st[0].push_back("(assign " + V(v) + " (lin " + std::to_string(small_c()) + "))");
    for (unsigned b = 0; b + 1 < nb; b++) {
      f.succ[b].push_back(b + 1);
      if (r.below(100) < 45) {
        unsigned t = r.below(nb);
        if (t != b + 1) f.succ[b].push_back(t);
      }
    }
    std::vector<unsigned> npred(nb, 0);
    for (unsigned b = 0; b < nb; b++) for (auto s : f.succ[b]) npred[s]++;
    npred[0]++; // the entry has the call as a predecessor
    // guards: complementary assumes at the head of the two successors
    for (unsigned b = 0; b < nb; b++) {
      if (f.succ[b].size() != 2 || r.below(5) == 0) continue;
      unsigned s1 = f.succ[b][0], s2 = f.succ[b][1];
      if (npred[s1] != 1 && npred[s2] != 1) continue;
      unsigned x = (!f.ins.empty() && r.below(3)) ? f.ins[r.below(f.ins.size())] : r.below(NV);
      int64_t c = r.below(3) ? r.range(0, 4) : small_c();
      const char *k1, *k2;
      switch (r.below(3)) { case 0: k1 = "eq"; k2 = "ne"; break; case 1: k1 = "le"; k2 = "gt"; break; default: k1 = "ge"; k2 = "lt"; }
      if (r.coin()) std::swap(k1, k2);
      if (npred[s1] == 1) f.st[s1].insert(f.st[s1].begin(), "(assume " + cmp(x, k1, c) + ")");
      if (npred[s2] == 1) f.st[s2].insert(f.st[s2].begin(), "(assume " + cmp(x, k2, c) + ")");
    }
    for (unsigned b = 0; b < nb; b++) rand_stmts(fi, f.st[b], r.below(maxst + 1), callees);
    for (auto c : mandatory) {
      unsigned b = r.below(nb);
      std::vector<unsigned> lhs;
      std::string cs = call(fi, c, -1, &lhs);
      // give the arguments of a mandatory call a value first, sometimes
      f.st[b].push_back(cs);
      if (!lhs.empty() && r.coin()) {
        static const char *K[] = {"eq", "le", "ge", "ne"};
        f.st[b].push_back(new_assert(cmp(lhs[0], K[r.below(4)], small_c())));
      }
    }
    // outputs get a last definition in the exit block sometimes
    for (auto o : f.outs)
      if (r.below(4) == 0) f.st[nb - 1].push_back("(assign " + V(o) + " " + lin(2) + ")");
  }

  // "hull gap" shape: a callee that distinguishes one input value, called with several constant
  // arguments around that value and finally with the value itself (contexts get joined when
  // max_call_contexts is small)
  std::string gap_program() {
    std::vector<unsigned> perm;
    for (unsigned v = 0; v < NV; v++) perm.push_back(v);
    for (unsigned v = NV - 1; v > 0; v--) std::swap(perm[v], perm[r.below(v + 1)]);
    unsigned x = perm[0], o = perm[1];
    unsigned a = r.below(3) ? perm[2] : x;             // the actual may have the formal's name
    int64_t c = r.range(1, 3), A = r.range(3, 9), B = r.range(-1, 2);
    const char *k1 = "eq", *k2 = "ne";
    if (r.below(4) == 0) { k1 = "le"; k2 = "gt"; }
    std::ostringstream f;
    f << "(fun f1 (in " << V(x) << ") (out " << V(o) << ") (blk b0 (st" << (r.coin() ? " (assign " + V(o) + " (lin 0))" : std::string()) << ") (succ b1 b2))"
      << " (blk b1 (st (assume " << cmp(x, k1, c) << ") (assign " << V(o) << " (lin " << A << "))) (succ b3))"
      << " (blk b2 (st (assume " << cmp(x, k2, c) << ") (assign " << V(o) << " (lin " << B << "))) (succ b3))"
      << " (blk b3 (st" << (r.below(3) == 0 ? " " + new_assert(cmp(o, "le", A)) : std::string()) << ") (succ)))";
    std::vector<int64_t> ks = {c - 1 - (int64_t)r.below(2), c + 1, c + 2 + (int64_t)r.below(3)};
    if (r.coin()) ks.push_back(c + 6);
    for (size_t i = ks.size() - 1; i > 0; i--) std::swap(ks[i], ks[r.below(i + 1)]);
    ks.push_back(c);
    std::ostringstream m;
    m << "(fun main (in) (out) (blk b0 (st";
    std::vector<unsigned> res;
    for (unsigned v = 0; v < NV; v++) if (v != a) res.push_back(v);
    unsigned last = 0;
    for (size_t i = 0; i < ks.size(); i++) {
      unsigned rv = res[r.below(res.size())];
      last = rv;
      m << " (assign " << V(a) << " (lin " << ks[i] << ")) (call f1 (lhs " << V(rv) << ") (args " << V(a) << "))";
      if (i + 1 < ks.size() && r.below(3) == 0) m << " " << new_assert(cmp(rv, "eq", B));
    }
    m << " " << new_assert(cmp(last, "eq", r.below(3) ? B : A)) << ") (succ)))";
    return "(prog " + std::to_string(NV) + " " + m.str() + " " + f.str() + ")";
  }

  std::string program() {
    if (r.below(100) < 8) return gap_program();
    unsigned nf;
    switch (r.below(10)) { case 0: nf = 1; break; case 1: case 2: case 3: nf = 2; break; case 4: case 5: case 6: nf = 3; break; case 7: case 8: nf = 4; break; default: nf = 5; }
    xshare = r.below(12) == 0;
    fs.assign(nf, Fn());
    fs[0].name = "main";
    for (unsigned i = 1; i < nf; i++) {
      Fn &f = fs[i];
      f.name = "f" + std::to_string(i);
      unsigned nin = r.below(10) == 0 ? 0 : 1 + r.below(2);
      unsigned nout = r.below(20) == 0 ? 0 : (r.below(4) == 0 ? 2 : 1);
      std::vector<unsigned> perm;
      for (unsigned v = 0; v < NV; v++) perm.push_back(v);
      for (unsigned v = NV - 1; v > 0; v--) std::swap(perm[v], perm[r.below(v + 1)]);
      for (unsigned k = 0; k < nin; k++) f.ins.push_back(perm[k]);
      for (unsigned k = 0; k < nout; k++) f.outs.push_back(perm[nin + k]);
    }
    // recursion
    if (nf >= 2 && r.below(100) < 40) {
      unsigned p = 1 + r.below(nf - 1);
      if (nf >= 3 && r.below(100) < 40) {
        unsigned q = 1 + r.below(nf - 1);
        if (q != p && !fs[p].ins.empty() && !fs[q].ins.empty()) { fs[p].rec = (int)q; fs[q].rec = (int)p; }
        else if (!fs[p].ins.empty()) fs[p].rec = (int)p;
      } else if (!fs[p].ins.empty()) fs[p].rec = (int)p;
    }
    // DAG part: i may call j > i; every j >= 1 has a caller
    std::vector<std::vector<unsigned>> mandatory(nf);
    for (unsigned j = 1; j < nf; j++)
      if (r.below(12)) mandatory[r.below(3) ? r.below(j) : 0].push_back(j);
    for (unsigned i = 0; i < nf; i++) {
      std::vector<unsigned> callees;
      for (unsigned j = i + 1; j < nf; j++) callees.push_back(j);
      gen_body(i, callees, mandatory[i]);
    }
    std::ostringstream o;
    o << "(prog " << NV;
    for (auto &f : fs) {
      o << " (fun " << f.name << " (in";
      for (auto v : f.ins) o << " " << V(v);
      o << ") (out";
      for (auto v : f.outs) o << " " << V(v);
      o << ")";
      for (size_t b = 0; b < f.st.size(); b++) {
        o << " (blk b" << b << " (st";
        for (auto &s : f.st[b]) o << " " << s;
        o << ") (succ";
        for (auto s : f.succ[b]) o << " b" << s;
        o << "))";
      }
      o << ")";
    }
    o << ")";
    return o.str();
  }
};

std::string gen(Rng &r, const Args &a) {
  static uint64_t counter = 0;
  G g(r, a.tier == "thorough");
  std::string prog = g.program();
  bool td;
#ifdef VMODE
  td = (VMODE == 0);
#else
  td = (counter % 2 == 0);
#endif
  counter++;
  static const char *MCC[] = {"0", "1", "2", "inf"};
  std::ostringstream o;
  o << "(inter.run " << (td ? "td " : "bu ") << DOMNAME << " (par " << MCC[r.below(4)] << " " << r.below(2) << " " << r.below(2)
    << " " << r.below(4) << " " << (r.below(4) == 3 ? 4 : r.below(3)) << " " << (r.below(5) ? 1 : 0) << " " << (r.below(5) ? 1 : 0) << ") " << prog << ")";
  return o.str();
}

} // namespace

int main(int argc, char **argv) { return run_harness(argc, argv, gen, eval); }
