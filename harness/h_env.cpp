// Harness for components `env` / `pset` (property C19):
//   ikos::separate_domain<Key, interval<z_number>>      (include/crab/domains/separate_domains.hpp)
//   ikos::patricia_tree_set<Key>, ikos::discrete_domain<Key> (patricia_trees.hpp, discrete_domains.hpp)
// over a `Key : crab::indexable` whose index is chosen freely in all of uint64.
//
// Line protocol (every line is self-contained):
//   environments:  bot | (env (k (iv l u)) ...)      bindings sorted by key, (env) = top
//   sets:          (s k ...) sorted;  discrete_domain: top | (s k ...)
//   (env.set E k V) (env.forget E k) (env.wjoin E k V) (env.at E k) (env.keys E) (env.size E)
//   (env.is_top E) (env.is_bottom E) (env.join A B) (env.meet A B) (env.widen A B) (env.narrow A B)
//   (env.leq A B) (env.eq A B) (env.project E (k ...)) (env.rename E (k ...) (k ...))
//   (env.shared <binop> ab|ba A (edit ...))   B is a copy of A edited by (set k V)/(forget k): the two
//                                              operands physically share subtrees
//   (env.hist (step) ...) => r1 r2 ...        a history over a pool of 6 environments (all top at start);
//        steps: (set d k V) (forget d k) (wjoin d k V) (copy d s) (bot d) (top d) (join d a b) (meet d a b)
//               (widen d a b) (narrow d a b) (project d (k ...)) (rename d (k ...) (k ...))
//               (leq a b) (eq a b) (at a k) (keys a) (is_top a)
//   (pset.<op> A [B|k]) patricia_tree_set: union inter subset supset eq add remove member empty size elems,
//        (pset.shared <binop> ab|ba A ((add k)|(remove k) ...));  discrete_domain: dd_join dd_meet dd_leq dd_eq
//        dd_diff dd_add dd_remove dd_contain dd_rename dd_is_top dd_is_bottom dd_size dd_elems
// Results: environments / sets in the same canonical text, 0|1, an interval, a key list in ITERATION order
// (keys / elems), `err` = CRAB_ERROR.
// discrete_domain::size/begin/end on top do `assert(false)` before CRAB_ERROR: asserts off so that
// the CRAB_ERROR path (reported as `err`) is what is observed
#ifndef NDEBUG
#define NDEBUG
#endif
#include "common.hpp"
#include <crab/domains/separate_domains.hpp>
#include <crab/domains/discrete_domains.hpp>
#include <algorithm>
#include <map>
using namespace vh;

class Key : public crab::indexable {
  ikos::index_t _i;
public:
  Key(ikos::index_t i) : _i(i) {}
  ikos::index_t index() const override { return _i; }
  void write(crab::crab_os &o) const override { o << "k" << (unsigned long long)_i; }
  bool operator<(const Key &o) const { return _i < o._i; }
  bool operator==(const Key &o) const { return _i == o._i; }
};

using env_t = ikos::separate_domain<Key, z_interval>;
using pset_t = ikos::patricia_tree_set<Key>;
using dd_t = ikos::discrete_domain<Key>;

static std::string bstr(bool b) { return b ? "1" : "0"; }
static std::string us(uint64_t k) { return std::to_string((unsigned long long)k); }
static uint64_t pu(const Sx &x) { return std::strtoull(x.a.c_str(), nullptr, 10); }

// ---------- printing (canonical: sorted by key) ----------
static std::string envs(const env_t &e) {
  if (e.is_bottom()) return "bot";
  std::vector<std::pair<uint64_t, std::string>> v;
  for (auto it = e.begin(); it != e.end(); ++it) {
    auto b = *it;
    v.push_back({b.first.index(), ivs(b.second)});
  }
  std::sort(v.begin(), v.end());
  std::string r = "(env";
  for (auto &p : v) r += " (" + us(p.first) + " " + p.second + ")";
  return r + ")";
}
// iteration order as delivered by the iterator
static std::string env_keys(const env_t &e) {
  std::string r = "(";
  bool first = true;
  for (auto it = e.begin(); it != e.end(); ++it) {
    if (!first) r += " ";
    first = false;
    r += us((*it).first.index());
  }
  return r + ")";
}
static std::string psets(const pset_t &s) {
  std::vector<uint64_t> v;
  for (auto it = s.begin(); it != s.end(); ++it) v.push_back((*it).index());
  std::sort(v.begin(), v.end());
  std::string r = "(s";
  for (auto k : v) r += " " + us(k);
  return r + ")";
}
static std::string pset_elems(const pset_t &s) {
  std::string r = "(";
  bool first = true;
  for (auto it = s.begin(); it != s.end(); ++it) {
    if (!first) r += " ";
    first = false;
    r += us((*it).index());
  }
  return r + ")";
}
static std::string dds(const dd_t &d) {
  if (d.is_top()) return "top";
  std::vector<uint64_t> v;
  for (auto it = d.begin(); it != d.end(); ++it) v.push_back((*it).index());
  std::sort(v.begin(), v.end());
  std::string r = "(s";
  for (auto k : v) r += " " + us(k);
  return r + ")";
}

// ---------- rebuilding operands from text (bindings inserted one by one) ----------
static env_t parse_env(const Sx &x) {
  if (x.is_atom) return env_t::bottom();
  env_t e = env_t::top();
  for (size_t i = 1; i < x.size(); i++) e.set(Key(pu(x[i][0])), parse_interval(x[i][1]));
  return e;
}
static pset_t parse_pset(const Sx &x) {
  pset_t s;
  for (size_t i = 1; i < x.size(); i++) s += Key(pu(x[i]));
  return s;
}
static dd_t parse_dd(const Sx &x) {
  if (x.is_atom) return dd_t::top();
  dd_t d = dd_t::bottom();
  for (size_t i = 1; i < x.size(); i++) d += Key(pu(x[i]));
  return d;
}
static std::vector<Key> parse_keys(const Sx &x) {
  std::vector<Key> v;
  for (size_t i = 0; i < x.size(); i++) v.push_back(Key(pu(x[i])));
  return v;
}

static std::string env_binop(const std::string &op, const env_t &a, const env_t &b) {
  if (op == "join") return envs(a | b);
  if (op == "meet") return envs(a & b);
  if (op == "widen") return envs(a || b);
  if (op == "narrow") return envs(a && b);
  if (op == "leq") return bstr(a <= b);
  if (op == "eq") return bstr(a == b);
  return "unknown";
}

static void env_edit(env_t &e, const Sx &ed) {
  const std::string &h = ed[0].a;
  if (h == "set") e.set(Key(pu(ed[1])), parse_interval(ed[2]));
  else if (h == "forget") e -= Key(pu(ed[1]));
}

static std::string eval_hist(const Sx &q) {
  std::vector<env_t> pool(6, env_t::top());
  std::string out;
  for (size_t i = 1; i < q.size(); i++) {
    const Sx &st = q[i];
    const std::string &h = st[0].a;
    std::string r = guarded([&]() -> std::string {
      if (h == "set") { env_t &e = pool[pu(st[1])]; e.set(Key(pu(st[2])), parse_interval(st[3])); return envs(e); }
      if (h == "forget") { env_t &e = pool[pu(st[1])]; e -= Key(pu(st[2])); return envs(e); }
      if (h == "wjoin") { env_t &e = pool[pu(st[1])]; e.join(Key(pu(st[2])), parse_interval(st[3])); return envs(e); }
      if (h == "copy") { pool[pu(st[1])] = pool[pu(st[2])]; return envs(pool[pu(st[1])]); }
      if (h == "bot") { pool[pu(st[1])] = env_t::bottom(); return envs(pool[pu(st[1])]); }
      if (h == "top") { pool[pu(st[1])] = env_t::top(); return envs(pool[pu(st[1])]); }
      if (h == "join") { env_t x = pool[pu(st[2])] | pool[pu(st[3])]; pool[pu(st[1])] = x; return envs(x); }
      if (h == "meet") { env_t x = pool[pu(st[2])] & pool[pu(st[3])]; pool[pu(st[1])] = x; return envs(x); }
      if (h == "widen") { env_t x = pool[pu(st[2])] || pool[pu(st[3])]; pool[pu(st[1])] = x; return envs(x); }
      if (h == "narrow") { env_t x = pool[pu(st[2])] && pool[pu(st[3])]; pool[pu(st[1])] = x; return envs(x); }
      if (h == "project") { env_t x = pool[pu(st[1])]; x.project(parse_keys(st[2])); pool[pu(st[1])] = x; return envs(x); }
      if (h == "rename") { env_t x = pool[pu(st[1])]; x.rename(parse_keys(st[2]), parse_keys(st[3])); pool[pu(st[1])] = x; return envs(x); }
      if (h == "leq") return bstr(pool[pu(st[1])] <= pool[pu(st[2])]);
      if (h == "eq") return bstr(pool[pu(st[1])] == pool[pu(st[2])]);
      if (h == "at") return ivs(pool[pu(st[1])].at(Key(pu(st[2]))));
      if (h == "keys") return env_keys(pool[pu(st[1])]);
      if (h == "is_top") return bstr(pool[pu(st[1])].is_top());
      return "unknown";
    });
    if (i > 1) out += " ";
    out += r;
  }
  return out;
}

static std::string eval_env(const std::string &op, const Sx &q) {
  if (op == "hist") return eval_hist(q);
  if (op == "shared") {
    const std::string &bop = q[1].a;
    env_t a = parse_env(q[3]);
    env_t b = a; // shares the whole tree
    for (size_t i = 0; i < q[4].size(); i++) env_edit(b, q[4][i]);
    return q[2].a == "ab" ? env_binop(bop, a, b) : env_binop(bop, b, a);
  }
  env_t a = parse_env(q[1]);
  if (op == "set") { a.set(Key(pu(q[2])), parse_interval(q[3])); return envs(a); }
  if (op == "wjoin") { a.join(Key(pu(q[2])), parse_interval(q[3])); return envs(a); }
  if (op == "forget") { a -= Key(pu(q[2])); return envs(a); }
  if (op == "at") return ivs(a.at(Key(pu(q[2]))));
  if (op == "keys") return env_keys(a);
  if (op == "size") return us(a.size());
  if (op == "is_top") return bstr(a.is_top());
  if (op == "is_bottom") return bstr(a.is_bottom());
  if (op == "project") { a.project(parse_keys(q[2])); return envs(a); }
  if (op == "rename") { a.rename(parse_keys(q[2]), parse_keys(q[3])); return envs(a); }
  env_t b = parse_env(q[2]);
  return env_binop(op, a, b);
}

static std::string pset_binop(const std::string &op, const pset_t &a, const pset_t &b) {
  if (op == "union") return psets(a | b);
  if (op == "inter") return psets(a & b);
  if (op == "subset") return bstr(a <= b);
  if (op == "supset") return bstr(a >= b);
  if (op == "eq") return bstr(a == b);
  return "unknown";
}

static std::string eval_pset(const std::string &op, const Sx &q) {
  if (op == "shared") {
    pset_t a = parse_pset(q[3]);
    pset_t b = a;
    for (size_t i = 0; i < q[4].size(); i++) {
      const Sx &ed = q[4][i];
      if (ed[0].a == "add") b += Key(pu(ed[1])); else b -= Key(pu(ed[1]));
    }
    return q[2].a == "ab" ? pset_binop(q[1].a, a, b) : pset_binop(q[1].a, b, a);
  }
  if (op.rfind("dd_", 0) == 0) {
    std::string o = op.substr(3);
    dd_t a = parse_dd(q[1]);
    if (o == "is_top") return bstr(a.is_top());
    if (o == "is_bottom") return bstr(a.is_bottom());
    if (o == "size") return us(a.size());
    if (o == "elems") { std::string r = "("; bool f = true; for (auto it = a.begin(); it != a.end(); ++it) { if (!f) r += " "; f = false; r += us((*it).index()); } return r + ")"; }
    if (o == "add") { a += Key(pu(q[2])); return dds(a); }
    if (o == "remove") { a -= Key(pu(q[2])); return dds(a); }
    if (o == "contain") return bstr(a.contain(Key(pu(q[2]))));
    if (o == "rename") { a.rename(parse_keys(q[2]), parse_keys(q[3])); return dds(a); }
    dd_t b = parse_dd(q[2]);
    if (o == "join") return dds(a | b);
    if (o == "meet") return dds(a & b);
    if (o == "leq") return bstr(a <= b);
    if (o == "eq") return bstr(a == b);
    if (o == "diff") return dds(a - b); // operator-(Range): removes every element of b
    return "unknown";
  }
  pset_t a = parse_pset(q[1]);
  // (patricia_tree_set::operator+(Element) / operator-(Element) do not compile when instantiated:
  //  they pass an lvalue to the private rvalue constructor; the in-place forms are used instead)
  if (op == "add") { a += Key(pu(q[2])); return psets(a); }
  if (op == "remove") { a -= Key(pu(q[2])); return psets(a); }
  if (op == "member") return bstr(a[Key(pu(q[2]))]);
  if (op == "empty") return bstr(a.empty());
  if (op == "size") return us(a.size());
  if (op == "elems") return pset_elems(a);
  pset_t b = parse_pset(q[2]);
  return pset_binop(op, a, b);
}

static std::string eval(const Sx &q) {
  const std::string &h = q[0].a;
  if (h.rfind("env.", 0) == 0) return eval_env(h.substr(4), q);
  if (h.rfind("pset.", 0) == 0) return eval_pset(h.substr(5), q);
  return "unknown";
}

// ====================== generation ======================

// a universe of at most 12 indices; every key of a line is drawn from it
static std::vector<uint64_t> gen_universe(Rng &r) {
  std::vector<uint64_t> u;
  auto add = [&](uint64_t k) { if (std::find(u.begin(), u.end(), k) == u.end()) u.push_back(k); };
  switch (r.below(8)) {
  case 0: case 1: { // dense small
    uint64_t n = 4 + r.below(9);
    for (uint64_t i = 0; i < n; i++) add(i);
    break;
  }
  case 2: { // sparse random 64-bit
    uint64_t n = 3 + r.below(9);
    for (uint64_t i = 0; i < n; i++) add(r.next());
    break;
  }
  case 3: { // extremes / high bits
    static const uint64_t hs[] = {0ULL, 1ULL, 2ULL, (1ULL << 63), (1ULL << 63) + 1, (1ULL << 63) - 1, ~0ULL, ~0ULL - 1,
                                  (1ULL << 62), (1ULL << 62) + (1ULL << 63), (1ULL << 32), (1ULL << 32) - 1,
                                  (1ULL << 31), 3ULL << 62};
    uint64_t n = 4 + r.below(8);
    for (uint64_t i = 0; i < n; i++) add(hs[r.below(14)]);
    break;
  }
  case 4: { // adversarial common prefix: one base, differences in a few chosen bits
    uint64_t base = r.next();
    unsigned b1 = r.below(64), b2 = r.below(64), b3 = r.below(64);
    for (unsigned m = 0; m < 8; m++) {
      uint64_t k = base;
      if (m & 1) k ^= (1ULL << b1);
      if (m & 2) k ^= (1ULL << b2);
      if (m & 4) k ^= (1ULL << b3);
      add(k);
    }
    add(base + 1); add(base - 1);
    break;
  }
  case 5: { // powers of two and neighbours
    uint64_t n = 4 + r.below(8);
    for (uint64_t i = 0; i < n; i++) { uint64_t p = 1ULL << r.below(64); add(p + (uint64_t)r.range(-1, 1)); }
    break;
  }
  case 6: { // two clusters far apart
    uint64_t a = r.next(), b = r.next();
    for (unsigned i = 0; i < 5; i++) { add(a + r.below(6)); add(b + r.below(6)); }
    break;
  }
  default: { // medium dense with holes
    uint64_t base = r.coin() ? 0 : (r.next() & ~0xFFULL);
    uint64_t n = 5 + r.below(7);
    for (uint64_t i = 0; i < n; i++) add(base + r.below(64));
    break;
  }
  }
  if (u.size() > 12) u.resize(12);
  return u;
}

// a stored value: never bottom, never top
static z_interval gen_val(Rng &r) {
  for (;;) {
    z_interval v = gen_interval(r, r.below(6) != 0);
    if (!v.is_bottom() && !v.is_top()) return v;
  }
}
// a value given to set(): sometimes top / bottom
static z_interval gen_setval(Rng &r) {
  unsigned k = r.below(14);
  if (k == 0) return z_interval::top();
  if (k == 1) return z_interval::bottom();
  return gen_val(r);
}

using bmap = std::map<uint64_t, std::string>;
static std::string bmap_str(const bmap &m) {
  std::string s = "(env";
  for (auto &p : m) s += " (" + us(p.first) + " " + p.second + ")";
  return s + ")";
}
static bmap gen_bmap(Rng &r, const std::vector<uint64_t> &u) {
  bmap m;
  unsigned dens = 1 + r.below(9); // out of 10
  if (r.below(12) == 0) return m; // top
  for (auto k : u) if (r.below(10) < dens) m[k] = ivs(gen_val(r));
  return m;
}
static std::string gen_env_txt(Rng &r, const std::vector<uint64_t> &u) {
  if (r.below(25) == 0) return "bot";
  return bmap_str(gen_bmap(r, u));
}
// second operand related to the first: equal, sub-map, super-map, same keys other values, unrelated
static std::string gen_env_related(Rng &r, const std::vector<uint64_t> &u, const bmap &a) {
  bmap b;
  switch (r.below(7)) {
  case 0: b = a; break;
  case 1: for (auto &p : a) if (r.coin(2, 3)) b[p.first] = p.second; break;
  case 2: b = a; for (auto k : u) if (!b.count(k) && r.coin(1, 3)) b[k] = ivs(gen_val(r)); break;
  case 3: for (auto &p : a) b[p.first] = r.coin() ? p.second : ivs(gen_val(r)); break;
  case 4: { // most of the bindings of a, same values (a <= b expected)
    for (auto &p : a) if (r.coin(3, 4)) b[p.first] = p.second;
    break;
  }
  case 5: { // single binding on another key (the leaf / leaf shape)
    b[r.pick(u)] = ivs(gen_val(r));
    break;
  }
  default: return gen_env_txt(r, u);
  }
  return bmap_str(b);
}

static std::string keylist(Rng &r, const std::vector<uint64_t> &u, unsigned maxn, bool distinct) {
  std::vector<uint64_t> ks;
  unsigned n = r.below(maxn + 1);
  for (unsigned i = 0; i < n; i++) {
    uint64_t k = r.pick(u);
    if (distinct && std::find(ks.begin(), ks.end(), k) != ks.end()) continue;
    ks.push_back(k);
  }
  std::string s = "(";
  for (size_t i = 0; i < ks.size(); i++) { if (i) s += " "; s += us(ks[i]); }
  return s + ")";
}

static std::string gen_rename_lists(Rng &r, const std::vector<uint64_t> &u) {
  // `from` without duplicates, `to` mostly fresh and distinct, sometimes colliding / other length
  std::vector<uint64_t> from, to;
  unsigned n = r.below(4);
  std::vector<uint64_t> perm = u;
  for (size_t i = perm.size(); i > 1; i--) std::swap(perm[i - 1], perm[r.below(i)]);
  for (unsigned i = 0; i < n && i < perm.size(); i++) from.push_back(perm[i]);
  for (size_t i = 0; i < from.size(); i++) {
    unsigned c = r.below(10);
    if (c == 0) to.push_back(from[i]);
    else if (c <= 2) to.push_back(r.pick(u));
    else if (c <= 4) to.push_back(perm[perm.size() - 1 - (i % perm.size())]);
    else to.push_back(r.coin() ? r.next() : (from[i] ^ (1ULL << r.below(64))));
  }
  if (r.below(40) == 0) to.push_back(r.pick(u));
  std::string s = "(", t = "(";
  for (size_t i = 0; i < from.size(); i++) { if (i) s += " "; s += us(from[i]); }
  for (size_t i = 0; i < to.size(); i++) { if (i) t += " "; t += us(to[i]); }
  return s + ") " + t + ")";
}

static std::string gen_edits(Rng &r, const std::vector<uint64_t> &u) {
  std::string s = "(";
  unsigned n = r.below(4);
  for (unsigned i = 0; i < n; i++) {
    if (i) s += " ";
    if (r.coin(2, 3)) s += "(set " + us(r.pick(u)) + " " + ivs(gen_val(r)) + ")";
    else s += "(forget " + us(r.pick(u)) + ")";
  }
  return s + ")";
}

static const std::vector<std::string> EBIN = {"join", "meet", "widen", "narrow", "leq", "leq", "eq"};

static std::string gen_hist(Rng &r, const std::vector<uint64_t> &u, const Args &a) {
  unsigned n = 6 + r.below(a.tier == "thorough" ? 40 : 18);
  std::string s = "(env.hist";
  auto slot = [&]() { return us(r.below(6)); };
  for (unsigned i = 0; i < n; i++) {
    unsigned c = r.below(100);
    s += " ";
    if (c < 30) s += "(set " + slot() + " " + us(r.pick(u)) + " " + ivs(r.below(20) ? gen_val(r) : gen_setval(r)) + ")";
    else if (c < 36) s += "(forget " + slot() + " " + us(r.pick(u)) + ")";
    else if (c < 42) s += "(copy " + slot() + " " + slot() + ")";
    else if (c < 50) s += "(join " + slot() + " " + slot() + " " + slot() + ")";
    else if (c < 58) s += "(meet " + slot() + " " + slot() + " " + slot() + ")";
    else if (c < 64) s += "(widen " + slot() + " " + slot() + " " + slot() + ")";
    else if (c < 70) s += "(narrow " + slot() + " " + slot() + " " + slot() + ")";
    else if (c < 80) s += "(leq " + slot() + " " + slot() + ")";
    else if (c < 83) s += "(eq " + slot() + " " + slot() + ")";
    else if (c < 88) s += "(at " + slot() + " " + us(r.pick(u)) + ")";
    else if (c < 91) s += "(keys " + slot() + ")";
    else if (c < 93) s += "(is_top " + slot() + ")";
    else if (c < 95) s += "(project " + slot() + " " + keylist(r, u, 10, false) + ")";
    else if (c < 97) s += "(rename " + slot() + " " + gen_rename_lists(r, u) + ")";
    else if (c < 98) s += "(wjoin " + slot() + " " + us(r.pick(u)) + " " + ivs(gen_setval(r)) + ")";
    else if (c < 99) s += "(top " + slot() + ")";
    else s += "(bot " + slot() + ")";
  }
  return s + ")";
}

static std::string sets_txt(const std::vector<uint64_t> &v) {
  std::vector<uint64_t> w = v;
  std::sort(w.begin(), w.end());
  w.erase(std::unique(w.begin(), w.end()), w.end());
  std::string s = "(s";
  for (auto k : w) s += " " + us(k);
  return s + ")";
}
static std::vector<uint64_t> gen_subset(Rng &r, const std::vector<uint64_t> &u) {
  std::vector<uint64_t> v;
  unsigned dens = r.below(11);
  for (auto k : u) if (r.below(10) < dens) v.push_back(k);
  return v;
}
static std::vector<uint64_t> gen_related_set(Rng &r, const std::vector<uint64_t> &u, const std::vector<uint64_t> &a) {
  std::vector<uint64_t> b;
  switch (r.below(5)) {
  case 0: return a;
  case 1: for (auto k : a) if (r.coin(2, 3)) b.push_back(k); return b;
  case 2: b = a; for (auto k : u) if (r.coin(1, 3)) b.push_back(k); return b;
  case 3: b.push_back(r.pick(u)); return b;
  default: return gen_subset(r, u);
  }
}

static std::string gen_pset(Rng &r, const std::vector<uint64_t> &u) {
  unsigned c = r.below(100);
  std::vector<uint64_t> a = gen_subset(r, u);
  std::string A = sets_txt(a);
  if (c < 8) return "(pset.add " + A + " " + us(r.pick(u)) + ")";
  if (c < 16) return "(pset.remove " + A + " " + us(r.pick(u)) + ")";
  if (c < 24) return "(pset.member " + A + " " + us(r.coin(1, 8) ? r.next() : r.pick(u)) + ")";
  if (c < 27) return "(pset.empty " + A + ")";
  if (c < 30) return "(pset.size " + A + ")";
  if (c < 35) return "(pset.elems " + A + ")";
  if (c < 62) {
    static const std::vector<std::string> B = {"union", "inter", "subset", "subset", "supset", "eq"};
    return "(pset." + r.pick(B) + " " + A + " " + sets_txt(gen_related_set(r, u, a)) + ")";
  }
  if (c < 74) {
    static const std::vector<std::string> B = {"union", "inter", "subset", "eq"};
    std::string ed = "(";
    unsigned n = r.below(4);
    for (unsigned i = 0; i < n; i++) { if (i) ed += " "; ed += std::string(r.coin() ? "(add " : "(remove ") + us(r.pick(u)) + ")"; }
    ed += ")";
    return "(pset.shared " + r.pick(B) + " " + (r.coin() ? "ab" : "ba") + " " + A + " " + ed + ")";
  }
  // discrete_domain
  std::string DA = r.below(10) == 0 ? "top" : A;
  std::vector<uint64_t> b = gen_related_set(r, u, a);
  std::string DB = r.below(10) == 0 ? "top" : sets_txt(b);
  if (c < 77) return "(pset.dd_add " + DA + " " + us(r.pick(u)) + ")";
  if (c < 80) return "(pset.dd_remove " + DA + " " + us(r.pick(u)) + ")";
  if (c < 83) return "(pset.dd_contain " + DA + " " + us(r.pick(u)) + ")";
  if (c < 85) { static const std::vector<std::string> U = {"is_top", "is_bottom", "size", "elems"}; return "(pset.dd_" + r.pick(U) + " " + DA + ")"; }
  if (c < 88) return "(pset.dd_rename " + DA + " " + gen_rename_lists(r, u) + ")";
  static const std::vector<std::string> B = {"join", "meet", "leq", "eq", "diff"};
  return "(pset.dd_" + r.pick(B) + " " + DA + " " + DB + ")";
}

static std::string gen(Rng &r, const Args &a) {
  std::vector<uint64_t> u = gen_universe(r);
  unsigned c = r.below(100);
  if (c < 22) return gen_pset(r, u);
  if (c < 30) return gen_hist(r, u, a);
  bmap am = gen_bmap(r, u);
  std::string A = r.below(30) == 0 ? std::string("bot") : bmap_str(am);
  if (c < 36) return "(env.set " + A + " " + us(r.pick(u)) + " " + ivs(gen_setval(r)) + ")";
  if (c < 40) return "(env.forget " + A + " " + us(r.pick(u)) + ")";
  if (c < 45) return "(env.at " + A + " " + us(r.coin(1, 8) ? r.next() : r.pick(u)) + ")";
  if (c < 48) return "(env.keys " + A + ")";
  if (c < 50) { static const std::vector<std::string> U = {"is_top", "is_bottom", "size"}; return "(env." + r.pick(U) + " " + A + ")"; }
  if (c < 54) return "(env.project " + A + " " + keylist(r, u, 12, false) + ")";
  if (c < 58) return "(env.rename " + A + " " + gen_rename_lists(r, u) + ")";
  if (c < 59) return "(env.wjoin " + A + " " + us(r.pick(u)) + " " + ivs(gen_setval(r)) + ")";
  if (c < 70) return "(env.shared " + r.pick(EBIN) + " " + (r.coin() ? "ab" : "ba") + " " + A + " " + gen_edits(r, u) + ")";
  return "(env." + r.pick(EBIN) + " " + A + " " + gen_env_related(r, u, am) + ")";
}

int main(int argc, char **argv) { return run_harness(argc, argv, gen, eval); }
