// Harness for component `crawl` (assertion_crawler, property C18 second half).
//
// Request (program text: see tprog.hpp):
//   (crawl.run PROG)
//     => (orig PROG) (order b..) (cdg (b c..)..)
//        (data (b FACT*)..) (ctrl (b FACT*)..) (sdata (b (k FACT*)..)..) (sctrl (b (k FACT*)..)..)
//   FACT ::= ((bA kA) v..)      the assertion = statement kA of block bA, and its variable set
//
//   orig  = the program read back from the real CFG built from the request,
//   order = weak_rev_topo_sort of the CFG (the order run_bwd_fixpo iterates over),
//   cdg   = graph_algo::control_dep_graph (what assertion_crawler_operations::init_fixpoint
//           computes): key block followed by the blocks that are control dependent on it,
//   data  = assertion_crawler(cfg, .., only_data = true ).get_results(b)   for every block b,
//   ctrl  = assertion_crawler(cfg, .., only_data = false).get_results(b)   (facts at the ENTRY of b),
//   sdata / sctrl = get_results(b, map): "the dataflow facts of the pre-state at each program
//           point in b", per statement index k (blocks the API leaves out are printed without
//           entries).
//   A set that is `top` is printed as the atom top.
#include "tprog.hpp"
#include <crab/analysis/dataflow/assertion_crawler.hpp>
#include <crab/analysis/graphs/cdg.hpp>
#include <crab/analysis/graphs/topo_order.hpp>
#include <crab/cfg/cfg_bgl.hpp>
#include <set>
#include <unordered_map>

using namespace vh;
using namespace tp;

namespace {

using crawler_t = crab::analyzer::assertion_crawler<z_cfg_ref_t>;
using amap_dom_t = typename crawler_t::assert_map_domain_t;
using stmt_t = typename z_cfg_ref_t::statement_t;
using loc_map_t = std::map<const stmt_t *, std::pair<unsigned, unsigned>>;

std::vector<std::string> sorted_labels(const z_cfg_t &cfg) {
  std::vector<std::pair<unsigned, std::string>> labs;
  for (auto it = cfg.label_begin(); it != cfg.label_end(); ++it) labs.push_back({unidx(*it), *it});
  std::sort(labs.begin(), labs.end());
  std::vector<std::string> r;
  for (auto &l : labs) r.push_back(l.second);
  return r;
}

std::string facts_text(const amap_dom_t &d, const loc_map_t &loc) {
  if (d.is_top()) return " top";
  std::vector<std::pair<std::pair<unsigned, unsigned>, std::string>> fs;
  for (auto it = d.begin(); it != d.end(); ++it) {
    auto key = it->first;
    auto vs = it->second;
    auto li = loc.find(&key.get());
    std::pair<unsigned, unsigned> where = li == loc.end() ? std::make_pair(9999u, 9999u) : li->second;
    std::string t;
    if (vs.is_top()) t = " top";
    else {
      std::vector<unsigned> xs;
      for (auto v = vs.begin(); v != vs.end(); ++v) xs.push_back(unidx(vname(*v)));
      std::sort(xs.begin(), xs.end());
      for (unsigned x : xs) t += " v" + std::to_string(x);
    }
    fs.push_back({where, t});
  }
  std::sort(fs.begin(), fs.end());
  std::string r;
  for (auto &f : fs) r += " ((b" + std::to_string(f.first.first) + " " + std::to_string(f.first.second) + ")" + f.second + ")";
  return r;
}

void run_crawler(z_cfg_t &cfg, bool only_data, const loc_map_t &loc, std::string &blocks, std::string &stmts) {
  typename crawler_t::assert_map_t assert_map;
  typename crawler_t::summary_map_t summaries;
  z_cfg_ref_t ref(cfg);
  crawler_t ac(ref, assert_map, summaries, only_data);
  ac.exec();
  auto labs = sorted_labels(cfg);
  for (auto &l : labs) blocks += " (" + l + facts_text(ac.get_results(l), loc) + ")";
  for (auto &l : labs) {
    std::map<stmt_t *, amap_dom_t> res;
    ac.get_results(l, res);
    stmts += " (" + l;
    unsigned k = 0;
    for (auto &s : cfg.get_node(l)) {
      auto it = res.find(const_cast<stmt_t *>(&s));
      if (it != res.end()) stmts += " (" + std::to_string(k) + facts_text(it->second, loc) + ")";
      k++;
    }
    stmts += ")";
  }
}

std::string eval(const Sx &q) {
  if (q[0].a != "crawl.run") return "badop";
  Built B = build(q[1]);
  std::ostringstream o;
  o << "(orig " << dump(*B.cfg, B.nv) << ")";
  {
    z_cfg_ref_t ref(*B.cfg);
    auto order = crab::analyzer::graph_algo::weak_rev_topo_sort(ref);
    o << " (order";
    for (auto &l : order) o << " " << l;
    o << ")";
  }
  {
    z_cfg_ref_t ref(*B.cfg);
    std::unordered_map<std::string, std::vector<std::string>> cdg;
    crab::analyzer::graph_algo::control_dep_graph(ref, cdg);
    std::vector<std::pair<unsigned, std::vector<unsigned>>> rows;
    for (auto &kv : cdg) {
      std::vector<unsigned> cs;
      for (auto &c : kv.second) cs.push_back(unidx(c));
      std::sort(cs.begin(), cs.end());
      rows.push_back({unidx(kv.first), cs});
    }
    std::sort(rows.begin(), rows.end());
    o << " (cdg";
    for (auto &r : rows) {
      o << " (b" << r.first;
      for (unsigned c : r.second) o << " b" << c;
      o << ")";
    }
    o << ")";
  }
  loc_map_t loc;
  for (auto &l : sorted_labels(*B.cfg)) {
    unsigned k = 0;
    for (auto const &s : B.cfg->get_node(l)) loc[&s] = {unidx(l), k++};
  }
  std::string bd, sd, bc, sc;
  run_crawler(*B.cfg, true, loc, bd, sd);
  run_crawler(*B.cfg, false, loc, bc, sc);
  o << " (data" << bd << ") (ctrl" << bc << ") (sdata" << sd << ") (sctrl" << sc << ")";
  return o.str();
}

// ---------------------------------------------------------------------------------------
// generator: structured programs (if-then-else with complementary assumes on the two
// branches, loops with a header, early exits, error sinks, non-deterministic branches) plus a
// share of random graphs; asserts whose conditions depend on other variables through chains
// of assignments, redefinitions that kill dependences, havocs, selects, unreachable
// ---------------------------------------------------------------------------------------
struct GBlock {
  std::vector<std::string> st;
  std::vector<unsigned> succ;
};

struct GProg {
  unsigned nv = 3;
  unsigned entry = 0;
  int exit = -1;
  bool fd = false;
  std::vector<unsigned> ins, outs;
  std::vector<GBlock> bs;
  unsigned maxb = 10;
  std::vector<unsigned> to_exit; // blocks that jump to the exit (early returns)
};

std::string V(unsigned i) { return "v" + std::to_string(i); }

// (lin c (k v)..) from a coefficient vector
std::string lin_text(int64_t c, const std::vector<int64_t> &co) {
  std::ostringstream o;
  o << "(lin " << c;
  for (unsigned v = 0; v < co.size(); v++)
    if (co[v] != 0) o << " (" << co[v] << " " << V(v) << ")";
  o << ")";
  return o.str();
}

std::string gen_lin(Rng &r, unsigned nv, int maxterms = 2) {
  std::vector<int64_t> co(nv, 0);
  unsigned k = r.below(maxterms + 1);
  for (unsigned i = 0; i < k; i++) {
    int64_t c = r.below(3) == 0 ? r.range(-3, 3) : (r.coin() ? 1 : -1);
    if (c == 0) c = 1;
    co[r.below(nv)] = c;
  }
  return lin_text(r.range(-4, 6), co);
}

struct Cond {
  int64_t c;
  std::vector<int64_t> co;
};

Cond gen_cond(Rng &r, unsigned nv) {
  Cond k;
  k.co.assign(nv, 0);
  k.c = r.range(-6, 6);
  unsigned x = r.below(nv);
  k.co[x] = r.coin() ? 1 : -1;
  if (r.below(3) == 0 && nv > 1) {
    unsigned y = r.below(nv);
    if (y == x) y = (x + 1) % nv;
    k.co[y] = r.coin() ? 1 : -1;
  }
  return k;
}

// e <= 0
std::string cond_le(const Cond &k) { return "(le " + lin_text(k.c, k.co) + ")"; }
// not (e <= 0)  ==  1 - e <= 0
std::string cond_gt(const Cond &k) {
  std::vector<int64_t> co = k.co;
  for (auto &c : co) c = -c;
  return "(le " + lin_text(1 - k.c, co) + ")";
}

std::string gen_cst(Rng &r, unsigned nv) {
  static const char *ks[] = {"le", "le", "le", "lt", "ne", "eq"};
  if (r.below(14) == 0) { // constant condition (assert(false) / assert(true) idiom)
    return std::string("(") + ks[r.below(4)] + " (lin " + std::to_string(r.range(-1, 1)) + "))";
  }
  Cond k = gen_cond(r, nv);
  return std::string("(") + ks[r.below(r.below(3) == 0 ? 6 : 4)] + " " + lin_text(k.c, k.co) + ")";
}

std::string gen_stmt(Rng &r, unsigned nv, bool allow_unreach) {
  unsigned x = r.below(nv);
  switch (r.below(allow_unreach ? 25 : 24)) {
  case 0: case 1: case 2: case 3: case 4: case 5:
    return "(assign " + V(x) + " " + gen_lin(r, nv) + ")";
  case 6: case 7: case 8: {
    static const char *ops[] = {"add", "add", "sub", "mul", "sdiv"};
    std::string op = ops[r.below(5)];
    std::string b;
    if (r.coin()) b = V(r.below(nv));
    else {
      int64_t c = r.range(-3, 4);
      if (op == std::string("sdiv") && c == 0 && r.below(4) != 0) c = 2;
      b = std::to_string(c);
    }
    return "(bin " + op + " " + V(x) + " " + V(r.below(nv)) + " " + b + ")";
  }
  case 9: case 10: return "(havoc " + V(x) + ")";
  case 11: return "(assume " + gen_cst(r, nv) + ")";
  case 12: case 13: case 14: case 15: case 16: return "(assert " + gen_cst(r, nv) + ")";
  case 17: case 18: case 19: return "(assign " + V(x) + " " + gen_lin(r, nv, 1) + ")";
  case 20: case 21: return "(select " + V(x) + " " + gen_cst(r, nv) + " " + gen_lin(r, nv, 1) + " " + gen_lin(r, nv, 1) + ")";
  case 22: case 23: return "(assign " + V(x) + " (lin " + std::to_string(r.range(-4, 6)) + "))"; // kills dependences
  default: return "(unreachable)";
  }
}

void add_edge(GProg &p, unsigned a, unsigned b) {
  auto &s = p.bs[a].succ;
  if (std::find(s.begin(), s.end(), b) == s.end()) s.push_back(b);
}

unsigned new_block(GProg &p) {
  p.bs.emplace_back();
  return (unsigned)p.bs.size() - 1;
}

void add_stmts(Rng &r, GProg &p, unsigned b, unsigned lo, unsigned hi) {
  unsigned k = (unsigned)r.range(lo, hi);
  bool allow_unreach = r.below(12) == 0;
  for (unsigned i = 0; i < k; i++) p.bs[b].st.push_back(gen_stmt(r, p.nv, allow_unreach));
}

// appends a region to block `cur`; returns the block where control continues
unsigned region(Rng &r, GProg &p, unsigned cur, int depth) {
  unsigned items = 1 + r.below(3);
  for (unsigned it = 0; it < items; it++) {
    bool room = p.bs.size() + 3 <= p.maxb && depth < 3;
    unsigned kind = room ? r.below(12) : 0;
    switch (kind) {
    case 0: case 1: case 2: add_stmts(r, p, cur, 1, 3); break;
    case 3: case 4: case 5: { // if-then-else / if-then
      Cond c = gen_cond(r, p.nv);
      unsigned t = new_block(p), e = new_block(p);
      add_edge(p, cur, t);
      add_edge(p, cur, e);
      p.bs[t].st.push_back("(assume " + cond_le(c) + ")");
      p.bs[e].st.push_back("(assume " + cond_gt(c) + ")");
      unsigned te = region(r, p, t, depth + 1);
      unsigned ee = r.coin() ? region(r, p, e, depth + 1) : e;
      unsigned j = new_block(p);
      add_edge(p, te, j);
      add_edge(p, ee, j);
      cur = j;
      break;
    }
    case 6: case 7: { // loop: cur -> h; h -> body, out; body -> h
      Cond c = gen_cond(r, p.nv);
      unsigned h = new_block(p);
      add_edge(p, cur, h);
      if (r.below(3) == 0) add_stmts(r, p, h, 1, 2);
      unsigned body = new_block(p), out = new_block(p);
      add_edge(p, h, body);
      add_edge(p, h, out);
      p.bs[body].st.push_back("(assume " + cond_le(c) + ")");
      p.bs[out].st.push_back("(assume " + cond_gt(c) + ")");
      unsigned be = region(r, p, body, depth + 1);
      if (r.below(3) != 0) { // progress on a variable of the condition
        for (unsigned v = 0; v < p.nv; v++)
          if (c.co[v] != 0) {
            p.bs[be].st.push_back("(bin add " + V(v) + " " + V(v) + " " + std::to_string(c.co[v] > 0 ? 1 : -1) + ")");
            break;
          }
      }
      add_edge(p, be, h);
      cur = out;
      break;
    }
    case 8: { // non-deterministic branch
      unsigned t = new_block(p), e = new_block(p);
      add_edge(p, cur, t);
      add_edge(p, cur, e);
      unsigned te = region(r, p, t, depth + 1);
      unsigned ee = r.coin() ? region(r, p, e, depth + 1) : e;
      unsigned j = new_block(p);
      add_edge(p, te, j);
      add_edge(p, ee, j);
      cur = j;
      break;
    }
    case 9: { // early return: if (c) { ...; goto exit }
      Cond c = gen_cond(r, p.nv);
      unsigned t = new_block(p), e = new_block(p);
      add_edge(p, cur, t);
      add_edge(p, cur, e);
      p.bs[t].st.push_back("(assume " + cond_le(c) + ")");
      p.bs[e].st.push_back("(assume " + cond_gt(c) + ")");
      add_stmts(r, p, t, 0, 2);
      p.to_exit.push_back(t);
      cur = e;
      break;
    }
    case 10: { // error sink: if (c) { assert(..); stop }
      Cond c = gen_cond(r, p.nv);
      unsigned t = new_block(p), e = new_block(p);
      add_edge(p, cur, t);
      add_edge(p, cur, e);
      p.bs[t].st.push_back("(assume " + cond_le(c) + ")");
      p.bs[e].st.push_back("(assume " + cond_gt(c) + ")");
      p.bs[t].st.push_back("(assert " + gen_cst(r, p.nv) + ")");
      cur = e;
      break;
    }
    default: { // chain through a fresh block
      unsigned t = new_block(p);
      add_edge(p, cur, t);
      add_stmts(r, p, t, 0, 2);
      cur = t;
      break;
    }
    }
  }
  return cur;
}

void ensure_assert(Rng &r, GProg &p) {
  bool has = false;
  for (auto &b : p.bs)
    for (auto &s : b.st)
      if (s.compare(0, 7, "(assert") == 0) has = true;
  unsigned extra = has ? r.below(2) : 1 + r.below(2);
  for (unsigned i = 0; i < extra; i++) {
    auto &st = p.bs[r.below(p.bs.size())].st;
    // never in front of a leading assume (keeps the branch conditions first)
    unsigned lo = 0;
    while (lo < st.size() && st[lo].compare(0, 7, "(assume") == 0) lo++;
    st.insert(st.begin() + r.range(lo, st.size()), "(assert " + gen_cst(r, p.nv) + ")");
  }
}

GProg gen_structured(Rng &r, bool thorough) {
  GProg p;
  p.nv = 2 + r.below(thorough ? 4 : 3);
  p.maxb = 4 + r.below(thorough ? 11 : 8);
  new_block(p);
  if (r.coin()) add_stmts(r, p, 0, 1, 3);
  unsigned last = region(r, p, 0, 0);
  if (r.below(4) != 0) add_stmts(r, p, last, 1, 3);
  if (r.below(10) != 0) {
    if (r.below(3) == 0) { // separate exit block
      unsigned x = new_block(p);
      add_edge(p, last, x);
      last = x;
    }
    p.exit = (int)last;
    for (unsigned b : p.to_exit) add_edge(p, b, last);
  }
  // a few arbitrary extra edges (gotos, irreducible loops)
  if (r.below(8) == 0) {
    unsigned k = 1 + r.below(2);
    for (unsigned i = 0; i < k; i++) {
      unsigned a = r.below(p.bs.size()), b = r.below(p.bs.size());
      if ((int)a != p.exit) add_edge(p, a, b);
    }
  }
  return p;
}

GProg gen_graph(Rng &r, bool thorough) {
  GProg p;
  p.nv = 2 + r.below(thorough ? 4 : 3);
  unsigned n = 1 + r.below(thorough ? 12 : 8);
  p.bs.resize(n);
  for (unsigned b = 0; b + 1 < n; b++)
    if (r.below(6) != 0) add_edge(p, b, b + 1);
  unsigned extra = r.below(n + 1);
  for (unsigned i = 0; i < extra; i++) {
    unsigned a = r.below(n), b = r.below(n);
    switch (r.below(6)) {
    case 0: add_edge(p, a, a); break;
    case 1: if (b <= a) add_edge(p, a, b); else add_edge(p, b, a); break;
    case 2: if (a + 2 < n) add_edge(p, a, a + 2); break;
    default: add_edge(p, a, b); break;
    }
  }
  p.entry = (r.below(8) == 0) ? r.below(n) : 0;
  if (r.below(10) != 0) {
    p.exit = (r.below(4) == 0) ? (int)r.below(n) : (int)(n - 1);
    if (r.below(16) != 0) p.bs[p.exit].succ.clear();
  }
  for (unsigned b = 0; b < n; b++) add_stmts(r, p, b, 0, 3);
  for (unsigned b = 0; b < n; b++) {
    if (p.bs[b].succ.size() >= 2 && r.below(4) != 0) {
      Cond c = gen_cond(r, p.nv);
      unsigned s0 = p.bs[b].succ[0], s1 = p.bs[b].succ[1];
      if (s0 != b) p.bs[s0].st.insert(p.bs[s0].st.begin(), "(assume " + cond_le(c) + ")");
      if (s1 != b && s1 != s0) p.bs[s1].st.insert(p.bs[s1].st.begin(), "(assume " + cond_gt(c) + ")");
    }
  }
  return p;
}

std::string prog_text(const GProg &p) {
  std::ostringstream o;
  o << "(prog " << p.nv << " " << lab(p.entry) << " " << (p.exit < 0 ? std::string("none") : lab(p.exit)) << " ";
  if (p.fd) {
    o << "(fd (in";
    for (unsigned v : p.ins) o << " " << V(v);
    o << ") (out";
    for (unsigned v : p.outs) o << " " << V(v);
    o << "))";
  } else
    o << "nofd";
  for (unsigned b = 0; b < p.bs.size(); b++) {
    o << " (blk " << lab(b) << " (st";
    for (auto &s : p.bs[b].st) o << " " << s;
    o << ") (succ";
    for (unsigned t : p.bs[b].succ) o << " " << lab(t);
    o << "))";
  }
  o << ")";
  return o.str();
}

std::string gen(Rng &r, const Args &a) {
  bool thorough = a.tier == "thorough";
  GProg p = r.below(5) == 0 ? gen_graph(r, thorough) : gen_structured(r, thorough);
  ensure_assert(r, p);
  if (r.below(3) == 0) {
    p.fd = true;
    unsigned no = 1 + r.below(2);
    for (unsigned i = 0; i < no && i < p.nv; i++) p.outs.push_back(p.nv - 1 - i);
    for (unsigned i = 0; i + no < p.nv; i++)
      if (r.coin()) p.ins.push_back(i);
  }
  return "(crawl.run " + prog_text(p) + ")";
}

} // namespace

int main(int argc, char **argv) { return run_harness(argc, argv, gen, eval); }
