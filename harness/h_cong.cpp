// Harness for component `cg`: ikos::congruence<z_number>
// (include/crab/domains/congruence.hpp, congruence_impl.hpp, lib/congruence.cpp) of the current tree.
//
// The (a,b) constructor of congruence is private, so operands are *expressions* over the
// public API, carried by the request line (replays are exact):
//   E ::= top | bot | (c n) | (join E E) | (meet E E) | (neg E) | (add E E) | (sub E E)
//       | (mul E E) | (div E E) | (shl E E)
// Lines:
//   (cg.<binop> E1 E2) => V1 V2 R        R, Vi ::= bot | (cg a b) | err
//   (cg.<unop> E1)     => V1 R
//   (cg.leq E1 E2)     => V1 V2 0|1|err
// If an operand expression itself raises CRAB_ERROR the whole answer is `experr`.
//
// Component `ic`: crab::domains::interval_congruence<z_number> (interval_congruence.hpp):
//   (ic.mk I E)            => C P        C = value of E, P = (ic I' C') the reduced pair built by
//                                        interval_congruence(interval&&, congruence&&)
//   (ic.<op> I1 E1 I2 E2)  => P1 P2 R    operands are the reduced pairs, R = P1 op P2 | err
#include "common.hpp"
#include <crab/domains/congruence.hpp>
#include <crab/domains/interval_congruence.hpp>
using namespace vh;
using cong_t = ikos::congruence<z_number>;
using ic_t = crab::domains::interval_congruence<z_number>;

static std::string cgs(const cong_t &c) {
  if (c.is_bottom()) {
    // the hidden fields of bottom are always (1,0); make a deviation visible
    if (c.get_modulo() == z_number(1) && c.get_remainder() == z_number(0)) return "bot";
    return "(botx " + zs(c.get_modulo()) + " " + zs(c.get_remainder()) + ")";
  }
  return "(cg " + zs(c.get_modulo()) + " " + zs(c.get_remainder()) + ")";
}

static cong_t bin(const std::string &op, const cong_t &a, const cong_t &b) {
  if (op == "join") return a | b;
  if (op == "meet") return a & b;
  if (op == "widen") return a || b;
  if (op == "narrow") return a && b;
  if (op == "add") return a + b;
  if (op == "sub") return a - b;
  if (op == "mul") return a * b;
  if (op == "div") return a / b;
  if (op == "sdiv") return a.SDiv(b);
  if (op == "srem") return a.SRem(b);
  if (op == "rem") return a % b;
  if (op == "udiv") return a.UDiv(b);
  if (op == "urem") return a.URem(b);
  if (op == "and") return a.And(b);
  if (op == "or") return a.Or(b);
  if (op == "xor") return a.Xor(b);
  if (op == "shl") return a.Shl(b);
  if (op == "ashr") return a.AShr(b);
  if (op == "lshr") return a.LShr(b);
  throw std::runtime_error("unknown binop " + op);
}

static cong_t ev(const Sx &e) {
  if (e.is_atom) {
    if (e.a == "top") return cong_t::top();
    if (e.a == "bot") return cong_t::bottom();
    if (e.a == "dflt") return cong_t();
    throw std::runtime_error("bad atom " + e.a);
  }
  const std::string &h = e[0].a;
  if (h == "c") return cong_t(z_number(e[1].a));
  if (h == "neg") return -ev(e[1]);
  return bin(h, ev(e[1]), ev(e[2]));
}

static std::string bstr(bool b) { return b ? "1" : "0"; }

static const std::vector<std::string> BIN = {
    "join", "meet", "widen", "narrow", "add", "sub", "mul", "div", "srem", "udiv", "urem",
    "and", "or", "xor", "shl", "ashr", "lshr"};

static std::string ics(const ic_t &p) { return "(ic " + ivs(p.first()) + " " + cgs(p.second()) + ")"; }

static ic_t icbin(const std::string &op, const ic_t &a, const ic_t &b) {
  if (op == "join") return a | b;
  if (op == "meet") return a & b;
  if (op == "add") return a + b;
  if (op == "sub") return a - b;
  if (op == "mul") return a * b;
  if (op == "div") return a / b;
  if (op == "sdiv") return a.SDiv(b);
  if (op == "srem") return a.SRem(b);
  if (op == "udiv") return a.UDiv(b);
  if (op == "urem") return a.URem(b);
  if (op == "and") return a.And(b);
  if (op == "or") return a.Or(b);
  if (op == "xor") return a.Xor(b);
  if (op == "shl") return a.Shl(b);
  if (op == "ashr") return a.AShr(b);
  if (op == "lshr") return a.LShr(b);
  throw std::runtime_error("unknown ic binop " + op);
}

static std::string eval_ic(const std::string &op, const Sx &q) {
  if (op == "mk") {
    cong_t c = cong_t::top();
    try { c = ev(q[2]); } catch (const crab::verif_error &) { return "experr"; }
    std::string pre = cgs(c) + " ";
    return pre + guarded([&]() { return ics(ic_t(parse_interval(q[1]), std::move(c))); });
  }
  ic_t a = ic_t::top(), b = ic_t::top();
  try {
    a = ic_t(parse_interval(q[1]), ev(q[2]));
    b = ic_t(parse_interval(q[3]), ev(q[4]));
  } catch (const crab::verif_error &) {
    return "experr";
  }
  std::string pre = ics(a) + " " + ics(b) + " ";
  return pre + guarded([&]() { return ics(icbin(op, a, b)); });
}

static std::string eval(const Sx &q) {
  if (q[0].a.rfind("ic.", 0) == 0) return eval_ic(q[0].a.substr(3), q);
  const std::string op = q[0].a.substr(3);
  bool unary = (op == "neg" || op == "isbot" || op == "istop" || op == "singleton" || op == "val");
  cong_t a = cong_t::top(), b = cong_t::top();
  try {
    a = ev(q[1]);
    if (!unary) b = ev(q[2]);
  } catch (const crab::verif_error &) {
    return "experr";
  }
  std::string pre = cgs(a) + " " + (unary ? "" : cgs(b) + " ");
  std::string r = guarded([&]() -> std::string {
    if (op == "val") return cgs(a);
    if (op == "neg") return cgs(-a);
    if (op == "isbot") return bstr(a.is_bottom());
    if (op == "istop") return bstr(a.is_top());
    if (op == "singleton") { auto s = a.singleton(); return s ? zs(*s) : "none"; }
    if (op == "leq") return bstr(a <= b);
    if (op == "eq") return bstr(a == b);
    return cgs(bin(op, a, b));
  });
  return pre + r;
}

// ---- generators ----
static z_number gen_modulus(Rng &r) {
  switch (r.below(16)) {
  case 0: return zpow2(32);
  case 1: return zpow2(64);
  case 2: return zpow2(63) + z_number((int64_t)r.range(-1, 1));
  case 3: return z_number((int64_t)r.range(13, 1000));
  default: return z_number((int64_t)r.range(0, 12));
  }
}
static z_number gen_residue(Rng &r) {
  switch (r.below(12)) {
  case 0: return gen_z(r);
  case 1: return z_number((int64_t)r.range(-40, 40));
  default: return z_number((int64_t)r.range(-13, 13));
  }
}
static std::string cst(const z_number &n) { return "(c " + zs(n) + ")"; }

// expression denoting (|a|)Z + tmod(b,|a|)  (or the constant b when a = 0)
static std::string gen_ab(Rng &r) {
  z_number a = gen_modulus(r), b = gen_residue(r);
  if (a == z_number(0)) return cst(b);
  // the join keeps min(b, b') as representative: choose the side of the second point
  if (r.coin()) return "(join " + cst(b) + " " + cst(b + a) + ")";
  return "(join " + cst(b) + " " + cst(b - a) + ")";
}

static std::string gen_expr(Rng &r, int depth) {
  unsigned k = r.below(depth <= 0 ? 14 : 20);
  if (k == 0) return "bot";
  if (k == 1) return "top";
  if (k <= 5) return cst(gen_residue(r));
  if (k <= 13) return gen_ab(r);
  // compound values (reach negative moduli through division, shifted moduli, products)
  switch (r.below(9)) {
  case 0: return "(neg " + gen_expr(r, depth - 1) + ")";
  case 1: return "(add " + gen_expr(r, depth - 1) + " " + gen_expr(r, depth - 1) + ")";
  case 2: return "(sub " + gen_expr(r, depth - 1) + " " + gen_expr(r, depth - 1) + ")";
  case 3: return "(mul " + gen_expr(r, depth - 1) + " " + gen_expr(r, depth - 1) + ")";
  case 4: return "(div " + gen_ab(r) + " " + cst(z_number((int64_t)r.range(-6, 6))) + ")";
  case 5: return "(shl " + gen_expr(r, depth - 1) + " " + cst(z_number((int64_t)r.range(0, 5))) + ")";
  case 6: return "(meet " + gen_ab(r) + " " + gen_ab(r) + ")";
  case 7: return "(join " + gen_expr(r, depth - 1) + " " + gen_expr(r, depth - 1) + ")";
  default: return "(mul " + gen_ab(r) + " " + cst(z_number((int64_t)r.range(-4, 4))) + ")";
  }
}

static const std::vector<std::string> ICBIN = {"join", "meet", "add", "sub", "mul", "div", "srem", "udiv",
                                               "urem", "and", "or", "xor", "shl", "ashr", "lshr"};

static std::string gen_ic(Rng &r) {
  bool small = r.coin(3, 4);
  std::string i1 = ivs(gen_interval(r, small)), e1 = gen_expr(r, 1);
  if (r.below(3) != 0) return "(ic.mk " + i1 + " " + e1 + ")";
  std::string i2 = ivs(gen_interval(r, small)), e2 = gen_expr(r, 1);
  std::string op = r.pick(ICBIN);
  if (op == "shl" || op == "ashr" || op == "lshr") {
    // small shift amounts only (2^amount is computed)
    int64_t k = r.range(-1, 9);
    i2 = ivs(z_interval(z_number(k)));
    e2 = r.coin() ? "top" : cst(z_number(k));
  }
  return "(ic." + op + " " + i1 + " " + e1 + " " + i2 + " " + e2 + ")";
}

static std::string gen(Rng &r, const Args &) {
  unsigned k = r.below(24);
  if (r.below(5) == 0) return gen_ic(r);
  std::string a = gen_expr(r, 2);
  if (k == 0) {
    static const std::vector<std::string> U = {"neg", "isbot", "istop", "singleton", "val"};
    return "(cg." + r.pick(U) + " " + a + ")";
  }
  if (k == 1) return "(cg.neg " + a + ")";
  std::string b = gen_expr(r, 2);
  if (k <= 4) return "(cg." + std::string(r.below(4) == 0 ? "eq" : "leq") + " " + a + " " + (r.below(5) == 0 ? a : b) + ")";
  std::string op = r.pick(BIN);
  if (op == "shl" || op == "ashr" || op == "lshr") {
    // shift amounts are kept small (the code computes 2^amount, also for the modulus of a class):
    // constants -1..9 (sometimes up to 70), classes with small modulus (incl. negative residues)
    unsigned s = r.below(8);
    if (s <= 3) b = cst(z_number((int64_t)r.range(-1, r.below(8) == 0 ? 70 : 9)));
    else if (s <= 5) {
      int64_t m = r.range(1, 6), q = r.range(-5, 5);
      b = "(join " + cst(z_number(q)) + " " + cst(z_number(q + m)) + ")";
    } else if (s == 6) b = r.coin() ? "top" : "bot";
    else b = "(div (join (c 0) (c 6)) " + cst(z_number((int64_t)r.range(-3, -1))) + ")";
  }
  if ((op == "div" || op == "srem") && r.below(3) == 0) b = cst(z_number((int64_t)r.range(-6, 6)));
  return "(cg." + op + " " + a + " " + b + ")";
}

int main(int argc, char **argv) { return run_harness(argc, argv, gen, eval); }
