// Harness for components `xf` (CFG transformations: cfg::simplify, dead_code_elimination,
// lower_safe_assertions) and `live` (liveness_analysis / live_and_dead_analysis).
//
// Requests (program text: see tprog.hpp):
//   (xf.simplify PROG) (xf.dce PROG) (xf.lower PROG)
//        => (orig PROG) (res PROG | err) (order b..) (safe (b k)..)
//      orig = the program read back from the real CFG that was built from the request,
//      res  = read back from a clone to which the pass was applied (err = CRAB_ERROR),
//      order = weak_rev_topo_sort of the CFG (what killgen's run_bwd_fixpo iterates over; its
//              first element receives the live-at-exit seed), safe = assertions the interval
//              analysis + assertion checker reported safe, as (block, statement index).
//   (live.run PROG)
//        => (orig PROG) (order b..) (out (b v..)..) (dead (b v..)..)
//      out  = liveness_analysis::get(label)   (live at the END of the block)
//      dead = live_and_dead_analysis::dead_exit(label)
#include "tprog.hpp"
#include <crab/analysis/dataflow/liveness.hpp>
#include <crab/analysis/fwd_analyzer.hpp>
#include <crab/analysis/graphs/topo_order.hpp>
#include <crab/cfg/cfg_bgl.hpp>
#include <crab/checkers/assertion.hpp>
#include <crab/checkers/base_property.hpp>
#include <crab/checkers/checker.hpp>
#include <crab/domains/intervals.hpp>
#include <crab/transforms/dce.hpp>
#include <crab/transforms/lower_safe_assertions.hpp>
#include <set>

using namespace vh;
using namespace tp;

namespace {

using z_interval_domain_t = ikos::interval_domain<ikos::z_number, varname_t>;

std::string order_text(z_cfg_t &cfg) {
  z_cfg_ref_t ref(cfg);
  auto order = crab::analyzer::graph_algo::weak_rev_topo_sort(ref);
  std::string r = "(order";
  for (auto &l : order) r += " " + l;
  return r + ")";
}

template <class Set> std::string varset_text(const Set &s) {
  std::vector<unsigned> xs;
  if (!s.is_bottom() && !s.is_top())
    for (auto it = s.begin(); it != s.end(); ++it) xs.push_back(unidx(vname(*it)));
  std::sort(xs.begin(), xs.end());
  std::string r;
  for (unsigned x : xs) r += " v" + std::to_string(x);
  return (s.is_top() ? std::string(" top") : r);
}

std::vector<std::string> sorted_labels(const z_cfg_t &cfg) {
  std::vector<std::pair<unsigned, std::string>> labs;
  for (auto it = cfg.label_begin(); it != cfg.label_end(); ++it) labs.push_back({unidx(*it), *it});
  std::sort(labs.begin(), labs.end());
  std::vector<std::string> r;
  for (auto &l : labs) r.push_back(l.second);
  return r;
}

std::string eval(const Sx &q) {
  const std::string &op = q[0].a;
  Built B = build(q[1]);
  std::ostringstream o;
  o << "(orig " << dump(*B.cfg, B.nv) << ")";
  if (op == "live.run") {
    o << " " << order_text(*B.cfg);
    z_cfg_ref_t ref(*B.cfg);
    crab::analyzer::live_and_dead_analysis<z_cfg_ref_t> ld(ref);
    ld.exec();
    auto labs = sorted_labels(*B.cfg);
    o << " (out";
    for (auto &l : labs) o << " (" << l << varset_text(ld.get(l)) << ")";
    o << ") (dead";
    for (auto &l : labs) o << " (" << l << varset_text(ld.dead_exit(l)) << ")";
    o << ")";
    return o.str();
  }
  std::unique_ptr<z_cfg_t> T(B.cfg->clone());
  std::string order = order_text(*T), safe = "(safe";
  std::string res;
  try {
    if (op == "xf.simplify") {
      T->simplify();
    } else if (op == "xf.dce") {
      crab::transforms::dead_code_elimination<z_cfg_ref_t> d;
      z_cfg_ref_t r(*T);
      d.run(r);
    } else if (op == "xf.lower") {
      using analyzer_t = crab::analyzer::intra_fwd_analyzer<z_cfg_ref_t, z_interval_domain_t>;
      using checker_t = crab::checker::intra_checker<analyzer_t>;
      using assert_checker_t = crab::checker::assert_property_checker<analyzer_t>;
      z_cfg_ref_t r(*T);
      z_interval_domain_t init;
      crab::fixpoint_parameters params;
      analyzer_t a(r, init, nullptr, params);
      a.run(init.make_top());
      typename checker_t::prop_checker_ptr prop(new assert_checker_t(0));
      checker_t checker(a, {prop});
      checker.run();
      std::set<const z_cfg_ref_t::statement_t *> safe_checks;
      safe_checks.insert(prop->get_safe_checks().begin(), prop->get_safe_checks().end());
      for (auto &l : sorted_labels(*T)) {
        unsigned k = 0;
        for (auto const &s : T->get_node(l)) {
          if (safe_checks.count(&s)) safe += " (" + l + " " + std::to_string(k) + ")";
          k++;
        }
      }
      crab::transforms::lower_safe_assertions<z_cfg_ref_t> lsa(safe_checks);
      lsa.run(r);
    } else
      return "badop";
    res = dump(*T, B.nv);
  } catch (const crab::verif_error &) {
    res = "err";
  }
  o << " (res " << res << ") " << order << " " << safe << ")";
  return o.str();
}

// ---------------------------------------------------------------------------------------
// generator
// ---------------------------------------------------------------------------------------
struct GBlock {
  std::vector<std::string> st;
  std::vector<unsigned> succ;
};

struct GProg {
  unsigned nv = 3;
  unsigned entry = 0;
  int exit = -1;
  bool fd = false;
  std::vector<unsigned> ins, outs;
  std::vector<GBlock> bs;
};

std::string V(unsigned i) { return "v" + std::to_string(i); }

std::string gen_lin(Rng &r, unsigned nv, int maxterms = 2) {
  std::ostringstream o;
  o << "(lin " << r.range(-4, 6);
  unsigned k = r.below(maxterms + 1);
  std::vector<unsigned> used;
  for (unsigned i = 0; i < k; i++) {
    unsigned v = r.below(nv);
    if (std::find(used.begin(), used.end(), v) != used.end()) continue;
    used.push_back(v);
  }
  std::sort(used.begin(), used.end());
  for (unsigned v : used) {
    int64_t c = r.below(3) == 0 ? r.range(-3, 3) : (r.coin() ? 1 : -1);
    if (c == 0) c = 1;
    o << " (" << c << " " << V(v) << ")";
  }
  o << ")";
  return o.str();
}

// constraint over one or two variables (always mentions at least one variable)
std::string gen_cst(Rng &r, unsigned nv) {
  static const char *ks[] = {"le", "le", "le", "lt", "ne", "eq"};
  std::ostringstream o;
  unsigned x = r.below(nv);
  o << "(" << ks[r.below(r.below(3) == 0 ? 6 : 5)] << " (lin " << r.range(-6, 6);
  if (r.below(3) == 0 && nv > 1) {
    unsigned y = r.below(nv);
    if (y == x) y = (x + 1) % nv;
    unsigned a = std::min(x, y), b = std::max(x, y);
    o << " (" << (r.coin() ? 1 : -1) << " " << V(a) << ") (" << (r.coin() ? 1 : -1) << " " << V(b) << ")";
  } else
    o << " (" << (r.coin() ? 1 : -1) << " " << V(x) << ")";
  o << "))";
  return o.str();
}

std::string gen_stmt(Rng &r, unsigned nv, bool allow_unreach) {
  unsigned x = r.below(nv);
  switch (r.below(allow_unreach ? 23 : 20)) {
  case 0: case 1: case 2: case 3: case 4:
    return "(assign " + V(x) + " " + gen_lin(r, nv) + ")";
  case 5: case 6: case 7: case 8: {
    static const char *ops[] = {"add", "add", "sub", "mul", "sdiv"};
    std::string op = ops[r.below(5)];
    std::string b;
    if (r.coin()) b = V(r.below(nv));
    else {
      int64_t c = r.range(-3, 4);
      if (op == std::string("sdiv") && c == 0 && r.below(4) != 0) c = 2;
      b = std::to_string(c);
    }
    return "(bin " + op + " " + V(x) + " " + V(r.below(nv)) + " " + b + ")";
  }
  case 9: case 10: return "(havoc " + V(x) + ")";
  case 11: case 12: return "(assume " + gen_cst(r, nv) + ")";
  case 13: case 14: return "(assert " + gen_cst(r, nv) + ")";
  case 15: case 16: return "(assign " + V(x) + " " + gen_lin(r, nv, 1) + ")";
  case 17: case 18: case 19: return "(select " + V(x) + " " + gen_cst(r, nv) + " " + gen_lin(r, nv, 1) + " " + gen_lin(r, nv, 1) + ")";
  default: return "(unreachable)";
  }
}

// a definition followed by an assertion the interval analysis can prove (material for
// lower_safe_assertions): x = c; ...; assert(x <= c + d)  /  assert(x >= c - d)
void add_provable(Rng &r, GProg &p, unsigned b) {
  unsigned x = r.below(p.nv);
  int64_t c = r.range(-4, 6), d = r.range(0, 2);
  auto &st = p.bs[b].st;
  st.push_back("(assign " + V(x) + " (lin " + std::to_string(c) + "))");
  if (r.coin()) st.push_back("(bin add " + V(x) + " " + V(x) + " 1)"), c++;
  if (r.coin())
    st.push_back("(assert (le (lin " + std::to_string(-(c + d)) + " (1 " + V(x) + "))))"); // x <= c+d
  else
    st.push_back("(assert (le (lin " + std::to_string(c - d) + " (-1 " + V(x) + "))))"); // x >= c-d
}

void add_edge(GProg &p, unsigned a, unsigned b) {
  auto &s = p.bs[a].succ;
  if (std::find(s.begin(), s.end(), b) == s.end()) s.push_back(b);
}

GProg gen_prog(Rng &r, bool thorough, bool for_lower) {
  GProg p;
  p.nv = 2 + r.below(thorough ? 4 : 3);
  unsigned n = 1 + r.below(thorough ? 14 : 10);
  p.bs.resize(n);
  // skeleton: a spine 0 -> 1 -> ... with shape-dependent extra edges
  unsigned shape = r.below(8);
  for (unsigned b = 0; b + 1 < n; b++) {
    switch (shape) {
    case 0: add_edge(p, b, b + 1); break;                               // pure chain (merged by simplify)
    case 1: if (r.below(5) != 0) add_edge(p, b, b + 1); break;          // chain with gaps: unreachable tails
    default:
      if (r.below(6) != 0) add_edge(p, b, b + 1);
      break;
    }
  }
  if (shape >= 2) {
    unsigned extra = r.below(n + 1);
    for (unsigned i = 0; i < extra; i++) {
      unsigned a = r.below(n), b = r.below(n);
      switch (r.below(6)) {
      case 0: add_edge(p, a, a); break;                                  // self loop
      case 1: if (b <= a) add_edge(p, a, b); else add_edge(p, b, a); break; // back edge
      case 2: if (a + 2 < n) { add_edge(p, a, a + 2); } break;           // diamond / skip
      default: add_edge(p, a, b); break;
      }
    }
  }
  p.entry = (r.below(8) == 0) ? r.below(n) : 0;
  // exit: usually the last block / a sink; sometimes none; the exit gets no successors
  // except in a small edge stream (the driver then only compares with the model)
  if (r.below(10) != 0) {
    p.exit = (r.below(4) == 0) ? (int)r.below(n) : (int)(n - 1);
    if (r.below(16) != 0) p.bs[p.exit].succ.clear();
  }
  // most programs: make sure the exit can be reached from the entry (otherwise there is no
  // exit-reaching execution to compare)
  if (p.exit >= 0 && r.below(5) != 0) {
    std::vector<bool> seen(n, false);
    std::vector<unsigned> reach{p.entry};
    seen[p.entry] = true;
    for (size_t i = 0; i < reach.size(); i++)
      for (unsigned t : p.bs[reach[i]].succ)
        if (!seen[t]) { seen[t] = true; reach.push_back(t); }
    if (!seen[p.exit]) {
      unsigned from = reach[r.below(reach.size())];
      add_edge(p, from, (unsigned)p.exit);
    }
  }
  if (r.below(3) != 0) {
    p.fd = true;
    unsigned no = 1 + r.below(2);
    for (unsigned i = 0; i < no && i < p.nv; i++) p.outs.push_back(p.nv - 1 - i);
    for (unsigned i = 0; i + no < p.nv; i++)
      if (r.coin()) p.ins.push_back(i);
  }
  // statements; branches get complementary-looking assumes on the successors
  for (unsigned b = 0; b < n; b++) {
    unsigned k = r.below(5);
    if (r.below(8) == 0) k = 0;
    bool allow_unreach = r.below(6) == 0;
    for (unsigned i = 0; i < k; i++) p.bs[b].st.push_back(gen_stmt(r, p.nv, allow_unreach));
    if (for_lower && r.below(3) == 0) add_provable(r, p, b);
  }
  for (unsigned b = 0; b < n; b++) {
    if (p.bs[b].succ.size() >= 2 && r.below(3) != 0) {
      // guard the first two successors by c / not c when they have a single predecessor
      unsigned x = r.below(p.nv);
      int64_t c = r.range(-3, 5);
      unsigned s0 = p.bs[b].succ[0], s1 = p.bs[b].succ[1];
      std::string le = "(assume (le (lin " + std::to_string(-c) + " (1 " + V(x) + "))))";     // x <= c
      std::string gt = "(assume (le (lin " + std::to_string(c + 1) + " (-1 " + V(x) + "))))"; // x >= c+1
      if (s0 != b) p.bs[s0].st.insert(p.bs[s0].st.begin(), le);
      if (s1 != b && s1 != s0) p.bs[s1].st.insert(p.bs[s1].st.begin(), gt);
    }
  }
  // make outputs defined somewhere late (so that DCE has live and dead definitions)
  if (p.fd && p.exit >= 0)
    for (unsigned o : p.outs)
      if (r.coin()) p.bs[p.exit].st.push_back("(assign " + V(o) + " " + gen_lin(r, p.nv) + ")");
  return p;
}

std::string prog_text(const GProg &p) {
  std::ostringstream o;
  o << "(prog " << p.nv << " " << lab(p.entry) << " " << (p.exit < 0 ? std::string("none") : lab(p.exit)) << " ";
  if (p.fd) {
    o << "(fd (in";
    for (unsigned v : p.ins) o << " " << V(v);
    o << ") (out";
    for (unsigned v : p.outs) o << " " << V(v);
    o << "))";
  } else
    o << "nofd";
  for (unsigned b = 0; b < p.bs.size(); b++) {
    o << " (blk " << lab(b) << " (st";
    for (auto &s : p.bs[b].st) o << " " << s;
    o << ") (succ";
    for (unsigned t : p.bs[b].succ) o << " " << lab(t);
    o << "))";
  }
  o << ")";
  return o.str();
}

std::string gen(Rng &r, const Args &a) {
  static const char *ops[] = {"xf.simplify", "xf.simplify", "xf.simplify", "xf.dce", "xf.dce", "xf.dce", "xf.lower", "live.run", "live.run", "live.run"};
  std::string op = ops[r.below(10)];
  GProg p = gen_prog(r, a.tier == "thorough", op == "xf.lower");
  return "(" + op + " " + prog_text(p) + ")";
}

} // namespace

int main(int argc, char **argv) { return run_harness(argc, argv, gen, eval); }
