// Generic history harness (mechanism R): drives ONE shipped abstract domain (selected at
// compile time with -DVDOM=<id>) through an operation history over a pool of abstract values
// and exports, after every operation, everything the domain says about the modified value.
// The Lean driver replays the history on concrete witness states and checks every export.
//
// request : (dom.hist <name> (ops <op> ...))
//   <op> ::= (top d) | (bot d) | (copy d s) | (assign d x <lin>) | (arith d <aop> x y <z>)
//          | (bitw d <bop> x y <z>) | (assume d <cst>...) | (forget d x...) | (project d x...)
//          | (rename d (x...) (y...)) | (expand d x y) | (join d a b) | (meet d a b)
//          | (widen d a b) | (narrow d a b) | (joineq d a) | (meeteq d a) | (normalize d)
//          | (minimize d) | (select d x <cst> <lin> <lin>) | (query d)
//   <z>   ::= variable index `vK` or integer constant ; <lin> ::= (lin c (k vI) ...)
//   <cst> ::= (le <lin>) | (lt <lin>) | (eq <lin>) | (ne <lin>)        meaning  lin ⋈ 0
// result  : one item per op:
//   (s d <isbot> <istop> (iv <itv per variable>) (cs <cst>...) (oth <1 if all other slots unchanged>))
//   followed by (leq (i j b) ...) for all ordered pairs of the final pool, (self ...) flags.
#include "common.hpp"
#include "crab_lang.hpp"

#include <crab/domains/abstract_domain_params.hpp>
#include <crab/domains/array_adaptive.hpp>
#include <crab/domains/array_smashing.hpp>
#include <crab/domains/combined_congruences.hpp>
#include <crab/domains/combined_domains.hpp>
#include <crab/domains/constant_domain.hpp>
#include <crab/domains/dis_intervals.hpp>
#include <crab/domains/fixed_tvpi_domain.hpp>
#include <crab/domains/flat_boolean_domain.hpp>
#include <crab/domains/generic_abstract_domain.hpp>
#include <crab/domains/intervals.hpp>
#include <crab/domains/lookahead_widening_domain.hpp>
#include <crab/domains/powerset_domain.hpp>
#include <crab/domains/sign_constant_domain.hpp>
#include <crab/domains/sign_domain.hpp>
#include <crab/domains/sparse_dbm.hpp>
#include <crab/domains/split_dbm.hpp>
#include <crab/domains/split_oct.hpp>
#include <crab/domains/term_equiv.hpp>
#include <crab/domains/value_partitioning_domain.hpp>

#include <functional>

using namespace vh;
using namespace crab::cfg_impl;
using namespace crab::domains;
using namespace ikos;

#ifndef VDOM
#define VDOM 1
#endif

using z_interval_domain_t = interval_domain<z_number, varname_t>;
using z_dbm_graph_t = DBM_impl::DefaultParams<z_number, DBM_impl::GraphRep::adapt_ss>;
using z_dbm_graph_safe_t = DBM_impl::SafeInt64DefaultParams<z_number, DBM_impl::GraphRep::adapt_ss>;
using z_dbm_graph_big_t = DBM_impl::BigNumDefaultParams<z_number, DBM_impl::GraphRep::ss>;
using z_sdbm_domain_t = split_dbm_domain<z_number, varname_t, z_dbm_graph_t>;
using z_dis_interval_domain_t = dis_interval_domain<z_number, varname_t>;

#if VDOM == 1
using Dom = z_interval_domain_t;
#define DOMNAME "intervals"
#elif VDOM == 2
using Dom = constant_domain<z_number, varname_t>;
#define DOMNAME "constants"
#elif VDOM == 3
using Dom = sign_domain<z_number, varname_t>;
#define DOMNAME "signs"
#elif VDOM == 4
using Dom = sign_constant_domain<z_number, varname_t>;
#define DOMNAME "sign-constants"
#elif VDOM == 5
using Dom = numerical_congruence_domain<z_interval_domain_t>;
#define DOMNAME "ric"
#elif VDOM == 6
using Dom = sparse_dbm_domain<z_number, varname_t, z_dbm_graph_safe_t>;
#define DOMNAME "sparse-dbm-safe"
#elif VDOM == 7
using Dom = split_dbm_domain<z_number, varname_t, z_dbm_graph_safe_t>;
#define DOMNAME "split-dbm-safe"
#elif VDOM == 8
using Dom = split_oct_domain<z_number, varname_t, z_dbm_graph_safe_t>;
#define DOMNAME "split-oct-safe"
#elif VDOM == 9
using Dom = z_dis_interval_domain_t;
#define DOMNAME "dis-intervals"
#elif VDOM == 10
using Dom = term_domain<term::TDomInfo<z_number, varname_t, z_interval_domain_t>>;
#define DOMNAME "term-intervals"
#elif VDOM == 11
using Dom = term_domain<term::TDomInfo<z_number, varname_t, z_sdbm_domain_t>>;
#define DOMNAME "term-sdbm"
#elif VDOM == 12
using Dom = reduced_numerical_domain_product2<
    term_domain<term::TDomInfo<z_number, varname_t, z_dis_interval_domain_t>>, z_sdbm_domain_t>;
#define DOMNAME "product-term-dis-sdbm"
#elif VDOM == 13
using Dom = fixed_tvpi_domain<z_sdbm_domain_t>;
#define DOMNAME "fixed-tvpi"
#elif VDOM == 14
using Dom = flat_boolean_numerical_domain<z_interval_domain_t>;
#define DOMNAME "flat-bool-intervals"
#elif VDOM == 15
using Dom = flat_boolean_numerical_domain<sparse_dbm_domain<z_number, varname_t, z_dbm_graph_t>>;
#define DOMNAME "flat-bool-sparse-dbm"
#elif VDOM == 16
using Dom = lookahead_widening_domain<split_oct_domain<z_number, varname_t, z_dbm_graph_t>>;
#define DOMNAME "lookahead-soct"
#elif VDOM == 17
using Dom = powerset_domain<z_interval_domain_t>;
#define DOMNAME "powerset-intervals"
#elif VDOM == 18
using Dom = array_smashing<z_sdbm_domain_t>;
#define DOMNAME "array-smashing-sdbm"
#elif VDOM == 19
using Dom = array_adaptive_domain<z_interval_domain_t>;
#define DOMNAME "array-adaptive-intervals"
#elif VDOM == 20
using Dom = abstract_domain_ref<z_var>;
#define DOMNAME "generic-wrapper-sdbm"
#define WRAPPED z_sdbm_domain_t
#elif VDOM == 21
using Dom = abstract_domain_ref<z_var>;
#define DOMNAME "generic-wrapper-intervals"
#define WRAPPED z_interval_domain_t
#elif VDOM == 22
using Dom = split_dbm_domain<z_number, varname_t, z_dbm_graph_big_t>;
#define DOMNAME "split-dbm-bignum"
#elif VDOM == 23
using Dom = split_oct_domain<z_number, varname_t, z_dbm_graph_big_t>;
#define DOMNAME "split-oct-bignum"
#elif VDOM == 24
using Dom = congruence_domain<z_number, varname_t>;
#define DOMNAME "congruences"
#elif VDOM == 25
using Dom = sparse_dbm_domain<z_number, varname_t, z_dbm_graph_t>;
#define DOMNAME "sparse-dbm-int64"
#elif VDOM == 26
using Dom = z_sdbm_domain_t;
#define DOMNAME "split-dbm-int64"
#else
#error "unknown VDOM"
#endif

namespace {

const unsigned NV = 5;   // integer variables v0..v4
const unsigned NP = 4;   // pool slots

variable_factory_t *VF = nullptr;
std::vector<z_var> *VARS = nullptr;

z_var var(unsigned i) { return (*VARS)[i]; }

Dom mk_top() {
#ifdef WRAPPED
  WRAPPED w;
  return Dom(w);
#else
  Dom d;
  return d.make_top();
#endif
}

unsigned vidx(const Sx &x) { return std::stoul(x.a.substr(1)); }

z_lin_exp_t parse_lin(const Sx &x) {
  // (lin c (k vI) ...)
  z_lin_exp_t e(z_number(x[1].a));
  for (size_t i = 2; i < x.size(); i++) e = e + z_lin_exp_t(z_number(x[i][0].a), var(vidx(x[i][1])));
  return e;
}

z_lin_cst_t parse_cst(const Sx &x) {
  z_lin_exp_t e = parse_lin(x[1]);
  const std::string &k = x[0].a;
  if (k == "le") return z_lin_cst_t(e, z_lin_cst_t::INEQUALITY);
  if (k == "lt") return z_lin_cst_t(e, z_lin_cst_t::STRICT_INEQUALITY);
  if (k == "eq") return z_lin_cst_t(e, z_lin_cst_t::EQUALITY);
  return z_lin_cst_t(e, z_lin_cst_t::DISEQUATION);
}

std::string lin_str(const z_lin_exp_t &e) {
  std::ostringstream o;
  o << "(lin " << zs(e.constant());
  // sort by variable index for a canonical text
  std::vector<std::pair<unsigned, std::string>> ts;
  bool foreign = false;
  for (auto it = e.begin(); it != e.end(); ++it) {
    std::string nm = it->second.name().str();
    if (nm.size() < 2 || nm[0] != 'v' || !isdigit(nm[1])) { foreign = true; continue; }
    ts.push_back({(unsigned)std::stoul(nm.substr(1)), zs(it->first)});
  }
  std::sort(ts.begin(), ts.end());
  for (auto &t : ts) o << " (" << t.second << " v" << t.first << ")";
  o << ")";
  return foreign ? std::string("foreign") : o.str();
}

std::string cst_str(const z_lin_cst_t &c) {
  std::string l = lin_str(c.expression());
  if (l == "foreign") return "";
  const char *k = c.is_inequality() ? "le" : c.is_strict_inequality() ? "lt" : c.is_equality() ? "eq" : "ne";
  return std::string("(") + k + " " + l + ")";
}

template <class DomT> std::string dump(DomT &d, bool with_csts) {
  std::ostringstream o;
  bool b = d.is_bottom();
  o << (b ? 1 : 0) << " " << (d.is_top() ? 1 : 0) << " (iv";
  for (unsigned i = 0; i < NV; i++) o << " " << ivs(d.at(var(i)));
  o << ")";
  if (with_csts) {
    o << " (cs";
    auto sys = d.to_linear_constraint_system();
    for (auto it = sys.begin(); it != sys.end(); ++it) {
      std::string s = cst_str(*it);
      if (!s.empty()) o << " " << s;
    }
    o << ")";
  }
  return o.str();
}

crab::domains::arith_operation_t aop(const std::string &s) {
  if (s == "add") return OP_ADDITION;
  if (s == "sub") return OP_SUBTRACTION;
  if (s == "mul") return OP_MULTIPLICATION;
  if (s == "sdiv") return OP_SDIV;
  if (s == "udiv") return OP_UDIV;
  if (s == "srem") return OP_SREM;
  return OP_UREM;
}
crab::domains::bitwise_operation_t bop(const std::string &s) {
  if (s == "and") return OP_AND;
  if (s == "or") return OP_OR;
  if (s == "xor") return OP_XOR;
  if (s == "shl") return OP_SHL;
  if (s == "lshr") return OP_LSHR;
  return OP_ASHR;
}

// one operation of the history applied to a pool of values of type DomT (the shipped domain, or
// for the copy-on-write wrapper runs also the plain wrapped domain driven in lock step)
// ALT selects the other copy discipline (twin pool, C16): copies made by the other of the two mechanisms, results of
// binary operations moved instead of copied into their slot
template <class DomT, bool ALT = false> void apply_op(std::vector<DomT> &pool, const Sx &op, size_t oi) {
  const std::string &k = op[0].a;
  unsigned d = std::stoul(op[1].a);
    if (k == "top") pool[d].set_to_top();
    else if (k == "bot") pool[d].set_to_bottom();
    else if (k == "copy") {
      DomT c(pool[std::stoul(op[2].a)]);
      if ((oi % 2 == 1) != ALT) pool[d] = c;                    // copy ctor + copy assignment
      else { DomT m(std::move(c)); pool[d] = std::move(m); }     // + move ctor + move assignment
    }
    else if (k == "assign") pool[d].assign(var(vidx(op[2])), parse_lin(op[3]));
    else if (k == "arith") {
      if (op[5].a[0] == 'v') pool[d].apply(aop(op[2].a), var(vidx(op[3])), var(vidx(op[4])), var(vidx(op[5])));
      else pool[d].apply(aop(op[2].a), var(vidx(op[3])), var(vidx(op[4])), z_number(op[5].a));
    } else if (k == "bitw") {
      if (op[5].a[0] == 'v') pool[d].apply(bop(op[2].a), var(vidx(op[3])), var(vidx(op[4])), var(vidx(op[5])));
      else pool[d].apply(bop(op[2].a), var(vidx(op[3])), var(vidx(op[4])), z_number(op[5].a));
    } else if (k == "assume") {
      linear_constraint_system<z_number, varname_t> sys;
      for (size_t i = 2; i < op.size(); i++) sys += parse_cst(op[i]);
      pool[d] += sys;
    } else if (k == "forget") {
      if (op.size() == 3) pool[d] -= var(vidx(op[2]));
      else { std::vector<z_var> vs; for (size_t i = 2; i < op.size(); i++) vs.push_back(var(vidx(op[i]))); pool[d].forget(vs); }
    } else if (k == "project") {
      std::vector<z_var> vs; for (size_t i = 2; i < op.size(); i++) vs.push_back(var(vidx(op[i]))); pool[d].project(vs);
    } else if (k == "rename") {
      std::vector<z_var> f, t;
      for (size_t i = 0; i < op[2].size(); i++) f.push_back(var(vidx(op[2][i])));
      for (size_t i = 0; i < op[3].size(); i++) t.push_back(var(vidx(op[3][i])));
      pool[d].rename(f, t);
    } else if (k == "expand") pool[d].expand(var(vidx(op[2])), var(vidx(op[3])));
    else if (k == "join") { DomT r = pool[std::stoul(op[2].a)] | pool[std::stoul(op[3].a)]; if (ALT) pool[d] = std::move(r); else pool[d] = r; }
    else if (k == "meet") { DomT r = pool[std::stoul(op[2].a)] & pool[std::stoul(op[3].a)]; if (ALT) pool[d] = std::move(r); else pool[d] = r; }
    else if (k == "widen") { DomT r = pool[std::stoul(op[2].a)] || pool[std::stoul(op[3].a)]; if (ALT) pool[d] = std::move(r); else pool[d] = r; }
    else if (k == "narrow") { DomT r = pool[std::stoul(op[2].a)] && pool[std::stoul(op[3].a)]; if (ALT) pool[d] = std::move(r); else pool[d] = r; }
    else if (k == "joineq") pool[d] |= pool[std::stoul(op[2].a)];
    else if (k == "meeteq") pool[d] &= pool[std::stoul(op[2].a)];
    else if (k == "normalize") pool[d].normalize();
    else if (k == "minimize") pool[d].minimize();
    else if (k == "select") pool[d].select(var(vidx(op[2])), parse_cst(op[3]), parse_lin(op[4]), parse_lin(op[5]));
    else if (k == "query") { (void)pool[d][var(0)]; }
}

std::string eval(const Sx &q) {
  variable_factory_t vf;
  VF = &vf;
  std::vector<z_var> vars;
  for (unsigned i = 0; i < NV; i++) vars.push_back(z_var(vf["v" + std::to_string(i)], crab::INT_TYPE, 32));
  VARS = &vars;
  std::vector<Dom> pool;
  for (unsigned i = 0; i < NP; i++) pool.push_back(mk_top());
#ifdef WRAPPED
  std::vector<WRAPPED> plain;
  for (unsigned i = 0; i < NP; i++) { WRAPPED w; plain.push_back(w.make_top()); }
#endif
  // twin pool (C16): the same history with the other copy discipline must give identical dumps
  std::vector<Dom> twin;
  for (unsigned i = 0; i < NP; i++) twin.push_back(mk_top());
  const Sx &ops = q[2];
  std::ostringstream out;
  for (size_t oi = 1; oi < ops.size(); oi++) {
    const Sx &op = ops[oi];
    const std::string &k = op[0].a;
    unsigned d = std::stoul(op[1].a);
    // dumps of the other slots before (value semantics, C16)
    std::vector<std::string> before(NP);
    for (unsigned i = 0; i < NP; i++)
      if (i != d) before[i] = dump(pool[i], true);
    apply_op(pool, op, oi);
#ifdef WRAPPED
    // representation independence (C16): the wrapper and the plain domain driven by the same
    // history must give identical dumps
    apply_op(plain, op, oi);
    bool wr_same = dump(pool[d], true) == dump(plain[d], true);
#else
    bool wr_same = true;
#endif
    apply_op<Dom, true>(twin, op, oi);
    if (dump(pool[d], true) != dump(twin[d], true)) wr_same = false;
    bool same = true;
    for (unsigned i = 0; i < NP; i++)
      if (i != d && before[i] != dump(pool[i], true)) same = false;
    out << "(s " << d << " " << dump(pool[d], true) << " (oth " << ((same && wr_same) ? 1 : 0) << ")) ";
  }
  out << "(leq";
  for (unsigned i = 0; i < NP; i++)
    for (unsigned j = 0; j < NP; j++) out << " (" << i << " " << j << " " << ((pool[i] <= pool[j]) ? 1 : 0) << ")";
  out << ") (lat";
  for (unsigned i = 0; i < NP; i++) {
    Dom b = pool[i].make_bottom(), t = pool[i].make_top();
    out << " (" << ((b <= pool[i]) ? 1 : 0) << " " << ((pool[i] <= t) ? 1 : 0) << " " << (b.is_bottom() ? 1 : 0) << " " << (t.is_top() ? 1 : 0) << ")";
  }
  out << ")";
  return out.str();
}

// ---------------------------------------------------------------- generator
z_number gen_coef(Rng &r) {
  switch (r.below(8)) {
  case 0: return z_number(0);
  case 1: case 2: case 3: return z_number(1);
  case 4: case 5: return z_number(-1);
  case 6: return z_number((int64_t)r.range(-4, 4));
  default: return z_number((int64_t)r.range(-50, 50));
  }
}
std::string gen_const(Rng &r, bool big_ok) {
  switch (r.below(10)) {
  case 0: return "0";
  case 1: return "1";
  case 2: return "-1";
  case 3: case 4: case 5: case 6: return std::to_string(r.range(-10, 10));
  case 7: return std::to_string(r.range(-1000, 1000));
  case 8: return big_ok ? zs(gen_z(r)) : std::to_string(r.range(-100000, 100000));
  default: return std::to_string(r.range(-40, 40));
  }
}
std::string gen_lin(Rng &r, bool big_ok, unsigned maxterms = 3) {
  std::string s = "(lin " + gen_const(r, big_ok);
  unsigned k = r.below(maxterms + 1);
  std::vector<bool> used(NV, false);
  for (unsigned i = 0; i < k; i++) {
    unsigned v = r.below(NV);
    if (used[v]) continue;
    used[v] = true;
    s += " (" + zs(gen_coef(r)) + " v" + std::to_string(v) + ")";
  }
  return s + ")";
}
// in-language (interval/zone/octagon) constraints mostly, general ones sometimes
std::string gen_cst(Rng &r, bool big_ok) {
  static const char *K[] = {"le", "le", "le", "lt", "eq", "ne"};
  std::string k = K[r.below(6)];
  unsigned shape = r.below(6);
  if (shape <= 1) { // ±x ⋈ c   (sometimes k*x ⋈ c with a non-unit coefficient: inexact quotients)
    std::string coef = r.coin() ? "1" : "-1";
    if (r.below(4) == 0) { z_number c = gen_coef(r); if (!(c == 0)) coef = zs(c); }
    return "(" + k + " (lin " + gen_const(r, big_ok) + " (" + coef + " v" + std::to_string(r.below(NV)) + ")))";
  } else if (shape <= 3) { // x - y ⋈ c  /  ±x ± y ⋈ c
    unsigned a = r.below(NV), b = r.below(NV);
    if (a == b) b = (a + 1) % NV;
    bool oct = shape == 3 && r.coin();
    return "(" + k + " (lin " + gen_const(r, big_ok) + " (" + (oct && r.coin() ? "-1" : "1") + " v" + std::to_string(a) + ") (" + (oct ? "1" : "-1") + " v" + std::to_string(b) + ")))";
  }
  return "(" + k + " " + gen_lin(r, big_ok) + ")";
}

std::string gen(Rng &r, const Args &a) {
  bool thorough = a.tier == "thorough";
  bool big_ok = (VDOM != 25 && VDOM != 26 && VDOM != 15 && VDOM != 16 && VDOM != 11 && VDOM != 12 && VDOM != 13 && VDOM != 18 && VDOM != 20);
  unsigned len = 6 + r.below(thorough ? 60 : 28);
  std::ostringstream o;
  o << "(dom.hist " << DOMNAME << " (ops";
  static const char *AOP[] = {"add", "sub", "mul", "sdiv", "udiv", "srem", "urem"};
  static const char *BOP[] = {"and", "or", "xor", "shl", "lshr", "ashr"};
  unsigned profile = r.below(4); // 0 mixed, 1 constraint heavy, 2 assignment/arith heavy, 3 lattice heavy
  // seeding phase: give most slots a bounded, non-trivial starting value
  for (unsigned d = 0; d < NP; d++) {
    if (r.below(5) == 0) continue;
    unsigned nv = 2 + r.below(3);
    for (unsigned j = 0; j < nv; j++) {
      unsigned v = r.below(NV);
      int64_t lo = r.range(-12, 12), hi = lo + r.range(0, 9);
      switch (r.below(4)) {
      case 0: o << " (assign " << d << " v" << v << " (lin " << lo << "))"; break;
      case 1: o << " (assume " << d << " (le (lin " << -lo << " (-1 v" << v << "))))"; break;  // v >= lo
      case 2: o << " (assume " << d << " (le (lin " << -hi << " (1 v" << v << "))))"; break;   // v <= hi
      default: o << " (assume " << d << " (le (lin " << lo << " (-1 v" << v << "))) (le (lin " << -hi << " (1 v" << v << "))))"; break;
      }
    }
    if (r.below(3) == 0) {
      unsigned a = r.below(NV), b = (a + 1 + r.below(NV - 1)) % NV;
      o << " (assume " << d << " (le (lin " << r.range(-5, 5) << " (1 v" << a << ") (-1 v" << b << "))))";
    }
  }
  for (unsigned i = 0; i < len; i++) {
    unsigned d = r.below(NP);
    unsigned k = r.below(100);
    if (profile == 1) k = r.below(3) ? 30 + r.below(20) : k;
    if (profile == 2) k = r.below(3) ? r.below(30) : k;
    if (profile == 3) k = r.below(3) ? 62 + r.below(26) : k;
    if (k < 14) o << " (assign " << d << " v" << r.below(NV) << " " << gen_lin(r, big_ok) << ")";
    else if (k < 24) {
      std::string z = r.coin() ? "v" + std::to_string(r.below(NV)) : gen_const(r, false);
      o << " (arith " << d << " " << AOP[r.below(r.below(3) ? 3 : 7)] << " v" << r.below(NV) << " v" << r.below(NV) << " " << z << ")";
    } else if (k < 30) {
      std::string z = r.coin() ? "v" + std::to_string(r.below(NV)) : std::to_string(r.range(0, 12));
      unsigned bo = r.below(6);
      // a left shift by a variable amount is computed exactly by the non-relational domains: an amount that an earlier
      // big constant made astronomically large aborts inside GMP (open finding F22 is about these amounts): in histories
      // with big constants the amount is a small constant, or the variable is assigned one first
      if (bo == 3 && z[0] == 'v' && big_ok) {
        // (an assumed bound is not enough: domains that ignore inequalities keep the big constant)
        if (r.coin()) o << " (assign " << d << " " << z << " (lin " << r.range(0, 12) << "))";
        else z = std::to_string(r.range(0, 12));
      }
      o << " (bitw " << d << " " << BOP[bo] << " v" << r.below(NV) << " v" << r.below(NV) << " " << z << ")";
    } else if (k < 52) {
      o << " (assume " << d;
      unsigned n = 1 + (r.below(4) == 0 ? r.below(3) : 0);
      for (unsigned j = 0; j < n; j++) o << " " << gen_cst(r, big_ok);
      o << ")";
    } else if (k < 57) {
      o << " (forget " << d;
      unsigned n = 1 + r.below(2);
      for (unsigned j = 0; j < n; j++) o << " v" << r.below(NV);
      o << ")";
    } else if (k < 59) {
      o << " (project " << d;
      unsigned n = 1 + r.below(3);
      std::vector<bool> used(NV, false);
      for (unsigned j = 0; j < n; j++) { unsigned v = r.below(NV); if (!used[v]) { used[v] = true; o << " v" << v; } }
      o << ")";
    } else if (k < 62) {
      unsigned x = r.below(NV), y = r.below(NV);
      if (x == y) y = (x + 1) % NV;
      // the target must not be constrained: forget it first (the API requires a fresh name)
      // FixedTVPI does not implement rename (it only warns): not generated there
      bool ren = (VDOM != 13) && r.coin();
      o << " (forget " << d << " v" << y << ") (" << (ren ? "rename1 " : "expand ") << d << " v" << x << " v" << y << ")";
    } else if (k < 70) o << " (join " << d << " " << r.below(NP) << " " << r.below(NP) << ")";
    else if (k < 75) o << " (meet " << d << " " << r.below(NP) << " " << r.below(NP) << ")";
    else if (k < 81) o << " (widen " << d << " " << r.below(NP) << " " << r.below(NP) << ")";
    else if (k < 83) { unsigned s = r.below(NP); o << " (meet " << d << " " << s << " " << r.below(NP) << ") (narrow " << d << " " << s << " " << d << ")"; }
    else if (k < 86) o << " (joineq " << d << " " << r.below(NP) << ")";
    else if (k < 88) o << " (meeteq " << d << " " << r.below(NP) << ")";
    else if (k < 93) {
      // a copy, then (mostly) an in-place operation on one of the two copies while they still
      // share their representation: this is where a missing detach / clone shows (C16)
      unsigned src = r.below(NP);
      o << " (copy " << d << " " << src << ")";
      if (r.below(3) != 0) {
        unsigned t = r.coin() ? d : src;
        switch (r.below(5)) {
        case 0: o << " (joineq " << t << " " << r.below(NP) << ")"; break;
        case 1: o << " (meeteq " << t << " " << r.below(NP) << ")"; break;
        case 2: o << " (assign " << t << " v" << r.below(NV) << " " << gen_lin(r, big_ok) << ")"; break;
        case 3: o << " (assume " << t << " " << gen_cst(r, big_ok) << ")"; break;
        default: o << " (forget " << t << " v" << r.below(NV) << ")"; break;
        }
      }
    }
    else if (k < 95) o << " (" << (r.coin() ? "normalize " : "minimize ") << d << ")";
    else if (k < 96) o << " (query " << d << ")";
    else if (k < 98) o << " (select " << d << " v" << r.below(NV) << " " << gen_cst(r, big_ok) << " " << gen_lin(r, big_ok, 2) << " " << gen_lin(r, big_ok, 2) << ")";
    else if (k < 99) o << " (top " << d << ")";
    else o << " (bot " << d << ")";
  }
  // scripted tail (scenario library): a widening that drops a bound which the kept relations imply again
  // (y <= x, x <= c, y <= c - k1  widened with  y <= c - k2): the result is stored by copy in one pool and by move in
  // the twin pool, then queried / projected; a representation that is not carried over by one of the mechanisms
  // (pending closure of a DBM) shows as different dumps
  if (r.below(8) == 0) {
    unsigned x = r.below(NV), y = (x + 1 + r.below(NV - 1)) % NV;
    int64_t c = r.range(-5, 20), k1 = r.range(3, 9), k2 = r.range(0, 2);
    auto val = [&](unsigned d, int64_t k) {
      o << " (top " << d << ") (assume " << d << " (le (lin 0 (1 v" << y << ") (-1 v" << x << "))) (le (lin " << -c << " (1 v" << x << "))) (le (lin " << -(c - k) << " (1 v" << y << "))))";
    };
    val(0, k1); val(1, k2);
    o << " (" << (r.coin() ? "widen" : "join") << " 2 0 1)";
    switch (r.below(4)) {
    case 0: o << " (forget 2 v" << x << ")"; break;
    case 1: o << " (query 2)"; break;
    case 2: o << " (copy 0 2) (forget 0 v" << x << ")"; break;
    default: o << " (assume 2 (le (lin " << -(c + 3) << " (1 v" << x << "))))"; break;
    }
  }
  o << "))";
  std::string s = o.str();
  // "rename1 d x y" is sugar for (rename d (x) (y))
  size_t p;
  while ((p = s.find("(rename1 ")) != std::string::npos) {
    size_t e = s.find(")", p);
    std::istringstream is(s.substr(p + 9, e - p - 9));
    std::string d, x, y;
    is >> d >> x >> y;
    s.replace(p, e - p + 1, "(rename " + d + " (" + x + ") (" + y + "))");
  }
  return s;
}

} // namespace

int main(int argc, char **argv) {
  crab::CrabEnableWarningMsg(false); // "not implemented" warnings of some domains flood stderr
  return run_harness(argc, argv, gen, eval);
}
