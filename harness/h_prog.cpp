// Program-level refinement harness (mechanism R, properties C01 and C02): generates CrabIR
// programs, builds them as real crab CFGs, runs the real forward analyzer (or the combined
// forward+backward analyzer) with ONE shipped abstract domain (selected with -DVDOM=<id>, table in
// domains.hpp) and the real assertion checker, and exports
//   * for every block the invariant at its entry and at its exit: is_bottom, is_top, at(v) for
//     every integer variable, at(b) for every boolean variable (0 = false, 1 = true), the
//     exported linear constraints;
//   * one verdict per assert / bool_assert statement: safe | warning | error | unreachable.
// The Lean driver (Driver/ProgH.lean) executes the program concretely and checks every visited
// state against the invariants (C01) and every assertion event against the verdicts (C02).
//
// request : see prog_common.hpp
// result  : (inv (B0 (pre <bot> <top> (iv <itv>...) (bv <itv>...) (cs <cst>...))
//                    (post <bot> <top> (iv ...) (bv ...) (cs ...))) ...)
//           (chk (<block> <stmt index> <verdict>) ...)
//         | err                                   CRAB_ERROR was raised
#include "domains.hpp"
#include "prog_common.hpp"

#include <crab/analysis/bwd_analyzer.hpp>
#include <crab/analysis/dataflow/liveness.hpp>
#include <crab/analysis/fwd_analyzer.hpp>
#include <crab/checkers/assertion.hpp>
#include <crab/checkers/base_property.hpp>
#include <crab/checkers/checker.hpp>

namespace {

using namespace vp;

std::string dump(Dom d, const Built &B) {
  std::ostringstream o;
  o << (d.is_bottom() ? 1 : 0) << " " << (d.is_top() ? 1 : 0) << " (iv";
  for (auto &v : B.ivars) o << " " << ivs(d.at(v));
  o << ") (bv";
  for (auto &v : B.bvars) o << " " << ivs(d.at(v));
  o << ") (cs";
  auto sys = d.to_linear_constraint_system();
  for (auto it = sys.begin(); it != sys.end(); ++it) {
    std::string s = cst_str(*it);
    if (!s.empty()) o << " " << s;
  }
  o << ")";
  return o.str();
}

const char *kind_str(crab::checker::check_kind k) {
  using crab::checker::check_kind;
  switch (k) {
  case check_kind::CRAB_SAFE: return "safe";
  case check_kind::CRAB_ERR: return "error";
  case check_kind::CRAB_WARN: return "warning";
  default: return "unreachable";
  }
}

template <class Analyzer> std::string report(Analyzer &a, const Prog &p, const Built &B) {
  std::ostringstream o;
  o << "(inv";
  for (auto &b : p.blocks)
    o << " (" << b.label << " (pre " << dump(a.get_pre(b.label), B) << ") (post " << dump(a.get_post(b.label), B) << "))";
  o << ") (chk";
  using checker_t = crab::checker::intra_checker<Analyzer>;
  using assert_checker_t = crab::checker::assert_property_checker<Analyzer>;
  typename checker_t::prop_checker_ptr prop(new assert_checker_t(0));
  checker_t checker(a, {prop});
  checker.run();
  auto db = checker.get_all_checks();
  for (auto &ar : B.asserts) {
    o << " (" << ar.block << " " << ar.idx << " ";
    crab::cfg::debug_info di = ar.stmt->get_debug_info();
    if (!db.has_checks(di)) o << "none";
    else {
      auto const &ks = db.get_checks(di);
      for (size_t i = 0; i < ks.size(); i++) o << (i ? "+" : "") << kind_str(ks[i]);
    }
    o << ")";
  }
  o << ")";
  return o.str();
}

std::string eval_prog(const Sx &q);

// CRAB_ERROR (crab::verif_error) is left to run_harness (`err`); anything else thrown by the
// builder or the library is reported as an unparsable answer (the driver flags it as BAD)
std::string eval(const Sx &q) {
  try {
    return eval_prog(q);
  } catch (const crab::verif_error &) {
    throw;
  } catch (const std::exception &e) {
    std::string w = e.what();
    for (auto &c : w) if (c == '(' || c == ')' || c == ' ') c = '_';
    return "(exception " + w + ")";
  }
}

std::string eval_prog(const Sx &q) {
  Prog p;
  std::string why;
  if (!parse_prog(q, p, why)) return "unparsable-" + why;
  Built B;
  build(p, B);
  z_cfg_ref_t cfg(*B.cfg);
  Dom init = vdom_mk_top();
  for (auto &i : p.init) {
    const z_var &v = B.var(i.v);
    if (i.lo != "-oo") init += z_lin_cst_t(z_lin_exp_t(v) >= z_lin_exp_t(z_number(i.lo)));
    if (i.hi != "+oo") init += z_lin_cst_t(z_lin_exp_t(v) <= z_lin_exp_t(z_number(i.hi)));
  }
  crab::fixpoint_parameters fp;
  fp.get_widening_delay() = p.delay;
  fp.get_descending_iterations() = p.desc;
  fp.get_max_thresholds() = p.thresholds;
  crab::analyzer::live_and_dead_analysis<z_cfg_ref_t> live(cfg);
  if (p.live) live.exec();
  Dom fac = init.make_top();
  if (p.mode == "fwd") {
    using an_t = crab::analyzer::intra_fwd_analyzer<z_cfg_ref_t, Dom>;
    an_t a(cfg, fac, p.live ? &live : nullptr, fp);
    typename an_t::assumption_map_t assumptions;
    a.run(p.entry, init, assumptions);
    return report(a, p, B);
  } else if (p.mode == "fwdbwd") {
    using an_t = crab::analyzer::intra_forward_backward_analyzer<z_cfg_ref_t, Dom>;
    an_t a(cfg, fac);
    typename an_t::assumption_map_t assumptions;
    crab::analyzer::fwd_bwd_parameters params;
    params.enable_backward() = true;
    params.get_max_refine_iterations() = p.fb_max;
    params.get_use_refined_invariants() = p.fb_refined;
    a.run(p.entry, init, assumptions, p.live ? &live : nullptr, fp, params);
    return report(a, p, B);
  }
  return "unknown-mode";
}

std::string gen(Rng &r, const Args &a) {
  bool big_ok = (VDOM != 25 && VDOM != 26 && VDOM != 15 && VDOM != 16 && VDOM != 11 && VDOM != 12 && VDOM != 13 && VDOM != 18 && VDOM != 20);
  ProgGen g(r, a.tier == "thorough", big_ok);
  return g.gen(DOMNAME);
}

} // namespace

int main(int argc, char **argv) {
  crab::CrabEnableWarningMsg(false);
  // triage aid: VERIF_CRAB_LOG=tag1,tag2 switches crab's own logging on (written to stderr/stdout of crab)
  if (const char *lg = std::getenv("VERIF_CRAB_LOG")) {
    std::string s = lg, cur;
    for (char c : s + ",") { if (c == ',') { if (!cur.empty()) crab::CrabEnableLog(cur); cur.clear(); } else cur += c; }
  }
  return run_harness(argc, argv, gen, eval);
}
