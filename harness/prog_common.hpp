// CrabIR programs as s-expressions: parser, builder of a real crab CFG, random generator.
// Shared by the program-level harnesses (h_prog; replay with --ops works on the same text).
//
// request : (prog.<mode> <domain> (params <delay> <desc> <thresholds> <live 0|1>)
//             (ivars v0 v1 ...) (bvars b0 ...) (entry B0) (exit Bk)
//             (init (v0 lo hi) ...)            lo/hi : integer | -oo | +oo ; unlisted = unconstrained
//             (blocks (B0 (stmts <stmt> ...) (succs B1 B2)) ...))
//   <mode> ::= fwd | fwdbwd
//   <stmt> ::= (assign x <lin>) | (<bop> x y <z>) | (assume <cst>) | (assert <cst>) | (havoc x|b)
//            | (select x <cst> <lin> <lin>) | (unreachable)
//            | (bassign b <cst>) | (bcopy b c <neg 0|1>) | (bor b c d) | (band b c d) | (bxor b c d)
//            | (bassume b) | (bnassume b) | (bassert b) | (bselect b c d e)
//   <bop>  ::= add sub mul sdiv udiv srem urem and or xor shl lshr ashr
//   <z>    ::= integer variable | integer constant
//   <lin>  ::= (lin c (k vI) ...)        <cst> ::= (le <lin>) | (lt <lin>) | (eq <lin>) | (ne <lin>)   (lin ⋈ 0)
#pragma once
#include "common.hpp"
#include "crab_lang.hpp"

#include <map>
#include <memory>
#include <set>

namespace vp {
using namespace vh;
using namespace crab::cfg_impl;

// ------------------------------------------------------------------------------ parsed program
struct Prog {
  std::string mode, domain;
  unsigned delay = 1, desc = 1, thresholds = 0;
  bool live = false;
  // fwd_bwd_parameters of the forward+backward analyzer: (fbparams <max_refine_iterations> <use_refined_invariants 0|1>);
  // absent = crab's defaults (5, false)
  unsigned fb_max = 5;
  bool fb_refined = false;
  // (cfgentry B): entry block of the CFG object when it differs from the block the analysis is started at
  // (`entry`, also the start of the concrete executions); absent = the same block
  std::string cfgentry;
  std::vector<std::string> ivars, bvars;
  std::string entry, exit;
  struct Init { std::string v, lo, hi; };
  std::vector<Init> init;
  struct Block { std::string label; std::vector<Sx> stmts; std::vector<std::string> succs; };
  std::vector<Block> blocks;
};

inline const Sx *section(const Sx &q, const char *name) {
  for (size_t i = 1; i < q.size(); i++)
    if (!q[i].is_atom && q[i].size() > 0 && q[i][0].is_atom && q[i][0].a == name) return &q[i];
  return nullptr;
}

inline bool parse_prog(const Sx &q, Prog &p, std::string &why) {
  if (q.is_atom || q.size() < 3 || !q[0].is_atom) { why = "shape"; return false; }
  std::string hd = q[0].a;
  size_t dot = hd.find('.');
  p.mode = dot == std::string::npos ? hd : hd.substr(dot + 1);
  p.domain = q[1].a;
  if (const Sx *s = section(q, "params")) {
    if (s->size() != 5) { why = "params"; return false; }
    p.delay = std::stoul((*s)[1].a); p.desc = std::stoul((*s)[2].a);
    p.thresholds = std::stoul((*s)[3].a); p.live = (*s)[4].a == "1";
  }
  if (const Sx *s = section(q, "fbparams")) {
    if (s->size() != 3) { why = "fbparams"; return false; }
    p.fb_max = std::stoul((*s)[1].a); p.fb_refined = (*s)[2].a == "1";
  }
  if (const Sx *s = section(q, "ivars")) for (size_t i = 1; i < s->size(); i++) p.ivars.push_back((*s)[i].a);
  if (const Sx *s = section(q, "bvars")) for (size_t i = 1; i < s->size(); i++) p.bvars.push_back((*s)[i].a);
  const Sx *e = section(q, "entry"), *x = section(q, "exit"), *b = section(q, "blocks");
  if (!e || e->size() != 2 || !b) { why = "entry/blocks"; return false; }
  p.entry = (*e)[1].a;
  p.cfgentry = p.entry;
  if (const Sx *ce = section(q, "cfgentry")) { if (ce->size() != 2) { why = "cfgentry"; return false; } p.cfgentry = (*ce)[1].a; }
  if (x && x->size() == 2) p.exit = (*x)[1].a;
  if (const Sx *s = section(q, "init"))
    for (size_t i = 1; i < s->size(); i++) {
      const Sx &t = (*s)[i];
      if (t.is_atom || t.size() != 3) { why = "init"; return false; }
      p.init.push_back({t[0].a, t[1].a, t[2].a});
    }
  for (size_t i = 1; i < b->size(); i++) {
    const Sx &t = (*b)[i];
    if (t.is_atom || t.size() != 3) { why = "block"; return false; }
    Prog::Block blk;
    blk.label = t[0].a;
    for (size_t j = 1; j < t[1].size(); j++) blk.stmts.push_back(t[1][j]);
    for (size_t j = 1; j < t[2].size(); j++) blk.succs.push_back(t[2][j].a);
    p.blocks.push_back(blk);
  }
  return true;
}

// ------------------------------------------------------------------------------ builder
struct Built {
  std::unique_ptr<variable_factory_t> vf;
  std::unique_ptr<z_cfg_t> cfg;
  std::map<std::string, z_var> vars;
  std::vector<z_var> ivars, bvars;
  struct AssertRef { std::string block; unsigned idx; int64_t id; const z_cfg_t::statement_t *stmt; };
  std::vector<AssertRef> asserts; // canonical order: block order of the request, statement index

  const z_var &var(const std::string &n) const {
    auto it = vars.find(n);
    if (it == vars.end()) throw std::runtime_error("unknown variable " + n);
    return it->second;
  }
  z_lin_exp_t lin(const Sx &x) const { // (lin c (k v) ...)
    z_lin_exp_t e(z_number(x[1].a));
    for (size_t i = 2; i < x.size(); i++) e = e + z_lin_exp_t(z_number(x[i][0].a), var(x[i][1].a));
    return e;
  }
  z_lin_cst_t cst(const Sx &x) const {
    z_lin_exp_t e = lin(x[1]);
    const std::string &k = x[0].a;
    if (k == "le") return z_lin_cst_t(e, z_lin_cst_t::INEQUALITY);
    if (k == "lt") return z_lin_cst_t(e, z_lin_cst_t::STRICT_INEQUALITY);
    if (k == "eq") return z_lin_cst_t(e, z_lin_cst_t::EQUALITY);
    if (k == "ne") return z_lin_cst_t(e, z_lin_cst_t::DISEQUATION);
    throw std::runtime_error("constraint kind " + k);
  }
};

inline bool is_var_atom(const Sx &x) { return x.is_atom && !x.a.empty() && (x.a[0] == 'v' || x.a[0] == 'b'); }

inline void build_stmt(Built &B, z_basic_block_t &bb, const Sx &s, const std::string &label, unsigned idx) {
  using crab::cfg::debug_info;
  const std::string &k = s[0].a;
  auto V = [&](size_t i) -> const z_var & { return B.var(s[i].a); };
  auto di = [&]() {
    int64_t id = (int64_t)B.asserts.size();
    return debug_info("prog", (unsigned)id, idx, id);
  };
  if (k == "assign") bb.assign(V(1), B.lin(s[2]));
  else if (k == "assume") bb.assume(B.cst(s[1]));
  else if (k == "assert") {
    debug_info d = di();
    const z_cfg_t::statement_t *st = bb.assertion(B.cst(s[1]), d);
    B.asserts.push_back({label, idx, d.get_id(), st});
  } else if (k == "havoc") bb.havoc(V(1));
  else if (k == "select") bb.select(V(1), B.cst(s[2]), B.lin(s[3]), B.lin(s[4]));
  else if (k == "unreachable") bb.unreachable();
  else if (k == "bassign") bb.bool_assign(V(1), B.cst(s[2]));
  else if (k == "bcopy") bb.bool_assign(V(1), V(2), s[3].a == "1");
  else if (k == "bor") bb.bool_or(V(1), V(2), V(3));
  else if (k == "band") bb.bool_and(V(1), V(2), V(3));
  else if (k == "bxor") bb.bool_xor(V(1), V(2), V(3));
  else if (k == "bassume") bb.bool_assume(V(1));
  else if (k == "bnassume") bb.bool_not_assume(V(1));
  else if (k == "bassert") {
    debug_info d = di();
    const z_cfg_t::statement_t *st = bb.bool_assert(V(1), d);
    B.asserts.push_back({label, idx, d.get_id(), st});
  } else if (k == "bselect") bb.bool_select(V(1), V(2), V(3), V(4));
  else {
    // binary operations: (op x y z)
    bool zv = is_var_atom(s[3]);
    z_number zc = zv ? z_number(0) : z_number(s[3].a);
#define BINOP(NAME, METH)                                                                          \
  if (k == NAME) {                                                                                 \
    if (zv) bb.METH(V(1), V(2), V(3)); else bb.METH(V(1), V(2), zc);                               \
    return;                                                                                        \
  }
    BINOP("add", add) BINOP("sub", sub) BINOP("mul", mul) BINOP("sdiv", div) BINOP("udiv", udiv)
    BINOP("srem", rem) BINOP("urem", urem) BINOP("and", bitwise_and) BINOP("or", bitwise_or)
    BINOP("xor", bitwise_xor) BINOP("shl", shl) BINOP("lshr", lshr) BINOP("ashr", ashr)
#undef BINOP
    throw std::runtime_error("statement kind " + k);
  }
}

inline void build(const Prog &p, Built &B) {
  B.vf.reset(new variable_factory_t());
  for (auto &n : p.ivars) {
    z_var v((*B.vf)[n], crab::INT_TYPE, 32);
    B.vars.emplace(n, v); B.ivars.push_back(v);
  }
  for (auto &n : p.bvars) {
    z_var v((*B.vf)[n], crab::BOOL_TYPE, 1);
    B.vars.emplace(n, v); B.bvars.push_back(v);
  }
  if (p.exit.empty()) B.cfg.reset(new z_cfg_t(p.cfgentry));
  else B.cfg.reset(new z_cfg_t(p.cfgentry, p.exit));
  for (auto &b : p.blocks) B.cfg->insert(b.label);
  for (auto &b : p.blocks) {
    z_basic_block_t &bb = B.cfg->get_node(b.label);
    for (unsigned i = 0; i < b.stmts.size(); i++) build_stmt(B, bb, b.stmts[i], b.label, i);
    for (auto &s : b.succs) bb >> B.cfg->get_node(s);
  }
}

// ------------------------------------------------------------------------------ printing
inline std::string lin_str(const z_lin_exp_t &e) {
  std::ostringstream o;
  o << "(lin " << zs(e.constant());
  std::vector<std::pair<unsigned, std::string>> ts;
  bool foreign = false;
  for (auto it = e.begin(); it != e.end(); ++it) {
    std::string nm = it->second.name().str();
    if (nm.size() < 2 || nm[0] != 'v' || !isdigit(nm[1])) { foreign = true; continue; }
    ts.push_back({(unsigned)std::stoul(nm.substr(1)), zs(it->first)});
  }
  std::sort(ts.begin(), ts.end());
  for (auto &t : ts) o << " (" << t.second << " v" << t.first << ")";
  o << ")";
  return foreign ? std::string("foreign") : o.str();
}

inline std::string cst_str(const z_lin_cst_t &c) {
  std::string l = lin_str(c.expression());
  if (l == "foreign") return "";
  const char *k = c.is_inequality() ? "le" : c.is_strict_inequality() ? "lt" : c.is_equality() ? "eq" : "ne";
  return std::string("(") + k + " " + l + ")";
}

// ------------------------------------------------------------------------------ generator
struct GLin {
  int64_t c = 0;
  std::vector<std::pair<int64_t, unsigned>> ts; // (coef, int var index)
  std::string str() const {
    std::string s = "(lin " + std::to_string(c);
    for (auto &t : ts) s += " (" + std::to_string(t.first) + " v" + std::to_string(t.second) + ")";
    return s + ")";
  }
  GLin neg() const { GLin r; r.c = -c; for (auto &t : ts) r.ts.push_back({-t.first, t.second}); return r; }
  bool mentions(unsigned v) const { for (auto &t : ts) if (t.second == v) return true; return false; }
};
struct GCst {
  int kind = 0; // 0 le, 1 lt, 2 eq, 3 ne        meaning  e ⋈ 0
  GLin e;
  std::string str() const {
    static const char *K[] = {"le", "lt", "eq", "ne"};
    return std::string("(") + K[kind] + " " + e.str() + ")";
  }
  GCst negate() const {
    GCst r;
    switch (kind) {
    case 0: r.kind = 1; r.e = e.neg(); break; // e<=0  ->  -e<0
    case 1: r.kind = 0; r.e = e.neg(); break; // e<0   ->  -e<=0
    case 2: r.kind = 3; r.e = e; break;
    default: r.kind = 2; r.e = e; break;
    }
    return r;
  }
};

struct ProgGen {
  Rng &r;
  bool thorough, big_ok;
  unsigned ni = 3, nb = 0, max_blocks = 8;
  struct GB { std::vector<std::string> st; std::vector<unsigned> succ; };
  std::vector<GB> bs;
  std::vector<GCst> facts;        // constraints known to hold at the current point of the current block
  std::set<unsigned> reserved;    // loop counters of the enclosing loops
  unsigned nasserts = 0;

  ProgGen(Rng &rr, bool th, bool big) : r(rr), thorough(th), big_ok(big) {}

  int64_t konst() {
    switch (r.below(14)) {
    case 0: return 0;
    case 1: return 1;
    case 2: return -1;
    case 3: case 4: case 5: case 6: case 7: case 8: return r.range(-10, 10);
    case 9: case 10: return r.range(-40, 40);
    case 11: return r.range(-1000, 1000);
    case 12: return r.range(-100000, 100000);
    default:
      if (!big_ok) return r.range(-300, 300);
      {
        static const int ks[] = {15, 16, 31, 32, 40, 62};
        int64_t b = (int64_t)1 << ks[r.below(6)];
        int64_t v = b + r.range(-2, 2);
        return r.coin() ? v : -v;
      }
    }
  }
  int64_t small() { return r.below(6) == 0 ? r.range(-40, 40) : r.range(-8, 8); }
  unsigned ivar() { return (unsigned)r.below(ni); }
  unsigned ivar_free() { // a variable that is not a counter of an enclosing loop (mostly)
    for (int i = 0; i < 6; i++) { unsigned v = ivar(); if (!reserved.count(v) || r.below(20) == 0) return v; }
    return ivar();
  }
  std::string vn(unsigned v) { return "v" + std::to_string(v); }
  std::string bn(unsigned v) { return "b" + std::to_string(v); }

  GLin lin(unsigned maxterms = 2) {
    GLin l;
    l.c = r.below(3) ? small() : konst();
    unsigned k = r.below(maxterms + 1);
    for (unsigned i = 0; i < k; i++) {
      unsigned v = ivar();
      if (l.mentions(v)) continue;
      int64_t co;
      switch (r.below(8)) {
      case 0: case 1: case 2: case 3: co = 1; break;
      case 4: case 5: co = -1; break;
      case 6: co = r.range(-3, 3); break;
      default: co = r.range(-12, 12); break;
      }
      if (co == 0) co = 2;
      l.ts.push_back({co, v});
    }
    return l;
  }
  GCst cond() {
    GCst c;
    static const int K[] = {0, 0, 0, 0, 1, 1, 2, 3};
    c.kind = K[r.below(8)];
    unsigned shape = r.below(20);
    int64_t k = r.below(4) ? small() : konst();
    if (shape < 12) { // ±x ⋈ k
      c.e.c = -k; c.e.ts.push_back({r.below(4) ? 1 : -1, ivar()});
    } else if (shape < 17 && ni >= 2) { // x - y ⋈ k
      unsigned a = ivar(), b = ivar();
      if (a == b) b = (a + 1) % ni;
      c.e.c = -k; c.e.ts.push_back({1, a}); c.e.ts.push_back({-1, b});
    } else if (shape < 18 && ni >= 2) { // x + y ⋈ k
      unsigned a = ivar(), b = ivar();
      if (a == b) b = (a + 1) % ni;
      c.e.c = -k; c.e.ts.push_back({1, a}); c.e.ts.push_back({1, b});
    } else c.e = lin(3);
    return c;
  }

  void kill(unsigned v) {
    std::vector<GCst> f;
    for (auto &c : facts) if (!c.e.mentions(v)) f.push_back(c);
    facts.swap(f);
  }
  void emit(unsigned b, const std::string &s) { bs[b].st.push_back(s); }
  void emit_assume(unsigned b, const GCst &c) { emit(b, "(assume " + c.str() + ")"); facts.push_back(c); }

  void emit_assert(unsigned b) {
    GCst c;
    unsigned k = r.below(20);
    if (k < 13 && !facts.empty()) {
      c = facts[r.below(facts.size())];
      switch (c.kind) {
      case 0: c.e.c -= r.below(3) ? (int64_t)r.below(4) : -1; break;       // weaker (rarely stronger by 1)
      case 1: if (r.coin()) c.kind = 0; c.e.c -= (int64_t)r.below(3); break;
      case 2: { unsigned m = r.below(4); if (m == 0) c.kind = 0; else if (m == 1) { c.kind = 0; c.e = c.e.neg(); } else if (m == 2) { c.kind = 3; c.e.c += 1 + r.below(3); } break; }
      default: break;
      }
    } else if (k < 18) c = cond();
    else if (k == 18) { c.kind = 0; c.e.c = 1; }  // 1 <= 0 : assert(false)
    else { c.kind = 0; c.e.c = 0; }               // 0 <= 0 : assert(true)
    emit(b, "(assert " + c.str() + ")");
    facts.push_back(c); // holds afterwards (the execution stops otherwise)
    nasserts++;
  }

  void emit_bool_stmt(unsigned b) {
    unsigned x = r.below(nb), y = r.below(nb), z = r.below(nb);
    switch (r.below(12)) {
    case 0: case 1: case 2: case 3: emit(b, "(bassign " + bn(x) + " " + cond().str() + ")"); break;
    case 4: emit(b, "(bcopy " + bn(x) + " " + bn(y) + " " + (r.coin() ? "1" : "0") + ")"); break;
    case 5: emit(b, "(bor " + bn(x) + " " + bn(y) + " " + bn(z) + ")"); break;
    case 6: emit(b, "(band " + bn(x) + " " + bn(y) + " " + bn(z) + ")"); break;
    case 7: emit(b, "(bxor " + bn(x) + " " + bn(y) + " " + bn(z) + ")"); break;
    case 8: emit(b, std::string(r.coin() ? "(bassume " : "(bnassume ") + bn(x) + ")"); break;
    case 9: case 10: emit(b, "(bassert " + bn(x) + ")"); nasserts++; break;
    default: emit(b, "(bselect " + bn(x) + " " + bn(y) + " " + bn(z) + " " + bn(r.below(nb)) + ")"); break;
    }
  }

  void emit_stmt(unsigned b) {
    unsigned k = r.below(100);
    if (k < 26) {
      unsigned x = ivar_free();
      GLin l = r.below(3) == 0 ? GLin() : lin(2);
      if (l.ts.empty() && l.c == 0 && r.coin()) l.c = small();
      emit(b, "(assign " + vn(x) + " " + l.str() + ")");
      kill(x);
      if (l.ts.empty()) { GCst f; f.kind = 2; f.e.c = -l.c; f.e.ts.push_back({1, x}); facts.push_back(f); }
    } else if (k < 44) {
      static const char *A[] = {"add", "add", "add", "sub", "sub", "mul"};
      unsigned x = ivar_free(), y = ivar();
      std::string z = r.coin() ? vn(ivar()) : std::to_string(r.below(5) ? r.range(-4, 4) : konst());
      emit(b, std::string("(") + A[r.below(6)] + " " + vn(x) + " " + vn(y) + " " + z + ")");
      kill(x);
    } else if (k < 50) {
      static const char *A[] = {"sdiv", "udiv", "srem", "urem"};
      unsigned x = ivar_free(), y = ivar();
      std::string z = r.below(3) == 0 ? vn(ivar()) : std::to_string(r.below(6) ? r.range(1, 9) : r.range(-9, 9));
      emit(b, std::string("(") + A[r.below(4)] + " " + vn(x) + " " + vn(y) + " " + z + ")");
      kill(x);
    } else if (k < 56) {
      static const char *A[] = {"and", "or", "xor", "shl", "lshr", "ashr"};
      unsigned o = r.below(6);
      unsigned x = ivar_free(), y = ivar();
      std::string z = r.below(3) == 0 ? vn(ivar()) : std::to_string(o < 3 ? (r.below(4) ? r.range(0, 15) : r.range(-16, 255)) : r.range(0, 6));
      emit(b, std::string("(") + A[o] + " " + vn(x) + " " + vn(y) + " " + z + ")");
      kill(x);
    } else if (k < 62) {
      if (nb > 0 && r.below(4) == 0) emit(b, "(havoc " + bn(r.below(nb)) + ")");
      else { unsigned x = ivar_free(); emit(b, "(havoc " + vn(x) + ")"); kill(x); }
    } else if (k < 66) {
      unsigned x = ivar_free();
      emit(b, "(select " + vn(x) + " " + cond().str() + " " + lin(1).str() + " " + lin(1).str() + ")");
      kill(x);
    } else if (k < 71) emit_assume(b, cond());
    else if (k < 83 || nb == 0) emit_assert(b);
    else emit_bool_stmt(b);
  }

  void straight(unsigned b, unsigned lo, unsigned hi) {
    unsigned n = (unsigned)r.range(lo, hi);
    for (unsigned i = 0; i < n; i++) emit_stmt(b);
  }

  unsigned new_block() { bs.push_back(GB()); return (unsigned)bs.size() - 1; }
  bool room(unsigned k) { return bs.size() + k <= max_blocks; }
  void edge(unsigned a, unsigned b) {
    for (unsigned s : bs[a].succ) if (s == b) return;
    bs[a].succ.push_back(b);
  }

  // guards of a two-way branch out of block `cur`: a linear condition assumed on both sides,
  // a boolean variable tested on both sides, or nothing (non-deterministic choice)
  void branch_guards(unsigned cur, unsigned t, unsigned e) {
    unsigned k = r.below(10);
    if (k < 7) {
      GCst c = cond();
      bs[t].st.push_back("(assume " + c.str() + ")");
      bs[e].st.push_back("(assume " + c.negate().str() + ")");
    } else if (k < 9 && nb > 0) {
      unsigned b = r.below(nb);
      if (r.coin()) emit(cur, "(bassign " + bn(b) + " " + cond().str() + ")");
      bs[t].st.push_back("(bassume " + bn(b) + ")");
      bs[e].st.push_back("(bnassume " + bn(b) + ")");
    }
  }

  // generates code starting in block `cur`; returns the block where control continues
  unsigned seq(unsigned cur, unsigned depth) {
    unsigned parts = 1 + r.below(3);
    for (unsigned p = 0; p < parts; p++) {
      unsigned k = r.below(100);
      if (depth >= 3) k = 0;
      if (k < 25) {
        straight(cur, 1, 4);
      } else if (k < 45 && room(3)) { // diamond
        unsigned t = new_block(), e = new_block(), j = new_block();
        straight(cur, 0, 2);
        edge(cur, t); edge(cur, e);
        branch_guards(cur, t, e);
        auto saved = facts;
        facts.clear(); unsigned te = seq(t, depth + 1);
        facts.clear(); unsigned ee = seq(e, depth + 1);
        facts.clear(); (void)saved;
        edge(te, j); edge(ee, j);
        cur = j;
      } else if (k < 52 && room(2)) { // if without else
        unsigned t = new_block(), j = new_block();
        straight(cur, 0, 2);
        edge(cur, t); edge(cur, j);
        branch_guards(cur, t, j);
        facts.clear(); unsigned te = seq(t, depth + 1);
        edge(te, j);
        facts.clear();
        cur = j;
      } else if (k < 75 && room(3)) { // counting loop
        unsigned i = ivar();
        for (int tries = 0; tries < 4 && reserved.count(i); tries++) i = ivar();
        bool fresh = !reserved.count(i);
        int64_t lo = r.range(-2, 3), n = lo + r.range(0, 6), step = r.below(5) ? 1 : r.range(1, 3);
        bool down = r.below(5) == 0;
        bool var_bound = ni >= 2 && r.below(5) == 0;
        unsigned bnd = (i + 1 + (unsigned)r.below(ni - 1 ? ni - 1 : 1)) % ni;
        if (bnd == i) var_bound = false;
        if (fresh && r.below(8)) { emit(cur, "(assign " + vn(i) + " (lin " + std::to_string(down ? n : lo) + "))"); kill(i); }
        unsigned h = new_block(), b = new_block(), x = new_block();
        edge(cur, h); edge(h, b); edge(h, x);
        facts.clear();
        if (r.below(3) == 0) straight(h, 1, 2);
        // guard: i < n (up) / i > lo (down) / i != n ; exit: negation
        GCst g;
        if (var_bound) { g.kind = 1; g.e.ts.push_back({1, i}); g.e.ts.push_back({-1, bnd}); }                 // i - bnd < 0
        else if (down) { g.kind = 1; g.e.c = lo; g.e.ts.push_back({-1, i}); }                                   // lo - i < 0
        else if (r.below(6) == 0) { g.kind = 3; g.e.c = -n; g.e.ts.push_back({1, i}); }                          // i != n
        else if (r.coin()) { g.kind = 1; g.e.c = -n; g.e.ts.push_back({1, i}); }                                // i - n < 0
        else { g.kind = 0; g.e.c = -(n - 1); g.e.ts.push_back({1, i}); }                                        // i <= n-1
        bs[b].st.push_back("(assume " + g.str() + ")");
        bs[x].st.push_back("(assume " + g.negate().str() + ")");
        bool ins = fresh;
        if (ins) reserved.insert(i);
        if (var_bound) reserved.insert(bnd);
        facts.clear(); facts.push_back(g);
        unsigned be = seq(b, depth + 1);
        if (r.below(12)) emit(be, std::string(down ? "(sub " : "(add ") + vn(i) + " " + vn(i) + " " + std::to_string(step) + ")");
        if (ins) reserved.erase(i);
        if (var_bound) reserved.erase(bnd);
        edge(be, h);
        facts.clear(); facts.push_back(g.negate());
        if (r.below(3) == 0) emit_assert(x);
        cur = x;
      } else if (k < 82 && room(2)) { // self loop
        unsigned s = new_block(), nx = new_block();
        edge(cur, s); edge(s, s); edge(s, nx);
        facts.clear();
        unsigned x = ivar_free();
        if (r.below(4)) { GCst g; g.kind = 0; g.e.c = -r.range(0, 8); g.e.ts.push_back({1, x}); emit_assume(s, g); }
        straight(s, 0, 2);
        if (r.below(4)) { emit(s, "(add " + vn(x) + " " + vn(x) + " " + std::to_string(r.range(1, 2)) + ")"); kill(x); }
        facts.clear();
        cur = nx;
      } else if (k < 92 && room(2)) { // dead-end branch (a block that cannot reach the exit)
        unsigned d = new_block(), nx = new_block();
        straight(cur, 0, 2);
        edge(cur, d); edge(cur, nx);
        branch_guards(cur, d, nx);
        facts.clear();
        straight(d, 0, 2);
        if (r.below(3)) emit_assert(d);
        if (r.below(4) == 0) emit(d, "(unreachable)");
        if (r.below(6) == 0) edge(d, d);
        facts.clear();
        cur = nx;
      } else if (k < 95) { // an `unreachable` guarded by an assume
        if (room(2)) {
          unsigned d = new_block(), nx = new_block();
          edge(cur, d); edge(cur, nx);
          GCst c = cond();
          bs[d].st.push_back("(assume " + c.str() + ")");
          bs[d].st.push_back("(unreachable)");
          bs[nx].st.push_back("(assume " + c.negate().str() + ")");
          facts.clear(); facts.push_back(c.negate());
          cur = nx;
        } else straight(cur, 1, 2);
      } else if (room(1)) { // plain goto to a fresh block
        unsigned nx = new_block();
        edge(cur, nx);
        cur = nx;
      } else straight(cur, 1, 3);
    }
    return cur;
  }

  std::string gen(const char *domname) {
    ni = 1 + (unsigned)r.below(4);
    if (ni < 2 && r.coin()) ni = 2;
    nb = r.below(3) == 0 ? 0 : (unsigned)r.below(3);
    std::string dn = domname;
    if (dn.find("bool") != std::string::npos && nb == 0) nb = 1 + (unsigned)r.below(2);
    max_blocks = thorough ? 3 + (unsigned)r.below(12) : 3 + (unsigned)r.below(6);
    if (r.below(25) == 0) max_blocks = 1;
    bs.clear(); facts.clear(); reserved.clear(); nasserts = 0;
    unsigned entry = new_block();
    // some variables start with a known constant
    for (unsigned v = 0; v < ni; v++)
      if (r.below(3) == 0) {
        int64_t c = small();
        emit(entry, "(assign " + vn(v) + " (lin " + std::to_string(c) + "))");
        GCst f; f.kind = 2; f.e.c = -c; f.e.ts.push_back({1, v}); facts.push_back(f);
      }
    unsigned cur = seq(entry, 0);
    if (room(1) && r.coin()) cur = seq(cur, 0);
    if (nasserts == 0 || r.below(3) == 0) emit_assert(cur);
    unsigned exitb = cur;
    // blocks that are not reachable from the entry, with edges into the rest
    if (room(1) && r.below(8) == 0) {
      unsigned u = new_block();
      facts.clear();
      straight(u, 1, 3);
      edge(u, (unsigned)r.below(bs.size()));
    }
    // extra edges (may create irreducible loops, jumps into loop bodies, edges to the entry)
    if (bs.size() >= 3 && r.below(6) == 0) {
      unsigned n = 1 + (unsigned)r.below(2);
      for (unsigned i = 0; i < n; i++) {
        unsigned a = (unsigned)r.below(bs.size()), b = (unsigned)r.below(bs.size());
        if (a == exitb) continue;
        if (b == entry && r.below(3)) continue;
        edge(a, b);
      }
    }
    std::ostringstream o;
    bool bwd = r.below(3) == 0;
    o << "(prog." << (bwd ? "fwdbwd" : "fwd") << " " << domname << " (params "
      << (r.below(4) ? r.range(1, 2) : r.range(0, 4)) << " " << (r.below(4) ? r.range(0, 2) : r.range(0, 4)) << " "
      << (r.below(3) ? 0 : (r.coin() ? 5 : 20)) << " " << (r.below(3) == 0 ? 1 : 0) << ")";
    // every fwd_bwd parameter setting (C02): half of the forward+backward lines leave crab's defaults
    if (bwd && r.coin()) {
      static const unsigned MAXR[] = {0, 1, 2, 3, 5, 8};
      o << " (fbparams " << MAXR[r.below(6)] << " " << (r.below(3) == 0 ? 1 : 0) << ")";
    }
    o << " (ivars"; for (unsigned v = 0; v < ni; v++) o << " " << vn(v); o << ")";
    o << " (bvars"; for (unsigned v = 0; v < nb; v++) o << " " << bn(v); o << ")";
    o << " (entry B" << entry << ")";
    // the analysis may be started at a block that is not the entry of the CFG object (run(entry, ...))
    // (the start block must belong to the CFG: it is made a successor of the CFG entry)
    if (bs.size() >= 2 && r.below(10) == 0) {
      unsigned ce = (unsigned)r.below(bs.size());
      if (ce != entry && ce != exitb) { edge(ce, entry); o << " (cfgentry B" << ce << ")"; }
    }
    o << " (exit B" << exitb << ") (init";
    for (unsigned v = 0; v < ni; v++) {
      unsigned k = r.below(20);
      int64_t lo = r.below(8) ? r.range(-6, 6) : konst();
      int64_t hi = lo + (r.below(3) ? r.range(0, 6) : r.range(0, 60));
      if (k < 11) o << " (" << vn(v) << " " << lo << " " << hi << ")";
      else if (k < 13) o << " (" << vn(v) << " " << lo << " +oo)";
      else if (k < 15) o << " (" << vn(v) << " -oo " << hi << ")";
    }
    o << ") (blocks";
    for (unsigned b = 0; b < bs.size(); b++) {
      o << " (B" << b << " (stmts";
      for (auto &s : bs[b].st) o << " " << s;
      o << ") (succs";
      for (unsigned s : bs[b].succ) o << " B" << s;
      o << "))";
    }
    o << "))";
    return o.str();
  }
};

} // namespace vp
