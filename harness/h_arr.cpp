// Array-domain history harness (property C14, mechanism R): drives ONE array domain (selected
// at compile time with -DVDOM=<id>) through a history of numeric and array operations over a pool
// of abstract values and exports, after every operation, everything the domain says about the
// integer variables of the modified value.  The Lean driver (Driver/ArrH.lean) replays the history
// on concrete witness states that contain arrays and checks every export.
//
// request : (arr.hist <name> (par <smashable> <smash_at_nonzero> <max_smashable_cells> <max_array_size>)
//                     (esz <e0> <e1>) (ops <op> ...))
//   <op> ::= (top d) | (copy d s) | (join d a b) | (widen d a b) | (meet d a b)
//          | (assign d vX <lin>) | (assume d <cst>...) | (forget d vX) | (range d vX lo hi)
//          | (ainit d aK <lin lb> <lin ub> <lin val>)      array_init(aK, esz_K, lb, ub, val)
//          | (astore d aK <lin idx> <lin val> <flag>)      array_store; flag 0 weak, 1 strong (legal),
//                                                          2 strong although the array has several cells
//                                                          (outside the client contract: tagged, the
//                                                          driver stops counting that value)
//          | (arange d aK <lin lb> <lin ub> <lin val>)     array_store_range
//          | (aload d vX aK <lin idx>)                     array_load
//          | (lcheck d vX aK <lin idx> <lin val>)          array_load right after a store of val at idx
//          | (aassign d aK aJ)                             array_assign(aK, aJ)
//   (range d vX lo hi) is  `-= vX ; += {lo <= vX, vX <= hi}`
//   <lin> ::= (lin c (k vI) ...) ; <cst> ::= (le <lin>) | (lt <lin>) | (eq <lin>) | (ne <lin>)   lin ⋈ 0
// result  : one item per op:  (s d <isbot> (iv <itv per integer variable>) (cs <cst>...))
//           with -DXDUMP (array_smashing variants only, optional, for the exact correspondence of
//           Driver/ArrXH.lean) each (s ...) item is followed by  (x d <itv a0.smashed> <itv a1.smashed>)
//           : at() of the summary variable of each array in the base domain.  Without -DXDUMP the
//           output is unchanged.
//
// Word-level assumption (array_smashing.hpp:4, array_adaptive.hpp): every access to array aK reads
// or writes esz_K bytes at an offset that is a multiple of esz_K.
#include "common.hpp"
#include "crab_lang.hpp"

#include <crab/domains/abstract_domain_params.hpp>
#include <crab/domains/array_adaptive.hpp>
#include <crab/domains/array_smashing.hpp>
#include <crab/domains/dis_intervals.hpp>
#include <crab/domains/flat_boolean_domain.hpp>
#include <crab/domains/intervals.hpp>
#include <crab/domains/sparse_dbm.hpp>
#include <crab/domains/split_dbm.hpp>
#include <crab/domains/term_equiv.hpp>

#include <set>

using namespace vh;
using namespace crab::cfg_impl;
using namespace crab::domains;
using namespace ikos;

#ifndef VDOM
#define VDOM 1
#endif

using z_interval_domain_t = interval_domain<z_number, varname_t>;
using z_dbm_graph_t = DBM_impl::DefaultParams<z_number, DBM_impl::GraphRep::adapt_ss>;
using z_sdbm_domain_t = split_dbm_domain<z_number, varname_t, z_dbm_graph_t>;
using z_spdbm_domain_t = sparse_dbm_domain<z_number, varname_t, z_dbm_graph_t>;
using z_dis_interval_domain_t = dis_interval_domain<z_number, varname_t>;
using z_term_domain_t = term_domain<term::TDomInfo<z_number, varname_t, z_interval_domain_t>>;

#if VDOM == 1
using Dom = array_smashing<z_interval_domain_t>;
#define DOMNAME "smash-intervals"
#elif VDOM == 2
using Dom = array_smashing<z_sdbm_domain_t>;
#define DOMNAME "smash-sdbm"
#elif VDOM == 3
using Dom = array_smashing<z_dis_interval_domain_t>;
#define DOMNAME "smash-dis-intervals"
#elif VDOM == 4
using Dom = array_smashing<flat_boolean_numerical_domain<z_spdbm_domain_t>>;
#define DOMNAME "smash-bool-sparse-dbm"
#elif VDOM == 5
using Dom = array_adaptive_domain<z_interval_domain_t>;
#define DOMNAME "adaptive-intervals"
#define ADAPTIVE 1
#elif VDOM == 6
using Dom = array_adaptive_domain<z_sdbm_domain_t>;
#define DOMNAME "adaptive-sdbm"
#define ADAPTIVE 1
#elif VDOM == 7
using Dom = array_adaptive_domain<z_term_domain_t>;
#define DOMNAME "adaptive-term-intervals"
#define ADAPTIVE 1
#elif VDOM == 8
using Dom = array_adaptive_domain<flat_boolean_numerical_domain<z_interval_domain_t>>;
#define DOMNAME "adaptive-bool-intervals"
#define ADAPTIVE 1
#else
#error "unknown VDOM"
#endif

namespace {

const unsigned NV = 4; // integer variables v0..v3 (v0,v1 mostly indices, v2,v3 mostly values)
const unsigned NA = 2; // array variables a0..a1
const unsigned NP = 3; // pool slots
// longest range of cells (split_dbm with one ghost per cell is slow on dense graphs)
#if VDOM == 6
const int64_t BIGN = 14;
#else
const int64_t BIGN = 70;
#endif

std::vector<z_var> *VARS = nullptr;
std::vector<z_var> *ARRS = nullptr;

z_var var(unsigned i) { return (*VARS).at(i); }
z_var arr(unsigned i) { return (*ARRS).at(i); }

unsigned vidx(const Sx &x) { return std::stoul(x.a.substr(1)); }

z_lin_exp_t parse_lin(const Sx &x) {
  z_lin_exp_t e(z_number(x[1].a));
  for (size_t i = 2; i < x.size(); i++) e = e + z_lin_exp_t(z_number(x[i][0].a), var(vidx(x[i][1])));
  return e;
}

z_lin_cst_t parse_cst(const Sx &x) {
  z_lin_exp_t e = parse_lin(x[1]);
  const std::string &k = x[0].a;
  if (k == "le") return z_lin_cst_t(e, z_lin_cst_t::INEQUALITY);
  if (k == "lt") return z_lin_cst_t(e, z_lin_cst_t::STRICT_INEQUALITY);
  if (k == "eq") return z_lin_cst_t(e, z_lin_cst_t::EQUALITY);
  return z_lin_cst_t(e, z_lin_cst_t::DISEQUATION);
}

std::string lin_str(const z_lin_exp_t &e) {
  std::ostringstream o;
  o << "(lin " << zs(e.constant());
  std::vector<std::pair<unsigned, std::string>> ts;
  bool foreign = false;
  for (auto it = e.begin(); it != e.end(); ++it) {
    std::string nm = it->second.name().str();
    // only v0..v3 : ghost variables of cells / summaries are internal
    if (nm.size() != 2 || nm[0] != 'v' || !isdigit(nm[1])) { foreign = true; continue; }
    ts.push_back({(unsigned)std::stoul(nm.substr(1)), zs(it->first)});
  }
  std::sort(ts.begin(), ts.end());
  for (auto &t : ts) o << " (" << t.second << " v" << t.first << ")";
  o << ")";
  return foreign ? std::string("foreign") : o.str();
}

std::string cst_str(const z_lin_cst_t &c) {
  std::string l = lin_str(c.expression());
  if (l == "foreign") return "";
  const char *k = c.is_inequality() ? "le" : c.is_strict_inequality() ? "lt" : c.is_equality() ? "eq" : "ne";
  return std::string("(") + k + " " + l + ")";
}

std::string dump(Dom &d) {
  std::ostringstream o;
  o << (d.is_bottom() ? 1 : 0) << " (iv";
  for (unsigned i = 0; i < NV; i++) o << " " << ivs(d.at(var(i)));
  o << ") (cs";
  auto sys = d.to_linear_constraint_system();
  for (auto it = sys.begin(); it != sys.end(); ++it) {
    std::string s = cst_str(*it);
    if (!s.empty()) o << " " << s;
  }
  o << ")";
  return o.str();
}

std::string eval(const Sx &q) {
  // q = (arr.hist name (par ...) (esz e0 e1) (ops ...))
  const Sx &par = q[2];
  auto &pm = crab_domain_params_man::get();
  pm.set_param("array_adaptive.is_smashable", par[1].a == "1" ? "true" : "false");
  pm.set_param("array_adaptive.smash_at_nonzero_offset", par[2].a == "1" ? "true" : "false");
  pm.set_param("array_adaptive.max_smashable_cells", par[3].a);
  pm.set_param("array_adaptive.max_array_size", par[4].a);
  uint64_t esz[NA];
  for (unsigned i = 0; i < NA; i++) esz[i] = std::stoull(q[3][1 + i].a);

  variable_factory_t vf;
  std::vector<z_var> vars, arrs;
  for (unsigned i = 0; i < NV; i++) vars.push_back(z_var(vf["v" + std::to_string(i)], crab::INT_TYPE, 8 * esz[0]));
  for (unsigned i = 0; i < NA; i++) arrs.push_back(z_var(vf["a" + std::to_string(i)], crab::ARR_INT_TYPE));
  VARS = &vars;
  ARRS = &arrs;
  std::vector<Dom> pool;
  for (unsigned i = 0; i < NP; i++) { Dom d; pool.push_back(d.make_top()); }
  const Sx &ops = q[4];
  std::ostringstream out;
  for (size_t oi = 1; oi < ops.size(); oi++) {
    const Sx &op = ops[oi];
    const std::string &k = op[0].a;
    unsigned d = std::stoul(op[1].a);
    auto A = [&](const Sx &x) { return vidx(x); };
    if (k == "top") pool[d].set_to_top();
    else if (k == "copy") { Dom c(pool[std::stoul(op[2].a)]); pool[d] = c; }
    else if (k == "join") { Dom r = pool[std::stoul(op[2].a)] | pool[std::stoul(op[3].a)]; pool[d] = r; }
    else if (k == "widen") { Dom r = pool[std::stoul(op[2].a)] || pool[std::stoul(op[3].a)]; pool[d] = r; }
    else if (k == "meet") { Dom r = pool[std::stoul(op[2].a)] & pool[std::stoul(op[3].a)]; pool[d] = r; }
    else if (k == "assign") pool[d].assign(var(vidx(op[2])), parse_lin(op[3]));
    else if (k == "assume") {
      linear_constraint_system<z_number, varname_t> sys;
      for (size_t i = 2; i < op.size(); i++) sys += parse_cst(op[i]);
      pool[d] += sys;
    } else if (k == "forget") pool[d] -= var(vidx(op[2]));
    else if (k == "range") {
      z_var x = var(vidx(op[2]));
      pool[d] -= x;
      linear_constraint_system<z_number, varname_t> sys;
      sys += z_lin_cst_t(z_lin_exp_t(x) >= z_number(op[3].a));
      sys += z_lin_cst_t(z_lin_exp_t(x) <= z_number(op[4].a));
      pool[d] += sys;
    } else if (k == "ainit") {
      unsigned a = A(op[2]);
      pool[d].array_init(arr(a), z_lin_exp_t(z_number((int64_t)esz[a])), parse_lin(op[3]), parse_lin(op[4]), parse_lin(op[5]));
    } else if (k == "astore") {
      unsigned a = A(op[2]);
      pool[d].array_store(arr(a), z_lin_exp_t(z_number((int64_t)esz[a])), parse_lin(op[3]), parse_lin(op[4]), op[5].a != "0");
    } else if (k == "arange") {
      unsigned a = A(op[2]);
      pool[d].array_store_range(arr(a), z_lin_exp_t(z_number((int64_t)esz[a])), parse_lin(op[3]), parse_lin(op[4]), parse_lin(op[5]));
    } else if (k == "aload" || k == "lcheck") {
      unsigned a = A(op[3]);
      if (esz[a] == esz[0]) pool[d].array_load(var(vidx(op[2])), arr(a), z_lin_exp_t(z_number((int64_t)esz[a])), parse_lin(op[4]));
      else {
        // the integer variables have the width of a0's elements: a load from an array with another
        // element size goes through a temporary of the element's width (array_adaptive checks types)
        z_var t(vf["t" + std::to_string(a)], crab::INT_TYPE, 8 * esz[a]);
        pool[d].array_load(t, arr(a), z_lin_exp_t(z_number((int64_t)esz[a])), parse_lin(op[4]));
        pool[d].assign(var(vidx(op[2])), z_lin_exp_t(t));
        pool[d] -= t;
      }
    } else if (k == "aassign") {
      pool[d].array_assign(arr(A(op[2])), arr(A(op[3])));
    }
    out << "(s " << d << " " << dump(pool[d]) << ") ";
#if defined(XDUMP) && !defined(ADAPTIVE)
    // the summary variable of aK: the name array_smashing::mk_scalar_var builds (the factory caches it)
    out << "(x " << d;
    for (unsigned a = 0; a < NA; a++) {
      z_var sv(vf.get(arr(a).name(), ".smashed"), crab::INT_TYPE, 8 * esz[a]);
      out << " " << ivs(pool[d].at(sv));
    }
    out << ") ";
#endif
  }
  return out.str();
}

// ---------------------------------------------------------------- generator
struct G {
  Rng &r;
  uint64_t esz[NA];
  bool single[NA];   // the history uses this array as ONE cell at offset ostar
  int64_t ostar[NA];
  bool big;          // the history uses long ranges (cell / size limits)
  explicit G(Rng &rr) : r(rr) {}

  // cells that every execution of the history has written (per pool slot and array): loads are
  // mostly generated for such cells, because a witness that reads a never-written cell is lost
  std::set<int64_t> wr[NP][NA];

  static bool const_lin(const Sx &x, int64_t &c) {
    if (x.size() != 2) return false;
    c = std::stoll(x[1].a);
    return true;
  }
  void add_cells(std::set<int64_t> &w, unsigned a, const Sx &lb, const Sx &ub) {
    int64_t l, u;
    if (!const_lin(lb, l) || !const_lin(ub, u)) return;
    for (int64_t c = l; c <= u && w.size() < 200; c += (int64_t)esz[a]) w.insert(c);
  }
  void track1(const Sx &op) {
    const std::string &k = op[0].a;
    unsigned d = std::stoul(op[1].a);
    auto A = [&](const Sx &x) { return (unsigned)std::stoul(x.a.substr(1)); };
    auto S = [&](const Sx &x) { return (unsigned)std::stoul(x.a); };
    if (k == "top") for (unsigned a = 0; a < NA; a++) wr[d][a].clear();
    else if (k == "copy") { unsigned s0 = S(op[2]); if (s0 != d) for (unsigned a = 0; a < NA; a++) wr[d][a] = wr[s0][a]; }
    else if (k == "join" || k == "widen" || k == "meet") {
      unsigned x = S(op[2]), y = S(op[3]);
      for (unsigned a = 0; a < NA; a++) {
        std::set<int64_t> n;
        for (int64_t c : wr[x][a]) if (wr[y][a].count(c)) n.insert(c);
        wr[d][a] = n;
      }
    } else if (k == "ainit") { unsigned a = A(op[2]); wr[d][a].clear(); add_cells(wr[d][a], a, op[3], op[4]); }
    else if (k == "arange") { unsigned a = A(op[2]); add_cells(wr[d][a], a, op[3], op[4]); }
    else if (k == "astore") { unsigned a = A(op[2]); int64_t c; if (const_lin(op[3], c)) wr[d][a].insert(c); }
    else if (k == "aassign") { unsigned a = A(op[2]), b = A(op[3]); if (a != b) wr[d][a] = wr[d][b]; }
  }
  void track(const std::string &text) {
    std::vector<Sx> v;
    size_t i = 0;
    if (!sx_parse_seq(text, i, v, true)) return;
    for (auto &op : v) if (!op.is_atom && op.size() >= 2) track1(op);
  }
  // index of a load: mostly a cell that has been written
  std::string load_idx(unsigned d, unsigned a, int &used) {
    used = -1;
    if (!wr[d][a].empty() && r.below(100) < 70) {
      auto it = wr[d][a].begin();
      std::advance(it, r.below(wr[d][a].size()));
      return cnst(*it);
    }
    return idx(a, used);
  }

  std::string cnst(int64_t c) { return "(lin " + std::to_string(c) + ")"; }

  std::string val(int forbid = -1) {
    unsigned k = r.below(10);
    if (k < 6) return cnst(r.range(-20, 20));
    unsigned v = 2 + r.below(2);
    if ((int)v == forbid) return cnst(r.range(-20, 20));
    if (k < 9) return "(lin 0 (1 v" + std::to_string(v) + "))";
    return "(lin " + std::to_string(r.range(-3, 3)) + " (" + std::to_string(r.coin() ? 1 : (r.coin() ? 2 : -1)) + " v" + std::to_string(v) + "))";
  }

  int64_t cell(unsigned a) {
    int64_t e = (int64_t)esz[a];
    if (big && r.below(4) == 0) return e * r.range(0, BIGN);
    return e * (r.below(8) == 0 ? r.range(0, 9) : r.range(0, 4));
  }

  // index expression; `used` receives the index variable (or -1)
  std::string idx(unsigned a, int &used) {
    used = -1;
    int64_t e = (int64_t)esz[a];
    if (single[a]) return cnst(ostar[a]);
    unsigned k = r.below(20);
    if (k < 11) return cnst(cell(a));
    unsigned v = r.below(8) == 0 ? r.below(NV) : r.below(2);
    used = (int)v;
    if (k < 17) return "(lin " + std::to_string(e * r.range(0, 2)) + " (" + std::to_string(e) + " v" + std::to_string(v) + "))";
    if (k < 19) return "(lin 0 (1 v" + std::to_string(v) + "))";
    return "(lin " + std::to_string(e * r.range(0, 6)) + " (" + std::to_string(-e) + " v" + std::to_string(v) + "))";
  }

  // inclusive bounds of a range of cells (constant mostly)
  void bounds(unsigned a, std::string &lb, std::string &ub) {
    int64_t e = (int64_t)esz[a];
    if (single[a]) { lb = cnst(ostar[a]); ub = cnst(ostar[a] + (r.coin() ? e - 1 : 0)); return; }
    if (r.below(12) == 0) { // symbolic bound
      unsigned v = r.below(2);
      lb = cnst(0);
      ub = "(lin " + std::to_string(e - 1) + " (" + std::to_string(e) + " v" + std::to_string(v) + "))";
      return;
    }
    int64_t l = e * (r.below(3) ? 0 : r.range(0, 3));
    int64_t n = big ? r.range(0, BIGN) : (r.below(10) == 0 ? r.range(-1, 12) : r.range(0, 5));
    int64_t last = l + e * n;            // offset of the last cell
    lb = cnst(l);
    ub = cnst(r.coin() ? last : last + e - 1);
  }
};

std::string gen(Rng &r, const Args &a) {
  bool thorough = a.tier == "thorough";
  G g(r);
  static const uint64_t ES[] = {4, 4, 4, 4, 4, 1, 8, 2};
  g.esz[0] = ES[r.below(8)];
  g.esz[1] = r.below(5) == 0 ? ES[r.below(8)] : g.esz[0];
  unsigned shape = r.below(10);
  g.single[0] = shape == 0;
  g.single[1] = shape <= 2;
  g.ostar[1] = (int64_t)g.esz[1] * (r.coin() ? 0 : r.range(0, 3));
  g.ostar[0] = (g.esz[0] == g.esz[1]) ? g.ostar[1] : (int64_t)g.esz[0] * r.range(0, 2);
  g.big = r.below(6) == 0;
  bool can_assign = g.esz[0] == g.esz[1] && g.single[0] == g.single[1] && (!g.single[0] || g.ostar[0] == g.ostar[1]);
  // parameters of the adaptive domain
  static const unsigned LIM[] = {1, 2, 3, 4, 8, 64, 64, 64, 0};
  unsigned maxsize = LIM[r.below(r.below(12) == 0 ? 9 : 8)];
  unsigned maxsmash = LIM[r.below(9)];
  if (maxsmash > maxsize) maxsmash = r.coin() ? maxsize : 0;
  bool smashable = r.below(4) != 0, nonzero = r.coin();
  std::ostringstream hd;
  hd << "(arr.hist " << DOMNAME << " (par " << (smashable ? 1 : 0) << " " << (nonzero ? 1 : 0) << " " << maxsmash << " " << maxsize << ")"
     << " (esz " << g.esz[0] << " " << g.esz[1] << ") (ops";
  std::ostringstream o; // the ops
  size_t mark = 0;
  auto sync = [&]() { std::string t = o.str(); g.track(t.substr(mark)); mark = t.size(); };
  // seeding: ranges for index and value variables
  for (unsigned d = 0; d < NP; d++) {
    if (r.below(6) == 0) continue;
    for (unsigned v = 0; v < NV; v++) {
      if (r.below(5) == 0) continue;
      if (v < 2) {
        int64_t lo = r.below(3) ? 0 : r.range(-1, 3), w = r.below(3) ? r.range(0, 3) : 0;
        if (r.below(3) == 0) o << " (assign " << d << " v" << v << " (lin " << lo << "))";
        else o << " (range " << d << " v" << v << " " << lo << " " << lo + w << ")";
      } else {
        int64_t lo = r.range(-12, 12), w = r.range(0, 4);
        if (r.coin()) o << " (assign " << d << " v" << v << " (lin " << lo << "))";
        else o << " (range " << d << " v" << v << " " << lo << " " << lo + w << ")";
      }
    }
    if (r.below(3) != 0) {
      unsigned a = r.below(NA);
      std::string lb, ub;
      g.bounds(a, lb, ub);
      o << " (ainit " << d << " a" << a << " " << lb << " " << ub << " " << g.val() << ")";
    }
  }
  sync();
  // scenario library: scripted prefixes aimed at mechanisms of the two domains
  if (r.below(3) == 0) {
    int64_t e = (int64_t)g.esz[0];
    int64_t c1 = r.range(-20, 20), c2 = r.range(-20, 20), c3 = r.range(-20, 20);
    switch (r.below(11)) {
    case 0: // copy of a summary, then loads from both arrays (relation between summaries)
      if (can_assign && !g.single[0]) {
        int64_t j = r.range(0, 3);
        o << " (ainit 0 a1 (lin 0) (lin " << 4 * e - 1 << ") (lin " << c1 << ")) (astore 0 a1 (lin " << e * j << ") (lin " << c2 << ") 0)"
          << " (aassign 0 a0 a1) (aload 0 v2 a0 (lin " << e * r.range(0, 3) << ")) (aload 0 v3 a1 (lin " << e * j << "))";
        if (r.coin()) o << " (assume 0 (eq (lin " << -c1 << " (1 v2))))  (aload 0 v3 a1 (lin " << e * j << "))";
      }
      break;
    case 1: { // range store longer than the size limit over an existing far cell
      int64_t far = e * ((int64_t)std::min(maxsize, 8u) + r.range(0, 2));
      if (!g.single[0])
        o << " (astore 0 a0 (lin " << far << ") (lin " << c1 << ") 0) (arange 0 a0 (lin 0) (lin " << far + e - 1 << ") (lin " << c2 << "))"
          << " (aload 0 v2 a0 (lin " << far << "))";
      break; }
    case 2: // contents forgotten by a join with top, then a symbolic store (smash) and a load
      if (!g.single[0])
        o << " (ainit 1 a0 (lin 0) (lin " << 3 * e - 1 << ") (lin " << c1 << ")) (top 2) (join 0 1 2) (astore 0 a0 (lin 0) (lin " << c2 << ") 0)"
          << " (range 0 v0 0 2) (astore 0 a0 (lin 0 (" << e << " v0)) (lin " << c3 << ") 0) (aload 0 v2 a0 (lin " << 2 * e << "))";
      break;
    case 3: // cells killed by a symbolic store that cannot smash, then a symbolic load
      if (!g.single[0])
        o << " (ainit 0 a0 (lin 0) (lin " << 4 * e - 1 << ") (lin " << c1 << ")) (range 0 v0 0 2) (astore 0 a0 (lin 0 (" << e << " v0)) (lin " << c2 << ") 0)"
          << " (range 0 v1 0 3) (aload 0 v2 a0 (lin 0 (" << e << " v1)))";
      break;
    case 4: // array copy over an array that already has cells / a summary
      if (can_assign && !g.single[0])
        o << " (ainit 0 a0 (lin 0) (lin " << 3 * e - 1 << ") (lin " << c1 << ")) (astore 0 a1 (lin " << e << ") (lin " << c2 << ") 0)"
          << (r.coin() ? " (range 0 v0 0 2) (astore 0 a1 (lin 0 (" + std::to_string(e) + " v0)) (lin " + std::to_string(c3) + ") 0)" : "")
          << " (aassign 0 a0 a1) (aload 0 v2 a0 (lin " << e * r.range(0, 2) << "))";
      break;
    case 6: // init / range store with a SYMBOLIC bound over an array that has tracked cells or none, then a
            // store at a constant index and a symbolic load that covers tracked and untracked cells
      if (!g.single[0]) {
        int64_t lo = r.range(2, 4), hi = lo + r.range(1, 4);
        o << " (range 0 v0 " << e * lo << " " << e * hi << ")"
          << (r.coin() ? " (ainit 0 a0 (lin 0) (lin " + std::to_string(e - 1) + " (1 v0)) (lin " + std::to_string(c1) + "))"
                       : " (ainit 0 a0 (lin 0) (lin " + std::to_string(e - 1) + ") (lin " + std::to_string(c3) + ")) (arange 0 a0 (lin " + std::to_string(e) + ") (lin " + std::to_string(e - 1) + " (1 v0)) (lin " + std::to_string(c1) + "))")
          << " (astore 0 a0 (lin 0) (lin " << c2 << ") 0) (range 0 v1 0 " << r.range(1, 3) << ")"
          << " (aload 0 v2 a0 (lin 0 (" << e << " v1))) (aload 0 v3 a0 (lin " << e * r.range(0, 2) << "))";
      }
      break;
    case 9: // range store over ONE element of an array that is already smashed (symbolic store, or join with a smashed
            // value): it must stay a weak update of the summary; then loads from other cells
      if (!g.single[0]) {
        int64_t n = r.range(2, 4), k = r.range(0, n - 1);
        o << " (ainit 0 a0 (lin 0) (lin " << n * e - 1 << ") (lin " << c1 << ")) (range 0 v1 0 " << n - 1 << ")"
          << " (astore 0 a0 (lin 0 (" << e << " v1)) (lin " << c2 << ") 0)"
          << " (arange 0 a0 (lin " << k * e << ") (lin " << (r.coin() ? k * e : k * e + e - 1) << ") (lin " << c3 << "))"
          << " (aload 0 v2 a0 (lin " << ((k + 1) % n) * e << ")) (aload 0 v3 a0 (lin 0 (" << e << " v1)))";
      }
      break;
    case 8: // join of a value whose NUMERICAL part is top but whose array part is not (cells initialised with an
            // unconstrained value) with a value that has more cells; then stores to the common cells and a symbolic load
      if (!g.single[0] && NP >= 3) {
        int64_t n1 = r.range(1, 3), n2 = n1 + r.range(1, 2);
        o << " (top 1) (top 2) (ainit 1 a0 (lin 0) (lin " << n1 * e - 1 << ") (lin 0 (1 v3))) (ainit 2 a0 (lin 0) (lin " << n2 * e - 1 << ") (lin " << c1 << "))"
          << (r.coin() ? " (join 0 1 2)" : " (join 0 2 1)");
        for (int64_t k = 0; k < n1; k++) o << " (astore 0 a0 (lin " << k * e << ") (lin " << c2 << ") 0)";
        o << " (range 0 v1 0 " << n2 - 1 << ") (aload 0 v2 a0 (lin 0 (" << e << " v1)))";
      }
      break;
    case 7: // range store with symbolic bounds in the middle of an initialised array, then a symbolic load
      if (!g.single[0]) {
        o << " (ainit 0 a0 (lin 0) (lin " << 8 * e - 1 << ") (lin " << c1 << ")) (range 0 v0 " << 4 * e << " " << 5 * e << ") (range 0 v1 " << 6 * e << " " << 7 * e << ")"
          << " (arange 0 a0 (lin 0 (1 v0)) (lin " << e - 1 << " (1 v1)) (lin " << c2 << ")) (range 0 v1 0 7)"
          << " (aload 0 v2 a0 (lin 0 (" << e << " v1))) (aload 0 v3 a0 (lin " << 5 * e << "))";
      }
      break;
    default:
      if (!g.single[0] && (c1 & 1)) {
        // (selected by the parity of c1, so that the other scenarios keep their random stream) a cell written
        // BEFORE array_init, the init over cells that do not start at offset 0 (all cells known), then a symbolic
        // store strictly beyond the recorded cells (not smashed when smash_at_nonzero_offset is off or the cells
        // outnumber max_smashable_cells: the array must stop being "all cells known") and a symbolic load that
        // covers recorded and unrecorded cells  [seeded change C14d]
        int64_t n = r.range(2, 4);
        o << " (astore 0 a0 (lin " << e << ") (lin " << c3 << ") 0) (ainit 0 a0 (lin " << e << ") (lin " << n * e + e - 1 << ") (lin " << c1 << "))"
          << " (range 0 v1 " << n + 1 << " " << n + 2 << ") (astore 0 a0 (lin 0 (" << e << " v1)) (lin " << c2 << ") 0)"
          << " (range 0 v1 1 " << n + 2 << ") (aload 0 v2 a0 (lin 0 (" << e << " v1)))";
        if (r.coin()) o << " (copy 1 0) (astore 1 a0 (lin " << e << ") (lin " << c3 << ") 0) (join 0 0 1) (aload 0 v3 a0 (lin 0 (" << e << " v1)))";
        break;
      }
      // loop-like: init, then widening of a store at a growing index, then loads
      if (!g.single[0])
        o << " (ainit 0 a0 (lin 0) (lin " << 6 * e - 1 << ") (lin " << c1 << ")) (assign 0 v0 (lin 0)) (copy 1 0)"
          << " (astore 1 a0 (lin 0 (" << e << " v0)) (lin " << c2 << ") 0) (assign 1 v0 (lin 1 (1 v0))) (widen 0 0 1) (assume 0 (le (lin -5 (1 v0))))"
          << " (copy 1 0) (astore 1 a0 (lin 0 (" << e << " v0)) (lin " << c2 << ") 0) (join 0 0 1) (aload 0 v2 a0 (lin " << e * r.range(0, 5) << "))"
          << " (aload 0 v3 a0 (lin 0 (" << e << " v0)))";
      break;
    }
  }
  sync();
  unsigned len = 8 + r.below(thorough ? 50 : 22);
  for (unsigned i = 0; i < len; i++) {
    sync();
    unsigned d = r.below(NP);
    unsigned a = r.below(NA);
    unsigned k = r.below(100);
    int used = -1;
    // a load from an array without written cells loses the witnesses: write first (mostly)
    if (k >= 53 && k < 75 && g.wr[d][a].empty() && r.below(4) != 0) k = r.below(3) == 0 ? 21 : 27;
    if (k < 6) {
      unsigned v = r.below(NV);
      if (r.coin()) o << " (assign " << d << " v" << v << " (lin " << r.range(-6, 12) << "))";
      else {
        unsigned w = r.below(NV);
        o << " (assign " << d << " v" << v << " (lin " << r.range(-2, 2) << " (" << (r.below(4) ? 1 : (int)g.esz[a]) << " v" << w << ")))";
      }
    } else if (k < 12) {
      unsigned v = r.below(NV);
      int64_t lo = v < 2 ? r.range(-1, 4) : r.range(-12, 12);
      o << " (range " << d << " v" << v << " " << lo << " " << lo + r.range(0, 4) << ")";
    } else if (k < 19) {
      unsigned v = r.below(NV), w = (v + 1 + r.below(NV - 1)) % NV;
      static const char *K[] = {"le", "le", "lt", "eq", "ne"};
      switch (r.below(4)) {
      case 0: o << " (assume " << d << " (le (lin " << -r.range(0, 6) << " (1 v" << v << "))))"; break;    // v <= c
      case 1: o << " (assume " << d << " (le (lin " << r.range(-2, 4) << " (-1 v" << v << "))))"; break;   // v >= c
      case 2: o << " (assume " << d << " (" << K[r.below(5)] << " (lin " << r.range(-3, 3) << " (1 v" << v << ") (-1 v" << w << "))))"; break;
      default: o << " (assume " << d << " (" << K[r.below(5)] << " (lin " << r.range(-12, 12) << " (1 v" << v << "))))"; break;
      }
    } else if (k < 21) o << " (forget " << d << " v" << r.below(NV) << ")";
    else if (k < 27) {
      std::string lb, ub;
      g.bounds(a, lb, ub);
      o << " (ainit " << d << " a" << a << " " << lb << " " << ub << " " << g.val() << ")";
    } else if (k < 47) {
      std::string ix = g.idx(a, used);
      std::string vl = g.val();
      unsigned flag = 0;
      if (g.single[a]) flag = r.coin() ? 1 : 0;
      else if (r.below(30) == 0) { flag = 2; int u; ix = g.cnst(g.cell(a)); used = -1; (void)u; }
      o << " (astore " << d << " a" << a << " " << ix << " " << vl << " " << flag << ")";
      if (r.below(5) < 3) {
        // follow-up load of the same cell into a variable that occurs neither in the index nor in the value
        unsigned x = NV;
        for (unsigned t = 0; t < 8 && x == NV; t++) {
          unsigned c = r.below(NV);
          std::string nm = "v" + std::to_string(c) + ")";
          if (ix.find(nm) == std::string::npos && vl.find(nm) == std::string::npos) x = c;
        }
        if (x != NV) o << " (lcheck " << d << " v" << x << " a" << a << " " << ix << " " << vl << ")";
      }
    } else if (k < 53) {
      std::string lb, ub;
      g.bounds(a, lb, ub);
      o << " (arange " << d << " a" << a << " " << lb << " " << ub << " " << g.val() << ")";
    } else if (k < 70) {
      std::string ix = g.load_idx(d, a, used);
      unsigned x = r.below(4) ? 2 + r.below(2) : r.below(NV);
      o << " (aload " << d << " v" << x << " a" << a << " " << ix << ")";
    } else if (k < 75) {
      if (can_assign) { unsigned b = r.below(NA); o << " (aassign " << d << " a" << a << " a" << b << ")"; }
      else o << " (aload " << d << " v" << 2 + r.below(2) << " a" << a << " " << g.load_idx(d, a, used) << ")";
    } else if (k < 84) o << " (join " << d << " " << r.below(NP) << " " << r.below(NP) << ")";
    else if (k < 89) o << " (widen " << d << " " << r.below(NP) << " " << r.below(NP) << ")";
    else if (k < 92) o << " (meet " << d << " " << r.below(NP) << " " << r.below(NP) << ")";
    else if (k < 99) o << " (copy " << d << " " << r.below(NP) << ")";
    else o << " (top " << d << ")";
  }
  return hd.str() + o.str() + "))";
}

} // namespace

int main(int argc, char **argv) {
  // triage aid: VERIF_CRABLOG=array-adaptive,smashing enables the library's own logs (to stdout)
  if (const char *t = std::getenv("VERIF_CRABLOG")) {
    std::stringstream ss(t);
    std::string tag;
    while (std::getline(ss, tag, ',')) crab::CrabEnableLog(tag);
  }
  return run_harness(argc, argv, gen, eval);
}
