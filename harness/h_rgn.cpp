// Region / reference history harness (property C15, mechanism R): drives region_domain<Base>
// (Base selected at compile time with -DVDOM=<id>) through an operation history over a pool of
// abstract values and exports, after every operation, everything the domain says about the
// modified value.  The Lean driver (Driver/RgnH.lean) replays the history on concrete witness
// heaps and checks every export.
//
// variables : integers v0..v3, boolean b0, references r0..r3,
//             regions g0 g1 g2 (int), h0 h1 (reference), u0 (unknown type)
// request : (rgn.hist <name> (params <alloc_sites> <dealloc> <tags> <is_deref> <skip_unknown>) (ops <op> ...))
//   <op> ::= (top d) | (bot d) | (copy d s) | (join d a b) | (widen d a b) | (meet d a b)
//          | (narrow d a b) | (joineq d a) | (meeteq d a)
//          | (assign d vX <lin>) | (assume d <cst>...) | (forget d <var>) | (bassign d <cst>)
//          | (rinit d G) | (mk d R G <size> <site>) | (gep d R1 G1 R2 G2 <lin>)     R2,G2 := R1,G1 + lin
//          | (st d R G <val>) | (ld d R G <dst>) | (rcopy d Glhs Grhs) | (rcast d Gsrc Gdst)
//          | (free d G R) | (rassume d <null|nonnull|gtnull> R) | (rassume d <eq|ne> R1 R2)
//          | (sel d R G <R1|null> <G1|-> <R2|null> <G2|->)    R,G := b0 ? R1,G1 : R2,G2
//          | (addtag d G R <tag>)
//   <size> ::= constant | vX ; <val> ::= constant | vX | rX | null ; <dst> ::= vX | rX
//   <lin> ::= (lin c (k vI) ...) ; <cst> ::= (le <lin>) | (lt <lin>) | (eq <lin>) | (ne <lin>)   lin ⋈ 0
// result  : one item per op:
//   (s d <isbot> (iv <itv of v0..v3>) (cs <cst over v*>...) (rf (<y|n|m|b> <x | (as k...)>) x4) (tg <x | (t k...)> x6))
//     rf: is_null_ref (yes / no / maybe / bottom) and get_allocation_sites (x = no answer) per reference
//     tg: get_tags per region (x = no answer)
#include "common.hpp"
#include "crab_lang.hpp"

#include <crab/domains/abstract_domain_params.hpp>
#include <crab/domains/array_adaptive.hpp>
#include <crab/domains/constant_domain.hpp>
#include <crab/domains/flat_boolean_domain.hpp>
#include <crab/domains/intervals.hpp>
#include <crab/domains/region_domain.hpp>
#include <crab/domains/sign_constant_domain.hpp>
#include <crab/domains/split_dbm.hpp>
#include <crab/types/reference_constraints.hpp>
#include <crab/types/tag.hpp>

#include <sys/wait.h>
#include <unistd.h>

using namespace vh;
using namespace crab::cfg_impl;
using namespace crab::domains;
using namespace ikos;

#ifndef VDOM
#define VDOM 1
#endif

// as in tests/crab_dom.hpp (TestRegionParams): the base domain has its own variable factory
using var_allocator = crab::var_factory_impl::str_var_alloc_col;
using base_varname_t = typename var_allocator::varname_t;
template <class BaseAbsDom> struct TestRegionParams {
  using number_t = z_number;
  using varname_t = crab::cfg_impl::varname_t;
  using varname_allocator_t = crab::var_factory_impl::str_var_alloc_col;
  using base_abstract_domain_t = BaseAbsDom;
  using base_varname_t = typename BaseAbsDom::varname_t;
};
using z_dbm_graph_t = DBM_impl::DefaultParams<z_number, DBM_impl::GraphRep::adapt_ss>;

#if VDOM == 1
using Base = interval_domain<z_number, base_varname_t>;
#define DOMNAME "rgn-intervals"
#elif VDOM == 2
using Base = split_dbm_domain<z_number, base_varname_t, z_dbm_graph_t>;
#define DOMNAME "rgn-split-dbm"
#elif VDOM == 3
using Base = flat_boolean_numerical_domain<interval_domain<z_number, base_varname_t>>;
#define DOMNAME "rgn-flat-bool-intervals"
#elif VDOM == 4
using Base = array_adaptive_domain<interval_domain<z_number, base_varname_t>>;
#define DOMNAME "rgn-array-adaptive-intervals"
#elif VDOM == 5
using Base = constant_domain<z_number, base_varname_t>;
#define DOMNAME "rgn-constants"
#elif VDOM == 6
using Base = sign_constant_domain<z_number, base_varname_t>;
#define DOMNAME "rgn-sign-constants"
#else
#error "unknown VDOM"
#endif
using Dom = region_domain<TestRegionParams<Base>>;
using z_ref_cst_t = crab::reference_constraint<z_number, varname_t>;

namespace {

const unsigned NV = 4; // integer variables v0..v3
const unsigned NR = 4; // reference variables r0..r3
const unsigned NG = 6; // regions g0 g1 g2 h0 h1 u0
const unsigned NP = 3; // pool slots
const char *GNAME[NG] = {"g0", "g1", "g2", "h0", "h1", "u0"};
inline bool g_is_int(unsigned g) { return g < 3; }
inline bool g_is_ref(unsigned g) { return g == 3 || g == 4; }
inline bool g_is_unk(unsigned g) { return g == 5; }

struct Vars {
  std::vector<z_var> v, r, g;
  z_var b;
  Vars(variable_factory_t &vf) : b(vf["b0"], crab::BOOL_TYPE, 1) {
    for (unsigned i = 0; i < NV; i++) v.push_back(z_var(vf["v" + std::to_string(i)], crab::INT_TYPE, 32));
    for (unsigned i = 0; i < NR; i++) r.push_back(z_var(vf["r" + std::to_string(i)], crab::REF_TYPE, 32));
    for (unsigned i = 0; i < NG; i++) {
      if (g_is_int(i)) g.push_back(z_var(vf[GNAME[i]], crab::REG_INT_TYPE, 32));
      else if (g_is_ref(i)) g.push_back(z_var(vf[GNAME[i]], crab::REG_REF_TYPE, 32));
      else g.push_back(z_var(vf[GNAME[i]], crab::REG_UNKNOWN_TYPE, 32));
    }
  }
};
Vars *VS = nullptr;

unsigned idx(const Sx &x) { return std::stoul(x.a.substr(1)); }
unsigned gidx(const Sx &x) {
  for (unsigned i = 0; i < NG; i++) if (x.a == GNAME[i]) return i;
  throw std::runtime_error("bad region name");
}
z_var anyvar(const Sx &x) {
  char c = x.a[0];
  if (c == 'v') return VS->v[idx(x)];
  if (c == 'r') return VS->r[idx(x)];
  if (c == 'b') return VS->b;
  return VS->g[gidx(x)];
}

z_lin_exp_t parse_lin(const Sx &x) {
  z_lin_exp_t e(z_number(x[1].a));
  for (size_t i = 2; i < x.size(); i++) e = e + z_lin_exp_t(z_number(x[i][0].a), VS->v[idx(x[i][1])]);
  return e;
}
z_lin_cst_t parse_cst(const Sx &x) {
  z_lin_exp_t e = parse_lin(x[1]);
  const std::string &k = x[0].a;
  if (k == "le") return z_lin_cst_t(e, z_lin_cst_t::INEQUALITY);
  if (k == "lt") return z_lin_cst_t(e, z_lin_cst_t::STRICT_INEQUALITY);
  if (k == "eq") return z_lin_cst_t(e, z_lin_cst_t::EQUALITY);
  return z_lin_cst_t(e, z_lin_cst_t::DISEQUATION);
}
std::string lin_str(const z_lin_exp_t &e) {
  std::ostringstream o;
  o << "(lin " << zs(e.constant());
  std::vector<std::pair<unsigned, std::string>> ts;
  bool foreign = false;
  for (auto it = e.begin(); it != e.end(); ++it) {
    std::string nm = it->second.name().str();
    if (nm.size() != 2 || nm[0] != 'v' || !isdigit(nm[1]) || !it->second.get_type().is_integer()) { foreign = true; continue; }
    ts.push_back({(unsigned)std::stoul(nm.substr(1)), zs(it->first)});
  }
  std::sort(ts.begin(), ts.end());
  for (auto &t : ts) o << " (" << t.second << " v" << t.first << ")";
  o << ")";
  return foreign ? std::string("foreign") : o.str();
}
std::string cst_str(const z_lin_cst_t &c) {
  std::string l = lin_str(c.expression());
  if (l == "foreign") return "";
  const char *k = c.is_inequality() ? "le" : c.is_strict_inequality() ? "lt" : c.is_equality() ? "eq" : "ne";
  return std::string("(") + k + " " + l + ")";
}

std::string dump(Dom &d) {
  std::ostringstream o;
  o << (d.is_bottom() ? 1 : 0) << " (iv";
  for (unsigned i = 0; i < NV; i++) o << " " << ivs(d.at(VS->v[i]));
  o << ") (cs";
  {
    auto sys = d.to_linear_constraint_system();
    std::vector<std::string> cs;
    for (auto it = sys.begin(); it != sys.end(); ++it) {
      std::string s = cst_str(*it);
      if (!s.empty()) cs.push_back(s);
    }
    for (auto &s : cs) o << " " << s;
  }
  o << ") (rf";
  for (unsigned i = 0; i < NR; i++) {
    boolean_value n = d.is_null_ref(VS->r[i]);
    o << " (" << (n.is_bottom() ? "b" : n.is_true() ? "y" : n.is_false() ? "n" : "m") << " ";
    std::vector<crab::allocation_site> as;
    if (d.get_allocation_sites(VS->r[i], as)) {
      std::vector<uint64_t> ks;
      for (auto &a : as) ks.push_back(a.index());
      std::sort(ks.begin(), ks.end());
      o << "(as";
      for (auto k : ks) o << " " << k;
      o << ")";
    } else o << "x";
    o << ")";
  }
  o << ") (tg";
  for (unsigned i = 0; i < NG; i++) {
    std::vector<uint64_t> ts;
    if (d.get_tags(VS->g[i], VS->r[0], ts)) {
      std::sort(ts.begin(), ts.end());
      o << " (t";
      for (auto k : ts) o << " " << k;
      o << ")";
    } else o << " x";
  }
  o << ")";
  return o.str();
}

z_var_or_cst_t int_cst(const std::string &s) { return z_var_or_cst_t(z_number(s), crab::variable_type(crab::INT_TYPE, 32)); }

std::string eval_inner(const Sx &q) {
  crab::CrabEnableWarningMsg(false);
  variable_factory_t vf;
  Vars vars(vf);
  VS = &vars;
  // region_domain_params of this history
  const Sx &ps = q[2];
  region_domain_params p(ps[1].a == "1", ps[2].a == "1", ps[3].a == "1", ps[4].a == "1", ps[5].a == "1");
  crab_domain_params_man::get().update_params(p);
  crab::tag_manager as_man;
  std::vector<crab::allocation_site> sites;
  auto site = [&](unsigned k) {
    while (sites.size() <= k) sites.push_back(as_man.mk_tag());
    return sites[k];
  };
  std::vector<Dom> pool;
  for (unsigned i = 0; i < NP; i++) { Dom d; pool.push_back(d.make_top()); }
  const Sx &ops = q[3];
  std::ostringstream out;
  for (size_t oi = 1; oi < ops.size(); oi++) {
    const Sx &op = ops[oi];
    const std::string &k = op[0].a;
    unsigned d = std::stoul(op[1].a);
    Dom &D = pool[d];
    auto P = [&](size_t i) -> Dom & { return pool[std::stoul(op[i].a)]; };
    try {
    if (k == "top") D.set_to_top();
    else if (k == "bot") D.set_to_bottom();
    else if (k == "copy") { Dom c(P(2)); D = c; }
    else if (k == "join") { Dom r = P(2) | P(3); D = r; }
    else if (k == "widen") { Dom r = P(2) || P(3); D = r; }
    else if (k == "meet") { Dom r = P(2) & P(3); D = r; }
    else if (k == "narrow") { Dom r = P(2) && P(3); D = r; }
    else if (k == "joineq") D |= P(2);
    else if (k == "meeteq") D &= P(2);
    else if (k == "assign") D.assign(vars.v[idx(op[2])], parse_lin(op[3]));
    else if (k == "assume") {
      linear_constraint_system<z_number, varname_t> sys;
      for (size_t i = 2; i < op.size(); i++) sys += parse_cst(op[i]);
      D += sys;
    } else if (k == "forget") D -= anyvar(op[2]);
    else if (k == "bassign") D.assign_bool_cst(vars.b, parse_cst(op[2]));
    else if (k == "rinit") D.region_init(vars.g[gidx(op[2])]);
    else if (k == "mk") {
      z_var_or_cst_t sz = op[4].a[0] == 'v' ? z_var_or_cst_t(vars.v[idx(op[4])]) : int_cst(op[4].a);
      D.ref_make(vars.r[idx(op[2])], vars.g[gidx(op[3])], sz, site(std::stoul(op[5].a)));
    } else if (k == "gep")
      D.ref_gep(vars.r[idx(op[2])], vars.g[gidx(op[3])], vars.r[idx(op[4])], vars.g[gidx(op[5])], parse_lin(op[6]));
    else if (k == "st") {
      const std::string &v = op[4].a;
      z_var_or_cst_t val = v == "null" ? z_var_or_cst_t::make_reference_null()
                           : v[0] == 'v' ? z_var_or_cst_t(vars.v[idx(op[4])])
                           : v[0] == 'r' ? z_var_or_cst_t(vars.r[idx(op[4])]) : int_cst(v);
      D.ref_store(vars.r[idx(op[2])], vars.g[gidx(op[3])], val);
    } else if (k == "ld") D.ref_load(vars.r[idx(op[2])], vars.g[gidx(op[3])], anyvar(op[4]));
    else if (k == "rcopy") D.region_copy(vars.g[gidx(op[2])], vars.g[gidx(op[3])]);
    else if (k == "rcast") D.region_cast(vars.g[gidx(op[2])], vars.g[gidx(op[3])]);
    else if (k == "free") D.ref_free(vars.g[gidx(op[2])], vars.r[idx(op[3])]);
    else if (k == "rassume") {
      const std::string &c = op[2].a;
      if (c == "null") D.ref_assume(z_ref_cst_t::mk_null(vars.r[idx(op[3])]));
      else if (c == "nonnull") D.ref_assume(z_ref_cst_t::mk_not_null(vars.r[idx(op[3])]));
      else if (c == "gtnull") D.ref_assume(z_ref_cst_t::mk_gt_null(vars.r[idx(op[3])]));
      else if (c == "eq") D.ref_assume(z_ref_cst_t::mk_eq(vars.r[idx(op[3])], vars.r[idx(op[4])], z_number(0)));
      else D.ref_assume(z_ref_cst_t::mk_not_eq(vars.r[idx(op[3])], vars.r[idx(op[4])], z_number(0)));
    } else if (k == "sel") {
      auto rv = [&](const Sx &x) { return x.a == "null" ? z_var_or_cst_t::make_reference_null() : z_var_or_cst_t(vars.r[idx(x)]); };
      auto gv = [&](const Sx &x) { return x.a == "-" ? boost::optional<z_var>() : boost::optional<z_var>(vars.g[gidx(x)]); };
      D.select_ref(vars.r[idx(op[2])], vars.g[gidx(op[3])], vars.b, rv(op[4]), gv(op[5]), rv(op[6]), gv(op[7]));
    } else if (k == "addtag") {
      std::vector<z_var_or_cst_t> in{z_var_or_cst_t(vars.g[gidx(op[2])]), z_var_or_cst_t(vars.r[idx(op[3])]), int_cst(op[4].a)};
      D.intrinsic("add_tag", in, {});
    } else throw std::runtime_error("unknown op");
    } catch (const crab::verif_error &) {
      // CRAB_ERROR inside operation #oi: the whole history is reported as (err <index> <op>)
      return "(err " + std::to_string(oi - 1) + " " + k + ")";
    }
    if (getenv("RGN_TRACE")) std::cerr << "op " << oi - 1 << " " << op.str() << " -> " << dump(pool[d]) << std::endl;
    out << "(s " << d << " " << dump(pool[d]) << ") ";
  }
  return out.str();
}

// Every history runs in a forked child: a crash of the implementation (before fix 70510e9 the tree
// dereferenced a dangling `this` with region.skip_unknown_regions=false) is a result: the parent
// reports `(crash <signal>)` for that history and goes on.  RGN_NOFORK=1 disables the fork (debugging).
std::string eval(const Sx &q) {
  if (getenv("RGN_NOFORK")) return eval_inner(q);
  std::cout.flush();
  int fd[2];
  if (pipe(fd) != 0) return eval_inner(q);
  pid_t pid = fork();
  if (pid < 0) { close(fd[0]); close(fd[1]); return eval_inner(q); }
  if (pid == 0) {
    close(fd[0]);
    std::string r;
    try { r = eval_inner(q); } catch (const crab::verif_error &) { r = "err"; } catch (...) { r = "(crash exception)"; }
    size_t off = 0;
    while (off < r.size()) { ssize_t n = write(fd[1], r.data() + off, r.size() - off); if (n <= 0) break; off += (size_t)n; }
    close(fd[1]);
    _exit(0);
  }
  close(fd[1]);
  std::string r;
  char buf[65536];
  ssize_t n;
  while ((n = read(fd[0], buf, sizeof buf)) > 0) r.append(buf, (size_t)n);
  close(fd[0]);
  int st = 0;
  waitpid(pid, &st, 0);
  if (WIFSIGNALED(st)) return "(crash " + std::to_string(WTERMSIG(st)) + ")";
  // the crash handler of common.hpp turns a fatal signal into exit status 128+signal
  if (WIFEXITED(st) && WEXITSTATUS(st) > 128) return "(crash " + std::to_string(WEXITSTATUS(st) - 128) + ")";
  if (!WIFEXITED(st) || WEXITSTATUS(st) != 0) return "(crash exit)";
  return r;
}

// ---------------------------------------------------------------- generator
// What the generator remembers about a pool slot.  An operation that is illegal for the concrete
// semantics (null / foreign / freed reference, never-written cell) leaves NO witness in the slot, so
// the generator keeps the histories legal (a small rate of wild choices aside); legality itself is
// decided by the driver per witness.
struct RefInfo {
  unsigned mask = 0; // regions the reference is a member of (0: not usable)
  unsigned wr = 0;   // regions in which the cell it points to has been written
  int alias = -1;    // address class (same class = same address), -1 unknown
  int site = -1;     // allocation site, -1 unknown
  int off = -1;      // offset inside its block, -1 unknown
  int bsz = -1;      // block size, -1 unknown
};
struct Trk {
  RefInfo ref[NR];
  bool has_refs[NG] = {false, false, false, false, false, false};
  RefInfo stored[NG];   // reference regions: what is known about every stored reference (mask 0: nothing)
  bool written[NG] = {false, false, false, false, false, false};
  bool dead = false;    // the slot has (probably) no witness left
};
RefInfo merge_ref(const RefInfo &a, const RefInfo &b) {
  RefInfo t;
  t.mask = a.mask & b.mask; t.wr = a.wr & b.wr;
  t.alias = a.alias == b.alias ? a.alias : -1;
  t.site = a.site == b.site ? a.site : -1;
  t.off = a.off == b.off ? a.off : -1;
  t.bsz = a.bsz == b.bsz ? a.bsz : -1;
  if (t.site < 0) { t.off = -1; t.bsz = -1; }
  return t;
}
Trk merge(const Trk &a, const Trk &b) {
  if (a.dead) return b;
  if (b.dead) return a;
  Trk t;
  for (unsigned i = 0; i < NR; i++) t.ref[i] = merge_ref(a.ref[i], b.ref[i]);
  for (unsigned i = 0; i < NG; i++) {
    t.has_refs[i] = a.has_refs[i] || b.has_refs[i];
    t.stored[i] = merge_ref(a.stored[i], b.stored[i]);
    t.written[i] = a.written[i] && b.written[i];
  }
  return t;
}

std::string gen_small(Rng &r) {
  switch (r.below(8)) {
  case 0: return "0";
  case 1: return "1";
  case 2: return "-1";
  case 3: return std::to_string(r.range(-100, 100));
  default: return std::to_string(r.range(-9, 12));
  }
}
std::string gen_lin(Rng &r) {
  std::string s = "(lin " + gen_small(r);
  unsigned k = r.below(3);
  std::vector<bool> used(NV, false);
  for (unsigned i = 0; i < k; i++) {
    unsigned v = r.below(NV);
    if (used[v]) continue;
    used[v] = true;
    static const char *C[] = {"1", "1", "-1", "2", "-3"};
    s += std::string(" (") + C[r.below(5)] + " v" + std::to_string(v) + ")";
  }
  return s + ")";
}
std::string gen_cst(Rng &r) {
  static const char *K[] = {"le", "le", "le", "lt", "eq", "ne"};
  std::string k = K[r.below(6)];
  unsigned shape = r.below(8);
  if (shape <= 3) { // loose one-variable bounds (v <= c with c >= 4, v >= c with c <= 1): most witnesses survive
    unsigned v = r.below(NV);
    if (r.coin()) return "(le (lin " + std::to_string(-r.range(4, 14)) + " (1 v" + std::to_string(v) + ")))";
    return "(le (lin " + std::to_string(r.range(-3, 1)) + " (-1 v" + std::to_string(v) + ")))";
  }
  if (shape <= 5) return "(" + k + " (lin " + gen_small(r) + " (" + (r.coin() ? "1" : "-1") + " v" + std::to_string(r.below(NV)) + ")))";
  if (shape == 6) {
    unsigned a = r.below(NV), b = (a + 1 + r.below(NV - 1)) % NV;
    return "(" + k + " (lin " + gen_small(r) + " (1 v" + std::to_string(a) + ") (-1 v" + std::to_string(b) + ")))";
  }
  return "(" + k + " " + gen_lin(r) + ")";
}
std::vector<unsigned> bits(unsigned m) {
  std::vector<unsigned> v;
  for (unsigned g = 0; g < NG; g++) if (m & (1u << g)) v.push_back(g);
  return v;
}
const unsigned INTG = 0x7, REFG = 0x18, UNKG = 0x20, ALLG = 0x3f;

std::string gen(Rng &r, const Args &a) {
  bool thorough = a.tier == "thorough";
  unsigned len = 8 + r.below(thorough ? 70 : 34);
  std::ostringstream o;
  // region_domain_params: the defaults (1 0 1 0 1) sometimes, else uniform over the 32 settings
  unsigned pm = r.below(5) == 0 ? 0x15 : r.below(32);
  o << "(rgn.hist " << DOMNAME << " (params " << (pm & 1) << " " << ((pm >> 1) & 1) << " " << ((pm >> 2) & 1) << " "
    << ((pm >> 3) & 1) << " " << ((pm >> 4) & 1) << ") (ops";
  Trk T[NP];
  unsigned next_site = 0;
  int next_alias = 0;
  auto R = [&](unsigned i) { return "r" + std::to_string(i); };
  auto V = [&](unsigned i) { return "v" + std::to_string(i); };
  auto wild = [&]() { return r.below(80) == 0; }; // rate of deliberately unchecked choices
  unsigned profile = r.below(5); // 0,4 mixed, 1 one region many references, 2 references in regions, 3 lattice heavy
  unsigned focus_int = profile == 1 ? 0x1 : (r.coin() ? 0x3 : INTG); // integer regions the history concentrates on
  auto pick = [&](const std::vector<unsigned> &v) { return v[r.below(v.size())]; };
  // references usable with some region of `allowed` / pointing to a written cell of it
  auto usable = [&](const Trk &t, unsigned allowed, bool written) {
    std::vector<unsigned> v;
    for (unsigned i = 0; i < NR; i++) if ((written ? t.ref[i].wr : t.ref[i].mask) & allowed) v.push_back(i);
    return v;
  };
  auto do_mk = [&](unsigned d, Trk &t, unsigned ri, unsigned g, int sz) {
    o << " (mk " << d << " " << R(ri) << " " << GNAME[g] << " " << sz << " " << next_site << ")";
    RefInfo &x = t.ref[ri];
    x.mask = 1u << g; x.wr = 0; x.alias = next_alias++; x.site = (int)next_site++; x.off = 0; x.bsz = sz;
    t.has_refs[g] = true;
  };
  static const int SZ[] = {4, 8, 16, 40, 16, 8};
  // seeding: initialise regions in slot 0 (most of them, most of the time), small values for the integers,
  // a few references, then start the other slots from it
  for (unsigned g = 0; g < NG; g++)
    if (r.below(6) != 0) o << " (rinit 0 " << GNAME[g] << ")";
  for (unsigned v = 0; v < NV; v++) {
    switch (r.below(8)) {
    case 0: case 1: case 2: o << " (assign 0 " << V(v) << " (lin " << r.range(0, 9) << "))"; break;
    case 3: { int64_t lo = r.range(-2, 3), hi = lo + r.range(4, 9); // a range most small witnesses satisfy
              o << " (assume 0 (le (lin " << lo << " (-1 " << V(v) << "))) (le (lin " << -hi << " (1 " << V(v) << "))))"; break; }
    case 4: case 5: o << " (assign 0 " << V(v) << " (lin " << r.range(0, 2) * 4 << "))"; break;
    default: break;
    }
  }
  {
    unsigned nmk = profile == 1 ? 1 : 1 + r.below(3);
    for (unsigned j = 0; j < nmk; j++) {
      unsigned ri = profile == 1 ? 0 : r.below(NR), g = (profile == 2 && r.coin()) ? 3 + r.below(2) : pick(bits(focus_int));
      do_mk(0, T[0], ri, g, SZ[1 + r.below(3)]);
    }
  }
  for (unsigned s = 1; s < NP; s++) {
    if (r.below(4) != 0) { o << " (copy " << s << " 0)"; T[s] = T[0]; }
  }
  for (unsigned i = 0; i < len; i++) {
    unsigned d = r.below(NP);
    // a slot without witnesses checks nothing: mostly restart it from another slot
    if (T[d].dead && r.below(3) != 0) {
      unsigned s = r.below(NP);
      if (!T[s].dead && s != d) { o << " (copy " << d << " " << s << ")"; T[d] = T[s]; continue; }
    }
    Trk &t = T[d];
    unsigned k = r.below(100);
    // profile 1 ("one owner"): one region, r0 is the only variable that receives new references
    // (allocations, pointer arithmetic), the others only aliases of it: mostly make / gep / store / load
    bool owner = profile == 1;
    if (owner && r.below(8) != 0) { unsigned z = r.below(100); k = z < 8 ? 0 : z < 34 ? 10 : z < 66 ? 22 : 40; }
    if (profile == 3 && r.below(3) == 0) k = 86 + r.below(14);
    if (profile == 2 && r.below(3) == 0) k = 200 + r.below(3); // reference-region traffic
    if (k < 10) { // ref_make (the same variable again sometimes: the old reference may still be aliased)
      auto us = usable(t, ALLG, false);
      unsigned ri = owner ? 0 : (!us.empty() && r.below(3) == 0) ? pick(us) : r.below(NR);
      unsigned g = owner ? 0 : (t.ref[ri].mask && r.coin()) ? pick(bits(t.ref[ri].mask))
                   : pick(bits(r.below(10) == 0 ? ALLG : r.below(5) == 0 ? REFG : focus_int));
      if (r.below(30) == 0) { // symbolic size
        o << " (mk " << d << " " << R(ri) << " " << GNAME[g] << " " << V(r.below(NV)) << " " << next_site << ")";
        RefInfo &x = t.ref[ri];
        x.mask = 1u << g; x.wr = 0; x.alias = next_alias++; x.site = (int)next_site++; x.off = 0; x.bsz = -1;
        t.has_refs[g] = true;
      } else do_mk(d, t, ri, g, SZ[r.below(6)]);
    } else if (k < 22) { // ref_gep
      auto us = usable(t, ALLG, false);
      if (us.empty() && !wild()) { do_mk(d, t, r.below(NR), pick(bits(focus_int)), SZ[r.below(6)]); continue; }
      unsigned r1 = (us.empty() || wild()) ? r.below(NR) : pick(us);
      unsigned r2 = r.below(3) == 0 ? r1 : r.below(NR);
      unsigned sh = r.below(12);
      if (owner) { // r0 := r0 + k  or  rJ := alias of some reference
        if (r.coin() && t.ref[0].mask) { r1 = 0; r2 = 0; sh = 4 + r.below(5); } else { r2 = 1 + r.below(NR - 1); sh = 0; }
      }
      RefInfo x1 = t.ref[r1];
      unsigned g1 = (x1.mask && !wild()) ? pick(bits(x1.mask)) : r.below(NG);
      unsigned g2 = (owner || r.below(5) != 0) ? g1 : r.below(NG);
      // offset: stay inside the block when its size and the current offset are known
      std::string off; bool zero = false; int noff = -1;
      if (sh < 4) { off = "(lin 0)"; zero = true; noff = x1.off; }
      else if (sh < 9 && x1.off >= 0 && x1.bsz >= 0) {
        std::vector<int> cand;
        for (int dl : {4, 8, -4, -8, 12, 1, -1, 16}) if (x1.off + dl >= 0 && x1.off + dl <= x1.bsz) cand.push_back(dl);
        if (cand.empty()) { off = "(lin 0)"; zero = true; noff = x1.off; }
        else { int dl = cand[r.below(cand.size())]; off = "(lin " + std::to_string(dl) + ")"; noff = x1.off + dl; }
      } else if (sh < 11) { // symbolic
        off = r.coin() ? "(lin 0 (1 v" + std::to_string(r.below(NV)) + "))"
                       : "(lin " + std::to_string(r.range(-1, 1) * 4) + " (" + (r.coin() ? "4" : "1") + " v" + std::to_string(r.below(NV)) + "))";
      } else off = "(lin " + std::to_string(r.range(-8, 16)) + ")";
      o << " (gep " << d << " " << R(r1) << " " << GNAME[g1] << " " << R(r2) << " " << GNAME[g2] << " " << off << ")";
      RefInfo &x2 = t.ref[r2];
      x2.mask = 1u << g2; t.has_refs[g2] = true;
      x2.wr = zero ? (x1.wr & (1u << g2)) : 0;
      x2.alias = zero ? x1.alias : next_alias++;
      x2.site = x1.site; x2.bsz = x1.bsz; x2.off = noff;
      if (!(x1.mask & (1u << g1))) t.dead = true;
    } else if (k < 40 || k == 200) { // ref_store
      auto us = usable(t, k == 200 ? REFG : ALLG, false);
      if (us.empty() && !wild()) { do_mk(d, t, r.below(NR), k == 200 ? 3 + r.below(2) : pick(bits(focus_int)), SZ[r.below(6)]); continue; }
      unsigned ri = (us.empty() || wild()) ? r.below(NR) : pick(us);
      RefInfo &x = t.ref[ri];
      unsigned m = x.mask & (k == 200 ? REFG : ALLG);
      unsigned g = (m && !wild()) ? pick(bits(m)) : r.below(NG);
      std::string val;
      if (g_is_ref(g)) {
        auto vs = usable(t, ALLG, false);
        if (r.below(6) == 0 || vs.empty()) { val = "null"; t.stored[g] = t.written[g] ? merge_ref(t.stored[g], RefInfo()) : RefInfo(); }
        else { unsigned rv = pick(vs); val = R(rv); t.stored[g] = t.written[g] ? merge_ref(t.stored[g], t.ref[rv]) : t.ref[rv]; }
      } else val = r.below(3) == 0 ? V(r.below(NV)) : gen_small(r);
      o << " (st " << d << " " << R(ri) << " " << GNAME[g] << " " << val << ")";
      bool legal = (x.mask & (1u << g)) && (x.off < 0 || x.bsz < 0 || x.off < x.bsz);
      if (!legal) t.dead = true;
      t.written[g] = true;
      // every reference of the same address class now points to a written cell of g
      for (unsigned j = 0; j < NR; j++)
        if (j == ri || (x.alias >= 0 && t.ref[j].alias == x.alias)) if (t.ref[j].mask & (1u << g)) t.ref[j].wr |= 1u << g;
    } else if (k < 56 || k == 201) { // ref_load: from a cell known to be written
      unsigned allowed = k == 201 ? REFG : ALLG;
      auto us = usable(t, allowed, true);
      if (us.empty() && !wild()) { // nothing to load yet: store instead
        auto ss = usable(t, INTG, false);
        if (ss.empty()) { do_mk(d, t, r.below(NR), pick(bits(focus_int)), SZ[r.below(6)]); continue; }
        unsigned ri = pick(ss); unsigned g = pick(bits(t.ref[ri].mask & INTG));
        o << " (st " << d << " " << R(ri) << " " << GNAME[g] << " " << gen_small(r) << ")";
        RefInfo &x = t.ref[ri];
        if (!(x.off < 0 || x.bsz < 0 || x.off < x.bsz)) t.dead = true;
        t.written[g] = true;
        for (unsigned j = 0; j < NR; j++)
          if (j == ri || (x.alias >= 0 && t.ref[j].alias == x.alias)) if (t.ref[j].mask & (1u << g)) t.ref[j].wr |= 1u << g;
        continue;
      }
      unsigned ri = (us.empty() || wild()) ? r.below(NR) : pick(us);
      unsigned m = t.ref[ri].wr & allowed;
      unsigned g = (m && !wild()) ? pick(bits(m)) : r.below(NG);
      if (!(t.ref[ri].wr & (1u << g))) t.dead = true;
      if (g_is_ref(g)) {
        unsigned rd = r.below(NR);
        o << " (ld " << d << " " << R(ri) << " " << GNAME[g] << " " << R(rd) << ")";
        t.ref[rd] = t.stored[g]; t.ref[rd].wr = 0;
      } else o << " (ld " << d << " " << R(ri) << " " << GNAME[g] << " " << V(r.below(NV)) << ")";
    } else if (k < 60) o << " (assign " << d << " " << V(r.below(NV)) << " " << gen_lin(r) << ")";
    else if (k < 63) {
      o << " (assume " << d;
      unsigned n = 1 + (r.below(4) == 0 ? 1 : 0);
      for (unsigned j = 0; j < n; j++) o << " " << gen_cst(r);
      o << ")";
    } else if (k < 66) {
      unsigned w = r.below(6);
      if (w < 3) o << " (forget " << d << " " << V(r.below(NV)) << ")";
      else if (w < 5) { unsigned ri = r.below(NR); o << " (forget " << d << " " << R(ri) << ")"; t.ref[ri] = RefInfo(); }
      else { unsigned g = r.below(NG); o << " (forget " << d << " " << GNAME[g] << ")"; t.has_refs[g] = false; }
    } else if (k < 68) o << " (bassign " << d << " " << gen_cst(r) << ")";
    else if (k < 72) { // region_copy: same static type
      unsigned l, rr;
      // lhs != rhs: region_copy(g, g) raises CRAB_ERROR with region.deallocation (union_find_domain::add forgets g first)
      if (r.below(4) == 0) { l = 3 + r.below(2); rr = 7 - l; } else { l = r.below(3); rr = (l + 1 + r.below(2)) % 3; }
      o << " (rcopy " << d << " " << GNAME[l] << " " << GNAME[rr] << ")";
      auto mv = [&](unsigned &m) { m = (m & (1u << rr)) ? (m | (1u << l)) : (m & ~(1u << l)); };
      for (unsigned j = 0; j < NR; j++) { mv(t.ref[j].mask); mv(t.ref[j].wr); }
      for (unsigned g = 0; g < NG; g++) mv(t.stored[g].mask);
      t.has_refs[l] = t.has_refs[rr]; t.stored[l] = t.stored[rr]; t.written[l] = t.written[rr];
    } else if (k < 75) { // region_cast: exactly one side of unknown type
      unsigned g = r.below(8) == 0 ? 3 + r.below(2) : r.below(3);
      unsigned s = r.coin() ? g : 5, dd = s == 5 ? g : 5;
      o << " (rcast " << d << " " << GNAME[s] << " " << GNAME[dd] << ")";
      auto mv = [&](unsigned &m) { m = (m & (1u << s)) ? (m | (1u << dd)) : (m & ~(1u << dd)); };
      for (unsigned j = 0; j < NR; j++) { mv(t.ref[j].mask); mv(t.ref[j].wr); }
      for (unsigned g2 = 0; g2 < NG; g2++) mv(t.stored[g2].mask);
      t.has_refs[dd] = t.has_refs[s]; t.stored[dd] = t.stored[s]; t.written[dd] = t.written[s];
    } else if (k < 76) { // ref_free: every reference into the block becomes unusable
      auto us = usable(t, ALLG, false);
      if (us.empty()) continue;
      unsigned ri = pick(us);
      unsigned g = pick(bits(t.ref[ri].mask));
      o << " (free " << d << " " << GNAME[g] << " " << R(ri) << ")";
      int st = t.ref[ri].site;
      for (unsigned j = 0; j < NR; j++) if (j == ri || st < 0 || t.ref[j].site == st || t.ref[j].site < 0) { t.ref[j].mask = 0; t.ref[j].wr = 0; }
      for (unsigned g2 = 0; g2 < NG; g2++) if (st < 0 || t.stored[g2].site == st || t.stored[g2].site < 0) t.stored[g2] = RefInfo();
    } else if (k < 81) { // ref_assume
      if (r.coin()) {
        unsigned ri = r.below(NR);
        bool made = t.ref[ri].mask != 0;
        // "is null" on a reference that was made (or "not null" on one that was not) leaves no witness
        const char *c = (made && !wild()) ? (r.coin() ? "nonnull" : "gtnull") : (!made && !wild()) ? "null" : (r.coin() ? "null" : "nonnull");
        o << " (rassume " << d << " " << c << " " << R(ri) << ")";
      } else {
        unsigned a1 = r.below(NR), b1 = (a1 + 1 + r.below(NR - 1)) % NR;
        const RefInfo &x = t.ref[a1], &y = t.ref[b1];
        bool same = (x.alias >= 0 && x.alias == y.alias) || (!x.mask && !y.mask);
        bool differ = x.alias >= 0 && y.alias >= 0 && x.alias != y.alias;
        const char *c = wild() ? (r.coin() ? "eq" : "ne") : same ? "eq" : differ ? "ne" : (r.coin() ? "eq" : "ne");
        o << " (rassume " << d << " " << c << " " << R(a1) << " " << R(b1) << ")";
      }
    } else if (k < 84 || k == 202) { // select_ref
      auto us = usable(t, ALLG, false);
      unsigned rl = r.below(NR);
      unsigned nul = us.empty() ? r.below(2) : r.below(6);
      unsigned ra = us.empty() ? 0 : pick(us), rb = us.empty() ? 0 : pick(us);
      RefInfo xa = t.ref[ra], xb = t.ref[rb];
      unsigned ga = xa.mask ? pick(bits(xa.mask)) : 0, gb = xb.mask ? pick(bits(xb.mask)) : 0;
      unsigned gl = r.below(3) ? ga : r.below(NG);
      bool n1 = nul == 0 || us.empty(), n2 = nul == 1 || (us.empty() && nul != 0);
      o << " (sel " << d << " " << R(rl) << " " << GNAME[gl] << " ";
      if (n1) o << "null - "; else o << R(ra) << " " << GNAME[ga] << " ";
      if (n2) o << "null -)"; else o << R(rb) << " " << GNAME[gb] << ")";
      RefInfo &x = t.ref[rl];
      if (n1 || n2) x = RefInfo(); // may be null: not usable
      else { x = merge_ref(xa, xb); x.mask = 1u << gl; x.wr &= 1u << gl; }
      t.has_refs[gl] = true;
    } else if (k < 86) {
      auto us = usable(t, ALLG, false);
      if (us.empty()) continue;
      unsigned ri = pick(us);
      o << " (addtag " << d << " " << GNAME[pick(bits(t.ref[ri].mask))] << " " << R(ri) << " " << r.below(4) << ")";
    } else if (k < 88) { // region_init: only legal while the region's reference counter is not >= 1
      std::vector<unsigned> ok;
      for (unsigned g = 0; g < NG; g++) if (!t.has_refs[g]) ok.push_back(g);
      if (!ok.empty()) {
        unsigned g = pick(ok);
        o << " (rinit " << d << " " << GNAME[g] << ")";
        t.written[g] = false; t.stored[g] = RefInfo();
        for (unsigned j = 0; j < NR; j++) { t.ref[j].mask &= ~(1u << g); t.ref[j].wr &= ~(1u << g); }
      }
    } else if (k < 92) { unsigned a1 = r.below(NP), b1 = r.below(NP); o << " (join " << d << " " << a1 << " " << b1 << ")"; T[d] = merge(T[a1], T[b1]); }
    else if (k < 94) { unsigned a1 = r.below(NP), b1 = r.below(NP); o << " (widen " << d << " " << a1 << " " << b1 << ")"; T[d] = merge(T[a1], T[b1]); }
    else if (k < 95) { // meet: of a value with a copy of itself refined by a constraint (a meet of unrelated values has no common witness)
      unsigned a1 = r.below(NP), b1 = (a1 + 1 + r.below(NP - 1)) % NP;
      if (r.below(4) == 0) { o << " (meet " << d << " " << a1 << " " << b1 << ")"; T[d] = merge(T[a1], T[b1]); T[d].dead = true; }
      else { o << " (copy " << b1 << " " << a1 << ") (assume " << b1 << " " << gen_cst(r) << ") (meet " << d << " " << a1 << " " << b1 << ")"; T[b1] = T[a1]; T[d] = T[a1]; }
    } else if (k < 96) { unsigned s = r.below(NP), b1 = (s + 1 + r.below(NP - 1)) % NP;
                       o << " (copy " << b1 << " " << s << ") (assume " << b1 << " " << gen_cst(r) << ") (meet " << d << " " << s << " " << b1 << ") (narrow " << d << " " << s << " " << d << ")";
                       T[b1] = T[s]; T[d] = T[s]; }
    else if (k < 97) { unsigned a1 = r.below(NP); o << " (joineq " << d << " " << a1 << ")"; T[d] = merge(T[d], T[a1]); }
    else if (k < 99) { unsigned s = r.below(NP); o << " (copy " << d << " " << s << ")"; T[d] = T[s]; }
    else if (r.below(3) == 0) { bool top = r.below(4) != 0; o << " (" << (top ? "top " : "bot ") << d << ")"; T[d] = Trk(); T[d].dead = !top; }
    else { unsigned a1 = r.below(NP); o << " (copy " << a1 << " " << d << ") (meeteq " << d << " " << a1 << ")"; T[a1] = T[d]; }
  }
  // scripted tail (scenario library), on a fresh value of one slot: several objects reach ONE region through
  // references created for another region (zero-offset gep / make + gep), each is stored through its own
  // reference, then both are loaded: the region holds more than one cell, so no store may be strong
  if (r.below(10) == 0) {
    unsigned d = r.below(NP), ga = r.below(3), gb = (ga + 1 + r.below(2)) % 3;
    int c1 = (int)r.range(-9, 9), c2 = c1 + (int)r.range(1, 9);
    o << " (top " << d << ") (rinit " << d << " " << GNAME[ga] << ") (rinit " << d << " " << GNAME[gb] << ")";
    o << " (mk " << d << " r0 " << GNAME[ga] << " 8 " << next_site++ << ")";
    bool mk2 = r.coin(); // second object: allocated in ga and moved by gep, or allocated in gb directly
    if (mk2) o << " (mk " << d << " r3 " << GNAME[gb] << " 8 " << next_site++ << ")";
    else o << " (mk " << d << " r1 " << GNAME[ga] << " 8 " << next_site++ << ") (gep " << d << " r1 " << GNAME[ga] << " r3 " << GNAME[gb] << " (lin 0))";
    o << " (gep " << d << " r0 " << GNAME[ga] << " r2 " << GNAME[gb] << " (lin 0))";
    if (r.coin()) o << " (st " << d << " r2 " << GNAME[gb] << " " << c1 << ") (st " << d << " r3 " << GNAME[gb] << " " << c2 << ")";
    else o << " (st " << d << " r3 " << GNAME[gb] << " " << c2 << ") (st " << d << " r2 " << GNAME[gb] << " " << c1 << ")";
    o << " (ld " << d << " r2 " << GNAME[gb] << " v0) (ld " << d << " r3 " << GNAME[gb] << " v1)";
  }
  // scripted tail: a region holding two cells with different values is copied; a fact learnt about a value loaded
  // from the source must not carry over to the other cell read through the copy (the summary of a region with
  // several references may not be related to its copy by an equality)
  if (r.below(10) == 0) {
    unsigned d = r.below(NP), ga = r.below(3), gb = (ga + 1 + r.below(2)) % 3;
    int c1 = (int)r.range(-9, 9), c2 = c1 + (int)r.range(1, 9);
    o << " (top " << d << ") (rinit " << d << " " << GNAME[ga] << ") (rinit " << d << " " << GNAME[gb] << ")"
      << " (mk " << d << " r0 " << GNAME[ga] << " 8 " << next_site++ << ") (mk " << d << " r1 " << GNAME[ga] << " 8 " << next_site++ << ")"
      << " (st " << d << " r0 " << GNAME[ga] << " " << c1 << ") (st " << d << " r1 " << GNAME[ga] << " " << c2 << ")"
      << " (rcopy " << d << " " << GNAME[gb] << " " << GNAME[ga] << ")";
    bool fromSrc = r.coin(); // learn about the source and read the copy, or the other way round
    o << " (ld " << d << " r1 " << GNAME[fromSrc ? ga : gb] << " v0) (assume " << d << " (le (lin " << c2 << " (-1 v0))))"
      << " (ld " << d << " r0 " << GNAME[fromSrc ? gb : ga] << " v1)";
  }
  o << "))";
  return o.str();
}

} // namespace

int main(int argc, char **argv) { return run_harness(argc, argv, gen, eval); }
