// Harness for component `fix`: the REAL ikos::interleaved_fwd_fixpoint_iterator driven with a
// client value type (finite set of concrete states as a bit mask) whose block transformer is the
// exact image under a per-block transition relation.
#include "common.hpp"
#include "crab_lang.hpp"
#include <crab/fixpoint/interleaved_fixpoint_iterator.hpp>
#include <map>
#include <memory>

using namespace vh;
using namespace crab::cfg_impl;

namespace {

struct Cfgv {
  unsigned ns = 1;
  unsigned wmode = 0, nmode = 0;
};
static Cfgv G;

struct SetVal {
  uint64_t m = 0;
  SetVal() {}
  explicit SetVal(uint64_t x) : m(x) {}
  static uint64_t topmask() { return G.ns >= 64 ? ~0ULL : ((1ULL << G.ns) - 1); }
  SetVal make_top() const { return SetVal(topmask()); }
  SetVal make_bottom() const { return SetVal(0); }
  bool operator<=(const SetVal &o) const { return (m | o.m) == o.m; }
  SetVal operator|(const SetVal &o) const { return SetVal(m | o.m); }
  void operator|=(const SetVal &o) { m |= o.m; }
  SetVal operator&(const SetVal &o) const { return SetVal(m & o.m); }
  SetVal operator||(const SetVal &o) const {
    if (G.wmode == 0) return SetVal(m | o.m);
    return (o <= *this) ? *this : SetVal(topmask());
  }
  template <class T> SetVal widening_thresholds(const SetVal &o, const T &) const { return *this || o; }
  SetVal operator&&(const SetVal &o) const {
    if (G.nmode == 0) return SetVal(m & o.m);
    return (m == topmask()) ? o : *this;
  }
};
inline crab::crab_os &operator<<(crab::crab_os &o, const SetVal &v) { o << (unsigned long)v.m; return o; }

struct Prog {
  unsigned n = 0;
  std::vector<std::vector<unsigned>> succ; // insertion order
  std::vector<std::vector<uint64_t>> rel;  // rel[b][s] = successor mask
};

class Iter : public ikos::interleaved_fwd_fixpoint_iterator<z_cfg_ref_t, SetVal> {
  using base = ikos::interleaved_fwd_fixpoint_iterator<z_cfg_ref_t, SetVal>;
  const Prog &P;

public:
  Iter(z_cfg_ref_t cfg, const crab::fixpoint_parameters &params, const Prog &p)
      : base(cfg, SetVal(), params, false), P(p) {}
  SetVal analyze(const std::string &l, SetVal &&v) override {
    unsigned b = std::stoul(l.substr(1));
    uint64_t r = 0;
    for (unsigned s = 0; s < G.ns; s++)
      if (v.m >> s & 1) r |= P.rel[b][s];
    return SetVal(r);
  }
  void process_pre(const std::string &, SetVal) override {}
  void process_post(const std::string &, SetVal) override {}
};

std::string lab(unsigned b) { return "b" + std::to_string(b); }
unsigned unlab(const std::string &l) { return std::stoul(l.substr(1)); }

struct WtoPrinter : public ikos::wto_component_visitor<z_cfg_ref_t> {
  std::string out;
  void visit(ikos::wto_vertex<z_cfg_ref_t> &v) override { out += " " + std::to_string(unlab(v.node())); }
  void visit(ikos::wto_cycle<z_cfg_ref_t> &c) override {
    out += " (" + std::to_string(unlab(c.head()));
    for (auto it = c.begin(); it != c.end(); ++it) it->accept(this);
    out += ")";
  }
};

// request: (fix.run ns n (succs (..)...) cfgentry start init <asm> delay desc wmode nmode (rel (..)...))
// the result carries what the model needs from the implementation's own data structures:
//   => (preds ...) (wto ...) (nest ...) (pre ...) (post ...)
// (the driver takes preds / wto / nesting as *inputs* of the iterator model; C07 checks the WTO itself)
std::string eval(const Sx &q) {
  Prog P;
  G.ns = std::stoul(q[1].a);
  P.n = std::stoul(q[2].a);
  const Sx &succs = q[3];
  for (unsigned b = 0; b < P.n; b++) {
    std::vector<unsigned> s;
    for (size_t i = 0; i < succs[b + 1].size(); i++) s.push_back(std::stoul(succs[b + 1][i].a));
    P.succ.push_back(s);
  }
  unsigned cfgentry = std::stoul(q[4].a);
  unsigned start = std::stoul(q[5].a);
  uint64_t init = std::stoull(q[6].a);
  const Sx &asm_ = q[7];
  unsigned delay = std::stoul(q[8].a), desc = std::stoul(q[9].a);
  G.wmode = std::stoul(q[10].a);
  G.nmode = std::stoul(q[11].a);
  const Sx &rel = q[12];
  for (unsigned b = 0; b < P.n; b++) {
    std::vector<uint64_t> r;
    for (unsigned s = 0; s < G.ns; s++) r.push_back(std::stoull(rel[b + 1][s].a));
    P.rel.push_back(r);
  }
  z_cfg_t cfg(lab(cfgentry));
  for (unsigned b = 0; b < P.n; b++) cfg.insert(lab(b));
  for (unsigned b = 0; b < P.n; b++)
    for (unsigned t : P.succ[b]) cfg.get_node(lab(b)) >> cfg.get_node(lab(t));
  z_cfg_ref_t ref(cfg);
  crab::fixpoint_parameters params;
  params.get_widening_delay() = delay;
  params.get_descending_iterations() = desc;
  params.get_max_thresholds() = 0;
  Iter it(ref, params, P);
  typename Iter::assumption_map_t am;
  bool has_asm = !asm_.is_atom;
  if (has_asm)
    for (size_t i = 1; i < asm_.size(); i++) am.insert({lab(std::stoul(asm_[i][0].a)), SetVal(std::stoull(asm_[i][1].a))});
  if (!has_asm && start == cfgentry)
    it.run(SetVal(init));
  else
    it.run(lab(start), SetVal(init), am);
  std::ostringstream o;
  o << "(preds";
  for (unsigned b = 0; b < P.n; b++) {
    o << " (";
    bool first = true;
    for (auto p : ref.prev_nodes(lab(b))) { o << (first ? "" : " ") << unlab(p); first = false; }
    o << ")";
  }
  o << ") (wto";
  WtoPrinter wp;
  it.get_wto().accept(&wp);
  o << wp.out << ") (nest";
  for (unsigned b = 0; b < P.n; b++) {
    o << " (";
    auto nst = it.get_wto().nesting(lab(b));
    if (nst) {
      bool first = true;
      for (auto h : *nst) { o << (first ? "" : " ") << unlab(h); first = false; }
      o << ")";
    } else {
      o.seekp(-1, std::ios_base::cur); // replace "(" by the marker of "not in the ordering"
      o << "x";
    }
  }
  o << ") (pre";
  for (unsigned b = 0; b < P.n; b++) o << " " << it.get_pre(lab(b)).m;
  o << ") (post";
  for (unsigned b = 0; b < P.n; b++) o << " " << it.get_post(lab(b)).m;
  o << ")";
  return o.str();
}

std::string gen(Rng &r, const Args &a) {
  bool thorough = a.tier == "thorough";
  unsigned ns = 1 + r.below(thorough ? 10 : 6);
  unsigned n = 1 + r.below(thorough ? 14 : 8);
  std::ostringstream o;
  o << "(fix.run " << ns << " " << n << " (succs";
  // graph shapes: sparse / dense / chain with back edges; self loops; unreachable parts
  unsigned dens = 1 + r.below(4);
  std::vector<std::vector<unsigned>> succ(n);
  for (unsigned b = 0; b < n; b++) {
    unsigned k = r.below(dens + 1);
    if (r.below(3) == 0 && b + 1 < n) succ[b].push_back(b + 1);
    for (unsigned i = 0; i < k; i++) {
      unsigned t = r.below(n);
      bool dup = false;
      for (unsigned x : succ[b]) dup |= (x == t);
      if (!dup) succ[b].push_back(t);
    }
  }
  for (unsigned b = 0; b < n; b++) {
    o << " (";
    for (size_t i = 0; i < succ[b].size(); i++) o << (i ? " " : "") << succ[b][i];
    o << ")";
  }
  unsigned cfgentry = r.below(n);
  // start block: mostly the cfg entry; otherwise any block (the driver decides admissibility)
  unsigned start = cfgentry;
  if (r.below(4) == 0) {
    // any block reachable from the cfg entry
    std::vector<unsigned> reach{cfgentry};
    std::vector<bool> seen(n, false);
    seen[cfgentry] = true;
    for (size_t i = 0; i < reach.size(); i++)
      for (unsigned t : succ[reach[i]])
        if (!seen[t]) { seen[t] = true; reach.push_back(t); }
    start = reach[r.below(reach.size())];
  }
  uint64_t top = (1ULL << ns) - 1;
  uint64_t init = r.below(5) == 0 ? top : (r.next() & top);
  if (init == 0 && r.coin()) init = 1;
  o << ") " << cfgentry << " " << start << " " << init << " ";
  if (r.below(3) == 0) {
    o << "(asm";
    unsigned k = r.below(3);
    std::vector<bool> used(n, false);
    for (unsigned i = 0; i < k; i++) {
      unsigned b = r.below(n);
      if (used[b]) continue;
      used[b] = true;
      uint64_t m = r.below(3) == 0 ? top : (r.next() & top) | (r.next() & top);
      o << " (" << b << " " << m << ")";
    }
    o << ")";
  } else
    o << "none";
  o << " " << r.below(4) << " " << r.below(4) << " " << (r.below(3) == 0 ? 1 : 0) << " " << (r.below(3) == 0 ? 1 : 0);
  o << " (rel";
  for (unsigned b = 0; b < n; b++) {
    o << " (";
    unsigned kind = r.below(5); // identity-ish, sparse, shift, dead, random
    for (unsigned s = 0; s < ns; s++) {
      uint64_t m;
      switch (kind) {
      case 0: m = 1ULL << s; break;
      case 1: m = (r.below(3) == 0) ? (1ULL << r.below(ns)) : 0; break;
      case 2: m = 1ULL << ((s + 1) % ns); if (s + 1 == ns && r.coin()) m = 0; break;
      case 3: m = (r.below(4) == 0) ? (r.next() & top) : (1ULL << s); break;
      default: m = r.next() & r.next() & top; break;
      }
      o << (s ? " " : "") << m;
    }
    o << ")";
  }
  o << "))";
  return o.str();
}

} // namespace

int main(int argc, char **argv) { return run_harness(argc, argv, gen, eval); }
