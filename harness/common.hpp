// Shared helpers for the C++ harnesses (compiled against /repo's current working tree).
#pragma once
#include <crab/numbers/bignums.hpp>
#include <crab/domains/interval.hpp>
#include <crab/support/debug.hpp>
#include <cstdint>
#include <cstdio>
#include <cstdlib>
#include <cstring>
#include <csignal>
#include <unistd.h>
#include <fstream>
#include <iostream>
#include <sstream>
#include <string>
#include <vector>

namespace vh {

using ikos::z_number;
using z_bound = ikos::bound<z_number>;
using z_interval = ikos::interval<z_number>;

// ---- one PRNG drives every choice (splitmix64) ----
struct Rng {
  uint64_t s;
  explicit Rng(uint64_t seed) : s(seed) {}
  uint64_t next() {
    uint64_t z = (s += 0x9E3779B97f4A7C15ULL);
    z = (z ^ (z >> 30)) * 0xBF58476D1CE4E5B9ULL;
    z = (z ^ (z >> 27)) * 0x94D049BB133111EBULL;
    return z ^ (z >> 31);
  }
  // uniform in [0,n)
  uint64_t below(uint64_t n) { return n == 0 ? 0 : next() % n; }
  int64_t range(int64_t lo, int64_t hi) { return lo + (int64_t)below((uint64_t)(hi - lo + 1)); }
  bool coin(unsigned num = 1, unsigned den = 2) { return below(den) < num; }
  template <class T> const T &pick(const std::vector<T> &v) { return v[below(v.size())]; }
};

inline uint64_t env_u64(const char *name, uint64_t dflt) {
  const char *v = std::getenv(name);
  if (!v || !*v) return dflt;
  return std::strtoull(v, nullptr, 10);
}

// ---- boundary-biased big numbers ----
inline z_number zpow2(unsigned k) {
  z_number r(1);
  for (unsigned i = 0; i < k; i++) r = r * z_number(2);
  return r;
}

inline z_number gen_z(Rng &r) {
  switch (r.below(10)) {
  case 0: case 1: case 2: case 3:
    return z_number((int64_t)r.range(-9, 9));
  case 4: case 5:
    return z_number((int64_t)r.range(-200, 200));
  case 6: {
    static const unsigned ks[] = {7, 8, 15, 16, 31, 32, 62, 63, 64, 65, 127, 128};
    z_number b = zpow2(ks[r.below(12)]);
    z_number d((int64_t)r.range(-2, 2));
    z_number v = b + d;
    return r.coin() ? v : -v;
  }
  case 7:
    return z_number((int64_t)r.next());
  case 8: {
    // 40-digit
    std::string s = r.coin() ? "-" : "";
    s += char('1' + r.below(9));
    for (int i = 0; i < 39; i++) s += char('0' + r.below(10));
    return z_number(s);
  }
  default:
    return z_number((int64_t)r.range(-100000, 100000));
  }
}

inline z_number gen_small_z(Rng &r, int lim = 12) { return z_number((int64_t)r.range(-lim, lim)); }

inline std::string zs(const z_number &z) { return z.get_str(); }

inline std::string bs(const z_bound &b) {
  if (b.is_plus_infinity()) return "+oo";
  if (b.is_minus_infinity()) return "-oo";
  return zs(*b.number());
}

// canonical text of an interval: `bot` or `(iv lb ub)` (raw bounds)
inline std::string ivs(const z_interval &i) {
  if (i.is_bottom()) return "bot";
  return "(iv " + bs(i.lb()) + " " + bs(i.ub()) + ")";
}

inline z_bound gen_bound(Rng &r, bool small = false) {
  unsigned k = r.below(12);
  if (k == 0) return z_bound::minus_infinity();
  if (k == 1) return z_bound::plus_infinity();
  return z_bound(small ? gen_small_z(r) : gen_z(r));
}

// intervals: bottom, top, singletons, half lines, zero crossing, ordinary
inline z_interval gen_interval(Rng &r, bool small = false) {
  switch (r.below(12)) {
  case 0: return z_interval::bottom();
  case 1: return z_interval::top();
  case 2: case 3: return z_interval(small ? gen_small_z(r) : gen_z(r));
  case 4: return z_interval(z_bound::minus_infinity(), z_bound(small ? gen_small_z(r) : gen_z(r)));
  case 5: return z_interval(z_bound(small ? gen_small_z(r) : gen_z(r)), z_bound::plus_infinity());
  default: {
    z_number a = small ? gen_small_z(r) : gen_z(r);
    z_number b = small ? gen_small_z(r) : gen_z(r);
    if (r.below(4) == 0) b = a + z_number((int64_t)r.range(0, 3));
    if (b < a) std::swap(a, b);
    return z_interval(z_bound(a), z_bound(b));
  }
  }
}


// ---- s-expressions (request lines are parsed back for replay / corpus / shrinking) ----
struct Sx {
  bool is_atom = true;
  std::string a;
  std::vector<Sx> l;
  const Sx &operator[](size_t i) const { return l.at(i); }
  size_t size() const { return l.size(); }
  std::string str() const {
    if (is_atom) return a;
    std::string r = "(";
    for (size_t i = 0; i < l.size(); i++) { if (i) r += " "; r += l[i].str(); }
    return r + ")";
  }
};

inline bool sx_parse_seq(const std::string &s, size_t &i, std::vector<Sx> &out, bool top) {
  while (i < s.size()) {
    char c = s[i];
    if (c == ' ' || c == '\t' || c == '\n' || c == '\r') { i++; continue; }
    if (c == ')') { if (top) return false; i++; return true; }
    if (c == '(') {
      i++;
      Sx x; x.is_atom = false;
      if (!sx_parse_seq(s, i, x.l, false)) return false;
      out.push_back(x);
      continue;
    }
    size_t j = i;
    while (j < s.size() && !strchr(" \t\n\r()", s[j])) j++;
    Sx x; x.a = s.substr(i, j - i);
    out.push_back(x);
    i = j;
  }
  return top;
}

// parse the request part of a line (everything before "=>", if present)
inline bool sx_parse_request(const std::string &line, Sx &req) {
  std::string s = line;
  size_t p = s.find("=>");
  if (p != std::string::npos) s = s.substr(0, p);
  std::vector<Sx> xs; size_t i = 0;
  if (!sx_parse_seq(s, i, xs, true) || xs.size() != 1 || xs[0].is_atom) return false;
  req = xs[0];
  return true;
}

inline z_bound parse_bound(const Sx &x) {
  if (x.a == "+oo") return z_bound::plus_infinity();
  if (x.a == "-oo") return z_bound::minus_infinity();
  return z_bound(z_number(x.a));
}

inline z_interval parse_interval(const Sx &x) {
  if (x.is_atom) return z_interval::bottom(); // "bot"
  return z_interval(parse_bound(x[1]), parse_bound(x[2]));
}

// ---- standard main loop: generate or replay, evaluate, print ----
struct Args {
  uint64_t seed = 1;
  uint64_t count = 1000;
  std::string tier = "quick";
  std::string ops_file; // replay / corpus mode: request lines read from here
};

inline Args parse_args(int argc, char **argv) {
  Args a;
  a.seed = env_u64("VERIF_SEED", 1);
  for (int i = 1; i < argc; i++) {
    std::string k = argv[i];
    auto val = [&]() { return std::string(i + 1 < argc ? argv[++i] : ""); };
    if (k == "--seed") a.seed = std::strtoull(val().c_str(), nullptr, 10);
    else if (k == "--count") a.count = std::strtoull(val().c_str(), nullptr, 10);
    else if (k == "--tier") a.tier = val();
    else if (k == "--ops") a.ops_file = val();
  }
  return a;
}

// run f(); "err" if CRAB_ERROR was raised (needs -DCRAB_VERIF_HOOKS)
template <class F> std::string guarded(F f) {
  try {
    return f();
  } catch (const crab::verif_error &) {
    return "err";
  }
}


// Standard driver: `gen(rng)` returns a request s-expression text, `eval(req)` evaluates it
// against the real code and returns the result text.  With --ops the requests are read
// from a file (replay, corpus, shrinking) instead of being generated.
// the request being evaluated (reported on stderr by the crash handler: a crash is a result, and
// the crashing request is its failing input)
inline std::string &current_request() { static std::string s; return s; }
inline void crash_handler(int sig) {
  const std::string &r = current_request();
  const char *pre = "\nCRASH-ON ";
  (void)!write(2, pre, strlen(pre));
  (void)!write(2, r.c_str(), r.size());
  (void)!write(2, "\n", 1);
  _exit(128 + sig);
}

template <class Gen, class Eval> int run_harness(int argc, char **argv, Gen gen, Eval eval) {
  Args a = parse_args(argc, argv);
  std::ios::sync_with_stdio(false);
  signal(SIGSEGV, crash_handler);
  signal(SIGABRT, crash_handler);
  signal(SIGFPE, crash_handler);
  signal(SIGBUS, crash_handler);
  auto one = [&](const std::string &reqtxt) {
    Sx req;
    if (!sx_parse_request(reqtxt, req)) { std::cout << "# unparsable request: " << reqtxt << "\n"; return; }
    current_request() = reqtxt;
    std::string res = guarded([&]() { return eval(req); });
    std::cout << req.str() << " => " << res << "\n";
  };
  if (!a.ops_file.empty()) {
    std::ifstream in(a.ops_file);
    std::string line;
    while (std::getline(in, line)) {
      if (line.empty() || line[0] == '#') continue;
      one(line);
    }
  } else {
    // scramble the seed (a seed offset must not be a stream shift of splitmix64)
    uint64_t z = a.seed ^ 0xD1B54A32D192ED03ULL;
    z = (z ^ (z >> 33)) * 0xFF51AFD7ED558CCDULL;
    z = (z ^ (z >> 33)) * 0xC4CEB9FE1A85EC53ULL;
    z ^= z >> 33;
    Rng r(z);
    for (uint64_t i = 0; i < a.count; i++) one(gen(r, a));
  }
  std::cout.flush();
  return 0;
}

} // namespace vh
