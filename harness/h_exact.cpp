// C12 "intervals, zones and octagons are exact on their own constraint language".
// Drives ONE shipped domain (selected with -DVDOM=<id>, ids shared with h_dom.cpp) through a
// history of in-language constraints (unit coefficients) interleaved with copies, joins, meets
// and forgets over a pool of 3 values, under randomly chosen closure parameters, and exports
// after every step everything the exactness property talks about.
//
// request : (exact.hist <name> <kind> (params zcd zwr zsa zcb ocd owr osa ocb) (nv K) (norm b)
//                       (inplace b) (qseed S) (qk k ...) (ops <op> ...))
//   <kind> ::= itv | zone | oct           (constraint language / reference model of the domain)
//   params : zones.{chrome_dijkstra,widen_restabilize,special_assign,close_bounds_inline},
//            oct.{...} as 0/1, set through crab_domain_params_man::get().set_param before the run
//   norm   : call normalize() on the modified value after every op
//   inplace: read the bounds with operator[] on the pool value itself (1) or on a copy (0)
//   <op>   ::= (assume d <cst>) | (copy d s) | (join d a b) | (meet d a b) | (forget d x) | (top d)
//            | (assignc d x k)      -- pool[d].assign(x, k)                 x := k
//            | (assignv d x y k)    -- pool[d].assign(x, y + k)             x := y + k   (y = x allowed; not for itv)
//            | (assignn d x y k)    -- pool[d].assign(x, -y + k)            x := -y + k  (y = x allowed; oct only)
//            | (project d v...)     -- pool[d].project({v...})
//            | (forgetv d v...)     -- pool[d].forget({v...})
//   (the assignments are the ones expressible in the kind's constraint language: the reference
//    model executes them exactly -- CrabModel/Dom/{ZonesOps,OctagonOps,ItvEnvOps}.lean, C03Rel)
//   <cst>  ::= (ub x k) | (lb x k) | (diff x y k) | (sum x y k) | (nsum x y k)         -- inequalities
//            | (equ x k) | (eqd x y k) | (eqs x y k)                                   -- one crab EQUALITY
//              x ≤ k, -x ≤ k, x-y ≤ k, x+y ≤ k, -x-y ≤ k, x = k, x-y = k, x+y = k   (x = vI)
// result  : per op (s d <is_bottom> (at <itv>..) (iv <itv>..) (q (<cst> <0/1>) ...)) then (leq (i j b) ...)
//   at = const at(v) (no normalisation), iv = operator[] (normalises), q = entails() probes; the
//   probes are chosen by a threshold search around the implementation's own bounds (constants
//   straddling the point where the answer flips) plus the request's extra constants `qk`.
#include "common.hpp"
#include "crab_lang.hpp"

#include <crab/domains/abstract_domain_params.hpp>
#include <crab/domains/array_adaptive.hpp>
#include <crab/domains/array_smashing.hpp>
#include <crab/domains/combined_domains.hpp>
#include <crab/domains/flat_boolean_domain.hpp>
#include <crab/domains/intervals.hpp>
#include <crab/domains/sparse_dbm.hpp>
#include <crab/domains/split_dbm.hpp>
#include <crab/domains/split_oct.hpp>

#include <set>
#include <csetjmp>
#include <csignal>

using namespace vh;
using namespace crab::cfg_impl;
using namespace crab::domains;
using namespace ikos;

#ifndef VDOM
#define VDOM 7
#endif

using z_interval_domain_t = interval_domain<z_number, varname_t>;
using z_dbm_graph_t = DBM_impl::DefaultParams<z_number, DBM_impl::GraphRep::adapt_ss>;
using z_dbm_graph_safe_t = DBM_impl::SafeInt64DefaultParams<z_number, DBM_impl::GraphRep::adapt_ss>;
using z_dbm_graph_big_t = DBM_impl::BigNumDefaultParams<z_number, DBM_impl::GraphRep::ss>;
using z_sdbm_domain_t = split_dbm_domain<z_number, varname_t, z_dbm_graph_t>;

// WT: 0 = int64 (documented unchecked: constants < 2^31), 1 = safe_i64, 2 = bignum / intervals
#if VDOM == 1
using Dom = z_interval_domain_t;
#define DOMNAME "intervals"
#define KIND "itv"
#define WT 2
#elif VDOM == 6
using Dom = sparse_dbm_domain<z_number, varname_t, z_dbm_graph_safe_t>;
#define DOMNAME "sparse-dbm-safe"
#define KIND "zone"
#define WT 1
#elif VDOM == 7
using Dom = split_dbm_domain<z_number, varname_t, z_dbm_graph_safe_t>;
#define DOMNAME "split-dbm-safe"
#define KIND "zone"
#define WT 1
#elif VDOM == 8
using Dom = split_oct_domain<z_number, varname_t, z_dbm_graph_safe_t>;
#define DOMNAME "split-oct-safe"
#define KIND "oct"
#define WT 1
#elif VDOM == 14
using Dom = flat_boolean_numerical_domain<z_interval_domain_t>;
#define DOMNAME "flat-bool-intervals"
#define KIND "itv"
#define WT 2
#elif VDOM == 15
using Dom = flat_boolean_numerical_domain<sparse_dbm_domain<z_number, varname_t, z_dbm_graph_t>>;
#define DOMNAME "flat-bool-sparse-dbm"
#define KIND "zone"
#define WT 0
#elif VDOM == 18
using Dom = array_smashing<z_sdbm_domain_t>;
#define DOMNAME "array-smashing-sdbm"
#define KIND "zone"
#define WT 0
#elif VDOM == 19
using Dom = array_adaptive_domain<z_interval_domain_t>;
#define DOMNAME "array-adaptive-intervals"
#define KIND "itv"
#define WT 2
#elif VDOM == 22
using Dom = split_dbm_domain<z_number, varname_t, z_dbm_graph_big_t>;
#define DOMNAME "split-dbm-bignum"
#define KIND "zone"
#define WT 2
#elif VDOM == 23
using Dom = split_oct_domain<z_number, varname_t, z_dbm_graph_big_t>;
#define DOMNAME "split-oct-bignum"
#define KIND "oct"
#define WT 2
#elif VDOM == 25
using Dom = sparse_dbm_domain<z_number, varname_t, z_dbm_graph_t>;
#define DOMNAME "sparse-dbm-int64"
#define KIND "zone"
#define WT 0
#elif VDOM == 26
using Dom = z_sdbm_domain_t;
#define DOMNAME "split-dbm-int64"
#define KIND "zone"
#define WT 0
#elif VDOM == 27
using Dom = split_oct_domain<z_number, varname_t, z_dbm_graph_t>;
#define DOMNAME "split-oct-int64"
#define KIND "oct"
#define WT 0
#elif VDOM == 28
using Dom = reduced_numerical_domain_product2<z_interval_domain_t, split_dbm_domain<z_number, varname_t, z_dbm_graph_safe_t>>;
#define DOMNAME "product-intervals-split-dbm-safe"
#define KIND "zone"
#define WT 1
#elif VDOM == 29
using Dom = array_smashing<split_oct_domain<z_number, varname_t, z_dbm_graph_safe_t>>;
#define DOMNAME "array-smashing-split-oct-safe"
#define KIND "oct"
#define WT 1
#else
#error "unknown VDOM for h_exact"
#endif

namespace {

const unsigned MAXV = 7; // integer variables v0..v6
const unsigned NP = 3;   // pool slots

std::vector<z_var> *VARS = nullptr;
z_var var(unsigned i) { return (*VARS)[i]; }
unsigned vidx(const Sx &x) { return std::stoul(x.a.substr(1)); }

Dom mk_top() {
  Dom d;
  return d.make_top();
}

struct Cst {
  std::string k; // ub lb diff sum nsum equ eqd eqs
  unsigned x = 0, y = 0;
  z_number c;
};

Cst parse_cst(const Sx &s) {
  Cst c;
  c.k = s[0].a;
  c.x = vidx(s[1]);
  if (s.size() == 3) c.c = z_number(s[2].a);
  else { c.y = vidx(s[2]); c.c = z_number(s[3].a); }
  return c;
}

std::string cst_str(const Cst &c) {
  std::string s = "(" + c.k + " v" + std::to_string(c.x);
  if (c.k != "ub" && c.k != "lb" && c.k != "equ") s += " v" + std::to_string(c.y);
  return s + " " + zs(c.c) + ")";
}

z_lin_cst_t to_crab(const Cst &c) {
  z_lin_exp_t X(var(c.x)), Y(var(c.y));
  z_lin_exp_t K(c.c);
  if (c.k == "ub") return z_lin_cst_t(X - K, z_lin_cst_t::INEQUALITY);
  if (c.k == "lb") return z_lin_cst_t(z_lin_exp_t(z_number(-1), var(c.x)) - K, z_lin_cst_t::INEQUALITY);
  if (c.k == "diff") return z_lin_cst_t(X - Y - K, z_lin_cst_t::INEQUALITY);
  if (c.k == "sum") return z_lin_cst_t(X + Y - K, z_lin_cst_t::INEQUALITY);
  if (c.k == "nsum") return z_lin_cst_t(z_lin_exp_t(z_number(-1), var(c.x)) - Y - K, z_lin_cst_t::INEQUALITY);
  if (c.k == "equ") return z_lin_cst_t(X - K, z_lin_cst_t::EQUALITY);
  if (c.k == "eqd") return z_lin_cst_t(X - Y - K, z_lin_cst_t::EQUALITY);
  return z_lin_cst_t(X + Y - K, z_lin_cst_t::EQUALITY); // eqs
}

z_number zabs(const z_number &a) { return a < z_number(0) ? -a : a; }

struct QRng { // local deterministic stream for the choice of probes (seeded from the request)
  uint64_t s;
  uint64_t next() { s = s * 6364136223846793005ULL + 1442695040888963407ULL; return s >> 33; }
  unsigned below(unsigned n) { return n ? (unsigned)(next() % n) : 0; }
};

// an assertion of the library (the harness is compiled without NDEBUG) must not lose the process:
// SIGABRT jumps back to eval, which reports `abort` for the request
sigjmp_buf ABORT_JMP;
void on_abort(int) { siglongjmp(ABORT_JMP, 1); }

std::string eval_inner(const Sx &q);

std::string eval(const Sx &q) {
  if (std::getenv("H_EXACT_GENONLY")) return "gen";
  std::signal(SIGABRT, on_abort);
  if (sigsetjmp(ABORT_JMP, 1)) return "abort";
  return eval_inner(q);
}

std::string eval_inner(const Sx &q) {
  // (exact.hist name kind (params ..) (nv K) (norm b) (inplace b) (qseed S) (qk ..) (ops ..))
  const Sx &P = q[3];
  static const char *PN[] = {"zones.chrome_dijkstra", "zones.widen_restabilize", "zones.special_assign", "zones.close_bounds_inline",
                             "oct.chrome_dijkstra",   "oct.widen_restabilize",   "oct.special_assign",   "oct.close_bounds_inline"};
  for (unsigned i = 0; i < 8; i++)
    crab_domain_params_man::get().set_param(PN[i], P[1 + i].a == "1" ? "true" : "false");
  unsigned nv = std::stoul(q[4][1].a);
  bool norm = q[5][1].a == "1";
  bool inplace = q[6][1].a == "1";
  QRng qr{std::stoull(q[7][1].a) * 2 + 1};
  std::vector<z_number> qk;
  for (size_t i = 1; i < q[8].size(); i++) qk.push_back(z_number(q[8][i].a));
  const Sx &ops = q[9];
  std::string kind = q[2].a;

  variable_factory_t vf;
  std::vector<z_var> vars;
  for (unsigned i = 0; i < MAXV; i++) vars.push_back(z_var(vf["v" + std::to_string(i)], crab::INT_TYPE, 32));
  VARS = &vars;
  std::vector<Dom> pool;
  for (unsigned i = 0; i < NP; i++) pool.push_back(mk_top());

  // S = 1 + sum of |constants| of the request: no in-language consequence has a larger finite bound
  z_number S(1);
  for (size_t oi = 1; oi < ops.size(); oi++)
    if (ops[oi][0].a == "assume") S = S + zabs(parse_cst(ops[oi][2]).c);
    else if (ops[oi][0].a == "assignc" || ops[oi][0].a == "assignv" || ops[oi][0].a == "assignn")
      S = S + zabs(z_number(ops[oi][ops[oi].size() - 1].a));

  std::ostringstream out;
  for (size_t oi = 1; oi < ops.size(); oi++) {
    const Sx &op = ops[oi];
    const std::string &k = op[0].a;
    unsigned d = std::stoul(op[1].a);
    if (k == "assume") pool[d] += to_crab(parse_cst(op[2]));
    else if (k == "copy") { Dom c(pool[std::stoul(op[2].a)]); pool[d] = c; }
    else if (k == "join") { Dom r = pool[std::stoul(op[2].a)] | pool[std::stoul(op[3].a)]; pool[d] = r; }
    else if (k == "meet") { Dom r = pool[std::stoul(op[2].a)] & pool[std::stoul(op[3].a)]; pool[d] = r; }
    else if (k == "forget") pool[d] -= var(vidx(op[2]));
    else if (k == "top") pool[d].set_to_top();
    else if (k == "assignc") pool[d].assign(var(vidx(op[2])), z_lin_exp_t(z_number(op[3].a)));
    else if (k == "assignv") pool[d].assign(var(vidx(op[2])), z_lin_exp_t(var(vidx(op[3]))) + z_lin_exp_t(z_number(op[4].a)));
    else if (k == "assignn")
      pool[d].assign(var(vidx(op[2])), z_lin_exp_t(z_number(-1), var(vidx(op[3]))) + z_lin_exp_t(z_number(op[4].a)));
    else if (k == "project" || k == "forgetv") {
      std::vector<z_var> vs;
      for (size_t i = 2; i < op.size(); i++) vs.push_back(var(vidx(op[i])));
      if (k == "project") pool[d].project(vs); else pool[d].forget(vs);
    }
    if (norm) pool[d].normalize();

    const Dom &cd = pool[d];
    bool b = cd.is_bottom();
    out << "(s " << d << " " << (b ? 1 : 0) << " (at";
    std::vector<z_interval> at;
    for (unsigned i = 0; i < nv; i++) { at.push_back(cd.at(var(i))); out << " " << ivs(at.back()); }
    out << ")";
    // entailment probes (const API), before operator[] normalises anything
    std::ostringstream qs;
    if (!b) {
      std::set<std::string> seen;
      auto probe = [&](const Cst &c) -> bool {
        bool ans = cd.entails(to_crab(c));
        std::string s = cst_str(c);
        if (seen.insert(s).second) qs << " (" << s << " " << (ans ? 1 : 0) << ")";
        return ans;
      };
      // candidate targets
      std::vector<Cst> targets;
      for (unsigned x = 0; x < nv; x++) {
        Cst c; c.x = x; c.y = x;
        c.k = "ub"; targets.push_back(c);
        c.k = "lb"; targets.push_back(c);
        if (kind != "itv")
          for (unsigned y = 0; y < nv; y++) {
            if (y == x) continue;
            c.y = y;
            c.k = "diff"; targets.push_back(c);
            if (kind == "oct" && x < y) { c.k = "sum"; targets.push_back(c); c.k = "nsum"; targets.push_back(c); }
          }
      }
      // all targets when there are few (every constraint kind of the language is then probed after
      // every step: e.g. the sum x+y after a join), a random dozen otherwise
      unsigned budget = targets.size() <= 14 ? targets.size() : 12;
      for (unsigned t = 0; t < budget; t++) {
        unsigned pick = targets.size() <= 14 ? t : qr.below(targets.size());
        Cst c = targets[pick];
        // the implementation's own interval-derived upper bound of the constrained term
        z_bound U = z_bound::plus_infinity();
        const z_interval &ix = at[c.x], &iy = at[c.y];
        if (c.k == "ub") U = ix.ub();
        else if (c.k == "lb") U = -ix.lb();
        else if (c.k == "diff") { if (ix.ub().is_finite() && iy.lb().is_finite()) U = ix.ub() - iy.lb(); }
        else if (c.k == "sum") { if (ix.ub().is_finite() && iy.ub().is_finite()) U = ix.ub() + iy.ub(); }
        else if (c.k == "nsum") { if (ix.lb().is_finite() && iy.lb().is_finite()) U = -(ix.lb()) - iy.lb(); }
        bool fromS = !U.is_finite();
        z_number u = fromS ? S : *U.number();
        c.c = u;
        if (probe(c)) {
          // descend to the point where the answer flips: u is yes; find the least yes
          z_number step(1);
          unsigned guard = 0;
          z_number lo = u; // invariant: `u` answered yes
          bool found_no = false;
          while (guard++ < 70) {
            c.c = u - step;
            if (probe(c)) { u = u - step; step = step * z_number(2); }
            else { lo = u - step; found_no = true; break; }
          }
          if (found_no) {
            // binary search in (lo, u): lo = no, u = yes
            while (u - lo > z_number(1) && guard++ < 200) {
              z_number mid = lo + (u - lo) / z_number(2);
              c.c = mid;
              if (probe(c)) u = mid; else lo = mid;
            }
          }
        } else if (!fromS) {
          // the interval-derived bound itself is not entailed: look one above and at S
          c.c = u + z_number(1); probe(c);
          c.c = S; probe(c);
        }
        if (!qk.empty()) { c.c = qk[qr.below(qk.size())]; probe(c); }
      }
    }
    out << " (iv";
    if (inplace) {
      for (unsigned i = 0; i < nv; i++) out << " " << ivs(pool[d][var(i)]);
    } else {
      Dom cp(pool[d]);
      for (unsigned i = 0; i < nv; i++) out << " " << ivs(cp[var(i)]);
    }
    out << ") (q" << qs.str() << ")) ";
  }
  out << "(leq";
  for (unsigned i = 0; i < NP; i++)
    for (unsigned j = 0; j < NP; j++) out << " (" << i << " " << j << " " << ((pool[i] <= pool[j]) ? 1 : 0) << ")";
  out << ")";
  return out.str();
}

// ---------------------------------------------------------------- generator
struct G {
  Rng &r;
  unsigned nv;
  std::string kind;
  int64_t scale;                 // magnitude of the constants
  std::vector<int64_t> p;        // hidden integer point: "sat-biased" constraints hold at p
  std::vector<std::string> queue; // pre-planned constraints (cycles, parity gadgets), emitted first

  int64_t slack() {
    switch (r.below(8)) {
    case 0: case 1: case 2: return 0;
    case 3: return 1;
    case 4: return r.range(0, 3);
    case 5: return r.range(0, 20);
    default: return r.range(0, 2) * scale;
    }
  }
  int64_t anyconst() {
    switch (r.below(6)) {
    case 0: return 0;
    case 1: return r.range(-2, 2);
    case 2: case 3: return r.range(-10, 10);
    default: return r.range(-12, 12) * scale + r.range(-1, 1);
    }
  }
  std::string v(unsigned i) { return "v" + std::to_string(i); }
  // value at p of the term of a constraint kind
  int64_t term(const std::string &k, unsigned x, unsigned y) {
    if (k == "ub" || k == "equ") return p[x];
    if (k == "lb") return -p[x];
    if (k == "diff" || k == "eqd") return p[x] - p[y];
    if (k == "sum" || k == "eqs") return p[x] + p[y];
    return -p[x] - p[y];
  }
  // constant of an assignment: mostly the one that keeps the hidden point p a state of the value
  int64_t asgconst(int64_t keep) { return r.below(3) != 0 ? keep : anyconst(); }
  std::string assignc() {
    unsigned x = r.below(nv);
    return "(assignc D " + v(x) + " " + std::to_string(asgconst(p[x])) + ")";
  }
  // x := y + k ; one time in three y = x (a translation by a small / arbitrary constant)
  std::string assignv() {
    unsigned x = r.below(nv), y = r.below(nv);
    if (nv >= 2 && r.below(3) != 0 && x == y) y = (x + 1) % nv;
    int64_t k = (x == y) ? (r.coin() ? r.range(-3, 3) : anyconst()) : asgconst(p[x] - p[y]);
    return "(assignv D " + v(x) + " " + v(y) + " " + std::to_string(k) + ")";
  }
  // x := -y + k
  std::string assignn() {
    unsigned x = r.below(nv), y = r.below(nv);
    if (nv >= 2 && r.below(3) != 0 && x == y) y = (x + 1) % nv;
    int64_t k = asgconst(p[x] + p[y]);
    return "(assignn D " + v(x) + " " + v(y) + " " + std::to_string(k) + ")";
  }
  // a set of variables (possibly empty, possibly all)
  std::string varset() {
    std::string s;
    unsigned bias = r.below(3); // 0: few, 1: half, 2: most
    for (unsigned i = 0; i < nv; i++)
      if (r.below(4) < bias + 1) s += " " + v(i);
    return s;
  }
  std::string cst(bool satbias) {
    std::vector<std::string> ks = {"ub", "lb"};
    if (kind != "itv" && nv >= 2) { ks.push_back("diff"); ks.push_back("diff"); ks.push_back("diff"); }
    if (kind == "oct" && nv >= 2) { ks.push_back("sum"); ks.push_back("nsum"); ks.push_back("sum"); ks.push_back("nsum"); }
    std::string k = ks[r.below(ks.size())];
    if (r.below(9) == 0) { // an equality instead
      if (k == "ub" || k == "lb") k = "equ";
      else if (k == "diff") k = "eqd";
      else k = "eqs";
    }
    unsigned x = r.below(nv), y = r.below(nv);
    // x + x <= k is 2x <= k: a non-unit coefficient, outside the language -> unary instead
    if (nv == 1) k = (k[0] == 'e') ? "equ" : (r.coin() ? "ub" : "lb");
    bool unary = (k == "ub" || k == "lb" || k == "equ");
    if (!unary && x == y) y = (x + 1) % nv;
    int64_t c;
    if (satbias) {
      int64_t t = term(k, x, y);
      c = (k[0] == 'e') ? t : t + slack();
    } else c = anyconst();
    std::string s = "(" + k + " " + v(x);
    if (!unary) s += " " + v(y);
    return s + " " + std::to_string(c) + ")";
  }
};

std::string gen(Rng &r, const Args &a) {
  bool thorough = a.tier == "thorough";
  std::string kind = KIND;
  std::ostringstream o;
  o << "(exact.hist " << DOMNAME << " " << kind << " (params";
  for (unsigned i = 0; i < 8; i++) o << " " << r.below(2);
  unsigned nv;
  switch (r.below(8)) {
  case 0: nv = 1; break;
  case 1: nv = 2; break;
  case 2: case 3: nv = 3; break;
  case 4: nv = 4; break;
  case 5: nv = 5; break;
  default: nv = 2 + r.below(6); break;
  }
  o << ") (nv " << nv << ") (norm " << (r.below(3) == 0 ? 1 : 0) << ") (inplace " << r.below(2) << ") (qseed " << r.below(1000000) << ")";
  G g{r, nv, kind, 1, {}, {}};
  // magnitude of the constants: int64 weights are documented unchecked -> keep every sum < 2^31
  switch (r.below(10)) {
  case 0: g.scale = 1000; break;
  case 1: g.scale = (WT == 0) ? 1000000 : (int64_t)1 << 31; break;
  case 2: g.scale = (WT == 0) ? 3000000 : (WT == 1 ? (int64_t)1 << 40 : (int64_t)1 << 56); break;
  default: g.scale = 1; break;
  }
  for (unsigned i = 0; i < nv; i++) g.p.push_back(r.range(-6, 6) * g.scale + (g.scale > 1 ? r.range(-3, 3) : 0));
  o << " (qk";
  for (unsigned i = 0; i < 4; i++) o << " " << g.anyconst();
  o << ")";
  unsigned profile = r.below(6); // 0,1 sat-biased; 2 random; 3 cycle gadget; 4 parity / integer-tight gadget; 5 bounds+relations
  std::vector<std::string> Q;
  if (profile == 3 && kind != "itv" && nv >= 2) {
    // cycle x0 - x1 <= c0, x1 - x2 <= c1, ..., x_{m-1} - x0 <= c_{m-1} with total -1, 0 or 1
    unsigned m = 2 + r.below(nv - 1);
    std::vector<unsigned> perm;
    for (unsigned i = 0; i < nv; i++) perm.push_back(i);
    for (unsigned i = nv - 1; i > 0; i--) std::swap(perm[i], perm[r.below(i + 1)]);
    int64_t total = r.range(-1, 1), acc = 0;
    for (unsigned i = 0; i < m; i++) {
      int64_t c = (i + 1 == m) ? total - acc : r.range(-8, 8) * g.scale;
      acc += c;
      Q.push_back("(diff v" + std::to_string(perm[i]) + " v" + std::to_string(perm[(i + 1) % m]) + " " + std::to_string(c) + ")");
    }
  } else if (profile == 4 && nv >= 2) {
    unsigned x = r.below(nv), y = (x + 1 + r.below(nv - 1)) % nv;
    int64_t A = r.range(-5, 5) * g.scale, B = r.range(-5, 5) * g.scale;
    std::string X = "v" + std::to_string(x), Y = "v" + std::to_string(y);
    if (kind == "oct") {
      switch (r.below(3)) {
      case 0: // parity: x + y = A, x - y = B  (2x = A + B)
        Q.push_back("(eqs " + X + " " + Y + " " + std::to_string(A) + ")");
        Q.push_back("(eqd " + X + " " + Y + " " + std::to_string(B) + ")");
        break;
      case 1: // 2x <= A+B and 2x >= A+B-1 : exactly one integer, or parity gap with a third constraint
        Q.push_back("(sum " + X + " " + Y + " " + std::to_string(A) + ")");
        Q.push_back("(diff " + X + " " + Y + " " + std::to_string(B) + ")");
        Q.push_back("(nsum " + X + " " + Y + " " + std::to_string(-A + r.range(0, 1)) + ")");
        Q.push_back("(diff " + Y + " " + X + " " + std::to_string(-B + r.range(0, 1)) + ")");
        break;
      default: // x + y <= 1, x - y <= 0, -x <= -1 : integer-only contradiction (x <= 1/2)
        Q.push_back("(sum " + X + " " + Y + " " + std::to_string(2 * A + 1) + ")");
        Q.push_back("(diff " + X + " " + Y + " 0)");
        Q.push_back("(lb " + X + " " + std::to_string(-(A + 1) + r.range(0, 1)) + ")");
        break;
      }
    } else if (kind == "zone") {
      // bounds and a difference whose combination is tight: x <= A, -y <= -B, y - x <= B - A + {-1,0,1}
      Q.push_back("(ub " + X + " " + std::to_string(A) + ")");
      Q.push_back("(lb " + Y + " " + std::to_string(-B) + ")");
      Q.push_back("(diff " + Y + " " + X + " " + std::to_string(B - A + r.range(-1, 1)) + ")");
    } else {
      Q.push_back("(ub " + X + " " + std::to_string(A) + ")");
      Q.push_back("(lb " + X + " " + std::to_string(-A + r.range(-1, 1)) + ")");
    }
  }
  // "tightening" gadget (relational kinds, >= 4 variables; ORDERED: the last constraint must come last): existing slack
  // relation  de - ii <= K  with a predecessor  ii - se <= c0  and  de - jj <= k1 ; then  jj - ii <= c2  with
  // c2 + k1 < K  tightens de - ii through jj, and the closure must propagate that to the predecessors of ii
  // (de - se <= c0 + c2 + k1) although the edge ii -> de is not new
  bool ordered = false;
  if (Q.empty() && kind != "itv" && nv >= 4 && r.below(4) == 0) {
    std::vector<unsigned> perm;
    for (unsigned i = 0; i < nv; i++) perm.push_back(i);
    for (unsigned i = nv - 1; i > 0; i--) std::swap(perm[i], perm[r.below(i + 1)]);
    auto V = [&](unsigned i) { return "v" + std::to_string(perm[i]); };
    int64_t c0 = r.range(-3, 3) * g.scale, k1 = r.range(-3, 3) * g.scale, c2 = r.range(-3, 3) * g.scale, K = c2 + k1 + r.range(1, 9) * g.scale;
    std::vector<std::string> pre;
    pre.push_back("(diff " + V(1) + " " + V(0) + " " + std::to_string(c0) + ")");   // ii - se <= c0
    pre.push_back("(diff " + V(3) + " " + V(1) + " " + std::to_string(K) + ")");    // de - ii <= K
    pre.push_back("(diff " + V(3) + " " + V(2) + " " + std::to_string(k1) + ")");   // de - jj <= k1
    if (nv >= 5 && r.coin()) pre.push_back("(diff " + V(1) + " " + V(4) + " " + std::to_string(r.range(-3, 3) * g.scale) + ")"); // a second predecessor
    for (size_t i = pre.size(); i > 1; i--) std::swap(pre[i - 1], pre[r.below(i)]);
    Q.push_back("(diff " + V(2) + " " + V(1) + " " + std::to_string(c2) + ")");     // jj - ii <= c2   (added last)
    for (auto &c : pre) Q.push_back(c);
    ordered = true;
  }
  // shuffle the gadget
  if (!ordered)
    for (size_t i = Q.size(); i > 1; i--) std::swap(Q[i - 1], Q[r.below(i)]);
  unsigned gadget_slot = r.below(NP);
  unsigned len = 5 + r.below(thorough ? 36 : 16);
  o << " (ops";
  // "crossing boxes" template (1 run in 6, relational kinds): two boxes whose bounds on x and y
  // cross, then their join: the least upper bound carries relational facts (x+y, x-y, ...) that
  // neither operand states explicitly (the join must infer them from the bounds)
  if (kind != "itv" && nv >= 2 && r.below(6) == 0) {
    unsigned x = r.below(nv), y = (x + 1 + r.below(nv - 1)) % nv;
    int64_t a = r.range(-4, 4) * g.scale, b = a + r.range(1, 5), c = r.range(-4, 4) * g.scale, d2 = c + r.range(1, 5);
    bool lower = r.coin(), both = r.below(3) == 0;
    auto bnd = [&](unsigned slot, unsigned v, int64_t val, bool lo) {
      o << " (assume " << slot << " (" << (lo ? "lb" : "ub") << " v" << v << " " << (lo ? -val : val) << "))";
    };
    // slot 0: x <= a , y <= d2 ; slot 1: x <= b , y <= c      (a < b, c < d2: the bounds cross)
    bnd(0, x, a, lower); bnd(0, y, d2, lower); bnd(1, x, b, lower); bnd(1, y, c, lower);
    if (both) { bnd(0, x, a - r.range(0, 3), !lower); bnd(1, y, c - r.range(0, 3), !lower); }
    o << " (join 2 0 1)";
  }
  for (unsigned i = 0; i < len; i++) {
    unsigned d = r.below(NP);
    unsigned k = r.below(100);
    if (!Q.empty() && r.below(3) != 0) {
      o << " (assume " << gadget_slot << " " << Q.back() << ")";
      Q.pop_back();
      continue;
    }
    auto withd = [&](std::string s) { return s.replace(s.find(" D "), 3, " " + std::to_string(d) + " "); };
    if (k < 50) {
      bool satbias = (profile == 2) ? r.below(4) == 0 : r.below(8) != 0;
      o << " (assume " << d << " " << g.cst(satbias) << ")";
    } else if (k < 54) o << " " << withd(kind == "itv" ? g.assignc() : g.assignv());   // x := y + k
    else if (k < 56) o << " " << withd(g.assignc());                                    // x := k
    else if (k < 58) o << " " << withd(kind == "oct" ? g.assignn() : kind == "zone" ? g.assignv() : g.assignc()); // x := -y + k
    else if (k < 66) o << " (copy " << d << " " << r.below(NP) << ")";
    else if (k < 78) o << " (join " << d << " " << r.below(NP) << " " << r.below(NP) << ")";
    else if (k < 88) o << " (meet " << d << " " << r.below(NP) << " " << r.below(NP) << ")";
    else if (k < 94) o << " (forget " << d << " v" << r.below(nv) << ")";
    else if (k < 96) o << " (forgetv " << d << g.varset() << ")";
    else if (k < 98) o << " (project " << d << g.varset() << ")";
    else o << " (top " << d << ")";
  }
  o << "))";
  return o.str();
}

} // namespace

int main(int argc, char **argv) { return run_harness(argc, argv, gen, eval); }
