// Table of the shipped abstract domains driven by the generic harnesses (h_dom, h_prog):
// -DVDOM=<id> selects `Dom`, `DOMNAME` names it in the request lines.  For the copy-on-write
// wrapper (ids 20, 21) `WRAPPED` is the wrapped concrete domain; `vdom_mk_top()` builds a top
// value for every id.
#pragma once
#include "common.hpp"
#include "crab_lang.hpp"

#include <crab/domains/abstract_domain_params.hpp>
#include <crab/domains/array_adaptive.hpp>
#include <crab/domains/array_smashing.hpp>
#include <crab/domains/combined_congruences.hpp>
#include <crab/domains/combined_domains.hpp>
#include <crab/domains/constant_domain.hpp>
#include <crab/domains/dis_intervals.hpp>
#include <crab/domains/fixed_tvpi_domain.hpp>
#include <crab/domains/flat_boolean_domain.hpp>
#include <crab/domains/generic_abstract_domain.hpp>
#include <crab/domains/intervals.hpp>
#include <crab/domains/lookahead_widening_domain.hpp>
#include <crab/domains/powerset_domain.hpp>
#include <crab/domains/sign_constant_domain.hpp>
#include <crab/domains/sign_domain.hpp>
#include <crab/domains/sparse_dbm.hpp>
#include <crab/domains/split_dbm.hpp>
#include <crab/domains/split_oct.hpp>
#include <crab/domains/term_equiv.hpp>
#include <crab/domains/value_partitioning_domain.hpp>

#include <functional>

using namespace vh;
using namespace crab::cfg_impl;
using namespace crab::domains;
using namespace ikos;

#ifndef VDOM
#define VDOM 1
#endif

using z_interval_domain_t = interval_domain<z_number, varname_t>;
using z_dbm_graph_t = DBM_impl::DefaultParams<z_number, DBM_impl::GraphRep::adapt_ss>;
using z_dbm_graph_safe_t = DBM_impl::SafeInt64DefaultParams<z_number, DBM_impl::GraphRep::adapt_ss>;
using z_dbm_graph_big_t = DBM_impl::BigNumDefaultParams<z_number, DBM_impl::GraphRep::ss>;
using z_sdbm_domain_t = split_dbm_domain<z_number, varname_t, z_dbm_graph_t>;
using z_dis_interval_domain_t = dis_interval_domain<z_number, varname_t>;

#if VDOM == 1
using Dom = z_interval_domain_t;
#define DOMNAME "intervals"
#elif VDOM == 2
using Dom = constant_domain<z_number, varname_t>;
#define DOMNAME "constants"
#elif VDOM == 3
using Dom = sign_domain<z_number, varname_t>;
#define DOMNAME "signs"
#elif VDOM == 4
using Dom = sign_constant_domain<z_number, varname_t>;
#define DOMNAME "sign-constants"
#elif VDOM == 5
using Dom = numerical_congruence_domain<z_interval_domain_t>;
#define DOMNAME "ric"
#elif VDOM == 6
using Dom = sparse_dbm_domain<z_number, varname_t, z_dbm_graph_safe_t>;
#define DOMNAME "sparse-dbm-safe"
#elif VDOM == 7
using Dom = split_dbm_domain<z_number, varname_t, z_dbm_graph_safe_t>;
#define DOMNAME "split-dbm-safe"
#elif VDOM == 8
using Dom = split_oct_domain<z_number, varname_t, z_dbm_graph_safe_t>;
#define DOMNAME "split-oct-safe"
#elif VDOM == 9
using Dom = z_dis_interval_domain_t;
#define DOMNAME "dis-intervals"
#elif VDOM == 10
using Dom = term_domain<term::TDomInfo<z_number, varname_t, z_interval_domain_t>>;
#define DOMNAME "term-intervals"
#elif VDOM == 11
using Dom = term_domain<term::TDomInfo<z_number, varname_t, z_sdbm_domain_t>>;
#define DOMNAME "term-sdbm"
#elif VDOM == 12
using Dom = reduced_numerical_domain_product2<
    term_domain<term::TDomInfo<z_number, varname_t, z_dis_interval_domain_t>>, z_sdbm_domain_t>;
#define DOMNAME "product-term-dis-sdbm"
#elif VDOM == 13
using Dom = fixed_tvpi_domain<z_sdbm_domain_t>;
#define DOMNAME "fixed-tvpi"
#elif VDOM == 14
using Dom = flat_boolean_numerical_domain<z_interval_domain_t>;
#define DOMNAME "flat-bool-intervals"
#elif VDOM == 15
using Dom = flat_boolean_numerical_domain<sparse_dbm_domain<z_number, varname_t, z_dbm_graph_t>>;
#define DOMNAME "flat-bool-sparse-dbm"
#elif VDOM == 16
using Dom = lookahead_widening_domain<split_oct_domain<z_number, varname_t, z_dbm_graph_t>>;
#define DOMNAME "lookahead-soct"
#elif VDOM == 17
using Dom = powerset_domain<z_interval_domain_t>;
#define DOMNAME "powerset-intervals"
#elif VDOM == 18
using Dom = array_smashing<z_sdbm_domain_t>;
#define DOMNAME "array-smashing-sdbm"
#elif VDOM == 19
using Dom = array_adaptive_domain<z_interval_domain_t>;
#define DOMNAME "array-adaptive-intervals"
#elif VDOM == 20
using Dom = abstract_domain_ref<z_var>;
#define DOMNAME "generic-wrapper-sdbm"
#define WRAPPED z_sdbm_domain_t
#elif VDOM == 21
using Dom = abstract_domain_ref<z_var>;
#define DOMNAME "generic-wrapper-intervals"
#define WRAPPED z_interval_domain_t
#elif VDOM == 22
using Dom = split_dbm_domain<z_number, varname_t, z_dbm_graph_big_t>;
#define DOMNAME "split-dbm-bignum"
#elif VDOM == 23
using Dom = split_oct_domain<z_number, varname_t, z_dbm_graph_big_t>;
#define DOMNAME "split-oct-bignum"
#elif VDOM == 24
using Dom = congruence_domain<z_number, varname_t>;
#define DOMNAME "congruences"
#elif VDOM == 25
using Dom = sparse_dbm_domain<z_number, varname_t, z_dbm_graph_t>;
#define DOMNAME "sparse-dbm-int64"
#elif VDOM == 26
using Dom = z_sdbm_domain_t;
#define DOMNAME "split-dbm-int64"
#else
#error "unknown VDOM"
#endif

inline Dom vdom_mk_top() {
#ifdef WRAPPED
  WRAPPED w;
  return Dom(w);
#else
  Dom d;
  return d.make_top();
#endif
}
