// Exact tie of the zones widening model (lean/CrabModel/Dom/DbmWiden.lean, theorems
// lean/CrabProofs/Props/C05Zones.lean) to the real code: widening chains of ONE zones domain
// (selected with -DVDOM=<id>, ids as in domains.hpp) whose operands are given by in-language
// constraints only, so that the Lean driver (lean/Driver/ZWidenH.lean, tag `zw`) can rebuild every
// operand in the model, replay the chain with the model's widening and compare every step.
//
// request : (zw.chain <dom> <mode> <nvars> (x0 <cst> ...) (ys (y <cst> ...) (y <cst> ...) ...))
//   <dom>  ::= DOMNAME below; a request for another domain is answered `otherdom` (skipped)
//   <mode> ::= plain          x_{i+1} = x_i || y_i
//            | (thr t ...)    x_{i+1} = x_i.widening_thresholds(y_i, {t ...})
//            | probe          as plain, but between the steps the stored x_i is copied and read
//                             through its const interface (operator<= both ways, to_linear_constraint_system,
//                             at(v), is_bottom, is_top, write) and operator[] is called on the COPY:
//                             none of this may change the stored value
//            | index          as plain, but the NON-const operator[] is called on the stored x_i itself
//                             before each widening (it calls normalize() in place: split_dbm.hpp
//                             `operator[]`, so the left operand IS closed; not compared exactly)
//   <cst>  ::= (b v k)   v <= k   |  (l v k)   v >= k   |  (d v u k)   v - u <= k      (v, u = variable index)
//   x0 and every y_i are built from top by `+=` of the constraints in the given order.
// result  : (x0 <is_bottom>) (yb <bits>) (cov <bits>) (st <bits>) (d <is_bottom> (cs <lc> ...)) ...
//   bit i of  yb : y_i.is_bottom()    cov : y_i <= x_i (the test on which the iterator stops)
//             st : x_{i+1} <= x_i (stationary step);   one (d ..) per step: x_{i+1}.is_bottom() and the
//   linear constraint system of a copy of x_{i+1};  <lc> ::= (le c (a v) ...) | (eq c (a v) ...)
//   meaning  sum a*v + c <= 0 (= 0),  (false) for a contradiction, (true) for a tautology.
#include "common.hpp"
#include "crab_lang.hpp"

#include <crab/domains/abstract_domain_params.hpp>
#include <crab/domains/sparse_dbm.hpp>
#include <crab/domains/split_dbm.hpp>
#include <crab/fixpoint/thresholds.hpp>

#include <algorithm>

using namespace vh;
using namespace crab::cfg_impl;
using namespace crab::domains;
using namespace ikos;

#ifndef VDOM
#define VDOM 7
#endif

using z_dbm_graph_t = DBM_impl::DefaultParams<z_number, DBM_impl::GraphRep::adapt_ss>;
using z_dbm_graph_safe_t = DBM_impl::SafeInt64DefaultParams<z_number, DBM_impl::GraphRep::adapt_ss>;
using z_dbm_graph_big_t = DBM_impl::BigNumDefaultParams<z_number, DBM_impl::GraphRep::ss>;

#if VDOM == 6
using Dom = sparse_dbm_domain<z_number, varname_t, z_dbm_graph_safe_t>;
#define DOMNAME "sparse-dbm-safe"
#elif VDOM == 7
using Dom = split_dbm_domain<z_number, varname_t, z_dbm_graph_safe_t>;
#define DOMNAME "split-dbm-safe"
#elif VDOM == 22
using Dom = split_dbm_domain<z_number, varname_t, z_dbm_graph_big_t>;
#define DOMNAME "split-dbm-bignum"
#elif VDOM == 25
using Dom = sparse_dbm_domain<z_number, varname_t, z_dbm_graph_t>;
#define DOMNAME "sparse-dbm-int64"
#elif VDOM == 26
using Dom = split_dbm_domain<z_number, varname_t, z_dbm_graph_t>;
#define DOMNAME "split-dbm-int64"
#else
#error "h_zwiden: VDOM must be one of 6, 7, 22, 25, 26"
#endif

namespace {

const unsigned NVMAX = 6;

struct Env {
  variable_factory_t vf;
  std::vector<z_var> vars;
  Env() {
    for (unsigned i = 0; i < NVMAX; i++) vars.push_back(z_var(vf["v" + std::to_string(i)], crab::INT_TYPE, 32));
  }
};

std::string I(int64_t k) { return std::to_string(k); }

// ------------------------------------------------------------------ evaluation

z_lin_cst_t mk_cst(Env &E, const Sx &c) {
  const std::string &k = c[0].a;
  z_var v = E.vars.at(std::stoul(c[1].a));
  if (k == "b") return z_lin_cst_t(z_lin_exp_t(v) <= z_number(c[2].a));
  if (k == "l") return z_lin_cst_t(z_lin_exp_t(v) >= z_number(c[2].a));
  z_var u = E.vars.at(std::stoul(c[2].a));
  return z_lin_cst_t(z_lin_exp_t(v) - z_lin_exp_t(u) <= z_number(c[3].a));
}

// from top, by `+=` of the constraints in order (the list starts at index 1 of `l`)
Dom build(Env &E, const Sx &l) {
  Dom d;
  d.set_to_top();
  for (size_t i = 1; i < l.size(); i++) d += mk_cst(E, l[i]);
  return d;
}

std::string lc_str(const z_lin_cst_t &c) {
  if (c.is_contradiction()) return "(false)";
  if (c.is_tautology()) return "(true)";
  const char *k = c.is_inequality() ? "le" : c.is_strict_inequality() ? "lt" : c.is_equality() ? "eq" : "ne";
  const z_lin_exp_t &e = c.expression();
  std::vector<std::pair<unsigned, std::string>> ts;
  for (auto it = e.begin(); it != e.end(); ++it) {
    std::string nm = it->second.name().str();
    ts.push_back({(unsigned)std::stoul(nm.substr(1)), zs(it->first)});
  }
  std::sort(ts.begin(), ts.end());
  std::string o = std::string("(") + k + " " + zs(e.constant());
  for (auto &t : ts) o += " (" + t.second + " " + I(t.first) + ")";
  return o + ")";
}

std::string dump(const Dom &x) {
  Dom c(x); // a copy: the stored value is not touched
  std::string o = std::string("(d ") + (c.is_bottom() ? "1" : "0") + " (cs";
  auto sys = c.to_linear_constraint_system();
  std::vector<std::string> ls;
  for (auto it = sys.begin(); it != sys.end(); ++it) ls.push_back(lc_str(*it));
  std::sort(ls.begin(), ls.end());
  for (auto &s : ls) o += " " + s;
  return o + "))";
}

// const reads of the stored value + mutating reads of a copy
void probe(Env &E, const Dom &x, const Dom &y, unsigned nv) {
  Dom c(x);
  volatile bool sink = (y <= x);
  sink = (x <= y);
  sink = x.is_bottom();
  sink = x.is_top();
  (void)sink;
  auto sys = x.to_linear_constraint_system();
  (void)sys;
  for (unsigned i = 0; i < nv; i++) {
    z_interval a = x.at(E.vars[i]);
    z_interval b = c[E.vars[i]]; // non-const operator[] on the copy
    (void)a; (void)b;
  }
  crab::crab_string_os os;
  os << x;
}

std::string eval(const Sx &q) {
  const std::string &head = q[0].a;
  if (head != "zw.chain") return "unknown";
  if (q[1].a != DOMNAME) return "otherdom";
  Env E;
  const Sx &mode = q[2];
  std::string mk = mode.is_atom ? mode.a : mode[0].a;
  unsigned nv = std::stoul(q[3].a);
  crab::thresholds<z_number> ts;
  if (mk == "thr")
    for (size_t i = 1; i < mode.size(); i++) ts.add(z_bound(z_number(mode[i].a)));
  Dom x = build(E, q[4]);
  const Sx &ys = q[5];
  std::string yb, cov, st, ds;
  std::string out = std::string("(x0 ") + (x.is_bottom() ? "1" : "0") + ")";
  for (size_t i = 1; i < ys.size(); i++) {
    Dom y = build(E, ys[i]);
    yb += y.is_bottom() ? '1' : '0';
    if (mk == "probe") probe(E, x, y, nv);
    if (mk == "index")
      for (unsigned v = 0; v < nv; v++) { z_interval a = x[E.vars[v]]; (void)a; }
    cov += (y <= x) ? '1' : '0';
    Dom xn = (mk == "thr") ? x.widening_thresholds(y, ts) : (x || y);
    st += (xn <= x) ? '1' : '0';
    ds += " " + dump(xn);
    x = xn;
  }
  if (yb.empty()) { yb = "-"; cov = "-"; st = "-"; }
  return out + " (yb " + yb + ") (cov " + cov + ") (st " + st + ")" + ds;
}

// ------------------------------------------------------------------ generation

struct C {
  char k; // 'b' v<=c, 'l' v>=c, 'd' v-u<=c
  int v, u;
  int64_t c;
};

std::string cs(const C &c) {
  if (c.k == 'd') return std::string("(d ") + I(c.v) + " " + I(c.u) + " " + I(c.c) + ")";
  return std::string("(") + c.k + " " + I(c.v) + " " + I(c.c) + ")";
}

std::string cl(const char *hd, const std::vector<C> &v) {
  std::string o = std::string("(") + hd;
  for (auto &c : v) o += " " + cs(c);
  return o + ")";
}

void shuffle(Rng &r, std::vector<C> &v) {
  for (size_t i = v.size(); i > 1; i--) std::swap(v[i - 1], v[r.below(i)]);
}

// a constraint satisfied by the point p with slack s (s < 0: violated)
C around(Rng &r, const std::vector<int64_t> &p, unsigned n, int64_t s) {
  unsigned k = r.below(n >= 2 ? 4 : 2);
  int v = r.below(n);
  if (k == 0) return C{'b', v, 0, p[v] + s};
  if (k == 1) return C{'l', v, 0, p[v] - s};
  int u = r.below(n - 1);
  if (u >= v) u++;
  return C{'d', v, u, p[v] - p[u] + s};
}

std::string gen_mode(Rng &r) {
  unsigned k = r.below(20);
  if (k < 10) return "plain";
  if (k < 13) {
    std::string o = "(thr";
    unsigned m = 1 + r.below(4);
    for (unsigned i = 0; i < m; i++) o += " " + I(r.range(-20, 40));
    return o + ")";
  }
  if (k < 18) return "probe";
  return "index";
}

std::string finish(Rng &r, unsigned n, const std::vector<C> &x0, const std::vector<std::vector<C>> &ys, int64_t scale) {
  auto sc = [&](std::vector<C> v) { for (auto &c : v) c.c *= scale; return v; };
  std::string o = "(zw.chain " DOMNAME " " + gen_mode(r) + " " + I(n) + " " + cl("x0", sc(x0)) + " (ys";
  for (auto &y : ys) o += " " + cl("y", sc(y));
  return o + "))";
}

// two (or three) counters tied by difference constraints, bounds raised alternately
std::string gen_counters(Rng &r) {
  unsigned n = 2 + r.below(3);
  unsigned m = 2 + (n > 2 ? r.below(2) : 0); // counters v0..v(m-1), the others carry fixed bounds
  int64_t lo = r.range(-3, 3), w = r.range(1, 3);
  std::vector<int64_t> ub(m, lo + r.range(0, 2));
  std::vector<C> rel;
  rel.push_back(C{'l', (int)(m - 1), 0, lo});
  for (unsigned i = 0; i + 1 < m; i++) {
    rel.push_back(C{'d', (int)(i + 1), (int)i, 0});        // v(i+1) <= v(i)
    rel.push_back(C{'d', (int)i, (int)(i + 1), w});         // v(i) <= v(i+1) + w
  }
  for (unsigned i = m; i < n; i++) {
    rel.push_back(C{'b', (int)i, 0, r.range(0, 9)});
    if (r.coin()) rel.push_back(C{'l', (int)i, 0, r.range(-9, 0)});
  }
  auto mk = [&]() {
    std::vector<C> v = rel;
    for (unsigned i = 0; i < m; i++) v.push_back(C{'b', (int)i, 0, ub[i]});
    if (r.coin(1, 3)) shuffle(r, v);
    return v;
  };
  std::vector<C> x0 = mk();
  std::vector<std::vector<C>> ys;
  unsigned steps = 3 + r.below(6), who = r.below(m);
  for (unsigned i = 0; i < steps; i++) {
    ub[who] += r.range(1, 2);
    who = (who + 1) % m;
    ys.push_back(mk());
  }
  return finish(r, n, x0, ys, 1);
}

// one constant moves per step (cumulative), sometimes a constraint disappears
std::string gen_onemove(Rng &r) {
  unsigned n = 2 + r.below(4);
  std::vector<int64_t> p(n);
  for (auto &a : p) a = r.range(-6, 6);
  std::vector<C> base;
  for (unsigned v = 0; v < n; v++) {
    if (r.coin(3, 4)) base.push_back(C{'b', (int)v, 0, p[v] + r.range(0, 4)});
    if (r.coin(3, 4)) base.push_back(C{'l', (int)v, 0, p[v] - r.range(0, 4)});
  }
  unsigned nd = 1 + r.below(n + 2);
  for (unsigned i = 0; i < nd; i++) {
    int v = r.below(n), u = r.below(n - 1);
    if (u >= v) u++;
    base.push_back(C{'d', v, u, p[v] - p[u] + r.range(0, 3)});
  }
  shuffle(r, base);
  std::vector<C> x0 = base, cur = base;
  std::vector<std::vector<C>> ys;
  unsigned steps = 3 + r.below(6);
  for (unsigned i = 0; i < steps; i++) {
    unsigned moves = r.coin(1, 4) ? 2 : 1;
    for (unsigned j = 0; j < moves && !cur.empty(); j++) {
      unsigned t = r.below(cur.size());
      if (r.coin(1, 8)) cur.erase(cur.begin() + t);
      else if (cur[t].k == 'l') cur[t].c -= r.range(1, 4);
      else cur[t].c += r.range(1, 4);
    }
    std::vector<C> y = cur;
    if (r.coin(1, 4)) shuffle(r, y);
    ys.push_back(y);
  }
  return finish(r, n, x0, ys, r.coin(1, 12) ? 1000 : 1);
}

// loop-like: the bounds of some variables are translated a little further at every step
std::string gen_translate(Rng &r) {
  unsigned n = 2 + r.below(4);
  std::vector<int64_t> p(n), dv(n);
  for (auto &a : p) a = r.range(-5, 5);
  for (auto &a : dv) a = r.coin() ? r.range(-2, 2) : 0;
  std::vector<C> base;
  unsigned nc = n + 1 + r.below(n + 2);
  for (unsigned i = 0; i < nc; i++) base.push_back(around(r, p, n, r.range(0, 3)));
  std::vector<C> x0 = base;
  std::vector<std::vector<C>> ys;
  unsigned steps = 3 + r.below(6);
  for (unsigned i = 1; i <= steps; i++) {
    std::vector<C> y;
    for (auto c : base) {
      // the hull of the start and of the start translated by i*dv
      int64_t sh = c.k == 'd' ? (dv[c.v] - dv[c.u]) * (int64_t)i : dv[c.v] * (int64_t)i;
      if (c.k == 'l') { if (sh < 0) c.c += sh; }
      else if (sh > 0) c.c += sh;
      y.push_back(c);
    }
    ys.push_back(y);
  }
  return finish(r, n, x0, ys, 1);
}

// independent random values around a drifting point; sometimes infeasible
std::string gen_random(Rng &r) {
  unsigned n = 2 + r.below(4);
  std::vector<int64_t> p(n);
  for (auto &a : p) a = r.range(-6, 6);
  auto val = [&](unsigned lo, unsigned hi) {
    std::vector<C> v;
    unsigned nc = lo + r.below(hi - lo + 1);
    bool bad = r.coin(1, 16);
    for (unsigned i = 0; i < nc; i++) v.push_back(around(r, p, n, bad && r.coin(1, 3) ? -r.range(1, 3) : r.range(0, 6)));
    return v;
  };
  std::vector<C> x0 = val(n, 3 * n);
  std::vector<std::vector<C>> ys;
  unsigned steps = 2 + r.below(6);
  for (unsigned i = 0; i < steps; i++) {
    if (r.coin()) p[r.below(n)] += r.range(-2, 2);
    ys.push_back(val(n - 1, 3 * n));
  }
  return finish(r, n, x0, ys, r.coin(1, 12) ? 1000 : 1);
}

std::string gen(Rng &r, const Args &) {
  unsigned k = r.below(20);
  if (k < 4) return gen_counters(r);
  if (k < 10) return gen_onemove(r);
  if (k < 14) return gen_translate(r);
  return gen_random(r);
}

} // namespace

int main(int argc, char **argv) {
  crab::CrabEnableWarningMsg(false);
  return run_harness(argc, argv, gen, eval);
}
