// Self-contained program text format of the backward-analysis harness (component `bwd`).
// Integer variables v0..v{n-1}, blocks b0..b{k-1}.
//
//   PROG  ::= (prog <nvars> <entry> <exit> BLK*)
//   BLK   ::= (blk <label> (st STMT*) (succ <label>*))
//   STMT  ::= (assign x LIN) | (bin OP x y B) | (havoc x) | (assume CST) | (assert CST)
//           | (select x CST LIN LIN)
//   OP    ::= add | sub | mul | sdiv          B ::= vK | integer     (left operand is a variable)
//   LIN   ::= (lin c (k vK)*)                 value c + sum k*vK
//   CST   ::= (le LIN) | (lt LIN) | (eq LIN) | (ne LIN)     meaning LIN <= 0, < 0, = 0, != 0
//
// `build` creates a real crab CFG: blocks are inserted in the order of the text, the edges of a
// block are added in the order of its succ list.
#pragma once
#include "common.hpp"
#include "crab_lang.hpp"
#include <algorithm>
#include <map>
#include <memory>
#include <sstream>

namespace bp {
using namespace vh;
using namespace crab::cfg_impl;

inline std::string lab(unsigned b) { return "b" + std::to_string(b); }
inline unsigned unidx(const std::string &l) { return (unsigned)std::stoul(l.substr(1)); }

struct Ctx {
  variable_factory_t vfac;
  std::vector<z_var> vars;
  explicit Ctx(unsigned nv) {
    for (unsigned i = 0; i < nv; i++) vars.emplace_back(vfac["v" + std::to_string(i)], crab::INT_TYPE, 32);
  }
  const z_var &var(const Sx &x) const { return vars.at(unidx(x.a)); }
  const z_var &var(unsigned i) const { return vars.at(i); }
};

inline z_lin_exp_t parse_lin(const Ctx &c, const Sx &x) {
  z_lin_exp_t e(z_number(x[1].a));
  for (size_t i = 2; i < x.size(); i++) e = e + z_lin_exp_t(z_number(x[i][0].a), c.var(x[i][1]));
  return e;
}

inline z_lin_cst_t parse_cst(const Ctx &c, const Sx &x) {
  z_lin_exp_t e = parse_lin(c, x[1]);
  const std::string &k = x[0].a;
  if (k == "le") return z_lin_cst_t(e, z_lin_cst_t::INEQUALITY);
  if (k == "lt") return z_lin_cst_t(e, z_lin_cst_t::STRICT_INEQUALITY);
  if (k == "eq") return z_lin_cst_t(e, z_lin_cst_t::EQUALITY);
  return z_lin_cst_t(e, z_lin_cst_t::DISEQUATION);
}

inline bool is_var_atom(const Sx &x) { return x.is_atom && !x.a.empty() && x.a[0] == 'v'; }

inline void add_stmt(const Ctx &c, z_basic_block_t &b, const Sx &s) {
  const std::string &k = s[0].a;
  if (k == "assign") b.assign(c.var(s[1]), parse_lin(c, s[2]));
  else if (k == "havoc") b.havoc(c.var(s[1]));
  else if (k == "assume") b.assume(parse_cst(c, s[1]));
  else if (k == "assert") b.assertion(parse_cst(c, s[1]));
  else if (k == "select") b.select(c.var(s[1]), parse_cst(c, s[2]), parse_lin(c, s[3]), parse_lin(c, s[4]));
  else if (k == "bin") {
    const std::string &op = s[1].a;
    const z_var &x = c.var(s[2]);
    const z_var &y = c.var(s[3]);
    if (is_var_atom(s[4])) {
      const z_var &z = c.var(s[4]);
      if (op == "add") b.add(x, y, z); else if (op == "sub") b.sub(x, y, z);
      else if (op == "mul") b.mul(x, y, z); else b.div(x, y, z);
    } else {
      z_number z(s[4].a);
      if (op == "add") b.add(x, y, z); else if (op == "sub") b.sub(x, y, z);
      else if (op == "mul") b.mul(x, y, z); else b.div(x, y, z);
    }
  } else {
    CRAB_ERROR("bprog: unknown statement ", k);
  }
}

struct Built {
  std::unique_ptr<Ctx> ctx;
  std::unique_ptr<z_cfg_t> cfg;
  std::vector<std::string> labels; // in text order
  unsigned nvars = 0;
};

// (prog nvars entry exit (blk ...) ...)
inline Built build(const Sx &p) {
  Built r;
  r.nvars = (unsigned)std::stoul(p[1].a);
  r.ctx.reset(new Ctx(r.nvars));
  r.cfg.reset(new z_cfg_t(p[2].a, p[3].a));
  for (size_t i = 4; i < p.size(); i++) {
    r.cfg->insert(p[i][1].a);
    r.labels.push_back(p[i][1].a);
  }
  for (size_t i = 4; i < p.size(); i++) {
    z_basic_block_t &b = r.cfg->get_node(p[i][1].a);
    const Sx &st = p[i][2];
    for (size_t j = 1; j < st.size(); j++) add_stmt(*r.ctx, b, st[j]);
    const Sx &su = p[i][3];
    for (size_t j = 1; j < su.size(); j++) b >> r.cfg->get_node(su[j].a);
  }
  return r;
}

// ---- canonical export of linear expressions / constraints over v0..v{n-1} ----
inline std::string lin_str(const z_lin_exp_t &e) {
  std::ostringstream o;
  o << "(lin " << zs(e.constant());
  std::vector<std::pair<unsigned, std::string>> ts;
  bool foreign = false;
  for (auto it = e.begin(); it != e.end(); ++it) {
    std::string nm = it->second.name().str();
    if (nm.size() < 2 || nm[0] != 'v' || !isdigit(nm[1])) { foreign = true; continue; }
    ts.push_back({(unsigned)std::stoul(nm.substr(1)), zs(it->first)});
  }
  std::sort(ts.begin(), ts.end());
  for (auto &t : ts) o << " (" << t.second << " v" << t.first << ")";
  o << ")";
  return foreign ? std::string("foreign") : o.str();
}

inline std::string cst_str(const z_lin_cst_t &c) {
  std::string l = lin_str(c.expression());
  if (l == "foreign") return "";
  const char *k = c.is_inequality() ? "le" : c.is_strict_inequality() ? "lt" : c.is_equality() ? "eq" : "ne";
  return std::string("(") + k + " " + l + ")";
}

} // namespace bp
