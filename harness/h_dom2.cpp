// Second history harness (mechanism R, tag `dom2`): like h_dom.cpp it drives ONE shipped abstract
// domain (selected with -DVDOM=<id>) through an operation history over a pool of abstract values
// and exports, after every operation, everything the domain says about the modified value; the
// Lean driver (Driver/Dom2H.lean) replays the history on concrete witness states.  It adds what
// h_dom does not have: Boolean variables and the Boolean API, integer casts between typed
// variables, weak assignments, entailment queries, disjunctive exports, operator[] next to at(),
// more domains (ids >= 27, table below) and domain parameters drawn per history.
//
// variables : v0..v3 (int 32)  v4 (int 8)  v5 (int 16)  v6 (int 64)   b0..b2 (bool)
//             every statement is well typed in the sense of crab/cfg/type_checker.hpp: the variables
//             of one linear expression / constraint / arithmetic statement have the same type
// request : (dom2.hist <name> (params (<key> <value>) ...) (ops <op> ...) [(probes <cst> ...)])
//   params: strings of crab_domain_params::set_param, applied to crab_domain_params_man::get()
//           after a reset to the defaults (they are global: one setting per history)
//   <op> ::= (top d) | (bot d) | (copy d s) | (assign d x <lin>) | (wassign d x <lin>)
//          | (arith d <aop> x y <z>) | (bitw d <bop> x y <z>) | (assume d <cst>...)
//          | (forget d x...) | (project d x...) | (rename d (x...) (y...)) | (expand d x y)
//          | (join d a b) | (meet d a b) | (widen d a b) | (narrow d a b) | (joineq d a) | (meeteq d a)
//          | (normalize d) | (minimize d) | (select d x <cst> <lin> <lin>)
//          | (bcst d b <cst>) | (wbcst d b <cst>) | (bvar d b c <neg>) | (wbvar d b c <neg>)
//          | (bbin d <and|or|xor> b c e) | (bassume d b <neg>) | (bsel d b c b1 b2)
//          | (cast d <zext|sext|trunc> dst src)
//          | (entails d <cst>) | (query d x)
//          | (vpstart d x) | (vpend d x)          intrinsic value_partition_start / _end
//   <z>   ::= variable or integer constant ; <lin> ::= (lin c (k var) ...)
//   <cst> ::= (le <lin>) | (lt <lin>) | (eq <lin>) | (ne <lin>)        meaning  lin ⋈ 0
// result  : one item per op:
//   (s d <isbot> <istop> (iv <at(x) for v0..v6 b0..b2>) (cs <cst>...) <dj> (oth <1 if all other slots unchanged>) <extra>...)
//   <dj> ::= (dj true) | (dj false) | (dj err) | (dj (cs <cst>...) ...)     to_disjunctive_linear_constraint_system
//   <extra> ::= (ent <0|1>) after entails ; (sub <itv>) = operator[](x) after query
//   followed by (leq (i j b) ...) for all ordered pairs of the final pool, (lat ...) flags,
//   (probe (j b neg <isbot> <istop> (iv ...) (cs ...)) ...) = what a copy of final value #j says after assume_bool(b, neg),
//   (nprobe (j k <isbot> <istop> (iv ...) (cs ...)) ...) = the same after += the k-th constraint of (probes ...).
//   the monotonicity checks of the driver use the two probe lists: if i <= j was answered yes, the witnesses
//   of #i that satisfy the probe must satisfy what probe(#j) says (this reaches information a value holds
//   without exporting it: recorded implications of flat_boolean_numerical_domain, disjuncts, partitions).
// environment (development): DOM2_STAT=1 generates `dom2.stat` heads (the driver answers SKIP stat <figures>:
//   witness checks, live assume_bool / cast / entails-yes counts); DOM2_TRACE=1 prints every value after every
//   operation on crab::outs().
#include "common.hpp"
#include "crab_lang.hpp"

#ifndef VDOM
#define VDOM 1
#endif

#if VDOM <= 26
#include "domains.hpp"
#else
#include <crab/domains/abstract_domain_params.hpp>
#include <crab/domains/array_adaptive.hpp>
#include <crab/domains/array_smashing.hpp>
#include <crab/domains/combined_congruences.hpp>
#include <crab/domains/combined_domains.hpp>
#include <crab/domains/constant_domain.hpp>
#include <crab/domains/dis_intervals.hpp>
#include <crab/domains/fixed_tvpi_domain.hpp>
#include <crab/domains/flat_boolean_domain.hpp>
#include <crab/domains/generic_abstract_domain.hpp>
#include <crab/domains/intervals.hpp>
#include <crab/domains/lookahead_widening_domain.hpp>
#include <crab/domains/numerical_packing.hpp>
#include <crab/domains/powerset_domain.hpp>
#include <crab/domains/region_domain.hpp>
#include <crab/domains/sign_constant_domain.hpp>
#include <crab/domains/sign_domain.hpp>
#include <crab/domains/sparse_dbm.hpp>
#include <crab/domains/split_dbm.hpp>
#include <crab/domains/split_oct.hpp>
#include <crab/domains/term_equiv.hpp>
#include <crab/domains/uf_domain.hpp>
#include <crab/domains/value_partitioning_domain.hpp>

#include <functional>

using namespace vh;
using namespace crab::cfg_impl;
using namespace crab::domains;
using namespace ikos;

using z_interval_domain_t = interval_domain<z_number, varname_t>;
using z_dbm_graph_t = DBM_impl::DefaultParams<z_number, DBM_impl::GraphRep::adapt_ss>;
using z_dbm_graph_safe_t = DBM_impl::SafeInt64DefaultParams<z_number, DBM_impl::GraphRep::adapt_ss>;
using z_dbm_graph_big_t = DBM_impl::BigNumDefaultParams<z_number, DBM_impl::GraphRep::ss>;
using z_sdbm_domain_t = split_dbm_domain<z_number, varname_t, z_dbm_graph_t>;
using z_sdbm_safe_t = split_dbm_domain<z_number, varname_t, z_dbm_graph_safe_t>;
using z_dbm_domain_t = sparse_dbm_domain<z_number, varname_t, z_dbm_graph_t>;
using z_soct_domain_t = split_oct_domain<z_number, varname_t, z_dbm_graph_t>;
using z_soct_safe_t = split_oct_domain<z_number, varname_t, z_dbm_graph_safe_t>;
using z_dis_interval_domain_t = dis_interval_domain<z_number, varname_t>;
using z_term_domain_t = term_domain<term::TDomInfo<z_number, varname_t, z_interval_domain_t>>;
using z_bool_interval_domain_t = flat_boolean_numerical_domain<z_interval_domain_t>;
using z_bool_num_domain_t = flat_boolean_numerical_domain<z_dbm_domain_t>;
// as in tests/crab_dom.hpp (TestRegionParams): the base domain has its own variable factory
using var_allocator = crab::var_factory_impl::str_var_alloc_col;
using base_varname_t = typename var_allocator::varname_t;
template <class BaseAbsDom> struct TestRegionParams {
  using number_t = z_number;
  using varname_t = crab::cfg_impl::varname_t;
  using varname_allocator_t = crab::var_factory_impl::str_var_alloc_col;
  using base_abstract_domain_t = BaseAbsDom;
  using base_varname_t = typename BaseAbsDom::varname_t;
};

#if VDOM == 27
using Dom = value_partitioning_domain<z_interval_domain_t>;
#define DOMNAME "vpart-intervals"
#define D2_VPART 1
#elif VDOM == 28
using Dom = product_value_partitioning_domain<z_sdbm_domain_t>;
#define DOMNAME "pvpart-sdbm"
#define D2_VPART 1
#define D2_SMALL 1
#elif VDOM == 29
using Dom = uf_domain<z_number, varname_t>;
#define DOMNAME "uf"
#elif VDOM == 30
using Dom = numerical_packing_domain<z_sdbm_domain_t>;
#define DOMNAME "packing-sdbm"
#define D2_SMALL 1
#elif VDOM == 31
using Dom = numerical_packing_domain<z_soct_safe_t>;
#define DOMNAME "packing-soct-safe"
#elif VDOM == 32
using Dom = region_domain<TestRegionParams<interval_domain<z_number, base_varname_t>>>;
#define DOMNAME "rgn-intervals"
#define D2_RGN 1
#elif VDOM == 33
using Dom = region_domain<TestRegionParams<flat_boolean_numerical_domain<interval_domain<z_number, base_varname_t>>>>;
#define DOMNAME "rgn-flat-bool-intervals"
#define D2_RGN 1
#elif VDOM == 34
using Dom = flat_boolean_numerical_domain<z_sdbm_safe_t>;
#define DOMNAME "flat-bool-sdbm-safe"
#elif VDOM == 35
using Dom = flat_boolean_numerical_domain<z_soct_safe_t>;
#define DOMNAME "flat-bool-soct-safe"
#elif VDOM == 36
using Dom = flat_boolean_numerical_domain<z_term_domain_t>;
#define DOMNAME "flat-bool-term-intervals"
#elif VDOM == 37
using Dom = flat_boolean_numerical_domain<numerical_congruence_domain<z_interval_domain_t>>;
#define DOMNAME "flat-bool-ric"
#elif VDOM == 38
using Dom = term_domain<term::TDomInfo<z_number, varname_t, z_dis_interval_domain_t>>;
#define DOMNAME "term-dis-intervals"
#elif VDOM == 39
using Dom = term_domain<term::TDomInfo<z_number, varname_t, z_dbm_domain_t>>;
#define DOMNAME "term-sparse-dbm"
#define D2_SMALL 1
#elif VDOM == 40
using Dom = reduced_numerical_domain_product2<z_interval_domain_t, congruence_domain<z_number, varname_t>>;
#define DOMNAME "product-intervals-congruences"
#elif VDOM == 41
using Dom = reduced_numerical_domain_product2<z_sdbm_safe_t, z_dis_interval_domain_t>;
#define DOMNAME "product-sdbm-safe-dis-intervals"
#elif VDOM == 42
using Dom = reduced_domain_product2<z_number, varname_t, z_interval_domain_t, z_sdbm_safe_t>;
#define DOMNAME "rproduct-intervals-sdbm-safe"
#elif VDOM == 43
using Dom = powerset_domain<z_sdbm_safe_t>;
#define DOMNAME "powerset-sdbm-safe"
#define D2_PSET 1
#elif VDOM == 44
using Dom = powerset_domain<z_bool_interval_domain_t>;
#define DOMNAME "powerset-flat-bool-intervals"
#define D2_PSET 1
#elif VDOM == 45
using Dom = array_adaptive_domain<z_bool_interval_domain_t>;
#define DOMNAME "array-adaptive-flat-bool-intervals"
#elif VDOM == 46
using Dom = array_smashing<z_bool_num_domain_t>;
#define DOMNAME "array-smashing-flat-bool-sparse-dbm"
#define D2_SMALL 1
#elif VDOM == 47
using Dom = array_adaptive_domain<z_term_domain_t>;
#define DOMNAME "array-adaptive-term-intervals"
#elif VDOM == 48
using Dom = powerset_domain<array_adaptive_domain<z_interval_domain_t>>;
#define DOMNAME "powerset-array-adaptive-intervals"
#define D2_PSET 1
#elif VDOM == 49
using Dom = flat_boolean_domain<z_number, varname_t>;
#define DOMNAME "flat-boolean"
#elif VDOM == 50
using Dom = z_soct_domain_t;
#define DOMNAME "split-oct-int64"
#define D2_SMALL 1
#elif VDOM == 51
using Dom = lookahead_widening_domain<flat_boolean_numerical_domain<z_sdbm_safe_t>>;
#define DOMNAME "lookahead-flat-bool-sdbm-safe"
#elif VDOM == 52
using Dom = abstract_domain_ref<z_var>;
#define DOMNAME "generic-wrapper-flat-bool-intervals"
#define WRAPPED z_bool_interval_domain_t
#elif VDOM == 53
using Dom = fixed_tvpi_domain<z_soct_safe_t>;
#define DOMNAME "fixed-tvpi-soct-safe"
#define D2_TVPI 1
#elif VDOM == 54
using Dom = flat_boolean_numerical_domain<z_dis_interval_domain_t>;
#define DOMNAME "flat-bool-dis-intervals"
#elif VDOM == 55
using Dom = flat_boolean_numerical_domain<reduced_numerical_domain_product2<z_term_domain_t, z_sdbm_safe_t>>;
#define DOMNAME "flat-bool-product-term-sdbm-safe"
#elif VDOM == 56
using Dom = flat_boolean_numerical_domain<constant_domain<z_number, varname_t>>;
#define DOMNAME "flat-bool-constants"
#elif VDOM == 57
using Dom = powerset_domain<z_dis_interval_domain_t>;
#define DOMNAME "powerset-dis-intervals"
#define D2_PSET 1
#else
#error "unknown VDOM"
#endif

inline Dom vdom_mk_top() {
#ifdef WRAPPED
  WRAPPED w;
  return Dom(w);
#else
  Dom d;
  return d.make_top();
#endif
}
#endif // VDOM > 26

// ---- properties of the existing ids (domains.hpp) that the generator needs
#if VDOM == 11 || VDOM == 12 || VDOM == 13 || VDOM == 15 || VDOM == 16 || VDOM == 18 || VDOM == 20 || VDOM == 25 || VDOM == 26
#define D2_SMALL 1   // unchecked int64 DBM weights: constants below 10^5 (documented)
#endif
#if VDOM == 17
#define D2_PSET 1
#endif
#if VDOM == 13
#define D2_TVPI 1
#endif

namespace {

const unsigned NV = 7;   // integer variables v0..v6
const unsigned NB = 3;   // boolean variables b0..b2
const unsigned NP = 4;   // pool slots
const unsigned WIDTH[NV] = {32, 32, 32, 32, 8, 16, 64};

std::vector<z_var> *VARS = nullptr; // v0..v6 b0..b2

z_var var(unsigned i) { return (*VARS)[i]; }

// "vK" -> K ; "bK" -> NV + K
unsigned vidx(const Sx &x) {
  unsigned k = std::stoul(x.a.substr(1));
  return x.a[0] == 'b' ? NV + k : k;
}
std::string vname(unsigned i) { return i < NV ? "v" + std::to_string(i) : "b" + std::to_string(i - NV); }

z_lin_exp_t parse_lin(const Sx &x) {
  z_lin_exp_t e(z_number(x[1].a));
  for (size_t i = 2; i < x.size(); i++) e = e + z_lin_exp_t(z_number(x[i][0].a), var(vidx(x[i][1])));
  return e;
}

z_lin_cst_t parse_cst(const Sx &x) {
  z_lin_exp_t e = parse_lin(x[1]);
  const std::string &k = x[0].a;
  if (k == "le") return z_lin_cst_t(e, z_lin_cst_t::INEQUALITY);
  if (k == "lt") return z_lin_cst_t(e, z_lin_cst_t::STRICT_INEQUALITY);
  if (k == "eq") return z_lin_cst_t(e, z_lin_cst_t::EQUALITY);
  return z_lin_cst_t(e, z_lin_cst_t::DISEQUATION);
}

std::string lin_str(const z_lin_exp_t &e) {
  std::ostringstream o;
  o << "(lin " << zs(e.constant());
  std::vector<std::pair<unsigned, std::string>> ts;
  bool foreign = false;
  for (auto it = e.begin(); it != e.end(); ++it) {
    std::string nm = it->second.name().str();
    if (nm.size() != 2 || (nm[0] != 'v' && nm[0] != 'b') || !isdigit(nm[1])) { foreign = true; continue; }
    unsigned k = nm[1] - '0';
    if ((nm[0] == 'v' && k >= NV) || (nm[0] == 'b' && k >= NB)) { foreign = true; continue; }
    ts.push_back({nm[0] == 'b' ? NV + k : k, zs(it->first)});
  }
  std::sort(ts.begin(), ts.end());
  for (auto &t : ts) o << " (" << t.second << " " << vname(t.first) << ")";
  o << ")";
  return foreign ? std::string("foreign") : o.str();
}

std::string cst_str(const z_lin_cst_t &c) {
  std::string l = lin_str(c.expression());
  if (l == "foreign") return "";
  const char *k = c.is_inequality() ? "le" : c.is_strict_inequality() ? "lt" : c.is_equality() ? "eq" : "ne";
  return std::string("(") + k + " " + l + ")";
}

template <class Sys> std::string sys_str(const Sys &sys) {
  std::string o = "(cs";
  for (auto it = sys.begin(); it != sys.end(); ++it) {
    std::string s = cst_str(*it);
    if (!s.empty()) o += " " + s;
  }
  return o + ")";
}

// everything the value says through the const API (this text is also what C16 compares)
std::string dump(const Dom &d) {
  std::ostringstream o;
  o << (d.is_bottom() ? 1 : 0) << " " << (d.is_top() ? 1 : 0) << " (iv";
  for (unsigned i = 0; i < NV + NB; i++) o << " " << ivs(d.at(var(i)));
  o << ") " << sys_str(d.to_linear_constraint_system());
  return o.str();
}

std::string dump_disj(const Dom &d) {
  try {
    auto ds = d.to_disjunctive_linear_constraint_system();
    if (ds.is_false()) return "(dj false)";
    if (ds.is_true()) return "(dj true)";
    std::string o = "(dj";
    for (auto it = ds.begin(); it != ds.end(); ++it) o += " " + sys_str(*it);
    return o + ")";
  } catch (const crab::verif_error &) {
    return "(dj err)";
  }
}

crab::domains::arith_operation_t aop(const std::string &s) {
  if (s == "add") return OP_ADDITION;
  if (s == "sub") return OP_SUBTRACTION;
  if (s == "mul") return OP_MULTIPLICATION;
  if (s == "sdiv") return OP_SDIV;
  if (s == "udiv") return OP_UDIV;
  if (s == "srem") return OP_SREM;
  return OP_UREM;
}
crab::domains::bitwise_operation_t bop(const std::string &s) {
  if (s == "and") return OP_AND;
  if (s == "or") return OP_OR;
  if (s == "xor") return OP_XOR;
  if (s == "shl") return OP_SHL;
  if (s == "lshr") return OP_LSHR;
  return OP_ASHR;
}
crab::domains::bool_operation_t boolop(const std::string &s) {
  if (s == "and") return OP_BAND;
  if (s == "or") return OP_BOR;
  return OP_BXOR;
}
crab::domains::int_conv_operation_t convop(const std::string &s) {
  if (s == "zext") return OP_ZEXT;
  if (s == "sext") return OP_SEXT;
  return OP_TRUNC;
}

std::string eval(const Sx &q) {
  variable_factory_t vf;
  std::vector<z_var> vars;
  for (unsigned i = 0; i < NV; i++) vars.push_back(z_var(vf["v" + std::to_string(i)], crab::INT_TYPE, WIDTH[i]));
  for (unsigned i = 0; i < NB; i++) vars.push_back(z_var(vf["b" + std::to_string(i)], crab::BOOL_TYPE, 1));
  VARS = &vars;
  // parameters: reset to the defaults, then the settings of the request
  {
    auto &P = crab_domain_params_man::get();
    P = crab_domain_params();
    const Sx &ps = q[2];
    for (size_t i = 1; i < ps.size(); i++) P.set_param(ps[i][0].a, ps[i][1].a);
  }
  std::vector<Dom> pool;
  for (unsigned i = 0; i < NP; i++) pool.push_back(vdom_mk_top());
  std::vector<std::string> dumps(NP);
  for (unsigned i = 0; i < NP; i++) dumps[i] = dump(pool[i]);
  const Sx &ops = q[3];
  std::ostringstream out;
  auto P = [&](const Sx &x) -> Dom & { return pool[std::stoul(x.a)]; };
  for (size_t oi = 1; oi < ops.size(); oi++) {
    const Sx &op = ops[oi];
    const std::string &k = op[0].a;
    unsigned d = std::stoul(op[1].a);
    std::string extra;
    if (k == "top") pool[d].set_to_top();
    else if (k == "bot") pool[d].set_to_bottom();
    else if (k == "copy") {
      Dom c(P(op[2]));
      if (oi % 2) pool[d] = c;                                  // copy ctor + copy assignment
      else { Dom m(std::move(c)); pool[d] = std::move(m); }     // + move ctor + move assignment
    }
    else if (k == "assign") pool[d].assign(var(vidx(op[2])), parse_lin(op[3]));
    else if (k == "wassign") pool[d].weak_assign(var(vidx(op[2])), parse_lin(op[3]));
    else if (k == "arith") {
      if (!isdigit(op[5].a[0]) && op[5].a[0] != '-') pool[d].apply(aop(op[2].a), var(vidx(op[3])), var(vidx(op[4])), var(vidx(op[5])));
      else pool[d].apply(aop(op[2].a), var(vidx(op[3])), var(vidx(op[4])), z_number(op[5].a));
    } else if (k == "bitw") {
      if (!isdigit(op[5].a[0]) && op[5].a[0] != '-') pool[d].apply(bop(op[2].a), var(vidx(op[3])), var(vidx(op[4])), var(vidx(op[5])));
      else pool[d].apply(bop(op[2].a), var(vidx(op[3])), var(vidx(op[4])), z_number(op[5].a));
    } else if (k == "assume") {
      linear_constraint_system<z_number, varname_t> sys;
      for (size_t i = 2; i < op.size(); i++) sys += parse_cst(op[i]);
      pool[d] += sys;
    } else if (k == "forget") {
      if (op.size() == 3) pool[d] -= var(vidx(op[2]));
      else { std::vector<z_var> vs; for (size_t i = 2; i < op.size(); i++) vs.push_back(var(vidx(op[i]))); pool[d].forget(vs); }
    } else if (k == "project") {
      std::vector<z_var> vs; for (size_t i = 2; i < op.size(); i++) vs.push_back(var(vidx(op[i]))); pool[d].project(vs);
    } else if (k == "rename") {
      std::vector<z_var> f, t;
      for (size_t i = 0; i < op[2].size(); i++) f.push_back(var(vidx(op[2][i])));
      for (size_t i = 0; i < op[3].size(); i++) t.push_back(var(vidx(op[3][i])));
      pool[d].rename(f, t);
    } else if (k == "expand") pool[d].expand(var(vidx(op[2])), var(vidx(op[3])));
    else if (k == "join") { Dom r = P(op[2]) | P(op[3]); pool[d] = r; }
    else if (k == "meet") { Dom r = P(op[2]) & P(op[3]); pool[d] = r; }
    else if (k == "widen") { Dom r = P(op[2]) || P(op[3]); pool[d] = r; }
    else if (k == "narrow") { Dom r = P(op[2]) && P(op[3]); pool[d] = r; }
    else if (k == "joineq") pool[d] |= P(op[2]);
    else if (k == "meeteq") pool[d] &= P(op[2]);
    else if (k == "normalize") pool[d].normalize();
    else if (k == "minimize") pool[d].minimize();
    else if (k == "select") pool[d].select(var(vidx(op[2])), parse_cst(op[3]), parse_lin(op[4]), parse_lin(op[5]));
    else if (k == "bcst") pool[d].assign_bool_cst(var(vidx(op[2])), parse_cst(op[3]));
    else if (k == "wbcst") pool[d].weak_assign_bool_cst(var(vidx(op[2])), parse_cst(op[3]));
    else if (k == "bvar") pool[d].assign_bool_var(var(vidx(op[2])), var(vidx(op[3])), op[4].a == "1");
    else if (k == "wbvar") pool[d].weak_assign_bool_var(var(vidx(op[2])), var(vidx(op[3])), op[4].a == "1");
    else if (k == "bbin") pool[d].apply_binary_bool(boolop(op[2].a), var(vidx(op[3])), var(vidx(op[4])), var(vidx(op[5])));
    else if (k == "bassume") pool[d].assume_bool(var(vidx(op[2])), op[3].a == "1");
    else if (k == "bsel") pool[d].select_bool(var(vidx(op[2])), var(vidx(op[3])), var(vidx(op[4])), var(vidx(op[5])));
    else if (k == "cast") pool[d].apply(convop(op[2].a), var(vidx(op[3])), var(vidx(op[4])));
    else if (k == "entails") {
      const Dom &c = pool[d];
      extra = std::string(" (ent ") + (c.entails(parse_cst(op[2])) ? "1" : "0") + ")";
    } else if (k == "query") extra = " (sub " + ivs(pool[d][var(vidx(op[2]))]) + ")";
    else if (k == "vpstart") pool[d].intrinsic("value_partition_start", {z_var_or_cst_t(var(vidx(op[2])))}, {});
    else if (k == "vpend") pool[d].intrinsic("value_partition_end", {z_var_or_cst_t(var(vidx(op[2])))}, {});
    else throw std::runtime_error("unknown op " + k);
    if (std::getenv("DOM2_TRACE")) { crab::outs() << "# " << op.str() << " --> " << pool[d] << "\n"; }
    bool same = true;
    for (unsigned i = 0; i < NP; i++) {
      std::string nd = dump(pool[i]);
      if (i != d && nd != dumps[i]) same = false;
      dumps[i] = nd;
    }
    out << "(s " << d << " " << dumps[d] << " " << dump_disj(pool[d]) << " (oth " << (same ? 1 : 0) << ")" << extra << ") ";
  }
  out << "(leq";
  for (unsigned i = 0; i < NP; i++)
    for (unsigned j = 0; j < NP; j++) out << " (" << i << " " << j << " " << ((pool[i] <= pool[j]) ? 1 : 0) << ")";
  out << ") (lat";
  for (unsigned i = 0; i < NP; i++) {
    Dom b = pool[i].make_bottom(), t = pool[i].make_top();
    out << " (" << ((b <= pool[i]) ? 1 : 0) << " " << ((pool[i] <= t) ? 1 : 0) << " " << (b.is_bottom() ? 1 : 0) << " " << (t.is_top() ? 1 : 0) << ")";
  }
  out << ")";
  // probes: what a copy of each final value says after assume_bool(b, neg).  If i <= j was answered
  // yes, the states of #i that satisfy the assumption must satisfy what probe(#j) says (monotonicity);
  // this reaches information a value holds without exporting it (recorded implications).
  out << " (probe";
  for (unsigned j = 0; j < NP; j++)
    for (unsigned k = 0; k < NB; k++)
      for (unsigned neg = 0; neg < 2; neg++) {
        Dom c(pool[j]);
        c.assume_bool(var(NV + k), neg == 1);
        out << " (" << j << " b" << k << " " << neg << " " << dump(c) << ")";
      }
  out << ")";
  // numeric probes (optional 5th element of the request): the same after += cst
  if (q.size() > 4) {
    const Sx &pr = q[4];
    out << " (nprobe";
    for (unsigned j = 0; j < NP; j++)
      for (size_t k = 1; k < pr.size(); k++) {
        Dom c(pool[j]);
        linear_constraint_system<z_number, varname_t> sys;
        sys += parse_cst(pr[k]);
        c += sys;
        out << " (" << j << " " << (k - 1) << " " << dump(c) << ")";
      }
    out << ")";
  }
  return out.str();
}

// ---------------------------------------------------------------- generator
#ifdef D2_SMALL
const bool BIG_OK = false;
#else
const bool BIG_OK = true;
#endif

// region_domain::expand raises CRAB_ERROR("... not implemented"): rename is generated instead
#ifdef D2_RGN
const bool NO_EXPAND = true;
#else
const bool NO_EXPAND = false;
#endif

// a type group: the variables a well-typed statement may mix
struct Grp { std::vector<unsigned> vs; };
Grp pick_group(Rng &r) {
  switch (r.below(10)) {
  case 0: return Grp{{4}};
  case 1: return Grp{{5}};
  case 2: return Grp{{6}};
  default: return Grp{{0, 1, 2, 3}};
  }
}
Grp group_of(unsigned v) { return v < 4 ? Grp{{0, 1, 2, 3}} : Grp{{v}}; }
unsigned gpick(Rng &r, const Grp &g) { return g.vs[r.below(g.vs.size())]; }

z_number gen_coef(Rng &r) {
  switch (r.below(8)) {
  case 0: return z_number(0);
  case 1: case 2: case 3: return z_number(1);
  case 4: case 5: return z_number(-1);
  case 6: return z_number((int64_t)r.range(-4, 4));
  default: return z_number((int64_t)r.range(-50, 50));
  }
}
std::string gen_const(Rng &r, bool big_ok) {
  switch (r.below(10)) {
  case 0: return "0";
  case 1: return "1";
  case 2: return "-1";
  case 3: case 4: case 5: case 6: return std::to_string(r.range(-10, 10));
  case 7: return std::to_string(r.range(-1000, 1000));
  case 8: return big_ok ? zs(gen_z(r)) : std::to_string(r.range(-100000, 100000));
  default: return std::to_string(r.range(-40, 40));
  }
}
std::string gen_lin(Rng &r, const Grp &g, bool big_ok, unsigned maxterms = 3) {
  std::string s = "(lin " + gen_const(r, big_ok);
  unsigned k = r.below(maxterms + 1);
  std::vector<bool> used(NV, false);
  for (unsigned i = 0; i < k; i++) {
    unsigned v = gpick(r, g);
    if (used[v]) continue;
    used[v] = true;
    s += " (" + zs(gen_coef(r)) + " v" + std::to_string(v) + ")";
  }
  return s + ")";
}
// in-language (interval/zone/octagon) constraints mostly, general ones sometimes; `used` receives
// the variables of the constraint
std::string gen_cst(Rng &r, const Grp &g, bool big_ok, std::vector<unsigned> *used = nullptr, bool small = false) {
  static const char *K[] = {"le", "le", "le", "lt", "eq", "ne"};
  std::string k = K[r.below(6)];
  unsigned shape = r.below(6);
  std::string c = small ? std::to_string(r.range(-10, 10)) : gen_const(r, big_ok);
  if (shape <= 1 || g.vs.size() < 2) { // ±x ⋈ c   (sometimes k*x ⋈ c with a non-unit coefficient)
    std::string coef = r.coin() ? "1" : "-1";
    if (r.below(4) == 0) { z_number cf = gen_coef(r); if (!(cf == 0)) coef = zs(cf); }
    unsigned v = gpick(r, g);
    if (used) used->push_back(v);
    return "(" + k + " (lin " + c + " (" + coef + " v" + std::to_string(v) + ")))";
  } else if (shape <= 4) { // x - y ⋈ c  /  ±x ± y ⋈ c
    unsigned a = gpick(r, g), b = gpick(r, g);
    while (a == b) b = gpick(r, g);
    if (a > b) std::swap(a, b);
    bool oct = shape == 3 && r.coin();
    bool flip = r.coin();
    if (used) { used->push_back(a); used->push_back(b); }
    return "(" + k + " (lin " + c + " (" + (oct ? (r.coin() ? "-1" : "1") : (flip ? "-1" : "1")) + " v" + std::to_string(a) + ") (" +
           (oct ? "1" : (flip ? "1" : "-1")) + " v" + std::to_string(b) + ")))";
  }
  std::string l = gen_lin(r, g, big_ok);
  if (used) {
    Sx x; sx_parse_request(l, x);
    for (size_t i = 2; i < x.size(); i++) used->push_back(vidx(x[i][1]));
  }
  return "(" + k + " " + l + ")";
}

std::string B(unsigned i) { return "b" + std::to_string(i); }
std::string V(unsigned i) { return "v" + std::to_string(i); }

// a legal cast between two variables: (op dst src) text
std::string gen_cast(Rng &r, int want_dst = -1, int want_src = -1) {
  // order by width: bool(1) < v4(8) < v5(16) < v0..3(32) < v6(64)
  auto width = [](unsigned i) { return i < NV ? WIDTH[i] : 1u; };
  for (unsigned tries = 0; tries < 50; tries++) {
    unsigned a = want_dst >= 0 ? (unsigned)want_dst : r.below(NV + NB);
    unsigned b = want_src >= 0 ? (unsigned)want_src : r.below(NV + NB);
    if (a == b || width(a) == width(b)) continue;
    if (width(a) > width(b)) { // extension dst=a src=b ; dst must be an integer
      return std::string(r.coin() ? "zext " : "sext ") + vname(a) + " " + vname(b);
    } else { // truncation dst=a src=b ; src must be an integer (it is: wider than 1)
      return "trunc " + vname(a) + " " + vname(b);
    }
  }
  return "zext v6 v0";
}

// an operation on slot d that changes (or may change) integer variable x
std::string gen_modify(Rng &r, unsigned d, unsigned x, bool big_ok) {
  Grp g = group_of(x);
  std::ostringstream o;
  switch (r.below(12)) {
  case 0: case 1: o << " (assign " << d << " " << V(x) << " " << gen_lin(r, g, big_ok) << ")"; break;
  case 2: o << " (arith " << d << " add " << V(x) << " " << V(x) << " " << r.range(-3, 3) << ")"; break;
  case 3: o << " (arith " << d << " " << (r.coin() ? "mul " : "sub ") << V(x) << " " << V(gpick(r, g)) << " " << V(gpick(r, g)) << ")"; break;
  case 4: o << " (forget " << d << " " << V(x) << ")"; break;
  case 5: o << " (forget " << d << " " << V(x) << " " << (r.coin() ? V(r.below(NV)) : B(r.below(NB))) << ")"; break; // vector form
  case 6: o << " (wassign " << d << " " << V(x) << " " << gen_lin(r, g, big_ok) << ")"; break;
  case 7: o << " (cast " << d << " " << gen_cast(r, (int)x, -1) << ")"; break;
  case 8: o << " (select " << d << " " << V(x) << " " << gen_cst(r, pick_group(r), big_ok) << " " << gen_lin(r, g, big_ok, 2) << " " << gen_lin(r, g, big_ok, 2) << ")"; break;
  case 9: o << " (bitw " << d << " " << (r.coin() ? "and " : "shl ") << V(x) << " " << V(x) << " " << r.range(0, 5) << ")"; break;
  case 10: {
    if (g.vs.size() > 1) { // x receives a renamed / expanded other variable
      unsigned y = gpick(r, g);
      while (y == x) y = gpick(r, g);
      o << " (forget " << d << " " << V(x) << ") (" << (NO_EXPAND || r.coin() ? "rename1 " : "expand ") << d << " " << V(y) << " " << V(x) << ")";
    } else o << " (assign " << d << " " << V(x) << " (lin " << r.range(-9, 9) << "))";
    break;
  }
  default: { // project on everything but x
    o << " (project " << d;
    for (unsigned i = 0; i < NV + NB; i++) if (i != x && r.below(5) != 0) o << " " << vname(i);
    o << ")";
    break;
  }
  }
  return o.str();
}

// Boolean scenario: b := cst ; [derive other Booleans] ; [modify a variable of cst / lattice op] ; assume
std::string gen_bool_scenario(Rng &r, unsigned d, bool big_ok) {
  std::ostringstream o;
  unsigned b = r.below(NB);
  std::vector<unsigned> used;
  Grp g = pick_group(r);
  std::string c = gen_cst(r, g, big_ok, &used, true);
  o << " (" << (r.below(8) == 0 ? "wbcst " : "bcst ") << d << " " << B(b) << " " << c << ")";
  unsigned fin = b;
  bool chained = false;
  switch (r.below(8)) {
  case 0: case 1: { // b' := [not] b
    unsigned b2 = (b + 1 + r.below(NB - 1)) % NB;
    o << " (" << (r.below(6) == 0 ? "wbvar " : "bvar ") << d << " " << B(b2) << " " << B(b) << " " << (r.below(3) == 0 ? 1 : 0) << ")";
    fin = b2; chained = true;
    break;
  }
  case 2: { // b2 := b op b1 with b1 := cst'
    unsigned b1 = (b + 1) % NB, b2 = (b + 2) % NB;
    std::vector<unsigned> used2;
    o << " (bcst " << d << " " << B(b1) << " " << gen_cst(r, pick_group(r), big_ok, &used2, true) << ")";
    static const char *BO[] = {"and", "and", "or", "xor"};
    o << " (bbin " << d << " " << BO[r.below(4)] << " " << B(b2) << " " << B(b) << " " << B(b1) << ")";
    if (r.coin()) for (unsigned u : used2) used.push_back(u);
    fin = b2; chained = true;
    break;
  }
  case 3: { // select
    unsigned b1 = (b + 1) % NB, b2 = (b + 2) % NB;
    if (r.coin()) o << " (bcst " << d << " " << B(b1) << " " << (r.coin() ? "(le (lin 0))" : "(lt (lin 0))") << ")";
    unsigned cnd = r.below(NB), t1 = r.below(NB), t2 = r.below(NB);
    o << " (bsel " << d << " " << B(b2) << " " << B(cnd) << " " << B(t1) << " " << B(t2) << ")";
    fin = b2; chained = true;
    break;
  }
  default: break;
  }
  // what happens between the definition and the assumption
  unsigned n = r.below(3);
  for (unsigned i = 0; i < n; i++) {
    unsigned what = r.below(12);
    if (what < 5 && !used.empty()) o << gen_modify(r, d, used[r.below(used.size())], big_ok);
    else if (what == 5) { // redefine a Boolean of the chain
      unsigned bb = chained && r.coin() ? b : r.below(NB);
      switch (r.below(5)) {
      case 0: o << " (bcst " << d << " " << B(bb) << " " << gen_cst(r, pick_group(r), big_ok, nullptr, true) << ")"; break;
      case 1: o << " (bvar " << d << " " << B(bb) << " " << B(r.below(NB)) << " " << r.below(2) << ")"; break;
      case 2: o << " (cast " << d << " trunc " << B(bb) << " " << V(r.below(NV)) << ")"; break;
      case 3: o << " (forget " << d << " " << B(bb) << ")"; break;
      default: o << " (bbin " << d << " or " << B(bb) << " " << B(r.below(NB)) << " " << B(r.below(NB)) << ")"; break;
      }
    } else if (what == 6) o << " (joineq " << d << " " << r.below(NP) << ")";
    else if (what == 7) { unsigned e = (d + 1 + r.below(NP - 1)) % NP; o << " (copy " << e << " " << d << ")" << (used.empty() ? "" : gen_modify(r, e, used[r.below(used.size())], big_ok)) << " (join " << d << " " << d << " " << e << ")"; }
    else if (what == 8) o << " (widen " << d << " " << d << " " << r.below(NP) << ")";
    else if (what >= 10) {
      // meet / narrowing with a copy that recorded something NEW about a variable the definition depends on after it was
      // modified (what the copy knows must not make the stale recorded constraint usable again); the copy shares most
      // witnesses with the original, so the meet is not empty
      unsigned e = (d + 1 + r.below(NP - 1)) % NP;
      if (!used.empty()) o << gen_modify(r, d, used[r.below(used.size())], big_ok);
      o << " (copy " << e << " " << d << ")";
      unsigned b3 = (fin + 1 + r.below(NB - 1)) % NB;
      std::string x = used.empty() ? V(r.below(NV)) : V(used[r.below(used.size())]);
      o << " (bcst " << e << " " << B(b3) << " (le (lin " << -r.range(50, 500) << " (-1 " << x << "))))";
      switch (r.below(3)) {
      case 0: o << " (meet " << d << " " << d << " " << e << ")"; break;
      case 1: o << " (meeteq " << d << " " << e << ")"; break;
      default: o << " (narrow " << d << " " << d << " " << e << ")"; break;
      }
    }
    else o << " (assume " << d << " " << gen_cst(r, g, big_ok, nullptr, true) << ")";
  }
  o << " (bassume " << d << " " << B(fin) << " " << (r.below(3) == 0 ? 1 : 0) << ")";
  return o.str();
}

std::string gen_params(Rng &r) {
  std::ostringstream o;
  o << "(params";
  auto tf = [&](const char *k, unsigned flip_den) { bool dflt = std::string(k).find("close_bounds_inline") == std::string::npos; bool v = r.below(flip_den) == 0 ? !dflt : dflt; o << " (" << k << " " << (v ? "true" : "false") << ")"; };
  if (r.coin()) { // zones / octagon closure parameters (read by the DBM domains wherever they are nested)
    tf("zones.chrome_dijkstra", 2); tf("zones.widen_restabilize", 2); tf("zones.special_assign", 2); tf("zones.close_bounds_inline", 2);
    tf("oct.chrome_dijkstra", 2); tf("oct.widen_restabilize", 2);
  }
#ifdef D2_PSET
  {
    static const unsigned MD[] = {1, 2, 2, 3, 4, 8, 16, 99999};
    o << " (powerset.max_disjuncts " << MD[r.below(8)] << ") (powerset.exact_meet " << (r.coin() ? "true" : "false") << ")";
  }
#endif
#ifdef D2_TVPI
  {
    static const char *CF[] = {"2", "2,3", "3", "2,5", "4"};
    if (r.below(4) != 0) o << " (fixed_tvpi.coefficients " << CF[r.below(5)] << ")";
  }
#endif
#ifdef D2_RGN
  if (r.coin()) o << " (region.allocation_sites " << (r.coin() ? "true" : "false") << ") (region.deallocation " << (r.coin() ? "true" : "false")
                  << ") (region.tag_analysis " << (r.coin() ? "true" : "false") << ") (region.is_dereferenceable " << (r.coin() ? "true" : "false") << ")";
#endif
  o << ")";
  return o.str();
}

std::string gen(Rng &r, const Args &a) {
  bool thorough = a.tier == "thorough";
  bool big_ok = BIG_OK;
  unsigned len = 5 + r.below(thorough ? 50 : 22);
  std::ostringstream o;
  o << (std::getenv("DOM2_STAT") ? "(dom2.stat " : "(dom2.hist ") << DOMNAME << " " << gen_params(r) << " (ops";
  static const char *AOP[] = {"add", "sub", "mul", "sdiv", "udiv", "srem", "urem"};
  static const char *BOP[] = {"and", "or", "xor", "shl", "lshr", "ashr"};
  // 0 mixed, 1 constraint heavy, 2 assignment/arith heavy, 3 lattice heavy, 4/5 Boolean heavy, 6 cast heavy
  unsigned profile = r.below(7);
#ifdef D2_PSET
  if (len > 22) len = 22;
#endif
  // seeding phase: give most slots a bounded, non-trivial starting value
  // constraints that hold in a slot after the seeding phase (weakened): candidates for entailment queries
  std::vector<std::vector<std::string>> hints(NP);
  for (unsigned d = 0; d < NP; d++) {
    if (r.below(5) == 0) continue;
#ifdef D2_VPART
    if (r.below(4) != 0) o << " (vpstart " << d << " v" << r.below(4) << ")";
    if (r.below(3) == 0) o << " (vpstart " << d << " v" << r.below(NV) << ")";
#endif
    unsigned nv = 2 + r.below(3);
    for (unsigned j = 0; j < nv; j++) {
      unsigned v = r.below(5) == 0 ? 4 + r.below(3) : r.below(4);
      int64_t lo = r.range(-12, 12), hi = lo + r.range(0, 9);
      unsigned kind = r.below(4);
      switch (kind) {
      case 0: o << " (assign " << d << " v" << v << " (lin " << lo << "))"; break;
      case 1: o << " (assume " << d << " (le (lin " << lo << " (-1 v" << v << "))))"; break;  // v >= lo
      case 2: o << " (assume " << d << " (le (lin " << -hi << " (1 v" << v << "))))"; break;   // v <= hi
      default: o << " (assume " << d << " (le (lin " << lo << " (-1 v" << v << "))) (le (lin " << -hi << " (1 v" << v << "))))"; break;
      }
      if (kind == 0) hi = lo;
      if (kind != 2) hints[d].push_back("(le (lin " + std::to_string(lo - r.range(0, 3)) + " (-1 v" + std::to_string(v) + ")))");
      if (kind != 1) hints[d].push_back("(le (lin " + std::to_string(-hi - r.range(0, 3)) + " (1 v" + std::to_string(v) + ")))");
      if (kind == 0 && r.coin()) hints[d].push_back("(eq (lin " + std::to_string(-lo) + " (1 v" + std::to_string(v) + ")))");
    }
    if (r.below(3) == 0) {
      unsigned x = r.below(4), y = (x + 1 + r.below(3)) % 4;
      int64_t c = r.range(-5, 5);
      o << " (assume " << d << " (le (lin " << c << " (1 v" << x << ") (-1 v" << y << "))))";
      hints[d].push_back("(le (lin " + std::to_string(c - r.range(0, 2)) + " (1 v" + std::to_string(x) + ") (-1 v" + std::to_string(y) + ")))");
    }
    if (r.below(3) == 0) o << " (bcst " << d << " " << B(r.below(NB)) << " " << gen_cst(r, pick_group(r), big_ok, nullptr, true) << ")";
  }
  for (unsigned i = 0; i < len; i++) {
    unsigned d = r.below(NP);
    unsigned k = r.below(130);
    if (profile == 1) k = r.below(3) ? 30 + r.below(20) : k;
    if (profile == 2) k = r.below(3) ? r.below(30) : k;
    if (profile == 3) k = r.below(3) ? 62 + r.below(26) : k;
    if (profile == 4 || profile == 5) k = r.below(3) ? 100 + r.below(22) : k;
    if (profile == 6) k = r.below(3) ? 122 + r.below(4) : k;
    Grp g = pick_group(r);
    if (k < 14) o << " (" << (r.below(8) == 0 ? "wassign " : "assign ") << d << " v" << gpick(r, g) << " " << gen_lin(r, g, big_ok) << ")";
    else if (k < 24) {
      std::string z = r.coin() ? V(gpick(r, g)) : gen_const(r, false);
      o << " (arith " << d << " " << AOP[r.below(r.below(3) ? 3 : 7)] << " v" << gpick(r, g) << " v" << gpick(r, g) << " " << z << ")";
    } else if (k < 30) {
      std::string z = r.coin() ? V(gpick(r, g)) : std::to_string(r.range(0, 12));
      unsigned bo = r.below(6);
      // see h_dom.cpp: bounded amount for a variable left shift in histories with big constants (F22)
      if (bo == 3 && z[0] == 'v' && big_ok) {
        // (an assumed bound is not enough: domains that ignore inequalities keep the big constant)
        if (r.coin()) o << " (assign " << d << " " << z << " (lin " << r.range(0, 12) << "))";
        else z = std::to_string(r.range(0, 12));
      }
      o << " (bitw " << d << " " << BOP[bo] << " v" << gpick(r, g) << " v" << gpick(r, g) << " " << z << ")";
    } else if (k < 52) {
      o << " (assume " << d;
      unsigned n = 1 + (r.below(4) == 0 ? r.below(3) : 0);
      for (unsigned j = 0; j < n; j++) o << " " << gen_cst(r, g, big_ok);
      o << ")";
    } else if (k < 57) {
      o << " (forget " << d;
      unsigned n = 1 + r.below(2);
      for (unsigned j = 0; j < n; j++) o << " " << vname(r.below(NV + NB));
      o << ")";
    } else if (k < 59) {
      o << " (project " << d;
      unsigned n = 1 + r.below(5);
      std::vector<bool> used(NV + NB, false);
      for (unsigned j = 0; j < n; j++) { unsigned v = r.below(NV + NB); if (!used[v]) { used[v] = true; o << " " << vname(v); } }
      o << ")";
    } else if (k < 62) {
      // the target must not be constrained: forget it first (the API requires a fresh name)
      bool ren = NO_EXPAND || r.coin();
      if (r.below(4) == 0) { // Booleans
        unsigned x = r.below(NB), y = (x + 1 + r.below(NB - 1)) % NB;
        o << " (forget " << d << " " << B(y) << ") (" << (ren ? "rename1 " : "expand ") << d << " " << B(x) << " " << B(y) << ")";
      } else {
        unsigned x = r.below(4), y = (x + 1 + r.below(3)) % 4;
        o << " (forget " << d << " v" << y << ") (" << (ren ? "rename1 " : "expand ") << d << " v" << x << " v" << y << ")";
      }
    } else if (k < 70) o << " (join " << d << " " << r.below(NP) << " " << r.below(NP) << ")";
    else if (k < 75) o << " (meet " << d << " " << r.below(NP) << " " << r.below(NP) << ")";
    else if (k < 81) o << " (widen " << d << " " << r.below(NP) << " " << r.below(NP) << ")";
    else if (k < 83) { unsigned s = r.below(NP); o << " (meet " << d << " " << s << " " << r.below(NP) << ") (narrow " << d << " " << s << " " << d << ")"; }
    else if (k < 86) o << " (joineq " << d << " " << r.below(NP) << ")";
    else if (k < 88) o << " (meeteq " << d << " " << r.below(NP) << ")";
    else if (k < 93) {
      // a copy, then (mostly) an in-place operation on one of the two copies while they still
      // share their representation: this is where a missing detach / clone shows (C16)
      unsigned src = r.below(NP);
      o << " (copy " << d << " " << src << ")";
      hints[d] = hints[src];
      if (r.below(3) != 0) {
        unsigned t = r.coin() ? d : src;
        switch (r.below(8)) {
        case 0: o << " (joineq " << t << " " << r.below(NP) << ")"; break;
        case 1: o << " (meeteq " << t << " " << r.below(NP) << ")"; break;
        case 2: o << " (assign " << t << " v" << gpick(r, g) << " " << gen_lin(r, g, big_ok) << ")"; break;
        case 3: o << " (assume " << t << " " << gen_cst(r, g, big_ok) << ")"; break;
        case 4: o << " (bcst " << t << " " << B(r.below(NB)) << " " << gen_cst(r, g, big_ok, nullptr, true) << ")"; break;
        case 5: o << " (bassume " << t << " " << B(r.below(NB)) << " " << r.below(2) << ")"; break;
        case 6: o << " (bvar " << t << " " << B(r.below(NB)) << " " << B(r.below(NB)) << " " << r.below(2) << ")"; break;
        default: o << " (forget " << t << " " << vname(r.below(NV + NB)) << ")"; break;
        }
      }
    }
    else if (k < 95) o << " (" << (r.coin() ? "normalize " : "minimize ") << d << ")";
    else if (k < 96) o << " (query " << d << " " << vname(r.below(NV + NB)) << ")";
    else if (k < 98) o << " (select " << d << " v" << gpick(r, g) << " " << gen_cst(r, pick_group(r), big_ok) << " " << gen_lin(r, g, big_ok, 2) << " " << gen_lin(r, g, big_ok, 2) << ")";
    else if (k < 99) o << " (top " << d << ")";
    else if (k < 100) o << " (bot " << d << ")";
    // ---- Boolean part
    else if (k < 108) o << gen_bool_scenario(r, d, big_ok);
    else if (k < 111) o << " (" << (r.below(6) == 0 ? "wbcst " : "bcst ") << d << " " << B(r.below(NB)) << " " << gen_cst(r, g, big_ok, nullptr, r.coin()) << ")";
    else if (k < 113) o << " (" << (r.below(6) == 0 ? "wbvar " : "bvar ") << d << " " << B(r.below(NB)) << " " << B(r.below(NB)) << " " << r.below(2) << ")";
    else if (k < 115) { static const char *BO[] = {"and", "or", "xor"}; o << " (bbin " << d << " " << BO[r.below(3)] << " " << B(r.below(NB)) << " " << B(r.below(NB)) << " " << B(r.below(NB)) << ")"; }
    else if (k < 118) o << " (bassume " << d << " " << B(r.below(NB)) << " " << r.below(2) << ")";
    else if (k < 119) o << " (bsel " << d << " " << B(r.below(NB)) << " " << B(r.below(NB)) << " " << B(r.below(NB)) << " " << B(r.below(NB)) << ")";
    else if (k < 122) { // entailment query: often a consequence of the seeding
      if (!hints[d].empty() && r.below(3) != 0) o << " (entails " << d << " " << hints[d][r.below(hints[d].size())] << ")";
      else if (r.coin()) o << " (entails " << d << " " << gen_cst(r, g, big_ok, nullptr, true) << ")";
      else { unsigned v = gpick(r, g); bool up = r.coin(); o << " (entails " << d << " (le (lin " << (up ? -r.range(0, 30) : -r.range(0, 20)) << " (" << (up ? 1 : -1) << " v" << v << "))))"; }
    }
    // ---- casts
    else if (k < 126) {
      std::string c = gen_cast(r);
      // a truncation to a Boolean is only exercised on 0 / 1: mostly restrict the source first
      if (c.compare(0, 7, "trunc b") == 0 && r.below(4) != 0) {
        std::string src = c.substr(c.rfind(' ') + 1);
        o << " (assume " << d << " (le (lin 0 (-1 " << src << "))) (le (lin -1 (1 " << src << "))))";
      }
      o << " (cast " << d << " " << c << ")";
    }
#ifdef D2_VPART
    else if (k < 128) o << " (vpstart " << d << " v" << r.below(NV) << ")";
    else o << " (vpend " << d << " v" << r.below(NV) << ")";
#else
    else o << " (query " << d << " " << vname(r.below(NV + NB)) << ")";
#endif
  }
  o << ")";
  // numeric probes: constraints around the values of the seeding phase (they fall into the holes of
  // disjunctive values)
  o << " (probes";
  for (unsigned i = 0; i < 3; i++) {
    Grp g = r.below(4) == 0 ? pick_group(r) : Grp{{0, 1, 2, 3}};
    unsigned v = gpick(r, g);
    switch (r.below(4)) {
    case 0: o << " (eq (lin " << r.range(-22, 13) << " (1 v" << v << ")))"; break;
    case 1: { int64_t c = r.range(-14, 22); o << " (" << (r.coin() ? "le" : "lt") << " (lin " << -c << " (1 v" << v << ")))"; break; }
    case 2: { int64_t c = r.range(-14, 22); o << " (le (lin " << c << " (-1 v" << v << ")))"; break; }
    default: o << " " << gen_cst(r, g, big_ok, nullptr, true); break;
    }
  }
  o << "))";
  std::string s = o.str();
  // "rename1 d x y" is sugar for (rename d (x) (y))
  size_t p;
  while ((p = s.find("(rename1 ")) != std::string::npos) {
    size_t e = s.find(")", p);
    std::istringstream is(s.substr(p + 9, e - p - 9));
    std::string d, x, y;
    is >> d >> x >> y;
    s.replace(p, e - p + 1, "(rename " + d + " (" + x + ") (" + y + "))");
  }
  return s;
}

} // namespace

int main(int argc, char **argv) {
  crab::CrabEnableWarningMsg(false); // "not implemented" warnings of some domains flood stderr
  return run_harness(argc, argv, gen, eval);
}
