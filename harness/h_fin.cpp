// Harness for the finite / flat scalar abstractions of the current tree:
//   sgn  : crab::domains::sign<z_number>       (sign.hpp; instantiated in lib/sign.cpp)
//   bool : crab::domains::boolean_value         (boolean.hpp, lib/boolean.cpp)
//   cst  : crab::domains::constant<z_number>    (constant.hpp; z_number specialisations in lib/constant.cpp)
// Do NOT include *_impl.hpp here: lib/constant.cpp specialises SRem/Bitwise* for z_number and the
// generic template bodies would silently replace them (ODR).
// Lines:
//   (sgn.<op> x y) => r|err   (sgn.leq x y) (sgn.eq x y) => 0|1   (sgn.ofnum n) => s
//   (sgn.toitv x) => I        (sgn.fromitv I) => s
//   (bool.<op> x y) => r      (bool.neg x) => r      (bool.leq x y) (bool.eq x y) => 0|1
//   (cst.<op> X Y) => R       (cst.leq X Y) (cst.eq X Y) => 0|1        X ::= bot | top | n
#include "common.hpp"
#include <crab/domains/boolean.hpp>
#include <crab/domains/constant.hpp>
#include <crab/domains/sign.hpp>
using namespace vh;
using sign_t = crab::domains::sign<z_number>;
using bool_t = crab::domains::boolean_value;
using cst_t = crab::domains::constant<z_number>;

static std::string bstr(bool b) { return b ? "1" : "0"; }

// ---- sign ----
static const std::vector<std::string> SNAMES = {"bot", "ltz", "gtz", "eqz", "nez", "gez", "lez", "top"};
static sign_t parse_sign(const std::string &s) {
  if (s == "bot") return sign_t::bottom();
  if (s == "ltz") return sign_t::mk_less_than_zero();
  if (s == "gtz") return sign_t::mk_greater_than_zero();
  if (s == "eqz") return sign_t::mk_equal_zero();
  if (s == "nez") return sign_t::mk_not_equal_zero();
  if (s == "gez") return sign_t::mk_greater_or_equal_than_zero();
  if (s == "lez") return sign_t::mk_less_or_equal_than_zero();
  return sign_t::top();
}
static std::string sname(const sign_t &s) {
  if (s.is_bottom()) return "bot";
  if (s.less_than_zero()) return "ltz";
  if (s.greater_than_zero()) return "gtz";
  if (s.equal_zero()) return "eqz";
  if (s.not_equal_zero()) return "nez";
  if (s.greater_or_equal_than_zero()) return "gez";
  if (s.less_or_equal_than_zero()) return "lez";
  if (s.is_top()) return "top";
  return "unknown";
}
static const std::vector<std::string> SOPS = {"add", "sub", "mul", "div", "udiv", "srem", "urem", "and",
                                              "or", "xor", "shl", "lshr", "ashr", "join", "meet"};
static std::string eval_sgn(const std::string &op, const Sx &q) {
  if (op == "ofnum") return sname(sign_t(z_number(q[1].a)));
  if (op == "toitv") return ivs(parse_sign(q[1].a).to_interval());
  if (op == "fromitv") return sname(sign_t::top().from_interval(parse_interval(q[1])));
  sign_t a = parse_sign(q[1].a), b = parse_sign(q[2].a);
  if (op == "leq") return bstr(a <= b);
  if (op == "eq") return bstr(a == b);
  if (op == "add") return sname(a + b);
  if (op == "sub") return sname(a - b);
  if (op == "mul") return sname(a * b);
  if (op == "div") return sname(a / b);
  if (op == "udiv") return sname(a.UDiv(b));
  if (op == "srem") return sname(a.SRem(b));
  if (op == "urem") return sname(a.URem(b));
  if (op == "and") return sname(a.And(b));
  if (op == "or") return sname(a.Or(b));
  if (op == "xor") return sname(a.Xor(b));
  if (op == "shl") return sname(a.Shl(b));
  if (op == "lshr") return sname(a.LShr(b));
  if (op == "ashr") return sname(a.AShr(b));
  if (op == "join") return sname(a | b);
  if (op == "meet") return sname(a & b);
  return "unknown";
}

// ---- boolean_value ----
static const std::vector<std::string> BNAMES = {"false", "true", "bot", "top"};
static bool_t parse_boolv(const std::string &s) {
  if (s == "false") return bool_t::get_false();
  if (s == "true") return bool_t::get_true();
  if (s == "bot") return bool_t::bottom();
  return bool_t::top();
}
static std::string bname(const bool_t &b) {
  if (b.is_false()) return "false";
  if (b.is_true()) return "true";
  if (b.is_bottom()) return "bot";
  if (b.is_top()) return "top";
  return "unknown";
}
static const std::vector<std::string> BOPS = {"and", "or", "xor", "join", "meet", "widen", "narrow"};
static std::string eval_bool(const std::string &op, const Sx &q) {
  bool_t a = parse_boolv(q[1].a);
  if (op == "neg") return bname(a.Negate());
  bool_t b = parse_boolv(q[2].a);
  if (op == "leq") return bstr(a <= b);
  if (op == "eq") return bstr(a == b);
  if (op == "and") return bname(a.And(b));
  if (op == "or") return bname(a.Or(b));
  if (op == "xor") return bname(a.Xor(b));
  if (op == "join") return bname(a | b);
  if (op == "meet") return bname(a & b);
  if (op == "widen") return bname(a || b);
  if (op == "narrow") return bname(a && b);
  return "unknown";
}

// ---- constant ----
static cst_t parse_cst(const std::string &s) {
  if (s == "bot") return cst_t::bottom();
  if (s == "top") return cst_t::top();
  return cst_t(z_number(s));
}
static std::string cname(const cst_t &c) {
  if (c.is_bottom()) return c.is_constant() ? "botx" : "bot";
  if (c.is_top()) return "top";
  return zs(c.get_constant());
}
static const std::vector<std::string> COPS = {"join", "meet", "widen", "narrow", "add", "sub", "mul", "div",
                                              "srem", "udiv", "urem", "and", "or", "xor", "shl", "lshr", "ashr"};
static std::string eval_cst(const std::string &op, const Sx &q) {
  cst_t a = parse_cst(q[1].a), b = parse_cst(q[2].a);
  if (op == "leq") return bstr(a <= b);
  if (op == "eq") return bstr(a == b);
  if (op == "join") return cname(a | b);
  if (op == "meet") return cname(a & b);
  if (op == "widen") return cname(a || b);
  if (op == "narrow") return cname(a && b);
  if (op == "add") return cname(a.Add(b));
  if (op == "sub") return cname(a.Sub(b));
  if (op == "mul") return cname(a.Mul(b));
  if (op == "div") return cname(a.SDiv(b));
  if (op == "srem") return cname(a.SRem(b));
  if (op == "udiv") return cname(a.UDiv(b));
  if (op == "urem") return cname(a.URem(b));
  if (op == "and") return cname(a.BitwiseAnd(b));
  if (op == "or") return cname(a.BitwiseOr(b));
  if (op == "xor") return cname(a.BitwiseXor(b));
  if (op == "shl") return cname(a.BitwiseShl(b));
  if (op == "lshr") return cname(a.BitwiseLShr(b));
  if (op == "ashr") return cname(a.BitwiseAShr(b));
  return "unknown";
}

static std::string eval(const Sx &q) {
  const std::string &h = q[0].a;
  size_t p = h.find('.');
  std::string comp = h.substr(0, p), op = h.substr(p + 1);
  if (comp == "sgn") return eval_sgn(op, q);
  if (comp == "bool") return eval_bool(op, q);
  if (comp == "cst") return eval_cst(op, q);
  return "unknown";
}

static std::string gen_cst(Rng &r) {
  unsigned k = r.below(10);
  if (k == 0) return "bot";
  if (k == 1) return "top";
  if (k <= 5) return zs(gen_small_z(r));
  return zs(gen_z(r));
}

static std::string gen(Rng &r, const Args &) {
  unsigned k = r.below(16);
  if (k <= 5) { // sign: the binary operations and the order cover their whole (finite) domain
    unsigned j = r.below(12);
    if (j == 0) return "(sgn.ofnum " + zs(r.coin() ? gen_small_z(r, 2) : gen_z(r)) + ")";
    if (j == 1) return "(sgn.toitv " + r.pick(SNAMES) + ")";
    if (j == 2 || j == 3) return "(sgn.fromitv " + ivs(gen_interval(r, r.coin(2, 3))) + ")";
    if (j == 4) return "(sgn." + std::string(r.coin() ? "leq" : "eq") + " " + r.pick(SNAMES) + " " + r.pick(SNAMES) + ")";
    return "(sgn." + r.pick(SOPS) + " " + r.pick(SNAMES) + " " + r.pick(SNAMES) + ")";
  }
  if (k <= 7) {
    unsigned j = r.below(8);
    if (j == 0) return "(bool.neg " + r.pick(BNAMES) + ")";
    if (j == 1) return "(bool." + std::string(r.coin() ? "leq" : "eq") + " " + r.pick(BNAMES) + " " + r.pick(BNAMES) + ")";
    return "(bool." + r.pick(BOPS) + " " + r.pick(BNAMES) + " " + r.pick(BNAMES) + ")";
  }
  std::string a = gen_cst(r), b = gen_cst(r);
  if (r.below(8) == 0) return "(cst." + std::string(r.coin() ? "leq" : "eq") + " " + a + " " + (r.below(3) == 0 ? a : b) + ")";
  std::string op = r.pick(COPS);
  if (r.below(6) == 0) b = a;
  if (op == "shl" || op == "lshr" || op == "ashr") {
    // the code computes 2^amount: keep amounts small (constants -2..9, sometimes up to 200)
    if (b != "bot" && b != "top") b = zs(z_number((int64_t)r.range(-2, r.below(6) == 0 ? 200 : 9)));
  }
  return "(cst." + op + " " + a + " " + b + ")";
}

int main(int argc, char **argv) { return run_harness(argc, argv, gen, eval); }
