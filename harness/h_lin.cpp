// Harness for component `lin`: ikos::linear_expression / linear_constraint /
// linear_constraint_system over z_number (include/crab/types/linear_constraints.hpp,
// include/crab/types/variable.hpp) of the current tree.
//
// A request carries a whole construction history as a term, evaluated here with the real
// operators and by the driver with the model:
//   T ::= (n k) | (v i) | (t k i) | (add T T) | (sub T T) | (neg T) | (mul k T) | (lmul k T)
//       | (addn T k) | (subn T k) | (addv T i) | (subv T i) | (nadd k T) | (nsub k T)
//       | (vadd i T) | (vsub i T) | (ren T ((i j) ...))
//   C ::= (mk <kind> T) | (rel <op> T T) | (negate C) | (s2ns C) | (renc C ((i j) ...))
//   kinds: eq neq leq lt      rel ops: le lt ge gt eq ne
// Lines:
//   (lin.expr T)            => (e (c) (k vi) ...)          entries in map iteration order
//   (lin.coef T i)          => k        (lin.isconst T) => 0|1      (lin.equal T T) => 0|1
//   (lin.cst C)             => (cst <kind> E)
//   (lin.taut C) / (lin.contra C) => 0|1
//   (lin.sys (C ...))       => (sys (cst ..) ...)           built with operator+=
//   (lin.union (C ...) (C ...)) => (sys ...)                operator+
//   (lin.norm (C ...))      => (sys ...)                    normalize()
//   (lin.isfalse (C ...))   => 0|1
#include "common.hpp"
#include <crab/types/linear_constraints.hpp>
#include <crab/types/varname_factory.hpp>
#include <map>
using namespace vh;

// the client-side trait every crab client has to supply for its variable-name type
// (same text as tests/crab_lang.hpp)
namespace crab {
template <> class variable_name_traits<std::string> {
public:
  static std::string to_string(std::string varname) { return varname; }
};
} // namespace crab

using vfac_t = crab::var_factory_impl::str_variable_factory;
using varname_t = vfac_t::varname_t;
using var_t = crab::variable<z_number, varname_t>;
using lexp_t = ikos::linear_expression<z_number, varname_t>;
using lcst_t = ikos::linear_constraint<z_number, varname_t>;
using lsys_t = ikos::linear_constraint_system<z_number, varname_t>;

static const unsigned NVARS = 6;
static vfac_t *g_vfac = nullptr;
static std::vector<var_t> g_vars;

static void init_vars() {
  if (g_vfac) return;
  g_vfac = new vfac_t();
  // created in order: the factory hands out increasing indexes, so v0 < v1 < ... < v5
  for (unsigned i = 0; i < NVARS; i++)
    g_vars.push_back(var_t((*g_vfac)["v" + std::to_string(i)], crab::INT_TYPE, 32));
}

static const var_t &var_at(const Sx &x) {
  unsigned i = (unsigned)std::strtoul(x.a.c_str(), nullptr, 10);
  return g_vars.at(i);
}

static std::string bstr(bool b) { return b ? "1" : "0"; }

// `vI` for the variable created I-th (identified by its index, as the class does)
static std::string var_name(const var_t &v) {
  for (unsigned i = 0; i < NVARS; i++)
    if (g_vars[i].index() == v.index()) return "v" + std::to_string(i);
  return "v?";
}

static std::string es(const lexp_t &e) {
  std::string r = "(e (" + zs(e.constant()) + ")";
  for (auto it = e.begin(), et = e.end(); it != et; ++it) {
    auto comp = *it; // (coefficient, variable)
    r += " (" + zs(comp.first) + " " + var_name(comp.second) + ")";
  }
  return r + ")";
}

static std::string kind_s(const lcst_t &c) {
  if (c.is_equality()) return "eq";
  if (c.is_disequation()) return "neq";
  if (c.is_inequality()) return "leq";
  return "lt";
}

static std::string cs(const lcst_t &c) { return "(cst " + kind_s(c) + " " + es(c.expression()) + ")"; }

static std::string ss(const lsys_t &s) {
  std::string r = "(sys";
  for (auto it = s.begin(), et = s.end(); it != et; ++it) r += " " + cs(*it);
  return r + ")";
}

static std::map<var_t, var_t> parse_map(const Sx &m) {
  std::map<var_t, var_t> r;
  for (size_t i = 0; i < m.size(); i++) r.insert({var_at(m[i][0]), var_at(m[i][1])}); // first binding wins
  return r;
}

static lexp_t eval_t(const Sx &t) {
  const std::string &h = t[0].a;
  if (h == "n") return lexp_t(z_number(t[1].a));
  if (h == "v") return lexp_t(var_at(t[1]));
  if (h == "t") return lexp_t(z_number(t[1].a), var_at(t[2]));
  if (h == "add") return eval_t(t[1]) + eval_t(t[2]);
  if (h == "sub") return eval_t(t[1]) - eval_t(t[2]);
  if (h == "neg") return -eval_t(t[1]);
  if (h == "mul") return eval_t(t[2]) * z_number(t[1].a);
  if (h == "lmul") return z_number(t[1].a) * eval_t(t[2]);
  if (h == "addn") return eval_t(t[1]) + z_number(t[2].a);
  if (h == "subn") return eval_t(t[1]) - z_number(t[2].a);
  if (h == "addv") return eval_t(t[1]) + var_at(t[2]);
  if (h == "subv") return eval_t(t[1]) - var_at(t[2]);
  if (h == "nadd") return z_number(t[1].a) + eval_t(t[2]);
  if (h == "nsub") return z_number(t[1].a) - eval_t(t[2]);
  if (h == "vadd") return var_at(t[1]) + eval_t(t[2]);
  if (h == "vsub") return var_at(t[1]) - eval_t(t[2]);
  if (h == "ren") return eval_t(t[1]).rename(parse_map(t[2]));
  throw std::runtime_error("bad term " + h);
}

struct not_strict {};

static lcst_t eval_c(const Sx &c) {
  const std::string &h = c[0].a;
  if (h == "mk") {
    const std::string &k = c[1].a;
    lcst_t::kind_t kind = k == "eq" ? lcst_t::EQUALITY : k == "neq" ? lcst_t::DISEQUATION
                        : k == "leq" ? lcst_t::INEQUALITY : lcst_t::STRICT_INEQUALITY;
    return lcst_t(eval_t(c[2]), kind);
  }
  if (h == "rel") {
    const std::string &op = c[1].a;
    lexp_t a = eval_t(c[2]), b = eval_t(c[3]);
    if (op == "le") return a <= b;
    if (op == "lt") return a < b;
    if (op == "ge") return a >= b;
    if (op == "gt") return a > b;
    if (op == "eq") return a == b;
    return a != b;
  }
  if (h == "negate") return eval_c(c[1]).negate();
  if (h == "s2ns") {
    lcst_t x = eval_c(c[1]);
    if (!x.is_strict_inequality()) throw not_strict(); // the real function asserts
    return ikos::linear_constraint_impl::strict_to_non_strict_inequality(x);
  }
  if (h == "renc") return eval_c(c[1]).rename(parse_map(c[2]));
  throw std::runtime_error("bad constraint " + h);
}

static lsys_t eval_s(const Sx &l) {
  lsys_t s;
  for (size_t i = 0; i < l.size(); i++) s += eval_c(l[i]);
  return s;
}

static std::string eval(const Sx &q) {
  init_vars();
  std::string op = q[0].a.substr(4);
  try {
    if (op == "expr") return es(eval_t(q[1]));
    if (op == "coef") return zs(eval_t(q[1])[var_at(q[2])]);
    if (op == "isconst") return bstr(eval_t(q[1]).is_constant());
    if (op == "equal") return bstr(eval_t(q[1]).equal(eval_t(q[2])));
    if (op == "cst") return cs(eval_c(q[1]));
    if (op == "taut") return bstr(eval_c(q[1]).is_tautology());
    if (op == "contra") return bstr(eval_c(q[1]).is_contradiction());
    if (op == "sys") return ss(eval_s(q[1]));
    if (op == "union") return ss(eval_s(q[1]) + eval_s(q[2]));
    if (op == "norm") return ss(eval_s(q[1]).normalize());
    if (op == "isfalse") return bstr(eval_s(q[1]).is_false());
  } catch (const not_strict &) {
    return "notstrict";
  }
  return "unknown";
}

// ---- generators ----
static std::string gen_k(Rng &r, bool allow_zero = true) {
  for (;;) {
    int64_t k;
    unsigned m = r.below(20);
    if (m < 12) k = r.range(-4, 4);
    else if (m < 16) k = r.coin() ? 1 : -1;
    else if (m < 18) k = r.range(-40, 40);
    else if (m == 18) return zs(gen_z(r));
    else k = 0;
    if (k == 0 && !allow_zero) continue;
    return std::to_string((long long)k);
  }
}

static std::string gen_vi(Rng &r) { return std::to_string(r.below(NVARS)); }

static std::string gen_map(Rng &r) {
  std::string s = "(";
  unsigned n = r.below(5);
  for (unsigned i = 0; i < n; i++) {
    if (i) s += " ";
    s += "(" + gen_vi(r) + " " + gen_vi(r) + ")"; // not injective in general; repeated keys possible
  }
  return s + ")";
}

static std::string gen_t(Rng &r, unsigned depth) {
  if (depth == 0 || r.below(5) == 0) {
    switch (r.below(6)) {
    case 0: return "(n " + gen_k(r) + ")";
    case 1: case 2: return "(v " + gen_vi(r) + ")";
    default:
      // zero coefficients included: linear_expression(0, x) / 0 * x must not store a term
      return "(t " + gen_k(r) + " " + gen_vi(r) + ")";
    }
  }
  switch (r.below(18)) {
  case 0: case 1: case 2: case 3: return "(add " + gen_t(r, depth - 1) + " " + gen_t(r, depth - 1) + ")";
  case 4: case 5: case 6: return "(sub " + gen_t(r, depth - 1) + " " + gen_t(r, depth - 1) + ")";
  case 7: return "(neg " + gen_t(r, depth - 1) + ")";
  case 8: return "(mul " + gen_k(r) + " " + gen_t(r, depth - 1) + ")";
  case 9: return "(lmul " + gen_k(r) + " " + gen_t(r, depth - 1) + ")";
  case 10: return "(addn " + gen_t(r, depth - 1) + " " + gen_k(r) + ")";
  case 11: return "(subn " + gen_t(r, depth - 1) + " " + gen_k(r) + ")";
  case 12: return "(addv " + gen_t(r, depth - 1) + " " + gen_vi(r) + ")";
  case 13: return "(subv " + gen_t(r, depth - 1) + " " + gen_vi(r) + ")";
  case 14: return r.coin() ? "(nadd " + gen_k(r) + " " + gen_t(r, depth - 1) + ")"
                           : "(nsub " + gen_k(r) + " " + gen_t(r, depth - 1) + ")";
  case 15: return r.coin() ? "(vadd " + gen_vi(r) + " " + gen_t(r, depth - 1) + ")"
                           : "(vsub " + gen_vi(r) + " " + gen_t(r, depth - 1) + ")";
  default: return "(ren " + gen_t(r, depth - 1) + " " + gen_map(r) + ")";
  }
}

static bool is_strict_text(const std::string &ctext) {
  Sx c;
  if (!sx_parse_request(ctext, c)) return false;
  return eval_c(c).is_strict_inequality();
}

static const std::vector<std::string> KINDS = {"eq", "neq", "leq", "lt", "leq", "lt"};
static const std::vector<std::string> RELS = {"le", "lt", "ge", "gt", "eq", "ne"};

static std::string gen_c(Rng &r, unsigned depth) {
  unsigned k = r.below(12);
  if (depth == 0 || k < 5) {
    // constant constraints in a fair share (tautology / contradiction paths)
    std::string t = r.below(5) == 0 ? "(n " + gen_k(r) + ")" : gen_t(r, 1 + r.below(3));
    // a constant function written with a variable (0*x + k)
    if (r.below(25) == 0) t = "(addn (t 0 " + gen_vi(r) + ") " + gen_k(r) + ")";
    if (r.below(6) == 0) { std::string u = gen_t(r, 2); t = "(sub " + u + " " + u + ")"; }
    if (r.coin()) return "(mk " + r.pick(KINDS) + " " + t + ")";
    return "(rel " + r.pick(RELS) + " " + t + " " + gen_t(r, 1) + ")";
  }
  if (k < 9) return "(negate " + gen_c(r, depth - 1) + ")";
  if (k == 9) return "(renc " + gen_c(r, depth - 1) + " " + gen_map(r) + ")";
  std::string c = gen_c(r, depth - 1);
  if (is_strict_text(c)) return "(s2ns " + c + ")";
  return "(negate " + c + ")";
}

// systems: include pairs e <= 0, -e <= 0 (also written differently), unary pairs, duplicates
static std::string gen_sys(Rng &r) {
  std::vector<std::string> cs;
  unsigned n = r.below(7);
  for (unsigned i = 0; i < n; i++) {
    unsigned m = r.below(10);
    if (m < 4) cs.push_back(gen_c(r, r.below(2)));
    else if (m < 8) {
      std::string t = r.below(3) == 0 ? "(t " + gen_k(r, false) + " " + gen_vi(r) + ")" : gen_t(r, 1 + r.below(2));
      if (r.below(3) == 0) t = "(addn " + t + " " + gen_k(r) + ")";
      cs.push_back("(mk leq " + t + ")");
      std::string opp = r.coin() ? "(mk leq (neg " + t + "))" : "(rel ge " + t + " (n 0))";
      if (r.below(4) != 0) cs.push_back(opp);
      if (r.below(6) == 0) cs.push_back("(mk leq " + t + ")");
      if (r.below(8) == 0) cs.push_back("(mk eq " + t + ")");
    } else if (m == 8) cs.push_back("(mk " + r.pick(KINDS) + " (n " + gen_k(r) + "))");
    else if (!cs.empty()) cs.push_back(r.pick(cs));
  }
  // shuffle
  for (size_t i = cs.size(); i > 1; i--) std::swap(cs[i - 1], cs[r.below(i)]);
  std::string s = "(";
  for (size_t i = 0; i < cs.size(); i++) { if (i) s += " "; s += cs[i]; }
  return s + ")";
}

static std::string gen(Rng &r, const Args &) {
  init_vars();
  unsigned k = r.below(20);
  if (k < 6) return "(lin.expr " + gen_t(r, 1 + r.below(5)) + ")";
  if (k == 6) {
    unsigned m = r.below(3);
    std::string t = gen_t(r, 1 + r.below(4));
    if (m == 0) return "(lin.coef " + t + " " + gen_vi(r) + ")";
    if (m == 1) return "(lin.isconst " + (r.below(3) == 0 ? "(sub " + t + " " + t + ")" : t) + ")";
    std::string u = r.below(3) == 0 ? "(add (n 0) " + t + ")" : gen_t(r, 1 + r.below(3));
    return "(lin.equal " + t + " " + u + ")";
  }
  if (k < 11) return "(lin.cst " + gen_c(r, 1 + r.below(3)) + ")";
  if (k == 11) return "(lin.taut " + gen_c(r, r.below(3)) + ")";
  if (k == 12) return "(lin.contra " + gen_c(r, r.below(3)) + ")";
  if (k == 13) return "(lin.sys " + gen_sys(r) + ")";
  if (k == 14) return r.coin() ? "(lin.union " + gen_sys(r) + " " + gen_sys(r) + ")" : "(lin.isfalse " + gen_sys(r) + ")";
  return "(lin.norm " + gen_sys(r) + ")";
}

int main(int argc, char **argv) { return run_harness(argc, argv, gen, eval); }
