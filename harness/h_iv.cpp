// Harness for component `iv` / `bd`: ikos::interval<z_number>, ikos::bound<z_number>
// (include/crab/domains/interval*.hpp, lib/interval.cpp) of the current tree.
#include "common.hpp"
using namespace vh;

static const std::vector<std::string> BIN = {
    "add", "sub", "mul", "div", "srem", "urem", "udiv", "and", "or", "xor",
    "shl", "ashr", "lshr", "join", "meet", "widen", "narrow", "trim"};
static const std::vector<std::string> BD = {"le", "lt", "ge", "gt", "eq", "min", "max",
                                            "add", "sub", "mul", "div"};

static std::string bstr(bool b) { return b ? "1" : "0"; }

static std::string eval(const Sx &q) {
  const std::string &h = q[0].a;
  if (h.rfind("bd.", 0) == 0) {
    std::string op = h.substr(3);
    z_bound a = parse_bound(q[1]), b = parse_bound(q[2]);
    if (op == "le") return bstr(a <= b);
    if (op == "lt") return bstr(a < b);
    if (op == "ge") return bstr(a >= b);
    if (op == "gt") return bstr(a > b);
    if (op == "eq") return bstr(a == b);
    if (op == "min") return bs(z_bound::min(a, b));
    if (op == "max") return bs(z_bound::max(a, b));
    if (op == "add") return bs(a + b);
    if (op == "sub") return bs(a - b);
    if (op == "mul") return bs(a * b);
    if (op == "div") return bs(a / b);
    return "unknown";
  }
  std::string op = h.substr(3);
  if (op == "mk") return ivs(z_interval(parse_bound(q[1]), parse_bound(q[2])));
  z_interval a = parse_interval(q[1]);
  if (op == "neg") return ivs(-a);
  if (op == "isbot") return bstr(a.is_bottom());
  if (op == "istop") return bstr(a.is_top());
  if (op == "singleton") { auto s = a.singleton(); return s ? zs(*s) : "none"; }
  if (op == "contains") return bstr(a[z_number(q[2].a)]);
  z_interval b = parse_interval(q[2]);
  if (op == "leq") return bstr(a <= b);
  if (op == "eq") return bstr(a == b);
  if (op == "add") return ivs(a + b);
  if (op == "sub") return ivs(a - b);
  if (op == "mul") return ivs(a * b);
  if (op == "div") return ivs(a / b);
  if (op == "srem") return ivs(a.SRem(b));
  if (op == "urem") return ivs(a.URem(b));
  if (op == "udiv") return ivs(a.UDiv(b));
  if (op == "and") return ivs(a.And(b));
  if (op == "or") return ivs(a.Or(b));
  if (op == "xor") return ivs(a.Xor(b));
  if (op == "shl") return ivs(a.Shl(b));
  if (op == "ashr") return ivs(a.AShr(b));
  if (op == "lshr") return ivs(a.LShr(b));
  if (op == "join") return ivs(a | b);
  if (op == "meet") return ivs(a & b);
  if (op == "widen") return ivs(a || b);
  if (op == "narrow") return ivs(a && b);
  if (op == "trim") return ivs(ikos::linear_interval_solver_impl::trim_interval(a, b));
  return "unknown";
}

static std::string gen(Rng &r, const Args &) {
  unsigned k = r.below(20);
  bool small = r.coin(2, 3);
  if (k == 0) return "(bd." + r.pick(BD) + " " + bs(gen_bound(r, small)) + " " + bs(gen_bound(r, small)) + ")";
  if (k == 1) return "(iv.mk " + bs(gen_bound(r, small)) + " " + bs(gen_bound(r, small)) + ")";
  z_interval a = gen_interval(r, small);
  if (k == 2) {
    static const std::vector<std::string> U = {"neg", "isbot", "istop", "singleton"};
    return "(iv." + r.pick(U) + " " + ivs(a) + ")";
  }
  if (k == 3) return "(iv.contains " + ivs(a) + " " + zs(small ? gen_small_z(r) : gen_z(r)) + ")";
  z_interval b = gen_interval(r, small);
  if (k == 4) return "(iv." + std::string(r.coin() ? "leq" : "eq") + " " + ivs(a) + " " + ivs(r.below(4) == 0 ? a : b) + ")";
  std::string op = r.pick(BIN);
  if (op == "shl" || op == "ashr" || op == "lshr") {
    // shift amounts: mostly small singletons, sometimes arbitrary
    if (r.below(5) != 0) b = z_interval(z_number((int64_t)r.range(-1, r.below(8) == 0 ? 130 : 9)));
  }
  return "(iv." + op + " " + ivs(a) + " " + ivs(b) + ")";
}

int main(int argc, char **argv) { return run_harness(argc, argv, gen, eval); }
