// Program-level refinement harness for programs with REFERENCES (mechanism R, properties C01, C02
// and, through the forward+backward verdicts, C11): generates CrabIR programs that mix integer /
// boolean statements with the region and reference statements of crab/cfg/cfg.hpp, builds them as
// real crab CFGs over typed variables, runs the real intra_fwd_analyzer and the combined
// intra_forward_backward_analyzer with region_domain<Base> (Base selected with -DRDOM=<id>, the
// instantiations of h_rgn.cpp) and the real assertion checker, and exports
//   * for every block the invariant at its entry and at its exit (see `dump`),
//   * two verdicts per assert / assert_ref statement (forward-only, forward+backward):
//     safe | warning | error | unreachable.
// The Lean driver (Driver/RProgH.lean) executes the program on concrete heaps
// (CrabModel/IR/RSemantics.lean over CrabModel/Dom/RegionSem.lean) and checks every visited state
// against the invariants (C01) and every assertion event against the verdicts (C02).
//
// variables : integers v0..v(ni-1), boolean b0, references r0..r(nr-1),
//             regions g0 g1 g2 (int cells), h0 h1 (reference cells)
// request : (rprog.run <domain> (params <delay> <desc> <thresholds> <live 0|1>)
//             (rparams <alloc_sites> <dealloc> <tags> <is_deref> <skip_unknown>)
//             (ivars v0 ..) (bvars b0) (rvars r0 ..) (entry B0) (exit Bk) (init (v0 lo hi) ...)
//             (blocks (B0 (stmts <stmt> ...) (succs B1 B2)) ...))
//   <stmt> ::= integer / boolean statement of prog_common.hpp
//            | (rinit G) | (mk R G <size> <site>) | (free G R) | (ld <vX|rX> R G) | (st R G <val>)
//            | (gep R2 G2 R1 G1 <lin>)            R2,G2 := R1,G1 + lin
//            | (rassume <rc>) | (rassert <rc>) | (rcopy Glhs Grhs)
//            | (r2i vX R G) | (i2r R G vX) | (sel R G <a> <a>)       R,G := b0 ? a : a
//   <size> ::= constant | vX ; <val> ::= constant | vX | rX | null ; <a> ::= null | (R G)
//   <rc>   ::= (<eq|ne|le|lt|ge|gt> R null) | (<eq|ne|le|lt|ge|gt> R1 R2 <k>)      R1 ⋈ R2 + k
// result  : (inv (B0 (pre <facts>) (post <facts>)) ...) (chk (<block> <stmt index> <fwd verdict> <fwd+bwd verdict>) ...) | err
//   every program is analysed twice: intra_fwd_analyzer (invariants + forward verdicts) and
//   intra_forward_backward_analyzer (forward+backward verdicts)
//   <facts> ::= <bot> (iv <itv>..) (bv <itv>) (ra <itv>..) (rn <y|n|m|b>..) (as <x|(s k..)>..) (gv <itv> x5) (cs <cst>..)
//     ra: at(r) = interval of the address (NULL = 0); rn: is_null_ref; as: get_allocation_sites
//     gv: at(G) = interval of the content of the cells of region G (address for reference cells)
#include "prog_common.hpp"

#include <crab/analysis/bwd_analyzer.hpp>
#include <crab/analysis/dataflow/liveness.hpp>
#include <crab/analysis/fwd_analyzer.hpp>
#include <crab/checkers/assertion.hpp>
#include <crab/checkers/base_property.hpp>
#include <crab/checkers/checker.hpp>
#include <crab/domains/abstract_domain_params.hpp>
#include <crab/domains/array_adaptive.hpp>
#include <crab/domains/constant_domain.hpp>
#include <crab/domains/flat_boolean_domain.hpp>
#include <crab/domains/intervals.hpp>
#include <crab/domains/region_domain.hpp>
#include <crab/domains/sign_constant_domain.hpp>
#include <crab/domains/split_dbm.hpp>
#include <crab/types/reference_constraints.hpp>
#include <crab/types/tag.hpp>

using namespace crab::domains;
using namespace ikos;

#ifndef RDOM
#define RDOM 1
#endif

// as in tests/crab_dom.hpp (TestRegionParams) and harness/h_rgn.cpp
using var_allocator = crab::var_factory_impl::str_var_alloc_col;
using base_varname_t = typename var_allocator::varname_t;
template <class BaseAbsDom> struct TestRegionParams {
  using number_t = z_number;
  using varname_t = crab::cfg_impl::varname_t;
  using varname_allocator_t = crab::var_factory_impl::str_var_alloc_col;
  using base_abstract_domain_t = BaseAbsDom;
  using base_varname_t = typename BaseAbsDom::varname_t;
};
using z_dbm_graph_t = DBM_impl::DefaultParams<z_number, DBM_impl::GraphRep::adapt_ss>;

#if RDOM == 1
using Base = interval_domain<z_number, base_varname_t>;
#define DOMNAME "rgn-intervals"
#elif RDOM == 2
using Base = split_dbm_domain<z_number, base_varname_t, z_dbm_graph_t>;
#define DOMNAME "rgn-split-dbm"
#elif RDOM == 3
using Base = flat_boolean_numerical_domain<interval_domain<z_number, base_varname_t>>;
#define DOMNAME "rgn-flat-bool-intervals"
#elif RDOM == 4
using Base = array_adaptive_domain<interval_domain<z_number, base_varname_t>>;
#define DOMNAME "rgn-array-adaptive-intervals"
#elif RDOM == 5
using Base = constant_domain<z_number, base_varname_t>;
#define DOMNAME "rgn-constants"
#elif RDOM == 6
using Base = sign_constant_domain<z_number, base_varname_t>;
#define DOMNAME "rgn-sign-constants"
#else
#error "unknown RDOM"
#endif
using Dom = region_domain<TestRegionParams<Base>>;
using z_ref_cst_t = crab::reference_constraint<z_number, crab::cfg_impl::varname_t>;

namespace {

using namespace vp;

const unsigned NG = 5;
const char *GNAME[NG] = {"g0", "g1", "g2", "h0", "h1"};
inline bool g_is_int(unsigned g) { return g < 3; }

struct RBuilt : Built {
  std::vector<z_var> rvars, gvars;
  std::vector<crab::tag> sites;
  crab::tag_manager as_man;
  crab::tag site(unsigned k) {
    while (sites.size() <= k) sites.push_back(as_man.mk_tag());
    return sites[k];
  }
};

z_var_or_cst_t int_cst(const std::string &s) { return z_var_or_cst_t(z_number(s), crab::variable_type(crab::INT_TYPE, 32)); }

z_ref_cst_t ref_cst(const RBuilt &B, const Sx &c) {
  const std::string &k = c[0].a;
  const z_var &p = B.var(c[1].a);
  if (c[2].a == "null") {
    if (k == "eq") return z_ref_cst_t::mk_null(p);
    if (k == "ne") return z_ref_cst_t::mk_not_null(p);
    if (k == "le") return z_ref_cst_t::mk_le_null(p);
    if (k == "lt") return z_ref_cst_t::mk_lt_null(p);
    if (k == "ge") return z_ref_cst_t::mk_ge_null(p);
    if (k == "gt") return z_ref_cst_t::mk_gt_null(p);
    throw std::runtime_error("reference constraint kind " + k);
  }
  const z_var &q = B.var(c[2].a);
  z_number off(c[3].a);
  if (k == "eq") return z_ref_cst_t::mk_eq(p, q, off);
  if (k == "ne") return z_ref_cst_t::mk_not_eq(p, q, off);
  if (k == "le") return z_ref_cst_t::mk_le(p, q, off);
  if (k == "lt") return z_ref_cst_t::mk_lt(p, q, off);
  if (k == "ge") return z_ref_cst_t::mk_ge(p, q, off);
  if (k == "gt") return z_ref_cst_t::mk_gt(p, q, off);
  throw std::runtime_error("reference constraint kind " + k);
}

// returns false when the statement is not a region / reference statement
bool build_ref_stmt(RBuilt &B, z_basic_block_t &bb, const Sx &s, const std::string &label, unsigned idx) {
  using crab::cfg::debug_info;
  const std::string &k = s[0].a;
  auto V = [&](size_t i) -> const z_var & { return B.var(s[i].a); };
  if (k == "rinit") bb.region_init(V(1));
  else if (k == "mk") {
    z_var_or_cst_t sz = s[3].a[0] == 'v' ? z_var_or_cst_t(V(3)) : int_cst(s[3].a);
    bb.make_ref(V(1), V(2), sz, B.site((unsigned)std::stoul(s[4].a)));
  } else if (k == "free") bb.remove_ref(V(1), V(2));
  else if (k == "ld") bb.load_from_ref(V(1), V(2), V(3));
  else if (k == "st") {
    const std::string &v = s[3].a;
    z_var_or_cst_t val = v == "null" ? z_var_or_cst_t::make_reference_null()
                         : (v[0] == 'v' || v[0] == 'r') ? z_var_or_cst_t(V(3)) : int_cst(v);
    bb.store_to_ref(V(1), V(2), val);
  } else if (k == "gep") bb.gep_ref(V(1), V(2), V(3), V(4), B.lin(s[5]));
  else if (k == "rassume") bb.assume_ref(ref_cst(B, s[1]));
  else if (k == "rassert") {
    int64_t id = (int64_t)B.asserts.size();
    debug_info d("rprog", (unsigned)id, idx, id);
    const z_cfg_t::statement_t *st = bb.assert_ref(ref_cst(B, s[1]), d);
    B.asserts.push_back({label, idx, d.get_id(), st});
  } else if (k == "rcopy") bb.region_copy(V(1), V(2));
  else if (k == "r2i") bb.ref_to_int(V(3), V(2), V(1));
  else if (k == "i2r") bb.int_to_ref(V(3), V(2), V(1));
  else if (k == "sel") {
    const z_var &b0 = B.var("b0");
    bool n1 = s[3].is_atom, n2 = s[4].is_atom;
    if (n1 && n2) throw std::runtime_error("select_ref with two null operands");
    if (n1) bb.select_ref_null_true_value(V(1), V(2), b0, B.var(s[4][0].a), B.var(s[4][1].a));
    else if (n2) bb.select_ref_null_false_value(V(1), V(2), b0, B.var(s[3][0].a), B.var(s[3][1].a));
    else bb.select_ref(V(1), V(2), b0, B.var(s[3][0].a), B.var(s[3][1].a), B.var(s[4][0].a), B.var(s[4][1].a));
  } else return false;
  return true;
}

void rbuild(const Prog &p, const std::vector<std::string> &rnames, RBuilt &B) {
  B.vf.reset(new variable_factory_t());
  for (auto &n : p.ivars) { z_var v((*B.vf)[n], crab::INT_TYPE, 32); B.vars.emplace(n, v); B.ivars.push_back(v); }
  for (auto &n : p.bvars) { z_var v((*B.vf)[n], crab::BOOL_TYPE, 1); B.vars.emplace(n, v); B.bvars.push_back(v); }
  for (auto &n : rnames) { z_var v((*B.vf)[n], crab::REF_TYPE, 32); B.vars.emplace(n, v); B.rvars.push_back(v); }
  for (unsigned g = 0; g < NG; g++) {
    z_var v((*B.vf)[GNAME[g]], g_is_int(g) ? crab::REG_INT_TYPE : crab::REG_REF_TYPE, 32);
    B.vars.emplace(GNAME[g], v); B.gvars.push_back(v);
  }
  if (p.exit.empty()) B.cfg.reset(new z_cfg_t(p.entry));
  else B.cfg.reset(new z_cfg_t(p.entry, p.exit));
  for (auto &b : p.blocks) B.cfg->insert(b.label);
  for (auto &b : p.blocks) {
    z_basic_block_t &bb = B.cfg->get_node(b.label);
    for (unsigned i = 0; i < b.stmts.size(); i++)
      if (!build_ref_stmt(B, bb, b.stmts[i], b.label, i)) build_stmt(B, bb, b.stmts[i], b.label, i);
    for (auto &s : b.succs) bb >> B.cfg->get_node(s);
  }
}

std::string dump(Dom d, RBuilt &B) {
  std::ostringstream o;
  o << (d.is_bottom() ? 1 : 0) << " (iv";
  for (auto &v : B.ivars) o << " " << ivs(d.at(v));
  o << ") (bv";
  for (auto &v : B.bvars) o << " " << ivs(d.at(v));
  o << ") (ra";
  for (auto &v : B.rvars) o << " " << ivs(d.at(v));
  o << ") (rn";
  for (auto &v : B.rvars) {
    boolean_value n = d.is_null_ref(v);
    o << " " << (n.is_bottom() ? "b" : n.is_true() ? "y" : n.is_false() ? "n" : "m");
  }
  o << ") (as";
  for (auto &v : B.rvars) {
    std::vector<crab::allocation_site> as;
    if (d.get_allocation_sites(v, as)) {
      std::vector<unsigned> ks;
      for (auto &a : as)
        for (unsigned k = 0; k < B.sites.size(); k++) if (B.sites[k].index() == a.index()) ks.push_back(k);
      std::sort(ks.begin(), ks.end());
      o << " (s";
      for (auto k : ks) o << " " << k;
      o << ")";
    } else o << " x";
  }
  o << ") (gv";
  for (auto &v : B.gvars) o << " " << ivs(d.at(v));
  o << ") (cs";
  auto sys = d.to_linear_constraint_system();
  for (auto it = sys.begin(); it != sys.end(); ++it) {
    bool ints = true;
    for (auto t = it->expression().begin(); t != it->expression().end(); ++t) if (!t->second.get_type().is_integer()) ints = false;
    std::string s = ints ? cst_str(*it) : std::string();
    if (!s.empty()) o << " " << s;
  }
  o << ")";
  return o.str();
}

const char *kind_str(crab::checker::check_kind k) {
  using crab::checker::check_kind;
  switch (k) {
  case check_kind::CRAB_SAFE: return "safe";
  case check_kind::CRAB_ERR: return "error";
  case check_kind::CRAB_WARN: return "warning";
  default: return "unreachable";
  }
}

template <class Analyzer> std::string invariants(Analyzer &a, const Prog &p, RBuilt &B) {
  std::ostringstream o;
  o << "(inv";
  for (auto &b : p.blocks)
    o << " (" << b.label << " (pre " << dump(a.get_pre(b.label), B) << ") (post " << dump(a.get_post(b.label), B) << "))";
  o << ")";
  return o.str();
}

// one verdict text per assertion of B.asserts (canonical order)
template <class Analyzer> std::vector<std::string> verdicts(Analyzer &a, RBuilt &B) {
  using checker_t = crab::checker::intra_checker<Analyzer>;
  using assert_checker_t = crab::checker::assert_property_checker<Analyzer>;
  typename checker_t::prop_checker_ptr prop(new assert_checker_t(0));
  checker_t checker(a, {prop});
  checker.run();
  auto db = checker.get_all_checks();
  std::vector<std::string> out;
  for (auto &ar : B.asserts) {
    std::string v;
    crab::cfg::debug_info di = ar.stmt->get_debug_info();
    if (!db.has_checks(di)) v = "none";
    else {
      auto const &ks = db.get_checks(di);
      for (size_t i = 0; i < ks.size(); i++) v += std::string(i ? "+" : "") + kind_str(ks[i]);
    }
    out.push_back(v);
  }
  return out;
}

std::string eval_prog(const Sx &q) {
  Prog p;
  std::string why;
  if (!parse_prog(q, p, why)) return "unparsable-" + why;
  std::vector<std::string> rnames;
  if (const Sx *s = section(q, "rvars")) for (size_t i = 1; i < s->size(); i++) rnames.push_back((*s)[i].a);
  // region_domain_params of this program (global state of the library: set for every request)
  {
    bool f[5] = {true, false, true, false, true};
    if (const Sx *s = section(q, "rparams"))
      for (size_t i = 1; i < s->size() && i <= 5; i++) f[i - 1] = (*s)[i].a == "1";
    region_domain_params rp(f[0], f[1], f[2], f[3], f[4]);
    crab_domain_params_man::get().update_params(rp);
  }
  RBuilt B;
  rbuild(p, rnames, B);
  z_cfg_ref_t cfg(*B.cfg);
  Dom top;
  Dom init = top.make_top();
  for (auto &i : p.init) {
    const z_var &v = B.var(i.v);
    if (i.lo != "-oo") init += z_lin_cst_t(z_lin_exp_t(v) >= z_lin_exp_t(z_number(i.lo)));
    if (i.hi != "+oo") init += z_lin_cst_t(z_lin_exp_t(v) <= z_lin_exp_t(z_number(i.hi)));
  }
  crab::fixpoint_parameters fp;
  fp.get_widening_delay() = p.delay;
  fp.get_descending_iterations() = p.desc;
  fp.get_max_thresholds() = p.thresholds;
  crab::analyzer::live_and_dead_analysis<z_cfg_ref_t> live(cfg);
  if (p.live) live.exec();
  Dom fac = init.make_top();
  std::string inv;
  std::vector<std::string> vf, vb;
  { // forward analysis + checker
    using an_t = crab::analyzer::intra_fwd_analyzer<z_cfg_ref_t, Dom>;
    an_t a(cfg, fac, p.live ? &live : nullptr, fp);
    typename an_t::assumption_map_t assumptions;
    a.run(p.entry, init, assumptions);
    inv = invariants(a, p, B);
    vf = verdicts(a, B);
  }
  { // combined forward+backward analysis + checker
    using an_t = crab::analyzer::intra_forward_backward_analyzer<z_cfg_ref_t, Dom>;
    an_t a(cfg, fac);
    typename an_t::assumption_map_t assumptions;
    crab::analyzer::fwd_bwd_parameters params;
    params.enable_backward() = true;
    a.run(p.entry, init, assumptions, p.live ? &live : nullptr, fp, params);
    vb = verdicts(a, B);
    // the combined analyzer promises the invariants of the first forward pass
    std::string inv2 = invariants(a, p, B);
    if (inv2 != inv) inv += " (inv2 differs)";
  }
  std::ostringstream o;
  o << inv << " (chk";
  for (size_t i = 0; i < B.asserts.size(); i++)
    o << " (" << B.asserts[i].block << " " << B.asserts[i].idx << " " << vf[i] << " " << vb[i] << ")";
  o << ")";
  return o.str();
}

// CRAB_ERROR (crab::verif_error) is left to run_harness (`err`); anything else thrown by the
// builder or the library is reported as an unparsable answer (the driver flags it as BAD)
std::string eval(const Sx &q) {
  try {
    return eval_prog(q);
  } catch (const crab::verif_error &) {
    throw;
  } catch (const std::exception &e) {
    std::string w = e.what();
    for (auto &c : w) if (c == '(' || c == ')' || c == ' ') c = '_';
    return "(exception " + w + ")";
  }
}

// ---------------------------------------------------------------- generator
// What the generator remembers about a reference variable at the current program point.  A
// statement that is illegal for the concrete semantics (null / foreign / freed reference,
// never-written cell, pointer arithmetic out of the block) ends the execution without a verdict, so
// the generator keeps the programs mostly legal (a small rate of wild choices aside, and loops /
// extra edges are only approximated); legality itself is decided by the driver per execution.
const unsigned NRMAX = 4;
struct RI {
  int rg = -1;       // region the reference is a member of (-1: none known)
  bool nul = true;   // definitely null (every reference is null in the initial state of the driver)
  bool mn = false;   // rg >= 0 but the reference may be null
  bool inb = false;  // points inside its block (may be dereferenced)
  bool wr = false;   // the cell it points to (in rg) has been written
  int cls = -1, site = -1, off = -1, bsz = -1; // address class, allocation site, offset, block size (-1 unknown)
  bool hascv = false; int64_t cv = 0;          // known content of the integer cell it points to
  bool usable() const { return rg >= 0 && !mn && !nul; }
};
struct GI { bool any = false, allc = true; int64_t lo = 0, hi = 0; }; // constants stored into an integer region
struct Trk {
  RI ref[NRMAX];
  GI gi[NG];
  bool has[NG] = {false, false, false, false, false}; // reference regions: something was stored
  RI stored[NG];                                      // ... and what is known about every stored reference
};
RI merge_ref(const RI &a, const RI &b) {
  if (a.nul && b.nul) return a;
  if (a.nul || b.nul) { RI t = a.nul ? b : a; t.nul = false; if (t.rg >= 0) t.mn = true; t.wr = false; t.hascv = false; return t; }
  RI t;
  t.nul = false;
  t.rg = a.rg == b.rg ? a.rg : -1;
  t.mn = a.mn || b.mn;
  t.inb = a.inb && b.inb; t.wr = a.wr && b.wr;
  t.cls = a.cls == b.cls ? a.cls : -1;
  t.site = a.site == b.site ? a.site : -1;
  t.off = a.off == b.off ? a.off : -1;
  t.bsz = a.bsz == b.bsz ? a.bsz : -1;
  t.hascv = a.hascv && b.hascv && a.cv == b.cv; t.cv = a.cv;
  if (t.rg < 0) { t.mn = false; t.inb = false; t.wr = false; t.hascv = false; }
  return t;
}
Trk merge(const Trk &a, const Trk &b) {
  Trk t;
  for (unsigned i = 0; i < NRMAX; i++) t.ref[i] = merge_ref(a.ref[i], b.ref[i]);
  for (unsigned g = 0; g < NG; g++) {
    const GI &x = a.gi[g], &y = b.gi[g];
    t.gi[g].any = x.any || y.any; t.gi[g].allc = x.allc && y.allc;
    t.gi[g].lo = !x.any ? y.lo : !y.any ? x.lo : std::min(x.lo, y.lo);
    t.gi[g].hi = !x.any ? y.hi : !y.any ? x.hi : std::max(x.hi, y.hi);
    t.has[g] = a.has[g] || b.has[g];
    t.stored[g] = !a.has[g] ? b.stored[g] : !b.has[g] ? a.stored[g] : merge_ref(a.stored[g], b.stored[g]);
  }
  return t;
}

struct RGen : ProgGen {
  unsigned nr = 3;
  Trk T;
  unsigned next_site = 0;
  int next_cls = 0;
  unsigned nrasserts = 0, nheap = 0;
  unsigned focus = 1; // number of integer regions the program concentrates on
  RGen(Rng &rr, bool th) : ProgGen(rr, th, false) {}

  std::string rn(unsigned i) { return "r" + std::to_string(i); }
  bool wild() { return r.below(60) == 0; }
  unsigned int_region() { return (unsigned)r.below(r.below(8) == 0 ? 3 : focus); }
  std::vector<unsigned> usable(bool deref, bool written, int kind = -1) { // kind: 0 int region, 1 reference region
    std::vector<unsigned> v;
    for (unsigned i = 0; i < nr; i++) {
      const RI &x = T.ref[i];
      if (!x.usable() || (deref && !x.inb) || (written && !x.wr)) continue;
      if (kind >= 0 && (g_is_int((unsigned)x.rg) ? 0 : 1) != kind) continue;
      v.push_back(i);
    }
    return v;
  }
  // 1: the addresses are equal, 0: different, -1: unknown
  int alias(const RI &a, const RI &b) {
    if (a.cls >= 0 && a.cls == b.cls) return 1;
    if (a.site >= 0 && b.site >= 0 && a.site != b.site) return 0;
    if (a.site >= 0 && a.site == b.site && a.off >= 0 && b.off >= 0) return a.off == b.off ? 1 : 0;
    return -1;
  }

  void do_mk(unsigned b, int want = -1) {
    if (next_site >= 40) return;
    unsigned ri = (unsigned)r.below(nr);
    for (int t = 0; t < 3 && T.ref[ri].usable() && r.below(4); t++) ri = (unsigned)r.below(nr);
    unsigned g = want >= 0 ? (unsigned)want : r.below(6) == 0 ? 3 + (unsigned)r.below(2) : int_region();
    static const int SZ[] = {4, 8, 16, 40, 40, 8};
    int sz = SZ[r.below(6)];
    if (r.below(25) == 0) { // symbolic size, kept inside 1..sz by two assumes
      unsigned v = ivar();
      if (!wild()) { emit(b, "(assume (le (lin 1 (-1 " + vn(v) + "))))"); emit(b, "(assume (le (lin " + std::to_string(-sz) + " (1 " + vn(v) + "))))"); }
      emit(b, "(mk " + rn(ri) + " " + GNAME[g] + " " + vn(v) + " " + std::to_string(next_site) + ")");
      sz = 1; // only the first cell is known to exist
    } else emit(b, "(mk " + rn(ri) + " " + GNAME[g] + " " + std::to_string(sz) + " " + std::to_string(next_site) + ")");
    RI x; x.nul = false; x.rg = (int)g; x.inb = true; x.cls = next_cls++; x.site = (int)next_site++; x.off = 0; x.bsz = sz;
    T.ref[ri] = x;
  }

  void do_gep(unsigned b) {
    auto us = usable(false, false);
    if (us.empty() && !wild()) { do_mk(b); return; }
    unsigned r1 = (us.empty() || wild()) ? (unsigned)r.below(nr) : us[r.below(us.size())];
    unsigned r2 = r.below(3) == 0 ? r1 : (unsigned)r.below(nr);
    RI x1 = T.ref[r1];
    unsigned g1 = x1.rg >= 0 ? (unsigned)x1.rg : int_region();
    unsigned g2 = r.below(6) ? g1 : (g_is_int(g1) ? (unsigned)r.below(3) : 3 + (unsigned)r.below(2));
    std::string off; int noff = -1; bool zero = false, symb = false;
    unsigned sh = (unsigned)r.below(12);
    if (sh < 3) { off = "(lin 0)"; zero = true; noff = x1.off; }
    else if (sh < 10 && x1.off >= 0 && x1.bsz >= 0) {
      std::vector<int> cand;
      for (int dl : {4, 8, -4, -8, 12, 1, -1, 16}) if (x1.off + dl >= 0 && x1.off + dl <= x1.bsz) cand.push_back(dl);
      if (cand.empty()) { off = "(lin 0)"; zero = true; noff = x1.off; }
      else { int dl = cand[r.below(cand.size())]; off = "(lin " + std::to_string(dl) + ")"; noff = x1.off + dl; }
    } else if (sh < 11 && x1.off == 0 && x1.bsz >= 4 && !wild()) { // symbolic offset kept inside the block by two assumes
      unsigned v = ivar(); int st = (x1.bsz >= 16 && r.coin()) ? 4 : 1;
      emit(b, "(assume (le (lin 0 (-1 " + vn(v) + "))))"); emit(b, "(assume (le (lin " + std::to_string(-(x1.bsz / st - 1)) + " (1 " + vn(v) + "))))");
      off = "(lin 0 (" + std::to_string(st) + " " + vn(v) + "))"; symb = true;
    } else if (wild()) off = "(lin " + std::to_string(r.range(-8, 16)) + ")";
    else { off = "(lin 0)"; zero = true; noff = x1.off; }
    emit(b, "(gep " + rn(r2) + " " + GNAME[g2] + " " + rn(r1) + " " + GNAME[g1] + " " + off + ")");
    RI x2 = x1;
    x2.rg = x1.usable() ? (int)g2 : -1;
    x2.off = noff; x2.inb = symb || (noff >= 0 && x1.bsz >= 0 && noff < x1.bsz);
    if (!zero) { x2.cls = next_cls++; x2.wr = false; x2.hascv = false; }
    if (g2 != g1) { x2.wr = false; x2.hascv = false; }
    T.ref[r2] = x2;
  }

  void note_store(unsigned ri, bool hascv, int64_t cv) {
    RI x = T.ref[ri];
    for (unsigned j = 0; j < nr; j++) {
      RI &y = T.ref[j];
      if (j != ri && (y.rg != x.rg || y.rg < 0)) continue;
      int al = j == ri ? 1 : alias(x, y);
      if (al == 1) { y.wr = true; y.hascv = hascv; y.cv = cv; }
      else if (al < 0) y.hascv = false;
    }
  }

  void do_store(unsigned b, int kind = -1) {
    auto us = usable(true, false, kind);
    if (us.empty() && !wild()) { do_mk(b, kind == 1 ? 3 + (int)r.below(2) : -1); return; }
    unsigned ri = (us.empty() || wild()) ? (unsigned)r.below(nr) : us[r.below(us.size())];
    RI &x = T.ref[ri];
    unsigned g = x.rg >= 0 ? (unsigned)x.rg : int_region();
    if (g_is_int(g)) {
      GI &gi = T.gi[g];
      if (r.below(5) < 3) {
        int64_t c = small(); emit(b, "(st " + rn(ri) + " " + GNAME[g] + " " + std::to_string(c) + ")"); note_store(ri, true, c);
        gi.lo = gi.any ? std::min(gi.lo, c) : c; gi.hi = gi.any ? std::max(gi.hi, c) : c; gi.any = true;
      } else { emit(b, "(st " + rn(ri) + " " + GNAME[g] + " " + vn(ivar()) + ")"); note_store(ri, false, 0); gi.allc = false; gi.any = true; }
      nheap++;
    } else {
      auto vs = usable(false, false);
      RI info; // null
      std::string val = "null";
      if (!vs.empty() && r.below(5)) { unsigned rv = vs[r.below(vs.size())]; val = rn(rv); info = T.ref[rv]; }
      else if (r.below(4) == 0) { unsigned rv = (unsigned)r.below(nr); val = rn(rv); info = T.ref[rv]; }
      emit(b, "(st " + rn(ri) + " " + GNAME[g] + " " + val + ")");
      info.wr = false; info.hascv = false;
      T.stored[g] = T.has[g] ? merge_ref(T.stored[g], info) : info;
      T.has[g] = true;
      note_store(ri, false, 0);
    }
  }

  void do_load(unsigned b, int kind = -1) {
    auto us = usable(true, true, kind);
    if (us.empty() && !wild()) { do_store(b, kind); return; }
    unsigned ri = (us.empty() || wild()) ? (unsigned)r.below(nr) : us[r.below(us.size())];
    const RI x = T.ref[ri];
    unsigned g = x.rg >= 0 ? (unsigned)x.rg : int_region();
    if (g_is_int(g)) {
      unsigned v = ivar_free();
      emit(b, "(ld " + vn(v) + " " + rn(ri) + " " + GNAME[g] + ")");
      kill(v);
      nheap++;
      const GI &gi = T.gi[g];
      if (x.hascv) { GCst f; f.kind = 2; f.e.c = -x.cv; f.e.ts.push_back({1, v}); facts.push_back(f); if (r.coin()) emit_assert(b); }
      else if (gi.any && gi.allc) { // every cell of the region holds one of the stored constants
        GCst f; f.kind = 0; f.e.c = -gi.hi; f.e.ts.push_back({1, v}); facts.push_back(f);
        GCst h; h.kind = 0; h.e.c = gi.lo; h.e.ts.push_back({-1, v}); facts.push_back(h);
        if (r.coin()) emit_assert(b);
      }
    } else {
      unsigned rd = (unsigned)r.below(nr);
      emit(b, "(ld " + rn(rd) + " " + rn(ri) + " " + GNAME[g] + ")");
      RI y = T.has[g] ? T.stored[g] : RI();
      y.wr = false; y.hascv = false;
      T.ref[rd] = y;
    }
  }

  // ---- reference constraints:  r1 ⋈ null   |   r1 ⋈ r2 + k
  struct RC { int kind = 0; unsigned a = 0; int b = -1; int64_t k = 0; }; // kind: 0 eq 1 ne 2 le 3 lt 4 ge 5 gt ; b = -1: null
  std::string rc_str(const RC &c) {
    static const char *K[] = {"eq", "ne", "le", "lt", "ge", "gt"};
    if (c.b < 0) return std::string("(") + K[c.kind] + " " + rn(c.a) + " null)";
    return std::string("(") + K[c.kind] + " " + rn(c.a) + " " + rn((unsigned)c.b) + " " + std::to_string(c.k) + ")";
  }
  RC rc_neg(RC c) { static const int N[] = {1, 0, 5, 4, 3, 2}; c.kind = N[c.kind]; return c; }
  // what the generator knows about address(a) - address(b): (known, value); addresses of blocks are >= 1000
  std::pair<bool, int64_t> rc_diff(const RC &c) {
    const RI &x = T.ref[c.a];
    if (c.b < 0) { if (x.nul) return {true, 0}; if (x.usable()) return {true, 1000}; return {false, 0}; }
    const RI &y = T.ref[c.b];
    if (x.nul && y.nul) return {true, 0};
    if (x.nul && y.usable()) return {true, -1000};
    if (x.usable() && y.nul) return {true, 1000};
    if (!x.usable() || !y.usable()) return {false, 0};
    if (x.cls >= 0 && x.cls == y.cls) return {true, 0};
    if (x.site >= 0 && x.site == y.site && x.off >= 0 && y.off >= 0) return {true, (int64_t)x.off - y.off};
    return {false, 0};
  }
  int rc_truth(const RC &c) { // 1 true, 0 false, -1 unknown
    auto d = rc_diff(c);
    if (!d.first) {
      if (c.b < 0 && c.kind == 4) return 1; // r >= null
      if (c.b < 0 && c.kind == 3) return 0; // r < null
      if (c.b >= 0) { const RI &x = T.ref[c.a], &y = T.ref[c.b];
        if (x.usable() && y.usable() && x.site >= 0 && y.site >= 0 && x.site != y.site) { if (c.kind == 0) return 0; if (c.kind == 1) return 1; } }
      return -1;
    }
    int64_t v = d.second, k = c.k;
    switch (c.kind) { case 0: return v == k; case 1: return v != k; case 2: return v <= k; case 3: return v < k; case 4: return v >= k; default: return v > k; }
  }
  RC rc_random() {
    RC c;
    unsigned sh = (unsigned)r.below(10);
    c.a = (unsigned)r.below(nr);
    if (sh < 4 || nr < 2) { c.kind = r.below(6) ? (int)r.below(2) : (int)r.below(6); return c; }
    c.b = (int)((c.a + 1 + r.below(nr - 1)) % nr);
    { // two references that may be null (select_ref / loads from reference regions): compare them
      std::vector<unsigned> mns;
      for (unsigned i = 0; i < nr; i++) if (T.ref[i].mn) mns.push_back(i);
      if (mns.size() >= 2 && r.below(3) == 0) {
        unsigned i = (unsigned)r.below(mns.size()), j = (i + 1 + (unsigned)r.below(mns.size() - 1)) % mns.size();
        c.a = mns[i]; c.b = (int)mns[j]; c.kind = (int)r.below(2); c.k = 0; return c;
      }
    }
    if (sh < 7) { c.kind = (int)r.below(2); c.k = r.below(5) ? 0 : r.range(-2, 2) * 4; return c; }
    c.kind = 2 + (int)r.below(4);
    auto d = rc_diff(c);
    bool near = d.first && d.second > -1000 && d.second < 1000;
    c.k = (near ? d.second : 0) + (r.below(3) ? r.range(-1, 1) * 4 : r.range(-8, 8));
    if (r.below(4) == 0) { c.kind = 0; c.k = near ? d.second : 4; }
    return c;
  }
  // a constraint whose truth is `want` (1 / 0) as far as the generator knows (a few tries, else anything)
  RC rc_pick(int want) {
    RC c = rc_random();
    for (int t = 0; t < 12; t++) {
      int tv = rc_truth(c);
      if (tv == want) return c;
      if (tv == 1 - want) return rc_neg(c);
      c = rc_random();
    }
    if (want == 1 && !wild()) { // nothing known: r >= null holds for every reference
      c = RC(); c.a = (unsigned)r.below(nr); c.kind = 4;
    }
    return c;
  }
  void rc_learn(const RC &c) { // the constraint holds from here on
    RI &x = T.ref[c.a];
    if (c.b < 0) {
      if (c.kind == 0 || c.kind == 2) x = RI();
      else if ((c.kind == 1 || c.kind == 5) && x.rg >= 0) x.mn = false;
    } else if (c.kind == 0 && c.k == 0) {
      RI &y = T.ref[c.b];
      if (x.nul && !y.nul) y = RI();
      else if (y.nul && !x.nul) x = RI();
      else if (x.usable() && y.rg == x.rg && y.mn) y.mn = false;
      else if (y.usable() && x.rg == y.rg && x.mn) x.mn = false;
    }
  }
  void do_rassume(unsigned b) { RC c = rc_pick(r.below(12) ? 1 : 0); emit(b, "(rassume " + rc_str(c) + ")"); rc_learn(c); }
  void do_rassert(unsigned b) { RC c = r.below(14) == 0 ? rc_random() : rc_pick(r.below(9) ? 1 : 0); emit(b, "(rassert " + rc_str(c) + ")"); rc_learn(c); nasserts++; nrasserts++; }

  void do_rcopy(unsigned b) {
    // lhs != rhs: region_copy(g, g) raises CRAB_ERROR with region.deallocation
    unsigned l, rr;
    if (r.below(4) == 0) { l = 3 + (unsigned)r.below(2); rr = 7 - l; } else { l = (unsigned)r.below(3); rr = (l + 1 + (unsigned)r.below(2)) % 3; }
    emit(b, std::string("(rcopy ") + GNAME[l] + " " + GNAME[rr] + ")");
    for (unsigned j = 0; j < nr; j++) if (T.ref[j].rg == (int)l) { T.ref[j].rg = -1; T.ref[j].wr = false; T.ref[j].hascv = false; }
    // the references of rhs are valid for lhs as well: move one of them sometimes
    for (unsigned j = 0; j < nr; j++) if (T.ref[j].rg == (int)rr && r.below(3) == 0) T.ref[j].rg = (int)l;
    T.has[l] = T.has[rr]; T.stored[l] = T.stored[rr]; T.gi[l] = T.gi[rr];
  }
  void do_free(unsigned b) {
    auto us = usable(false, false);
    if (us.empty()) return;
    unsigned ri = us[r.below(us.size())];
    emit(b, std::string("(free ") + GNAME[T.ref[ri].rg] + " " + rn(ri) + ")");
    int st = T.ref[ri].site;
    for (unsigned j = 0; j < nr; j++) if (j == ri || st < 0 || T.ref[j].site == st || T.ref[j].site < 0) { T.ref[j].inb = false; T.ref[j].wr = false; T.ref[j].hascv = false; }
    for (unsigned g = 3; g < NG; g++) if (st < 0 || T.stored[g].site == st || T.stored[g].site < 0) T.stored[g].inb = false;
  }
  void do_cast(unsigned b) { // x := ref_to_int(r) [; x := x + d] ; r' := int_to_ref(x)
    auto us = usable(false, false);
    unsigned ri = (us.empty() || wild()) ? (unsigned)r.below(nr) : us[r.below(us.size())];
    const RI x = T.ref[ri];
    unsigned g = x.rg >= 0 ? (unsigned)x.rg : int_region();
    unsigned v = ivar_free();
    emit(b, "(r2i " + vn(v) + " " + rn(ri) + " " + GNAME[g] + ")");
    kill(v);
    { GCst f; f.kind = x.nul ? 2 : 3; f.e.ts.push_back({1, v}); if (x.nul || x.usable()) facts.push_back(f); } // v = 0 / v != 0
    if (r.below(3) == 0) { emit_assert(b); }
    if (r.below(4) == 0) return;
    int dl = 0;
    if (x.off >= 0 && x.bsz >= 0 && r.coin()) { for (int d : {4, -4, 8}) if (x.off + d >= 0 && x.off + d <= x.bsz && r.coin()) { dl = d; break; } }
    if (dl != 0) { emit(b, "(add " + vn(v) + " " + vn(v) + " " + std::to_string(dl) + ")"); kill(v); }
    unsigned rd = (unsigned)r.below(nr);
    emit(b, "(i2r " + rn(rd) + " " + GNAME[g] + " " + vn(v) + ")");
    RI y = x;
    if (dl != 0) { y.cls = next_cls++; y.off = x.off + dl; y.inb = y.off < y.bsz; y.wr = false; y.hascv = false; }
    T.ref[rd] = y;
  }
  void do_sel(unsigned b) {
    if (r.below(3)) emit(b, r.coin() ? "(bassign b0 " + cond().str() + ")" : std::string("(havoc b0)"));
    auto us = usable(false, false);
    unsigned rl = (unsigned)r.below(nr);
    auto opnd = [&](bool allow_null, RI &info) -> std::string {
      if ((allow_null && r.below(3) == 0) || us.empty()) { info = RI(); return "null"; }
      unsigned ri = us[r.below(us.size())];
      info = T.ref[ri];
      return "(" + rn(ri) + " " + GNAME[info.rg] + ")";
    };
    RI i1, i2;
    std::string a1 = opnd(true, i1);
    std::string a2 = opnd(a1 != "null", i2);
    if (a1 == "null" && a2 == "null") return;
    unsigned gl = (unsigned)((i1.rg >= 0 && (i2.rg < 0 || r.coin())) ? i1.rg : i2.rg);
    if (r.below(6) == 0) gl = g_is_int(gl) ? (unsigned)r.below(3) : 3 + (unsigned)r.below(2);
    emit(b, "(sel " + rn(rl) + " " + GNAME[gl] + " " + a1 + " " + a2 + ")");
    RI y = merge_ref(i1, i2);
    if (!y.nul) { bool same = i1.rg == i2.rg || i1.nul || i2.nul; y.rg = (int)gl; if (!same || (int)gl != (i1.nul ? i2.rg : i1.rg)) { y.wr = false; y.hascv = false; } y.mn = i1.nul || i2.nul || i1.mn || i2.mn; }
    T.ref[rl] = y;
  }

  // a region of references with two cells: one holds a reference, the other NULL (or another
  // reference); then one of the cells is loaded
  int do_refcells(unsigned b, unsigned h, int keep) {
    unsigned need = keep >= 0 ? 4 : 3;
    if (nr < need || next_site + 3 >= 40) { do_store(b, 1); return -1; }
    std::vector<unsigned> pool;
    for (unsigned i = 0; i < nr; i++) if ((int)i != keep) pool.push_back(i);
    for (unsigned i = pool.size(); i > 1; i--) std::swap(pool[i - 1], pool[r.below(i)]);
    unsigned ra = pool[0], rb = pool[1], rt = pool[2];
    auto mkat = [&](unsigned ri, unsigned g, int sz) {
      emit(b, "(mk " + rn(ri) + " " + GNAME[g] + " " + std::to_string(sz) + " " + std::to_string(next_site) + ")");
      RI x; x.nul = false; x.rg = (int)g; x.inb = true; x.cls = next_cls++; x.site = (int)next_site++; x.off = 0; x.bsz = sz;
      T.ref[ri] = x;
    };
    mkat(ra, h, 8);
    if (r.below(3)) mkat(rb, h, 8);
    else { emit(b, "(gep " + rn(rb) + " " + GNAME[h] + " " + rn(ra) + " " + GNAME[h] + " (lin 4))"); RI x = T.ref[ra]; x.cls = next_cls++; x.off = 4; T.ref[rb] = x; }
    if (!T.ref[rt].usable() || r.coin()) mkat(rt, int_region(), 8);
    auto store = [&](unsigned ri, bool null) {
      RI info; if (!null) info = T.ref[rt];
      emit(b, "(st " + rn(ri) + " " + GNAME[h] + " " + (null ? std::string("null") : rn(rt)) + ")");
      info.wr = false; info.hascv = false;
      T.stored[h] = T.has[h] ? merge_ref(T.stored[h], info) : info; T.has[h] = true;
      note_store(ri, false, 0); nheap++;
    };
    bool first_null = r.below(4) == 0;
    store(ra, first_null);
    store(rb, !first_null && r.below(5) != 0);
    unsigned rd = rt;
    unsigned src = r.coin() ? ra : rb;
    emit(b, "(ld " + rn(rd) + " " + rn(src) + " " + GNAME[h] + ")");
    RI y = T.stored[h]; y.wr = false; y.hascv = false;
    T.ref[rd] = y; nheap++;
    return (int)rd;
  }
  // the scenario on one region, or on both followed by a comparison of the two loaded references
  void do_refcells(unsigned b) {
    unsigned h = 3 + (unsigned)r.below(2);
    int p = do_refcells(b, h, -1);
    if (p < 0 || nr < 4 || r.coin()) return;
    int q = do_refcells(b, 7 - h, p);
    if (q < 0) return;
    RC c; c.a = (unsigned)p; c.b = q; c.kind = (int)r.below(2); c.k = 0;
    if (r.coin()) { emit(b, "(rassert " + rc_str(c) + ")"); nasserts++; nrasserts++; }
    else { emit(b, "(rassume " + rc_str(c) + ")"); if (r.coin()) emit_assert(b); }
    rc_learn(c);
  }

  void rstmt(unsigned b) {
    unsigned k = (unsigned)r.below(100);
    if (k < 28) emit_stmt(b);            // integer statement of the base generator
    else if (k < 35) do_mk(b);
    else if (k < 45) do_gep(b);
    else if (k < 59) do_store(b, r.below(5) == 0 ? 1 : -1);
    else if (k < 73) do_load(b, r.below(5) == 0 ? 1 : -1);
    else if (k < 83) do_rassert(b);
    else if (k < 87) do_rassume(b);
    else if (k < 89) do_rcopy(b);
    else if (k < 90) do_free(b);
    else if (k < 93) do_cast(b);
    else if (k < 96) do_sel(b);
    else if (k < 98) do_refcells(b);
    else if (k < 99) emit(b, r.coin() ? "(bassign b0 " + cond().str() + ")" : std::string("(havoc b0)"));
    else if (wild()) emit(b, std::string("(rinit ") + GNAME[r.below(NG)] + ")");
  }
  void rstraight(unsigned b, unsigned lo, unsigned hi) {
    unsigned n = (unsigned)r.range(lo, hi);
    for (unsigned i = 0; i < n; i++) rstmt(b);
  }

  // guards of a two-way branch: a linear condition, a reference condition, the boolean, or nothing.
  // Returns the trackers for the two sides in (Tt, Te).
  void rguards(unsigned cur, unsigned t, unsigned e, Trk &Tt, Trk &Te) {
    Tt = T; Te = T;
    unsigned k = (unsigned)r.below(10);
    if (k < 4) {
      GCst c = cond();
      bs[t].st.push_back("(assume " + c.str() + ")");
      bs[e].st.push_back("(assume " + c.negate().str() + ")");
    } else if (k < 8) {
      RC c = rc_random();
      if (r.coin()) { c = RC(); c.a = (unsigned)r.below(nr); c.kind = (int)r.below(2); } // r == null / r != null
      bs[t].st.push_back("(rassume " + rc_str(c) + ")");
      bs[e].st.push_back("(rassume " + rc_str(rc_neg(c)) + ")");
      Trk sv = T;
      rc_learn(c); Tt = T; T = sv;
      rc_learn(rc_neg(c)); Te = T; T = sv;
    } else if (k < 9) {
      if (r.coin()) emit(cur, "(bassign b0 " + cond().str() + ")");
      bs[t].st.push_back("(bassume b0)");
      bs[e].st.push_back("(bnassume b0)");
    }
  }

  // generates code starting in block `cur` with tracker T; returns the block where control continues
  unsigned rseq(unsigned cur, unsigned depth) {
    unsigned parts = 1 + (unsigned)r.below(3);
    for (unsigned p = 0; p < parts; p++) {
      unsigned k = (unsigned)r.below(100);
      if (depth >= 3) k = 0;
      if (k < 30) {
        rstraight(cur, 2, 6);
      } else if (k < 50 && room(3)) { // diamond
        unsigned t = new_block(), e = new_block(), j = new_block();
        rstraight(cur, 0, 2);
        edge(cur, t); edge(cur, e);
        Trk Tt, Te;
        rguards(cur, t, e, Tt, Te);
        facts.clear(); T = Tt; unsigned te = rseq(t, depth + 1); Tt = T;
        facts.clear(); T = Te; unsigned ee = rseq(e, depth + 1); Te = T;
        facts.clear(); T = merge(Tt, Te);
        edge(te, j); edge(ee, j);
        cur = j;
      } else if (k < 58 && room(2)) { // if without else
        unsigned t = new_block(), j = new_block();
        rstraight(cur, 0, 2);
        edge(cur, t); edge(cur, j);
        Trk Tt, Te;
        rguards(cur, t, j, Tt, Te);
        facts.clear(); T = Tt; unsigned te = rseq(t, depth + 1);
        edge(te, j);
        facts.clear(); T = merge(T, Te);
        cur = j;
      } else if (k < 80 && room(3)) { // counting loop
        unsigned i = ivar();
        for (int tries = 0; tries < 4 && reserved.count(i); tries++) i = ivar();
        bool fresh = !reserved.count(i);
        int64_t lo = r.range(0, 2), n = lo + r.range(1, 6), step = r.below(5) ? 1 : r.range(1, 2);
        bool down = r.below(6) == 0;
        bool assigned = false;
        if (fresh && r.below(10)) { emit(cur, "(assign " + vn(i) + " (lin " + std::to_string(down ? n : lo) + "))"); kill(i); assigned = true; }
        unsigned h = new_block(), b = new_block(), x = new_block();
        edge(cur, h); edge(h, b); edge(h, x);
        facts.clear();
        GCst g;
        if (down) { g.kind = 1; g.e.c = lo; g.e.ts.push_back({-1, i}); }          // lo - i < 0
        else if (r.coin()) { g.kind = 1; g.e.c = -n; g.e.ts.push_back({1, i}); } // i - n < 0
        else { g.kind = 0; g.e.c = -(n - 1); g.e.ts.push_back({1, i}); }          // i <= n-1
        bs[b].st.push_back("(assume " + g.str() + ")");
        bs[x].st.push_back("(assume " + g.negate().str() + ")");
        bool ins = fresh;
        if (ins) reserved.insert(i);
        Trk Tin = T;
        facts.clear(); facts.push_back(g);
        // array walk: rW := base + stride*i inside the block of base (0 <= i < n in the body)
        auto bases = usable(true, false, 0);
        if (fresh && assigned && !down && !bases.empty() && r.below(3)) {
          unsigned rb = bases[r.below(bases.size())];
          const RI xb = T.ref[rb];
          int stride = (xb.bsz >= 4 * (n + 1) && r.below(4)) ? 4 : 1;
          if (xb.off == 0 && xb.bsz >= stride * (n + 1)) {
            unsigned rw = (rb + 1 + (unsigned)r.below(nr > 1 ? nr - 1 : 1)) % nr;
            if (rw != rb) {
              emit(b, "(gep " + rn(rw) + " " + GNAME[xb.rg] + " " + rn(rb) + " " + GNAME[xb.rg] + " (lin 0 (" + std::to_string(stride) + " " + vn(i) + ")))");
              RI w = xb; w.cls = next_cls++; w.off = -1; w.inb = true; w.wr = false; w.hascv = false;
              T.ref[rw] = w;
              if (r.below(4)) { emit(b, "(st " + rn(rw) + " " + GNAME[xb.rg] + " " + (r.coin() ? vn(i) : std::to_string(small())) + ")"); note_store(rw, false, 0); }
            }
          }
        }
        unsigned be = rseq(b, depth + 1);
        if (r.below(14)) emit(be, std::string(down ? "(sub " : "(add ") + vn(i) + " " + vn(i) + " " + std::to_string(step) + ")");
        if (ins) reserved.erase(i);
        edge(be, h);
        T = merge(Tin, T);
        facts.clear(); facts.push_back(g.negate());
        if (r.below(3) == 0) { if (r.coin()) emit_assert(x); else do_rassert(x); }
        cur = x;
      } else if (k < 84 && room(2)) { // self loop (allocation / pointer increment in a loop)
        unsigned s = new_block(), nx = new_block();
        edge(cur, s); edge(s, s); edge(s, nx);
        facts.clear();
        Trk Tin = T;
        unsigned x = ivar_free();
        if (r.below(4)) { GCst g; g.kind = 0; g.e.c = -r.range(0, 6); g.e.ts.push_back({1, x}); emit_assume(s, g); }
        rstraight(s, 1, 3);
        if (r.below(4)) { emit(s, "(add " + vn(x) + " " + vn(x) + " " + std::to_string(r.range(1, 2)) + ")"); kill(x); }
        facts.clear();
        T = merge(Tin, T);
        cur = nx;
      } else if (k < 92 && room(2)) { // dead-end branch (a block that cannot reach the exit)
        unsigned d = new_block(), nx = new_block();
        rstraight(cur, 0, 2);
        edge(cur, d); edge(cur, nx);
        Trk Td, Tn;
        rguards(cur, d, nx, Td, Tn);
        facts.clear(); T = Td;
        rstraight(d, 0, 2);
        if (r.below(3)) { if (r.coin()) emit_assert(d); else do_rassert(d); }
        if (r.below(5) == 0) emit(d, "(unreachable)");
        if (r.below(6) == 0) edge(d, d);
        facts.clear(); T = Tn;
        cur = nx;
      } else if (room(1)) { // plain goto to a fresh block
        unsigned nx = new_block();
        edge(cur, nx);
        cur = nx;
      } else rstraight(cur, 1, 3);
    }
    return cur;
  }

  std::string rgen(const char *domname) {
    ni = 2 + (unsigned)r.below(3);
    nb = 0; // the boolean statements of the base generator are not used (b0 is driven here)
    nr = 2 + (unsigned)r.below(3);
    focus = 1 + (unsigned)r.below(3);
    if (r.coin()) focus = 1;
    max_blocks = thorough ? 3 + (unsigned)r.below(10) : 2 + (unsigned)r.below(7);
    if (r.below(20) == 0) max_blocks = 1;
    bs.clear(); facts.clear(); reserved.clear(); nasserts = 0; nrasserts = 0; nheap = 0;
    T = Trk(); next_site = 0; next_cls = 0;
    unsigned entry = new_block();
    for (unsigned g = 0; g < NG; g++) if (r.below(8) != 0) emit(entry, std::string("(rinit ") + GNAME[g] + ")");
    for (unsigned v = 0; v < ni; v++)
      if (r.below(3) == 0) {
        int64_t c = r.range(0, 9);
        emit(entry, "(assign " + vn(v) + " (lin " + std::to_string(c) + "))");
        GCst f; f.kind = 2; f.e.c = -c; f.e.ts.push_back({1, v}); facts.push_back(f);
      }
    unsigned nmk = (unsigned)r.below(4);
    for (unsigned j = 0; j < nmk; j++) do_mk(entry);
    unsigned cur = rseq(entry, 0);
    if (room(1) && r.coin()) cur = rseq(cur, 0);
    if (nheap == 0 && r.below(4)) { do_store(cur, 0); do_load(cur, 0); }
    if (nrasserts == 0 || r.below(3) == 0) do_rassert(cur);
    if (r.below(4) == 0) emit_assert(cur);
    unsigned exitb = cur;
    // extra edges (may create irreducible loops, jumps into loop bodies); never to the entry block
    // (a second region_init of a region with references raises CRAB_ERROR)
    if (bs.size() >= 3 && r.below(8) == 0) {
      unsigned a = (unsigned)r.below(bs.size()), b = (unsigned)r.below(bs.size());
      if (a != exitb && b != entry) edge(a, b);
    }
    std::ostringstream o;
    o << "(rprog.run " << domname << " (params "
      << (r.below(4) ? r.range(1, 2) : r.range(0, 4)) << " " << (r.below(4) ? r.range(0, 2) : r.range(0, 4)) << " "
      << (r.below(3) ? 0 : (r.coin() ? 5 : 20)) << " " << (r.below(3) == 0 ? 1 : 0) << ")";
    unsigned pm = r.below(4) == 0 ? 0x15 : (unsigned)r.below(32);
    o << " (rparams " << (pm & 1) << " " << ((pm >> 1) & 1) << " " << ((pm >> 2) & 1) << " " << ((pm >> 3) & 1) << " " << ((pm >> 4) & 1) << ")";
    o << " (ivars"; for (unsigned v = 0; v < ni; v++) o << " " << vn(v); o << ")";
    o << " (bvars b0) (rvars"; for (unsigned v = 0; v < nr; v++) o << " " << rn(v); o << ")";
    o << " (entry B" << entry << ") (exit B" << exitb << ") (init";
    for (unsigned v = 0; v < ni; v++) {
      unsigned k = (unsigned)r.below(20);
      int64_t lo = r.range(-4, 6);
      int64_t hi = lo + (r.below(3) ? r.range(0, 6) : r.range(0, 40));
      if (k < 12) o << " (" << vn(v) << " " << lo << " " << hi << ")";
      else if (k < 14) o << " (" << vn(v) << " " << lo << " +oo)";
      else if (k < 16) o << " (" << vn(v) << " -oo " << hi << ")";
    }
    o << ") (blocks";
    for (unsigned b = 0; b < bs.size(); b++) {
      o << " (B" << b << " (stmts";
      for (auto &s : bs[b].st) o << " " << s;
      o << ") (succs";
      for (unsigned s : bs[b].succ) o << " B" << s;
      o << "))";
    }
    o << "))";
    return o.str();
  }
};

std::string gen(Rng &r, const Args &a) {
  RGen g(r, a.tier == "thorough");
  return g.rgen(DOMNAME);
}

} // namespace

int main(int argc, char **argv) {
  crab::CrabEnableWarningMsg(false);
  // triage aid: VERIF_CRAB_LOG=tag1,tag2 switches crab's own logging on
  if (const char *lg = std::getenv("VERIF_CRAB_LOG")) {
    std::string s = lg, cur;
    for (char c : s + ",") { if (c == ',') { if (!cur.empty()) crab::CrabEnableLog(cur); cur.clear(); } else cur += c; }
  }
  return run_harness(argc, argv, gen, eval);
}
