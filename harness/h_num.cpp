// Harness for components `num` (ikos::z_number, ikos::q_number: include/crab/numbers/bignums.hpp,
// lib/bignums.cpp) and `safe` (crab::safe_i64: include/crab/numbers/safeint.hpp, lib/safeint.cpp)
// of the current tree.
//
//   (num.<op> z ...)            => decimal | 0/1 | err
//   (num.q_<op> (q n d) ...)    => (q n d) | decimal | lt/eq/gt | err      raw numerator/denominator;
//                                  every operand is built with q_number(z_number n, z_number d)
//                                  (any sign of d, common factors, d = 0: expect err)
//   (safe.<op> a b)             => decimal | 0/1 | err
//
// Never generated, and answered `trap` without running the code when replayed: safe_i64 division
// by 0 (SIGFPE, not a CRAB_ERROR).  Never generated: fill_ones of a negative number (assert),
// left shifts by an amount whose low 64 bits are large (memory).
#include "common.hpp"
#include <crab/numbers/safeint.hpp>
#include <cinttypes>
#include <climits>
using namespace vh;
using ikos::q_number;
using crab::safe_i64;

static std::string bstr(bool b) { return b ? "1" : "0"; }

static std::string qs(const q_number &q) { return "(q " + zs(q.numerator()) + " " + zs(q.denominator()) + ")"; }
static q_number parse_q(const Sx &x) { return q_number(z_number(x[1].a), z_number(x[2].a)); }
static int64_t parse_i64(const Sx &x) { return (int64_t)std::strtoll(x.a.c_str(), nullptr, 10); }
static uint64_t parse_u64(const Sx &x) { return (uint64_t)std::strtoull(x.a.c_str(), nullptr, 10); }
static std::string i64s(int64_t v) { return std::to_string((long long)v); }

static std::string eval_q(const std::string &op, const Sx &q) {
  if (op == "q_ofz") return qs(q_number(z_number(q[1].a)));
  q_number a = parse_q(q[1]);
  if (op == "q_mk") return qs(a);
  if (op == "q_neg") return qs(-a);
  if (op == "q_incr") { q_number r(a); ++r; return qs(r); }
  if (op == "q_decr") { q_number r(a); --r; return qs(r); }
  if (op == "q_rlo") return zs(a.round_to_lower());
  if (op == "q_rup") return zs(a.round_to_upper());
  if (op == "q_str") return a.get_str();
  q_number b = parse_q(q[2]);
  if (op == "q_add") return qs(a + b);
  if (op == "q_sub") return qs(a - b);
  if (op == "q_mul") return qs(a * b);
  if (op == "q_div") return qs(a / b);
  if (op == "q_adda") { q_number r(a); r += b; return qs(r); }
  if (op == "q_suba") { q_number r(a); r -= b; return qs(r); }
  if (op == "q_mula") { q_number r(a); r *= b; return qs(r); }
  if (op == "q_diva") { q_number r(a); r /= b; return qs(r); }
  if (op == "q_shl") return qs(a << b);
  if (op == "q_cmp") {
    bool lt = a < b, eq = a == b, gt = a > b, le = a <= b, ge = a >= b, ne = a != b;
    // the six operators must tell one story
    if (lt && !eq && !gt && le && !ge && ne) return "lt";
    if (!lt && eq && !gt && le && ge && !ne) return "eq";
    if (!lt && !eq && gt && !le && ge && ne) return "gt";
    return "incoherent";
  }
  return "unknown";
}

static std::string eval_safe(const std::string &op, const Sx &q) {
  if (op == "of_z") { safe_i64 s{z_number(q[1].a)}; return i64s((int64_t)s); }
  safe_i64 a(parse_i64(q[1]));
  if (op == "neg") return i64s((int64_t)(-a));
  safe_i64 b(parse_i64(q[2]));
  if (op == "add") return i64s((int64_t)(a + b));
  if (op == "sub") return i64s((int64_t)(a - b));
  if (op == "mul") return i64s((int64_t)(a * b));
  if (op == "div") {
    if ((int64_t)b == 0) return "trap"; // not executed: hardware trap, see header
    return i64s((int64_t)(a / b));
  }
  if (op == "adda") { safe_i64 r(a); r += b; return i64s((int64_t)r); }
  if (op == "suba") { safe_i64 r(a); r -= b; return i64s((int64_t)r); }
  if (op == "lt") return bstr(a < b);
  if (op == "le") return bstr(a <= b);
  if (op == "gt") return bstr(a > b);
  if (op == "ge") return bstr(a >= b);
  if (op == "eq") return bstr(a == b);
  if (op == "ne") return bstr(a != b);
  return "unknown";
}

static std::string eval(const Sx &q) {
  const std::string &h = q[0].a;
  if (h.rfind("safe.", 0) == 0) return eval_safe(h.substr(5), q);
  std::string op = h.substr(4);
  if (op.rfind("q_", 0) == 0) return eval_q(op, q);
  if (op == "of_i64") return zs(z_number(parse_i64(q[1])));
  if (op == "of_u64") return zs(z_number::from_uint64(parse_u64(q[1])));
  if (op == "parse") return zs(z_number(q[1].a, (unsigned)std::strtoul(q[2].a.c_str(), nullptr, 10)));
  z_number a(q[1].a);
  if (op == "to_i64") return i64s(static_cast<int64_t>(a));
  if (op == "fits_i64") return bstr(a.fits_int64());
  if (op == "str") {
    unsigned base = (unsigned)std::strtoul(q[2].a.c_str(), nullptr, 10);
    std::string s = a.get_str(base);
    return s + " " + zs(z_number(s, base));
  }
  if (op == "neg") return zs(-a);
  if (op == "fill_ones") return zs(a.fill_ones());
  if (op == "incr") { z_number r(a); ++r; return zs(r); }
  if (op == "decr") { z_number r(a); --r; return zs(r); }
  if (op == "postincr") { z_number r(a); z_number o = r++; return zs(o) + " " + zs(r); }
  if (op == "postdecr") { z_number r(a); z_number o = r--; return zs(o) + " " + zs(r); }
  z_number b(q[2].a);
  if (op == "add") return zs(a + b);
  if (op == "sub") return zs(a - b);
  if (op == "mul") return zs(a * b);
  if (op == "div") return zs(a / b);
  if (op == "rem") return zs(a % b);
  if (op == "adda") { z_number r(a); r += b; return zs(r); }
  if (op == "suba") { z_number r(a); r -= b; return zs(r); }
  if (op == "mula") { z_number r(a); r *= b; return zs(r); }
  if (op == "diva") { z_number r(a); r /= b; return zs(r); }
  if (op == "rema") { z_number r(a); r %= b; return zs(r); }
  if (op == "and") return zs(a & b);
  if (op == "or") return zs(a | b);
  if (op == "xor") return zs(a ^ b);
  if (op == "shl") return zs(a << b);
  if (op == "shr") return zs(a >> b);
  if (op == "lt") return bstr(a < b);
  if (op == "le") return bstr(a <= b);
  if (op == "gt") return bstr(a > b);
  if (op == "ge") return bstr(a >= b);
  if (op == "eq") return bstr(a == b);
  if (op == "ne") return bstr(a != b);
  return "unknown";
}

// ---- generators ----
static int64_t gen_i64(Rng &r) {
  switch (r.below(10)) {
  case 0: case 1: return r.range(-9, 9);
  case 2: {
    static const int64_t edge[] = {INT64_MIN, INT64_MIN + 1, INT64_MAX, INT64_MAX - 1, 0, 1, -1,
                                   INT32_MIN, INT32_MAX, (int64_t)INT32_MIN - 1, (int64_t)INT32_MAX + 1,
                                   (int64_t)UINT32_MAX, (int64_t)UINT32_MAX + 1};
    return edge[r.below(13)];
  }
  case 3: case 4: {
    static const unsigned ks[] = {15, 16, 31, 32, 33, 47, 61, 62};
    int64_t b = (int64_t)1 << ks[r.below(8)];
    int64_t v = b + r.range(-3, 3);
    return r.coin() ? v : -v;
  }
  case 5: return INT64_MAX - r.range(0, 5);
  case 6: return INT64_MIN + r.range(0, 5);
  case 7: return r.range(-100000, 100000);
  case 8: { // around sqrt(2^63): products straddle the limit
    int64_t v = 3037000499LL + r.range(-4, 4);
    return r.coin() ? v : -v;
  }
  default: return (int64_t)r.next();
  }
}

static uint64_t gen_u64(Rng &r) {
  switch (r.below(6)) {
  case 0: return r.below(10);
  case 1: return UINT64_MAX - r.below(4);
  case 2: return ((uint64_t)1 << 63) + (uint64_t)r.range(-3, 3);
  case 3: return ((uint64_t)1 << 32) + (uint64_t)r.range(-3, 3);
  case 4: return ((uint64_t)1 << 31) + (uint64_t)r.range(-3, 3);
  default: return r.next();
  }
}

// numbers close to the int64 / int32 limits as big numbers (both sides of the limits)
static z_number gen_z_edge(Rng &r) {
  static const unsigned ks[] = {31, 32, 63, 64};
  z_number v = zpow2(ks[r.below(4)]) + z_number((int64_t)r.range(-3, 3));
  return r.coin() ? v : -v;
}

static z_number gen_zz(Rng &r) { return r.below(4) == 0 ? gen_z_edge(r) : gen_z(r); }

static z_number gen_nonzero(Rng &r, bool small) {
  for (;;) {
    z_number d = small ? gen_small_z(r) : gen_zz(r);
    if (d != z_number(0)) return d;
  }
}

// shift amounts: `mild` = inside [0, 2^64) and small; otherwise also negative / >= 2^64 amounts
// whose low 64 bits (of the absolute value) stay small, so that the left shift stays cheap
static z_number gen_shift(Rng &r, bool left) {
  unsigned k = r.below(100);
  z_number small((int64_t)r.range(0, r.below(6) == 0 ? 200 : 70));
  if (k < 90) return small;
  // the small separate share: negative amounts, amounts >= 2^64 (mpz_get_ui keeps the low 64
  // bits of the absolute value)
  if (k < 93) return -small;
  if (k < 95) return zpow2(64) * z_number((int64_t)r.range(1, 3)) + small;
  if (k == 95) return -(zpow2(64) * z_number((int64_t)r.range(1, 3)) + small);
  if (left) return small;
  // right shifts may use any amount below 2^64 ...
  if (k < 98) return zpow2(63) + z_number((int64_t)r.range(-2, 2));
  if (k == 98) return z_number((int64_t)(r.next() >> 1));
  return gen_zz(r); // ... and now and then anything
}

static std::string gen_q_text(Rng &r, int mode) {
  // mode 0: den > 0 (common factors allowed), 1: den of any sign, non-zero, 2: den >= 0, zero in a share
  bool small = r.coin(3, 4);
  z_number n = small ? gen_small_z(r, 40) : gen_zz(r);
  z_number d = small ? gen_small_z(r, 12) : gen_zz(r);
  if (r.below(6) == 0) d = z_number(1);
  if (r.below(10) == 0) n = d * gen_small_z(r, 9); // integral value
  if (mode == 0) { if (d < z_number(0)) d = -d; if (d == z_number(0)) d = z_number(1); }
  if (mode == 1) { if (d == z_number(0)) d = z_number(-3); }
  if (mode == 2) { if (d < z_number(0)) d = -d; if (r.below(8) == 0) d = z_number(0); }
  return "(q " + zs(n) + " " + zs(d) + ")";
}

static std::string gen_digits(Rng &r, unsigned base) {
  static const char *lo = "0123456789abcdefghijklmnopqrstuvwxyz";
  static const char *up = "0123456789ABCDEFGHIJKLMNOPQRSTUVWXYZ";
  std::string s;
  if (r.below(3) == 0) s += "-";
  unsigned len = 1 + r.below(r.below(4) == 0 ? 40 : 6);
  bool upper = r.coin(1, 4);
  for (unsigned i = 0; i < len; i++) s += (upper ? up : lo)[r.below(base)];
  switch (r.below(12)) { // invalid variants in a small share
  case 0: s += (char)lo[base < 36 ? base : 35]; if (base == 36) s += "!"; break; // digit out of the base
  case 1: s = "+" + s; break;
  case 2: s = "-" + s; break; // possibly "--"
  case 3: s = s + "-"; break;
  case 4: s = "-"; break;
  case 5: s += "."; break;
  default: break;
  }
  return s;
}

static const std::vector<std::string> ZBIN = {"add", "sub", "mul", "div", "rem", "and", "or", "xor"};
static const std::vector<std::string> ZBINA = {"adda", "suba", "mula", "diva", "rema"};
static const std::vector<std::string> ZCMP = {"lt", "le", "gt", "ge", "eq", "ne"};
static const std::vector<std::string> ZUN = {"neg", "incr", "decr", "postincr", "postdecr", "fits_i64", "to_i64"};
static const std::vector<std::string> QBIN = {"q_add", "q_sub", "q_mul", "q_div", "q_adda", "q_suba", "q_mula", "q_diva"};
static const std::vector<std::string> QUN = {"q_neg", "q_incr", "q_decr", "q_mk", "q_str"};
static const std::vector<std::string> SBIN = {"add", "sub", "mul", "div", "adda", "suba"};
static const std::vector<unsigned> BASES = {2, 7, 8, 10, 16, 36};

static std::string gen_safe(Rng &r) {
  unsigned k = r.below(12);
  if (k == 0) return "(safe.of_z " + zs(gen_zz(r)) + ")";
  if (k == 1) return "(safe.neg " + i64s(gen_i64(r)) + ")";
  int64_t a = gen_i64(r), b = gen_i64(r);
  if (k == 2) return "(safe." + r.pick(ZCMP) + " " + i64s(a) + " " + i64s(r.below(4) == 0 ? a : b) + ")";
  std::string op = r.pick(SBIN);
  if (op == "div") {
    if (r.below(3) == 0) b = r.coin() ? -1 : r.range(-3, 3);
    if (b == 0) b = 1;
  }
  return "(safe." + op + " " + i64s(a) + " " + i64s(b) + ")";
}

static std::string gen_qline(Rng &r) {
  unsigned k = r.below(12);
  // rounding: zero denominators in a share (expect err), negative denominators in a third
  if (k <= 2) return "(num." + std::string(r.coin() ? "q_rlo" : "q_rup") + " " + gen_q_text(r, k == 2 ? 2 : (r.below(3) == 0 ? 1 : 0)) + ")";
  if (k == 3) return "(num.q_ofz " + zs(gen_zz(r)) + ")";
  // operand shape of the remaining operations: any sign of the denominator, zero now and then
  auto qarg = [&]() { unsigned m = r.below(12); return gen_q_text(r, m == 0 ? 2 : (m < 5 ? 1 : 0)); };
  if (k == 4) return "(num." + r.pick(QUN) + " " + qarg() + ")";
  if (k == 5) return "(num.q_cmp " + qarg() + " " + qarg() + ")";
  if (k == 6) {
    // shift amount: integral mostly, sometimes not, sometimes zero denominator
    std::string amount;
    unsigned m = r.below(8);
    int64_t s = r.range(0, 70);
    if (m == 0) amount = "(q " + i64s(r.range(-70, 70)) + " " + i64s(r.range(-1, 5)) + ")"; // also non-integral, zero denominator
    else if (m == 1) { int64_t d = r.range(1, 5); amount = "(q " + i64s(s * d) + " " + i64s(d) + ")"; }
    else if (m == 2) { int64_t d = r.range(1, 5); amount = "(q " + i64s(-s * d) + " " + i64s(-d) + ")"; }
    else amount = "(q " + i64s(s) + " 1)";
    return "(num.q_shl " + qarg() + " " + amount + ")";
  }
  std::string op = r.pick(QBIN);
  std::string b = qarg();
  if ((op == "q_div" || op == "q_diva") && r.below(6) == 0) b = "(q 0 " + zs(gen_nonzero(r, true)) + ")";
  return "(num." + op + " " + qarg() + " " + b + ")";
}

static std::string gen(Rng &r, const Args &) {
  unsigned k = r.below(40);
  if (k < 8) return gen_safe(r);
  if (k < 15) return gen_qline(r);
  if (k == 15) return "(num.of_i64 " + i64s(gen_i64(r)) + ")";
  if (k == 16) return "(num.of_u64 " + std::to_string((unsigned long long)gen_u64(r)) + ")";
  if (k == 17) return "(num.str " + zs(gen_zz(r)) + " " + std::to_string(r.pick(BASES)) + ")";
  if (k == 18) { unsigned b = r.pick(BASES); return "(num.parse " + gen_digits(r, b) + " " + std::to_string(b) + ")"; }
  if (k == 19) return "(num.to_i64 " + zs(r.coin() ? gen_z_edge(r) : gen_zz(r)) + ")";
  if (k == 20) return "(num." + r.pick(ZUN) + " " + zs(gen_zz(r)) + ")";
  if (k == 21) {
    z_number x = gen_zz(r);
    if (x < z_number(0)) x = -x;
    return "(num.fill_ones " + zs(x) + ")";
  }
  bool small = r.coin(1, 3);
  z_number a = small ? gen_small_z(r, 40) : gen_zz(r);
  z_number b = small ? gen_small_z(r, 12) : gen_zz(r);
  if (k == 22) return "(num." + r.pick(ZCMP) + " " + zs(a) + " " + zs(r.below(4) == 0 ? a : b) + ")";
  if (k <= 26) { bool left = r.coin(); return "(num." + std::string(left ? "shl" : "shr") + " " + zs(a) + " " + zs(gen_shift(r, left)) + ")"; }
  std::string op = k == 27 ? r.pick(ZBINA) : r.pick(ZBIN);
  if (op == "div" || op == "rem" || op == "diva" || op == "rema") {
    if (r.below(12) == 0) b = z_number(0);            // expect err
    else if (r.below(3) == 0) b = gen_nonzero(r, true); // small divisors: remainders matter
    if (r.below(6) == 0) a = b * gen_small_z(r, 9);      // exact division
  }
  return "(num." + op + " " + zs(a) + " " + zs(b) + ")";
}

int main(int argc, char **argv) { return run_harness(argc, argv, gen, eval); }
